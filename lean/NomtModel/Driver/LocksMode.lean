import NomtModel.Driver.Parse
import NomtModel.Api.Locks2Replay
/-!
Driver mode `locks` (C15): the executable two-lock LTS (`Api/Locks2.lean`, instance `stampOps String`: the
committed content is identified with its root, written as any token without blanks, e.g. the hex root) replays
a schedule, one line per event, and answers what the model does.

Lines (`<tid>`, `<sid>`, `<id>`, `<n>` decimal; `<io>` = `ok` | `faillog` | `failstore`; `-` = none):

* `init <root>`                                       → `ok`   (fresh state, all threads idle)
* `call <tid> begin <sid>` / `beginov <sid> <base>` (session on an overlay chain built on the state with root `base`) / `end <sid>` (drop) /
  `finish <sid>` (`Session::finish`: refused with `err-superseded` if the chain's base is not the committed root) / `sread <sid>` / `nread <sid>` / `root`
* `call <tid> commit <base> <new> <delta|-> <io>` / `trycommit …` (same fields)
* `call <tid> ovcommit <base> <new> <delta|-> <id> <parent|-> <io>` / `ovtrycommit …` / `ovcommit-holdm …`
* `call <tid> rollback <n> <io>`                      → `started` | `misuse` (the thread is inside a call)
* `step <tid>`                                        → `ran <µstep>` | `blocked <µstep>` | `finished <µstep> <verdict>` | `idle`
* `at <tid> <µstep>` — "thread `tid` performed micro-step `µstep`" as the lock recorder (hook H19, `vharness lockrec`)
  reports it: the model checks that this IS the thread's next micro-step and that it is enabled, then performs it.
  `call` (of a program of the code) and `at` lines are executed by `Locks2.replayLine` (`Api/Locks2Replay.lean`), the
  function `T15_replay_sound` is about; `atv <tid> <µstep>` is the same and makes the observation steps `sess_root`,
  `read_root`, `sess_read` answer with the value they see (`Locks2.stepObs`)
                                                      → `ok ran [<value>]` | `ok finished <verdict>` | `mismatch next=<µstep>` | `mismatch blocked` | `mismatch idle`
* `spur <tid> <tid'>` — "thread `tid`'s `try_write` failed while nobody held the access lock and `tid'` was queued at it"
  (parking_lot's PARKED_BIT; `Event.spur`)            → `ok finished busy` | `mismatch not-spurious`
* `final`                                             → `root=<r> content=<c> log=<n> poisoned=<b> verdicts=<…>`: the committed state and the verdicts of the
                                                        write sections in write-guard order (what T15.6 speaks about)
* `enabled <tid>`                                     → `idle` | `enabled <µstep>` | `blocked <µstep> by <tids>`
* `state`                                             → one line with the lock words, the committed state and the ghost history

Micro-step names: `A.read A.read_unlock A.write1 A.write2 A.try_write A.write_unlock M.lock M.unlock sess_root sess_base fin_chk
read_root sess_read chk_marker chk_poison chk_root chk_seen pub_root pub_rb log_push log_pop store store_rb ret`.
-/
namespace Nomt.Driver
open Nomt Nomt.Locks2

abbrev LS := S String String String String
abbrev lOps : DbOps String String String String := stampOps String

def instrName : Instr String String String → String
  | .aRead _ => "A.read" | .aReadUnlock _ => "A.read_unlock" | .aWrite1 => "A.write1" | .aWrite2 => "A.write2"
  | .aTryWrite => "A.try_write" | .aWriteUnlock _ => "A.write_unlock" | .mLock => "M.lock" | .mUnlock => "M.unlock"
  | .sessRoot _ => "sess_root" | .sessBase _ _ => "sess_base" | .finChk _ => "fin_chk" | .readRoot => "read_root" | .sessRead _ => "sess_read"
  | .chkMarker _ => "chk_marker" | .chkPoison => "chk_poison" | .chkRoot _ => "chk_root" | .chkSeen => "chk_seen"
  | .pubRoot _ _ => "pub_root" | .pubRb => "pub_rb" | .logPush _ _ => "log_push" | .logPop _ => "log_pop"
  | .store _ _ => "store" | .storeRb _ => "store_rb" | .ret _ => "ret"

def inameStr : IName → String
  | .aRead => "A.read" | .aReadUnlock => "A.read_unlock" | .aWrite1 => "A.write1" | .aWrite2 => "A.write2"
  | .aTryWrite => "A.try_write" | .aWriteUnlock => "A.write_unlock" | .mLock => "M.lock" | .mUnlock => "M.unlock"
  | .sessRoot => "sess_root" | .sessBase => "sess_base" | .finChk => "fin_chk" | .readRoot => "read_root" | .sessRead => "sess_read"
  | .chkMarker => "chk_marker" | .chkPoison => "chk_poison" | .chkRoot => "chk_root" | .chkSeen => "chk_seen"
  | .pubRoot => "pub_root" | .pubRb => "pub_rb" | .logPush => "log_push" | .logPop => "log_pop"
  | .store => "store" | .storeRb => "store_rb" | .ret => "ret"

def allINames : List IName :=
  [.aRead, .aReadUnlock, .aWrite1, .aWrite2, .aTryWrite, .aWriteUnlock, .mLock, .mUnlock, .sessRoot, .sessBase, .finChk, .readRoot,
   .sessRead, .chkMarker, .chkPoison, .chkRoot, .chkSeen, .pubRoot, .pubRb, .logPush, .logPop, .store, .storeRb, .ret]

def parseIName (s : String) : Option IName := allINames.find? (fun n => inameStr n == s)

def resName : Res → String
  | .ok => "ok" | .done => "done" | .busy => "busy" | .errPoisoned => "err-poisoned" | .errStale => "err-stale"
  | .errParent => "err-parent" | .errNotEnough => "err-not-enough" | .errIo => "err-io" | .errSuperseded => "err-superseded"

def parseIo : String → Option IoPlan
  | "ok" => some .ok | "faillog" => some .failLog | "failstore" => some .failStore | _ => none

def optTok (s : String) : Option String := if s == "-" then none else some s
def optNat (s : String) : Option (Option Nat) := if s == "-" then some none else s.toNat?.map some

def parseCS (base new delta : String) : CS String String String :=
  { base := base, newRoot := new, writes := new, delta := optTok delta }

def parseCall : List String → Option (Call String String String)
  | ["begin", sid] => sid.toNat?.map .beginSession
  | ["beginov", sid, base] => sid.toNat?.map (fun s => .beginSessionOv s base)
  | ["finish", sid] => sid.toNat?.map .finishSession
  | ["end", sid] => sid.toNat?.map .endSession
  | ["sread", sid] => sid.toNat?.map .sessRead
  | ["nread", sid] => sid.toNat?.map .nomtRead
  | ["root"] => some .root
  | ["commit", b, n, d, io] => (parseIo io).map (.commit (parseCS b n d))
  | ["trycommit", b, n, d, io] => (parseIo io).map (.tryCommit (parseCS b n d))
  | ["ovcommit", b, n, d, id, p, io] => do
    let id ← id.toNat?; let p ← optNat p; let io ← parseIo io; pure (.ovCommit (parseCS b n d) id p io)
  | ["ovtrycommit", b, n, d, id, p, io] => do
    let id ← id.toNat?; let p ← optNat p; let io ← parseIo io; pure (.ovTryCommit (parseCS b n d) id p io)
  | ["ovcommit-holdm", b, n, d, id, p, io] => do
    let id ← id.toNat?; let p ← optNat p; let io ← parseIo io; pure (.ovCommitHoldM (parseCS b n d) id p io)
  | ["rollback", n, io] => do let n ← n.toNat?; let io ← parseIo io; pure (.rollback n io)
  | _ => none

def showOptNat : Option Nat → String | none => "-" | some n => toString n
def showOptStr : Option String → String | none => "-" | some n => n
def showList (l : List String) : String := if l.isEmpty then "-" else ",".intercalate l

/-- who holds what the head micro-step of `t` waits for -/
def holders (s : LS) (t : Tid) : List Tid :=
  match (s.thr t).prog with
  | .mLock :: _ => s.m.toList
  | .aWrite2 :: _ => s.readers.map (·.owner)
  | .aRead _ :: _ => s.wbit.toList
  | .aWrite1 :: _ => s.wbit.toList
  | _ => []

def showStepRes (i : String) : StepRes → String
  | .started => "started" | .idle => "idle" | .misuse => "misuse"
  | .blocked => s!"blocked {i}" | .ran => s!"ran {i}" | .finished r => s!"finished {i} {resName r}"

def showState (s : LS) : String :=
  let rd := showList (s.readers.map fun x => s!"{x.owner}:{x.sid}:{x.root}:{showOptStr x.prev}")
  let ops := showList (s.doneOps.reverse.map fun
    | .commit cs mk pf _ => s!"commit:{cs.base}:{cs.newRoot}:{showOptNat mk}:{if pf then "p" else "n"}"
    | .rollback n _ => s!"rollback:{n}")
  s!"readers={rd} wbit={showOptNat s.wbit} wown={s.wown} m={showOptNat s.m} root={s.db.root} content={s.db.content} log={showList s.db.log} marker={showOptNat s.db.marker} poisoned={s.db.poisoned} sections={ops} verdicts={showList (s.doneRes.reverse.map resName)}"

def locksStep (s : LS) (line : String) : LS × String :=
  match fields line with
  | ["init", r] => (init { content := r, root := r, log := [] }, "ok")
  | "call" :: t :: rest =>
    match t.toNat?, parseCall rest with
    | some t, some c =>
      if c.isCode then
        match replayLine lOps s (.call t c) with
        | (s', .started) => (s', "started")
        | (s', _) => (s', "misuse")
      else let (s', r) := next lOps s (.call t c); (s', showStepRes "" r)
    | _, _ => (s, "err parse")
  | ["step", t] =>
    match t.toNat? with
    | some t =>
      let i := match (s.thr t).prog with | i :: _ => instrName i | [] => ""
      let (s', r) := next lOps s (.step t); (s', showStepRes i r)
    | none => (s, "err parse")
  | ["spur", t, u] =>
    match t.toNat?, u.toNat? with
    | some t, some u =>
      match replayLine lOps s (.spur t u) with
      | (s', .finished v) => (s', s!"ok finished {resName v}")
      | (s', _) => (s', "mismatch not-spurious")
    | _, _ => (s, "err parse")
  | [kw, t, name] =>
    if kw != "at" && kw != "atv" then (s, "err parse") else
    match t.toNat?, parseIName name with
    | some t, some n =>
      let obs := if kw == "at" then "" else match stepObs s t with | .none => "" | .root r => " " ++ r | .content c => " " ++ c
      match replayLine lOps s (.at t n) with
      | (s', .ran) => (s', "ok ran" ++ obs)
      | (s', .finished v) => (s', s!"ok finished {resName v}")
      | (s', .idle) => (s', "mismatch idle")
      | (s', .wrongStep nx) => (s', s!"mismatch next={inameStr nx}")
      | (s', .blocked) => (s', "mismatch blocked")
      | (s', _) => (s', "mismatch")
    | _, _ => (s, "err parse")
  | ["final"] =>
    (s, s!"root={s.db.root} content={s.db.content} log={s.db.log.length} poisoned={s.db.poisoned} verdicts={showList (s.doneRes.reverse.map resName)}")
  | ["enabled", t] =>
    match t.toNat? with
    | some t =>
      match (s.thr t).prog with
      | [] => (s, "idle")
      | i :: _ =>
        if blocked s t then (s, s!"blocked {instrName i} by {showList ((holders s t).map toString)}")
        else (s, s!"enabled {instrName i}")
    | none => (s, "err parse")
  | ["state"] => (s, showState s)
  | _ => (s, "err parse")

def locksInit : LS := init { content := "-", root := "-", log := [] }

end Nomt.Driver
