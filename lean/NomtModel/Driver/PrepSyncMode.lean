import NomtModel.Driver.Parse
import NomtModel.Store.PrepareSyncModel
import NomtModel.Store.Xxh3
/-!
Driver mode `prepsync` (C04 / C03 / C17 / C19): the Lean mirror of `bitbox::DB::prepare_sync`
(`Store/PrepareSyncModel.lean` — the definitions the theorems of `Props/C04_PrepareSync.lean` are about) behind a
stateless line protocol.  The harness (`harness/src/prepsync.rs`) runs the REAL `prepare_sync` through hook
`verif_api::bitbox_sync::PrepareSim` on the same inputs; the two output streams must be identical.

`prepsync <dbg 0|1> <seed hex16> <sync_seqn> <buckets> <occupied> <wal mapping size> <meta> <changes>`

* `meta`: the meta bytes from bucket 0 on, run-length coded: tokens `hh` or `hh*count` joined by `.` (`-` = none); the rest
  of the `bitvec` (whole pages) is zero;
* `changes`: `-` or `;`-joined `<bucket info>,<page id hex32>,<w0>,<w1>,<page>` with bucket info `K<b>` (Known) / `F`
  (FreshWithNoDependents) / `U` (FreshOrDependent, cell empty) / `S<b>` (FreshOrDependent, cell set);
  `page` = `<fill hh>/<slot=hex32+slot=hex32…|->/<hex of the last 64 bytes>`: 4032 bytes `fill`, then the named 32-byte
  slots written over them, then bytes 4032..4096 (24 unused bytes, elided-children bitfield, label).

Answer: `ok occ=<occupied_buckets> full=<full_count> wal=<len>/<fnv> meta=<fnv of the bitvec> ht=<pn>/<fnv>,…|- cells=<b.b…|-> cache=<fnv>`
(`fnv` = FNV-1a-64 of the bytes; `cache`: of `page id ++ 01 ++ bucket u64le` per inserted page, `page id ++ 00` per evicted one),
`err exhaustion meta=<fnv> full=<n>`, or `panic`.
-/
namespace Nomt.Driver
open Nomt Nomt.Wal Nomt.Store Nomt.PrepSync

def fnv64 (bs : Bytes) : UInt64 :=
  bs.foldl (fun h b => (h ^^^ b.toUInt64) * 0x100000001b3) 0xcbf29ce484222325

def showFnv (bs : Bytes) : String := toString (fnv64 bs).toNat

def parseRle (s : String) : Option Bytes :=
  if s == "-" then some [] else
  (s.splitOn ".").foldlM (fun acc tok =>
    match tok.splitOn "*" with
    | [h] => do let b ← bytesOfHex h; pure (acc ++ b.toList)
    | [h, c] => do
      let b ← bytesOfHex h
      let c ← c.toNat?
      if b.size ≠ 1 then none else pure (acc ++ List.replicate c (b.get! 0))
    | _ => none) []

def parseBInfo (s : String) : Option BInfo :=
  if s == "F" then some .fresh
  else if s == "U" then some .depUnset
  else if s.startsWith "K" then (s.drop 1).toString.toNat?.map BInfo.known
  else if s.startsWith "S" then (s.drop 1).toString.toNat?.map BInfo.depSet
  else none

def parseSparsePage (s : String) : Option Bytes :=
  match s.splitOn "/" with
  | [fill, slots, tail] => do
    let f ← bytesOfHex fill
    if f.size ≠ 1 then none else
    let tl ← bytesOfHex tail
    if tl.size ≠ 64 then none else
    let base : Bytes := List.replicate 4032 (f.get! 0)
    let body ← (optList slots "+").foldlM (fun (acc : Bytes) item =>
      match item.splitOn "=" with
      | [i, h] => do
        let i ← i.toNat?
        let nb ← bytesOfHex h
        if nb.size ≠ 32 ∨ i ≥ 126 then none else pure (writeAt acc (i * 32) nb.toList)
      | _ => none) base
    pure (body ++ tl.toList)
  | _ => none

def parseDirty (s : String) : Option Dirty :=
  match s.splitOn "," with
  | [bk, pid, w0, w1, page] => do
    let bk ← parseBInfo bk
    let pid ← bytesOfHex pid
    let w0 ← w0.toNat?; let w1 ← w1.toNat?
    let page ← parseSparsePage page
    pure { pid := pid.toList, page := page, diff := ⟨w0, w1⟩, bucket := bk }
  | _ => none

def showHt (ht : List (Nat × Bytes)) : String :=
  if ht.isEmpty then "-" else ",".intercalate (ht.map fun (pn, pg) => s!"{pn}/{showFnv pg}")

def cacheBytes (c : List (Bytes × Option (Bytes × Nat))) : Bytes :=
  (c.map fun (pid, u) =>
    match u with
    | some (_, b) => pid ++ [1] ++ leBytes 8 b
    | none => pid ++ [0]).flatten

def showCells (l : List Nat) : String := if l.isEmpty then "-" else ".".intercalate (l.map toString)

def prepsyncLine (line : String) : String :=
  match fields line with
  | ["prepsync", dbg, seed, seqn, n, occ, wsize, metaS, changes] =>
    match bytesOfHex seed, seqn.toNat?, n.toNat?, occ.toNat?, wsize.toNat?, parseRle metaS,
        (optList changes ";").mapM parseDirty with
    | some seed, some seqn, some n, some occ, some wsize, some mb, some chs =>
      if seed.size ≠ 16 then "bad-op" else
      let seedN := (List.range 8).foldl (fun acc i => acc * 256 + (seed.get! i).toNat) 0
      let hash : Bytes → Nat := fun pid => xxh3_32 ⟨pid.toArray⟩ 0 seedN
      let metaLen := numMetaBytePages n * 4096
      let bitvec : Bytes := (mb ++ List.replicate (metaLen - mb.length) 0).take metaLen
      let S : St := { mm := { buckets := n, bitvec := bitvec }, occupied := occ }
      match prepareSync hash (dbg == "1") S seqn chs { size := wsize, chunks := [], cur := 0 } with
      | .ok r =>
        let blob := r.wal.asSlice
        s!"ok occ={r.occupied} full={r.mm.fullCount} wal={blob.length}/{showFnv blob} meta={showFnv r.mm.bitvec} ht={showHt r.ht} cells={showCells r.cells} cache={showFnv (cacheBytes r.cache)}"
      | .err (.bucketExhaustion mm) => s!"err exhaustion meta={showFnv mm.bitvec} full={mm.fullCount}"
      | .panic _ => "panic"
    | _, _, _, _, _, _, _ => "bad-op"
  | _ => "bad-op"

def prepsyncStep (s : Unit) (line : String) : Unit × String := (s, prepsyncLine line)

end Nomt.Driver
