import NomtModel.Driver.Parse
import NomtModel.Store.SeekRecon
import NomtModel.Store.SeekWalkerRecon
/-!
Driver mode `seek` (C05 / C11): the mirror of `merkle/seek.rs` (`Store/Seek.lean`) behind a line protocol.  The harness
(`harness/src/seek.rs`) drives the REAL `SeekRequest` through `nomt::verif_api::seek::SeekSim` (hook H18) on the same
lines; the two output streams must be identical.  `page_walker::reconstruct_pages` is the MIRROR `Walker.reconstructPages` of
`page_walker.rs` + the insert loop (`Seek.walkerRecon`, `Store/SeekWalkerRecon.lean`; pool pages zeroed) — the function
`T5_seek_recon_contract_discharged` / `T5_seek_is_proveSpec_unconditional` are about (until unit Q35: the specification
`reconSpec` of `Store/SeekRecon.lean`).

* `skenv <root> <record 0|1> <primary> <secondary|none> <leaves sep=k:v,…;sep=…|-> <overlay changes>` → `ok`
  (values `vh` or `vh!` for an overflow value; changes `key:vh`, `key:-`); everything starts over
* `skpage <ovl|cache|disk> <page id> <elided hex> <idx:node,…|->` → `ok`
* `skpush <key>` → `#<i> <state>`; `skstep <i>` → `<busy|none|cont <pid> <set|ovl|cache>|needpage <pid>|needleaf <l>> | <state>`
* `skpagein <i>` / `skleafin <i>` → `<state>` | `err` | `missing`; `skforcepage <i> <page id> <elided> <nodes>`,
  `skforceleaf <i> <l>` → `<state>`; `sktake <i>` → `seek d=… raw=… pid=… term=… sibs=…`
* `sknewset <0|1>` → `ok`; `skset` → the working page set; `skpg <page id>` → the slots of that page reachable through
  internal nodes
a panic of the mirror is the line `panic`.
-/
namespace Nomt.Driver
open Nomt Nomt.Ovl Nomt.TriePos Nomt.Seek

namespace SK

abbrev SV := ByteArray × Bool        -- value hash, overflow flag
abbrev SEnv := Env ByteArray ByteArray SV
abbrev SSys := Sys ByteArray ByteArray SV

structure St where
  env : Option SEnv := none
  sys : SSys := {}

def parsePath (s : String) : Option PageId :=
  if s == "-" then some [] else
  match (s.splitOn ".").mapM String.toNat? with
  | some p => if p.all (· < 64) && p.length ≤ 42 then some p else none
  | none => none

def showPath (p : PageId) : String := if p.isEmpty then "-" else ".".intercalate (p.map toString)

def natOfHex (s : String) : Option Nat :=
  s.toList.foldlM (fun acc c => (hexVal c).map (fun v => acc * 16 + v)) 0

def parseVal (s : String) : Option SV :=
  if s.endsWith "!" then (bytesOfHex (s.dropEnd 1).toString).map (fun b => (b, true))
  else (bytesOfHex s).map (fun b => (b, false))

def parseChanges (s : String) : Option (List (Key × Option SV)) :=
  (optList s ",").mapM (fun item =>
    match item.splitOn ":" with
    | [k, "-"] => do let k ← keyOfHex k; pure (k, none)
    | [k, v] => do let k ← keyOfHex k; let v ← parseVal v; pure (k, some v)
    | _ => none)

def parseEntries (s : String) : Option (List (Key × SV)) :=
  (optList s ",").mapM (fun item =>
    match item.splitOn ":" with
    | [k, v] => do let k ← keyOfHex k; let v ← parseVal v; pure (k, v)
    | _ => none)

def parseLeaves (s : String) : Option (List (Leaf SV)) :=
  (optList s ";").mapM (fun item =>
    match item.splitOn "=" with
    | [sep, es] => do let sep ← keyOfHex sep; let es ← parseEntries es; pure { sep := sep, entries := es }
    | _ => none)

def parsePage (elided nodes : String) : Option (MPage ByteArray) := do
  let e ← natOfHex elided
  let ns ← (optList nodes ",").mapM (fun item =>
    match item.splitOn ":" with
    | [i, n] => do let i ← i.toNat?; let n ← bytesOfHex n; pure (i, n)
    | _ => none)
  pure { nodes := fun i => (ns.lookup i).getD zeros32, elided := e }

def showState (r : Req ByteArray ByteArray SV) (aw : Option Query) : String :=
  let st := match r.st with
    | .seeking => "seeking"
    | .fetchingLeaf dels _ _ => s!"leaf:{dels.length}"
    | .fetchingLeaves _ _ _ _ coll => s!"leaves:{coll.length}"
    | .completed none => "done:T"
    | .completed (some (k, v)) => s!"done:L:{hexOfKey k}:{hexOfBytes v}"
  let ni := if r.pos.depth == 0 then "-" else toString r.pos.nodeIndex
  let pid := match r.pageId with | none => "none" | some p => showPath p
  let last := match r.sibs.getLast? with | none => "-" | some n => hexOfBytes n
  let aws := match aw with
    | none => "-"
    | some (.page p) => s!"P:{showPath p}"
    | some (.leaf l) => s!"L:{l}"
  s!"{st} d={r.pos.depth} ni={ni} raw={hexOfKey r.pos.raw} pid={pid} ns={r.sibs.length} last={last} ios={r.ios} aw={aws}"

def showReq (s : SSys) (i : Nat) : String :=
  match s.reqs[i]? with
  | some (r, aw) => showState r aw
  | none => "bad-op"

def insertSorted (x : PageId × Origin) : List (PageId × Origin) → List (PageId × Origin)
  | [] => [x]
  | y :: ys => if pidLt x.1 y.1 then x :: y :: ys else y :: insertSorted x ys

def showSet (ps : PageSet ByteArray) : String :=
  let dedup := ps.map.foldl (fun (acc : List (PageId × Origin)) e =>
    if acc.any (·.1 == e.1) then acc else acc ++ [(e.1, e.2.2)]) []
  let sorted := dedup.foldr insertSorted []
  if sorted.isEmpty then "-" else
  ",".intercalate (sorted.map (fun (p, o) => s!"{showPath p}:{match o with | .persisted => "P" | .reconstructed => "R"}"))

/-- the slots of a page reachable from its top through internal nodes, left before right, depth first -/
def reachSlots (pg : MPage ByteArray) : Nat → List Bool → List (Nat × ByteArray)
  | 0, _ => []
  | fuel + 1, l =>
    [false, true].flatMap (fun b =>
      let l' := l ++ [b]
      let i := nodeIndexOf l'
      let n := pg.nodes i
      (i, n) :: (if l'.length < 6 && blakeHasher.kind n == .internal then reachSlots pg fuel l' else []))

def showSlots (l : List (Nat × ByteArray)) : String :=
  if l.isEmpty then "-" else ",".intercalate (l.map (fun (i, n) => s!"{i}:{hexOfBytes n}"))

def mkEnv (root : ByteArray) (record : Bool) (prim sec : List (Key × Option SV)) (leaves : List (Leaf SV))
    (ov : List (Key × Option SV)) : SEnv :=
  { kind := blakeHasher.kind, root := root, record := record, primary := prim, secondary := sec, leaves := leaves,
    vh := fun v => v.1, ov := ov.map (fun (k, c) => (k, c.map (·.1))), ovPages := [], disk := [],
    recon := walkerRecon blakeHasher (fun _ => List.replicate 126 blakeHasher.term) }

def outSys (s : St) (i : Nat) : Outcome Unit SSys → St × String
  | .ok sys => ({ s with sys := sys }, showReq sys i)
  | .panic _ => (s, "panic")
  | .err _ => (s, "err")

def step (s : St) (line : String) : St × String :=
  match fields line with
  | ["skenv", root, record, prim, sec, leaves, ov] =>
    match bytesOfHex root, parseChanges prim, (if sec == "none" then some [] else parseChanges sec), parseLeaves leaves,
          parseChanges ov with
    | some root, some prim, some sec, some leaves, some ov =>
      ({ env := some (mkEnv root (record == "1") prim sec leaves ov), sys := {} }, "ok")
    | _, _, _, _, _ => (s, "bad-op")
  | ["skpage", src, pid, elided, nodes] =>
    match s.env, parsePath pid, parsePage elided nodes with
    | some env, some pid, some pg =>
      if src == "ovl" then ({ s with env := some { env with ovPages := env.ovPages ++ [(pid, pg)] } }, "ok")
      else if src == "disk" then ({ s with env := some { env with disk := env.disk ++ [(pid, pg)] } }, "ok")
      else if src == "cache" then
        -- `PageCache::insert` keeps the first image
        (match s.sys.cache.lookup pid with
         | some _ => (s, "ok")
         | none => ({ s with sys := { s.sys with cache := (pid, pg) :: s.sys.cache } }, "ok"))
      else (s, "bad-op")
    | _, _, _ => (s, "bad-op")
  | ["skpush", key] =>
    match s.env, keyOfHex key with
    | some env, some key =>
      (match push env s.sys key with
       | .ok sys => ({ s with sys := sys }, s!"#{sys.reqs.length - 1} {showReq sys (sys.reqs.length - 1)}")
       | .panic _ => (s, "panic")
       | .err _ => (s, "err"))
    | _, _ => (s, "bad-op")
  | ["skstep", i] =>
    match s.env, i.toNat? with
    | some env, some i =>
      (match Seek.step env s.sys i with
       | .ok (sys, out) =>
         let what := match out with
           | .busy => "busy"
           | .noQuery => "none"
           | .continued p src =>
             s!"cont {showPath p} {match src with | .set => "set" | .ovl => "ovl" | .cache => "cache"}"
           | .needPage p => s!"needpage {showPath p}"
           | .needLeaf l => s!"needleaf {l}"
         ({ s with sys := sys }, s!"{what} | {showReq sys i}")
       | .panic _ => (s, "panic")
       | .err _ => (s, "err"))
    | _, _ => (s, "bad-op")
  | ["skpagein", i] =>
    match s.env, i.toNat? with
    | some env, some i =>
      (match s.sys.reqs[i]? with
       | some (_, some (.page pid)) =>
         if (env.disk.lookup pid).isNone then (s, "missing") else outSys s i (supplyPage env s.sys i)
       | _ => (s, "err"))
    | _, _ => (s, "bad-op")
  | ["skleafin", i] =>
    match s.env, i.toNat? with
    | some env, some i => outSys s i (supplyLeaf env s.sys i)
    | _, _ => (s, "bad-op")
  | ["skforcepage", i, pid, elided, nodes] =>
    match s.env, i.toNat?, parsePath pid, parsePage elided nodes with
    | some env, some i, some pid, some pg => outSys s i (forcePage env s.sys i pid pg)
    | _, _, _, _ => (s, "bad-op")
  | ["skforceleaf", i, l] =>
    match s.env, i.toNat?, l.toNat? with
    | some env, some i, some l => outSys s i (forceLeaf env s.sys i l)
    | _, _, _ => (s, "bad-op")
  | ["sktake", i] =>
    match i.toNat?.bind (fun i => s.sys.reqs[i]?) with
    | some (r, _) =>
      (match r.result with
       | some res =>
         let pid := match res.pageId with | none => "none" | some p => showPath p
         let t := match res.terminal with
           | none => "T"
           | some (k, v) => s!"L:{hexOfKey k}:{hexOfBytes v}"
         (s, s!"seek d={res.pos.depth} raw={hexOfKey res.pos.raw} pid={pid} term={t} sibs={showHexList res.sibs}")
       | none => (s, "notdone"))
    | none => (s, "bad-op")
  | ["sknewset", f] => ({ s with sys := newPageSet s.sys (f == "1") }, "ok")
  | ["skset"] => (s, showSet s.sys.ps)
  | ["skpg", pid] =>
    match parsePath pid with
    | some pid =>
      (match s.sys.ps.get pid with
       | some (pg, _) => (s, showSlots (reachSlots pg 6 []))
       | none => (s, "none"))
    | none => (s, "bad-op")
  | _ => (s, "bad-op")

end SK

def seekStep := SK.step

end Nomt.Driver
