import NomtModel.Basic.Bytes
import NomtModel.Store.LeafPushChunk
/-!
Driver mode `pushchunk` (C16 / C01): the byte-level mirror of `LeafBuilder::{new, push_cell, push_chunk, finish}`
(`Store/LeafPushChunk.lean`, the definitions `T16_leaf_push_chunk_rt` is about) behind a stateless line protocol.
The harness (`vharness pushchunk`) drives the REAL `LeafBuilder` through `nomt::verif_api::leaf_builder` on the same
inputs; the two output streams must be identical.

One line per case (numbers decimal, bytes lowercase hex, `-` = empty byte string):

`lb <n> <total> <k> <op_1> … <op_k>` — `LeafBuilder::new(pool, n, total)` on a zeroed page, then the `k` operations
`P <key> <0|1> <value>` (`push_cell(key, value, overflow)`) or `C <from> <to> <base page>` (`push_chunk` from the leaf
with the given 4096 bytes), then `finish()`: `ok <page>` or `panic`.
-/
namespace Nomt.Driver
open Nomt Nomt.Store

def pcBytes (s : String) : Option (List UInt8) := if s == "-" then some [] else (bytesOfHex s).map (·.toList)

inductive LbOp where
  | push (key value : List UInt8) (ov : Bool)
  | chunk (frm to : Nat) (base : List UInt8)

def parseLbOps : Nat → List String → Option (List LbOp)
  | 0, [] => some []
  | k + 1, "P" :: key :: ov :: value :: r => do
    let key ← pcBytes key
    if key.length ≠ 32 then none
    let value ← pcBytes value
    let rest ← parseLbOps k r
    pure (.push key value (ov == "1") :: rest)
  | k + 1, "C" :: f :: t :: base :: r => do
    let f ← f.toNat?
    let t ← t.toNat?
    let base ← pcBytes base
    if base.length ≠ 4096 then none
    let rest ← parseLbOps k r
    pure (.chunk f t base :: rest)
  | _, _ => none

def runLbOps : List LbOp → LeafB → Option LeafB
  | [], b => some b
  | .push key value ov :: r, b =>
    match lbPush b key value ov with
    | .ok b' => runLbOps r b'
    | _ => none
  | .chunk f t base :: r, b =>
    match lbPushChunk .none b base f t with
    | .ok b' => runLbOps r b'
    | _ => none

def pushchunkLine (line : String) : String :=
  match (line.trimAscii.toString.splitOn " ").filter (· ≠ "") with
  | "lb" :: n :: total :: k :: ops =>
    match n.toNat?, total.toNat?, k.toNat? with
    | some n, some total, some k =>
      match parseLbOps k ops with
      | none => "bad line"
      | some ops =>
        match runLbOps ops (lbNew (List.replicate 4096 0) n total) with
        | none => "panic"
        | some b =>
          match lbFinish b with
          | .ok pg => "ok " ++ hexOfBytes pg.toByteArray
          | _ => "panic"
    | _, _, _ => "bad line"
  | _ => "bad line"

def pushchunkStep (s : Unit) (line : String) : Unit × String := (s, pushchunkLine line)

end Nomt.Driver
