import NomtModel.Driver.Parse
import NomtModel.Store.SegModel
import NomtModel.Store.SegFrame
import NomtModel.Store.DeltaCodec
/-!
Driver mode `seglog` (C09 / C03 / C10): the executable model of the segmented rollback log
(`Store/SegModel.lean`: a directory of segment files, `append` / `prune_oldest` / `prune_recent` / `open` with
recovery, each with its ordered file-system effects) and of the delta codec (`Store/DeltaCodec.lean`) behind a line
protocol.  The harness (`harness/src/seglog.rs`) drives the REAL `SegmentedLog`, `Delta::{encode, decode}` and
`Rollback::read` (through `nomt::verif_api`, cfg nomt_verif) on a scratch directory and prints the same lines.

State-changing lines:
* `new <max_segment_size>`                     → `ok`
* `open <start_live> <end_live>`               → `ok recs=… range=s,e tr=… dir=…` | `err <kind> tr=… dir=…`
* `append <payloadhex|->`                      → `ok <record id> range=… tr=… dir=…` | `err …`
* `pruneold <n>` / `prunerecent <n>`           → `ok range=… tr=… dir=…` | `err <kind> …` | `panic …`
* `close`                                      → `ok`
Probes on a copy of the directory (state unchanged):
* `probe <muts|-> <k|-> <s> <e>` — mutate the copy, `open(s,e)`; with `k`: that recovery dies at its `k`-th effect and
  a second `open(s,e)` answers
* `crash <k> <muts|-> <j|-> <s> <e> | <op>` — `<op>` (`append …`, `pruneold n`, `prunerecent n`) dies at its `k`-th
  file-system effect (`k` ≥ number of effects: it completes), the image is mutated (torn tail: `trunc:<seg>:<n>`),
  optionally a recovery dies at its `j`-th effect, then `open(s,e)` answers
* `reprobe <s> <e> <seg.seg…|->` — `open(s,e)` completes on the copy, the listed segments it unlinked come back (their
  unlinks were not yet durable, the cut of the head was), `open(s,e)` again
* `rbread <max_rollback_log_len> <s> <e>` — `Rollback::read`: `ok <id>:<number of priors>,…` | `err …`
* `deltaenc <erase keys|-> <reinstate key:value|->` → `ok <len>:<fnv>`;  `deltadec <hex|->` → `ok <sorted priors>` | `err <kind>`

`recs` = `id:len:fnv,…`; `dir` = `segid:size:fnv;…` ascending (fnv = FNV-1a 64 of the payload / the file content);
`tr` = the effects in order: `C<seg>` create, `A<len>` append, `L<n>` set_len, `F` fsync, `D` directory fsync, `U<seg>` unlink.
Mutations (`+`-separated): `rm:<seg>`, `new:<seg>`, `trunc:<seg>:<n>`, `add:<seg>:<record id>:<payloadhex|->:<k|->`
(append a record, or only its first `k` bytes, to a file without torn tail).
-/
namespace Nomt.Driver.SegD
open Nomt Nomt.Seg Nomt.Driver

structure SegSt where
  maxSeg : Nat := 4096
  dir : Dir := []
  log : Option Log := none

def hex16 (x : UInt64) : String :=
  String.ofList ((List.range 16).map fun i => hexDigit ((x.toNat / 16 ^ (15 - i)) % 16))

def showRecs (l : List Rec) : String :=
  if l.isEmpty then "-" else ",".intercalate (l.map fun r => s!"{r.id}:{r.payload.length}:{hex16 (fnvBytes fnvInit r.payload)}")

def showDir (d : Dir) : String :=
  if d.isEmpty then "-" else ";".intercalate ((sortById d).map fun x => s!"{x.1}:{x.2.size}:{hex16 (fnvFile x.2)}")

def showEffsAux : List FsEff → Nat → List String
  | [], _ => []
  | .create id :: es, _ => s!"C{id}" :: showEffsAux es 0
  | .write _ _ k :: es, last => s!"A{k - last}" :: showEffsAux es k
  | .setLen _ n :: es, _ => s!"L{n}" :: showEffsAux es 0
  | .fsync _ :: es, _ => "F" :: showEffsAux es 0
  | .dirsync :: es, _ => "D" :: showEffsAux es 0
  | .unlink id :: es, _ => s!"U{id}" :: showEffsAux es 0

def showEffs (es : List FsEff) : String := if es.isEmpty then "-" else ".".intercalate (showEffsAux es 0)

def showErr : Err → String
  | .rangeNil => "rangenil"
  | .segIdNil => "segidnil"
  | .gap t l => s!"gap:{t}:{l}"
  | .shortRead => "shortread"
  | .unordered t e => s!"unordered:{t}:{e}"
  | .noFirstLive => "nofirst"
  | .noLastLive => "nolast"
  | .invalidLive => "invalidlive"
  | .noLastRecord => "nolastrec"
  | .tooLarge => "toolarge"
  | .exists => "exists"

def showRange (L : Log) : String := s!"{L.startLive},{L.endLive}"

def payloadOfHex (s : String) : Option (List UInt8) :=
  if s == "-" then some [] else (bytesOfHex s).map (·.toList)

def showORes (r : ORes) (withTrace : Bool := true) : String :=
  let tail := (if withTrace then s!" tr={showEffs r.effs}" else "") ++ s!" dir={showDir r.dir}"
  match r.out with
  | .ok (L, recs) => s!"ok recs={showRecs recs} range={showRange L}{tail}"
  | .err e => s!"err {showErr e}{tail}"
  | .panic m => s!"panic {m}{tail}"

def showRes (r : Res) (showId : Bool) : String :=
  let tail := s!" range={showRange r.log} tr={showEffs r.effs} dir={showDir r.dir}"
  match r.out with
  | .ok v => (if showId then s!"ok {v}" else "ok") ++ tail
  | .err e => s!"err {showErr e}{tail}"
  | .panic _ => "panic" ++ tail

/-- one mutation of a directory image -/
def applyMut (d : Dir) (m : String) : Option Dir :=
  match m.splitOn ":" with
  | ["rm", id] => do
    let id ← id.toNat?
    if (lookup d id).isNone then none else pure (applyEff d (.unlink id))
  | ["new", id] => do
    let id ← id.toNat?
    if (lookup d id).isSome then none else pure (applyEff d (.create id))
  | ["trunc", id, n] => do
    let id ← id.toNat?
    let n ← n.toNat?
    let f ← lookup d id
    if n ≤ f.size then pure (applyEff d (.setLen id n)) else none
  | ["add", seg, rid, hex, k] => do
    let seg ← seg.toNat?
    let rid ← rid.toNat?
    let p ← payloadOfHex hex
    let f ← lookup d seg
    if f.torn.isSome then none
    else
      let r : Rec := ⟨rid, p⟩
      let k ← (if k == "-" then some r.size else k.toNat?)
      if k = 0 ∨ r.size < k then none else pure (applyEff d (.write seg r k))
  | _ => none

def applyMuts (d : Dir) (s : String) : Option Dir :=
  if s == "-" then some d else (s.splitOn "+").foldlM applyMut d

def parseNatListDot (s : String) : Option (List Nat) :=
  if s == "-" then some [] else (s.splitOn ".").mapM String.toNat?

def optNat (s : String) : Option (Option Nat) := if s == "-" then some none else s.toNat?.map some

/-- `open(s,e)` on an image; with `j`: a first recovery dies at its `j`-th effect and a second one answers -/
def openAfterCrash (maxSeg : Nat) (img : Dir) (j : Option Nat) (s e : Nat) : ORes :=
  match j with
  | none => openM maxSeg s e img
  | some j =>
    let r1 := openM maxSeg s e img
    openM maxSeg s e (applyEffs img (r1.effs.take j))

def runOp (st : SegSt) (L : Log) (ws : List String) : Option Res :=
  match ws with
  | ["append", hex] => (payloadOfHex hex).map (append L st.dir)
  | ["pruneold", n] => n.toNat?.map (pruneOldest L st.dir)
  | ["prunerecent", n] => n.toNat?.map (pruneRecent L st.dir)
  | _ => none

def parseKeys (s : String) : Option (List Bytes) :=
  (optList s ",").mapM (fun k => (bytesOfHex k).map (·.toList))

def parseKVs (s : String) : Option (List (Bytes × Bytes)) :=
  (optList s ",").mapM (fun kv =>
    match kv.splitOn ":" with
    | [k, v] => do let k ← bytesOfHex k; let v ← payloadOfHex v; pure (k.toList, v)
    | _ => none)

def hexOfList (l : List UInt8) : String := hexOfBytes ⟨l.toArray⟩

def showPrior (x : Bytes × Option Bytes) : String :=
  match x.2 with
  | none => s!"{hexOfList x.1}:-"
  | some v => s!"{hexOfList x.1}:{v.length}:{hex16 (fnvBytes fnvInit v)}"

def insertStr (x : String) : List String → List String
  | [] => [x]
  | y :: ys => if x ≤ y then x :: y :: ys else y :: insertStr x ys

def sortStrs (l : List String) : List String := l.foldr insertStr []

def showDErr : DErr → String
  | .eof => "shortread"
  | .dupErase => "duperase"
  | .dupReinstate => "dupreinstate"

def lastN (n : Nat) (l : List α) : List α := l.drop (l.length - n)

/-- `Rollback::read`: decode every record handed out by `open` (the first failure aborts), keep the last `maxLen`.
Issued by the harness only for ranges on which the scan itself succeeds (then a decode error is the first error). -/
def rbRead (maxSeg maxLen s e : Nat) (d : Dir) : String :=
  let r := openM maxSeg s e d
  match r.out with
  | .err e' => s!"err {showErr e'}"
  | .panic m => s!"panic {m}"
  | .ok (_, recs) =>
    match recs.mapM (fun rc => match deltaDecode rc.payload with
        | .ok m => Except.ok (rc.id, m.length) | .error x => .error x) with
    | .error x => s!"err {showDErr x}"
    | .ok ids =>
      let kept := lastN maxLen ids
      "ok " ++ (if kept.isEmpty then "-" else ",".intercalate (kept.map fun x => s!"{x.1}:{x.2}"))

def seglogStep (st : SegSt) (line : String) : SegSt × String :=
  let (main, opPart) :=
    match line.trimAscii.toString.splitOn " | " with
    | [a, b] => (a, some b)
    | _ => (line, none)
  match fields main, opPart with
  | ["new", m], none =>
    match m.toNat? with
    | some m => ({ maxSeg := m, dir := [], log := none }, "ok")
    | none => (st, "bad-op")
  | ["open", s, e], none =>
    match s.toNat?, e.toNat? with
    | some s, some e =>
      let r := openM st.maxSeg s e st.dir
      let log := match r.out with | .ok (L, _) => some L | _ => none
      ({ st with dir := r.dir, log := log }, showORes r)
    | _, _ => (st, "bad-op")
  | ["close"], none => ({ st with log := none }, "ok")
  | ["append", hex], none =>
    match st.log, payloadOfHex hex with
    | some L, some p =>
      let r := append L st.dir p
      ({ st with dir := r.dir, log := some r.log }, showRes r true)
    | _, _ => (st, "bad-op")
  | ["pruneold", n], none =>
    match st.log, n.toNat? with
    | some L, some n =>
      let r := pruneOldest L st.dir n
      ({ st with dir := r.dir, log := some r.log }, showRes r false)
    | _, _ => (st, "bad-op")
  | ["prunerecent", n], none =>
    match st.log, n.toNat? with
    | some L, some n =>
      let r := pruneRecent L st.dir n
      ({ st with dir := r.dir, log := some r.log }, showRes r false)
    | _, _ => (st, "bad-op")
  | ["probe", muts, k, s, e], none =>
    match applyMuts st.dir muts, optNat k, s.toNat?, e.toNat? with
    | some img, some k, some s, some e => (st, showORes (openAfterCrash st.maxSeg img k s e))
    | _, _, _, _ => (st, "bad-op")
  | ["crash", k, muts, j, s, e], some op =>
    match st.log, k.toNat?, optNat j, s.toNat?, e.toNat? with
    | some L, some k, some j, some s, some e =>
      match runOp st L (fields op) with
      | none => (st, "bad-op")
      | some r =>
        let img := applyEffs st.dir (r.effs.take k)
        match applyMuts img muts with
        | none => (st, "bad-op")
        | some img' => (st, (if r.effs.length ≤ k then s!"n={r.effs.length} " else "") ++ showORes (openAfterCrash st.maxSeg img' j s e) false)
    | _, _, _, _, _ => (st, "bad-op")
  | ["reprobe", s, e, ids], none =>
    -- recovery completes (its cut of the head is durable), but the unlinks of these segments are lost: they are back
    match s.toNat?, e.toNat?, parseNatListDot ids with
    | some s, some e, some ids =>
      let r1 := openM st.maxSeg s e st.dir
      let img := r1.dir ++ st.dir.filter (fun x => ids.contains x.1 && (lookup r1.dir x.1).isNone)
      (st, showORes (openM st.maxSeg s e img))
    | _, _, _ => (st, "bad-op")
  | ["rbread", ml, s, e], none =>
    match ml.toNat?, s.toNat?, e.toNat? with
    | some ml, some s, some e => (st, rbRead st.maxSeg ml s e st.dir)
    | _, _, _ => (st, "bad-op")
  | ["deltaenc", er, re], none =>
    match parseKeys er, parseKVs re with
    | some er, some re =>
      let b := deltaEncode ⟨er, re⟩
      (st, s!"ok {b.length}:{hex16 (fnvBytes fnvInit b)}")
    | _, _ => (st, "bad-op")
  | ["deltadec", hex], none =>
    match payloadOfHex hex with
    | some b =>
      match deltaDecode b with
      | .ok m => (st, "ok " ++ (if m.isEmpty then "-" else ",".intercalate (sortStrs (m.map showPrior))))
      | .error x => (st, s!"err {showDErr x}")
    | none => (st, "bad-op")
  | _, _ => (st, "bad-op")

end Nomt.Driver.SegD
