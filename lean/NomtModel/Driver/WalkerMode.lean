import NomtModel.Driver.Parse
import NomtModel.Store.WalkerModel
import Std.Data.HashMap
/-!
Driver mode `walker` (C02 / C16 / C13): the mirror of `PageWalker` (`Store/WalkerModel.lean`) over a page set kept by the
driver, behind a stateful line protocol.  The harness (`vharness walker`) drives the REAL `PageWalker<Blake3Hasher>` through
`nomt::verif_api::page_walker` with the same calls; the two output streams must be identical.

Page ids `-` (root) or `a.b.c`; bit paths `-` or `0101`; nodes / keys 32 bytes lowercase hex; numbers decimal.

* `wreset <g|->` — forget everything; `fresh` hands out zero pages (`-`) or the garbage pattern `g`: `ok`
* `wput <pid> <origin> <elided> <slots>` — insert a page into the page set; origin `P.<n>` | `P.fresh` | `R.<plc>.<clc>.<w0>.<w1>`;
  slots `-` or `i=hex,…` (the others zero): `ok`
* `wnew <root> <parent pid|none> <inhibit 0|1>` — `PageWalker::new` (+ the elision switch): `ok`
* `wadv <bits>` / `wrep <bits> <ops>` / `wplace <bits> <node>` — `advance` / `advance_and_replace` / `advance_and_place_node`:
  `ok <state>` | `panic` (the walker is gone afterwards: `nowalker`)
* `wconclude` — `conclude`: `ok root=<hex|-> cpr=<bits=hex,…|-> pages=<pid|elided|w0|w1|bucket|slots;…|->` | `panic`
* `wrecon <pid> <bits> <ops>` — `reconstruct_pages` with the page stored under `pid`, results inserted as `seek` does:
  `ok <pid|elided|w0|w1|plc|clc|slots;…>` | `none` | `nopage` | `panic`
* `wapply` — the commit: reconstructed pages are forgotten, the pages of all outputs since the last `wapply` are stored (fresh
  bucket numbers from a counter) or removed (cleared): `ok`
* `wset` — the page set: `ok <pid:origin:digest;…>` in `PageId` order
-/
namespace Nomt.Driver
open Nomt Nomt.TriePos Nomt.Walker
open Nomt.Wal (PageDiff)

namespace WK

abbrev PSet := Std.HashMap PageId (Page ByteArray × Origin)

structure St where
  garbage : Option Nat := none
  set : PSet := {}
  walker : Option (Walker ByteArray) := none
  pending : List (PageOut ByteArray) := []
  nextBucket : Nat := 1

def garbageNode (g : Nat) (pid : PageId) (slot : Nat) : ByteArray :=
  let d := pid.length % 256
  let last := pid.getLast?.getD 0
  let b0 := (g * 37 + (slot % 256) * 101 + last) % 256
  let head : List UInt8 := [b0, g, slot, d, last].map (fun n => UInt8.ofNat (n % 256))
  let tail : List UInt8 := (List.range 27).map (fun j => UInt8.ofNat ((g + j + 5) % 256))
  ⟨(head ++ tail).toArray⟩

def freshNodes (garbage : Option Nat) (pid : PageId) : List ByteArray :=
  match garbage with
  | none => List.replicate 126 zeros32
  | some g => (List.range 126).map (garbageNode g pid)

def pageSet (st : St) : PageSet ByteArray :=
  { get := fun p => st.set.get? p, fresh := freshNodes st.garbage }

def parsePid (s : String) : Option PageId :=
  if s == "-" then some [] else
  match (s.splitOn ".").mapM String.toNat? with
  | some p => if p.all (· < 64) && p.length ≤ 42 then some p else none
  | none => none

def showPid (p : PageId) : String := if p.isEmpty then "-" else ".".intercalate (p.map toString)

def posOfBits (b : List Bool) : Option Pos := if b.isEmpty then some Pos.new else Pos.fromBitslice b

def parseKVs (s : String) : Option (List (Key × ByteArray)) :=
  (optList s ",").mapM (fun item =>
    match item.splitOn ":" with
    | [k, v] => do let k ← keyOfHex k; let v ← bytesOfHex v; pure (k, v)
    | _ => none)

def parseSlots (s : String) : Option (List ByteArray) := do
  let items ← (optList s ",").mapM (fun item =>
    match item.splitOn "=" with
    | [i, h] => do let i ← i.toNat?; let h ← bytesOfHex h; pure (i, h)
    | _ => none)
  pure (items.foldl (fun acc (i, h) => acc.set i h) (List.replicate 126 zeros32))

def parseOrigin (s : String) : Option Origin :=
  match s.splitOn "." with
  | ["P", "fresh"] => some (.persisted none)
  | ["P", n] => n.toNat?.map (fun n => .persisted (some n))
  | ["R", a, b, c, d] => do
    let a ← a.toNat?; let b ← b.toNat?; let c ← c.toNat?; let d ← d.toNat?
    pure (.reconstructed a b ⟨c, d⟩)
  | _ => none

def showBucket : Option Nat → String
  | none => "fresh"
  | some n => toString n

def showOrigin : Origin → String
  | .persisted b => s!"P.{showBucket b}"
  | .reconstructed a b d => s!"R.{a}.{b}.{d.w0}.{d.w1}"

def showSlots (pg : Page ByteArray) : String :=
  let items := (pg.nodes.zipIdx).filterMap (fun (n, i) => if n == zeros32 then none else some s!"{i}={hexOfBytes n}")
  if items.isEmpty then "-" else ",".intercalate items

/-- FNV-1a 64 over the 126 slots and the bitfield (8 bytes, little endian) -/
def digest (pg : Page ByteArray) (elided : Nat) : UInt64 :=
  let step (h : UInt64) (b : UInt8) : UInt64 := (h ^^^ b.toUInt64) * 0x100000001b3
  let h := pg.nodes.foldl (fun h n => n.foldl step h) 0xcbf29ce484222325
  (List.range 8).foldl (fun h k => step h (UInt8.ofNat (elided / 256 ^ k % 256))) h

def hex16 (x : UInt64) : String :=
  String.ofList ((List.range 16).map fun i => hexDigit ((x.toNat >>> (4 * (15 - i))) % 16))

def showOptNat : Option Nat → String
  | none => "-"
  | some n => toString n

def showStackEntry (e : StackPage ByteArray) : String :=
  let b := match e.bucket with
    | none => "none"
    | some b => showBucket b
  let rd := match e.reconDiff with
    | none => "-"
    | some d => s!"{d.w0}.{d.w1}"
  s!"{showPid e.pageId}/{e.diff.w0}/{e.diff.w1}/{b}/{showOptNat e.pageLeaves}/{showOptNat e.prevChildrenLeaves}/{showOptNat e.childrenLeaves}/{e.elided}/{rd}"

def showState (w : Walker ByteArray) : String :=
  let last := match w.lastPosition with
    | none => "none"
    | some p => showBits p.path
  let prev := match w.prevNode with
    | none => "-"
    | some n => hexOfBytes n
  let sib := if w.siblingStack.isEmpty then "-" else
    ",".intercalate (w.siblingStack.map fun (n, d) => s!"{hexOfBytes n}@{d}")
  let stack := if w.stack.isEmpty then "-" else ";".intercalate (w.stack.reverse.map showStackEntry)
  let top := match w.stack with
    | [] => "-"
    | t :: _ => hex16 (digest t.page t.elided)
  s!"ok pos={showBits w.position.path} last={last} root={hexOfBytes w.root} cpr={w.childPageRoots.length} out={w.outputPages.length} prev={prev} sib={sib} stack={stack} top={top}"

def showUpdated : PageOut ByteArray → String
  | .updated pid pg d b => s!"{showPid pid}|{pg.elided}|{d.w0}|{d.w1}|{showBucket b}|{showSlots pg}"
  | .reconstructed pid pg cl d => s!"{showPid pid}|{pg.elided}|{d.w0}|{d.w1}|R{cl}|{showSlots pg}"

def showOutput : Output ByteArray → String
  | .root n pages =>
    let ps := if pages.isEmpty then "-" else ";".intercalate (pages.map showUpdated)
    s!"ok root={hexOfBytes n} cpr=- pages={ps}"
  | .childPageRoots roots pages =>
    let ps := if pages.isEmpty then "-" else ";".intercalate (pages.map showUpdated)
    let cpr := if roots.isEmpty then "-" else ",".intercalate (roots.map fun (p, n) => s!"{showBits p.path}={hexOfBytes n}")
    s!"ok root=- cpr={cpr} pages={ps}"

def showRecon (l : List (Reconstructed ByteArray)) : String :=
  if l.isEmpty then "ok -" else
  "ok " ++ ";".intercalate (l.map fun r =>
    s!"{showPid r.pageId}|{r.page.elided}|{r.diff.w0}|{r.diff.w1}|{r.pageLeaves}|{r.childrenLeaves}|{showSlots r.page}")

def H := blakeHasher

/-- a call on the current walker -/
def call (st : St) (f : Walker ByteArray → WR (Walker ByteArray)) : St × String :=
  match st.walker with
  | none => (st, "nowalker")
  | some w =>
    match f w with
    | .ok w => ({ st with walker := some w }, showState w)
    | _ => ({ st with walker := none }, "panic")

def apply (st : St) : St :=
  let set := st.set.fold (fun m k v => match v.2 with | .reconstructed .. => m.erase k | _ => m) st.set
  let (set, nb) := st.pending.foldl (fun (acc : PSet × Nat) o =>
    match o with
    | .updated pid pg d b =>
      if d.cleared then (acc.1.erase pid, acc.2)
      else match b with
        | some n => (acc.1.insert pid (pg, .persisted (some n)), acc.2)
        | none => (acc.1.insert pid (pg, .persisted (some acc.2)), acc.2 + 1)
    | .reconstructed .. => acc) (set, st.nextBucket)
  { st with set := set, pending := [], nextBucket := nb }

def insertSorted (x : PageId × String) : List (PageId × String) → List (PageId × String)
  | [] => [x]
  | y :: ys => if pidLt x.1 y.1 then x :: y :: ys else y :: insertSorted x ys

def showSet (st : St) : String :=
  let items := st.set.fold (fun acc k v => insertSorted (k, s!"{showPid k}:{showOrigin v.2}:{hex16 (digest v.1 v.1.elided)}") acc) []
  if items.isEmpty then "ok -" else "ok " ++ ";".intercalate (items.map (·.2))

end WK

open WK in
def walkerStep (st : WK.St) (line : String) : WK.St × String :=
  match fields line with
  | ["wreset", g] => ({ garbage := if g == "-" then none else g.toNat? }, "ok")
  | ["wput", pid, origin, elided, slots] =>
    match parsePid pid, parseOrigin origin, elided.toNat?, parseSlots slots with
    | some pid, some o, some e, some nodes =>
      -- a stored page occupies its bucket: the counter for fresh buckets stays above it
      let nb := match o with | .persisted (some n) => max st.nextBucket (n + 1) | _ => st.nextBucket
      ({ st with set := st.set.insert pid (⟨nodes, e⟩, o), nextBucket := nb }, "ok")
    | _, _, _, _ => (st, "parse-error")
  | ["wnew", root, parent, inhibit] =>
    let parent : Option (Option PageId) := if parent == "none" then some none else (parsePid parent).map some
    match bytesOfHex root, parent with
    | some root, some parent =>
      ({ st with walker := some { Walker.new root parent with inhibitElision := inhibit == "1" } }, "ok")
    | _, _ => (st, "parse-error")
  | ["wadv", bits] =>
    match posOfBits (parseBits bits) with
    | some pos => call st (fun w => w.advance H pos)
    | none => (st, "parse-error")
  | ["wrep", bits, ops] =>
    match posOfBits (parseBits bits), parseKVs ops with
    | some pos, some ops => call st (fun w => w.advanceAndReplace H (pageSet st) pos ops)
    | _, _ => (st, "parse-error")
  | ["wplace", bits, node] =>
    match posOfBits (parseBits bits), bytesOfHex node with
    | some pos, some node => call st (fun w => w.advanceAndPlaceNode H (pageSet st) pos node)
    | _, _ => (st, "parse-error")
  | ["wconclude"] =>
    match st.walker with
    | none => (st, "nowalker")
    | some w =>
      match w.conclude H with
      | .ok o =>
        let pages := match o with | .root _ p => p | .childPageRoots _ p => p
        ({ st with walker := none, pending := st.pending ++ pages }, showOutput o)
      | _ => ({ st with walker := none }, "panic")
  | ["wrecon", pid, bits, ops] =>
    match parsePid pid, posOfBits (parseBits bits), parseKVs ops with
    | some pid, some pos, some ops =>
      match st.set.get? pid with
      | none => (st, "nopage")
      | some (page, _) =>
        let ps := pageSet st
        -- the first elided page enters the page set before anything can fail
        let st := match reconFirst H ps (some pid) pos with
          | .ok (some (first, pg, o)) =>
            -- only when `reconstruct` gets that far: `page.node(..)` of `reconstruct_pages` comes first
            match page.getNode H pos.nodeIndex with
            | .ok _ => { st with set := st.set.insert first (pg, o) }
            | _ => st
          | _ => st
        match reconstructPages H page pid pos ps ops with
        | .ok (_, none) => (st, "none")
        | .ok (_, some l) =>
          let set := l.foldl (fun m r => m.insert r.pageId (r.page, .reconstructed r.pageLeaves r.childrenLeaves r.diff)) st.set
          ({ st with set := set }, showRecon l)
        | _ => (st, "panic")
    | _, _, _ => (st, "parse-error")
  | ["wapply"] => (apply st, "ok")
  | ["wset"] => (st, showSet st)
  | _ => (st, "parse-error")

end Nomt.Driver
