import NomtModel.Driver.Parse
import NomtModel.Driver.OvfMode
import NomtModel.Api.BtTreeModel
import NomtModel.Store.BtReconstruct
/-!
Driver mode `bttree` (C15 / C01 / C10 / C16): the state machine of `Api/BtTreeModel.lean` (the definitions the theorems
of `Props/C15_BtTree.lean`, `Props/C01_BtTree.lean` are about), the code-level read path of `Store/BtLookup.lean` and the
mirror of `reconstruct` of `Store/BtReconstruct.lean` behind a line protocol.  The harness (`harness/src/bttree.rs`) drives
the REAL `Tree` through hook `verif_api::beatree_tree`; the two output streams must be identical.

```
case <n>                                    → case                      (fresh tree)
commit <key>=g:<seed>:<len>|<key>=-,…       → ok <size of primary staging>      (`commitq`: → ok)
gate                                        → ok | blocked              (`block_until_zero`)
take                                        → ok <size of secondary staging>
ln <pn> <L|O> <page hex>                    → ok | err <why>            (a page `update` wrote — `L`: a leaf of the new index —: must be free or fresh)
bbn <pn> <page hex>                         → ok
finish I <bbn pn.…> F <ln free pn.…> B <ln bump>
                                            → ok <branches> <leaves> <fnv of (separator, leaf pn)…> | err <why>
                                              (`finishOKb`: the contract of `update`, on the pages given)
rtx <id> / drop <id>                        → ok
get <key> / rget <id> <key>                 → some <len>:<fnv> | none   (L1 `viewGet` and the code-level path must agree)
riter <id> <start> <end|->                  → <items>:<fnv>
sb <bbn pn> <key>                           → some <i> <leaf pn> | none   (`search_branch`)
lg <ln pn> <key>                            → some <0|1> <len>:<fnv> | none (`LeafNode::get`)
reopen T <tracked.…> B <bump> N <pages>     → ok <branches> <fnv> | err …  (`reconstruct`, then a fresh `Tree`)
recon  T <tracked.…> B <bump> N <pages>     → ok <branches> <fnv> | err dup | err pn | err bump | panic
node <page hex> / sbn <key> / fkn <key> <low|-> → ok / some <i> <pn> | none / <0|1> <pos>   (hand-built node)
```
-/
namespace Nomt.Driver.BtD
open Nomt Nomt.Driver Nomt.Store Nomt.BtTree
open Nomt.Driver.OvfD (fnv64 digest genValue)

abbrev Bytes := List UInt8

structure BtSt where
  st : St UInt8 := {}
  idx2 : BtLookup.Index := []
  rtx2 : List (Nat × BtLookup.Index) := []
  ln : Std.HashMap Nat ByteArray := {}
  bbn : Std.HashMap Nat ByteArray := {}
  /-- the hand-built node of the `node` / `sbn` / `fkn` lines -/
  node : Option BtLookup.BNode := none

def bitsOfNatKey (k : Nat) : Key := (List.range 256).map (fun i => k / 2 ^ (255 - i) % 2 == 1)

def natOfHexKey (s : String) : Option (Nat × Key × ByteArray) := do
  let b ← bytesOfHex s
  if b.size ≠ 32 then none else pure (keyNat b, bitsOfBytes b, b)

def parseNats (s : String) : Option (List Nat) := (optList s ".").mapM (·.toNat?)

/-- a written ln page as the abstract machine sees it -/
def decodePage (leaf : Bool) (p : ByteArray) : Page UInt8 :=
  match (if leaf then decodeLeaf p else .error "not a leaf") with
  | .ok es =>
    .leaf (es.map fun e =>
      (bitsOfBytes e.key,
        if e.overflow then
          match decodeOverflowCell e.cell with
          | some c => Cell.ovf c.pages
          | none => Cell.ovf []
        else Cell.inl e.cell.toList))
  | .error _ =>
    match decodeOverflowPage p with
    | .ok (more, data) => .chunk more data.toList
    | .error _ => .chunk [] []

def showVal : Option Bytes → String
  | none => "none"
  | some v => s!"some {digest v}"

def le32b (n : Nat) : Bytes := (le32 n)

def keyBytes (k : Nat) : Bytes := (natToBytesBE k 32).toList

/-- the code-level path: staging maps, `partial_lookup`, `LeafNode::get`, the cell -/
def codeGet (s : BtSt) (prim : SMap UInt8) (sec : Option (SMap UInt8)) (idx : BtLookup.Index) (kn : Nat) (kb : Key) :
    Except String (Option Bytes) :=
  match stagedGet prim sec kb with
  | some c => .ok c
  | none =>
    match BtLookup.partialLookup idx kn with
    | .panic m => .error s!"panic {m}"
    | .err _ => .error "err"
    | .ok none => .ok none
    | .ok (some pn) =>
      match s.ln[pn]? with
      | none => .error s!"leaf page {pn} was never written"
      | some pg =>
        match decodeLeaf pg with
        | .error e => .error s!"leaf page {pn}: {e}"
        | .ok es =>
          match BtLookup.leafGet es kn with
          | .panic m => .error s!"panic {m}"
          | .err _ => .error "err"
          | .ok none => .ok none
          | .ok (some (cell, false)) => .ok (some cell.toList)
          | .ok (some (cell, true)) =>
            match decodeOverflowCell cell with
            | none => .error "malformed overflow cell"
            | some c =>
              match readChain s.st.disk chainFuel c.pages [] with
              | some v => .ok (some v)
              | none => .error "overflow chain unreadable"

def answer (l1 : Option Bytes) (l2 : Except String (Option Bytes)) : String :=
  match l2 with
  | .error e => s!"MISMATCH code-level path: {e}; machine: {showVal l1}"
  | .ok v => if v == l1 then showVal l1 else s!"MISMATCH code-level path {showVal v} machine {showVal l1}"

def indexOfPages (s : BtSt) (pns : List Nat) : Except String BtLookup.Index :=
  pns.mapM fun pn =>
    match s.bbn[pn]? with
    | none => .error s!"bbn page {pn} was never written"
    | some pg => do
      let nd ← BtLookup.decodeBNode pg
      if nd.bbnPn ≠ pn then throw s!"bbn page {pn} carries bbn_pn {nd.bbnPn}"
      if nd.pc = 0 then throw s!"bbn page {pn}: prefix_compressed = 0"
      match nd.seps with
      | [] => throw "empty node"
      | (k, _) :: _ => pure (k, nd)

def flatIdx (idx : BtLookup.Index) : Idx := idx.flat.map (fun s => (bitsOfNatKey s.1, s.2))

def idxDigest (idx : BtLookup.Index) : String :=
  let bytes := idx.flat.flatMap (fun s => keyBytes s.1 ++ le32b s.2)
  s!"{idx.length} {idx.flat.length} {(fnv64 bytes).toNat}"

def fileOf (pages : Std.HashMap Nat ByteArray) (n : Nat) : ByteArray :=
  (List.range n).foldl (fun acc pn => acc ++ (pages.getD pn (ByteArray.mk (Array.replicate PAGE 0)))) ByteArray.empty

def runRecon (s : BtSt) (tracked : List Nat) (bump n : Nat) : Outcome BtRecon.RErr BtRecon.RIndex :=
  let set : Std.HashSet Nat := Std.HashSet.ofList tracked
  BtRecon.reconstruct (fileOf s.bbn n) (fun pn => set.contains pn) bump

def reconDigest (s : BtSt) (ri : BtRecon.RIndex) : String :=
  let bytes := ri.flatMap (fun e => keyBytes e.1 ++ le32b e.2 ++ le32b (u16le (s.bbn.getD e.2 (ByteArray.mk (Array.replicate PAGE 0))) 4))
  s!"{ri.length} {(fnv64 bytes).toNat}"

def showRecon (s : BtSt) : Outcome BtRecon.RErr BtRecon.RIndex → String
  | .ok ri => s!"ok {reconDigest s ri}"
  | .err .dup => "err dup"
  | .err (.pn _) => "err pn"
  | .err .bump => "err bump"
  | .err .small => "err small"
  | .panic m => s!"panic: {m}"

def parseChanges (s : String) : Option (List (Key × Option Bytes)) :=
  (optList s ",").mapM fun item =>
    match item.splitOn "=" with
    | [k, v] => do
      let (_, kb, _) ← natOfHexKey k
      if v == "-" then pure (kb, none)
      else match v.splitOn ":" with
        | ["g", seed, len] => do pure (kb, some (genValue (← seed.toNat?) (← len.toNat?)))
        | _ => none
    | _ => none

def stepOut (s : BtSt) (lbl : Step UInt8) (okMsg : St UInt8 → String) : BtSt × String :=
  match step true s.st lbl with
  | .ok st' => ({ s with st := st' }, okMsg st')
  | .err e => (s, if e.startsWith "blocked" then "blocked" else s!"err {e}")
  | .panic m => (s, s!"panic: {m}")

def itemsDigest (items : KVL Bytes) : String :=
  let bytes := items.flatMap fun (k, v) =>
    (bytesOfBits k).toList ++
      (if v.length > MAX_LEAF_VALUE_SIZE then [1] ++ (le64 v.length) else [0] ++ v)
  s!"{items.length}:{(fnv64 bytes).toNat}"

def btStep (s : BtSt) (line : String) : BtSt × String :=
  match fields line with
  | ["case", _] => ({}, "case")
  | ["ungated"] => (s, "ok")
  | ["commit", cs] =>
    match parseChanges cs with
    | none => (s, "parse error")
    | some cs => stepOut s (.commit cs) (fun st => s!"ok {st.prim.length}")
  | ["commitq", cs] =>
    match parseChanges cs with
    | none => (s, "parse error")
    | some cs => stepOut s (.commit cs) (fun _ => "ok")
  | ["gate"] => stepOut s .gate (fun _ => "ok")
  | ["take"] => stepOut s .take (fun st => s!"ok {(st.sec.getD []).length}")
  | ["ln", pn, kind, hex] =>
    match pn.toNat?, bytesOfHex hex with
    | some pn, some pg =>
      let (s', o) := stepOut s (.write pn (decodePage (kind == "L") pg)) (fun _ => "ok")
      ({ s' with ln := s'.ln.insert pn pg }, o)
    | _, _ => (s, "parse error")
  | ["bbn", pn, hex] =>
    match pn.toNat?, bytesOfHex hex with
    | some pn, some pg => ({ s with bbn := s.bbn.insert pn pg }, "ok")
    | _, _ => (s, "parse error")
  | ["finish", "I", pns, "F", free, "B", bump] =>
    match parseNats pns, parseNats free, bump.toNat? with
    | some pns, some free, some bump =>
      match indexOfPages s pns with
      | .error e => (s, s!"err {e}")
      | .ok idx2 =>
        let (s', o) := stepOut s (.finish (flatIdx idx2) free bump) (fun _ => s!"ok {idxDigest idx2}")
        if o.startsWith "ok" then ({ s' with idx2 := idx2 }, o) else (s', o)
    | _, _, _ => (s, "parse error")
  | ["rtx", id] =>
    match id.toNat? with
    | some id =>
      let (s', o) := stepOut s (.begin id) (fun _ => "ok")
      if o == "ok" then ({ s' with rtx2 := (id, s.idx2) :: s'.rtx2 }, o) else (s', o)
    | none => (s, "parse error")
  | ["drop", id] =>
    match id.toNat? with
    | some id =>
      let (s', o) := stepOut s (.drop id) (fun _ => "ok")
      ({ s' with rtx2 := s'.rtx2.filter (·.1 != id) }, o)
    | none => (s, "parse error")
  | ["get", k] =>
    match natOfHexKey k with
    | some (kn, kb, _) => (s, answer (s.st.lookup kb) (codeGet s s.st.prim s.st.sec s.idx2 kn kb))
    | none => (s, "parse error")
  | ["rget", id, k] =>
    match id.toNat?, natOfHexKey k with
    | some id, some (kn, kb, _) =>
      match findRtx s.st.rtx id, s.rtx2.lookup id with
      | some r, some idx2 => (s, answer (r.lookup s.st.disk kb) (codeGet s r.prim r.sec idx2 kn kb))
      | _, _ => (s, "no such transaction")
    | _, _ => (s, "parse error")
  | ["riter", id, a, b] =>
    match id.toNat?, natOfHexKey a with
    | some id, some (_, ab, _) =>
      let stop : Option (Option Key) := if b == "-" then some none else (natOfHexKey b).map (fun x => some x.2.1)
      match findRtx s.st.rtx id, stop with
      | some r, some stop =>
        match r.iter s.st.disk ab stop with
        | none => (s, "leaves unreadable")
        | some (.ok (items, _)) => (s, itemsDigest items)
        | some (.panic m) => (s, s!"panic: {m}")
        | some (.err _) => (s, "err")
      | _, _ => (s, "no such transaction")
    | _, _ => (s, "parse error")
  | ["sb", pn, k] =>
    match pn.toNat?, natOfHexKey k with
    | some pn, some (kn, _, _) =>
      match s.bbn[pn]? with
      | none => (s, "never written")
      | some pg =>
        match BtLookup.decodeBNode pg with
        | .error e => (s, s!"undecodable {e}")
        | .ok nd =>
          match BtLookup.searchBranch nd kn with
          | .ok (some (i, p)) => (s, s!"some {i} {p}")
          | .ok none => (s, "none")
          | .err _ => (s, "err")
          | .panic m => (s, s!"panic: {m}")
    | _, _ => (s, "parse error")
  | ["lg", pn, k] =>
    match pn.toNat?, natOfHexKey k with
    | some pn, some (kn, _, _) =>
      match s.ln[pn]? with
      | none => (s, "never written")
      | some pg =>
        match decodeLeaf pg with
        | .error e => (s, s!"undecodable {e}")
        | .ok es =>
          match BtLookup.leafGet es kn with
          | .ok (some (cell, ov)) => (s, s!"some {if ov then 1 else 0} {digest cell.toList}")
          | .ok none => (s, "none")
          | .err _ => (s, "err")
          | .panic m => (s, s!"panic: {m}")
    | _, _ => (s, "parse error")
  | ["node", hex] =>
    match bytesOfHex hex with
    | some pg =>
      match BtLookup.decodeBNode pg with
      | .ok nd => ({ s with node := some nd }, "ok")
      | .error e => ({ s with node := none }, s!"undecodable {e}")
    | none => (s, "parse error")
  | ["sbn", k] =>
    match s.node, natOfHexKey k with
    | some nd, some (kn, _, _) =>
      match BtLookup.searchBranch nd kn with
      | .ok (some (i, p)) => (s, s!"some {i} {p}")
      | .ok none => (s, "none")
      | .err _ => (s, "err")
      | .panic m => (s, s!"panic: {m}")
    | _, _ => (s, "no node")
  | ["fkn", k, low] =>
    match s.node, natOfHexKey k with
    | some nd, some (kn, _, _) =>
      match BtLookup.findKeyPos nd kn (if low == "-" then none else low.toNat?) with
      | .ok (f, p) => (s, s!"{if f then 1 else 0} {p}")
      | .err _ => (s, "err")
      | .panic m => (s, s!"panic: {m}")
    | _, _ => (s, "no node")
  | ["recon", "T", t, "B", bump, "N", n] =>
    match parseNats t, bump.toNat?, n.toNat? with
    | some t, some bump, some n => (s, showRecon s (runRecon s t bump n))
    | _, _, _ => (s, "parse error")
  | ["reopen", "T", t, "B", bump, "N", n] =>
    match parseNats t, bump.toNat?, n.toNat? with
    | some t, some bump, some n =>
      match runRecon s t bump n with
      | .ok ri =>
        match indexOfPages s (ri.map (·.2)) with
        | .error e => (s, s!"err {e}")
        | .ok idx2 =>
          -- a fresh `Tree` over the same files: empty staging, no read transactions, the reconstructed index
          ({ s with idx2 := idx2, rtx2 := [],
                    st := { s.st with idx := flatIdx idx2, rtx := [], prim := [], sec := none, phase := .idle } },
           s!"ok {reconDigest s ri}")
      | r => (s, showRecon s r)
    | _, _, _ => (s, "parse error")
  | _ => (s, "unknown line")

end Nomt.Driver.BtD
