import NomtModel.Driver.ShardsMode
import NomtModel.Api.Finish
/-!
Driver mode `finishops` (C06 / C02 / C01 / C09 / C13): the mirror of `Session::finish` (`Api/Finish.lean`) behind a line
protocol.  The harness (`vharness finishops`) records the same quantities from the REAL `Session::finish` through
the hooks H10 / H11 / H25.  Values travel as raw bytes (`e` = the empty value); the driver hashes them itself.

* `view <key:value,…|->` — the session's view; answer: its root (over the value hashes)
* `fin <n> <debug> <superseded> <witness> <rollback> <hint keys|-> <key:r:<v|-> | key:w:<v|-> | key:x:<prior|->:<v|->,…>` —
  answer: `ops <key:R | key:W:<vh|-> | key:RW:<vh|->,…>` (the list handed to the updater), `panic unsorted <i>`,
  `err superseded`
* `batches` — per worker (`;`) the completions: `start-next-position-<o|s><n|x|-><w|r>`
* `adv` — per worker the walker steps of its owned exclusive batches: `start/A` (advance) or `start/R<k>` (rebuilt, `k` ops)
* `changes` — the value transaction `key:value,…`
* `delta` — the priors of the rollback delta, or `none`
* `root` — the root `finish` reports
* `spec` — the witness in canonical form (paths ascending), or `none`
-/
namespace Nomt.Driver
open Nomt Nomt.Api Nomt.Split Nomt.Dlt Nomt.Finish

structure FoSt where
  view : KVL ByteArray := []          -- values
  viewH : KVL ByteArray := []         -- value hashes
  tree : Tree ByteArray ByteArray := .term
  out : Option (Out ByteArray ByteArray ByteArray) := none

def foVal (s : String) : Option ByteArray := if s == "e" then some ByteArray.empty else bytesOfHex s
def foOptVal (s : String) : Option (Option ByteArray) := if s == "-" then some none else (foVal s).map some
def foShowVal (v : ByteArray) : String := if v.size == 0 then "e" else hexOfBytes v
def foShowOpt : Option ByteArray → String | some v => foShowVal v | none => "-"

def foParseView (s : String) : Option (KVL ByteArray) :=
  (optList s ",").mapM (fun item =>
    match item.splitOn ":" with
    | [k, v] => do let k ← keyOfHex k; let v ← foVal v; pure (k, v)
    | _ => none)

def foParseActuals (s : String) : Option (Actuals ByteArray) :=
  (optList s ",").mapM (fun item =>
    match item.splitOn ":" with
    | [k, "r", v] => do let k ← keyOfHex k; let v ← foOptVal v; pure (k, Dlt.RW.read v)
    | [k, "w", v] => do let k ← keyOfHex k; let v ← foOptVal v; pure (k, Dlt.RW.write v)
    | [k, "x", p, v] => do let k ← keyOfHex k; let p ← foOptVal p; let v ← foOptVal v; pure (k, Dlt.RW.rtw p v)
    | _ => none)

def foShowOps (ops : List (Op ByteArray)) : String :=
  orDash (ops.map fun (k, rw) =>
    match rw with
    | .read => s!"{hexOfKey k}:R"
    | .write v => s!"{hexOfKey k}:W:{showOptVH v}"
    | .readWrite v => s!"{hexOfKey k}:RW:{showOptVH v}") ","

def foShowKV (l : List (Key × Option ByteArray)) : String :=
  orDash (l.map fun (k, v) => s!"{hexOfKey k}:{foShowOpt v}") ","

def foShowAdv (a : Advance) : String :=
  match a.2 with
  | some k => s!"{a.1}/R{k}"
  | none => s!"{a.1}/A"

def flag (s : String) : Bool := s == "1"

def finishStep (s : FoSt) (line : String) : FoSt × String :=
  match fields line with
  | ["view", kvs] =>
    match foParseView kvs with
    | some v =>
      let vh := hashKV Blake3.hash v
      let t := mkTree HB 256 0 vh
      ({ view := v, viewH := vh, tree := t }, hexOfBytes (t.hash HB))
    | none => (s, "bad-op")
  | ["fin", n, dbg, sup, wit, rb, hints, acts] =>
    match n.toNat?, (optList hints ",").mapM keyOfHex, foParseActuals acts with
    | some n, some hints, some a =>
      let P : Params := { debug := flag dbg, superseded := flag sup, witness := flag wit, rollback := flag rb, n := n,
                          order := List.range n }
      let load : Key → Outcome Unit (Option ByteArray) := fun k => .ok (kvGet s.view k)
      (match finishWith false HB Blake3.hash 256 P (treeProof HB s.tree) load hints s.viewH a with
       | .ok o => ({ s with out := some o }, s!"ops {foShowOps o.ops}")
       | .err .superseded => ({ s with out := none }, "err superseded")
       | .err .io => ({ s with out := none }, "err io")
       | .panic m =>
         ({ s with out := none },
          match (if P.debug then firstUnsorted 1 a else none) with
          | some i => s!"panic unsorted {i}"
          | none => s!"panic {m}"))
    | _, _, _ => (s, "bad-op")
  | ["batches"] =>
    (s, match s.out with | some o => semi (o.bss.map fun bs => orDash (bs.map showBatch) ",") | none => "no-session")
  | ["adv"] =>
    (s, match s.out with | some o => semi (o.advances.map fun as => orDash (as.map foShowAdv) ",") | none => "no-session")
  | ["changes"] => (s, match s.out with | some o => foShowKV o.changes | none => "no-session")
  | ["delta"] =>
    (s, match s.out with
        | some o => (match o.delta with | some d => foShowKV d | none => "none")
        | none => "no-session")
  | ["root"] => (s, match s.out with | some o => hexOfBytes o.root | none => "no-session")
  | ["spec"] =>
    (s, match s.out with
        | some o =>
          (match o.witness with
           | some w => let ws := w.canon; if ws.isEmpty then "-" else "#".intercalate (ws.map showWPath)
           | none => "none")
        | none => "no-session")
  | _ => (s, "bad-op")

end Nomt.Driver
