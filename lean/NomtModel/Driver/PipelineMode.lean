import NomtModel.Driver.ApiMode
import NomtModel.Api.PipelineTrace
/-!
`pipeline` sub-protocol: the API state machine of the `api` mode with the five mutating calls executed by the step-sequence
mirror `Api/Pipeline.lean` (`runCall`) under a fault parameter, the handle's poison flag and the disk component.

```
init <rb 0|1> <maxlog>                       ok
begin / read / dread / prove / finish / overlay / odrop / sdrop / fdrop / root / seqn / witness   as in `api` (on the in-memory state)
pwork <labels,|->                            ok <n> | bad-label <l> | bad-order        the labels of a fault-free run: sets the I/O work, checks the order
pcall <commit|trycommit|ocommit|otrycommit|rollback> <id|n> <label:once|label:pers|-> [rblock=busy] [finish=fail] [seq=<s:step|io:label,…>]
                                             <ok|err|busy> why=<…> poisoned=<0|1> root=<hex> seqn=<n> loglen=<n>
preopen                                      <root> <seqn> loglen=<n> | corrupt          drop the handle, open the directory again
pimages                                      the states a power loss could leave: `<root>/<seqn>` list
save <name> / restore <name>                 ok                                          snapshot of the (healthy, reopened) handle
```
-/
namespace Nomt.Driver
open Nomt Nomt.Api Nomt.Api.Pipe

abbrev PP := PSt ByteArray ByteArray

structure PDrv where
  p : PP
  work : IoWork := {}
  saved : List (String × PP) := []

def pdrvInit : PDrv := { p := PSt.ofSt { root := zeros32 } }

def labelOfIo (l : Io) : String := (reprStr l).replace "Nomt.Api.Pipe.Io." ""

/-- why a call did not return `Ok`: the first failed check of the trace, else the first failed I/O label -/
def pWhyOf : List Step → String
  | [] => "-"
  | .poisonCheck false :: _ => "poisoned"
  | .rootCheck false :: _ => "stale"
  | .markerCheck false :: _ => "marker"
  | .guardTry false :: _ => "busy"
  | .rbLockTry false :: _ => "rblock"
  | .sessionFinish false :: _ => "finish"
  | .io _ _ false :: _ => "io"
  | _ :: r => pWhyOf r

def pFirstFailed : List Step → String
  | [] => "-"
  | .io _ l false :: _ => labelOfIo l
  | _ :: r => pFirstFailed r

def parsePCall (kind arg : String) : Option Call :=
  match kind, arg.toNat? with
  | "commit", some i => some (.commit i)
  | "trycommit", some i => some (.tryCommit i)
  | "ocommit", some i => some (.ocommit i)
  | "otrycommit", some i => some (.otryCommit i)
  | "rollback", some n => some (.rollback n)
  | _, _ => none

/-- `label:once`, `label:pers` (the label itself contains two colons) or `-` -/
def parsePFault (s : String) : Option (Io → Bool) :=
  if s == "-" then some (fun _ => false)
  else
    match s.splitOn ":" with
    | [f, k, site, mode] =>
      match ioOfLabel s!"{f}:{k}:{site}", mode with
      | some l, "once" => some (faultSet l false)
      | some l, "pers" => some (faultSet l true)
      | _, _ => none
    | _ => none

def showPOut (r : Res) (out : Out ByteArray ByteArray) : String :=
  let why := if r == .ok then "-" else
    (match pWhyOf out.trace with
     | "-" => (if r == .busy then "busy" else "refused")
     | w => w)
  s!"{showRes r} why={why} poisoned={if out.st.poisoned then 1 else 0} root={hexOfBytes out.st.mem.root} seqn={out.st.mem.seqn} loglen={out.st.mem.log.length}"

def pipelineStep (d : PDrv) (line : String) : PDrv × String :=
  match fields line with
  | ["init", rb, maxlog] =>
    ({ d with p := PSt.ofSt { root := zeros32, rollbackOn := rb == "1", maxLog := maxlog.toNat?.getD 100 }, work := {} }, "ok")
  | ["pwork", ls] =>
    match (optList ls ",").mapM (fun l => (ioOfLabel l).map (fun io => (l, io))) with
    | none =>
      let bad := (optList ls ",").find? (fun l => (ioOfLabel l).isNone)
      (d, s!"bad-label {bad.getD "?"}")
    | some pairs =>
      let ios := pairs.map (·.2)
      if conforms ios then ({ d with work := workOf ios }, s!"ok {ios.length}") else (d, "bad-order")
  | "pcall" :: kind :: arg :: fault :: opts =>
    match parsePCall kind arg, parsePFault fault with
    | some c, some F =>
      -- `seq=<items>`: the real order of the steps (hook H15) and I/O events of this call
      let seqItems : Option (List String) := (opts.find? (·.startsWith "seq=")).map (fun o => optList (o.drop 4).toString ",")
      -- a fault-free call brings its own work: the labels of its own I/O events
      let ownIos : Option (List Io) :=
        if fault == "-" then
          seqItems.bind (fun items => (items.filter (·.startsWith "io:")).mapM (fun (it : String) => ioOfLabel (it.drop 3).toString))
        else none
      let W := match ownIos with | some ios => workOf ios | none => d.work
      let E : Env := { F := F, W := W, rbLockFree := !(opts.contains "rblock=busy"), finishOk := !(opts.contains "finish=fail") }
      let out := runCall HB E d.p c
      -- with a fault only the steps of the calling thread are compared (the tasks the call did not wait for go on issuing
      -- operations); without, the whole skeleton, and the labels must be in an order the pipeline can issue
      let order := match seqItems with
        | none => ""
        | some items =>
          let withIo := fault == "-"
          let mine := skeleton withIo out.trace
          match skeletonOfReal withIo items with
          | some real =>
            if real != mine then s!" order=bad:model={",".intercalate mine}:real={",".intercalate real}"
            else if (match ownIos with | some ios => !conforms ios | none => false) then " order=bad-io-order"
            else " order=ok"
          | none => " order=bad-label"
      ({ d with p := out.st }, showPOut out.res out ++ order)
    | _, _ => (d, "bad-op")
  | ["preopen"] =>
    match reopenP d.p with
    | some q => ({ d with p := q }, s!"{hexOfBytes q.mem.root} {q.mem.seqn} loglen={q.mem.log.length}")
    | none => (d, "corrupt")
  | ["pimages"] =>
    (d, " ".intercalate (d.p.disk.images.map (fun x => s!"{hexOfBytes x.root}/{x.seqn}")))
  | ["save", name] =>
    match reopenP d.p with
    | some q => ({ d with p := q, saved := (name, q) :: d.saved.filter (·.1 != name) }, "ok")
    | none => (d, "corrupt")
  | ["restore", name] =>
    match d.saved.find? (·.1 == name) with
    | some (_, q) => ({ d with p := q }, "ok")
    | none => (d, "bad-op")
  -- the mutating lines of the `api` mode are not available here: every commit goes through the pipeline
  | "commit" :: _ | "trycommit" :: _ | "ocommit" :: _ | "otrycommit" :: _ | "rollback" :: _ | "reopen" :: _ => (d, "bad-op")
  | _ =>
    let (m, o) := apiStep d.p.mem line
    ({ d with p := { d.p with mem := m } }, o)

end Nomt.Driver
