import NomtModel.Driver.WalMode
import NomtModel.Store.ImgTable
import Std.Data.HashMap
/-!
Driver mode `wal`, command `walredo` (C03): the Lean WAL reader and the Lean redo applied to a REAL crashed
directory, compared with what the real `bitbox::recover` made of it.

`walredo <crashed dir> <recovered dir> <real verdict>`: `crashed` holds `meta`, `ht`, `wal` as the crash left them;
`recovered` holds the `ht` (and `wal`) after the real `DB::open` ran on a copy; the real verdict is `ok`, `err <kind>`
or `panic`.  The monitor decodes the manifest (sync sequence number, bucket count, seed), reads the WAL with the
mirror of `WalBlobReader`, applies every entry with `redoPage` / `fullEntry` (the functions of the redo theorems) to
the buckets of the crashed `ht`, and demands: the same verdict; every touched bucket page and meta byte of the
recovered `ht` equals the model's; the recovered WAL is empty.  Answer:
`ok state=<applied|stale|empty> seqn=<n> entries=<n> buckets=<b.b.…|-> metas=<b.b.…|->` (the harness checks that no other
page of `ht` changed) or `bad <reason>`.
-/
namespace Nomt.Driver
open Nomt Nomt.Wal Nomt.Store

structure SparseTable where
  /-- bucket ↦ page, for the buckets touched so far -/
  pages : Std.HashMap Nat Bytes := {}
  /-- bucket ↦ meta byte, for the meta bytes written so far -/
  metas : Std.HashMap Nat UInt8 := {}

/-- `redoEntry` on a table given by its file: same checks, same order; pages through `redoPage` -/
def redoEntrySparse (hash : Bytes → Nat) (ht : ByteArray) (nBuckets : Nat) (T : SparseTable) : Entry → Out SparseTable
  | .clear bucket =>
    if bucket ≥ numMetaBytePages nBuckets * PAGE then .panic "set_tombstone: bitvec[bucket]" else
    .ok { T with metas := T.metas.insert bucket TOMBSTONE }
  | .update pid d nodes el bucket =>
    if bucket ≥ numMetaBytePages nBuckets * PAGE then .panic "hint_not_match: bitvec[bucket]" else
    let metas := T.metas.insert bucket (fullEntry (hash pid))
    if bucket ≥ nBuckets then .err .htEof else
    let old : Bytes := match T.pages[bucket]? with
      | some p => p
      | none => (ht.extract ((numMetaBytePages nBuckets + bucket) * PAGE) ((numMetaBytePages nBuckets + bucket + 1) * PAGE)).toList
    match redoPage old pid d nodes el with
    | .ok p => .ok { pages := T.pages.insert bucket p, metas := metas }
    | .err e => .err e
    | .panic s => .panic s

def redoAllSparse (hash : Bytes → Nat) (ht : ByteArray) (n : Nat) (T : SparseTable) : List Entry → Out SparseTable
  | [] => .ok T
  | e :: es =>
    match redoEntrySparse hash ht n T e with
    | .ok T' => redoAllSparse hash ht n T' es
    | o => o

def showVerdict {α : Type} : Out α → String
  | .ok _ => "ok"
  | .err e => s!"err {showErr e}"
  | .panic _ => "panic"

def walRedoDirs (crashed recovered verdict : String) : IO String := do
  let c : System.FilePath := crashed
  let r : System.FilePath := recovered
  let some metaF ← readOrW (c / "meta") | return "bad io: cannot read meta"
  let some ht ← readOrW (c / "ht") | return "bad io: cannot read ht"
  let wal := (← readOrW (c / "wal")).getD ByteArray.empty
  let some ht2 ← readOrW (r / "ht") | return "bad io: cannot read the recovered ht"
  let wal2 := (← readOrW (r / "wal")).getD ByteArray.empty
  let some m := decodeMeta metaF | return "bad meta: too short"
  let n := m.bitboxNumPages
  let mp := numMetaBytePages n
  if ht.size != (mp + n) * PAGE then return s!"bad ht: size {ht.size} for {n} buckets"
  if ht2.size != ht.size then return "bad the recovered ht has another size"
  if wal.size == 0 then
    return (if verdict == "ok" then "ok state=empty seqn=0 entries=0 buckets=- metas=-" else s!"bad verdict: real {verdict} on an empty WAL")
  -- `hash_raw_page_id`: XXH3-64 seeded with the big-endian u64 of seed[0..8]
  let seedN := (List.range 8).foldl (fun acc i => acc * 256 + (metaF.get! (32 + i)).toNat) 0
  let hash : Bytes → Nat := fun pid => xxh3_32 ⟨pid.toArray⟩ 0 seedN
  match Reader.new wal.data with
  | .err e => return (if verdict == s!"err {showErr e}" then s!"ok state=unreadable seqn=0 entries=0 buckets=- metas=-" else s!"bad verdict: real {verdict}, model err {showErr e}")
  | .panic _ => return "bad the reader mirror reached a panic site"
  | .ok rd =>
    if rd.seqn ≠ m.syncSeqn then
      if verdict != "ok" then return s!"bad verdict: real {verdict} on a stale WAL"
      if wal2.size != 0 then return "bad the stale WAL was not truncated"
      return s!"ok state=stale seqn={rd.seqn} entries=0 buckets=- metas=-"
    let (res, es) := Reader.readLoop (wal.size + 1) rd []
    let applied := redoAllSparse hash ht n {} es
    let model : Out SparseTable := match applied, res with
      | .ok T, .ok _ => .ok T
      | .ok _, .err e => .err e
      | .ok _, .panic s => .panic s
      | o, _ => o
    if showVerdict model != verdict then return s!"bad verdict: real {verdict}, model {showVerdict model} ({es.length} entries)"
    match model with
    | .ok T =>
      if wal2.size != 0 then return "bad the WAL was not truncated after recovery"
      for (b, p) in T.pages.toList do
        let got := (ht2.extract ((mp + b) * PAGE) ((mp + b + 1) * PAGE)).toList
        if got != p then return s!"bad bucket {b}: the page after the real recovery is not the model's redo of the WAL entry"
      for (b, v) in T.metas.toList do
        if ht2.get! b != v then return s!"bad meta byte of bucket {b}: {ht2.get! b} after the real recovery, model {v}"
      let bs := (T.pages.toList.map (·.1)).mergeSort (· ≤ ·)
      let ms := (T.metas.toList.map (·.1)).mergeSort (· ≤ ·)
      return s!"ok state=applied seqn={rd.seqn} entries={es.length} buckets={showNatListW bs} metas={showNatListW ms}"
    | _ => return s!"ok state=failed seqn={rd.seqn} entries={es.length} buckets=- metas=-"
where
  readOrW (p : System.FilePath) : IO (Option ByteArray) := do
    try
      let b ← IO.FS.readBinFile p
      pure (some b)
    catch _ => pure none
  showNatListW (l : List Nat) : String := if l.isEmpty then "-" else ".".intercalate (l.map toString)

def walLineIO (line : String) : IO String := do
  match fields line with
  | "walredo" :: crashed :: recovered :: verdict => walRedoDirs crashed recovered (" ".intercalate verdict)
  | _ => pure (walLine line)

partial def walLoop (h out : IO.FS.Stream) : IO Unit := do
  let line ← h.getLine
  if line.isEmpty then return ()
  out.putStrLn (← walLineIO line)
  out.flush
  walLoop h out

end Nomt.Driver
