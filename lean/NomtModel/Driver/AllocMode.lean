import NomtModel.Driver.Parse
import NomtModel.Store.FreeListModel
import NomtModel.Store.ProbeModel
/-!
Driver mode `alloc` (C19 / C17 / C05): the executable free-list model (`Store/FreeListModel.lean`) and the
bitbox probing model (`Store/ProbeModel.lean`) behind a stateless line protocol.  The harness drives the REAL
`FreeList` / `ProbeSequence` / `allocate_bucket` (exposed under `cfg(nomt_verif)`) on the same inputs and the
two output streams must be identical.

Lines (all numbers decimal; lists `a.b.c` or `-`; portions `pn:a.b.c;pn:…` or `-`, in the MODEL's order:
head portion first, every portion's items top of the stack first):

* `flfinish <cap> <bump> <portions> <allocations> <freed>` — `SyncAllocator::allocate` × allocations, then
  `SyncFinisher::finish(freed)`:
  `ok alloc=<handed out> bump=<b′> written=<w> portions=<p′>` or `panic`
* `psnext <hash> <count> <metahex>` — `ProbeSequence::new` and `count` calls of `next`: `E<b>`/`T<b>`/`H<b>`/`X` …
* `psalloc <hash> <metahex>` — `allocate_bucket`: `some <b>` / `none`
* `pslookup <hash> <metahex> <buckets labelled with the page>` — `Store::load_page` (`PageLoader::probe`, `try_complete`,
  retry): `some <b>` / `none`
* `pshash <seedhex16> <pageidhex32>` — `hash_raw_page_id`: the hash in decimal
-/
namespace Nomt.Driver
open Nomt Nomt.Store

def parseNatList (s : String) : Option (List Nat) :=
  if s == "-" then some [] else (s.splitOn ".").mapM String.toNat?

def showNatList (l : List Nat) : String :=
  if l.isEmpty then "-" else ".".intercalate (l.map toString)

def parsePortions (s : String) : Option (List FreeList.Portion) :=
  if s == "-" then some [] else
  (s.splitOn ";").mapM (fun p =>
    match p.splitOn ":" with
    | [h, items] => do let h ← h.toNat?; let it ← parseNatList items; pure (h, it)
    | _ => none)

def showPortions (ps : List FreeList.Portion) : String :=
  if ps.isEmpty then "-" else ";".intercalate (ps.map fun p => s!"{p.1}:{showNatList p.2}")

def decodeSlots (mb : ByteArray) : Option (List Slot) :=
  mb.toList.mapM (fun b => decodeSlot b.toNat)

def showPR : Probe.PR → String
  | .possibleHit b => s!"H{b}"
  | .empty b => s!"E{b}"
  | .tombstone b => s!"T{b}"
  | .exhausted => "X"

def psNexts (m : List Slot) : Nat → Probe.PS → List String → List String
  | 0, _, acc => acc.reverse
  | c + 1, s, acc =>
    match s.next m (Probe.nextFuel m) with
    | none => ("FUEL" :: acc).reverse
    | some (r, s') => psNexts m c s' (showPR r :: acc)

def allocLine (line : String) : String :=
  match fields line with
  | ["flfinish", cap, bump, portions, allocations, freed] =>
    match cap.toNat?, bump.toNat?, parsePortions portions, allocations.toNat?, parseNatList freed with
    | some cap, some bump, some ps, some a, some freed =>
      let s : FreeList.State := { portions := ps, released := [], pop := false, bump := bump }
      match FreeList.finish cap s a freed with
      | none => "panic"
      | some r =>
        s!"ok alloc={showNatList (FreeList.handedOut s a)} bump={r.state.bump} written={showNatList r.written} portions={showPortions r.state.portions}"
    | _, _, _, _, _ => "bad-op"
  | ["psnext", hash, count, metahex] =>
    match hash.toNat?, count.toNat?, (bytesOfHex metahex).bind decodeSlots with
    | some h, some c, some m =>
      if m.isEmpty then "bad-op" else " ".intercalate (psNexts m c (Probe.PS.new h m.length) [])
    | _, _, _ => "bad-op"
  | ["psalloc", hash, metahex] =>
    match hash.toNat?, (bytesOfHex metahex).bind decodeSlots with
    | some h, some m =>
      if m.isEmpty then "bad-op" else
      match Probe.allocLoop m Probe.ALLOC_ATTEMPTS (Probe.ALLOC_ATTEMPTS + 2) 0 (Probe.PS.new h m.length) with
      | none => "FUEL"
      | some none => "none"
      | some (some b) => s!"some {b}"
    | _, _ => "bad-op"
  | ["pslookup", hash, metahex, mine] =>
    -- `PageLoader::probe` + `try_complete` with the caller's retry (`Store::load_page`): `mine` lists the buckets
    -- whose data page is labelled with the page looked up
    match hash.toNat?, (bytesOfHex metahex).bind decodeSlots, parseNatList mine with
    | some h, some m, some mine =>
      if m.isEmpty then "bad-op" else
      let T : Probe.Table := { slots := m, label := fun b => if mine.contains b then 1 else 0 }
      match Probe.lookupLoop T 1 (2 * m.length + 4) (Probe.PS.new h m.length) with
      | none => "FUEL"
      | some none => "none"
      | some (some b) => s!"some {b}"
    | _, _, _ => "bad-op"
  | ["pshash", seedhex, pidhex] =>
    match bytesOfHex seedhex, bytesOfHex pidhex with
    | some seed, some pid =>
      if seed.size != 16 || pid.size != 32 then "bad-op" else
      let seedN := (List.range 8).foldl (fun acc i => acc * 256 + (seed.get! i).toNat) 0
      toString (xxh3_32 pid 0 seedN)
    | _, _ => "bad-op"
  | _ => "bad-op"

def allocStep (s : Unit) (line : String) : Unit × String := (s, allocLine line)

end Nomt.Driver
