import NomtModel.Driver.Parse
import NomtModel.Api.OvlBtIter
/-!
Driver mode `ovl` (C11 / C05): the mirror of `overlay.rs` (`Api/OvlModel.lean`), of the two overlay / disk
merges of `merkle/seek.rs` (`Api/OvlMerge.lean`) and of `BeatreeIterator` (`Api/OvlBtIter.lean`) behind a
line protocol.  The harness (`overlay-index`) drives the REAL `LiveOverlay::new / value / value_iter / page /
finish`, `Index::prune_below`, the status transitions and the real `BeatreeIterator` through
`nomt::verif_api` on the same inputs; the two output streams must be identical.

Keys and encoded page ids are 64 hex digits, values hex (`-` = deleted); overlay ids are the creation order
0, 1, 2 ….

* `reset` → `ok`
* `live <lid> <ids|->` — `LiveOverlay::new` on the overlays (youngest first):
  `ok parent=<0|1> n=<ancestor_data.len()> min=<min_seqn>` / `err notancestor` / `err incomplete`
* `finish <lid> <oid> <values> <pages>` — `LiveOverlay::finish` (changes `key:value,key:-`; pages `pageid:marker`):
  `ok seqn=<s> anc=<n> idx=<key:seqn,…> log=<seqn:key,…> pidx=… plog=…`   (logs sorted by (seqn, key))
* `val <lid> <key>` → `none` / `some <value|->`
* `iter <lid> <start> <end|->` → `key:value,…` / `-`
* `page <lid> <pageid>` → `none` / `some <marker>`
* `commit <oid>` (`mark_committed`), `drop <oid>` (the user's handle), `dropl <lid>` → `ok`
* `pstatus <oid>` — the parent's status as `oid` sees it: `none` / `0` live / `1` dropped / `2` committed
* `mergeleaves <disk key:valuehash,…> <overlay key:value,key:-,…>` → merged `key:valuehash,…`
* `leaffetch <disk> <overlay>` → `ok key:valuehash` / `panic`
* `seeknode <depth> <disk key:valuehash,…> <overlay key:valuehash,key:-,…>` — the node of the session's trie at
  `depth` above the key range both lists are restricted to: the Blake3 `nodeAt` over `leavesMerge disk overlay`
  (what `continue_leaves_fetch` reconstructs); the harness derives the real node from the real path proof
* `bti <start> <end|-> <primary> <secondary|none> <leaves sep=k:v,k:v;sep=…>` → `items=<k:v,…> loaded=<n>`
-/
namespace Nomt.Driver
open Nomt Nomt.Ovl

abbrev OV := ByteArray

structure OvlSt where
  heap : Heap OV := []            -- value half
  pheap : Heap OV := []           -- page half: the same model over encoded page ids
  committed : List Nat := []
  held : List Nat := []           -- overlays whose handle the user still holds
  lives : List (Nat × Live) := []

def OvlSt.alive (s : OvlSt) (a : Nat) : Bool :=
  s.held.contains a || s.lives.any (fun l => l.2.chain.contains a)

def OvlSt.isCommitted (s : OvlSt) (a : Nat) : Bool := s.committed.contains a

def ovParseIds (s : String) : Option (List Nat) := (optList s ",").mapM (·.toNat?)

def ovShowOpt : Option OV → String | some v => hexOfBytes v | none => "-"

def ovShowWrites (l : List (Key × Option OV)) : String :=
  if l.isEmpty then "-" else ",".intercalate (l.map (fun (k, v) => s!"{hexOfKey k}:{ovShowOpt v}"))

def ovShowKV (l : List (Key × OV)) : String :=
  if l.isEmpty then "-" else ",".intercalate (l.map (fun (k, v) => s!"{hexOfKey k}:{hexOfBytes v}"))

def ovParseKV (s : String) : Option (List (Key × OV)) :=
  (optList s ",").mapM (fun item =>
    match item.splitOn ":" with
    | [k, v] => do let k ← keyOfHex k; let v ← bytesOfHex v; pure (k, v)
    | _ => none)

def ovShowIdx (l : KVL Nat) : String :=
  if l.isEmpty then "-" else ",".intercalate (l.map (fun (k, s) => s!"{hexOfKey k}:{s}"))

def logLe (a b : Nat × Key) : Bool := a.1 < b.1 || (a.1 == b.1 && !bitsLt b.2 a.2)

def logInsert (x : Nat × Key) : List (Nat × Key) → List (Nat × Key)
  | [] => [x]
  | y :: ys => if logLe x y then x :: y :: ys else y :: logInsert x ys

def ovShowLog (l : List (Nat × Key)) : String :=
  let sorted := l.foldr logInsert []
  if sorted.isEmpty then "-" else ",".intercalate (sorted.map (fun (s, k) => s!"{s}:{hexOfKey k}"))

def ovParseLeaves (s : String) : Option (List (Leaf OV)) :=
  (optList s ";").mapM (fun item =>
    match item.splitOn "=" with
    | [sep, es] => do let sep ← keyOfHex sep; let es ← ovParseKV es; pure { sep := sep, entries := es }
    | _ => none)

def ovlStep (s : OvlSt) (line : String) : OvlSt × String :=
  match fields line with
  | ["reset"] => ({}, "ok")
  | ["live", lid, ids] =>
    match lid.toNat?, ovParseIds ids with
    | some lid, some ids =>
      (match Live.new s.heap s.alive s.isCommitted ids with
       | .ok l => ({ s with lives := (lid, l) :: s.lives.filter (·.1 != lid) },
                   s!"ok parent={if l.parent.isSome then 1 else 0} n={l.anc.length} min={l.minSeqn}")
       | .err .notAncestor => (s, "err notancestor")
       | .err .incomplete => (s, "err incomplete")
       | .panic m => (s, s!"panic {m}"))
    | _, _ => (s, "bad-op")
  | ["finish", lid, oid, values, pages] =>
    match lid.toNat?.bind (fun i => s.lives.find? (·.1 == i)), oid.toNat?, parseOps values, parseOps pages with
    | some (_, l), some oid, some vs, some ps =>
      if oid != s.heap.length then (s, "bad-op") else
      (match Live.finish s.heap l vs, Live.finish s.pheap l ps with
       | .ok o, .ok po =>
         ({ s with heap := s.heap ++ [o], pheap := s.pheap ++ [po], held := oid :: s.held },
          s!"ok seqn={o.seqn} anc={o.anc.length} idx={ovShowIdx o.index.values} log={ovShowLog o.index.bySeqn} pidx={ovShowIdx po.index.values} plog={ovShowLog po.index.bySeqn}")
       | .panic m, _ => (s, s!"panic {m}")
       | _, .panic m => (s, s!"panic {m}")
       | _, _ => (s, "bad-op"))
    | _, _, _, _ => (s, "bad-op")
  | ["val", lid, k] =>
    match lid.toNat?.bind (fun i => s.lives.find? (·.1 == i)), keyOfHex k with
    | some (_, l), some k =>
      (match l.value s.heap k with
       | .ok none => (s, "none")
       | .ok (some c) => (s, s!"some {ovShowOpt c}")
       | .panic m => (s, s!"panic {m}")
       | .err _ => (s, "bad-op"))
    | _, _ => (s, "bad-op")
  | ["page", lid, k] =>
    match lid.toNat?.bind (fun i => s.lives.find? (·.1 == i)), keyOfHex k with
    | some (_, l), some k =>
      (match l.value s.pheap k with
       | .ok none => (s, "none")
       | .ok (some c) => (s, s!"some {ovShowOpt c}")
       | .panic m => (s, s!"panic {m}")
       | .err _ => (s, "bad-op"))
    | _, _ => (s, "bad-op")
  | ["iter", lid, a, b] =>
    match lid.toNat?.bind (fun i => s.lives.find? (·.1 == i)), keyOfHex a,
          (if b == "-" then some none else (keyOfHex b).map some) with
    | some (_, l), some a, some b =>
      (match l.valueIter s.heap a b with
       | .ok r => (s, ovShowWrites r)
       | .panic m => (s, s!"panic {m}")
       | .err _ => (s, "bad-op"))
    | _, _, _ => (s, "bad-op")
  | ["commit", oid] =>
    match oid.toNat? with
    | some oid => ({ s with committed := oid :: s.committed }, "ok")
    | none => (s, "bad-op")
  | ["drop", oid] =>
    match oid.toNat? with
    | some oid => ({ s with held := s.held.filter (· != oid) }, "ok")
    | none => (s, "bad-op")
  | ["dropl", lid] =>
    match lid.toNat? with
    | some lid => ({ s with lives := s.lives.filter (·.1 != lid) }, "ok")
    | none => (s, "bad-op")
  | ["pstatus", oid] =>
    match oid.toNat?.bind (fun i => s.heap[i]?) with
    | some o =>
      (match o.parent with
       | none => (s, "none")
       | some q => (s, if s.isCommitted q then "2" else if s.alive q then "0" else "1"))
    | none => (s, "bad-op")
  | ["mergeleaves", disk, ov] =>
    match ovParseKV disk, parseOps ov with
    | some disk, some ov => (s, ovShowKV (leavesMerge disk ov))
    | _, _ => (s, "bad-op")
  | ["leaffetch", disk, ov] =>
    match ovParseKV disk, parseOps ov with
    | some disk, some ov =>
      (match leafFetch disk ov with
       | .ok (k, v) => (s, s!"ok {hexOfKey k}:{hexOfBytes v}")
       | _ => (s, "panic"))
    | _, _ => (s, "bad-op")
  | ["seeknode", depth, disk, ov] =>
    match depth.toNat?, ovParseKV disk, parseOps ov with
    | some d, some disk, some ov => (s, hexOfBytes (nodeAt blakeHasher (256 - d) d (leavesMerge disk ov)))
    | _, _, _ => (s, "bad-op")
  | ["bti", a, b, prim, sec, leaves] =>
    match keyOfHex a, (if b == "-" then some none else (keyOfHex b).map some), parseOps prim,
          (if sec == "none" then some [] else parseOps sec), ovParseLeaves leaves with
    | some a, some b, some prim, some sec, some leaves =>
      (match (BtIt.new prim sec leaves a b).runAll with
       | .ok (items, loaded) => (s, s!"items={ovShowKV items} loaded={loaded}")
       | .panic m => (s, s!"panic {m}")
       | .err _ => (s, "bad-op"))
    | _, _, _, _, _ => (s, "bad-op")
  | _ => (s, "bad-op")

end Nomt.Driver
