import NomtModel.Driver.Parse
import NomtModel.Core.MultiProof
/-!
Multi-proof lines of the `core` sub-protocol (C07 / C08 / C18, multi-proof part).

```
mfrom <term;sibs|term;sibs|…>                 → ok <paths> <siblings> | panic
mverify <reg> <root> <paths> <siblings>       → ok <depth:us-ue,…> <sd:cs-ce,…|-> aligned|misaligned | err E | panic
mfind <reg> <key>                             → ok <i> | oos | panic
mcvalue <reg> <key> <vh>                      → true | false | oos | panic
mcnon <reg> <key>                             → true | false | oos | panic
mcvalue_idx <reg> <idx> <key> <vh>            → true | false | oos | panic
mcnon_idx <reg> <idx> <key>                   → true | false | oos | panic
mupdate <reg> <key:vh,key:-,…>                → ok <root> | err E | panic
```
`<paths>` = `<terminal>@<depth>|…` (`-` when empty), terminals `L:<key>:<vh>` / `T:<bits|->` as in
`Parse.lean`, nodes / keys in hex, numbers decimal.  `aligned` is the model's monitor of the alignment
lemma (every verified path was hashed along the first `depth` bits of its own terminal path).
-/
namespace Nomt.Driver
open Nomt

abbrev HBm := blakeHasher

abbrev MultiState := List (Nat × VerifiedMulti ByteArray ByteArray)

def MultiState.get (s : MultiState) (r : Nat) : Option (VerifiedMulti ByteArray ByteArray) :=
  (s.find? (·.1 == r)).map (·.2)
def MultiState.set (s : MultiState) (r : Nat) (v : Option (VerifiedMulti ByteArray ByteArray)) : MultiState :=
  let regs := s.filter (·.1 != r)
  match v with | some v => (r, v) :: regs | none => regs

def parsePathProofs (s : String) : Option (List (PathProof ByteArray ByteArray)) :=
  (optList s "|").mapM (fun item =>
    match item.splitOn ";" with
    | [t, sibs] => do
      let t ← parseTerminal t
      let sibs ← parseHexList sibs
      pure { terminal := t, siblings := sibs }
    | _ => none)

def parseMultiPaths (s : String) : Option (List (MultiPathProof ByteArray)) :=
  (optList s "|").mapM (fun item =>
    match item.splitOn "@" with
    | [t, d] => do
      let t ← parseTerminal t
      let d ← d.toNat?
      pure { terminal := t, depth := d }
    | _ => none)

def showMultiPaths (l : List (MultiPathProof ByteArray)) : String :=
  if l.isEmpty then "-" else "|".intercalate (l.map (fun p => s!"{showTerminal p.terminal}@{p.depth}"))

def showInner (l : List (VPath ByteArray)) : String :=
  if l.isEmpty then "-" else ",".intercalate (l.map (fun p => s!"{p.depth}:{p.uStart}-{p.uEnd}"))

def showBis (l : List VBis) : String :=
  if l.isEmpty then "-" else ",".intercalate (l.map (fun b => s!"{b.startDepth}:{b.cStart}-{b.cEnd}"))

/-- monitor of the alignment lemma -/
def alignedAll (l : List (VPath ByteArray)) : Bool :=
  l.all (fun p => p.route == p.terminal.path.take p.depth)

def showMVErr : MultiVerifyErr → String
  | .rootMismatch => "RootMismatch"
  | .pathsOutOfOrder => "PathsOutOfOrder"
  | .tooManySiblings => "TooManySiblings"
  | .tooFewSiblings => "TooFewSiblings"
  | .invalidDepth => "InvalidDepth"
  | .pathPrefixOfAnother => "PathPrefixOfAnother"

def showMVUErr : MultiVUErr → String
  | .opsOutOfOrder => "OpsOutOfOrder"
  | .opOutOfScope => "OpOutOfScope"
  | .rootMismatch => "RootMismatch"
  | .pathPrefixOfAnother => "PathPrefixOfAnother"

def showScope : Outcome KeyOutOfScope Bool → String
  | .ok true => "true"
  | .ok false => "false"
  | .err _ => "oos"
  | .panic _ => "panic"

/-- `none` when the line is not a multi-proof line -/
def multiStep (s : MultiState) (fs : List String) : Option (MultiState × String) :=
  match fs with
  | ["mfrom", proofs] =>
    some (match parsePathProofs proofs with
    | some pps =>
      (s, match fromPathProofs pps with
          | .ok mp => s!"ok {showMultiPaths mp.paths} {showHexList mp.siblings}"
          | .err _ => "err"
          | .panic _ => "panic")
    | none => (s, "bad-op"))
  | ["mverify", r, root, paths, sibs] =>
    some (match r.toNat?, bytesOfHex root, parseMultiPaths paths, parseHexList sibs with
    | some r, some root, some paths, some sibs =>
      match verifyMulti HBm { paths := paths, siblings := sibs } root with
      | .ok v => (s.set r (some v),
          s!"ok {showInner v.inner} {showBis v.bisections} {if alignedAll v.inner then "aligned" else "misaligned"}")
      | .err e => (s.set r none, s!"err {showMVErr e}")
      | .panic _ => (s.set r none, "panic")
    | _, _, _, _ => (s, "bad-op"))
  | ["mfind", r, k] =>
    some (match r.toNat?, keyOfHex k with
    | some r, some k =>
      match s.get r with
      | some v => (s, match findIndexFor v k with
          | .ok i => s!"ok {i}" | .err _ => "oos" | .panic _ => "panic")
      | none => (s, "noproof")
    | _, _ => (s, "bad-op"))
  | ["mcvalue", r, k, vh] =>
    some (match r.toNat?, keyOfHex k, bytesOfHex vh with
    | some r, some k, some vh =>
      match s.get r with
      | some v => (s, showScope (confirmValue v k vh))
      | none => (s, "noproof")
    | _, _, _ => (s, "bad-op"))
  | ["mcnon", r, k] =>
    some (match r.toNat?, keyOfHex k with
    | some r, some k =>
      match s.get r with
      | some v => (s, showScope (confirmNonexistence v k))
      | none => (s, "noproof")
    | _, _ => (s, "bad-op"))
  | ["mcvalue_idx", r, i, k, vh] =>
    some (match r.toNat?, i.toNat?, keyOfHex k, bytesOfHex vh with
    | some r, some i, some k, some vh =>
      match s.get r with
      | some v => (s, showScope (confirmValueWithIndex v k vh i))
      | none => (s, "noproof")
    | _, _, _, _ => (s, "bad-op"))
  | ["mcnon_idx", r, i, k] =>
    some (match r.toNat?, i.toNat?, keyOfHex k with
    | some r, some i, some k =>
      match s.get r with
      | some v => (s, showScope (confirmNonexistenceWithIndex v k i))
      | none => (s, "noproof")
    | _, _, _ => (s, "bad-op"))
  | ["mupdate", r, ops] =>
    some (match r.toNat?, parseOps ops with
    | some r, some ops =>
      match s.get r with
      | some v => (s, match multiVerifyUpdate HBm 256 v ops with
          | .ok n => s!"ok {hexOfBytes n}"
          | .err e => s!"err {showMVUErr e}"
          | .panic _ => "panic")
      | none => (s, "noproof")
    | _, _ => (s, "bad-op"))
  | _ => none

end Nomt.Driver
