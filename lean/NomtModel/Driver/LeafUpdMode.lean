import NomtModel.Driver.Parse
import NomtModel.Store.LeafUpdModel
import NomtModel.Store.LeafUpdSep
/-!
Driver mode `leafupd` (C01 / C19 / C16): the mirror of `LeafUpdater` (`Store/LeafUpdModel.lean`) behind a stateful line
protocol.  The harness (`vharness leafupd`) drives the REAL `LeafUpdater` through `nomt::verif_api::leaf_updater` with the
same calls; the two output streams must be identical.

Bytes lowercase hex; `-` = none / empty list; `_` = the empty byte string; keys 32 bytes.

* `new <base> <cutoff>` / `reset <base> <cutoff>` — `LeafUpdater::new` / `reset_base`; `<base>` = `-` or
  `<separator>/<entries>`, `<entries>` = `-` or `key:cell:o,…` (`o` = 1 for an overflow cell): `ok`
* `rmcut` — `remove_cutoff`: `ok`
* `scope <key>` — `is_in_scope`: `true` / `false`
* `sep` — `separator()`: the key
* `ingest <key> <cell|-> <o>` — `ingest`: `log=<cells handed to with_deleted_overflow> <state>`
* `digest <k|->` — `digest` (the handler refuses its k-th leaf): `leaves=<separator|entries|cutoff;…> res=<fin|merge:<cutoff>|err> <state>`
* `<state>` = `ops=<I:key:len:o,K:from:to:size,…> g=<n>/<sum> low=<n> so=<separator_override> cut=<cutoff>`
  (after `ingest`: `ops=<number of ops>#<the last two>`)
* any call that panics: `panic` (the updater is unusable afterwards: every later call answers `dead`)
-/
namespace Nomt.Driver
open Nomt Nomt.LeafUpd

def natOfHexKey (s : String) : Option Nat :=
  if s.length != 64 then none else
  s.toList.foldlM (fun acc c => (hexVal c).map fun d => acc * 16 + d) 0

def hexOfNatKey (k : Nat) : String :=
  String.ofList ((List.range 64).map fun i => hexDigit ((k >>> (4 * (63 - i))) % 16))

def luOptKey (s : String) : Option (Option Nat) :=
  if s == "-" then some none else (natOfHexKey s).map some

def luShowOptKey : Option Nat → String
  | none => "-"
  | some k => hexOfNatKey k

def luCell (s : String) : Option ByteArray := if s == "_" then some ByteArray.empty else bytesOfHex s
def luShowCell (b : ByteArray) : String := if b.size == 0 then "_" else hexOfBytes b

def luEntry (s : String) : Option (Entry ByteArray) :=
  match s.splitOn ":" with
  | [k, v, o] => do
    let k ← natOfHexKey k
    let v ← luCell v
    pure ⟨k, v, o == "1"⟩
  | _ => none

def luEntries (s : String) : Option (List (Entry ByteArray)) :=
  if s == "-" then some [] else (s.splitOn ",").mapM luEntry

def luShowEntries (l : List (Entry ByteArray)) : String :=
  if l.isEmpty then "-" else
  ",".intercalate (l.map fun e => s!"{hexOfNatKey e.key}:{luShowCell e.val}:{if e.ovf then "1" else "0"}")

def luBase (s : String) : Option (Option (Base ByteArray)) :=
  if s == "-" then some none else
  match s.splitOn "/" with
  | [sep, ents] => do
    let sep ← natOfHexKey sep
    let ents ← luEntries ents
    pure (some { ents := ents, sep := sep })
  | _ => none

def luShowOp : Op ByteArray → String
  | .ins e => s!"I:{hexOfNatKey e.key}:{e.val.size}:{if e.ovf then "1" else "0"}"
  | .keep f t vs => s!"K:{f}:{t}:{vs}"

/-- `tail`: the number of ops and the last two only -/
def luShowState (st : St ByteArray) (tail : Bool := false) : String :=
  let shown := if tail then st.ops.drop (st.ops.length - 2) else st.ops
  let ops := if st.ops.isEmpty then "-" else ",".intercalate (shown.map luShowOp)
  let ops := if tail then s!"{st.ops.length}#{ops}" else ops
  let low := match st.base with | none => "-" | some b => toString b.low
  s!"ops={ops} g={st.gauge.n}/{st.gauge.sum} low={low} so={luShowOptKey st.sepOv} cut={luShowOptKey st.cutoff}"

def luShowLeaf (l : Leaf ByteArray) : String :=
  s!"{hexOfNatKey l.sep}|{luShowEntries l.ents}|{luShowOptKey l.cutoff}"

def luShowLeaves (l : List (Leaf ByteArray)) : String :=
  if l.isEmpty then "-" else ";".intercalate (l.map luShowLeaf)

/-- `none` = no updater yet or it panicked -/
abbrev LuState := Option (St ByteArray)

def leafupdStep (s : LuState) (line : String) : LuState × String :=
  match fields line with
  | ["new", base, cutoff] =>
    match luBase base, luOptKey cutoff with
    | some b, some c => (some (St.new b c), "ok")
    | _, _ => (s, "bad-op")
  | cmd :: args =>
    match s with
    | none => (none, "dead")
    | some st =>
      match cmd, args with
      | "reset", [base, cutoff] =>
        match luBase base, luOptKey cutoff with
        | some b, some c => (some (resetBase st b c), "ok")
        | _, _ => (s, "bad-op")
      | "rmcut", [] => (some (removeCutoff st), "ok")
      | "scope", [key] =>
        match natOfHexKey key with
        | some k => (s, if inScope st k then "true" else "false")
        | none => (s, "bad-op")
      | "sep", [] => (s, hexOfNatKey (separator st))
      | "ingest", [key, cell, o] =>
        match natOfHexKey key, (if cell == "-" then some none else (luCell cell).map some) with
        | some k, some c =>
          let (st', log) := ingest st k (c.map fun v => (v, o == "1"))
          (some st', s!"log={if log.isEmpty then "-" else ",".intercalate (log.map luShowCell)} {luShowState st' true}")
        | _, _ => (s, "bad-op")
      | "digest", [failAt] =>
        match digest sepReal st with
        | none => (none, "panic")
        | some (st', leaves, res) =>
          let fail? : Option Nat := if failAt == "-" then none else failAt.toNat?
          match fail? with
          | some k =>
            if k < leaves.length then (none, s!"leaves={luShowLeaves (leaves.take k)} res=err")
            else
              let r := match res with | .finished => "fin" | .needsMerge c => s!"merge:{hexOfNatKey c}"
              (some st', s!"leaves={luShowLeaves leaves} res={r} {luShowState st'}")
          | none =>
            let r := match res with | .finished => "fin" | .needsMerge c => s!"merge:{hexOfNatKey c}"
            (some st', s!"leaves={luShowLeaves leaves} res={r} {luShowState st'}")
      | _, _ => (s, "bad-op")
  | _ => (s, "bad-op")

end Nomt.Driver
