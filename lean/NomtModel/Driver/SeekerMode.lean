import NomtModel.Driver.SeekMode
import NomtModel.Store.Seeker
/-!
Driver mode `seeker` (C05 / C13 / C06): the mirror of the `Seeker` of `merkle/seek.rs` (`Store/Seeker.lean`) behind a
line protocol.  The harness (`harness/src/seeker.rs`) drives the REAL `Seeker` through `nomt::verif_api::seek::SeekerSim`
(hook H34: scripted I/O back-end, hand-built bitbox table) on the same lines; the two output streams must be identical.

* `skenv …`, `skpage …` — as in mode `seek` (the world; `skpage cache` fills the page cache)
* `mxprobe <page id> <b,b,…|->` → `ok`: the buckets `PageLoader::probe` reads for the page, in order
* `mxbucket <b> <page id>` → `ok`: the label of the page stored in bucket `b`
* `mxnew <max_inflight> <cached leaves l,l,…|->` → `ok`: `Seeker::new`, an empty page set
* `mxpush <key>`, `mxsubmit`, `mxrecv <user_data>`, `mxfail <user_data>` → the state; `mxtake` → `none` | the seek
* `mxq` → `empty=… room=… first=… live=…`; `mxreq <i>` → the `i`th live request; `mxnewset <0|1>`; `skset`; `skpg <id>`
a panic of the mirror is the line `panic`.
-/
namespace Nomt.Driver
open Nomt Nomt.Ovl Nomt.TriePos Nomt.Seek Nomt.Seeker

namespace MX
open SK

abbrev SMux := Mux ByteArray ByteArray SV

structure St where
  sk : SK.St := {}
  probes : List (PageId × List Nat) := []
  labels : List (Nat × PageId) := []
  mux : SMux := {}

def ht (s : St) : Ht :=
  { probes := fun p => (s.probes.lookup p).getD [], label := fun b => s.labels.lookup b }

def showNats (l : List Nat) : String := if l.isEmpty then "-" else ",".intercalate (l.map toString)

def showQuery : Query → String
  | .page p => s!"P:{showPath p}"
  | .leaf l => s!"L:{l}"

/-- pages first (ascending ids), then leaves (ascending) -/
def queryLt : Query → Query → Bool
  | .page a, .page b => pidLt a b
  | .page _, .leaf _ => true
  | .leaf _, .page _ => false
  | .leaf a, .leaf b => a < b

def insertW (x : Query × List Nat) : List (Query × List Nat) → List (Query × List Nat)
  | [] => [x]
  | y :: ys => if queryLt x.1 y.1 then x :: y :: ys else y :: insertW x ys

def awaitOf (m : SMux) (idx : Nat) : Option Query := (m.waiters.find? (fun e => e.2.contains idx)).map (·.1)

def showSlab (ht : Ht) (s : Slab) : String :=
  let items := (s.entries.zipIdx).filterMap (fun (e, i) =>
    match e with
    | .occ (.merkle pid k sub) =>
      let b := match (ht.probes pid)[k - 1]? with | some b => toString b | none => "?"
      some s!"{i}:M:{showPath pid}:{b}:{if sub then "S" else "P"}"
    | .occ (.leaf l) => some s!"{i}:L:{l}"
    | .vac _ => none)
  if items.isEmpty then "-" else ",".intercalate items

def showInflight (l : List (Nat × Cmd)) : String :=
  if l.isEmpty then "-" else
  ",".intercalate (l.map (fun (ud, c) => match c with | .bucket b => s!"{ud}:B{b}" | .leaf l => s!"{ud}:L{l}"))

def showMux (ht : Ht) (m : SMux) : String :=
  let ws := (m.waiters.foldr insertW []).map (fun (q, w) => s!"{showQuery q}=[{showNats w}]")
  let wss := if ws.isEmpty then "-" else ";".intercalate ws
  let rs := (m.reqs.zipIdx).map (fun (r, i) =>
    let st := match r.st with
      | .seeking => "S"
      | .fetchingLeaf .. => "F"
      | .fetchingLeaves .. => "G"
      | .completed _ => "D"
    s!"{st}{r.pos.depth}/{r.ios}/{match awaitOf m (m.processed + i) with | some q => showQuery q | none => "-"}")
  let rss := if rs.isEmpty then "-" else ",".intercalate rs
  s!"proc={m.processed} reqs={rss} w={wss} slab={showSlab ht m.slab} vk={m.slab.next} n={m.slab.len} ir={showNats m.idleReqs} il={showNats m.idleLoads} io={showInflight m.inflight}"

def out (s : St) : Outcome Unit SMux → St × String
  | .ok m => ({ s with mux := m }, showMux (ht s) m)
  | .panic _ => (s, "panic")
  | .err _ => (s, "err")

def parseNats (t : String) : Option (List Nat) := (optList t ",").mapM String.toNat?

def step (s : St) (line : String) : St × String :=
  match fields line with
  | "skenv" :: _ =>
    let (sk, o) := SK.step s.sk line
    ({ sk := sk }, o)
  | "skpage" :: _ =>
    let (sk, o) := SK.step s.sk line
    ({ s with sk := sk }, o)
  | ["mxprobe", pid, bs] =>
    match parsePath pid, parseNats bs with
    | some pid, some bs => ({ s with probes := (pid, bs) :: s.probes }, "ok")
    | _, _ => (s, "bad-op")
  | ["mxbucket", b, pid] =>
    match b.toNat?, parsePath pid with
    | some b, some pid => ({ s with labels := (b, pid) :: s.labels }, "ok")
    | _, _ => (s, "bad-op")
  | ["mxnew", mx, lc] =>
    match mx.toNat?, parseNats lc with
    | some mx, some lc => ({ s with mux := { maxInflight := mx, cache := s.sk.sys.cache, leafCache := lc } }, "ok")
    | _, _ => (s, "bad-op")
  | ["mxpush", key] =>
    match s.sk.env, keyOfHex key with
    | some env, some key => out s (Seeker.push env s.mux key)
    | _, _ => (s, "bad-op")
  | ["mxsubmit"] =>
    match s.sk.env with
    | some env => out s (submitAll env (ht s) s.mux)
    | none => (s, "bad-op")
  | ["mxrecv", ud] =>
    match s.sk.env, ud.toNat? with
    | some env, some ud => out s (recv env (ht s) s.mux ud)
    | _, _ => (s, "bad-op")
  | ["mxfail", ud] =>
    match ud.toNat? with
    | some ud => out s (.ok (recvErr s.mux ud))
    | none => (s, "bad-op")
  | ["mxtake"] =>
    let (m, r) := takeCompletion s.mux
    (match r.bind (fun r => r.result.map (fun res => (r, res))) with
     | some (r, res) =>
       let pid := match res.pageId with | none => "none" | some p => showPath p
       let t := match res.terminal with
         | none => "T"
         | some (k, v) => s!"L:{hexOfKey k}:{hexOfBytes v}"
       ({ s with mux := m },
        s!"seek key={hexOfKey r.key} d={res.pos.depth} raw={hexOfKey res.pos.raw} pid={pid} term={t} sibs={showHexList res.sibs} ios={r.ios}")
     | none => (s, "none"))
  | ["mxq"] =>
    let m := s.mux
    let fk := match m.firstKey with | some k => hexOfKey k | none => "-"
    (s, s!"empty={m.isEmpty} room={m.hasRoom} first={fk} live={m.hasLive}")
  | ["mxreq", i] =>
    match i.toNat?.bind (fun i => s.mux.reqs[i]?.map (fun r => (i, r))) with
    | some (i, r) => (s, showState r (awaitOf s.mux (s.mux.processed + i)))
    | none => (s, "bad-op")
  | ["mxnewset", f] =>
    ({ s with mux := { s.mux with ps := if f == "1" then { map := [], warm := s.mux.ps.map } else {} } }, "ok")
  | ["skset"] => (s, showSet s.mux.ps)
  | ["skpg", pid] =>
    match parsePath pid with
    | some pid =>
      (match s.mux.ps.get pid with
       | some (pg, _) => (s, showSlots (reachSlots pg 6 []))
       | none => (s, "none"))
    | none => (s, "bad-op")
  | _ => (s, "bad-op")

end MX

def seekerStep := MX.step

end Nomt.Driver
