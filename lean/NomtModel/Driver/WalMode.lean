import NomtModel.Driver.Parse
import NomtModel.Store.WalRedo
import NomtModel.Store.Xxh3
/-!
Driver mode `wal` (C03 / C04 / C16): the Lean mirrors of `PageDiff`, `WalBlobBuilder`, `WalBlobReader` and of the redo
loop of `bitbox::recover` behind a stateless line protocol.  The harness (`harness/src/wal.rs`) drives the REAL code
(through `nomt::verif_api`) on the same inputs; the two output streams must be identical.

Byte strings travel as `<hex>+<n>` = the bytes of `hex` followed by `n` zero bytes (a blob is written with all
trailing zero bytes counted in `n`, so equal strings mean equal bytes).  Numbers are decimal.

* `wbuild <mmap size> <op;op;…>` with ops `R<seqn>` (reset), `C<bucket>` (write_clear),
  `U<pageid hex>,<w0>,<w1>,<nodes hex|->,<elided>,<bucket>` (write_update), `F` (finalize):
  `ok <as_slice() blob>` or `panic`
* `wread <file blob>`: `WalBlobReader::new` + `read_entry` until END or error:
  `err <kind>` (new failed) / `ok seqn=<n> entries=<e;e;…|-> end=<ok|err kind|panic>`
* `pdops <w0> <w1> <op,op,…|->` with ops `S<slot>` (set_changed), `X` (set_cleared):
  `ok <w0> <w1> cleared=<0|1> count=<n>` or `panic`
* `pdfrom <hex of 16 bytes>`: `none` / `some <w0> <w1>`
* `pdjoin <a0> <a1> <b0> <b1>`: `<w0> <w1>`
* `pdpack <w0> <w1> <page blob>`: `ok <nodes hex|->` / `panic`
* `pdunpack <w0> <w1> <nodes hex|-> <page blob>`: `ok <page blob>` / `panic`
* `recover <sync_seqn> <seed hex16> <meta hex (one byte per bucket)> <b=page blob;…|-> <wal blob>`:
  `DB::open` on a hash table with the given buckets and WAL: `ok meta=<blob of the meta pages> pages=<b=blob;…|->` / `err <kind>` / `panic`
-/
namespace Nomt.Driver
open Nomt Nomt.Wal Nomt.Store

def hexOfList (l : Bytes) : String := hexOfBytes ⟨l.toArray⟩

/-- `<hex>+<zeros>` -/
def parseBlob (s : String) : Option (Array UInt8) :=
  match s.splitOn "+" with
  | [h, z] => do
    let b ← bytesOfHex h
    let z ← z.toNat?
    pure (b.data ++ Array.replicate z 0)
  | _ => none

def showBlob (l : Bytes) : String :=
  let r := l.reverse
  let z := (r.takeWhile (· == 0)).length
  s!"{hexOfList (r.drop z).reverse}+{z}"

def chunks32 : (fuel : Nat) → Bytes → List Bytes
  | 0, _ => []
  | f + 1, l => if l.isEmpty then [] else l.take 32 :: chunks32 f (l.drop 32)

/-- concatenated nodes; the last one may be short only if the hex string is malformed (rejected) -/
def parseNodes (s : String) : Option (List Bytes) :=
  if s == "-" then some [] else do
    let b ← bytesOfHex s
    if b.size % 32 ≠ 0 then none else
    pure (chunks32 (b.size / 32 + 1) b.toList)

def showNodes (ns : List Bytes) : String := if ns.isEmpty then "-" else hexOfList ns.flatten

def parseEntry (s : String) : Option Entry :=
  if s.startsWith "C" then (s.drop 1).toString.toNat?.map Entry.clear
  else if s.startsWith "U" then
    match (s.drop 1).toString.splitOn "," with
    | [pid, w0, w1, nodes, el, b] => do
      let pid ← bytesOfHex pid
      let w0 ← w0.toNat?; let w1 ← w1.toNat?
      let nodes ← parseNodes nodes
      let el ← el.toNat?; let b ← b.toNat?
      pure (.update pid.toList ⟨w0, w1⟩ nodes el b)
    | _ => none
  else none

def showEntry : Entry → String
  | .clear b => s!"C{b}"
  | .update pid d nodes el b => s!"U{hexOfList pid},{d.w0},{d.w1},{showNodes nodes},{el},{b}"

def showEntries (es : List Entry) : String := if es.isEmpty then "-" else ";".intercalate (es.map showEntry)

def showErr : WalErr → String
  | .fileSize => "filesize"
  | .eof => "eof"
  | .badStart t => s!"badstart{t}"
  | .badTag t => s!"badtag{t}"
  | .badDiff => "baddiff"
  | .countMismatch => "countmismatch"
  | .htEof => "hteof"

def showEnd : Out Unit → String
  | .ok _ => "ok"
  | .err e => s!"err {showErr e}"
  | .panic _ => "panic"

def buildOps (b : Builder) : List String → Out Builder
  | [] => .ok b
  | op :: ops =>
    let r : Out Builder :=
      if op == "F" then b.finalize
      else if op.startsWith "R" then
        match (op.drop 1).toString.toNat? with
        | some s => b.reset s
        | none => .panic "bad-op"
      else match parseEntry op with
        | some e => b.writeEntry e
        | none => .panic "bad-op"
    match r with
    | .ok b => buildOps b ops
    | o => o

def pdOps (d : PageDiff) : List String → Out PageDiff
  | [] => .ok d
  | op :: ops =>
    if op == "X" then pdOps d.setCleared ops
    else if op.startsWith "S" then
      match (op.drop 1).toString.toNat? with
      | some s =>
        match d.setChanged s with
        | .ok d => pdOps d ops
        | o => o
      | none => .panic "bad-op"
    else .panic "bad-op"

def parsePages (s : String) : Option (List (Nat × Bytes)) :=
  if s == "-" then some [] else
  (s.splitOn ";").mapM (fun item =>
    match item.splitOn "=" with
    | [b, blob] => do let b ← b.toNat?; let p ← parseBlob blob; pure (b, p.toList)
    | _ => none)

def zeroPage : Bytes := List.replicate PAGE_SIZE 0

def showPages (ps : List Bytes) : String :=
  let items := (ps.zipIdx.filter (fun (p, _) => p != zeroPage)).map (fun (p, i) => s!"{i}={showBlob p}")
  if items.isEmpty then "-" else ";".intercalate items

def walLine (line : String) : String :=
  match fields line with
  | ["wbuild", size, ops] =>
    match size.toNat? with
    | some size =>
      match buildOps { size := size, chunks := [], cur := 0 } (ops.splitOn ";") with
      | .ok b => s!"ok {showBlob b.asSlice}"
      | .err _ => "err"
      | .panic s => if s == "bad-op" then "bad-op" else "panic"
    | none => "bad-op"
  | ["wread", blob] =>
    match parseBlob blob with
    | some file =>
      match readAll file with
      | .ok r => s!"ok seqn={r.seqn} entries={showEntries r.entries} end={showEnd r.ending}"
      | .err e => s!"err {showErr e}"
      | .panic _ => "panic"
    | none => "bad-op"
  | ["pdops", w0, w1, ops] =>
    match w0.toNat?, w1.toNat? with
    | some w0, some w1 =>
      match pdOps ⟨w0, w1⟩ (optList ops ",") with
      | .ok d => s!"ok {d.w0} {d.w1} cleared={if d.cleared then 1 else 0} count={d.count}"
      | .err _ => "err"
      | .panic s => if s == "bad-op" then "bad-op" else "panic"
    | _, _ => "bad-op"
  | ["pdfrom", h] =>
    match bytesOfHex h with
    | some b =>
      if b.size ≠ 16 then "bad-op" else
      match PageDiff.fromBytes b.toList with
      | none => "none"
      | some d => s!"some {d.w0} {d.w1}"
    | none => "bad-op"
  | ["pdjoin", a0, a1, b0, b1] =>
    match a0.toNat?, a1.toNat?, b0.toNat?, b1.toNat? with
    | some a0, some a1, some b0, some b1 =>
      let d := PageDiff.join ⟨a0, a1⟩ ⟨b0, b1⟩
      s!"{d.w0} {d.w1}"
    | _, _, _, _ => "bad-op"
  | ["pdpack", w0, w1, page] =>
    match w0.toNat?, w1.toNat?, parseBlob page with
    | some w0, some w1, some page =>
      match PageDiff.pack ⟨w0, w1⟩ page.toList with
      | .ok ns => s!"ok {showNodes ns}"
      | .err _ => "err"
      | .panic _ => "panic"
    | _, _, _ => "bad-op"
  | ["pdunpack", w0, w1, nodes, page] =>
    match w0.toNat?, w1.toNat?, parseNodes nodes, parseBlob page with
    | some w0, some w1, some nodes, some page =>
      match PageDiff.unpack ⟨w0, w1⟩ nodes page.toList with
      | .ok p => s!"ok {showBlob p}"
      | .err _ => "err"
      | .panic _ => "panic"
    | _, _, _, _ => "bad-op"
  | ["recover", seqn, seed, metaHex, pages, wal] =>
    match seqn.toNat?, bytesOfHex seed, bytesOfHex metaHex, parsePages pages, parseBlob wal with
    | some seqn, some seed, some mb, some pages, some wal =>
      if seed.size ≠ 16 then "bad-op" else
      let n := mb.size
      let seedN := (List.range 8).foldl (fun acc i => acc * 256 + (seed.get! i).toNat) 0
      let hash : Bytes → Nat := fun pid => xxh3_32 ⟨pid.toArray⟩ 0 seedN
      -- `MetaMap::bitvec`: whole pages
      let metaLen := (n + 4095) / 4096 * 4096
      let m : Bytes := mb.toList ++ List.replicate (metaLen - n) 0
      let ps : List Bytes := (List.range n).map (fun b => match pages.find? (·.1 == b) with | some (_, p) => p | none => zeroPage)
      match recover hash seqn { «meta» := m, pages := ps } wal with
      | .ok T => s!"ok meta={showBlob T.meta} pages={showPages T.pages}"
      | .err e => s!"err {showErr e}"
      | .panic _ => "panic"
    | _, _, _, _, _ => "bad-op"
  | _ => "bad-op"

def walStep (s : Unit) (line : String) : Unit × String := (s, walLine line)

end Nomt.Driver
