import NomtModel.Driver.Parse
import NomtModel.Store.OpenPath
/-!
`openpath` sub-protocol: the mirror of the open path (`Store/OpenPath.lean`) line by line against the real code
(`harness/src/openpath.rs`, hook `nomt::verif_api::openpath`).

  meta <filelen> <hex of the first min(filelen, 64) bytes | ->     `Meta::read` + `Meta::validate`
  metaenc <12 numbers: magic version lnfl lnbump bbnfl bbnbump seqn pages seed0 seed1 start end>   `Meta::encode_to`
  metanew <seed0> <seed1> <pages>                                   `Meta::create_new` then `encode_to`
  htopen <dbg 0|1> <numPages> <fileLen>                             `ht_file::open` (arithmetic + checks)
  htcreate <dbg 0|1> <numPages>                                     the length `ht_file::create` gives the file
  effective <dbg> <cc> <pcs> <lcs> <upper>                          the configuration part of `Nomt::open`
  open <dbg> <flags 0|1|2> <manifest hex 64> <o: cc,pages,seed0,seed1,rollback,maxlog,panic> <htlen> <wallen>
       <rootpage: - | l:r> <items: - | key:i|o:vh;…>                `Store::open` on an existing directory + the root
-/
namespace Nomt.Driver
open Nomt Nomt.Store Nomt.OpenPath Nomt.Ovl

def showOutcomeNat : Outcome String Nat → String
  | .ok n => s!"ok {n}"
  | .err _ => "err"
  | .panic _ => "panic"

def showMeta (m : Meta) : String :=
  s!"magic={m.magic} version={m.version} lnfl={m.lnFreelistPn} lnbump={m.lnBump} bbnfl={m.bbnFreelistPn} bbnbump={m.bbnBump} seqn={m.syncSeqn} pages={m.bitboxNumPages} seed={m.seed0},{m.seed1} start={m.rollbackStartLive} end={m.rollbackEndLive}"

def showMetaErr : MetaErr → String
  | .magic => "magic" | .version0 => "version0" | .versionNewer => "versionnewer" | .rollbackHalfNil => "rollback"

def showValidate (m : Meta) : String :=
  match validate m with
  | .ok _ => "ok"
  | .err es => ",".intercalate (es.map showMetaErr)
  | .panic _ => "panic"

def parseNats (l : List String) : Option (List Nat) := l.mapM String.toNat?

def parseItems (s : String) : Option (List (Key × Stored ByteArray ByteArray)) :=
  (optList s ";").mapM (fun item =>
    match item.splitOn ":" with
    | [k, "i", v] => do let k ← keyOfHex k; let v ← bytesOfHex v; pure (k, Stored.inline v)
    | [k, "o", v] => do let k ← keyOfHex k; let v ← bytesOfHex v; pure (k, Stored.overflow v ByteArray.empty)
    | _ => none)

/-- the parts, as far as the `open` lines need them: the tree is the item list the line carries, the WAL is empty (a
completed sync truncates it), the rollback log is not inspected -/
def lineParts (items : List (Key × Stored ByteArray ByteArray)) :
    Parts (List (Key × Stored ByteArray ByteArray)) Unit :=
  { treeOpen := fun _ _ _ _ _ _ => (.ok items, [.read .bbn, .read .ln]),
    recover := fun _ _ _ ht _ h => (.ok (ht, h.metaBytes), []),
    rollbackRead := fun _ _ _ _ => (.ok (), []) }

def openpathStep1 (line : String) : String :=
  match fields line with
  | ["meta", len, hx] =>
    match len.toNat?, (if hx == "-" then some ByteArray.empty else bytesOfHex hx) with
    | some len, some pre =>
      let file : ByteArray := (pre.data.toList ++ List.replicate (len - pre.size) (0 : UInt8)).toByteArray
      match metaRead file with
      | .ok m => s!"meta ok {showMeta m} validate={showValidate m}"
      | .err _ => "meta err"
      | .panic _ => "meta panic"
    | _, _ => "bad-op"
  | "metaenc" :: rest =>
    match parseNats rest with
    | some [a, b, c, d, e, f, g, h, i, j, k, l] =>
      let m : Meta := ⟨a, b, c, d, e, f, g, h, i, j, k, l⟩
      s!"metaenc {hexOfBytes (encodeMeta m)} validate={showValidate m}"
    | _ => "bad-op"
  | ["metanew", s0, s1, n] =>
    match s0.toNat?, s1.toNat?, n.toNat? with
    | some s0, some s1, some n => s!"metanew {hexOfBytes (encodeMeta (createNew s0 s1 n))}"
    | _, _, _ => "bad-op"
  | ["htopen", dbg, n, len] =>
    match n.toNat?, len.toNat? with
    | some n, some len => "htopen " ++ showOutcomeNat (htOpenCore (dbg == "1") n len)
    | _, _ => "bad-op"
  | ["htcreate", dbg, n] =>
    match n.toNat? with
    | some n => "htcreate " ++ showOutcomeNat (htCreateLen (dbg == "1") n)
    | _ => "bad-op"
  | ["effective", dbg, cc, pcs, lcs, up] =>
    match cc.toNat?, pcs.toNat?, lcs.toNat?, up.toNat? with
    | some cc, some pcs, some lcs, some up =>
      match effective (dbg == "1") { commitConcurrency := cc, pageCacheSize := pcs, leafCacheSize := lcs, upperLevels := up } with
      | .ok e => s!"effective ok workers={e.workers} shards={e.pageLimits.length} levels={e.fixedLevels}"
      | .err _ => "effective err"
      | .panic _ => "effective panic"
    | _, _, _, _ => "bad-op"
  | ["open", dbg, flg, mhex, ostr, htlen, wallen, rp, items] =>
    match bytesOfHex mhex, parseNats (ostr.splitOn ","), htlen.toNat?, wallen.toNat?, parseItems items with
    | some mb, some [cc, pages, s0, s1, rb, maxlog, pn], some htlen, some wallen, some items =>
      let rootPage : Option (Option (ByteArray × ByteArray)) :=
        if rp == "-" then some none else
        match rp.splitOn ":" with
        | [l, r] => do let l ← bytesOfHex l; let r ← bytesOfHex r; pure (some (l, r))
        | _ => none
      match rootPage with
      | none => "bad-op"
      | some rootPage =>
      let o : Options := { commitConcurrency := cc, bitboxNumPages := pages, seed0 := s0, seed1 := s1,
                           rollback := rb == 1, maxRollbackLogLen := maxlog, panicOnSync := pn == 1 }
      let fl : OpenFlags := { syncSeedFromOptions := flg == "1", numPagesFromOptions := flg == "2" }
      let manifestPage : ByteArray := (mb.data.toList ++ List.replicate (PAGE - mb.size) (0 : UInt8)).toByteArray
      let zeros (n : Nat) : ByteArray := ByteArray.mk (Array.replicate n 0)
      let d : Dir := { present := true, lockedByOther := false,
                       files := [(.lock, ByteArray.empty), (.manifest, manifestPage), (.ln, ByteArray.empty),
                                 (.bbn, ByteArray.empty), (.ht, zeros htlen), (.wal, zeros wallen)] }
      let r := nomtOpen (Node := ByteArray) (VH := ByteArray) (B := ByteArray) fl {} (dbg == "1") (lineParts items)
        blakeHasher id (fun _ => .ok rootPage)
        (fun t => if t.isEmpty then [] else [{ sep := zeroKey, entries := t }]) o d
      (
        match r.1 with
        | .ok h => s!"open ok seqn={h.store.syncSeqn} syncpages={h.store.syncNumPages} syncseed={h.store.syncSeed0},{h.store.syncSeed1} dbseed={h.store.bitboxSeed0},{h.store.bitboxSeed1} tree={h.store.treeArgs.1},{h.store.treeArgs.2.1},{h.store.treeArgs.2.2.1},{h.store.treeArgs.2.2.2} rb={match h.store.rollbackArgs with | none => "-" | some (a, b, c) => s!"{a},{b},{c}"} workers={h.eff.workers} root={hexOfBytes h.root}"
        | .err _ => "open err"
        | .panic _ => "open panic")
    | _, _, _, _, _ => "bad-op"
  | _ => "bad-op"

/-- `class <line>`: only the verdict class (`open ok` / `open err` / `open panic`) of the line -/
def openpathStep (_ : Unit) (line : String) : Unit × String :=
  match fields line with
  | "class" :: rest =>
    let a := openpathStep1 (" ".intercalate rest)
    ((), " ".intercalate ((fields a).take 2))
  | _ => ((), openpathStep1 line)

end Nomt.Driver
