import NomtModel.Driver.CoreMode
import NomtModel.Api.Exec
import NomtModel.Api.Witness
/-! `api` sub-protocol: the public-API state machine (`Api/Exec.lean`) over Blake3 nodes. -/
namespace Nomt.Driver
open Nomt Nomt.Api

abbrev ASt := St ByteArray ByteArray

def showRes : Res → String | .ok => "ok" | .err => "err" | .busy => "busy"

def parseIds (s : String) : Option (List Nat) := (optList s ",").mapM (·.toNat?)

def showOptVH : Option ByteArray → String | some v => hexOfBytes v | none => "-"

def showKVOpt (l : List (Key × Option ByteArray)) : String :=
  if l.isEmpty then "-" else ",".intercalate (l.map (fun (k, v) => s!"{hexOfKey k}:{showOptVH v}"))

def showWPath (w : WPath ByteArray ByteArray) : String :=
  s!"{showBits w.path};{showTerminal w.proof.terminal};{showHexList w.proof.siblings};r={showKVOpt w.reads};w={showKVOpt w.writes}"

def apiStep (s : ASt) (line : String) : ASt × String :=
  match fields line with
  -- witness <fid> <read keys|->  : canonical specified witness of a finished session
  | ["witness", fid, reads] =>
    match fid.toNat?.bind (fun i => s.fins.find? (·.id == i)), (optList reads ",").mapM keyOfHex with
    | some f, some rks =>
      let ws := witnessFast HB (viewKV s f.chain) rks f.writes
      (s, if ws.isEmpty then "-" else "#".intercalate (ws.map showWPath))
    | _, _ => (s, "bad-op")
  | ["init", rb, maxlog] =>
    ({ root := zeros32, rollbackOn := rb == "1", maxLog := maxlog.toNat?.getD 100 }, "ok")
  | ["reopen"] => (s, s!"{hexOfBytes s.root} {s.seqn}")
  | ["root"] => (s, hexOfBytes s.root)
  | ["seqn"] => (s, toString s.seqn)
  | ["begin", sid, ids] =>
    match sid.toNat?, parseIds ids with
    | some sid, some ids =>
      (match begin s sid ids with
       | .ok s' => (s', "ok")
       | .error .notAncestor => (s, "err NotAncestor")
       | .error .incomplete => (s, "err Incomplete"))
    | _, _ => (s, "bad-op")
  | ["read", sid, k] =>
    match sid.toNat?.bind (fun i => s.sess.find? (·.id == i)), keyOfHex k with
    | some x, some k => (s, showOptVH (viewGet s x.chain k))
    | _, _ => (s, "bad-op")
  | ["dread", k] =>
    match keyOfHex k with
    | some k => (s, showOptVH (kvGet s.kv k))
    | none => (s, "bad-op")
  | ["prove", sid, k] =>
    match sid.toNat?.bind (fun i => s.sess.find? (·.id == i)), keyOfHex k with
    | some x, some k => (s, showProof (proveSpec HB 256 (viewKV s x.chain) k))
    | _, _ => (s, "bad-op")
  | ["finish", sid, fid, ws] =>
    match sid.toNat?, fid.toNat?, parseOps ws with
    | some sid, some fid, some ws =>
      (match finish HB s sid fid ws with
       | some (s', r) => (s', hexOfBytes r)
       | none => (s, "bad-op"))
    | _, _, _ => (s, "bad-op")
  | ["commit", fid] =>
    match fid.toNat? with
    | some fid => let (r, s') := commitFin s fid; (s', showRes r)
    | none => (s, "bad-op")
  | ["trycommit", fid] =>
    match fid.toNat? with
    | some fid => let (r, s') := tryCommitFin s fid; (s', showRes r)
    | none => (s, "bad-op")
  | ["overlay", fid, oid] =>
    match fid.toNat?, oid.toNat? with
    | some fid, some oid =>
      (match intoOverlay s fid oid with
       | some s' => (s', match s'.ov? oid with | some o => hexOfBytes o.root | none => "bad-op")
       | none => (s, "bad-op"))
    | _, _ => (s, "bad-op")
  | ["ocommit", oid] =>
    match oid.toNat? with
    | some oid => let (r, s') := commitOv s oid; (s', showRes r)
    | none => (s, "bad-op")
  | ["otrycommit", oid] =>
    match oid.toNat? with
    | some oid => let (r, s') := tryCommitOv s oid; (s', showRes r)
    | none => (s, "bad-op")
  | ["odrop", oid] =>
    match oid.toNat? with
    | some oid => (dropOv s oid, "ok")
    | none => (s, "bad-op")
  | ["sdrop", sid] =>
    match sid.toNat? with
    | some sid => (dropSess s sid, "ok")
    | none => (s, "bad-op")
  | ["fdrop", fid] =>
    match fid.toNat? with
    | some fid => ({ s with fins := s.fins.filter (·.id != fid) }, "ok")
    | none => (s, "bad-op")
  | ["rollback", n] =>
    match n.toNat? with
    | some n => let (r, s') := rollback HB s n; (s', showRes r)
    | none => (s, "bad-op")
  | _ => (s, "bad-op")

end Nomt.Driver
