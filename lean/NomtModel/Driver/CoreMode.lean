import NomtModel.Driver.Parse
import NomtModel.Core.PathUpdateExec
import NomtModel.Core.Complete
import NomtModel.Driver.MultiMode
/-!
`core` sub-protocol: path proofs (verify / confirm / verify_update), `build_trie`, reference roots and
reference proofs.  One output line per input line.
-/
namespace Nomt.Driver
open Nomt

abbrev HB := blakeHasher

structure CoreState where
  regs : List (Nat × Verified ByteArray ByteArray) := []
  kv : List (Key × ByteArray) := []        -- current reference set (strictly sorted)
  multi : MultiState := []                 -- verified multi-proofs (lines of `Driver/MultiMode.lean`)

def CoreState.getReg (s : CoreState) (r : Nat) : Option (Verified ByteArray ByteArray) :=
  (s.regs.find? (·.1 == r)).map (·.2)
def CoreState.setReg (s : CoreState) (r : Nat) (v : Option (Verified ByteArray ByteArray)) : CoreState :=
  let regs := s.regs.filter (·.1 != r)
  { s with regs := match v with | some v => (r, v) :: regs | none => regs }

def showVErr : VerifyErr → String
  | .tooManySiblings => "TooManySiblings"
  | .rootMismatch => "RootMismatch"

def showVUErr : VUErr → String
  | .pathsOutOfOrder => "PathsOutOfOrder"
  | .opsOutOfOrder => "OpsOutOfOrder"
  | .opOutOfScope => "OpOutOfScope"
  | .pathWithoutOps => "PathWithoutOps"
  | .rootMismatch => "RootMismatch"

def showOptBool : Option Bool → String
  | some true => "true" | some false => "false" | none => "oos"

/-- `reg;ops|reg;ops|…` -/
def parseUpdates (s : CoreState) (arg : String) : Option (List (PathUpdateIn ByteArray ByteArray)) :=
  (optList arg "|").mapM (fun item =>
    match item.splitOn ";" with
    | [r, ops] => do
      let v ← s.getReg (← r.toNat?)
      let ops ← parseOps ops
      pure { inner := v, ops := ops }
    | _ => none)

def showProof (p : PathProof ByteArray ByteArray) : String :=
  s!"{showTerminal p.terminal} {showHexList p.siblings}"

def coreStep (s : CoreState) (line : String) : CoreState × String :=
  match fields line with
  -- pverify <reg> <root> <keybits> <terminal> <siblings>
  | ["pverify", r, root, kbits, term, sibs] =>
    match r.toNat?, bytesOfHex root, parseTerminal term, parseHexList sibs with
    | some r, some root, some term, some sibs =>
      match verify HB 256 { terminal := term, siblings := sibs } (parseBits kbits) root with
      | .ok v => (s.setReg r (some v),
          s!"ok {showBits v.path} {match v.terminal with | some (k, vh) => s!"L:{hexOfKey k}:{hexOfBytes vh}" | none => "T"}")
      | .error e => (s.setReg r none, s!"err {showVErr e}")
    | _, _, _, _ => (s, "bad-op")
  | ["cvalue", r, k, vh] =>
    match r.toNat?.bind s.getReg, keyOfHex k, bytesOfHex vh with
    | some v, some k, some vh => (s, showOptBool (v.confirmValue k vh))
    | none, some _, some _ => (s, "noproof")
    | _, _, _ => (s, "bad-op")
  | ["cnon", r, k] =>
    match r.toNat?.bind s.getReg, keyOfHex k with
    | some v, some k => (s, showOptBool (v.confirmNonexistence k))
    | none, some _ => (s, "noproof")
    | _, _ => (s, "bad-op")
  -- pupdate <prevroot> <reg;ops|reg;ops…>
  | ["pupdate", root, ups] =>
    match bytesOfHex root, parseUpdates s ups with
    | some root, some ups =>
      (s, match pathVerifyUpdate HB 256 root ups with
          | .ok n => s!"ok {hexOfBytes n}"
          | .err e => s!"err {showVUErr e}"
          | .panic _ => "panic")
    | _, _ => (s, "bad-op")
  -- buildtrie <skip> <key:vh,…>   (keys sorted, sharing `skip` bits)
  | ["buildtrie", skip, ops] =>
    match skip.toNat?, parseOps ops with
    | some skip, some ops =>
      (s, hexOfBytes (buildTrie HB skip (ops.filterMap (fun (k, o) => o.map (fun v => (k, v))))))
    | _, _ => (s, "bad-op")
  -- setkv <key:vh,…> : reference set (sorted);  rootof ; prove <key>
  | ["setkv", ops] =>
    match parseOps ops with
    | some ops => ({ s with kv := ops.filterMap (fun (k, o) => o.map (fun v => (k, v))) }, "ok")
    | none => (s, "bad-op")
  | ["rootof"] => (s, hexOfBytes (nodeAt HB 256 0 s.kv))
  | ["prove", k] =>
    match keyOfHex k with
    | some k => (s, showProof (proveSpec HB 256 s.kv k))
    | none => (s, "bad-op")
  -- multi-proof lines (mfrom / mverify / mfind / mcvalue / mcnon / mcvalue_idx / mcnon_idx / mupdate)
  | fs =>
    match multiStep s.multi fs with
    | some (m, out) => ({ s with multi := m }, out)
    | none => (s, "bad-op")

end Nomt.Driver
