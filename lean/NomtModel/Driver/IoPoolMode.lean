import NomtModel.Driver.Parse
import NomtModel.Store.IoPoolModel
import NomtModel.Store.IoPoolWait
/-!
Driver mode `iopool` (C14 / C04): the Lean mirror of the I/O pool (`Store/IoPoolModel.lean`, `Store/IoPoolWait.lean` — the
definitions the theorems of `Props/C14_IoPool.lean` are about) behind a line protocol.  The harness (`harness/src/iopool.rs`)
runs the REAL code through hook `verif_api::io_pool`.

* `gr <r|w> <res> <errno>` → `ok|err|retry` — `IoKind::get_result`;
* `ux <r|w> <res:errno,…>` (16 answers) → `<ok|os<e>|short> n=<syscalls>` — `unix.rs::execute` over scripted `pread` / `pwrite`;
* `wnew <sq capacity>` → `ok`; `w <act;act;…|->` → `<deliveries|-> <event>` — `linux.rs::run_worker` over the scripted kernel:
  the actions are applied (`s:<handle>:<r|w>` send, `x` shutdown, `k:<key>:<res>:<errno>` the kernel completes the in-flight entry
  `key`, `q:<key>:<res>:<errno>` a spurious completion, `e:<ok|eintr|err>` the result of the `submit_and_wait` the worker is parked
  in), then the worker runs to its next call into the ring: `cq` (`complete_queue.sync()`), `push:<key>:<id>:<attempts>`,
  `submit:<wait>:<queued>`, `exit`, `panic`, `blocked`; deliveries: `d:<id>:<handle>:<result>` ordered by handle;
  `wend` → `sent=<n> delivered=<n> outstanding=<n>`;
* `ht <n> <result,…>` → `<result> left=<k>` — the loop of `write_ht` over the arrivals; `up <total> <result,…>` — the loop of `update`;
* `fnew` → `ok`; `ffsync <result>` → `ok|panic` (an accepted request is served by the worker with that result); `fwait` →
  `<result>|blocked` — `Fsyncer`.
-/
namespace Nomt.Driver
open Nomt Nomt.IoPool

structure IoDrv where
  w : St := {}
  reported : Nat := 0
  fs : Fs := {}

def showIoRes : IoRes → String
  | .ok => "ok"
  | .os e => s!"os{e}"
  | .short => "short"

def parseIoRes (s : String) : Option IoRes :=
  if s == "ok" then some .ok
  else if s == "short" then some .short
  else if s.startsWith "os" then (s.drop 2).toString.toNat?.map IoRes.os
  else none

def ioParseRW (s : String) : Option Bool := if s == "r" then some true else if s == "w" then some false else none

def parseIoAct (s : String) : Option (Sum Act SubmitRes) :=
  match s.splitOn ":" with
  | ["s", h, k] => do let h ← h.toNat?; let k ← ioParseRW k; pure (.inl (.send h k))
  | ["x"] => some (.inl .close)
  | ["k", key, res, errno] => do let key ← key.toNat?; let res ← res.toInt?; let e ← errno.toNat?; pure (.inl (.complete key res e))
  | ["q", key, res, errno] => do let key ← key.toNat?; let res ← res.toInt?; let e ← errno.toNat?; pure (.inl (.spurious key res e))
  | ["e", "ok"] => some (.inr .ok)
  | ["e", "eintr"] => some (.inr .eintr)
  | ["e", "err"] => some (.inr .err)
  | _ => none

/-- is the worker at a call into the ring that the harness sees? -/
def ioParkOf (s : St) : Option String :=
  match s.pc with
  | .submit => some s!"submit:{if s.pending.len = MAX_IN_FLIGHT then 1 else 0}:{s.sq.length}"
  | .top => if s.pending.len ≠ 0 then some "cq" else none
  | .exited => some "exit"
  | .panicked => some "panic"
  | _ => none

def ioLookupKey (key : Nat) : List (Nat × PendingIo) → Option PendingIo
  | [] => none
  | (k, p) :: l => if k = key then some p else ioLookupKey key l

/-- the call into the ring (or the blocking `recv`) the step `prev → s` ended in, if any -/
def ioEvent (prev s : St) : Option String :=
  if s.sq.length > prev.sq.length then
    let key := s.sq.getLast?.getD 0
    match ioLookupKey key s.pending.occ with
    | some p => some s!"push:{key}:{p.packet.id}:{p.attempts}"
    | none => some "push:?"
  else match ioParkOf s with
    | some e => some e
    | none => if s.pc = .accept ∧ prev.pc = .accept then some "blocked" else none

/-- worker steps until the next park -/
def ioToPark : Nat → St → St → St × String
  | 0, _, s => (s, "fuel")
  | fuel + 1, prev, s =>
    match ioEvent prev s with
    | some e => (s, e)
    | none => ioToPark fuel s (wstep s .ok)

def ioShowDeliveries (l : List (Packet × IoRes)) : String :=
  let handles := (l.map (·.1.handle)).eraseDups
  let sorted := handles.toArray.qsort (· < ·) |>.toList
  let items := sorted.flatMap (fun h => (l.filter (·.1.handle = h)).map (fun x => s!"d:{x.1.id}:{x.1.handle}:{showIoRes x.2}"))
  if items.isEmpty then "-" else ",".intercalate items

def ioWorkerLine (d : IoDrv) (acts : String) : IoDrv × String :=
  match (optList acts ";").mapM parseIoAct with
  | none => (d, "parse-error")
  | some as =>
    -- the actions in order; `e:<result>` = the `submit_and_wait` the worker is parked in returns
    let (s, sub) := as.foldl (fun (acc : St × Option SubmitRes) a =>
      match a with
      | .inl a => (step acc.1 a, acc.2)
      | .inr r => if acc.1.pc = Pc.submit then (wstep acc.1 r, some r) else acc) (d.w, none)
    let (s2, ev) :=
      match sub with
      | none => ioToPark 100000 s (wstep s .ok)
      | some .err => (s, "panic")
      | some .eintr => (s, s!"submit:{if s.pending.len = MAX_IN_FLIGHT then 1 else 0}:{s.sq.length}")
      | some .ok =>
        if s.pc = Pc.submit then
          -- it was waiting for a completion
          let s1 := wstep s .ok
          if s1.pc = Pc.submit then (s1, "blocked") else ioToPark 100000 s1 s1
        else ioToPark 100000 s s
    let news := s2.delivered.drop d.reported
    ({ d with w := s2, reported := s2.delivered.length }, s!"{ioShowDeliveries news} {ev}")

def ioParseAnswers (s : String) : Option (List (Int × Nat)) :=
  (optList s ",").mapM (fun item =>
    match item.splitOn ":" with
    | [r, e] => do let r ← r.toInt?; let e ← e.toNat?; pure (r, e)
    | _ => none)

def iopoolStep (d : IoDrv) (line : String) : IoDrv × String :=
  match fields line with
  | ["gr", k, res, errno] =>
    match ioParseRW k, res.toInt?, errno.toNat? with
    | some k, some res, some errno =>
      (d, match getResult k res errno with | .ok => "ok" | .err => "err" | .retry => "retry")
    | _, _, _ => (d, "parse-error")
  | ["ux", k, answers] =>
    match ioParseRW k, ioParseAnswers answers with
    | some k, some l =>
      (d, match execute k (fun i => l.getD i (4096, 0)) with
          | some (r, n) => s!"{showIoRes r} n={n}"
          | none => "fuel")
    | _, _ => (d, "parse-error")
  | ["wnew", cap] =>
    match cap.toNat? with
    | some cap => ({ d with w := { sqCap := cap }, reported := 0 }, "ok")
    | none => (d, "parse-error")
  | ["w", acts] => ioWorkerLine d acts
  | ["wend"] =>
    (d, s!"sent={d.w.nextId} delivered={d.w.delivered.length} outstanding={d.w.chan.length + d.w.retries.length + d.w.pending.len}")
  | ["ht", n, rs] =>
    match n.toNat?, (optList rs ",").mapM parseIoRes with
    | some n, some rs =>
      (d, match writeHtLoop n .ok rs with | some (r, rest) => s!"{showIoRes r} left={rest.length}" | none => "blocked")
    | _, _ => (d, "parse-error")
  | ["up", n, rs] =>
    match n.toNat?, (optList rs ",").mapM parseIoRes with
    | some n, some rs =>
      (d, match recvAll n rs with | some (r, rest) => s!"{showIoRes r} left={rest.length}" | none => "blocked")
    | _, _ => (d, "parse-error")
  | ["fnew"] => ({ d with fs := {} }, "ok")
  | ["ffsync", r] =>
    match parseIoRes r with
    | some r =>
      let s1 := fsStep d.fs .fsync
      if s1.panics > d.fs.panics then ({ d with fs := s1 }, "panic")
      else ({ d with fs := fsRun s1 [.workerPick, .workerDone r] }, "ok")
    | none => (d, "parse-error")
  | ["fwait"] =>
    let s1 := fsStep d.fs .waitTake
    match d.fs.st with
    | .done r _ => ({ d with fs := s1 }, showIoRes r)
    | _ => (d, "blocked")
  | _ => (d, "parse-error")

end Nomt.Driver
