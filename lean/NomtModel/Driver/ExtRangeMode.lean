import NomtModel.Driver.BranchUpdMode
import NomtModel.Store.ExtRangePrep
/-!
Driver mode `extrange` (C01 / C13 / C16 / C19): the mirror of the multi-worker split of the beatree update and of the
extend-range protocol (`Store/ExtRangeModel.lean`, `Store/ExtRangePrep.lean`) instantiated with the one-worker mirrors of
`BranchUpdater` (`Store/BranchUpdModel.lean`) and `LeafUpdater` (`Store/LeafUpdModel.lean`).  The harness
(`vharness extrange`) runs the REAL `branch_stage::run` / `leaf_stage::run` with 1…8 workers on caller-supplied levels
(hooks H17 + H21) and renders what the recorder saw.

* `node <id> <bbn> <pl> <pc> <items>` — as in mode `branchupd` (registers a branch node): `ok body=<n>`
* `lleaf <id> <separator> <pn> <entries>` — registers a leaf: `ok`
* `bprep <workers> <separator@id,…> <key:pn,…>` / `lprep <workers> <ids> <key,…>` — `prepare_workers`:
  `<low>/<high>/<op start>/<op end>/<left 0|1>/<right 0|1>;…`
* `bmulti <workers> <separator@id,…> <changes>` / `lmulti <workers> <ids> <key:cell|-,…>` — the whole stage:
  `W<op start>[R=<entries>|<new high>|<new right 0,1,2>;…;F=<entries>|x<extra freed>|l=<low>|h=<high>] … lvl=<…> freed=<old pns, sorted>
  extra=<n> sched=<same|DIFF>`; an entry is `<key>:<deleted|->:<inserted 0|1>:<next|->`.  `R=` the responses the worker
  received, in order; `F=` its tracker when it returned, then `|l=<range.low>|h=<range.high>` at that moment.  The mirror runs the schedule "every worker until it blocks, left to
  right, repeat" and, for `sched=`, also "one step each, right to left, repeat" and compares the two final states.
* a panic: `panic`
-/
namespace Nomt.Driver
open Nomt Nomt.ExtRange

def brUpd : Upd BranchUpd.St BranchUpd.Node (Option Nat) where
  init := BranchUpd.St.new none none
  inScope := BranchUpd.inScope
  resetBase := fun st b c => BranchUpd.resetBase st (b.map fun x => { node := x.2 }) c
  removeCutoff := BranchUpd.removeCutoff
  ingest := fun st k c => BranchUpd.ingest BranchUpd.kfReal st k c
  digest := fun st => (BranchUpd.digest BranchUpd.kfReal st).map fun (st', prods, res) =>
    (st', prods.map (fun p => (p.sep, p.node, p.cutoff)),
      match res with | .needsMerge c => some c | .finished => none)

abbrev LfN := List (LeafUpd.Entry ByteArray)

def lfUpd : Upd (LeafUpd.St ByteArray) LfN (Option (ByteArray × Bool)) where
  init := LeafUpd.St.new none none
  inScope := LeafUpd.inScope
  resetBase := fun st b c => LeafUpd.resetBase st (b.map fun x => { ents := x.2, sep := x.1 }) c
  removeCutoff := LeafUpd.removeCutoff
  ingest := fun st k c => some (LeafUpd.ingest st k c).1
  digest := fun st => (LeafUpd.digest LeafUpd.sepReal st).map fun (st', leaves, res) =>
    (st', leaves.map (fun l => (l.sep, l.ents, l.cutoff)),
      match res with | .needsMerge c => some c | .finished => none)

structure XrState where
  bu : BuState := {}
  leaves : Array (Nat × Nat × LfN) := #[]

def xrShowWP (l : List WP) : String :=
  ";".intercalate (l.map fun p =>
    s!"{luShowOptKey p.low}/{luShowOptKey p.high}/{p.start}/{p.stop}/{if p.left then 1 else 0}/{if p.right then 1 else 0}")

def xrShowEntry {N : Type} (x : Nat × TE N) : String :=
  let d := match x.2.deleted with | none => "-" | some p => toString p
  s!"{hexOfNatKey x.1}:{d}:{if x.2.inserted.isSome then 1 else 0}:{luShowOptKey x.2.next}"

def xrShowInner {N : Type} (l : Inner N) : String := if l.isEmpty then "-" else ",".intercalate (l.map xrShowEntry)

/-- the responses a worker received are not part of the model state: the driver replays the schedule and collects them -/
structure XrLog (N : Type) where
  resps : List (Nat × Resp N) := []

abbrev XrAcc (σ N C : Type) := G σ N C × List (Nat × Resp N)

/-- up to `b` steps of worker `i`, collecting the response it takes when it leaves `wait` -/
def xrGo {σ N C : Type} (U : Upd σ N C) (cfg : Cfg) (db : List (DbN N)) (i : Nat) :
    Nat → G σ N C → List (Nat × Resp N) → String ⊕ XrAcc σ N C
  | 0, g, log => .inr (g, log)
  | b + 1, g, log =>
    let log' := match (g.ws i).pc, (g.ws i).resp with
      | .wait _ _, some r => log ++ [(i, r)]
      | _, _ => log
    match step U cfg db g i with
    | .ok g' => xrGo U cfg db i b g' log'
    | .blocked => .inr (g, log)
    | .panic s => .inl s

def xrRound {σ N C : Type} (U : Upd σ N C) (cfg : Cfg) (db : List (DbN N)) (burst : Nat) :
    List Nat → G σ N C → List (Nat × Resp N) → String ⊕ XrAcc σ N C
  | [], g, log => .inr (g, log)
  | i :: r, g, log =>
    match xrGo U cfg db i burst g log with
    | .inl s => .inl s
    | .inr (g', log') => xrRound U cfg db burst r g' log'

/-- the schedule "in every round the workers step in the order `order`, each up to `burst` times" -/
def xrRun {σ N C : Type} (U : Upd σ N C) (cfg : Cfg) (db : List (DbN N)) (order : List Nat) (burst : Nat) :
    Nat → G σ N C → List (Nat × Resp N) → Option (String ⊕ XrAcc σ N C)
  | 0, _, _ => none
  | f + 1, g, log =>
    if allDone g then some (.inr (g, log)) else
    match xrRound U cfg db burst order g log with
    | .inl s => some (.inl s)
    | .inr (g', log') => xrRun U cfg db order burst f g' log'

def xrShowWorker {σ N C : Type} (g : G σ N C) (log : List (Nat × Resp N)) (start : Nat) (i : Nat) : String :=
  let rs := (log.filter fun x => x.1 == i).map fun x =>
    let nr := match x.2.newRight with | none => 0 | some none => 1 | some (some _) => 2
    s!"R={xrShowInner x.2.changed}|{luShowOptKey x.2.newHigh}|{nr}"
  let w := g.ws i
  let f := s!"F={xrShowInner w.tr.inner}|x{w.tr.extraFreed.length}|l={luShowOptKey w.low}|h={luShowOptKey w.high}"
  s!"W{start}[{";".intercalate (rs ++ [f])}]"

/-- the final trackers as a comparable value (for `sched=`) -/
def xrSummary {σ N C : Type} (g : G σ N C) : List String :=
  (List.range g.n).map fun i => s!"{xrShowInner (g.ws i).tr.inner}|{(g.ws i).tr.extraFreed.length}"

def xrStage {σ N C : Type} (U : Upd σ N C) (cfg : Cfg) (db : List (DbN N)) (cs : List (Nat × C)) (wps : List WP)
    (showNew : Nat → N → String) (showOld : DbN N → String) : String :=
  let g0 := initG U cfg db cs wps
  let order := List.range g0.n
  let fuel := 200000
  match xrRun U cfg db order 100000 fuel g0 [] with
  | none => "fuel"
  | some (.inl _) => "panic"
  | some (.inr (g, log)) =>
    let same := match xrRun U cfg db order.reverse 1 fuel g0 [] with
      | some (.inr (g2, _)) => xrSummary g2 == xrSummary g
      | _ => false
    match assemble cfg g order with
    | none => "panic"
    | some (changes, freed) =>
      let lvl := applyCs (db.map OutN.old) changes
      let ws := (List.range g.n).map fun i => xrShowWorker g log ((wps[i]?).map (·.start) |>.getD 0) i
      let lvlS := lvl.map fun o => match o with
        | .old d => showOld d
        | .new s nd _ => showNew s nd
      let olds := (freed.filterMap fun p => match p with | .old n => some n | .new _ _ => none).toArray.qsort (· < ·) |>.toList
      let extra := (freed.filter fun p => match p with | .new _ _ => true | .old _ => false).length
      s!"{" ".intercalate ws} lvl={if lvlS.isEmpty then "-" else ";".intercalate lvlS} freed={buShowNats olds} extra={extra} sched={if same then "same" else "DIFF"}"

def xrBranchDb (db : List BranchUpd.DbNode) : List (DbN BranchUpd.Node) := db.map fun d => ⟨d.sep, d.bbn, d.node⟩

def xrLeafDb (s : XrState) (a : String) : Option (List (DbN LfN)) :=
  if a == "-" then some [] else
  (a.splitOn ",").mapM fun e => do
    let i ← e.toNat?
    let (sep, pn, ents) ← s.leaves[i]?
    pure ⟨sep, pn, ents⟩

def xrLeafChanges (a : String) : Option (List (Nat × Option (ByteArray × Bool))) :=
  if a == "-" then some [] else
  (a.splitOn ",").mapM fun e =>
    match e.splitOn ":" with
    | [k, v] => do
      let k ← natOfHexKey k
      if v == "-" then pure (k, none) else do
        let v ← luCell v
        pure (k, some (v, false))
    | _ => none

def xrKeys (a : String) : Option (List Nat) :=
  if a == "-" then some [] else (a.splitOn ",").mapM natOfHexKey

def xrCfgOf (leaf : Bool) (variant : String) : Cfg :=
  { leaf := leaf, staleHigh := variant == "stale", singleMerge := variant == "single", highMax := variant == "hmax" }

def extrangeStep (s : XrState) (line : String) : XrState × String :=
  match fields line with
  | "node" :: _ =>
    let (bu, o) := branchupdStep s.bu line
    ({ s with bu := bu }, o)
  | ["lleaf", id, sep, pn, ents] =>
    match id.toNat?, natOfHexKey sep, pn.toNat?, luEntries ents with
    | some i, some sep, some pn, some ents =>
      if i == s.leaves.size then ({ s with leaves := s.leaves.push (sep, pn, ents) }, "ok") else (s, "bad-op")
    | _, _, _, _ => (s, "bad-op")
  | ["bprep", workers, db, changes] =>
    match workers.toNat?, buDb s.bu db, buChanges changes with
    | some n, some db, some cs =>
      let db := xrBranchDb db
      (s, xrShowWP (prepareWorkers (lookBranch (fun nd => (nd.items.head?).map (·.key)) db) (cs.map (·.1)) n))
    | _, _, _ => (s, "bad-op")
  | ["lprep", workers, db, keys] =>
    match workers.toNat?, xrLeafDb s db, xrKeys keys with
    | some n, some db, some ks => (s, xrShowWP (prepareWorkers (lookLeaf db) ks n))
    | _, _, _ => (s, "bad-op")
  | ["bmulti", variant, workers, db, changes] =>
    match workers.toNat?, buDb s.bu db, buChanges changes with
    | some n, some db, some cs =>
      let db := xrBranchDb db
      if cs.isEmpty then (s, "empty") else
      let wps := prepareWorkers (lookBranch (fun nd => (nd.items.head?).map (·.key)) db) (cs.map (·.1)) n
      (s, xrStage brUpd (xrCfgOf false variant) db cs wps
        (fun sep nd => s!"{hexOfNatKey sep}|n|{buShowNode nd}") (fun d => s!"{hexOfNatKey d.sep}|o{d.pn}"))
    | _, _, _ => (s, "bad-op")
  | ["lmulti", variant, workers, db, changes] =>
    match workers.toNat?, xrLeafDb s db, xrLeafChanges changes with
    | some n, some db, some cs =>
      if cs.isEmpty then (s, "empty") else
      let wps := prepareWorkers (lookLeaf db) (cs.map (·.1)) n
      (s, xrStage lfUpd (xrCfgOf true variant) db cs wps
        (fun sep ents => s!"{hexOfNatKey sep}|n|{luShowEntries ents}") (fun d => s!"{hexOfNatKey d.sep}|o{d.pn}"))
    | _, _, _ => (s, "bad-op")
  | _ => (s, "bad-op")

end Nomt.Driver
