import NomtModel.Driver.ApiMode
import NomtModel.Api.Split
/-!
Driver mode `shards` (C13 / C06 / C02): the mirror of the work splitting of one merkle update across the commit
workers and of the witness assembly (`Api/Split.lean`) behind a line protocol.  The harness (`vharness shards`)
records the same quantities from the REAL `RangeUpdater` / `UpdateHandle::join` through the trace hook H9.

* `view <key:vh,…|->` — the prior state; answer: its root
* `ops <n> <key:R | key:W:<vh|-> | key:RW:<vh|->,…>` — the sorted operations and the worker count; answer: the
  workers' ranges `rs-re,…` (or `panic`)
* `batches` — per worker (`;`) the completions it handles: `start-next-position-<o|s><n|x|-><w|r>`
* `wstart` — per worker `witnessed_start:size+size+…`
* `croots` — per worker the child-page roots it reports `position=node+…`
* `pending` — the sorted root-page pending list `position/N/node` , `position/S/start-end/<prev terminal 0|1>`
* `root` — the root after the root-page pass
* `join <order>` — the witness as `UpdateHandle::join` assembles it when the outputs arrive in that order:
  `path;terminal;siblings#…|r=key:value:index,…|w=key:value:index,…`
* `spec` — the specified witness `witnessSpec` of the whole batch (canonical form, as in the `api` mode)
-/
namespace Nomt.Driver
open Nomt Nomt.Api Nomt.Split

structure ShSt where
  view : KVL ByteArray := []
  tree : Tree ByteArray ByteArray := .term
  n : Nat := 1
  ops : List (Op ByteArray) := []
  bss : List (List Batch) := []
  newView : KVL ByteArray := []

def parseView (s : String) : Option (KVL ByteArray) :=
  (optList s ",").mapM (fun item =>
    match item.splitOn ":" with
    | [k, v] => do let k ← keyOfHex k; let v ← bytesOfHex v; pure (k, v)
    | _ => none)

def parseOptVH (s : String) : Option (Option ByteArray) :=
  if s == "-" then some none else (bytesOfHex s).map some

def parseRWOps (s : String) : Option (List (Op ByteArray)) :=
  (optList s ",").mapM (fun item =>
    match item.splitOn ":" with
    | [k, "R"] => do let k ← keyOfHex k; pure (k, RW.read)
    | [k, "W", v] => do let k ← keyOfHex k; let v ← parseOptVH v; pure (k, RW.write v)
    | [k, "RW", v] => do let k ← keyOfHex k; let v ← parseOptVH v; pure (k, RW.readWrite v)
    | _ => none)

def showBatch (b : Batch) : String :=
  let o := if b.owned then "o" else "s"
  let x := if !b.owned then "-" else if b.nonExcl then "n" else "x"
  let w := if b.hasWrites then "w" else "r"
  s!"{b.start}-{b.next}-{showBits b.pos}-{o}{x}{w}"

def semi (l : List String) : String := ";".intercalate l
def orDash (l : List String) (sep : String) : String := if l.isEmpty then "-" else sep.intercalate l

def shProver (s : ShSt) : Key → PathProof ByteArray ByteArray := treeProof HB s.tree

def shNewNode (s : ShSt) (p : List Bool) : ByteArray :=
  nodeAt HB (256 - p.length) p.length (under p s.newView)

def showPend (s : ShSt) (x : List Bool × Pend ByteArray) : String :=
  match x.2 with
  | .node n => s!"{showBits x.1}/N/{hexOfBytes n}"
  | .subtrie a b =>
    let prev := match s.ops[a]? with
      | some o => (match (shProver s o.1).terminal with | .leaf _ _ => "1" | .terminator _ => "0")
      | none => "?"
    s!"{showBits x.1}/S/{a}-{b}/{prev}"

def showIdxOps (l : List (Key × Option ByteArray × Nat)) : String :=
  orDash (l.map fun (k, v, i) => s!"{hexOfKey k}:{showOptVH v}:{i}") ","

def showAssembled (a : Assembled ByteArray ByteArray) : String :=
  let ps := orDash (a.paths.map fun (p, pr) => s!"{showBits p};{showTerminal pr.terminal};{showHexList pr.siblings}") "#"
  s!"{ps}|r={showIdxOps a.reads}|w={showIdxOps a.writes}"

def shardsStep (s : ShSt) (line : String) : ShSt × String :=
  match fields line with
  | ["view", kvs] =>
    match parseView kvs with
    | some v =>
      let t := mkTree HB 256 0 v
      ({ view := v, tree := t }, hexOfBytes (t.hash HB))
    | none => (s, "bad-op")
  | ["ops", n, ops] =>
    match n.toNat?, parseRWOps ops with
    | some n, some ops =>
      let s1 : ShSt := { s with n := n, ops := ops, newView := kvApply s.view (subtrieOps ops) }
      (match runWorkers 256 n (tpOf (shProver s1)) ops with
       | some bss =>
         ({ s1 with bss := bss },
          ",".intercalate ((List.range n).map fun i => s!"{rangeStart 256 n i ops}-{rangeEnd 256 n i ops}"))
       | none => ({ s1 with bss := [] }, "panic"))
    | _, _ => (s, "bad-op")
  | ["batches"] => (s, semi (s.bss.map fun bs => orDash (bs.map showBatch) ","))
  | ["wstart"] =>
    (s, ",".intercalate (s.bss.map fun bs =>
      let w := workerOut (shProver s) s.ops bs
      let ws := match w.witnessedStart with | some x => toString x | none => "-"
      s!"{ws}:{orDash (w.paths.map fun p => toString p.2.2) "+"}"))
  | ["croots"] =>
    (s, semi (s.bss.map fun bs =>
      orDash ((childRootPositions bs).map fun p => s!"{showBits p}={hexOfBytes (shNewNode s p)}") "+"))
  | ["pending"] => (s, orDash ((pendingOf (shNewNode s) s.bss).map (showPend s)) ",")
  | ["root"] => (s, hexOfBytes (composeRoot HB 256 s.view s.ops (pendingOf (shNewNode s) s.bss)))
  | ["join", order] =>
    match parseIds order with
    | some order =>
      (s, match join s.ops (order.map fun i => workerOut (shProver s) s.ops (s.bss.getD i [])) 0 {} with
          | some a => showAssembled a
          | none => "panic")
    | none => (s, "bad-op")
  | ["spec"] =>
    let reads := (s.ops.filter (·.2.isRead)).map (·.1)
    let ws := witnessFast HB s.view reads (subtrieOps s.ops)
    (s, if ws.isEmpty then "-" else "#".intercalate (ws.map showWPath))
  | _ => (s, "bad-op")

end Nomt.Driver
