import NomtModel.Driver.Parse
import NomtModel.Store.ImgCheck
import NomtModel.Store.ImgMerkle
import NomtModel.Store.Placement
import NomtModel.Store.TraceOrder
import NomtModel.Store.SyncGenRecProof
/-!
Driver mode `image` (C16 / C19): every stdin line `check <dir> <expected-file>` makes the driver read
the files of the nomt directory `<dir>` itself, decode them with the Lean decoders of
`Store/Img*.lean`, run `wfImage` / `wfTable` / the merkle page check, and compare `absImage` with the
expected committed state.

Expected-state file (written by the harness from its own oracle map): one line per key, sorted,
`<keyhex> <blake3(value) hex> <value length>`.  The decoded value is compared by length and by its
Blake3 hash computed HERE (`Blake3.hashAny`), so the file stays small for large values.

Output, one line per input line:
`ok keys=… leaves=… branches=… overflow_pages=… ln_free=… bbn_free=… ln_leaked=… bbn_leaked=… ht_full=… ht_tomb=… merkle_pages=… rollback_records=… wal=<empty|stale|pending>`
or `bad <reason>`.
-/
namespace Nomt.Driver
open Nomt Nomt.Store

def readOr (p : System.FilePath) : IO (Option ByteArray) := do
  try
    let b ← IO.FS.readBinFile p
    pure (some b)
  catch _ => pure none

def loadImage (dir : String) : IO (Except String Image) := do
  let d : System.FilePath := dir
  let some metaF ← readOr (d / "meta") | return .error "io: cannot read meta"
  let some ln ← readOr (d / "ln") | return .error "io: cannot read ln"
  let some bbn ← readOr (d / "bbn") | return .error "io: cannot read bbn"
  let some ht ← readOr (d / "ht") | return .error "io: cannot read ht"
  let wal := (← readOr (d / "wal")).getD ByteArray.empty
  let mut segs : List (String × ByteArray) := []
  try
    let ents ← d.readDir
    let names := (ents.map (·.fileName)).qsort (· < ·)
    for n in names do
      if n.startsWith "rollback." then
        match ← readOr (d / n) with
        | some b => segs := segs ++ [(n, b)]
        | none => return .error s!"io: cannot read {n}"
  catch _ => return .error "io: cannot list the directory"
  pure (.ok { metaF := metaF, ln := ln, bbn := bbn, ht := ht, wal := wal, segs := segs })

/-- `(key, value hash, value length)` lines -/
def parseExpected (s : String) : Except String (List (ByteArray × ByteArray × Nat)) :=
  (s.splitOn "\n").filter (· ≠ "") |>.mapM (fun l =>
    match fields l with
    | [k, h, n] =>
      match bytesOfHex k, bytesOfHex h, n.toNat? with
      | some k, some h, some n => pure (k, h, n)
      | _, _, _ => throw s!"expected-state file: bad line {l}"
    | _ => throw s!"expected-state file: bad line {l}")

def compareState : List (ByteArray × ByteArray) → List (ByteArray × ByteArray × Nat) → Except String Unit
  | [], [] => pure ()
  | (k, _) :: _, [] => throw s!"state: the image holds key {hexOfBytes k} that the committed state does not"
  | [], (k, _, _) :: _ => throw s!"state: committed key {hexOfBytes k} is missing from the image"
  | (k, v) :: r, (k', h, n) :: r' => do
    if k != k' then
      throw (if keyNat k < keyNat k' then s!"state: the image holds key {hexOfBytes k} that the committed state does not"
             else s!"state: committed key {hexOfBytes k'} is missing from the image")
    if v.size != n then throw s!"state: value of {hexOfBytes k} has length {v.size}, committed length {n}"
    if Blake3.hashAny v != h then throw s!"state: value of {hexOfBytes k} differs from the committed value (hash)"
    compareState r r'

/-- the rollback segments hold consecutive record ids covering the live range of the manifest -/
def checkSegments (img : Image) (m : Meta) : Except String Nat := do
  let mut ids : List Nat := []
  for (n, b) in img.segs do
    let recs ← (scanSegment b (b.size / PAGE + 1) 0 []).mapError (fun e => s!"{n}: {e}")
    ids := ids ++ recs.map (·.1)
  let rec consecutive : List Nat → Bool
    | a :: b :: t => b == a + 1 && consecutive (b :: t)
    | _ => true
  if !(consecutive ids) then throw s!"seglog: record ids are not consecutive: {ids}"
  if m.rollbackStartLive != 0 then
    if !(ids.contains m.rollbackStartLive) || !(ids.contains m.rollbackEndLive) then
      throw s!"seglog: live range [{m.rollbackStartLive},{m.rollbackEndLive}] of the manifest is not covered by the records {ids}"
  pure ids.length

def checkImage (img : Image) (expected : List (ByteArray × ByteArray × Nat)) : Except String String := do
  let st ← wfImage img
  let kvs ← absImage img
  compareState kvs expected
  -- the read path mirror (`lookup`, proved equal to `kvGet ∘ absImage` in T16_lookup) on a few keys
  let probes := (expected.take 1) ++ (expected.drop (expected.length / 2)).take 1 ++ (expected.reverse.take 1)
  for (k, hsh, n) in probes do
    match ← lookup img (keyNat k) with
    | some v => if v.size != n || Blake3.hashAny v != hsh then throw s!"lookup: wrong value for {hexOfBytes k}"
    | none => throw s!"lookup: committed key {hexOfBytes k} not found through the separators"
  let m ← imageMeta img
  let nrec ← checkSegments img m
  let seed := beNat img.metaF 32 8
  let wal ← decodeWal img.wal
  let walState := match wal with
    | none => "empty"
    | some (seqn, _) => if seqn == m.syncSeqn then "pending" else "stale"
  let (full, tomb, mp) ← (do
    if walState == "pending" then pure (0, 0, 0) else
    let t ← wfTable img.ht m seed
    let mp ← checkMerkle img.ht t (expected.map (fun (k, h, _) => (k, h)))
    pure (t.full, t.tomb, mp) : Except String (Nat × Nat × Nat))
  pure s!"ok keys={st.keys} leaves={st.leaves} branches={st.branches} overflow_pages={st.overflowPages} ln_free={st.lnFree} bbn_free={st.bbnFree} ln_leaked={st.lnLeaked} bbn_leaked={st.bbnLeaked} ht_full={full} ht_tomb={tomb} merkle_pages={mp} rollback_records={nrec} wal={walState}"

/-- C19: the occupancy the API reported at this point must equal the number of full buckets -/
def checkOccupied (o : String) (occ : Option ByteArray) : String :=
  match occ with
  | none => o
  | some ob =>
    let reported : Option Nat := (String.fromUTF8? ob).bind (fun t => t.trimAscii.toString.toNat?)
    let full : Option Nat := (String.ofList (((o.splitOn "ht_full=").getD 1 "").toList.takeWhile Char.isDigit)).toNat?
    if (o.splitOn "wal=pending").length > 1 then o
    else if reported == full then o ++ s!" occupied={reported.getD 0}"
    else s!"bad occupancy: hash_table_utilization().occupied = {reported} but the table holds {full} full buckets"

def renderLine (l : IoEv2) : String :=
  s!"{if l.isBegin then "Begin" else "End"} {l.ev.kind} {l.ev.file} {l.ev.offset} {l.ev.len} {l.ev.site} {l.thread}"

def b01 (b : Bool) : Nat := if b then 1 else 0

/-- C04: is the recorded trace of an operation a run of the sync choreography (`Store/SyncGen.lean`) instantiated with the
trace's own page lists?  `ok <stats>` / `bad <why>`; an operation that issued nothing is trivially one. -/
def memberReport (tr : List IoEv2) : Except String String :=
  if tr.isEmpty then .ok "member=0 member_trivial=1" else
  let P := SyncGen.paramsOf tr
  let stats := s!"member=1 mem_rollback_append={b01 P.seg.isSome} mem_rollover={b01 ((P.seg.map (·.create)).getD false)} mem_no_rollback_append={b01 P.seg.isNone} mem_tree_ops={P.bt.length} mem_tree_grows={(P.bt.filter (·.grow)).length} mem_ht_writes={P.ht.length} mem_no_ht_writes={b01 P.ht.isEmpty} mem_prune_unlinks={P.prune.unlinks.length} mem_prune_any={b01 (!P.prune.unlinks.isEmpty || P.prune.tail.isSome)} mem_prune_truncate_head={b01 P.prune.tail.isSome} mem_wal_written=1"
  if !P.wfB then .error s!"order: choreography: a rollback segment carries the name of a store file (params {repr P})" else
  match SyncGen.member SyncGen.real P tr with
  | .ok => .ok stats
  | .cut => .error s!"order: choreography: the trace ends although tasks of the sync program (Store/SyncGen.lean) are unfinished — the model claims lines the code did not issue (params {repr P})"
  | .bad k => .error s!"order: choreography: line {k} `{match tr[k]? with | some l => renderLine l | none => "?"}` is not a step the sync program (Store/SyncGen.lean) can take at this point: the real order violates a happens-before edge of the model, or issues an action the model does not have"

/-- C03: is the recorded trace of a recovery the trace of the recovery choreography (`Store/SyncGenRec.lean`)? -/
def recMemberReport (tr : List IoEv2) : Except String String :=
  let R := SyncGen.recParamsOf tr
  let stats := s!"rec_member=1 rec_redo={b01 (match R.wal with | .redo _ => true | _ => false)} rec_stale_wal={b01 (R.wal == .stale)} rec_no_wal={b01 (R.wal == .absent)} rec_unlinks={R.unlinks.length} rec_truncate_head={b01 R.head.isSome}"
  if !R.wfB then .error s!"member: recovery choreography: the head segment carries the name of a store file" else
  match SyncGen.firstDiff tr (SyncGen.recLines {} R) 0 with
  | none => .ok stats
  | some k => .error s!"member: recovery choreography: line {k} `{match tr[k]? with | some l => renderLine l | none => "<end of trace>"}` differs from the recovery program (Store/SyncGenRec.lean), which has `{match (SyncGen.recLines {} R)[k]? with | some l => renderLine l | none => "<end>"}` there"

/-- the records `(id, payload)` of one rollback segment file (framing as `scanSegment`: header `len u32 | id u64`, 4 KiB aligned) -/
def scanRecs (b : ByteArray) : (fuel : Nat) → (o : Nat) → (acc : List (Nat × ByteArray)) → Except String (List (Nat × ByteArray))
  | 0, _, acc => pure acc.reverse
  | fuel + 1, o, acc =>
    if o ≥ b.size then pure acc.reverse else
    match decodeRecordHeader b o with
    | none => throw "seglog: truncated record header"
    | some (len, id) =>
      if o + 12 + len > b.size then throw s!"seglog: record {id} payload beyond the end of the segment"
      else scanRecs b fuel ((o + 12 + len + PAGE - 1) / PAGE * PAGE) ((id, b.extract (o + 12) (o + 12 + len)) :: acc)

def allRecs (segs : List (String × ByteArray)) : Except String (List (Nat × ByteArray)) :=
  segs.foldlM (fun acc (n, b) => do
    let r ← (scanRecs b (b.size / PAGE + 1) 0 []).mapError (fun e => s!"{n}: {e}")
    pure (acc ++ r)) []

def lookupRec (l : List (Nat × ByteArray)) (id : Nat) : Option ByteArray := (l.find? (fun r => r.1 == id)).map (·.2)

/-- what recovery under manifest `m` reads of the records `l` (mirror of `absLog`, `Store/CrashLog.lean`): the records inside the
live range, of which `Rollback::read` keeps the last `maxLen` -/
def absRecs (m : Meta) (maxLen : Nat) (l : List (Nat × ByteArray)) : List (Nat × ByteArray) :=
  let live := l.filter (fun r => m.rollbackStartLive != 0 && m.rollbackStartLive ≤ r.1 && r.1 ≤ m.rollbackEndLive)
  live.drop (live.length - maxLen)

/-- C17 / C04, rollback-log side of the old-meta monitor: `pre` / `post` = the records of the rollback segments before / after the
operation, `mPre` / `mPost` the manifests, `maxLen` = `max_rollback_log_len`.  Every record recovery under the PREVIOUS manifest reads
(`absRecs mPre`) is either still there with the same bytes, or it is gone and recovery under the NEW manifest does not read it either:
it lies outside the new live range (rolled back / pruned), or it belonged to a dead oldest segment while `maxLen` newer live records
remain (`absLog_drop_lagging`); every record that appeared has an id beyond the previous live range (appends only).
Answer: (kept, pruned, appended). -/
def checkRollbackOld (mPre mPost : Meta) (maxLen : Nat) (pre post : List (Nat × ByteArray)) : Except String (Nat × Nat × Nat) := do
  let live (m : Meta) (id : Nat) : Bool := m.rollbackStartLive != 0 && m.rollbackStartLive ≤ id && id ≤ m.rollbackEndLive
  let mut kept := 0
  let mut pruned := 0
  let mut appended := 0
  let old := absRecs mPre maxLen pre
  if mPre.rollbackStartLive != 0 && (lookupRec old mPre.rollbackEndLive).isNone then
    throw s!"rollback: the newest record {mPre.rollbackEndLive} of the previous live range is not in the previous segments"
  let postLive := post.filter (fun r => live mPost r.1)
  for (id, p) in old do
    match lookupRec post id with
    | some p' =>
      if p' != p then throw s!"rollback: record {id} of the previous live range was rewritten in place"
      kept := kept + 1
    | none =>
      if live mPost id && !(postLive.length ≥ maxLen && postLive.all (fun r => id < r.1)) then
        throw s!"rollback: record {id} of the previous live range is gone although recovery under the new manifest (live range [{mPost.rollbackStartLive},{mPost.rollbackEndLive}], {postLive.length} live records left, max_rollback_log_len {maxLen}) still reads it"
      pruned := pruned + 1
  for (id, _) in post do
    if (lookupRec pre id).isNone then
      if mPre.rollbackEndLive != 0 && id ≤ mPre.rollbackEndLive then
        throw s!"rollback: record {id} appeared at or below the end {mPre.rollbackEndLive} of the previous live range (not an append)"
      appended := appended + 1
  pure (kept, pruned, appended)

def loadSegs (d : System.FilePath) : IO (Except String (List (String × ByteArray))) := do
  let mut segs : List (String × ByteArray) := []
  try
    let ents ← d.readDir
    let names := (ents.map (·.fileName)).qsort (· < ·)
    for n in names do
      if n.startsWith "rollback." then
        match ← readOr (d / n) with
        | some b => segs := segs ++ [(n, b)]
        | none => return .error s!"io: cannot read {n}"
  catch _ => return .error "io: cannot list the directory"
  pure (.ok segs)

def imageLine (line : String) : IO String := do
  match fields line with
  | ["check", dir, expf] =>
    match ← loadImage dir with
    | .error e => pure s!"bad {e}"
    | .ok img =>
      let some eb ← readOr expf | return "bad io: cannot read the expected-state file"
      match String.fromUTF8? eb with
      | none => pure "bad expected-state file: not utf-8"
      | some s =>
        match parseExpected s >>= checkImage img with
        | .ok o =>
          -- C19: the occupancy the API reported at this point must equal the number of full buckets
          let occ ← readOr (dir ++ "/occupied.txt")
          pure (checkOccupied o occ)
        | .error e => pure s!"bad {e}"
  -- C17: `placement <pre-snapshot-dir>` (the directory also holds `trace.txt`, the events of the operation)
  | ["placement", dir] =>
    match ← loadImage dir with
    | .error e => pure s!"bad {e}"
    | .ok img =>
      let some tb ← readOr (dir ++ "/trace.txt") | return "bad io: cannot read the I/O trace"
      match String.fromUTF8? tb with
      | none => pure "bad trace: not utf-8"
      | some t =>
        match checkPlacement img (parseIoTrace t) with
        | .ok st =>
          -- C04 / C03: the fsync discipline of the same operation (Begin and End lines)
          match checkOrder (parseIoTrace2 t) with
          | .error e => pure s!"bad {e}"
          | .ok o =>
            match memberReport (parseIoTrace2 t) with
            | .error e => pure s!"bad {e}"
            | .ok mem =>
            pure s!"ok pre_meta_events={st.preMetaEvents} ln_writes={st.lnWrites} bbn_writes={st.bbnWrites} to_free_pages={st.toFreePages} beyond_frontier={st.beyondFrontier} meta_write_seen={st.sawMeta} order_effects={o.effects} order_fsyncs={o.fsyncs} durable_at_switch={o.durableAtSwitch} overlapped={o.overlapped} ht_writes={o.htWrites} post_prunes={o.postPrunes} left_volatile={o.pend.length} switch_durable={if o.phase == 2 then 1 else 0} {mem}"
        | .error e => pure s!"bad placement: {e}"
  -- C17 / C04 (content level): `placement-oldmeta <dir>` — `<dir>` holds the `ln` / `bbn` files as they are AFTER an operation,
  -- the `meta` page as it was BEFORE it and `expected.txt` = the committed map before it.  The beatree part of the image
  -- must be well-formed under the OLD manifest and abstract to the OLD state: no page the previous state reads (node,
  -- overflow page, free-list page — `Store/Frame*.lean`) was touched.  The hash table is rewritten in place after the
  -- switch-over, so the table / Merkle checks are not part of this monitor.
  | ["placement-oldmeta", dir] =>
    let d : System.FilePath := dir
    let some metaF ← readOr (d / "meta") | return "bad oldmeta: io: cannot read meta"
    let some ln ← readOr (d / "ln") | return "bad oldmeta: io: cannot read ln"
    let some bbn ← readOr (d / "bbn") | return "bad oldmeta: io: cannot read bbn"
    let some eb ← readOr (d / "expected.txt") | return "bad oldmeta: io: cannot read the expected-state file"
    let img : Image := { metaF := metaF, ln := ln, bbn := bbn, ht := ByteArray.empty, wal := ByteArray.empty, segs := [] }
    match String.fromUTF8? eb with
    | none => pure "bad oldmeta: expected-state file: not utf-8"
    | some s =>
      match (do
        let expected ← parseExpected s
        let st ← wfImage img
        let kvs ← absImage img
        compareState kvs expected
        pure st : Except String Stats) with
      | .ok st =>
        -- rollback-log side (only when the harness supplied the PRE segments and the POST meta page)
        let some mpb ← readOr (d / "meta.post") | return s!"ok old_keys={st.keys} old_leaves={st.leaves} old_branches={st.branches} old_overflow_pages={st.overflowPages} old_ln_free={st.lnFree} old_bbn_free={st.bbnFree}"
        let preS ← loadSegs (d / "pre")
        let postS ← loadSegs d
        let maxLen : Nat := ((← readOr (d / "maxlog.txt")).bind (fun b => (String.fromUTF8? b).bind (fun t => t.trimAscii.toString.toNat?))).getD 1000000
        match (do
          let preS ← preS
          let postS ← postS
          let mPre ← imageMeta img
          let mPost ← imageMeta { img with metaF := mpb }
          let pre ← allRecs preS
          let post ← allRecs postS
          checkRollbackOld mPre mPost maxLen pre post : Except String (Nat × Nat × Nat)) with
        | .ok (k, p, a) => pure s!"ok old_keys={st.keys} old_leaves={st.leaves} old_branches={st.branches} old_overflow_pages={st.overflowPages} old_ln_free={st.lnFree} old_bbn_free={st.bbnFree} old_rb_kept={k} old_rb_pruned={p} old_rb_appended={a}"
        | .error e => pure s!"bad oldmeta: {e}"
      | .error e => pure s!"bad oldmeta: the files after the operation no longer decode to the previous state under the previous meta page: {e}"
  -- C04 / C03: `recovery <trace-file>` — the Begin / End events `Nomt::open` issued while recovering a crashed directory
  | ["recovery", f] =>
    let some tb ← readOr f | return "bad io: cannot read the recovery trace"
    match String.fromUTF8? tb with
    | none => pure "bad trace: not utf-8"
    | some t =>
      match checkRecoveryOrder (parseIoTrace2 t) with
      | .error e => pure s!"bad {e}"
      | .ok o =>
        match recMemberReport (parseIoTrace2 t) with
        | .error e => pure s!"bad {e}"
        | .ok mem =>
        pure s!"ok recovery_effects={o.effects} recovery_fsyncs={o.fsyncs} redone_ht_writes={o.htWrites} recovery_unlinks={o.postPrunes} recovery_left_volatile={o.pend.length} {mem}"
  | _ => pure "bad unknown command"

partial def imageLoop (h out : IO.FS.Stream) : IO Unit := do
  let line ← h.getLine
  if line.isEmpty then return ()
  out.putStrLn (← imageLine line)
  out.flush
  imageLoop h out

end Nomt.Driver
