import NomtModel.Driver.Parse
import NomtModel.Store.CacheOps
import NomtModel.Core.TriePos
/-!
Driver mode `caches` (C13 / C02): the Lean mirror of `PageCache`, `LeafCache`, `PageSet`
(`Store/CacheModel.lean`, the cached read paths of `Store/CacheOps.lean` — the definitions the theorems of
`Props/C13_Caches.lean` are about) behind a line protocol.  The harness (`harness/src/caches.rs`) drives the REAL caches
through hook H21 on the same lines.  Page contents are tags (`Nat`).

* `pc new <dbg> <shards> <MiB> <levels> <root: tag/bucket|->` → `ok <dump with limits>` | `panic`
* `pc limit <per root child>` → `ok <dump with limits>` | `panic`
* `pc read <pid> <stored: tag/bucket|->` → `<result> | <dump>` (get; on a miss insert the stored page)
* `pc get <pid>` · `pc insert <pid> <tag> <bucket>` (→ returned tag) · `pc batch <pid>=<tag/bucket|->,…` · `pc evict` · `pc idx <pid>`
* `lc new <dbg> <shards> <MiB>` · `lc max <m>` · `lc lookup <shard> <pn> <stored tag>` · `lc get <shard> <pn>` ·
  `lc insert <shard> <pn> <tag>` · `lc evict`
* `lcq get|insert|evict1 …`: replay of the leaf-cache calls recorded from a REAL store (`caches-db`): results only
* `ps new` · `ps restart <0|1>` · `ps insert <pid> <tag> <bucket>` · `ps get <pid>` · `ps contains <pid>`
* `flags <insertLt 0|1> <leafSkipFull 0|1> [<f25ZeroLimitUnwrap 0|1>]`: switch the mirror to a seeded / pre-repair variant
dump: `root=<e>[ limits=<v*n,…>] <i>:F[<pid=tag/bucket,…>]L[…]` for the non-empty shards (pinned map sorted by page id,
LRU most recently used first); leaf dump `[max=<v*n,…>] <i>:[pn=tag,…]`.
-/
namespace Nomt.Driver
open Nomt Nomt.Cache

structure CaSt where
  q : Flags := {}
  pc : Option (PageCache Nat) := none
  lc : Option (LeafCache Nat) := none
  ps : PageSet Nat Nat := PageSet.new none

def parsePid (s : String) : Option PageId :=
  if s == "r" then some [] else (s.splitOn ".").mapM (·.toNat?)

def showPid (p : PageId) : String :=
  if p.isEmpty then "r" else ".".intercalate (p.map toString)

def parseEnt (s : String) : Option (Option (Entry Nat)) :=
  if s == "-" then some none else
  match s.splitOn "/" with
  | [t, b] => do let t ← t.toNat?; let b ← b.toNat?; pure (some ⟨t, b⟩)
  | _ => none

def showEnt : Option (Entry Nat) → String
  | none => "-"
  | some e => s!"{e.page}/{e.bucket}"

def rle (l : List Nat) : String :=
  let rec go : List Nat → List (Nat × Nat) → List (Nat × Nat)
    | [], acc => acc.reverse
    | x :: xs, (v, n) :: acc => if v == x then go xs ((v, n + 1) :: acc) else go xs ((x, 1) :: (v, n) :: acc)
    | x :: xs, [] => go xs [(x, 1)]
  ",".intercalate ((go l []).map fun (v, n) => s!"{v}*{n}")

def insertSorted (x : PageId × Entry Nat) : List (PageId × Entry Nat) → List (PageId × Entry Nat)
  | [] => [x]
  | y :: ys => if TriePos.pidLt x.1 y.1 then x :: y :: ys else y :: insertSorted x ys

def showItems (l : List (PageId × Entry Nat)) : String :=
  ",".intercalate (l.map fun (p, e) => s!"{showPid p}={e.page}/{e.bucket}")

def pcDump (pc : PageCache Nat) (withLimits : Bool) : String :=
  let head := s!"root={showEnt pc.root}" ++ (if withLimits then s!" limits={rle (pc.shards.map (·.pageLimit))}" else "")
  let body := (pc.shards.zipIdx).filterMap fun (s, i) =>
    if s.fixed.isEmpty && s.cached.items.isEmpty then none
    else some s!" {i}:F[{showItems (s.fixed.foldr insertSorted [])}]L[{showItems s.cached.items}]"
  head ++ String.join body

def lcDump (lc : LeafCache Nat) (withMax : Bool) : String :=
  let head := if withMax then s!"max={rle (lc.shards.map (·.maxItems))}" else ""
  let body := (lc.shards.zipIdx).filterMap fun (s, i) =>
    if s.cache.items.isEmpty then none
    else some (s!" {i}:[" ++ ",".intercalate (s.cache.items.map fun (p, t) => s!"{p}={t}") ++ "]")
  let r := (head ++ String.join body).trimAscii.toString
  if r.isEmpty then "-" else r

def parseBatch (s : String) : Option (List (PageId × Option (Entry Nat))) :=
  (optList s ",").mapM fun item =>
    match item.splitOn "=" with
    | [p, e] => do let p ← parsePid p; let e ← parseEnt e; pure (p, e)
    | _ => none

def cachesStep (st : CaSt) (line : String) : CaSt × String :=
  match fields line with
  | ["flags", a, b] => ({ st with q := { insertLt := a == "1", leafSkipFull := b == "1" } }, "ok")
  | ["flags", a, b, c] =>
    ({ st with q := { insertLt := a == "1", leafSkipFull := b == "1", f25ZeroLimitUnwrap := c == "1" } }, "ok")
  | ["pc", "new", dbg, n, size, fl, root] =>
    match n.toNat?, size.toNat?, fl.toNat?, parseEnt root with
    | some n, some size, some fl, some root =>
      match PageCache.new st.q (dbg == "1") root n size fl with
      | .ok pc => ({ st with pc := some pc }, s!"ok {pcDump pc true}")
      | _ => ({ st with pc := none }, "panic")
    | _, _, _, _ => (st, "parse error")
  | "pc" :: rest =>
    match st.pc with
    | none => (st, "no cache")
    | some pc =>
      match rest with
      | ["limit", per] =>
        match per.toNat? with
        | some per =>
          match pc.setLimits per with
          | .ok pc' => ({ st with pc := some pc' }, s!"ok {pcDump pc' true}")
          | _ => ({ st with pc := none }, "panic")
        | none => (st, "parse error")
      | ["read", pid, stored] =>
        match parsePid pid, parseEnt stored with
        | some pid, some stored =>
          match pageRead pc (fun _ => stored) pid with
          | .ok (r, pc') => ({ st with pc := some pc' }, s!"{showEnt r} | {pcDump pc' false}")
          | _ => (st, "panic")
        | _, _ => (st, "parse error")
      | ["get", pid] =>
        match parsePid pid with
        | some pid =>
          match pc.get pid with
          | .ok (r, pc') => ({ st with pc := some pc' }, s!"{showEnt r} | {pcDump pc' false}")
          | _ => (st, "panic")
        | none => (st, "parse error")
      | ["idx", pid] =>
        match parsePid pid with
        | some pid =>
          match pc.shardIndexFor pid with
          | .ok none => (st, "root")
          | .ok (some i) => (st, toString i)
          | _ => (st, "panic")
        | none => (st, "parse error")
      | ["insert", pid, t, b] =>
        match parsePid pid, t.toNat?, b.toNat? with
        | some pid, some t, some b =>
          match pc.insert pid ⟨t, b⟩ with
          | .ok (r, pc') => ({ st with pc := some pc' }, s!"{r.page} | {pcDump pc' false}")
          | _ => (st, "panic")
        | _, _, _ => (st, "parse error")
      | ["batch", ups] =>
        match parseBatch ups with
        | some ups =>
          match pc.batchUpdate st.q ups with
          | .ok pc' => ({ st with pc := some pc' }, s!"ok | {pcDump pc' false}")
          | _ => (st, "panic")
        | none => (st, "parse error")
      | ["evict"] => let pc' := pc.evict; ({ st with pc := some pc' }, s!"ok | {pcDump pc' false}")
      | _ => (st, "unknown")
  | ["lc", "new", dbg, n, size] =>
    match n.toNat?, size.toNat? with
    | some n, some size =>
      match LeafCache.new (dbg == "1") n size with
      | .ok lc => ({ st with lc := some lc }, s!"ok {lcDump lc true}")
      | _ => ({ st with lc := none }, "panic")
    | _, _ => (st, "parse error")
  | "lc" :: rest =>
    match st.lc with
    | none => (st, "no cache")
    | some lc =>
      match rest with
      | ["max", m] =>
        match m.toNat? with
        | some m => let lc' := lc.setMaxItems m; ({ st with lc := some lc' }, s!"ok {lcDump lc' true}")
        | none => (st, "parse error")
      | ["lookup", h, pn, stored] =>
        match h.toNat?, pn.toNat?, stored.toNat? with
        | some h, some pn, some stored =>
          match leafLookup st.q lc (fun _ => h) (fun _ => stored) pn with
          | .ok (r, lc') => ({ st with lc := some lc' }, s!"{r} | {lcDump lc' false}")
          | _ => (st, "panic")
        | _, _, _ => (st, "parse error")
      | ["get", h, pn] =>
        match h.toNat?, pn.toNat? with
        | some h, some pn =>
          match lc.get h pn with
          | .ok (r, lc') => ({ st with lc := some lc' }, s!"{(r.map toString).getD "-"} | {lcDump lc' false}")
          | _ => (st, "panic")
        | _, _ => (st, "parse error")
      | ["insert", h, pn, t] =>
        match h.toNat?, pn.toNat?, t.toNat? with
        | some h, some pn, some t =>
          match lc.insert st.q h pn t with
          | .ok lc' => ({ st with lc := some lc' }, s!"ok | {lcDump lc' false}")
          | _ => (st, "panic")
        | _, _, _ => (st, "parse error")
      | ["evict"] => let lc' := lc.evict; ({ st with lc := some lc' }, s!"ok | {lcDump lc' false}")
      | _ => (st, "unknown")
  | "lcq" :: rest =>
    -- replay of a recorded trace of the real store's leaf cache: results only, no dump
    match st.lc with
    | none => (st, "no cache")
    | some lc =>
      match rest with
      | ["get", h, pn] =>
        match h.toNat?, pn.toNat? with
        | some h, some pn =>
          match lc.get h pn with
          | .ok (r, lc') => ({ st with lc := some lc' }, (r.map toString).getD "-")
          | _ => (st, "panic")
        | _, _ => (st, "parse error")
      | ["insert", h, pn, t] =>
        match h.toNat?, pn.toNat?, t.toNat? with
        | some h, some pn, some t =>
          match lc.insert st.q h pn t with
          | .ok lc' => ({ st with lc := some lc' }, "ok")
          | _ => (st, "panic")
        | _, _, _ => (st, "parse error")
      | ["evict1", i, _m] =>
        -- `evict` reaches shard `i` (the loop body of `LeafCache::evict` for one shard)
        match i.toNat? with
        | some i =>
          match lc.shards[i]? with
          | some s => ({ st with lc := some { shards := lc.shards.set i { s with cache := s.cache.evict s.maxItems } } }, "ok")
          | none => (st, "panic")
        | none => (st, "parse error")
      | _ => (st, "unknown")
  | ["ps", "new"] => ({ st with ps := PageSet.new none }, "ok")
  | ["ps", "restart", w] =>
    ({ st with ps := PageSet.new (if w == "1" then some st.ps.freeze else none) }, "ok")
  | ["ps", "insert", pid, t, b] =>
    match parsePid pid, t.toNat?, b.toNat? with
    | some pid, some t, some b => ({ st with ps := st.ps.insert pid t b }, "ok")
    | _, _, _ => (st, "parse error")
  | ["ps", "get", pid] =>
    match parsePid pid with
    | some pid => (st, match st.ps.get pid with | some (t, b) => s!"{t}/{b}" | none => "-")
    | none => (st, "parse error")
  | ["ps", "contains", pid] =>
    match parsePid pid with
    | some pid => (st, if st.ps.contains pid then "1" else "0")
    | none => (st, "parse error")
  | _ => (st, "unknown")

end Nomt.Driver
