import NomtModel.Driver.LeafUpdMode
import NomtModel.Store.BranchUpdModel
import NomtModel.Store.BranchUpdKeys
/-!
Driver mode `branchupd` (C01 / C16 / C19): the mirror of `BranchUpdater` / `BranchOpsTracker` / `BranchGauge` /
`build_branch` and of the `run_worker` loop of the branch stage (`Store/BranchUpdModel.lean`) behind a stateful line
protocol.  The harness (`vharness branchupd`) drives the REAL code through `nomt::verif_api::branch_updater` with the same
calls; the two output streams must be identical.

Keys 32 bytes lowercase hex; `-` = none / empty list.

* `node <id> <bbn> <pl> <pc> <items>` — a node built with the real `BranchNodeBuilder` as the real accessors read it back
  (`<items>` = `key:pn:stored separator bits,…`); ids count up from 0: `ok body=<bytes behind the header>`
* `new <@id|-> <cutoff>` / `reset <@id|-> <cutoff>` — `BranchUpdater::new` / `reset_base`: `ok`
* `rmcut` — `remove_cutoff`: `ok`;  `scope <key>` — `is_in_scope`: `true` / `false`
* `ingest <key> <pn|->` — `ingest`: `<state>` with `ops=<number of ops>#<the last three>`
* `digest <k|->` — `digest` (the handler refuses its k-th node): `nodes=<separator|pl|pc|items|cutoff;…> res=<fin|merge:<cutoff>|err> <state>`
* `<state>` = `ops=<I:key:pn,U:pos:pn,K:start:end:sum,…> g=<first key:len|->/<prefix_len>/<sum>/<prefix_compressed|->/<n> v=<valid_gauge> low=<n|-> cut=<cutoff>`
* `stage <separator@id,…|-> <key:pn,key:-,…>` — the whole real stage (`branch_stage::run`, one worker) on the index of the
  given nodes: `out=<separator|o<bbn> or separator|n|pl|pc|items;…> freed=<pn,…>`
* `mstage <workers> <separator@id,…> <changes>` — the whole real stage with 2…4 branch workers (`prepare_workers`, the
  range-extension protocol, `filter_branch_changeset`): `content=<key:pn,…>` of the new level (the node boundaries may differ
  from the one-worker run; the mirror answers with the content of its one-worker run)
* a `digest` / `stage` that produces a node whose encoding needs more than BRANCH_NODE_BODY_SIZE bytes (separators and node
  pointers overlap in the page; the content of such a page is not defined): `overfull`, the updater is unusable afterwards
* `firstleaf <j> <value length>` — whole-store scenario `vharness branchupd-firstleaf` (the first leaf is emptied, then a key
  in front of everything is written together with the largest key): `ok` iff every key reads back the last value written
* any call that panics: `panic` (the updater is unusable afterwards: every later call answers `dead`)
-/
namespace Nomt.Driver
open Nomt Nomt.BranchUpd

def buItem (s : String) : Option Item :=
  match s.splitOn ":" with
  | [k, pn, sl] => do
    let k ← natOfHexKey k
    let pn ← pn.toNat?
    let sl ← sl.toNat?
    pure ⟨k, pn, sl⟩
  | _ => none

def buItems (s : String) : Option (List Item) := if s == "-" then some [] else (s.splitOn ",").mapM buItem

def buShowItems (l : List Item) : String :=
  if l.isEmpty then "-" else ",".intercalate (l.map fun it => s!"{hexOfNatKey it.key}:{it.pn}:{it.slen}")

def buShowNode (nd : Node) : String := s!"{nd.pl}|{nd.pc}|{buShowItems nd.items}"

def buShowOp : Op → String
  | .ins k pn => s!"I:{hexOfNatKey k}:{pn}"
  | .upd pos pn => s!"U:{pos}:{pn}"
  | .keep s e sum => s!"K:{s}:{e}:{sum}"

def buShowGauge (g : Gauge) : String :=
  let first := match g.first with | none => "-" | some (k, l) => s!"{hexOfNatKey k}:{l}"
  let pc := match g.pc with | none => "-" | some n => toString n
  s!"{first}/{g.pl}/{g.sum}/{pc}/{g.n}"

/-- `tail`: the number of ops and the last three only -/
def buShowState (st : St) (tail : Bool := false) : String :=
  let shown := if tail then st.ops.drop (st.ops.length - 3) else st.ops
  let ops := if st.ops.isEmpty then "-" else ",".intercalate (shown.map buShowOp)
  let ops := if tail then s!"{st.ops.length}#{ops}" else ops
  let low := match st.base with | none => "-" | some b => toString b.low
  s!"ops={ops} g={buShowGauge st.gauge} v={if st.valid then "1" else "0"} low={low} cut={luShowOptKey st.cutoff}"

def buShowProduced (l : List Produced) : String :=
  if l.isEmpty then "-" else
  ";".intercalate (l.map fun p => s!"{hexOfNatKey p.sep}|{buShowNode p.node}|{luShowOptKey p.cutoff}")

structure BuState where
  nodes : Array (Nat × Node) := #[]
  /-- `none` = no updater yet or it panicked -/
  st : Option St := none

def buBase (s : BuState) (a : String) : Option (Option Base) :=
  if a == "-" then some none else
  if a.startsWith "@" then
    match (a.drop 1).toString.toNat? with
    | some i => (s.nodes[i]?).map fun (_, nd) => some { node := nd }
    | none => none
  else none

def buDb (s : BuState) (a : String) : Option (List DbNode) :=
  if a == "-" then some [] else
  (a.splitOn ",").mapM fun e =>
    match e.splitOn "@" with
    | [sep, id] => do
      let sep ← natOfHexKey sep
      let i ← id.toNat?
      let (bbn, nd) ← s.nodes[i]?
      pure ⟨sep, bbn, nd⟩
    | _ => none

def buChanges (a : String) : Option (List (Nat × Option Nat)) :=
  if a == "-" then some [] else
  (a.splitOn ",").mapM fun e =>
    match e.splitOn ":" with
    | [k, pn] => do
      let k ← natOfHexKey k
      if pn == "-" then pure (k, none) else do
        let pn ← pn.toNat?
        pure (k, some pn)
    | _ => none

def buShowOut (out : List OutNode) : String :=
  if out.isEmpty then "-" else
  ";".intercalate (out.map fun o =>
    match o with
    | .old l => s!"{hexOfNatKey l.sep}|o{l.bbn}"
    | .new p => s!"{hexOfNatKey p.sep}|n|{buShowNode p.node}")

def buShowNats (l : List Nat) : String := if l.isEmpty then "-" else ",".intercalate (l.map toString)

def branchupdStep (s : BuState) (line : String) : BuState × String :=
  match fields line with
  | ["node", id, bbn, pl, pc, items] =>
    match id.toNat?, bbn.toNat?, pl.toNat?, pc.toNat?, buItems items with
    | some i, some bbn, some pl, some pc, some its =>
      if i == s.nodes.size then
        let nd : Node := ⟨pl, pc, its⟩
        ({ s with nodes := s.nodes.push (bbn, nd) }, s!"ok body={nd.body}")
      else (s, "bad-op")
    | _, _, _, _, _ => (s, "bad-op")
  | ["firstleaf", _, _] => (s, "ok")       -- a whole-store scenario: every key reads back the last value written
  | ["new", base, cutoff] =>
    match buBase s base, luOptKey cutoff with
    | some b, some c => ({ s with st := some (St.new b c) }, "ok")
    | _, _ => (s, "bad-op")
  | ["mstage", _, db, changes] =>
    match buDb s db, buChanges changes with
    | some db, some cs =>
      match runWorker kfReal db cs with
      | none => (s, "panic")
      | some (out, _) =>
        if out.any (fun o => match o with | .new p => decide (BODY < p.node.body) | .old _ => false) then (s, "overfull")
        else
          let kps := (out.flatMap fun o => o.items).map fun it => s!"{hexOfNatKey it.key}:{it.pn}"
          (s, s!"content={if kps.isEmpty then "-" else ",".intercalate kps}")
    | _, _ => (s, "bad-op")
  | ["stage", db, changes] =>
    match buDb s db, buChanges changes with
    | some db, some cs =>
      match runWorker kfReal db cs with
      | none => (s, "panic")
      | some (out, released) =>
        if out.any (fun o => match o with | .new p => decide (BODY < p.node.body) | .old _ => false) then (s, "overfull")
        else (s, s!"out={buShowOut out} freed={buShowNats released}")
    | _, _ => (s, "bad-op")
  | cmd :: args =>
    match s.st with
    | none => (s, "dead")
    | some st =>
      match cmd, args with
      | "reset", [base, cutoff] =>
        match buBase s base, luOptKey cutoff with
        | some b, some c => ({ s with st := some (resetBase st b c) }, "ok")
        | _, _ => (s, "bad-op")
      | "rmcut", [] => ({ s with st := some (removeCutoff st) }, "ok")
      | "scope", [key] =>
        match natOfHexKey key with
        | some k => (s, if inScope st k then "true" else "false")
        | none => (s, "bad-op")
      | "ingest", [key, pn] =>
        match natOfHexKey key, (if pn == "-" then some none else pn.toNat?.map some) with
        | some k, some pn =>
          match ingest kfReal st k pn with
          | none => ({ s with st := none }, "panic")
          | some st' => ({ s with st := some st' }, buShowState st' true)
        | _, _ => (s, "bad-op")
      | "digest", [failAt] =>
        match digest kfReal st with
        | none => ({ s with st := none }, "panic")
        | some (st', nodes, res) =>
          if nodes.any (fun p => decide (BODY < p.node.body)) then ({ s with st := none }, "overfull") else
          let fail? : Option Nat := if failAt == "-" then none else failAt.toNat?
          let r := match res with | .finished => "fin" | .needsMerge c => s!"merge:{hexOfNatKey c}"
          match fail? with
          | some k =>
            if k < nodes.length then ({ s with st := none }, s!"nodes={buShowProduced (nodes.take k)} res=err")
            else ({ s with st := some st' }, s!"nodes={buShowProduced nodes} res={r} {buShowState st'}")
          | none => ({ s with st := some st' }, s!"nodes={buShowProduced nodes} res={r} {buShowState st'}")
      | _, _ => (s, "bad-op")
  | _ => (s, "bad-op")

end Nomt.Driver
