import NomtModel.Driver.BranchUpdMode
import NomtModel.Store.StageGlueModel
import NomtModel.Store.LeafUpdSep
import NomtModel.Store.FreeListModel
/-!
Driver mode `stageglue` (C01 / C19 / C16 / C10): the mirror of the glue of the beatree update
(`Store/StageGlueModel.lean`: `enforceFirst`, `filterCs`, `update`) behind a line protocol.  The harness
(`vharness stageglue`) drives the REAL `enforce_first_leaf_separator` / `filter_*_changeset` / `ops::update` through
`nomt::verif_api::stage_glue`; the two output streams must be identical.

Keys 32 bytes lowercase hex; `-` = none / empty list.

* `enf <real|seeded> <key:pn,…> <key:pn|-,…>` — `enforce_first_leaf_separator` on the leaf level (separator : page
  number) and the changeset: `cs=<key:pn|-,…>` / `panic`
* `fl <changes>` / `fb <changes>` — `filter_leaves_changeset` / `filter_branch_changeset`: `cs=<…>` / `panic`
* `tree` — start a new tree: `ok`;  `bnode <separator> <bbn> <pl> <pc> <key:pn:bits,…>` — the next branch node: `ok`;
  `leaf <separator> <pn> <key:size:o:pages,…>` — the next leaf (`pages` = `p+p+…` what `overflow::delete` frees for the
  cell, `_` for none): `ok`
* `stores <ln bump> <bbn bump>` — two fresh stores (empty free lists) with these allocation frontiers: `ok`
* `update <real|seeded> <ln bump> <bbn bump> <key:D|key:I<len>|key:O<len>,…>` — `ops::update` with one worker on the
  registered tree; both stores are the ones the previous `update` left (`Store::open` with the `SyncData` it returned: the
  free lists of `Store/FreeListModel.lean` carry over, `allocate` pops them before it bumps): `lcs=<leaf changeset>
  lnfreed=<pn,…> bbnfreed=<pn,…> io=<n> idx=<separator|bbn|pl|pc|items;…> leaves=<pn|key:size:o:pages,…;…> cache=<pn,…>
  sync=<ln bump>/<ln free-list head|->/<bbn bump>/<bbn free-list head|->` / `panic`
-/
namespace Nomt.Driver
open Nomt Nomt.StageGlue
open Nomt.LeafUpd (Entry DbLeaf OutLeaf Leaf)

def sgLevel (a : String) : Option Level :=
  if a == "-" then some [] else
  (a.splitOn ",").mapM fun e =>
    match e.splitOn ":" with
    | [k, pn] => do
      let k ← natOfHexKey k
      let pn ← pn.toNat?
      pure (k, pn)
    | _ => none

def sgShowCs (cs : List (Nat × Option Nat)) : String :=
  if cs.isEmpty then "-" else
  ",".intercalate (cs.map fun (k, pn) => s!"{hexOfNatKey k}:{match pn with | none => "-" | some p => toString p}")

def sgPages (a : String) : Option (List Nat) :=
  if a == "_" then some [] else (a.splitOn "+").mapM (·.toNat?)

def sgShowPages (l : List Nat) : String := if l.isEmpty then "_" else "+".intercalate (l.map toString)

def sgEntry (s : String) : Option (Entry Cell) :=
  match s.splitOn ":" with
  | [k, size, o, pages] => do
    let k ← natOfHexKey k
    let size ← size.toNat?
    let pages ← sgPages pages
    pure ⟨k, ⟨size, pages⟩, o == "1"⟩
  | _ => none

def sgEntries (s : String) : Option (List (Entry Cell)) := if s == "-" then some [] else (s.splitOn ",").mapM sgEntry

def sgShowEntries (l : List (Entry Cell)) : String :=
  if l.isEmpty then "-" else
  ",".intercalate (l.map fun e =>
    s!"{hexOfNatKey e.key}:{e.val.size}:{if e.ovf then "1" else "0"}:{sgShowPages e.val.pages}")

def sgChange (s : String) : Option (Nat × VC) :=
  match s.splitOn ":" with
  | [k, c] => do
    let k ← natOfHexKey k
    if c == "D" then pure (k, .delete)
    else if c.startsWith "I" then do let n ← (c.drop 1).toString.toNat?; pure (k, .insert n)
    else if c.startsWith "O" then do let n ← (c.drop 1).toString.toNat?; pure (k, .insertOverflow n)
    else none
  | _ => none

def sgChanges (a : String) : Option (List (Nat × VC)) := if a == "-" then some [] else (a.splitOn ",").mapM sgChange

structure SgState where
  index : List BranchUpd.DbNode := []
  leaves : List (Nat × DbLeaf Cell) := []      -- (page number, leaf)
  /-- the two stores as the last sync left them (`StoreSync`: free list + bump) -/
  lnFl : Store.FreeList.State := { portions := [], released := [], pop := false, bump := 0 }
  bbnFl : Store.FreeList.State := { portions := [], released := [], pop := false, bump := 0 }

/-- `MAX_PNS_PER_PAGE` of `free_list.rs` -/
def sgCap : Nat := 1022

def sgHead (ps : List Store.FreeList.Portion) : String :=
  match Store.FreeList.headPn ps with | [] => "-" | h :: _ => toString h

def sgLpn (leaves : List (Nat × DbLeaf Cell)) (sep : Nat) : Nat :=
  match leaves.find? (fun (_, l) => l.sep == sep) with
  | some (pn, _) => pn
  | none => 0

def sgShowIndex (idx : BIndex) : String :=
  if idx.isEmpty then "-" else
  ";".intercalate (idx.map fun n => s!"{hexOfNatKey n.sep}|{n.bbn}|{buShowNode n.node}")

/-- the leaves the NEW index points to, left to right, each looked up by its page number among the old leaves and the
leaves the update wrote (a page number found in neither: `?`) -/
def sgShowLeaves (old : List (Nat × DbLeaf Cell)) (postIo : List (Nat × Leaf Cell)) (idx : BIndex) : String :=
  let pns := idx.flatMap fun n => n.node.items.map (·.pn)
  if pns.isEmpty then "-" else
  ";".intercalate (pns.map fun pn =>
    match postIo.find? (fun (p, _) => p == pn) with
    | some (_, l) => s!"{pn}|{sgShowEntries l.ents}"
    | none =>
      match old.find? (fun (p, _) => p == pn) with
      | some (_, l) => s!"{pn}|{sgShowEntries l.ents}"
      | none => s!"{pn}|?")

def sgVariant (v : String) : Option Bool :=
  if v == "real" then some false else if v == "seeded" then some true else none

def stageglueStep (s : SgState) (line : String) : SgState × String :=
  match fields line with
  | ["enf", v, lvl, cs] =>
    match sgVariant v, sgLevel lvl, buChanges cs with
    | some seeded, some lvl, some cs =>
      match enforceFirst seeded lvl cs with
      | none => (s, "panic")
      | some cs' => (s, s!"cs={sgShowCs cs'}")
    | _, _, _ => (s, "bad-op")
  | ["fl", cs] =>
    match buChanges cs with
    | some cs => (s, match ExtRange.filterCs true cs with | none => "panic" | some cs' => s!"cs={sgShowCs cs'}")
    | none => (s, "bad-op")
  | ["fb", cs] =>
    match buChanges cs with
    | some cs => (s, match ExtRange.filterCs false cs with | none => "panic" | some cs' => s!"cs={sgShowCs cs'}")
    | none => (s, "bad-op")
  | ["tree"] => ({ s with index := [], leaves := [] }, "ok")
  | ["stores", lnBump, bbnBump] =>
    match lnBump.toNat?, bbnBump.toNat? with
    | some a, some b =>
      ({ s with lnFl := { portions := [], released := [], pop := false, bump := a },
                bbnFl := { portions := [], released := [], pop := false, bump := b } }, "ok")
    | _, _ => (s, "bad-op")
  | ["bnode", sep, bbn, pl, pc, items] =>
    match natOfHexKey sep, bbn.toNat?, pl.toNat?, pc.toNat?, buItems items with
    | some sep, some bbn, some pl, some pc, some its =>
      ({ s with index := s.index ++ [⟨sep, bbn, ⟨pl, pc, its⟩⟩] }, "ok")
    | _, _, _, _, _ => (s, "bad-op")
  | ["leaf", sep, pn, ents] =>
    match natOfHexKey sep, pn.toNat?, sgEntries ents with
    | some sep, some pn, some ents => ({ s with leaves := s.leaves ++ [(pn, ⟨sep, ents⟩)] }, "ok")
    | _, _, _ => (s, "bad-op")
  | ["update", v, lnBump, bbnBump, cs] =>
    match sgVariant v, lnBump.toNat?, bbnBump.toNat?, sgChanges cs with
    | some seeded, some _, some _, some cs =>
      let lnFresh := Store.FreeList.allocate s.lnFl
      let bbnFresh := Store.FreeList.allocate s.bbnFl
      let lpn := sgLpn s.leaves
      let t : Tree Cell := { index := s.index, leaves := s.leaves.map (·.2), lpn := lpn }
      match mapChangeset lnFresh 0 cs with
      | none => (s, "panic")
      | some (cs', ovfAllocs) =>
        match update LeafUpd.sepReal BranchUpd.kfReal Cell.pages lnFresh bbnFresh seeded t cs' ovfAllocs with
        | none => (s, "panic")
        | some o =>
          -- `leaf_finisher.finish(freed_pages)` / `bbn_finisher.finish(freed_pages)`
          match Store.FreeList.finish sgCap s.lnFl o.lnAllocs o.lnFreed, Store.FreeList.finish sgCap s.bbnFl o.bbnAllocs o.bbnFreed with
          | some rl, some rb =>
            let reopen (st : Store.FreeList.State) : Store.FreeList.State := { st with released := [], pop := false }
            ({ s with lnFl := reopen rl.state, bbnFl := reopen rb.state },
              s!"lcs={sgShowCs o.leafChangeset} lnfreed={buShowNats o.lnFreed} bbnfreed={buShowNats o.bbnFreed} " ++
              s!"io={o.submittedIo} idx={sgShowIndex o.index} " ++
              s!"leaves={sgShowLeaves s.leaves o.postIo o.index} cache={buShowNats (o.postIo.map (·.1))} " ++
              s!"sync={rl.state.bump}/{sgHead rl.state.portions}/{rb.state.bump}/{sgHead rb.state.portions}")
          | _, _ => (s, "panic")
    | _, _, _, _ => (s, "bad-op")
  | _ => (s, "bad-op")

end Nomt.Driver
