import NomtModel.Driver.CoreMode
import NomtModel.Store.Blake3Tree
/-!
`hasher` sub-protocol: the specification functions (`nodeAt`, `proveSpec`) instantiated at BOTH production hashers
(`blakeHasher`, `shaHasher`) — the model and every theorem about it are generic in `Hasher`; this mode is the tie of the
`sha2` instance (and of the value hashers for arbitrary lengths) to the code.

  hvalue <b3|sha2> <hex|->     value hash
  hset   <b3|sha2> <key:vh,…>  set the reference set of that hasher (sorted)
  hroot  <b3|sha2>             `nodeAt` of the set
  hprove <b3|sha2> <key>       `proveSpec` of the set
-/
namespace Nomt.Driver
open Nomt

structure HasherState where
  b3 : List (Key × ByteArray) := []
  sha : List (Key × ByteArray) := []

def hasherStep (s : HasherState) (line : String) : HasherState × String :=
  match fields line with
  | ["hvalue", h, v] =>
    match (if v == "-" then some ByteArray.empty else bytesOfHex v) with
    | some b =>
      if h == "b3" then (s, hexOfBytes (Blake3.hashAny b))
      else if h == "sha2" then (s, hexOfBytes (Sha256.hash b))
      else (s, "bad-op")
    | none => (s, "bad-op")
  | ["hset", h, ops] =>
    match parseOps ops with
    | some ops =>
      let kv := ops.filterMap (fun (k, o) => o.map (fun v => (k, v)))
      if h == "b3" then ({ s with b3 := kv }, "ok")
      else if h == "sha2" then ({ s with sha := kv }, "ok")
      else (s, "bad-op")
    | none => (s, "bad-op")
  | ["hroot", h] =>
    if h == "b3" then (s, hexOfBytes (nodeAt blakeHasher 256 0 s.b3))
    else if h == "sha2" then (s, hexOfBytes (nodeAt shaHasher 256 0 s.sha))
    else (s, "bad-op")
  | ["hprove", h, k] =>
    match keyOfHex k with
    | some k =>
      if h == "b3" then (s, showProof (proveSpec blakeHasher 256 s.b3 k))
      else if h == "sha2" then (s, showProof (proveSpec shaHasher 256 s.sha k))
      else (s, "bad-op")
    | none => (s, "bad-op")
  | _ => (s, "bad-op")

end Nomt.Driver
