import NomtModel.Driver.Parse
import NomtModel.Core.TriePos
import NomtModel.Api.PageRegionModel
import NomtModel.Store.PageLayout
/-!
Driver mode `triepos` (C02 / C05 / C16 / C13): the mirrors of `TriePosition`, `PageId`, `PageIdsIterator`
(`Core/TriePos.lean`), `PageRegion` / shard regions (`Api/PageRegionModel.lean`) and the merkle-page layout
(`Store/PageLayout.lean`) behind a line protocol.  The harness (`harness/src/triepos.rs`) drives the REAL code on the
same lines; the two output streams must be identical.

The position lines are stateful (one current `TriePosition`; a panicking move leaves it unchanged):
`new` · `fpd <raw hex32> <depth>` · `fbs <bits|->` · `down <0|1>` · `up <d>` · `sibling` → `ok <raw>/<depth>/<node index>` | `panic`;
`fpdx` / `fbsx` = the same constructors without touching the state (`ok` | `panic`); `q` → every query function;
`contains <key hex32>`; `shared <raw hex32> <depth>`.
Stateless: `pid`, `pidchild`, `pidlevel`, `pidrel`, `piddecode`, `pidsiter`, `cni`, `reg`, `regq`, `regrel`, `shards`,
`shardidx`, `pgnode`, `pgset`, `pgel`, `pgsetel`, `pgpristine`, `elset`, `elget` (see the harness module for the formats).
-/
namespace Nomt.Driver
open Nomt Nomt.TriePos

namespace TP

def parsePath (s : String) : Option PageId :=
  if s == "-" then some [] else
  match (s.splitOn ".").mapM String.toNat? with
  | some p => if p.all (· < 64) && p.length ≤ 42 then some p else none
  | none => none

def showPath (p : PageId) : String := if p.isEmpty then "-" else ".".intercalate (p.map toString)

def rawOfHex (s : String) : Option (List Bool) :=
  match bytesOfHex s with
  | some b => if b.size == 32 then some (bitsOfBytes b) else none
  | none => none

def hexOfBits (l : List Bool) : String := hexOfBytes (bytesOfBits l)

def showState (p : Pos) : String := s!"{hexOfBits p.raw}/{p.depth}/{p.nodeIndex}"

def b01 (b : Bool) : String := if b then "1" else "0"

def showOpt (f : α → String) : Option α → String
  | none => "panic"
  | some a => f a

def hexOfNat32 (n : Nat) : String := hexOfBytes ⟨(PageLayout.be32 n).toArray⟩
def natOfBytes (b : ByteArray) : Nat := b.toList.foldl (fun acc x => acc * 256 + x.toNat) 0

def queryLine (p : Pos) : String :=
  let last := showOpt b01 p.peekLastBit
  let pid := match p.pageId with
    | none => "panic"
    | some none => "none"
    | some (some x) => showPath x
  let cpi := showOpt toString p.childPageIndex
  let scpi := showOpt toString p.siblingChildPageIndex
  let cni := showOpt (fun l => s!"{cniLeft l},{cniRight l},{b01 (cniInNextPage l)}") p.childNodeIndices
  s!"root={b01 p.isRoot} depth={p.depth} path={showBits p.path} last={last} pid={pid} cpi={cpi} scpi={scpi} cni={cni} sib={p.siblingIndex} ni={p.nodeIndex} dip={p.depthInPage} first={b01 p.isFirstLayerInPage}"

inductive RegDesc where
  | universe
  | page (p : PageId)
  | desc (p : PageId) (lo hi : Nat)

def parseReg (s : String) : Option RegDesc :=
  match s.splitOn ":" with
  | ["U"] => some .universe
  | ["P", p] => (parsePath p).map .page
  | ["D", p, lo, hi] => do
    let p ← parsePath p; let lo ← lo.toNat?; let hi ← hi.toNat?
    if lo < 64 && hi < 64 then pure (.desc p lo hi) else none
  | _ => none

def buildReg : RegDesc → Option Region
  | .universe => some Region.universe
  | .page p => some (Region.fromPageId p)
  | .desc p lo hi => Region.fromPageIdDescendants p lo hi

def pageBytes (a b c : Nat) : List UInt8 :=
  (List.range 4096).map fun j => UInt8.ofNat ((a * j + b * (j / 32) + c) % 256)

def hexOfList (l : List UInt8) : String := hexOfBytes ⟨l.toArray⟩

/-- maximal runs of changed bytes `off:hex` -/
def diffRuns (before after : Array UInt8) : List String := Id.run do
  let mut runs : Array String := #[]
  let mut i := 0
  let n := before.size
  while i < n do
    if before[i]! != after[i]! then
      let s := i
      while i < n && before[i]! != after[i]! do
        i := i + 1
      runs := runs.push s!"{s}:{hexOfBytes ⟨after.extract s i⟩}"
    else
      i := i + 1
  return runs.toList

def showDiff (before after : List UInt8) : String :=
  let r := diffRuns before.toArray after.toArray
  if r.isEmpty then "diff -" else "diff " ++ ",".intercalate r

def cmpStr (a b : PageId) : String := if pidLt a b then "lt" else if pidLt b a then "gt" else "eq"

def stateless (fs : List String) : String :=
  match fs with
  | ["fpdx", raw, depth] =>
    match rawOfHex raw, depth.toNat? with
    | some r, some d => if (Pos.fromPathAndDepth r d).isSome then "ok" else "panic"
    | _, _ => "bad-op"
  | ["fbsx", bits] => if (Pos.fromBitslice (parseBits bits)).isSome then "ok" else "panic"
  | ["pid", p] =>
    match parsePath p with
    | some p =>
      s!"depth={pidDepth p} enc={hexOfNat32 (pidEncode p)} parent={showPath (parentPageId p)} min={showOpt hexOfBits (minKeyPath p)} max={showOpt hexOfBits (maxKeyPath p)} maxdesc={showPath (maxDescendant p)}"
    | none => "bad-op"
  | ["pidchild", p, c] =>
    match parsePath p, c.toNat? with
    | some p, some c =>
      if c ≥ 256 then "bad-op" else
      match cpiNew c with
      | none => "badindex"
      | some ci =>
        match childPageId p ci with
        | .ok q => s!"ok {showPath q}"
        | .error _ => "err overflow"
    | _, _ => "bad-op"
  | ["pidlevel", p, l] =>
    match parsePath p, l.toNat? with
    | some p, some l => showOpt toString (childIndexAtLevel p l)
    | _, _ => "bad-op"
  | ["pidrel", a, b] =>
    match parsePath a, parsePath b with
    | some a, some b => s!"desc={b01 (isDescendantOf a b)} cmp={cmpStr a b}"
    | _, _ => "bad-op"
  | ["piddecode", h] =>
    match bytesOfHex h with
    | some bs =>
      if bs.size != 32 then "bad-op" else
      match pidDecode (natOfBytes bs) with
      | none => "panic"
      | some (.error _) => "err"
      | some (.ok p) => s!"ok {showPath p}"
    | none => "bad-op"
  | ["pidsiter", k, n] =>
    match rawOfHex k, n.toNat? with
    | some key, some n =>
      match PidIter.collect n (PidIter.new key), PidIter.collect 1000 (PidIter.new key) with
      | some items, some all => s!"total={all.length} {",".intercalate (items.map showPath)}"
      | _, _ => "panic"
    | _, _ => "bad-op"
  | ["cni", l] =>
    match l.toNat? with
    | some l => s!"{cniLeft l},{cniRight l},{b01 (cniInNextPage l)}"
    | none => "bad-op"
  | ["reg", d] =>
    match parseReg d with
    | some d =>
      match buildReg d with
      | some r => s!"min={showPath r.exclusiveMinId} max={showPath r.exclusiveMax}"
      | none => "panic"
    | none => "bad-op"
  | ["regq", d, q] =>
    match (parseReg d).bind buildReg, parsePath q with
    | some r, some q => s!"ex={b01 (r.containsExclusive q)} nonex={b01 (r.containsNonExclusive q)} any={b01 (r.contains q)}"
    | _, _ => "bad-op"
  | ["regrel", a, b] =>
    match (parseReg a).bind buildReg, (parseReg b).bind buildReg with
    | some a, some b =>
      s!"enc={b01 (a.encompasses b)} cne={b01 (b.encompasses a)} excl={b01 (a.excludesUnique b)} lcxe={b01 (b.excludesUnique a)}"
    | _, _ => "bad-op"
  | ["shards", n] =>
    match n.toNat? with
    | some n =>
      match shardRegions n with
      | none => "panic"
      | some rs => ",".intercalate (rs.map fun (r, c) => s!"{showPath r.exclusiveMinId}..{showPath r.exclusiveMax}#{c}")
    | none => "bad-op"
  | ["shardidx", n, a] =>
    match n.toNat?, a.toNat? with
    | some n, some a => showOpt toString (shardIndexFor n a)
    | _, _ => "bad-op"
  | ["pgnode", a, b, c, i] =>
    match a.toNat?, b.toNat?, c.toNat?, i.toNat? with
    | some a, some b, some c, some i => showOpt hexOfList (PageLayout.readNode (pageBytes a b c) i)
    | _, _, _, _ => "bad-op"
  | ["pgset", a, b, c, i, node] =>
    match a.toNat?, b.toNat?, c.toNat?, i.toNat?, bytesOfHex node with
    | some a, some b, some c, some i, some node =>
      if node.size != 32 then "bad-op" else
      let pg := pageBytes a b c
      showOpt (showDiff pg) (PageLayout.setNode pg i node.toList)
    | _, _, _, _, _ => "bad-op"
  | ["pgel", a, b, c] =>
    match a.toNat?, b.toNat?, c.toNat? with
    | some a, some b, some c => toString (PageLayout.readElided (pageBytes a b c))
    | _, _, _ => "bad-op"
  | ["pgsetel", a, b, c, e] =>
    match a.toNat?, b.toNat?, c.toNat?, e.toNat? with
    | some a, some b, some c, some e =>
      if e ≥ 2 ^ 64 then "bad-op" else
      let pg := pageBytes a b c
      showDiff pg (PageLayout.setElided pg e)
    | _, _, _, _ => "bad-op"
  | ["pgpristine", p] =>
    match parsePath p with
    | some p => s!"tail={hexOfList (PageLayout.pristineTail p)}"
    | none => "bad-op"
  | ["elset", bits, c, on] =>
    match bits.toNat?, c.toNat? with
    | some bits, some c => if c ≥ 64 || bits ≥ 2 ^ 64 then "bad-op" else toString (PageLayout.elidedSet bits c (on == "1"))
    | _, _ => "bad-op"
  | ["elget", bits, c] =>
    match bits.toNat?, c.toNat? with
    | some bits, some c => if c ≥ 64 || bits ≥ 2 ^ 64 then "bad-op" else b01 (PageLayout.elidedGet bits c)
    | _, _ => "bad-op"
  | _ => "bad-op"

def move (st : Option Pos) (r : Option Pos) : Option Pos × String :=
  match r with
  | some p => (some p, s!"ok {showState p}")
  | none => (st, "panic")

def step (st : Option Pos) (line : String) : Option Pos × String :=
  let fs := fields line
  match fs with
  | ["new"] => move st (some Pos.new)
  | ["fpd", raw, depth] =>
    match rawOfHex raw, depth.toNat? with
    | some r, some d => move st (Pos.fromPathAndDepth r d)
    | _, _ => (st, "bad-op")
  | ["fbs", bits] => move st (Pos.fromBitslice (parseBits bits))
  | ["down", b] =>
    match st with
    | some p => if b == "0" || b == "1" then move st (p.down (b == "1")) else (st, "bad-op")
    | none => (st, "bad-op")
  | ["up", d] =>
    match st, d.toNat? with
    | some p, some d => if d ≥ 65536 then (st, "bad-op") else move st (p.up d)
    | _, _ => (st, "bad-op")
  | ["sibling"] =>
    match st with
    | some p => move st p.sibling
    | none => (st, "bad-op")
  | ["q"] =>
    match st with
    | some p => (st, queryLine p)
    | none => (st, "bad-op")
  | ["contains", k] =>
    match st, rawOfHex k with
    | some p, some key => (st, b01 (p.subtrieContains key))
    | _, _ => (st, "bad-op")
  | ["shared", raw, depth] =>
    match st, rawOfHex raw, depth.toNat? with
    | some p, some r, some d =>
      let other := if d = 0 then some Pos.new else Pos.fromPathAndDepth r d
      match other with
      | some o => (st, s!"{p.sharedDepth o} eq={b01 (p.eqv o)}")
      | none => (st, "panic")
    | _, _, _ => (st, "bad-op")
  | _ => (st, stateless fs)

end TP

def trieposStep (st : Option Pos) (line : String) : Option Pos × String := TP.step st line

end Nomt.Driver
