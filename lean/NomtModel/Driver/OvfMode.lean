import NomtModel.Driver.Parse
import NomtModel.Driver.AllocMode
import NomtModel.Store.OvfModel
import NomtModel.Store.OvfFast
import Std.Data.HashMap
/-!
Driver mode `overflow` (C01 / C19 / C16): the executable model of `beatree/ops/overflow.rs` (`Store/OvfModel.lean`)
behind a line protocol with a small state: the pages of one scratch leaf-store file and the allocator of the sync in
progress.  The harness (`harness/src/overflow.rs`) drives the REAL functions (hook H9, `nomt::verif_api::overflow`) on
a real file under /dev/shm with the same lines; the two output streams must be identical.

Numbers decimal, lists `a.b.c` or `-`, bytes lowercase hex or `-`.  A value is `h:<hex>` or `g:<seed>:<len>` (byte
`i` = bits 33…40 of the `i`-th state of the LCG `s ← s·6364136223846793005 + 1442695040888963407`, `s₀ = seed`).
`d(bytes)` = `<len>:<FNV-1a-64 of the bytes>`.

* `reset <file_pages> <bump> <free>`            — new file of zero pages; the allocator hands out `free` in this order,
                                                   then `bump`, `bump+1`, …: `ok`
* `tnp <len>`                                   — `needed_pages` and `total_needed_pages`: `<np> <total>`
* `cls <len>`                                   — `ValueChange::insert`: `inline` | `overflow`
* `cell <value_size> <hash> <pages>`            — `encode_cell`: `ok <cellhex>` | `panic`
* `dcell <cellhex>`                             — `decode_cell`: `ok <value_size> <hash> <pages>` | `panic`
* `chunk <value>`                               — `chunk`: `ok cell=<pages> total=<t> pages=<pn>:<np>:<nb>:<d(prefix)>[:<prefixhex>],…`
                                                   (the meaningful prefix of every allocated page as it is in the file
                                                   afterwards; the hex only for `h:` values) | `panic`
* `put <pn> <np> <nb> <bodyhex>`                — write a hand-made page (header `np`, `nb`, then the body, zero filled): `ok`
* `read <cellhex>`                              — `read_blocking`: `ok <d(value)>` | `panic`
* `delete <cellhex> <freed>`                    — `delete`: `ok <freed'>` | `panic`
* `aread <cellhex> <s|cJ,…>`                    — `AsyncReader` under a schedule (`s` = submit, `cJ` = complete the
                                                   `J mod n`-th outstanding request; stops at the first value):
                                                   `S<i>:<pn>` `N` `I` `P<i>` `V<i>:<d(value)>` `E<pn>` … [`panic`]
-/
namespace Nomt.Driver.OvfD
open Nomt Nomt.Ovf Nomt.Driver
open Nomt.Wal (Bytes leBytes leNat slice)

structure OvfSt where
  filePages : Nat := 0
  pages : Std.HashMap Nat Bytes := {}
  free : Array Nat := #[]
  bump : Nat := 0
  /-- allocations performed since `reset` -/
  allocated : Nat := 0

def zeroPage : Bytes := List.replicate 4096 0

def OvfSt.store (s : OvfSt) : Store := fun pn =>
  if pn ≥ s.filePages then none else some (s.pages.getD pn zeroPage)

def OvfSt.alloc (s : OvfSt) (i : Nat) : Nat :=
  let k := s.allocated + i
  if k < s.free.size then s.free[k]! else s.bump + (k - s.free.size)

def fnv64 (bs : Bytes) : UInt64 :=
  bs.foldl (fun h b => (h ^^^ b.toUInt64) * 0x100000001b3) 0xcbf29ce484222325

def digest (bs : Bytes) : String := s!"{bs.length}:{(fnv64 bs).toNat}"

def genValue (seed len : Nat) : Bytes :=
  let rec go (n : Nat) (s : UInt64) (acc : Array UInt8) : Array UInt8 :=
    match n with
    | 0 => acc
    | n + 1 => go n (s * 6364136223846793005 + 1442695040888963407) (acc.push (s >>> 33).toUInt8)
  (go len (UInt64.ofNat seed) (Array.mkEmpty len)).toList

def parseValue (s : String) : Option (Bytes × Bool) :=
  match s.splitOn ":" with
  | ["h", hex] => if hex == "-" then some ([], true) else (bytesOfHex hex).map (fun b => (b.toList, true))
  | ["g", seed, len] => do let seed ← seed.toNat?; let len ← len.toNat?; pure (genValue seed len, false)
  | _ => none

def parseBytes (s : String) : Option Bytes :=
  if s == "-" then some [] else (bytesOfHex s).map (·.toList)

def showBytes (b : Bytes) : String := if b.isEmpty then "-" else hexOfBytes b.toByteArray

/-- the part of an overflow page that `chunk` defines: header, page numbers, value bytes (the whole page when the
header does not describe a prefix) -/
def pagePrefix (pg : Bytes) : Nat × Nat × Bytes :=
  let np := leNat (slice pg 0 2)
  let nb := leNat (slice pg 2 2)
  (np, nb, if 4 + 4 * np + nb ≤ pg.length then pg.take (4 + 4 * np + nb) else pg)

def showPage (full : Bool) (pn : Nat) (pg : Bytes) : String :=
  let (np, nb, pre) := pagePrefix pg
  s!"{pn}:{np}:{nb}:{digest pre}" ++ (if full then ":" ++ showBytes pre else "")

def parseSched (s : String) : Option (List Act) :=
  if s == "-" then some [] else
  (s.splitOn ",").mapM (fun a =>
    if a == "s" then some Act.submit
    else if a.startsWith "c" then (a.drop 1).toString.toNat?.map Act.complete
    else none)

def showEv : Ev → String
  | .submitted i pn => s!"S{i}:{pn}"
  | .nothing => "N"
  | .idle => "I"
  | .pending i => s!"P{i}"
  | .value i v => s!"V{i}:{digest v}"
  | .ioError pn => s!"E{pn}"

/-- run a schedule, stop at the first value (the reader must not be used afterwards) or at a panic -/
def runSched (σ : Store) : Run → List Act → List String → List String
  | _, [], acc => acc.reverse
  | s, a :: as, acc =>
    match s.step true σ a with
    | none => ("panic" :: acc).reverse
    | some (e, s') =>
      match e with
      | .value _ _ => (showEv e :: acc).reverse
      | _ => runSched σ s' as (showEv e :: acc)

def ovfStep (st : OvfSt) (line : String) : OvfSt × String :=
  match fields line with
  | ["reset", fp, bump, free] =>
    match fp.toNat?, bump.toNat?, parseNatList free with
    | some fp, some bump, some free =>
      ({ filePages := fp, pages := {}, free := free.toArray, bump := bump, allocated := 0 }, "ok")
    | _, _, _ => (st, "bad-op")
  | ["tnp", len] =>
    match len.toNat? with
    | some len => (st, s!"{neededPages len} {totalNeededPages len}")
    | none => (st, "bad-op")
  | ["cls", len] =>
    match len.toNat? with
    | some len => (st, if isOverflow len then "overflow" else "inline")
    | none => (st, "bad-op")
  | ["cell", vs, hash, pages] =>
    match vs.toNat?, parseBytes hash, parseNatList pages with
    | some vs, some hash, some pages =>
      if hash.length != 32 then (st, "bad-op") else
      match encodeCell vs hash pages with
      | none => (st, "panic")
      | some c => (st, s!"ok {showBytes c}")
    | _, _, _ => (st, "bad-op")
  | ["dcell", cell] =>
    match parseBytes cell with
    | some cell =>
      match decodeCell cell with
      | none => (st, "panic")
      | some (vs, hash, pages) => (st, s!"ok {vs} {showBytes hash} {showNatList pages}")
    | none => (st, "bad-op")
  | ["chunk", v] =>
    match parseValue v with
    | some (value, full) =>
      match chunkFast value st.alloc (fun _ => zeroPage) with   -- = `chunk` (`chunkFast_eq`)
      | none => (st, "panic")
      | some out =>
        let pages := out.writes.foldl (fun m w => m.insert w.1 w.2) st.pages
        let st' := { st with pages := pages, allocated := st.allocated + out.total }
        let shown := out.writes.map (fun w => showPage full w.1 (st'.pages.getD w.1 zeroPage))
        (st', s!"ok cell={showNatList out.cell} total={out.total} pages={",".intercalate shown}")
    | none => (st, "bad-op")
  | ["put", pn, np, nb, body] =>
    match pn.toNat?, np.toNat?, nb.toNat?, parseBytes body with
    | some pn, some np, some nb, some body =>
      let pre := leBytes 2 np ++ leBytes 2 nb ++ body
      if pre.length > 4096 then (st, "bad-op") else
      ({ st with pages := st.pages.insert pn (pre ++ List.replicate (4096 - pre.length) 0) }, "ok")
    | _, _, _, _ => (st, "bad-op")
  | ["read", cell] =>
    match parseBytes cell with
    | some cell =>
      match readBlocking cell st.store with
      | none => (st, "panic")
      | some v => (st, s!"ok {digest v}")
    | none => (st, "bad-op")
  | ["delete", cell, freed] =>
    match parseBytes cell, parseNatList freed with
    | some cell, some freed =>
      match delete cell st.store freed with
      | none => (st, "panic")
      | some fr => (st, s!"ok {showNatList fr}")
    | _, _ => (st, "bad-op")
  | ["aread", cell, sched] =>
    match parseBytes cell, parseSched sched with
    | some cell, some acts =>
      match AR.new cell with
      | none => (st, "panic")
      | some r =>
        let evs := runSched st.store ⟨r, []⟩ acts []
        (st, if evs.isEmpty then "-" else " ".intercalate evs)
    | _, _ => (st, "bad-op")
  | _ => (st, "bad-op")

end Nomt.Driver.OvfD
