import NomtModel.Basic.Bytes
import NomtModel.Store.BitOps
import NomtModel.Store.BitOpsBuilder
/-!
Driver mode `bitops` (C16 / C01): the mirror of `nomt/src/beatree/ops/bit_ops.rs` (`Store/BitOps.lean`) behind a
stateless line protocol.  The harness (`vharness bitops`) calls the REAL functions through `nomt::verif_api::bit_ops`
on the same inputs; the two output streams must be identical.

Lines (numbers decimal, bytes lowercase hex, `-` = empty byte string):

* `fcm <bit_start>` — `first_chunk_mask`: the `u64` as 16 hex digits, or `panic`
* `lcm <bit_start> <bit_len> <n_chunks>` — `last_chunk_mask`
* `plen <a> <b>` — `prefix_len` (32-byte keys): decimal
* `slen <k>` — `separator_len`: decimal
* `sep <a> <b>` — `separate`: the separator key, or `panic`
* `rk <prefix bytes|N> <prefix_bit_len> <separator bytes> <separator_bit_start> <separator_bit_len>` — `reconstruct_key`
* `mc <dst> <dst_bit_start> <src> <src_bit_start> <bit_len>` — `bitwise_memcpy`: the destination afterwards, or `panic`
* `gk <page> <index>` — `get_key(node, index)` on a 4096-byte branch page: the key, or `panic`
* `bn <initial page> <n> <prefix_compressed> <prefix_len> <base page|-> <steps>` — `BranchNodeBuilder::new` on a page with the given
  contents, then the steps `P:<key>:<separator_len>:<pn>` (`push`) / `C:<from>:<to>:<i>=<pn>,…|-` (`push_chunk` from the base page),
  separated by `;` (`-` = none): the page afterwards, or `panic`
-/
namespace Nomt.Driver
open Nomt Nomt.BitOps

def bitopsFields (line : String) : List String := (line.trimAscii.toString.splitOn " ").filter (· ≠ "")

def natsOfHex (s : String) : Option (List Nat) :=
  if s == "-" then some [] else (bytesOfHex s).map (fun b => b.toList.map (·.toNat))

def hexOfNats (l : List Nat) : String :=
  if l.isEmpty then "-" else
  String.ofList (l.foldr (fun x acc => hexDigit (x / 16 % 16) :: hexDigit (x % 16) :: acc) [])

def hex64 (w : Nat) : String := hexOfNats (toBE w)

def key32 (s : String) : Option (List Nat) := (natsOfHex s).bind fun l => if l.length = 32 then some l else none

inductive BStep where
  | push (key : List Nat) (sepLen pn : Nat)
  | chunk (frm to : Nat) (updated : List (Nat × Nat))

def parseUpdated (s : String) : Option (List (Nat × Nat)) :=
  if s == "-" then some [] else
  (s.splitOn ",").mapM fun item =>
    match item.splitOn "=" with
    | [i, pn] => do let i ← i.toNat?; let pn ← pn.toNat?; pure (i, pn)
    | _ => none

def parseSteps (s : String) : Option (List BStep) :=
  if s == "-" then some [] else
  (s.splitOn ";").mapM fun item =>
    match item.splitOn ":" with
    | ["P", k, l, pn] => do let k ← key32 k; let l ← l.toNat?; let pn ← pn.toNat?; pure (.push k l pn)
    | ["C", f, t, u] => do let f ← f.toNat?; let t ← t.toNat?; let u ← parseUpdated u; pure (.chunk f t u)
    | _ => none

def runSteps (base : Option (List Nat)) : List BStep → Builder → Option Builder
  | [], b => some b
  | .push k l pn :: r, b => (builderPush b k l pn).bind (runSteps base r)
  | .chunk f t u :: r, b =>
    match base with
    | none => none                                   -- `expect("push_chunk needs a base")` of the hook
    | some bp => (builderPushChunk b bp f t u).bind (runSteps base r)

def bitopsLine (line : String) : String :=
  match bitopsFields line with
  | ["fcm", bs] =>
    match bs.toNat? with
    | some bs => match firstChunkMask bs with | some m => hex64 m | none => "panic"
    | none => "bad-op"
  | ["lcm", bs, len, n] =>
    match bs.toNat?, len.toNat?, n.toNat? with
    | some bs, some len, some n => match lastChunkMask bs len n with | some m => hex64 m | none => "panic"
    | _, _, _ => "bad-op"
  | ["plen", a, b] =>
    match key32 a, key32 b with
    | some a, some b => toString (prefixLen a b)
    | _, _ => "bad-op"
  | ["slen", k] =>
    match key32 k with
    | some k => toString (separatorLen k)
    | none => "bad-op"
  | ["sep", a, b] =>
    match key32 a, key32 b with
    | some a, some b => match separate a b with | some s => hexOfNats s | none => "panic"
    | _, _ => "bad-op"
  | ["rk", p, pbl, s, sbs, sl] =>
    match (if p == "N" then some none else (natsOfHex p).map some), pbl.toNat?, natsOfHex s, sbs.toNat?, sl.toNat? with
    | some p, some pbl, some s, some sbs, some sl =>
      match reconstructKey (p.map fun b => (b, pbl)) s sbs sl with
      | some k => hexOfNats k
      | none => "panic"
    | _, _, _, _, _ => "bad-op"
  | ["mc", d, dbs, s, sbs, len] =>
    match natsOfHex d, dbs.toNat?, natsOfHex s, sbs.toNat?, len.toNat? with
    | some d, some dbs, some s, some sbs, some len =>
      match bitwiseMemcpy d dbs s sbs len with
      | some r => hexOfNats r
      | none => "panic"
    | _, _, _, _, _ => "bad-op"
  | ["gk", pg, i] =>
    match natsOfHex pg, i.toNat? with
    | some pg, some i =>
      if pg.length ≠ 4096 then "bad-op" else
      match getKey pg i with
      | some k => hexOfNats k
      | none => "panic"
    | _, _ => "bad-op"
  | ["bn", init, n, pc, pl, base, steps] =>
    match natsOfHex init, n.toNat?, pc.toNat?, pl.toNat?, (if base == "-" then some none else (natsOfHex base).map some), parseSteps steps with
    | some init, some n, some pc, some pl, some base, some steps =>
      if init.length ≠ 4096 || (base.map (·.length)).getD 4096 ≠ 4096 then "bad-op" else
      match (builderNew init n pc pl).bind (runSteps base steps) with
      | some b => hexOfNats b.page
      | none => "panic"
    | _, _, _, _, _, _ => "bad-op"
  | _ => "bad-op"

def bitopsStep (s : Unit) (line : String) : Unit × String := (s, bitopsLine line)

end Nomt.Driver
