import NomtModel.Basic.Bytes
import NomtModel.Basic.ExecHasher
import NomtModel.Core.PathProof
/-! Parsing / printing helpers of the line protocol (driver only). -/
namespace Nomt.Driver
open Nomt

abbrev N := ByteArray

def splitOn (s : String) (sep : String) : List String := s.splitOn sep
def fields (line : String) : List String := (line.trimAscii.toString.splitOn " ").filter (· ≠ "")

def optList (s : String) (sep : String) : List String := if s == "-" then [] else s.splitOn sep

def parseHexList (s : String) : Option (List ByteArray) := (optList s ",").mapM bytesOfHex
def showHexList (l : List ByteArray) : String := if l.isEmpty then "-" else ",".intercalate (l.map hexOfBytes)
def parseBits (s : String) : List Bool := if s == "-" then [] else bitsOfString s
def showBits (l : List Bool) : String := if l.isEmpty then "-" else stringOfBits l

def keyOfHex (s : String) : Option Key := (bytesOfHex s).map bitsOfBytes
def hexOfKey (k : Key) : String := hexOfBytes (bytesOfBits k)

/-- `L:<keyhex>:<vhhex>` or `T:<bits|->` -/
def parseTerminal (s : String) : Option (Terminal ByteArray) :=
  match s.splitOn ":" with
  | ["L", k, v] => do let k ← keyOfHex k; let v ← bytesOfHex v; pure (.leaf k v)
  | ["T", b] => some (.terminator (parseBits b))
  | _ => none

def showTerminal : Terminal ByteArray → String
  | .leaf k v => s!"L:{hexOfKey k}:{hexOfBytes v}"
  | .terminator p => s!"T:{showBits p}"

/-- `key:vh` or `key:-` lists, comma separated -/
def parseOps (s : String) : Option (List (Key × Option ByteArray)) :=
  (optList s ",").mapM (fun item =>
    match item.splitOn ":" with
    | [k, "-"] => do let k ← keyOfHex k; pure (k, none)
    | [k, v] => do let k ← keyOfHex k; let v ← bytesOfHex v; pure (k, some v)
    | _ => none)

end Nomt.Driver
