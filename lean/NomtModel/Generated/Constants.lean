/-!
# GENERATED FILE — do not edit

Written by `tools/gen_constants.py` from the Rust sources of nomt (working tree of `/repo`; the
source file of every value is given in its doc comment).  `tools/check.py` and
`tools/setup.py` regenerate it on every run; `Store/ConstantsCheck.lean` ties the hand-written
constants of the Lean decoders and models to these values.
-/
namespace Nomt.Gen

/-- nomt/src/io/mod.rs: `pub const PAGE_SIZE: usize = 4096;` -/
def PAGE_SIZE : Nat := 4096

/-- nomt/src/beatree/leaf/node.rs: `pub const LEAF_NODE_BODY_SIZE: usize = PAGE_SIZE - 2;` -/
def LEAF_NODE_BODY_SIZE : Nat := 4094

/-- nomt/src/beatree/leaf/node.rs: `pub const MAX_LEAF_VALUE_SIZE: usize = (LEAF_NODE_BODY_SIZE / 3) - 32;` -/
def MAX_LEAF_VALUE_SIZE : Nat := 1332

/-- nomt/src/beatree/leaf/node.rs: `pub const MAX_OVERFLOW_CELL_NODE_POINTERS: usize = 15;` -/
def MAX_OVERFLOW_CELL_NODE_POINTERS : Nat := 15

/-- nomt/src/beatree/leaf/node.rs: `pub const MAX_OVERFLOW_VALUE_SIZE: usize = 1 << 29;` -/
def MAX_OVERFLOW_VALUE_SIZE : Nat := 536870912

/-- nomt/src/beatree/leaf/node.rs: `const OVERFLOW_BIT: u16 = 1 << 15;` -/
def LEAF_OVERFLOW_BIT : Nat := 32768

/-- nomt/src/beatree/ops/overflow.rs: `const BODY_SIZE: usize = PAGE_SIZE - 4;` -/
def OVERFLOW_BODY_SIZE : Nat := 4092

/-- nomt/src/beatree/ops/overflow.rs: `const MAX_PNS: usize = BODY_SIZE / 4;` -/
def OVERFLOW_MAX_PNS : Nat := 1023

/-- nomt/src/beatree/ops/overflow.rs: `const HEADER_SIZE: usize = 4;` -/
def OVERFLOW_HEADER_SIZE : Nat := 4

/-- nomt/src/beatree/allocator/free_list.rs: `const MAX_PNS_PER_PAGE: usize = (PAGE_SIZE - 6) / 4;` -/
def FREELIST_MAX_PNS_PER_PAGE : Nat := 1022

/-- nomt/src/beatree/allocator/mod.rs: `const GROW_STORE_BY_PAGES: u32 = 8192;` -/
def GROW_STORE_BY_PAGES : Nat := 8192

/-- nomt/src/beatree/branch/mod.rs: `pub const BRANCH_NODE_SIZE: usize = 4096;` -/
def BRANCH_NODE_SIZE : Nat := 4096

/-- nomt/src/beatree/branch/node.rs: `const BRANCH_NODE_HEADER_SIZE: usize = 4 + 2 + 2 + 2;` -/
def BRANCH_NODE_HEADER_SIZE : Nat := 10

/-- nomt/src/beatree/branch/node.rs: `pub const BRANCH_NODE_BODY_SIZE: usize = BRANCH_NODE_SIZE - BRANCH_NODE_HEADER_SIZE;` -/
def BRANCH_NODE_BODY_SIZE : Nat := 4086

/-- nomt/src/merkle/mod.rs: `pub const PAGE_ELISION_THRESHOLD: u64 = 20;` -/
def PAGE_ELISION_THRESHOLD : Nat := 20

/-- core/src/page.rs: `pub const DEPTH: usize = 6;` -/
def DEPTH : Nat := 6

/-- core/src/page.rs: `pub const NODES_PER_PAGE: usize = (1 << DEPTH + 1) - 2;` -/
def NODES_PER_PAGE : Nat := 126

/-- core/src/page_id.rs: `pub const MAX_PAGE_DEPTH: usize = 42;` -/
def MAX_PAGE_DEPTH : Nat := 42

/-- core/src/page_id.rs: `pub const MAX_CHILD_INDEX: u8 = (1 << DEPTH) - 1;` -/
def MAX_CHILD_INDEX : Nat := 63

/-- core/src/page_id.rs: `pub const NUM_CHILDREN: usize = MAX_CHILD_INDEX as usize + 1;` -/
def NUM_CHILDREN : Nat := 64

/-- nomt/src/bitbox/meta_map.rs: `const EMPTY: u8 = 0b0000_0000;` -/
def EMPTY : Nat := 0

/-- nomt/src/bitbox/meta_map.rs: `const TOMBSTONE: u8 = 0b0111_1111;` -/
def TOMBSTONE : Nat := 127

/-- nomt/src/bitbox/meta_map.rs: `const FULL_MASK: u8 = 0b1000_0000;` -/
def FULL_MASK : Nat := 128

/-- nomt/src/store/meta.rs: `pub(crate) const META_SIZE: usize = 64;` -/
def META_SIZE : Nat := 64

/-- nomt/src/store/meta.rs: `pub(crate) const VERSION: u32 = 1;` -/
def META_VERSION : Nat := 1

/-- nomt/src/seglog/mod.rs: `const RECORD_ALIGNMENT: u32 = 4096;` -/
def SEGLOG_RECORD_ALIGNMENT : Nat := 4096

/-- nomt/src/seglog/mod.rs: `const HEADER_SIZE: u32 = 12;` -/
def SEGLOG_HEADER_SIZE : Nat := 12

/-- nomt/src/seglog/mod.rs: `const MAX_RECORD_PAYLOAD_SIZE: u32 = 1 << 30;` -/
def SEGLOG_MAX_RECORD_PAYLOAD_SIZE : Nat := 1073741824

/-- nomt/src/lib.rs: `const MAX_COMMIT_CONCURRENCY: usize = 64;` -/
def MAX_COMMIT_CONCURRENCY : Nat := 64

/-- nomt/src/io/mod.rs: `pub(crate) const MAX_IO_ATTEMPTS: usize = 16;` -/
def MAX_IO_ATTEMPTS : Nat := 16

/-- nomt/src/store/meta.rs: `pub(crate) const MAGIC: [u8; 4] = *b"NOMT";` read as a little-endian u32 -/
def META_MAGIC : Nat := 1414352718

/-- nomt/src/store/meta.rs: `buf[0..4]` <- `self.magic` (encode_to; decode reads the same range) -/
def META_MAGIC_START : Nat := 0

/-- nomt/src/store/meta.rs -/
def META_MAGIC_END : Nat := 4

/-- nomt/src/store/meta.rs: `buf[4..8]` <- `self.version` (encode_to; decode reads the same range) -/
def META_VERSION_START : Nat := 4

/-- nomt/src/store/meta.rs -/
def META_VERSION_END : Nat := 8

/-- nomt/src/store/meta.rs: `buf[8..12]` <- `self.ln_freelist_pn` (encode_to; decode reads the same range) -/
def META_LN_FREELIST_PN_START : Nat := 8

/-- nomt/src/store/meta.rs -/
def META_LN_FREELIST_PN_END : Nat := 12

/-- nomt/src/store/meta.rs: `buf[12..16]` <- `self.ln_bump` (encode_to; decode reads the same range) -/
def META_LN_BUMP_START : Nat := 12

/-- nomt/src/store/meta.rs -/
def META_LN_BUMP_END : Nat := 16

/-- nomt/src/store/meta.rs: `buf[16..20]` <- `self.bbn_freelist_pn` (encode_to; decode reads the same range) -/
def META_BBN_FREELIST_PN_START : Nat := 16

/-- nomt/src/store/meta.rs -/
def META_BBN_FREELIST_PN_END : Nat := 20

/-- nomt/src/store/meta.rs: `buf[20..24]` <- `self.bbn_bump` (encode_to; decode reads the same range) -/
def META_BBN_BUMP_START : Nat := 20

/-- nomt/src/store/meta.rs -/
def META_BBN_BUMP_END : Nat := 24

/-- nomt/src/store/meta.rs: `buf[24..28]` <- `self.sync_seqn` (encode_to; decode reads the same range) -/
def META_SYNC_SEQN_START : Nat := 24

/-- nomt/src/store/meta.rs -/
def META_SYNC_SEQN_END : Nat := 28

/-- nomt/src/store/meta.rs: `buf[28..32]` <- `self.bitbox_num_pages` (encode_to; decode reads the same range) -/
def META_BITBOX_NUM_PAGES_START : Nat := 28

/-- nomt/src/store/meta.rs -/
def META_BITBOX_NUM_PAGES_END : Nat := 32

/-- nomt/src/store/meta.rs: `buf[32..48]` <- `self.bitbox_seed` (encode_to; decode reads the same range) -/
def META_BITBOX_SEED_START : Nat := 32

/-- nomt/src/store/meta.rs -/
def META_BITBOX_SEED_END : Nat := 48

/-- nomt/src/store/meta.rs: `buf[48..56]` <- `self.rollback_start_live` (encode_to; decode reads the same range) -/
def META_ROLLBACK_START_LIVE_START : Nat := 48

/-- nomt/src/store/meta.rs -/
def META_ROLLBACK_START_LIVE_END : Nat := 56

/-- nomt/src/store/meta.rs: `buf[56..64]` <- `self.rollback_end_live` (encode_to; decode reads the same range) -/
def META_ROLLBACK_END_LIVE_START : Nat := 56

/-- nomt/src/store/meta.rs -/
def META_ROLLBACK_END_LIVE_END : Nat := 64

/-- nomt/src/bitbox/meta_map.rs: `full_entry`: the tag is `hash >> 57` -/
def FULL_ENTRY_SHIFT : Nat := 57

/-- nomt/src/bitbox/meta_map.rs: `MetaMap::page_index` -/
def META_BYTES_PER_PAGE : Nat := 4096

/-- nomt/src/bitbox/mod.rs: `allocate_bucket`: gives up when its counter reaches this value -/
def ALLOCATE_BUCKET_ATTEMPTS : Nat := 10000

/-- nomt/src/bitbox/mod.rs: `ProbeSequence::next`: `step > 2 * len` => `Exhausted` -/
def PROBE_BOUND_FACTOR : Nat := 2

end Nomt.Gen
