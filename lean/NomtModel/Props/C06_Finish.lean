import NomtModel.Api.FinishExample
import NomtModel.Props.C06_Assembly
/-!
# C06 (topic: `Session::finish`) — from the caller's actuals to the merkle operations and the witness

`Session::finish(actuals)` (`nomt/src/lib.rs`) turns every entry into its compact form (`to_compact`), hands the list
to `Updater::update_and_prove`, and — in `WitnessMode::read_write()` — returns the witness `UpdateHandle::join`
assembles from the workers' outputs.  The mirror (`Api/Finish.lean`) is proved against the specification for EVERY
strictly ascending actuals list, every canonical view, 1…64 commit workers, every completion order, with or without
rollback / hints, in debug and release builds; what it does with anything else (`T6_finish_rejects`) is mirrored and
run against the real code by the `finishops` differential (hooks H10 / H11 / H25).
-/
namespace Nomt.C06
open Nomt Nomt.Api Nomt.Split Nomt.Dlt Nomt.Finish
variable {Node VH V : Type} [DecidableEq Node] [DecidableEq VH]

/-- T6.finish (a) **`to_compact`, kind by kind**: `Read(v) ↦ Read` — the value the caller claims to have read is
dropped, the witness will attest the VIEW's value —, `Write(w) ↦ Write(hash w)`, `ReadThenWrite(v, w) ↦
ReadThenWrite(hash w)` — read + write, whether or not `w = v`. -/
theorem T6_finish_compact_kinds (hv : V → VH) (v w : Option V) :
    toCompact hv (.read v) = Split.RW.read ∧ toCompact hv (.write w) = Split.RW.write (w.map hv) ∧
    toCompact hv (.rtw v w) = Split.RW.readWrite (w.map hv) ∧
    (toCompact hv (.read v)).isRead = true ∧ (toCompact hv (.read v)).written = none ∧
    (toCompact hv (.write w)).isRead = false ∧ (toCompact hv (.write w)).written = some (w.map hv) ∧
    (toCompact hv (.rtw v w)).isRead = true ∧ (toCompact hv (.rtw v w)).written = some (w.map hv) :=
  ⟨rfl, rfl, rfl, rfl, rfl, rfl, rfl, rfl, rfl⟩

/-- **T6_finish_ops_spec — the operation list and the witness of `finish` are the specified ones.**  For every
canonical view of `L`-bit keys (`L ≥ 6`), every strictly ascending actuals list (any mix of `Read` / `Write` /
`ReadThenWrite`: write-backs of the value read, deletes of absent keys, reads only, several keys of every kind under
one terminal), every worker count `1…64`, every completion order of the workers, debug or release build, rollback
on or off with any hints (every load succeeding): `finish` succeeds; the list handed to the merkle updater is the
compact form of the actuals entry by entry, in the same (ascending) key order — its read keys are the keys of the
`Read` and `ReadThenWrite` entries, its written operations the hashed values of the `Write` and `ReadThenWrite`
entries —; with the witness mode on, the witness `join` assembles is a permutation of, and sorted by path IS,
`witnessSpecL view reads writes` (so, by T6.5 – T6.7, it verifies, attests the view's values and replays to the new
root); with the mode off there is none. -/
theorem T6_finish_ops_spec (H : Hasher Node VH) (hs : H.Sound) (hv : V → VH) (L : Nat) (view : KVL VH)
    (hvlen : ∀ kv ∈ view, kv.1.length = L) (hsorted : view.Pairwise KeyLt)
    (P : Params) (h1 : 1 ≤ P.n) (h64 : P.n ≤ 64) (hL : 6 ≤ L) (hnsup : P.superseded = false)
    (hord : P.order.Perm (List.range P.n))
    (load : Key → Outcome Unit (Option V)) (viewV : Key → Option V) (hl : ∀ k, load k = .ok (viewV k))
    (hints : List Key) (a : Actuals V) (hal : ∀ x ∈ a, x.1.length = L) (has : ASorted a) :
    ∃ out, Finish.finish false H hv L P load hints view a = .ok out ∧
      out.ops = a.map (fun x => (x.1, toCompact hv x.2)) ∧ out.ops.Pairwise KeyLt ∧
      readKeys out.ops = readKeysA a ∧ subtrieOps out.ops = hashW hv (writesOf a) ∧
      (P.witness = true → ∃ w, out.witness = some w ∧
        w.groups.Perm (witnessSpecL H L view (readKeysA a) (hashW hv (writesOf a))) ∧
        w.canon = witnessSpecL H L view (readKeysA a) (hashW hv (writesOf a))) ∧
      (P.witness = false → out.witness = none) := by
  obtain ⟨delta, hfin, _⟩ := finalizeStep_total hl P hints a
  obtain ⟨bss0, w, _, hw, hok⟩ := finish_ok H hs hv L view hvlen hsorted P h1 h64 hL a hal has load hints hnsup delta hfin hord
  have hc := canon_of_view L view hvlen hsorted
  obtain ⟨w0, hw0, hperm, hcanon⟩ := assemble_any_order H hs L view hc hsorted P.n (compact hv a)
    (compact_len hv L a hal) (compact_sorted hv a has) hL h1 h64 P.order hord
  rw [readKeys_compact, subtrieOps_compact] at hperm hcanon
  refine ⟨_, hok, rfl, compact_sorted hv a has, readKeys_compact hv a, subtrieOps_compact hv a, ?_, ?_⟩
  · intro hwit
    rw [hwit, if_pos rfl, hw0] at hw
    injection hw with hw
    exact ⟨w0, hw.symm, hperm, hcanon⟩
  · intro hwit
    rw [hwit] at hw
    simp only [Bool.false_eq_true, if_false] at hw
    injection hw with hw
    exact hw.symm

/-- **T6_finish_rejects — unsorted / duplicate actuals, superseded chains.**  (a) In a build with debug assertions
every actuals list that is not STRICTLY ascending (unsorted, or a key twice) makes `finish` panic with
`"actuals are not sorted at index i"`, `i` the first position `1 ≤ i < len` whose key is not above its predecessor's —
before the superseded check, before the delta builder is finalized, before any merkle worker runs; this holds for the
seeded variant too.  (b) If the assertion passes or is compiled out, a session whose overlay chain is no longer based on
the committed state is refused with an error and nothing else happens.  (In a release build nothing checks the
order: the mirror then runs the workers on the list as it is — outside every property, whose batches are sorted.) -/
theorem T6_finish_rejects (fast : Bool) (H : Hasher Node VH) (hv : V → VH) (L : Nat) (P : Params)
    (load : Key → Outcome Unit (Option V)) (hints : List Key) (view : KVL VH) (a : Actuals V) :
    (P.debug = true → ¬ ASorted a → ∃ i, Finish.finish fast H hv L P load hints view a = .panic (unsortedMsg i) ∧
      1 ≤ i ∧ i < a.length ∧ ∃ x y, a[i-1]? = some x ∧ a[i]? = some y ∧ bitsLt x.1 y.1 = false) ∧
    ((P.debug = false ∨ ASorted a) → P.superseded = true →
      Finish.finish fast H hv L P load hints view a = .err .superseded) := by
  constructor
  · intro hd hns
    cases hfu : firstUnsorted 1 a with
    | none => exact absurd ((firstUnsorted_none_iff 1 a).mp hfu) hns
    | some i =>
      obtain ⟨h1, h2, x, y, hx, hy, hlt⟩ := firstUnsorted_some 1 a i hfu
      have e : i - 1 + 1 = i := by omega
      rw [e] at h2 hy
      refine ⟨i, ?_, h1, h2, x, y, hx, hy, hlt⟩
      unfold Finish.finish Finish.finishWith
      simp only [hd, if_true, hfu]
  · intro hor hsup
    have hfu : (if P.debug = true then firstUnsorted 1 a else none) = none := by
      rcases hor with hd | hs
      · simp [hd]
      · split
        · exact (firstUnsorted_none_iff 1 a).mpr hs
        · rfl
    unfold Finish.finish Finish.finishWith
    simp only [hfu, hsup, if_true]

/-! ### instances (`Api/FinishExample.lean`) -/
open Nomt.Finish.Ex

/-- non-vacuity of T6_finish_ops_spec: the hypotheses hold for the mixed batch (a write-back, an insert next to the
terminal's leaf, a read, a delete of an absent key, a read of an absent key, a read-then-delete) with 1, 3 and 64
workers, rollback on -/
example : ∀ n ∈ [1, 3, 64], ∃ out, Finish.finish false TH id 8 (P n true true) Finish.Ex.load [k00000001, k10000000] Finish.Ex.view mixed = .ok out ∧
    out.ops = mixed.map (fun x => (x.1, toCompact id x.2)) ∧ out.ops.Pairwise KeyLt ∧
    readKeys out.ops = readKeysA mixed ∧ subtrieOps out.ops = hashW id (writesOf mixed) ∧
    ((P n true true).witness = true → ∃ w, out.witness = some w ∧
      w.groups.Perm (witnessSpecL TH 8 Finish.Ex.view (readKeysA mixed) (hashW id (writesOf mixed))) ∧
      w.canon = witnessSpecL TH 8 Finish.Ex.view (readKeysA mixed) (hashW id (writesOf mixed))) ∧
    ((P n true true).witness = false → out.witness = none) := by
  intro n hn
  have h : 1 ≤ n ∧ n ≤ 64 := by
    simp only [List.mem_cons, List.mem_nil_iff, or_false] at hn
    rcases hn with rfl | rfl | rfl <;> omega
  exact T6_finish_ops_spec TH TH_sound id 8 Finish.Ex.view (by decide) (by decide) (P n true true) h.1 h.2 (by decide) rfl
    (List.Perm.refl _) Finish.Ex.load (kvGet Finish.Ex.view) (fun _ => rfl) _ mixed (by decide) (by decide)

set_option synthInstance.maxSize 1024 in
/-- what the mirror computes for the mixed batch with one worker: the compact list, the three batches with
`has_writes`, two rebuilt sub-tries (2 and 1 written operations; the third batch lies in the root page), and the
witness (groups in worker order, which is ascending) — reads attest the VIEW's values -/
example :
    opsOf (Finish.Ex.run false 1 true false Finish.Ex.view mixed) = some
      [ (k00000000, .readWrite (some 1)), (k00000001, .readWrite (some 7)), (k00000010, .read),
        (k00000011, .write none), (k10000000, .read), (k11000000, .readWrite none) ] ∧
    batchesOf (Finish.Ex.run false 1 true false Finish.Ex.view mixed) = some
      [[(0, 2, 7, false, true), (2, 4, 7, false, true), (4, 6, 1, true, true)]] ∧
    hwAdv (Finish.Ex.run false 1 true false Finish.Ex.view mixed) = some
      ([[true, true, true]], [[(0, some 2), (2, some 1)]]) ∧
    witOf (Finish.Ex.run false 1 true false Finish.Ex.view mixed) = some
      [ ([false, false, false, false, false, false, false],
          [(k00000000, some 1), (k00000001, none)], [(k00000000, some 1), (k00000001, some 7)]),
        ([false, false, false, false, false, false, true], [(k00000010, some 2)], [(k00000011, none)]),
        ([true], [(k10000000, none), (k11000000, some 3)], [(k11000000, none)]) ] := by decide

/-- non-vacuity of T6_finish_rejects, and the order of the checks: unsorted at index 1, a duplicate key at index 2 —
also when the chain is superseded (the assertion comes first); sorted + superseded: refused; release build +
superseded + unsorted: refused by the superseded check -/
example :
    firstUnsorted 1 unsorted = some 1 ∧ firstUnsorted 1 duplicate = some 2 ∧ ¬ ASorted unsorted ∧ ¬ ASorted duplicate ∧
    Finish.finish false TH id 8 { P 2 true true with superseded := true } Finish.Ex.load [] Finish.Ex.view mixed = .err .superseded ∧
    Finish.finish false TH id 8 { P 2 true true with superseded := true, debug := false } Finish.Ex.load [] Finish.Ex.view unsorted
      = .err .superseded := by
  refine ⟨by decide, by decide, by decide, by decide, ?_, ?_⟩
  · exact (T6_finish_rejects false TH id 8 _ Finish.Ex.load [] Finish.Ex.view mixed).2 (Or.inr (by decide)) rfl
  · exact (T6_finish_rejects false TH id 8 _ Finish.Ex.load [] Finish.Ex.view unsorted).2 (Or.inl rfl) rfl

example : ∃ i, Finish.finish false TH id 8 { P 2 true true with superseded := true } Finish.Ex.load [] Finish.Ex.view duplicate
    = .panic (unsortedMsg i) ∧ 1 ≤ i ∧ i < duplicate.length ∧
      ∃ x y, duplicate[i-1]? = some x ∧ duplicate[i]? = some y ∧ bitsLt x.1 y.1 = false :=
  (T6_finish_rejects false TH id 8 _ Finish.Ex.load [] Finish.Ex.view duplicate).1 rfl (by decide)

set_option synthInstance.maxSize 1024 in
/-- **T6 — the red-team change of this round, kernel-checked** (`has_writes` from comparing every `ReadThenWrite(w)`
with the value of the terminal's leaf, taken only if that leaf's key is the sought key; `finish true`).
(1) Terminal leaf `00000000 ↦ 1` at depth 7; the batch writes the leaf back (`ReadThenWrite(1, 1)`) and inserts
`00000001 ↦ 1` — the SAME value, so every `ReadThenWrite` "matches": `has_writes = false`, the sub-trie is only
advanced past and the reported root is the OLD root, not the root of the updated set; the real `has_writes` rebuilds
with 2 operations.  (2) The sought key `00000010` is absent, the terminal's leaf is `00000011 ↦ 2`, further right in the
batch: `current_value = None`, the deletes `ReadThenWrite(_, None)` "match" and the delete of the leaf is lost.  In
both cases the witness is the same as the real one (it lists the writes), so it replays to a root the store did not
report. -/
theorem T6_rtw_writeback_fastpath_is_wrong :
    -- (1)
    hwAdv (Finish.Ex.run true 1 true false Finish.Ex.view writeBackAndCopy) = some ([[false]], [[(0, none)]]) ∧
    hwAdv (Finish.Ex.run false 1 true false Finish.Ex.view writeBackAndCopy) = some ([[true]], [[(0, some 2)]]) ∧
    rootOf (Finish.Ex.run true 1 true false Finish.Ex.view writeBackAndCopy) = some (nodeAt TH 8 0 Finish.Ex.view) ∧
    rootOf (Finish.Ex.run false 1 true false Finish.Ex.view writeBackAndCopy) = some (specRoot Finish.Ex.view writeBackAndCopy) ∧
    nodeAt TH 8 0 Finish.Ex.view ≠ specRoot Finish.Ex.view writeBackAndCopy ∧
    -- (2)
    rootOf (Finish.Ex.run true 2 true false view2 deleteNotSought2) = some (nodeAt TH 8 0 view2) ∧
    rootOf (Finish.Ex.run false 2 true false view2 deleteNotSought2) = some (specRoot view2 deleteNotSought2) ∧
    nodeAt TH 8 0 view2 ≠ specRoot view2 deleteNotSought2 ∧
    -- the witness does not notice
    witOf (Finish.Ex.run true 1 true false Finish.Ex.view writeBackAndCopy)
      = witOf (Finish.Ex.run false 1 true false Finish.Ex.view writeBackAndCopy) ∧
    witOf (Finish.Ex.run true 2 true false view2 deleteNotSought2)
      = witOf (Finish.Ex.run false 2 true false view2 deleteNotSought2) := by decide

end Nomt.C06
