import NomtModel.Store.OpenPathImage
import NomtModel.Props.C10_OpenPath
/-!
# C10 — the open path on ACCEPTED images: `RootInv` discharged from the monitor, totality recomposed over the parts
-/
namespace Nomt.C10
open Nomt Nomt.Store Nomt.Ovl Nomt.OpenPath

/-- **T10_root_invariant_of_accepted_image**: acceptance by `checkMerkle` (the page-tree monitor the C16 run evaluates on
every real directory) IS the invariant of `compute_root_node`, for the root page decoded from the table and the key set
the monitor was given: ≥ 2 keys ⇒ the root page is stored with slots 0 / 1 = `nodeAt` of the two halves; ≤ 1 key ⇒ NO
page is stored (the stronger half of `RootInv`'s second clause) -/
theorem T10_root_invariant_of_accepted_image (ht : ByteArray) (t : TableStats) (kvs : List (ByteArray × ByteArray))
    (n : Nat) (h : checkMerkle ht t kvs = .ok n) : RootInv blakeHasher (allOf kvs) (rootPageOf ht t) :=
  rootInv_of_checkMerkle ht t kvs n h

/-- **T10_root_at_open_on_accepted_images**: on a directory whose table passes `checkMerkle` against the key / value-hash
list `kvs` of its B-tree, `compute_root_node` — fed the root page as decoded from the table and ANY presentation `leaves`
of the B-tree content that is in leaf order (`TreeOK`) and denotes `kvs` — returns `nodeAt` of `kvs`; no hypothesis on the
root page is left.  `hs` is the cryptographic assumption (Blake3 with the MSB labelling is injective and never all-zero).
Still a hypothesis: `TreeOK` + `hcontent` (the bridge from `wfImage`'s `Decoded` — byte keys ordered by `keyNat`, `Nat`
separators, chained overflow values — to `Ovl.Leaf` with bit keys ordered by `bitsLt`; see notes/Q37.md round 2). -/
theorem T10_root_at_open_on_accepted_images (hs : blakeHasher.Sound) (hv : ByteArray → ByteArray) (ht : ByteArray)
    (t : TableStats) (kvs : List (ByteArray × ByteArray)) (n : Nat) (hacc : checkMerkle ht t kvs = .ok n)
    (leaves : List (Leaf (Stored ByteArray ByteArray))) (htree : TreeOK leaves)
    (hcontent : trieSet hv (flat leaves) = allOf kvs) :
    computeRootNode {} blakeHasher hv (rootPageOf ht t) leaves = .ok (nodeAt blakeHasher 256 0 (allOf kvs)) := by
  have hr := rootInv_of_checkMerkle ht t kvs n hacc
  rw [← hcontent] at hr ⊢
  exact T10_root_at_open blakeHasher hs hv _ leaves htree hr

/-- **T10_root_overflow_cell_hash_counterexample** (seeded `C10-root-at-open-overflow-cell-hash`: the `OverflowItem` arm
merged into the `Item` arm, `hash_value` applied to the overflow CELL): on the one-key store whose value is an overflow
value the variant answers the leaf over the hash of the cell, the code the leaf over the stored value hash -/
theorem T10_root_overflow_cell_hash_counterexample :
    computeRootNode (B := Nat) {} TH id none [{ sep := zeroKey, entries := [(k10, .overflow 77 1000)] }] =
      .ok (TH.leaf k10 77) ∧
    computeRootNode (B := Nat) { overflowHashesCell := true } TH id none
      [{ sep := zeroKey, entries := [(k10, .overflow 77 1000)] }] = .ok (TH.leaf k10 1000) ∧
    TH.leaf k10 1000 ≠ TH.leaf k10 77 := by
  decide +kernel

variable {Tree Log : Type}

theorem dbOpen_ok (dbg : Bool) (P : Parts Tree Log) (seqn n s0 s1 : Nat) (htF walF : ByteArray) (mp : Nat)
    (hcore : htOpenCore dbg n htF.size = .ok mp)
    (hrec : walF.size > 0 → ∀ h, ∃ r, (P.recover seqn s0 s1 htF walF h).1 = .ok r) :
    ∃ ht' h, (dbOpen dbg P seqn n s0 s1 htF walF).1 = .ok (ht', h) ∧ h.buckets = n := by
  unfold dbOpen htOpen
  rw [hcore]
  simp only
  by_cases hw : walF.size > 0
  · obtain ⟨⟨a, b⟩, hr⟩ := hrec hw { dataPageOffset := mp, metaBytes := htF.extract 0 (mp * PAGE), buckets := n }
    rw [if_pos hw]
    simp only [hr]
    exact ⟨_, _, rfl, rfl⟩
  · rw [if_neg hw]
    exact ⟨_, _, rfl, rfl⟩

/-- **T10_store_open_total_over_parts** (totality recomposed): on an existing, unlocked directory holding the manifest
page of a manifest `m` that reads back and validates (every store manifest does: `T10_validate_exact`) with a
non-overflowing bucket count, a table file of the length `ht_file::create` gave it and
the four other files, the WHOLE `Store::open` returns `ok` — in both build modes, for every `Options` — as soon as the
three parts do on that directory: `Tree::open` on (`ln`, `bbn`, the manifest's free-list heads and bumps), `bitbox::recover`
when the WAL is not empty, `Rollback::read` when `Options.rollback`.  The opened handle carries `m`'s parameters and the
parts' results.  The three hypotheses are the conclusions of the parts' own totality theorems on what a completed sync or
recovery leaves (`T10_reconstruct_is_live_index`, `T3_prepare_sync_recovery_total` / `T3_wal_reader_total`,
`T9_seglog_open_total_on_crash_images`); they are NOT yet instantiated by those mirrors (notes/Q37.md round 2). -/
theorem T10_store_open_total_over_parts (dbg : Bool) (P : Parts Tree Log) (o : Options) (d : Dir) (m : Meta)
    (metaF lnF bbnF htF walF : ByteArray) (tree : Tree)
    (hp : d.present = true) (hne : d.files.isEmpty = false) (hl : d.lockedByOther = false)
    (hm : d.get .manifest = some metaF) (hmr : metaRead metaF = .ok m) (hv : validate m = .ok ())
    (hpo : PagesOK m.bitboxNumPages)
    (hln : d.get .ln = some lnF) (hbbn : d.get .bbn = some bbnF) (hht : d.get .ht = some htF)
    (hwal : d.get .wal = some walF)
    (hlen : htF.size = ((m.bitboxNumPages + 4095) / 4096 + m.bitboxNumPages) * 4096)
    (htree : (P.treeOpen lnF bbnF m.lnFreelistPn m.bbnFreelistPn m.lnBump m.bbnBump).1 = .ok tree)
    (hrec : walF.size > 0 → ∀ h, ∃ r, (P.recover m.syncSeqn m.seed0 m.seed1 htF walF h).1 = .ok r)
    (hrb : o.rollback = true →
      ∃ l, (P.rollbackRead o.maxRollbackLogLen m.rollbackStartLive m.rollbackEndLive d.files).1 = .ok l) :
    ∃ r, (storeOpen {} dbg P o d).1 = .ok r ∧ r.tree = tree ∧ r.syncSeqn = m.syncSeqn ∧
      r.capacity = m.bitboxNumPages ∧ r.bitboxSeed0 = m.seed0 ∧ r.syncSeed0 = m.seed0 := by
  rw [storeOpen_existing {} dbg P o d hp hne hl]
  have hcore := (htCreate_then_open dbg m.bitboxNumPages hpo).2
  rw [← hlen] at hcore
  have hdb := dbOpen_ok dbg P m.syncSeqn m.bitboxNumPages m.seed0 m.seed1 htF walF _ hcore hrec
  obtain ⟨ht', h, hdbe, hb⟩ := hdb
  unfold openFiles
  simp only [hm, hln, hbbn, hht, hwal, hmr, hv, htree, Bool.false_eq_true, if_false, hdbe]
  by_cases hro : o.rollback = true
  · obtain ⟨l, hl'⟩ := hrb hro
    simp only [hro, if_true, hl']
    exact ⟨_, rfl, rfl, rfl, hb, rfl, rfl⟩
  · simp only [hro, if_false]
    exact ⟨_, rfl, rfl, rfl, hb, rfl, rfl⟩

/-- non-vacuity of `T10_root_invariant_of_accepted_image`: the empty table is accepted for the empty and for a one-key
set, and then no root page is decoded -/
example : checkMerkle ByteArray.empty { full := 0, tomb := 0, pages := #[] } [] = .ok 0 ∧
    rootPageOf ByteArray.empty { full := 0, tomb := 0, pages := #[] } = none := by
  constructor
  · rfl
  · unfold rootPageOf
    rw [storedOf_empty _ rfl]
    rfl

end Nomt.C10
