import NomtModel.Store.LeafUpdRun3
import NomtModel.Store.LeafUpdSep
/-!
# C19 — overflow pages are released iff their value goes away (`with_deleted_overflow` of `LeafUpdater::ingest`)

`leaf_stage.rs` collects the cells handed to `with_deleted_overflow` (`overflow_deleted`) and frees the pages they
name.  The theorems are about the mirror `Store/LeafUpdModel.lean` (tied to the real code by `vharness leafupd`).
`keepUpToG true` / `ingestG true` is `keep_up_to` as it was before the repair of F10 (`if from == to { return }` in front
of the callback).
-/
namespace Nomt.C19
open Nomt Nomt.LeafUpd

variable {V : Type} [CellSize V]

/-- **T19.overflow_released_iff_dropped** — over the whole leaf stage (any tree, any ascending change list, merges and
splits included) the callback log is exactly the list of the overflow cells of OLD entries whose key is in the change
list (deleted or replaced), in key order: each such cell once, no cell of a kept entry, no cell of a value written by the
change list itself. -/
theorem T19_overflow_released_iff_dropped (sepf : Nat → Nat → Option Nat) (KB : Nat) (hsep : SepOK sepf KB)
    (db : List (DbLeaf V)) (cs : List (Nat × Option (V × Bool))) (lo : Nat)
    (hdb : DbOK KB db) (hcs : ChOK KB lo cs) (hfirst : ∀ l, db.head? = some l → l.sep ≤ lo) :
    ∃ out log, runWorker sepf db cs = some (out, log) ∧
      log = ((flat db).filter (fun e => e.ovf && (cs.map (·.1)).contains e.key)).map (·.val) := by
  obtain ⟨out, log, e, _, h2, _⟩ := runWorker_spec sepf KB hsep db cs lo hdb hcs hfirst
  exact ⟨out, log, e, h2⟩

/-- membership form: a cell is released iff it is the overflow cell of an old entry whose key is changed -/
theorem T19_released_iff (sepf : Nat → Nat → Option Nat) (KB : Nat) (hsep : SepOK sepf KB)
    (db : List (DbLeaf V)) (cs : List (Nat × Option (V × Bool))) (lo : Nat)
    (hdb : DbOK KB db) (hcs : ChOK KB lo cs) (hfirst : ∀ l, db.head? = some l → l.sep ≤ lo) :
    ∃ out log, runWorker sepf db cs = some (out, log) ∧
      ∀ v, v ∈ log ↔ ∃ e ∈ flat db, e.ovf = true ∧ (∃ c ∈ cs, c.1 = e.key) ∧ e.val = v := by
  obtain ⟨out, log, e, h⟩ := T19_overflow_released_iff_dropped sepf KB hsep db cs lo hdb hcs hfirst
  refine ⟨out, log, e, ?_⟩
  intro v
  rw [h]
  simp only [List.mem_map, List.mem_filter, Bool.and_eq_true, List.contains_iff_mem, List.mem_map]
  constructor
  · rintro ⟨x, ⟨hx, ho, c, hc, hk⟩, rfl⟩
    exact ⟨x, hx, ho, ⟨c, hc, hk⟩, rfl⟩
  · rintro ⟨x, hx, ho, ⟨c, hc, hk⟩, rfl⟩
    exact ⟨x, ⟨hx, ho, c, hc, hk⟩, rfl⟩

/-- **T19.ingest_callback** — one `ingest(key, ·)`: the callback receives exactly the overflow cell the updater's
content holds under `key` (at most one) — also when nothing is kept in front of it (`from == to`) -/
theorem T19_ingest_callback (KB : Nat) (st : St V) (k : Nat) (ch : Option (V × Bool)) (hinv : Inv KB st)
    (hbelow : ∀ e ∈ den st.base st.ops, e.key < k) (hklo : separator st ≤ k)
    (hkhi : ∀ c, st.cutoff = some c → k < c) (hkKB : k < KB)
    (hch : ∀ v o, ch = some (v, o) → CellSize.size v ≤ MAXV) :
    (ingest st k ch).2 = ((content st).filter (fun e => e.key == k && e.ovf)).map (·.val) :=
  (ingest_spec KB st k ch hinv hbelow hklo hkhi hkKB hch).2.1

/-- `digest` itself never calls the callback with anything (`keep_up_to(None, |_| {})`: nothing is deleted) -/
theorem T19_digest_releases_nothing (st : St V) (hwf : WF st.base st.ops)
    (hg : st.gauge = gaugeOf (den st.base st.ops)) (hll : ∀ b, st.base = some b → b.low ≤ b.ents.length) :
    (keepUpTo st none).2 = [] :=
  (keepUpToG_none_spec false st hwf hg hll).2.2.2.2.2.2.2.2.2.2

/-! ## F10 -/

/-- a leaf whose FIRST entry is an overflow value (cell = 44 bytes: one page) -/
def f10Base : Base Nat := { ents := [⟨1, 44, true⟩, ⟨2, 10, false⟩, ⟨3, 44, true⟩], sep := 0 }

/-- **T19.F10_counterexample** — the code before the repair: deleting the first entry of the leaf (nothing precedes it,
`from == to`) returns before the callback: the overflow cell under key 1 is not reported (its pages leak), while the
repaired `keep_up_to` reports it; an overflow value deleted after a kept entry (key 3) was reported by both. -/
theorem T19_F10_counterexample :
    (ingestG true (St.new (some f10Base) none) 1 none).2 = [] ∧
    (ingestG false (St.new (some f10Base) none) 1 none).2 = [44] ∧
    ((content (St.new (some f10Base) none)).filter (fun e => e.key == 1 && e.ovf)).map (·.val) = [44] ∧
    (ingestG true (ingestG true (St.new (some f10Base) none) 1 none).1 3 none).2 = [44] := by
  decide

/-- the same shape directly after the previously touched key: delete key 2, then key 3 (`from == to` again) -/
example : (ingestG true (ingestG true (St.new (some f10Base) none) 2 none).1 3 none).2 = [] ∧
    (ingestG false (ingestG false (St.new (some f10Base) none) 2 none).1 3 none).2 = [44] := by
  decide

/-! ## non-vacuity -/

/-- a tree whose first leaf holds two overflow cells; one is deleted, one replaced by an inline value, one more
overflow value is written by the change list itself (never reported) -/
def exDb : List (DbLeaf Nat) :=
  [⟨0, [⟨10, 44, true⟩, ⟨20, 500, false⟩, ⟨30, 48, true⟩, ⟨35, 52, true⟩]⟩, ⟨40, [⟨40, 1300, false⟩]⟩]

def exCs : List (Nat × Option (Nat × Bool)) := [(10, none), (30, some (9, false)), (50, some (100, true))]

example : runWorker (fun _ b => some b) exDb exCs =
    some ([.new ⟨0, [⟨20, 500, false⟩, ⟨30, 9, false⟩, ⟨35, 52, true⟩, ⟨40, 1300, false⟩, ⟨50, 100, true⟩], none⟩],
      [44, 48]) := by
  decide +kernel

end Nomt.C19
