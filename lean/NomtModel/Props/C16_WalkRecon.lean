import NomtModel.Store.WalkerReconExample
import NomtModel.Store.WalkerElision
/-!
# C16 — the `PageDiff` of reconstructed and promoted pages

A page that `reconstruct_pages` yields carries a diff (`PageOrigin::Reconstructed { diff }`); when the walker later keeps such a
page (it is promoted to a stored page and goes to a FRESH bucket) the diff handed to the WAL is `total_diff()` = reconstruction
diff ∪ update diff.
-/
namespace Nomt.C16
open Nomt Nomt.Walker Nomt.TriePos
open Nomt.Wal (PageDiff)

variable {Node VH : Type} [DecidableEq Node] [DecidableEq VH] (H : Hasher Node VH)

/-- **T16_promoted_page_diff**: the diff of a page that is kept (`T2_elision_keep`: `keptResult` hands out `sp.totalDiff`) names
every slot the reconstruction diff names and every slot the update diff names — nothing of the reconstruction is dropped when a
reconstructed page is promoted. -/
theorem T16_promoted_page_diff (sp : StackPage Node) (i : Nat) :
    sp.totalDiff.changed i = ((match sp.reconDiff with | some d => d.changed i | none => false) || sp.diff.changed i) :=
  totalDiff_names sp i

example : (StackPage.new [0, 0] (⟨[], 0⟩ : Page T) ⟨4, 0⟩ (.reconstructed 2 0 ⟨3, 0⟩)).totalDiff.changed 0 = true := by
  decide

/-- **T16_demoted_page_cleared**: a page that is elided although it had a bucket is handed out with the clear bit raised
(`elidedResult` hands out `clearedDiff sp`) -/
theorem T16_demoted_page_cleared (sp : StackPage Node) : (clearedDiff sp).cleared = true :=
  totalDiff_setCleared_cleared sp

example : (clearedDiff (StackPage.new [0, 0] (⟨[], 0⟩ : Page T) PageDiff.empty (.persisted (some 1)))).cleared = true :=
  T16_demoted_page_cleared _

/-- **T16_reconstruction_diff_names_changes**: the diff of every page `reconstruct_pages` yields names every slot that differs
from the pool page the page was built on (for the first elided page: the pool page with its two top slots cleared, whose slots
0 and 1 the diff names as well) — the premise of `T3_redo_reproduces_iff` relative to that base.  (That it names every
MEANINGFUL slot — needed when the page is promoted into a bucket of unknown content — is checked by the `C16 recon diff` oracle
on every reconstructed page of every run and by `T16_reconstruct_diff_instance`; not a theorem.) -/
theorem T16_reconstruction_diff_names_changes {ps : PageSet Node} {pos : Pos} {O : List (Key × VH)}
    (h : ReconPre H ps pos O) (page : Page Node) (hpage : page.getNode H pos.nodeIndex = .ok (specNode H O pos.path)) :
    ∃ l, (∃ ps', reconstructPages H page (specPage pos.path) pos ps O = .ok (ps', some l)) ∧
      ∀ r ∈ l, ∃ base, BaseOf (psR H ps (sextetsOf pos.path)) r.pageId base ∧ DiffNames H r.page.nodes base r.diff := by
  obtain ⟨l, Lc, h1, _, _, h4⟩ := reconstructPages_correct H h page hpage
  refine ⟨l, ⟨_, h1⟩, ?_⟩
  intro r hr
  obtain ⟨_, _, _, _, _, _, hd⟩ := h4 r hr
  exact hd

example : ReconPre TH RecEx.rps RecEx.rpos RecEx.rO := RecEx.rpre

/-- kernel evaluation: in the promotion scenario every reconstructed page's diff names every slot that holds a node -/
theorem T16_reconstruct_diff_instance : ReconMut.reconSummary 12 = some [([0, 0], 19, 0, true)] := by decide +kernel

/-- **the seeded changes `C02-elision-promoted-page-diff-drops-reconstruction` / `C03-wal-diff-drops-reconstruction`,
kernel-checked on the mirror** (`Walker.mutDropReconDiff`: `push_updated` hands out `updated.diff` instead of
`updated.total_diff()`): an elided page with 19 leaves is reconstructed, a 20th leaf arrives, the page is promoted — handed out
without a bucket — and its diff does NOT name every slot that holds a node: the fresh bucket would keep whatever bytes it
held in the slots the reconstruction filled -/
theorem T16_walker_promoted_diff_counterexample : ReconMut.verdictDrop true = some (true, false) := by decide +kernel

/-- … and the unchanged mirror names them all -/
theorem T16_walker_promoted_diff_instance : ReconMut.verdictDrop false = some (true, true) := by decide +kernel

end Nomt.C16
