import NomtModel.Store.CacheNew
/-!
# C02 (topic: the pinned levels of the page cache) — the pages every root computation starts from are the stored ones

The upper `page_cache_upper_levels` levels of the page tree are pinned: `CacheShardLocked` keeps them in a plain map that
`evict` never touches, and all four accessors (`get`, `get_or_insert`, `insert`, `remove`) pick the container by the same
test `depth ≤ fixed_levels`.  A stale pinned page would make every later update hash on top of an old page (the seek does
not verify hashes), so the reported root would no longer be the root of the key-value set.
-/
namespace Nomt.C02
open Nomt Nomt.Cache

/-- **T2_pinned_never_evicted**: let page `k` of depth ≤ `fixed_levels` (the root slot included) be in the cache with
entry `e` — e.g. right after `batch_update` wrote it.  For EVERY sequence of cached reads (of `k` or of other pages),
evictions, prepopulation runs and commits that do not write `k`, over any shard count 1…64 and any limits, the cache
still answers `get k` with `e` afterwards: a pinned page is never evicted, never displaced by another page, and is read
from where `insert` wrote it. -/
theorem T2_pinned_never_evicted {P : Type} (s : PState P) (w : s.pc.WF) (ops : List (POp P))
    (hv : ∀ op ∈ ops, op.Valid) (k : PageId) (e : Entry P) (hl : ∀ op ∈ ops, op.Leaves k)
    (hk : k.length ≤ s.pc.fixedLevels) (hview : s.pc.view k = some e)
    (s' : PState P) (o : List (Option (Entry P))) (h : prun {} s ops = .ok (s', o)) :
    s'.pc.view k = some e :=
  prun_pin s w ops hv k e hl hk hview s' o h

/-- **T2_commit_writes_where_get_reads**: `batch_update` with `(k, Some page)` makes `get k` return that page, with
`(k, None)` makes it miss — for pinned and unpinned depths alike. -/
theorem T2_commit_writes_where_get_reads {P : Type} (pc : PageCache P) (w : pc.WF) (k : PageId) (hv : ValidId k)
    (mp : Option (Entry P)) : ∃ pc', pc.update1 {} k mp = .ok pc' ∧ pc'.view k = mp := by
  obtain ⟨pc', h, hu, _⟩ := pc.update1_ok w k hv mp
  exact ⟨pc', h, hu.1⟩

/-! ## seeded change `C02-page-cache-fixed-level-off-by-one` (flag `insertLt`) -/

def exPc : PageCache Nat :=
  { shards := [{ fixed := [], cached := Lru.unbounded, pageLimit := 256, count := 64 }], root := none, fixedLevels := 2 }
def exOps : List (POp Nat) :=
  [.commit [([0, 0], some ⟨1, 10⟩)], .read [0, 0], .commit [([0, 0], some ⟨2, 10⟩)], .read [0, 0]]
def outputs (q : Flags) : Option (List (Option (Entry Nat))) :=
  match prun q ⟨exPc, fun _ => none⟩ exOps with
  | .ok (_, o) => some o
  | _ => none
def viewAfterFirstCommit (q : Flags) : Option (Option (Entry Nat)) :=
  match exPc.batchUpdate q [([0, 0], some ⟨1, 10⟩)] with
  | .ok pc => some (pc.view [0, 0])
  | _ => none

/-- **T2_seeded_fixed_level_off_by_one_counterexample** (kernel-checked): two pinned levels, page `[0, 0]` of depth 2.
Commit version 1, read, commit version 2, read.  The code as it is answers `[v1, v2]` like the uncached run.  With
`insert` testing `depth < fixed_levels` the first commit puts the page into the LRU where `get` does not look (the view
of the page is empty right after it was written), the read pins version 1 from the store, the second commit again goes
to the LRU, and the second read returns the STALE version 1. -/
theorem T2_seeded_fixed_level_off_by_one_counterexample :
    (prefRun (fun _ => (none : Option (Entry Nat))) exOps).2 = [some ⟨1, 10⟩, some ⟨2, 10⟩] ∧
    outputs {} = some [some ⟨1, 10⟩, some ⟨2, 10⟩] ∧
    outputs { insertLt := true } = some [some ⟨1, 10⟩, some ⟨1, 10⟩] ∧
    viewAfterFirstCommit {} = some (some ⟨1, 10⟩) ∧
    viewAfterFirstCommit { insertLt := true } = some none := by
  refine ⟨by decide, by decide, by decide, by decide, by decide⟩

def exPinPc : PageCache Nat :=
  { shards := [{ fixed := [([5], ⟨1, 1⟩)], cached := Lru.unbounded, pageLimit := 1, count := 64 }], root := none,
    fixedLevels := 1 }
def exPinStore : PStore Nat := fun id => if id = [5, 1] then some ⟨3, 3⟩ else if id = [5, 2] then some ⟨4, 4⟩ else none
def exPinOps : List (POp Nat) := [.read [5, 1], .read [5, 2], .evict, .commit [([5, 2], none)], .read [5], .evict]

/-- non-vacuity of T2_pinned_never_evicted: a depth-1 page under one pinned level survives reads of other pages that
overflow a 1-page LRU, evictions and a commit elsewhere -/
example : ∃ s' o, prun {} ⟨exPinPc, exPinStore⟩ exPinOps = .ok (s', o) ∧ s'.pc.view [5] = some ⟨1, 1⟩ := by
  have hv : ∀ op ∈ exPinOps, op.Valid := by
    intro op hop
    simp only [exPinOps, List.mem_cons, List.mem_nil_iff, or_false] at hop
    rcases hop with rfl | rfl | rfl | rfl | rfl | rfl <;> simp [POp.Valid, ValidId]
  have hl : ∀ op ∈ exPinOps, op.Leaves [5] := by
    intro op hop
    simp only [exPinOps, List.mem_cons, List.mem_nil_iff, or_false] at hop
    rcases hop with rfl | rfl | rfl | rfl | rfl | rfl <;> simp [POp.Leaves]
  have w : exPinPc.WF := ⟨by decide, by decide⟩
  obtain ⟨pc', r, hr, _⟩ := prun_total exPinOps ⟨exPinPc, exPinStore⟩ w hv
  exact ⟨pc', r, hr, T2_pinned_never_evicted ⟨exPinPc, exPinStore⟩ w exPinOps hv [5] ⟨1, 1⟩ hl (by decide) (by decide) pc' r hr⟩

end Nomt.C02
