import NomtModel.Store.StepOrderCheck
/-!
# C14 (topic: every fallible step of commit / sync propagates its failure, and the failure poisons — read off the current Rust text)
-/
namespace Nomt.C14
open Nomt.GenOrder N

/-- T14.order-1 in all four commit functions the store commit and the rollback-log append propagate their failure, and a failed append poisons the store and
returns the error (F8: it used to return without poisoning) -/
theorem T14_order_commit_errors_poison :
    commitFns.all (fun f => allFallible store_commit f &&
      (if occurs rollback_commit f then allFallible rollback_commit f && followedBy rollback_commit [poison, return_err] f else true) &&
      (if occurs rollback_commit_nb f then allFallible rollback_commit_nb f && followedBy rollback_commit_nb [poison, return_err] f else true) &&
      (occurs rollback_commit f || occurs rollback_commit_nb f)) = true := by decide

/-- T14.order-2 `Store::commit`: the poison flag is tested before the sync starts; a failed sync sets the flag and returns the error -/
theorem T14_order_store_commit :
    names store_commit = [sync_lock, poison_check, bail, sync, poison, return_err] ∧ allFallible sync store_commit = true := by decide

/-- T14.order-3 `Sync::sync`: each of the five steps that performs or awaits I/O propagates its failure (the seeded change
`C14-postmeta-error-overwritten` and defect F2 each dropped one) -/
theorem T14_order_sync_errors :
    [bitbox_wait_pre_meta, beatree_wait_pre_meta, meta_write, bitbox_post_meta, rollback_wait_post_meta].all (fun n => allFallible n GenOrder.sync) = true ∧
    allFallible write meta_write = true ∧ allFallible fsync meta_write = true := by decide

/-- T14.order-4 the hash-table write-out awaits every submitted page, keeps the first error, propagates it BEFORE the table fsync (so a failed page write fails the
sync and the WAL is not dropped: defect F2), and propagates a failed fsync; the WAL writer / truncation propagate every step -/
theorem T14_order_writeout :
    names write_ht = [submit_page, await_completion, keep_first_error, propagate_result, fsync] ∧
    allFallible propagate_result write_ht = true ∧ allFallible fsync write_ht = true ∧
    sig write_wal = [(set_len, true), (write, true), (fsync, true)] ∧ sig truncate_wal = [(set_len, true), (fsync, true)] := by decide

end Nomt.C14
