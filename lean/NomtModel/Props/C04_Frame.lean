import NomtModel.Props.C17_Frame
import NomtModel.Props.C04
import NomtModel.Store.FrameParams
/-!
# C04 — the content clause `hpre` of T4.1 / T4.9 for `ln` / `bbn`, discharged for the concrete decoder

T4.1 is proved over an abstract disk whose recovery abstraction has the frame property, under the hypothesis `hpre`: every
pre-switch-over event leaves the old state's abstraction unchanged.  `T17_4` derives the PLACEMENT half of `hpre` from the
monitor's acceptance (writes go to unmarked pages); this file states the CONTENT half on the real files: with the real
decoder as recovery abstraction, every image reachable before the switch-over — every prefix of the accepted trace, every
subset of its page writes lost (power loss), any contents — decodes to the old state.
-/
namespace Nomt.C04
open Nomt.Store

/-- T4.10 **`hpre` for the concrete decoder** (power loss before the switch-over).  `checkPlacement img tr = ok` ⇒ for EVERY prefix `p` of the events before the meta write, EVERY sub-list `sub` of `p` (the writes that
reached the device) and every image `B` carrying the old meta page whose `ln` / `bbn` differ from the pre-image at most on the
pages written by `sub` (any contents, files possibly extended): `wfImage B` is `wfImage img` and `absImage B` is `absImage img`. -/
theorem T4_10_pre_switchover_images_decode_to_old_state {img : Image} {tr : List IoEv} {stP : PlacementStats}
    (h : checkPlacement img tr = .ok stP)
    (p sub : List IoEv) (hp : p <+: preMeta tr) (hsub : sub.Sublist p) (B : Image) (hmeta : B.metaF = img.metaF)
    (hln : Touched img.ln B.ln (writesOf "ln" sub)) (hbbn : Touched img.bbn B.bbn (writesOf "bbn" sub)) :
    wfImage B = wfImage img ∧ absImage B = absImage img ∧ absLeaves B = absLeaves img := by
  obtain ⟨m, st', lnM', bbnM', _, _, hkeep⟩ := C17.T17_7_accepted_trace_keeps_old_state h
  obtain ⟨h1, h2, h3, _, _⟩ := hkeep sub B (hsub.trans hp.sublist) hmeta hln hbbn
  exact ⟨h1, h2, h3⟩

/-- non-vacuity: the fresh store and the trace of its first sync (`Store/FrameFresh.lean`); prefix = the first two events,
of which only the second write reached the file. -/
example (c2 : ByteArray) (h2 : c2.size = PAGE) :
    let img := Fresh.mk (zeros PAGE)
    let B : Image := { img with ln := writePage img.ln 2 c2 }
    wfImage B = wfImage img ∧ absImage B = absImage img ∧ absLeaves B = absLeaves img := by
  obtain ⟨stP, hacc⟩ := Fresh.accepted (zeros PAGE) (size_zeros _) (allZero_zeros _)
  intro img B
  refine T4_10_pre_switchover_images_decode_to_old_state hacc
    ((preMeta Fresh.tr).take 2) (((preMeta Fresh.tr).take 2).drop 1) (List.take_prefix _ _) (List.drop_sublist _ _) B rfl ?_ ?_
  · have : writesOf "ln" (((preMeta Fresh.tr).take 2).drop 1) = [2] := by decide
    rw [this]
    exact writePage_touched _ _ _ h2
  · exact Touched.refl _ _

/-! ## The abstract crash theorem instantiated with the concrete decoder (`Store/FrameParams.lean`)

`realParams : Params ByteArray RealMeta RealWal RealAbs`: contents are pages, files are page functions, the meta record is the meta
page + the read sets of the walk of the old image (`metaRecOf`), `reach` is the read set, `absTree` is `absImage` of the image rebuilt
from the pages of the read set.  `absTree_real`: on every disk that agrees with the accepted pre-image on the read set this IS
`absImage` of the pre-image. -/
section params
open NomtDisk
variable {LogRec : Type}

/-- T4.11 **phase A of the crash theorem, verbatim, for the concrete decoder.**  `d0` is the abstract disk of the accepted pre-image
`A` (its meta record, its pages on the read set, no pending WAL); the events are the abstraction (`absEv`, any page contents) of the
REAL pre-switch-over trace accepted by `checkPlacement`.  Then `phaseA_images` / `invA_run` of `Store/Crash.lean` apply as they are:
every image (durable part ⊕ ANY sub-list of the un-synced effects) of EVERY prefix abstracts to the old state, and the tree
component of that abstraction is `absImage A` — the real decoder's reading of the pre-image. -/
theorem T4_11_phaseA_for_the_concrete_decoder {A : Image} {tr : List IoEv} {stP : PlacementStats}
    (h : checkPlacement A tr = .ok stP) {m : Meta} {st : Stats} {lnM bbnM : Array UInt8}
    (hm : imageMeta A = .ok m) (hd : wfDetailM A = .ok (st, lnM, bbnM))
    (d0 : Disk ByteArray RealMeta RealWal LogRec) (hmt : d0.mt = metaRecOf A m lnM bbnM)
    (hpages : ∀ f pn, realReach d0.mt f pn → d0.pages f pn = pagesOf A f pn) (hwal : d0.wal = none)
    (content : IoEv → ByteArray) (p : List (Ev ByteArray RealMeta RealWal LogRec))
    (hp : p <+: (preMeta tr).filterMap (absEv content))
    (img : Disk ByteArray RealMeta RealWal LogRec) (himg : IsImage (run ⟨d0, []⟩ p) img) :
    absOf realParams img = absOf realParams d0 ∧ (absOf realParams img).1 = absImage A := by
  have hev := placement_evPre_real h hm hd d0 hmt content
  have hinert : ∀ b, htView realParams d0 b = d0.pages File.fHt b := by intro b; simp [htView, hwal]
  have hi0 : InvA realParams d0 ⟨d0, []⟩ := ⟨⟨rfl, fun _ _ _ => rfl, Or.inl rfl⟩, fun e he => by cases he⟩
  have hi := invA_run realParams d0 p _ hi0 (fun ev hev' => hev ev (hp.subset hev'))
  have h1 := phaseA_images realParams d0 hinert _ hi img himg
  refine ⟨h1, ?_⟩
  rw [h1]
  show realParams.absTree d0.mt d0.pages = absImage A
  have := absTree_real hm hd d0.pages (fun f pn hr => hpages f pn (hmt ▸ hr))
  rw [hmt]; exact this

/-- T4.12 **T4.1 applied verbatim to the concrete decoder**: `pre` = the abstraction of the real accepted pre-switch-over trace followed
by the events the trace abstraction does not carry (`preW`: the WAL write and its fsync, whose clauses of `EvPre` need the contents).
Hypothesis `hpre` of `T4_1_powerloss_atomic` is DISCHARGED for the trace part by `checkPlacement = ok`; what remains are exactly the
clauses the trace cannot decide (contents of the WAL, `hflushed`, `PostOK`), as for the hash table in `Props/C04_PrepareSync`. -/
theorem T4_12_powerloss_atomic_for_the_concrete_decoder {A : Image} {tr : List IoEv} {stP : PlacementStats}
    (h : checkPlacement A tr = .ok stP) {m : Meta} {st : Stats} {lnM bbnM : Array UInt8}
    (hm : imageMeta A = .ok m) (hd : wfDetailM A = .ok (st, lnM, bbnM))
    (d0 : Disk ByteArray RealMeta RealWal LogRec) (hmt : d0.mt = metaRecOf A m lnM bbnM)
    (hinert : ∀ b, htView realParams d0 b = d0.pages File.fHt b)
    (content : IoEv → ByteArray) (preW post : List (Ev ByteArray RealMeta RealWal LogRec)) (m1 : RealMeta) (w1 : RealWal)
    (hpreW : ∀ ev ∈ preW, EvPre realParams d0 ev)
    (hflushed : (run ⟨d0, []⟩ ((preMeta tr).filterMap (absEv content) ++ preW)).vol = [])
    (hwal : (run ⟨d0, []⟩ ((preMeta tr).filterMap (absEv content) ++ preW)).dur.wal = some w1)
    (hseq : realParams.walSeqn w1 = realParams.seqn m1)
    (hpost : PostOK realParams w1
      ⟨applyEff (run ⟨d0, []⟩ ((preMeta tr).filterMap (absEv content) ++ preW)).dur (.setMeta m1), []⟩ post) :
    (∀ p, p <+: ((preMeta tr).filterMap (absEv content) ++ preW) ++ ([Ev.eff (.setMeta m1), Ev.fsync File.fMeta] ++ post) →
       ∀ img, IsImage (run ⟨d0, []⟩ p) img →
         absOf realParams img = absOf realParams d0 ∨
         absOf realParams img = absNew realParams (run ⟨d0, []⟩ ((preMeta tr).filterMap (absEv content) ++ preW)).dur m1 w1) ∧
    (∀ img, IsImage (run ⟨d0, []⟩ (((preMeta tr).filterMap (absEv content) ++ preW) ++
        ([Ev.eff (.setMeta m1), Ev.fsync File.fMeta] ++ post))) img →
       absOf realParams img = absNew realParams (run ⟨d0, []⟩ ((preMeta tr).filterMap (absEv content) ++ preW)).dur m1 w1) :=
  T4_1_powerloss_atomic realParams d0 hinert _ post m1 w1
    (by
      intro ev hev
      rcases List.mem_append.1 hev with hev | hev
      · exact placement_evPre_real h hm hd d0 hmt content ev hev
      · exact hpreW ev hev)
    hflushed hwal hseq hpost

end params

/-- the abstract disk of the small accepted image (`Store/FrameSmall.lean`) -/
def smallDisk : NomtDisk.Disk ByteArray RealMeta RealWal Nat :=
  { pages := pagesOf Small.img, mt := metaRecOf Small.img Small.m Small.lnMarks Small.bbnMarks, wal := none, log := [] }

/-- non-vacuity of T4.11: the small image (one leaf with two keys, one branch node) and the accepted trace of a sync on it; after the two
page writes (new leaf at `ln` page 2, new branch node at `bbn` page 2, any contents `c`), the image in which the FIRST write was lost
abstracts — through the abstract crash machinery instantiated with the real decoder — to the two old keys. -/
example (c : ByteArray) :
    let w1 : NomtDisk.Eff ByteArray RealMeta RealWal Nat := .page NomtDisk.File.fLn 2 c
    let w2 : NomtDisk.Eff ByteArray RealMeta RealWal Nat := .page NomtDisk.File.fBbn 2 c
    (NomtDisk.absOf realParams (NomtDisk.applyEffs smallDisk [w2])).1 =
      .ok [(Small.key1, [1, 2, 3].toByteArray), (Small.key2, [9].toByteArray)] := by
  intro w1 w2
  obtain ⟨stP, hacc⟩ := Small.accepted
  have hpre : [NomtDisk.Ev.eff w1, NomtDisk.Ev.eff w2] <+: (preMeta Small.tr).filterMap (absEv (fun _ => c)) :=
    ⟨[.fsync NomtDisk.File.fLn, .fsync NomtDisk.File.fBbn], rfl⟩
  have himg : NomtDisk.IsImage (NomtDisk.run ⟨smallDisk, []⟩ [NomtDisk.Ev.eff w1, NomtDisk.Ev.eff w2])
      (NomtDisk.applyEffs smallDisk [w2]) := ⟨[w2], List.Sublist.cons _ (List.Sublist.refl _), rfl⟩
  have h := (T4_11_phaseA_for_the_concrete_decoder hacc (Small.hmeta _ _ _) (Small.hwalk Small.pages0) smallDisk rfl
    (fun _ _ _ => rfl) rfl (fun _ => c) _ hpre _ himg).2
  rw [h]
  have hl := Small.hleaves Small.pages0
  show absImage Small.img = _
  unfold absImage
  rw [show absLeaves Small.img = _ from hl]
  rfl

end Nomt.C04
