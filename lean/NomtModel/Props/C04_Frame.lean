import NomtModel.Props.C17_Frame
/-!
# C04 — the content clause `hpre` of T4.1 / T4.9 for `ln` / `bbn`, discharged for the concrete decoder

T4.1 is proved over an abstract disk whose recovery abstraction has the frame property, under the hypothesis `hpre`: every
pre-switch-over event leaves the old state's abstraction unchanged.  `T17_4` derives the PLACEMENT half of `hpre` from the
monitor's acceptance (writes go to unmarked pages); this file states the CONTENT half on the real files: with the real
decoder as recovery abstraction, every image reachable before the switch-over — every prefix of the accepted trace, every
subset of its page writes lost (power loss), any contents — decodes to the old state.
-/
namespace Nomt.C04
open Nomt.Store

/-- T4.10 **`hpre` for the concrete decoder** (power loss before the switch-over).  `checkPlacement img tr = ok` ⇒ for EVERY prefix `p` of the events before the meta write, EVERY sub-list `sub` of `p` (the writes that
reached the device) and every image `B` carrying the old meta page whose `ln` / `bbn` differ from the pre-image at most on the
pages written by `sub` (any contents, files possibly extended): `wfImage B` is `wfImage img` and `absImage B` is `absImage img`. -/
theorem T4_10_pre_switchover_images_decode_to_old_state {img : Image} {tr : List IoEv} {stP : PlacementStats}
    (h : checkPlacement img tr = .ok stP)
    (p sub : List IoEv) (hp : p <+: preMeta tr) (hsub : sub.Sublist p) (B : Image) (hmeta : B.metaF = img.metaF)
    (hln : Touched img.ln B.ln (writesOf "ln" sub)) (hbbn : Touched img.bbn B.bbn (writesOf "bbn" sub)) :
    wfImage B = wfImage img ∧ absImage B = absImage img ∧ absLeaves B = absLeaves img := by
  obtain ⟨m, st', lnM', bbnM', _, _, hkeep⟩ := C17.T17_7_accepted_trace_keeps_old_state h
  obtain ⟨h1, h2, h3, _, _⟩ := hkeep sub B (hsub.trans hp.sublist) hmeta hln hbbn
  exact ⟨h1, h2, h3⟩

/-- non-vacuity: the fresh store and the trace of its first sync (`Store/FrameFresh.lean`); prefix = the first two events,
of which only the second write reached the file. -/
example (c2 : ByteArray) (h2 : c2.size = PAGE) :
    let img := Fresh.mk (zeros PAGE)
    let B : Image := { img with ln := writePage img.ln 2 c2 }
    wfImage B = wfImage img ∧ absImage B = absImage img ∧ absLeaves B = absLeaves img := by
  obtain ⟨stP, hacc⟩ := Fresh.accepted (zeros PAGE) (size_zeros _) (allZero_zeros _)
  intro img B
  refine T4_10_pre_switchover_images_decode_to_old_state hacc
    ((preMeta Fresh.tr).take 2) (((preMeta Fresh.tr).take 2).drop 1) (List.take_prefix _ _) (List.drop_sublist _ _) B rfl ?_ ?_
  · have : writesOf "ln" (((preMeta Fresh.tr).take 2).drop 1) = [2] := by decide
    rw [this]
    exact writePage_touched _ _ _ h2
  · exact Touched.refl _ _

end Nomt.C04
