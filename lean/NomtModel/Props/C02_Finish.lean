import NomtModel.Api.FinishExample
/-!
# C02 (topic: `Session::finish`) — the root `finish` reports

The root of a `FinishedSession` is what the last commit worker computes on the root page from the workers' child-page
roots and the deferred root-page terminals.  The mirror of `finish` (`Api/Finish.lean`) composes the mirror of the
work splitting (`Api/Split.lean`, T13.6) with the rule "a batch without writes is only advanced past, a batch with
writes is rebuilt with exactly its written operations"; the page walkers below are specification level (their own
theorems: `Props/C02_PageWalker.lean`, `C02_WalkReconUpdate.lean`).  Assumption on the state: the trie the session
starts from commits to the value hashes of the session's view (`hashKV hv kv`).
-/
namespace Nomt.C02
open Nomt Nomt.Api Nomt.Split Nomt.Dlt Nomt.Finish
variable {Node VH V : Type} [DecidableEq Node] [DecidableEq VH]

/-- **T2_finish_root — the reported root is the root of the updated key-value set**, whatever the mix of reads and
writes.  For every sorted view `kv` of `L`-bit keys (`L ≥ 6`) whose trie holds the value hashes `hashKV hv kv`, every
strictly ascending actuals list, 1…64 workers, any completion order, witness mode and rollback on or off: `finish`
succeeds, the operations that reach a page walker or the root pass are ALL operations of the compact list (no written
operation sits in a batch that is only advanced past), and the root is `nodeAt` of the hashes of
`kvApply kv (writes of the actuals)` — whether a write changes the value or not, whether the key exists or not. -/
theorem T2_finish_root (H : Hasher Node VH) (hs : H.Sound) (hv : V → VH) (L : Nat) (kv : KVL V)
    (hkl : ∀ x ∈ kv, x.1.length = L) (hks : KSorted kv)
    (P : Params) (h1 : 1 ≤ P.n) (h64 : P.n ≤ 64) (hL : 6 ≤ L) (hnsup : P.superseded = false)
    (hord : P.order.Perm (List.range P.n))
    (load : Key → Outcome Unit (Option V)) (viewV : Key → Option V) (hl : ∀ k, load k = .ok (viewV k))
    (hints : List Key) (a : Actuals V) (hal : ∀ x ∈ a, x.1.length = L) (has : ASorted a) :
    ∃ out, Finish.finish false H hv L P load hints (hashKV hv kv) a = .ok out ∧ out.applied = out.ops ∧
      out.root = nodeAt H L 0 (hashKV hv (kvApply kv (writesOf a))) := by
  obtain ⟨delta, hfin, _⟩ := finalizeStep_total hl P hints a
  obtain ⟨bss0, w, _, _, hok⟩ := finish_ok H hs hv L (hashKV hv kv) (hashKV_len hv L kv hkl) (hashKV_sorted hv kv hks)
    P h1 h64 hL a hal has load hints hnsup delta hfin hord
  refine ⟨_, hok, rfl, ?_⟩
  show nodeAt H L 0 (kvApply (hashKV hv kv) (hashW hv (writesOf a))) = _
  rw [hashKV_kvApply]

/-- **T2_finish_noop_root — a session whose writes are all no-ops reports the root it started from**: write-backs of
the value read (`ReadThenWrite(v, v)`), blind writes of the current value, deletes of absent keys, reads. -/
theorem T2_finish_noop_root (H : Hasher Node VH) (hs : H.Sound) (hv : V → VH) (L : Nat) (kv : KVL V)
    (hkl : ∀ x ∈ kv, x.1.length = L) (hks : KSorted kv)
    (P : Params) (h1 : 1 ≤ P.n) (h64 : P.n ≤ 64) (hL : 6 ≤ L) (hnsup : P.superseded = false)
    (hord : P.order.Perm (List.range P.n))
    (load : Key → Outcome Unit (Option V)) (viewV : Key → Option V) (hl : ∀ k, load k = .ok (viewV k))
    (hints : List Key) (a : Actuals V) (hal : ∀ x ∈ a, x.1.length = L) (has : ASorted a)
    (hnoop : ∀ kw ∈ writesOf a, kw.2 = kvGet kv kw.1) :
    ∃ out, Finish.finish false H hv L P load hints (hashKV hv kv) a = .ok out ∧
      out.root = nodeAt H L 0 (hashKV hv kv) := by
  obtain ⟨out, h1', _, h3⟩ := T2_finish_root H hs hv L kv hkl hks P h1 h64 hL hnsup hord load viewV hl hints a hal has
  exact ⟨out, h1', by rw [h3, kvApply_noop _ hks hnoop]⟩

/-! ### instances (`Api/FinishExample.lean`) -/
open Nomt.Finish.Ex

/-- non-vacuity of T2_finish_root: the mixed batch, 1 / 2 / 5 workers -/
example : ∀ n ∈ [1, 2, 5], ∃ out, Finish.finish false TH id 8 (P n true true) Finish.Ex.load [] (hashKV id Finish.Ex.view) mixed = .ok out ∧
    out.applied = out.ops ∧ out.root = nodeAt TH 8 0 (hashKV id (kvApply Finish.Ex.view (writesOf mixed))) := by
  intro n hn
  have h : 1 ≤ n ∧ n ≤ 64 := by
    simp only [List.mem_cons, List.mem_nil_iff, or_false] at hn
    rcases hn with rfl | rfl | rfl <;> omega
  exact T2_finish_root TH TH_sound id 8 Finish.Ex.view (by decide) (by unfold KSorted; decide) (P n true true) h.1 h.2 (by decide) rfl
    (List.Perm.refl _) Finish.Ex.load (kvGet Finish.Ex.view) (fun _ => rfl) _ mixed (by decide) (by decide)

/-- non-vacuity of T2_finish_noop_root: write-back, blind write-back, delete of an absent key, a read — the batches
WITH (no-op) writes are still rebuilt (`has_writes` looks at the kind, not at the value) and the root is unchanged -/
example : (∀ kw ∈ writesOf noops, kw.2 = kvGet Finish.Ex.view kw.1) ∧
    hwAdv (Finish.Ex.run false 1 false false Finish.Ex.view noops) = some ([[true, true, false]], [[(0, some 2), (2, some 1)]]) ∧
    rootOf (Finish.Ex.run false 1 false false Finish.Ex.view noops) = some (nodeAt TH 8 0 Finish.Ex.view) := by decide

end Nomt.C02
