import NomtModel.Store.WalkerGExample
/-!
# C13 — a commit worker's walker (parent page) over page sets with reconstructed pages on the way

`T13_walker_child_roots_partial` with `G.PSOK` (pages on the way of ANY origin, consistent leaf counters) in place of `PSOK`;
no panic site is left (see `Props/C02_WalkReconUpdate.lean`).
-/
namespace Nomt.C13
open Nomt Nomt.Walker Nomt.TriePos

variable {Node VH : Type} [DecidableEq Node] [DecidableEq VH] (H : Hasher Node VH)

/-- **T13_walker_child_roots over reconstructed pages**: a walker with parent page `P0` over a page set whose pages on the
way may be reconstructed ones (consistent counters, `G.PSOK`): it never panics — the counter guard of
`handle_elision_threshold` included —, concludes with `Output::ChildPageRoots`, every delivered `(position, node)` sits on the
bottom layer of `P0` and is `nodeAt S'` there, and every page handed out holds `nodeAt S'` at its meaningful slots — this
discharges the assumption of `T13_6_root_independent_of_workers` for workers that enter elided sub-tries. -/
theorem T13_walker_child_roots_reconstructed (hs : H.Sound) (ps : PageSet Node) (root : Node) (P0 : PageId)
    {S S' : List (Key × VH)} (hS : KeysOK S) (hS' : KeysOK S') {steps : List (Step VH)} (hso : ScriptOK S S' steps)
    (hps : G.PSOK ps steps) (hrep : Represents H ps root S) (hscope : InScope (some P0) steps) (inhibit : Bool) :
    ∃ w' roots pages, (Walker.startP root (some P0) inhibit).runM H ps steps = .ok w' ∧
      w'.conclude H = .ok (.childPageRoots roots pages) ∧
      (∀ e ∈ roots, e.2 = specNode H S' e.1.path ∧ e.1.path.length = 6 * (P0.length + 1)) ∧
      ∀ o ∈ pages, ∃ P pg d b, o = .updated P pg d b ∧ pg.nodes.length = 126 ∧
        ∀ q, q ≠ [] → q.length ≤ 256 → specPage q = P → MatR ps steps q → Mean S' q →
          pg.nodes.getD (specIndex q) H.term = specNode H S' q := by
  have hrepR := rep_matR H ps hS hso hrep
  have hDp : PathsIn (MatR ps steps) steps := by
    intro s hs' x hx hne
    have := G.pathsIn_of_psok ps hps s hs' x hx hne
    exact ⟨Or.inl this.1, Or.inl this.2⟩
  have hnd := G.final_log_nodup H ps hs (some P0) hS hS' hso hrepR hDp
  obtain ⟨w', hw', hinv⟩ := G.runInv_run H ps hs hS hS' hrepR (Or.inl (Or.inl rfl)) steps [] _ _
    (by simpa using hso) (by simpa using hps) (by simpa using hDp) (by simpa using hscope)
    (G.runInv_start H ps _ (some P0) root S S' steps inhibit) _ hnd (tw_compactUp_log_prefix H _ _ none)
  simp only [List.nil_append] at hinv
  obtain ⟨roots, pages, hc, hr, hpg⟩ := G.conclude_children_spec H ps hs hS hS' hso hrepR hinv hnd
  refine ⟨w', roots, pages, hw', hc, hr, ?_⟩
  intro o ho
  obtain ⟨P, pg, d, b, e, hl, hm, _⟩ := hpg o ho
  exact ⟨P, pg, d, b, e, hl, hm⟩

/-- non-vacuity: the two-page page set whose page `[0]` is a RECONSTRUCTED page with real counters
(`Store/WalkerGExample.lean`), parent page ROOT (`Ex2.run2r_ok`: the kernel evaluation of the same run) -/
example : ∃ w' roots pages, (Walker.startP Ex2.root2 (some []) false).runM TH Ex2.ps2r Ex2.steps2 = .ok w' ∧
      w'.conclude TH = .ok (.childPageRoots roots pages) ∧
      (∀ e ∈ roots, e.2 = specNode TH Ex2.S2 e.1.path ∧ e.1.path.length = 6 * (([] : PageId).length + 1)) ∧
      ∀ o ∈ pages, ∃ P pg d b, o = .updated P pg d b ∧ pg.nodes.length = 126 ∧
        ∀ q, q ≠ [] → q.length ≤ 256 → specPage q = P → MatR Ex2.ps2r Ex2.steps2 q → Mean Ex2.S2 q →
          pg.nodes.getD (specIndex q) TH.term = specNode TH Ex2.S2 q :=
  T13_walker_child_roots_reconstructed TH TH_sound Ex2.ps2r Ex2.root2 [] Ex2.keys2 Ex2.keys2 Ex2.script2
    Ex2.psok2r Ex2.rep2r Ex2.scope2 false

end Nomt.C13
