import NomtModel.Store.LeafUpdRun3
import NomtModel.Store.LeafUpdKV
import NomtModel.Store.LeafUpdSep
/-!
# C01 — the leaf stage of the B-tree update (`LeafUpdater`, `leaf_stage.rs::run_worker`)

Property theorems about the mirror `Store/LeafUpdModel.lean` of `beatree/ops/update/leaf_updater.rs` (every loop,
every panic site; tied to the real code line by line by `vharness leafupd` / `nomt_model leafupd`, hook H9).

Vocabulary: `DbOK KB db` — the leaves of the old tree left to right (ascending separators, every leaf ascending, keys at
least the leaf's separator and below the next one, cells ≤ `MAX_LEAF_VALUE_SIZE`, keys `< KB`); `ChOK KB lo cs` — the
ascending change list (keys in `[lo, KB)`, new cells ≤ `MAX_LEAF_VALUE_SIZE`); `SepOK sepf KB` — `separate(a, b)` for
`a < b < KB` does not panic and lies in `(a, b]` (`sepReal_ok`: the mirror of the real `separate`, `T16_separate_spec`);
`runWorker` — `LeafUpdater::new`, `reset_base` to the leaf covering the next key, `ingest` while in scope, `digest`
otherwise, `reset_base` to the next leaf on `NeedsMerge`, `digest` until `Finished`; `none` = a panic site was reached.
-/
namespace Nomt.C01
open Nomt Nomt.LeafUpd

variable {V : Type} [CellSize V]

/-- **T1.leaf_update_total** — under the guard the leaf stage reaches no panic site: no index out of range in
`find_key` / `keep_up_to` / `try_split_keep_chunk` / `extract_insert_from_keep_chunk` / `prepare_merge_ops`, no
`unwrap` on `None` (`separator_override.take()`, `base`, `cutoff`), the `assert!(target >= LEAF_MERGE_THRESHOLD)`
holds, `separate` is never called on equal keys, `new_node.n() - 1` does not underflow, no over-full leaf is handed to
`LeafBuilder`, and every loop terminates (the fuel of the mirrors is never the answer). -/
theorem T1_leaf_update_total (sepf : Nat → Nat → Option Nat) (KB : Nat) (hsep : SepOK sepf KB)
    (db : List (DbLeaf V)) (cs : List (Nat × Option (V × Bool))) (lo : Nat)
    (hdb : DbOK KB db) (hcs : ChOK KB lo cs) (hfirst : ∀ l, db.head? = some l → l.sep ≤ lo) :
    runWorker sepf db cs ≠ none := by
  obtain ⟨out, log, e, _⟩ := runWorker_spec sepf KB hsep db cs lo hdb hcs hfirst
  rw [e]; simp

/-- **T1.leaf_update_is_applyAll** — nothing lost, nothing duplicated, order preserved: the entries of the leaves of the
new tree (untouched old leaves and produced leaves, left to right) are exactly the old entries with the changes applied
one by one (`write1` = the update of an ascending list), and they are ascending. -/
theorem T1_leaf_update_is_applyAll (sepf : Nat → Nat → Option Nat) (KB : Nat) (hsep : SepOK sepf KB)
    (db : List (DbLeaf V)) (cs : List (Nat × Option (V × Bool))) (lo : Nat)
    (hdb : DbOK KB db) (hcs : ChOK KB lo cs) (hfirst : ∀ l, db.head? = some l → l.sep ≤ lo) :
    ∃ out log, runWorker sepf db cs = some (out, log) ∧ flatOut out = applyAll (flat db) cs ∧ Sorted (flatOut out) := by
  obtain ⟨out, log, e, h1, _, _⟩ := runWorker_spec sepf KB hsep db cs lo hdb hcs hfirst
  exact ⟨out, log, e, h1, by rw [h1]; exact applyAll_sorted hdb.sorted cs⟩

/-- **T1.leaf_update_is_kvApply** — with the real `separate` and 256-bit keys: the content of the new leaves, read as
an association list of the sequential model (`Api/KV.lean`: keys = the 256 key bits, value = the cell with its overflow
flag), is `kvApply` of the old content with the change list — the specification C01 is stated with. -/
theorem T1_leaf_update_is_kvApply (db : List (DbLeaf V)) (cs : List (Nat × Option (V × Bool))) (lo : Nat)
    (hdb : DbOK (2 ^ 256) db) (hcs : ChOK (2 ^ 256) lo cs) (hfirst : ∀ l, db.head? = some l → l.sep ≤ lo) :
    ∃ out log, runWorker sepReal db cs = some (out, log) ∧
      (flatOut out).map (toKV (encBits 256)) =
        kvApply ((flat db).map (toKV (encBits 256))) (cs.map (toW (encBits 256))) := by
  obtain ⟨out, log, e, h1, _, _⟩ := runWorker_spec sepReal (2 ^ 256) sepReal_ok db cs lo hdb hcs hfirst
  refine ⟨out, log, e, ?_⟩
  rw [h1]
  exact map_applyAll encBits_orderEmb cs hdb.sorted hdb.sizeOK.2 (ChOK.keys_lt hcs)

/-- **T1.leaf_sizes_bounded** — every leaf handed to `handle_new_leaf` during the whole stage is non-empty and its body
(`34·n + Σ cell lengths`) is at most `LEAF_NODE_BODY_SIZE` (so `LeafBuilder` is never over-full), and it is at least
`LEAF_MERGE_THRESHOLD = LEAF_NODE_BODY_SIZE / 2` unless it was handed the cutoff `None` (the rightmost leaf of the
tree, which may stay under-full); its separator is at most each of its keys and its keys are below the cutoff it was
handed. -/
theorem T1_leaf_sizes_bounded (sepf : Nat → Nat → Option Nat) (KB : Nat) (hsep : SepOK sepf KB)
    (db : List (DbLeaf V)) (cs : List (Nat × Option (V × Bool))) (lo : Nat)
    (hdb : DbOK KB db) (hcs : ChOK KB lo cs) (hfirst : ∀ l, db.head? = some l → l.sep ≤ lo) :
    ∃ out log, runWorker sepf db cs = some (out, log) ∧
      ∀ l, OutLeaf.new l ∈ out →
        l.ents ≠ [] ∧ bodyOf l.ents ≤ BODY ∧ (MERGE ≤ bodyOf l.ents ∨ l.cutoff = none) ∧
          (∀ e ∈ l.ents, l.sep ≤ e.key) ∧ (∀ c, l.cutoff = some c → ∀ e ∈ l.ents, e.key < c) := by
  obtain ⟨out, log, e, _, _, h3, _⟩ := runWorker_spec sepf KB hsep db cs lo hdb hcs hfirst
  exact ⟨out, log, e, h3⟩

/-- the produced leaves of the bulk split and of the split are even fuller: at least
`min(target, LEAF_NODE_BODY_SIZE - 34 - MAX_LEAF_VALUE_SIZE + 1)` — the bound the comment in
`consume_and_update_until` claims -/
theorem T1_try_build_leaves_rightsized (sepf : Nat → Nat → Option Nat) (KB : Nat) (hsep : SepOK sepf KB)
    (target : Nat) (h1 : MERGE ≤ target) (h2 : target ≤ BODY) (st : St V)
    (hwf : WF st.base st.ops) (hsz : SizeOK (den st.base st.ops)) (hsort : Sorted (den st.base st.ops))
    (hkb : KeysBelow KB (den st.base st.ops)) (hbig : BODY < bodyOf (den st.base st.ops))
    (hlo : ∀ e ∈ den st.base st.ops, separator st ≤ e.key) :
    ∃ st' leaves, tryBuildLeaves sepf st target = some (st', leaves) ∧
      leaves.flatMap (·.ents) ++ den st.base st'.ops = den st.base st.ops ∧
      bodyOf (den st.base st'.ops) < target ∧
      ∀ l ∈ leaves, bodyOf l.ents ≤ BODY ∧ (target ≤ bodyOf l.ents ∨ BODY - 34 - MAXV < bodyOf l.ents) := by
  obtain ⟨st', leaves, e, o⟩ := tryBuildLeaves_spec sepf KB hsep target h1 h2 st hwf hsz hsort hkb hbig hlo
  refine ⟨st', leaves, e, o.den_eq, o.below, ?_⟩
  intro l hl
  obtain ⟨_, a, b⟩ := o.sizes l hl
  have := BODY_eq
  have := MAXV_eq
  exact ⟨a, by rcases b with b | b; exact Or.inl b; exact Or.inr (by omega)⟩

/-- **T1.leaf_separators_chain** — over the whole stage: in the new tree (untouched old leaves and produced leaves, left
to right) every leaf's separator is at most each of its keys and all its keys are below the separator of the NEXT leaf
(`OutUpTo`): the separators handed to `handle_new_leaf` are correct bounds between neighbours, also across merges,
skipped leaves and leaves that disappear. -/
theorem T1_leaf_separators_chain (sepf : Nat → Nat → Option Nat) (KB : Nat) (hsep : SepOK sepf KB)
    (db : List (DbLeaf V)) (cs : List (Nat × Option (V × Bool))) (lo : Nat)
    (hdb : DbOK KB db) (hcs : ChOK KB lo cs) (hfirst : ∀ l, db.head? = some l → l.sep ≤ lo) :
    ∃ out log, runWorker sepf db cs = some (out, log) ∧ ∃ s, OutUpTo out s := by
  obtain ⟨out, log, e, _, _, _, h4⟩ := runWorker_spec sepf KB hsep db cs lo hdb hcs hfirst
  exact ⟨out, log, e, h4⟩

/-- **T1.leaf_separators_bound** — one `digest` on a state satisfying the updater's invariant: the separators handed
to `handle_new_leaf` form a chain starting at `separator()`: every leaf's separator is at most its first (every) key, all
its keys are below the separator of the next leaf, which is also the cutoff it is handed; on `Finished` the last leaf is
handed the updater's own cutoff (`SepChainEnd`), on `NeedsMerge` the chain ends at the new `separator()`, which bounds
the kept entries from below (`SepChain` + `Inv`); and every key is below the updater's cutoff. -/
theorem T1_leaf_separators_bound (sepf : Nat → Nat → Option Nat) (KB : Nat) (hsep : SepOK sepf KB) (st : St V)
    (hinv : Inv KB st) :
    ∃ st' leaves res, digest sepf st = some (st', leaves, res) ∧
      (res = .finished → SepChainEnd st.cutoff (separator st) leaves) ∧
      (∀ c, res = .needsMerge c → st.cutoff = some c ∧ SepChain (separator st) leaves (separator st') ∧
        ∀ e ∈ den st'.base st'.ops, separator st' ≤ e.key) ∧
      (∀ c, st.cutoff = some c → ∀ l ∈ leaves, ∀ e ∈ l.ents, e.key < c) ∧ Inv KB st' := by
  obtain ⟨st', leaves, res, e, o⟩ := digest_spec sepf KB hsep st hinv
  refine ⟨st', leaves, res, e, fun h => (o.fin h).2.2.2, ?_, ?_, o.inv⟩
  · intro c hc
    obtain ⟨a, _, _, _, b, _⟩ := o.merge c hc
    refine ⟨a, b, ?_⟩
    intro x hx
    exact o.inv.lo x (by simp [content, hx])
  · intro c hc l hl x hx
    apply hinv.hi c hc
    rw [← o.content_eq]
    apply List.mem_append_left
    exact List.mem_flatMap.2 ⟨l, hl, hx⟩

/-- **T1.ingest_is_write** — one `ingest(key, change)` on a state satisfying the invariant, for a key above everything
ingested so far and inside the updater's scope, turns the content the updater owns into `write1 content key change` and
keeps the invariant. -/
theorem T1_ingest_is_write (KB : Nat) (st : St V) (k : Nat) (ch : Option (V × Bool)) (hinv : Inv KB st)
    (hbelow : ∀ e ∈ den st.base st.ops, e.key < k) (hklo : separator st ≤ k)
    (hkhi : ∀ c, st.cutoff = some c → k < c) (hkKB : k < KB)
    (hch : ∀ v o, ch = some (v, o) → CellSize.size v ≤ MAXV) :
    content (ingest st k ch).1 = write1 (content st) k ch ∧ Inv KB (ingest st k ch).1 := by
  obtain ⟨a, _, b, _⟩ := ingest_spec KB st k ch hinv hbelow hklo hkhi hkKB hch
  exact ⟨a, b⟩

/-- the constants the model uses are the ones of the Rust sources (`Generated/Constants.lean`) and their relations:
`3 · (34 + MAX_LEAF_VALUE_SIZE) > LEAF_NODE_BODY_SIZE` (three maximal cells do not fit one leaf) and
`LEAF_NODE_BODY_SIZE - 34 - MAX_LEAF_VALUE_SIZE ≥ LEAF_MERGE_THRESHOLD` (a leaf that stops before a maximal cell is
still at least half full) -/
theorem T1_const_leaf_thresholds :
    BODY = Nomt.Gen.LEAF_NODE_BODY_SIZE ∧ MAXV = Nomt.Gen.MAX_LEAF_VALUE_SIZE ∧ MERGE = BODY / 2 ∧
      BULK_THRESHOLD = BODY * 9 / 5 ∧ BULK_TARGET = BODY * 3 / 4 ∧ MERGE ≤ BULK_TARGET ∧ BULK_TARGET ≤ BODY ∧
      BODY < 3 * (34 + MAXV) ∧ MERGE ≤ BODY - 34 - MAXV ∧ BULK_THRESHOLD / 2 ≤ BODY := by
  decide

/-! ## non-vacuity -/

/-- two leaves (the first holds an overflow cell), a change list that inserts in front, deletes the overflow value,
replaces a value and inserts enough into the second leaf to split it; values are their lengths -/
def exDb : List (DbLeaf Nat) :=
  [⟨0, [⟨10, 1000, false⟩, ⟨20, 44, true⟩, ⟨30, 1000, false⟩]⟩,
   ⟨40, [⟨40, 1300, false⟩, ⟨50, 1300, false⟩, ⟨60, 1300, false⟩]⟩]

def exCs : List (Nat × Option (Nat × Bool)) :=
  [(5, some (1200, false)), (20, none), (30, some (7, false)), (45, some (1300, false)), (70, some (100, true))]

example : DbOK (2 ^ 256) exDb ∧ ChOK (2 ^ 256) 0 exCs ∧ (∀ l, exDb.head? = some l → l.sep ≤ 0) := by
  refine ⟨⟨⟨?_, ?_, ?_, ?_, ?_⟩, ⟨?_, ?_, ?_, ?_, ?_⟩⟩, ?_, ?_⟩
  · simp only [Sorted]; decide
  · simp only [SizeOK, Entry.size, CellSize.size, MAXV, Nomt.Gen.MAX_LEAF_VALUE_SIZE]; decide
  · simp only [KeysBelow]; decide
  · decide
  · intro c hc; cases hc; decide
  · simp only [Sorted]; decide
  · simp only [SizeOK, Entry.size, CellSize.size, MAXV, Nomt.Gen.MAX_LEAF_VALUE_SIZE]; decide
  · simp only [KeysBelow]; decide
  · decide
  · intro c hc; cases hc
  · simp only [exCs, ChOK, CellSize.size, MAXV, Nomt.Gen.MAX_LEAF_VALUE_SIZE]
    refine ⟨by decide, by decide, ?_, by decide, by decide, ?_, by decide, by decide, ?_, by decide, by decide, ?_,
      by decide, by decide, ?_, trivial⟩
    all_goals (intro v o h; cases h <;> decide)
  · intro l hl; simp [exDb] at hl; subst hl; exact Nat.le_refl _

/-- the same instance evaluated with the simplest admissible separator function (`separate(a, b) := b`): the first
leaf is rewritten in one piece, the second one splits in two (the right part stays under-full: it is the rightmost
leaf), the overflow cell under key 20 is reported -/
example : SepOK (fun _ b => some b) (2 ^ 256) ∧
    runWorker (fun _ b => some b) exDb exCs =
      some ([.new ⟨0, [⟨5, 1200, false⟩, ⟨10, 1000, false⟩, ⟨30, 7, false⟩], some 40⟩,
             .new ⟨40, [⟨40, 1300, false⟩, ⟨45, 1300, false⟩, ⟨50, 1300, false⟩], some 60⟩,
             .new ⟨60, [⟨60, 1300, false⟩, ⟨70, 100, true⟩], none⟩], [44]) := by
  refine ⟨fun a b hab _ => ⟨b, rfl, hab, Nat.le_refl _⟩, ?_⟩
  decide +kernel

end Nomt.C01
