import NomtModel.Api.Poison
import NomtModel.Store.Crash3
import NomtModel.Store.CrashLog
/-!
# C14 — A failing commit is reported, poisons the handle and stays atomic
-/
namespace Nomt.C14
open Nomt Nomt.Api

section api
variable {Node VH : Type} [DecidableEq Node] [DecidableEq VH]

/-- T14.1: a commit hit by an I/O failure returns an error — never success — and poisons the handle. -/
theorem T14_1_fault_reported_and_poisons (p : PSt Node VH) (fid : Nat) (hp : p.poisoned = false)
    (hok : (commitFin p.st fid).1 = .ok) :
    (commitFinP p fid true).1 = .err ∧ (commitFinP p fid true).2.poisoned = true := by
  simp [commitFinP, hp, hok]

/-- T14.2: a poisoned handle refuses every further commit and nothing changes. -/
theorem T14_2_poisoned_refuses (p : PSt Node VH) (fid : Nat) (fault : Bool) (hp : p.poisoned = true) :
    commitFinP p fid fault = (.err, p) := by
  simp [commitFinP, hp]

/-- T14.3: without a fault the poison layer is transparent. -/
theorem T14_3_no_fault_transparent (p : PSt Node VH) (fid : Nat) (hp : p.poisoned = false) :
    (commitFinP p fid false).1 = (commitFin p.st fid).1 ∧ (commitFinP p fid false).2.st = (commitFin p.st fid).2 ∧
    (commitFinP p fid false).2.poisoned = false := by
  simp [commitFinP, hp]
end api

section disk
open NomtDisk
variable {Content MetaRec WalRec LogRec TreeAbs : Type} (P : Params Content MetaRec WalRec TreeAbs)

/-- T14.4 **atomicity under failure**: if any I/O operation of a sync fails, what has been issued is a
prefix `p` of the accepted trace, and whatever subset of its un-synced effects reached the disk, reopening
shows exactly the pre- or the post-state (C04's theorem applied to the prefix). -/
theorem T14_4_failed_sync_atomic
    (d0 : Disk Content MetaRec WalRec LogRec)
    (hinert : ∀ b, htView P d0 b = d0.pages File.fHt b)
    (pre post : List (Ev Content MetaRec WalRec LogRec)) (m1 : MetaRec) (w1 : WalRec)
    (hpre : ∀ ev ∈ pre, EvPre P d0 ev)
    (hflushed : (NomtDisk.run ⟨d0, []⟩ pre).vol = [])
    (hwal : (NomtDisk.run ⟨d0, []⟩ pre).dur.wal = some w1)
    (hseq : P.walSeqn w1 = P.seqn m1)
    (hpost : PostOK P w1 ⟨applyEff (NomtDisk.run ⟨d0, []⟩ pre).dur (.setMeta m1), []⟩ post)
    (p : List (Ev Content MetaRec WalRec LogRec))
    (hp : p <+: pre ++ ([Ev.eff (.setMeta m1), Ev.fsync File.fMeta] ++ post))
    (img : Disk Content MetaRec WalRec LogRec) (himg : IsImage (NomtDisk.run ⟨d0, []⟩ p) img) :
    absOf P img = absOf P d0 ∨ absOf P img = absNew P (NomtDisk.run ⟨d0, []⟩ pre).dur m1 w1 :=
  (sync_crash_atomic P d0 hinert pre post m1 w1 hpre hflushed hwal hseq hpost).1 p hp img himg

/-- T14.4b the same including the rollback log (T4.2 applied to the prefix): tree, table view and live rollback records
together are exactly the pre- or exactly the post-state. -/
theorem T14_4b_failed_sync_atomic_with_rollback_log (L : LogParams MetaRec LogRec)
    (d0 : Disk Content MetaRec WalRec LogRec)
    (hinert : ∀ b, htView P d0 b = d0.pages File.fHt b)
    (pre post : List (Ev Content MetaRec WalRec LogRec)) (m1 : MetaRec) (w1 : WalRec)
    (hpre : ∀ ev ∈ pre, EvPreL P L d0 ev)
    (hflushed : (NomtDisk.run ⟨d0, []⟩ pre).vol = [])
    (hwal : (NomtDisk.run ⟨d0, []⟩ pre).dur.wal = some w1)
    (hseq : P.walSeqn w1 = P.seqn m1)
    (hpost : PostOKL P L (NomtDisk.run ⟨d0, []⟩ pre).dur m1 w1
      ⟨applyEff (NomtDisk.run ⟨d0, []⟩ pre).dur (.setMeta m1), []⟩ post)
    (p : List (Ev Content MetaRec WalRec LogRec))
    (hp : p <+: pre ++ ([Ev.eff (.setMeta m1), Ev.fsync File.fMeta] ++ post))
    (img : Disk Content MetaRec WalRec LogRec) (himg : IsImage (NomtDisk.run ⟨d0, []⟩ p) img) :
    absOfL P L img = absOfL P L d0 ∨
    absOfL P L img = (absNew P (NomtDisk.run ⟨d0, []⟩ pre).dur m1 w1,
      absLog L m1 (NomtDisk.run ⟨d0, []⟩ pre).dur.log) :=
  (sync_crash_atomic_log P L d0 hinert pre post m1 w1 hpre hflushed hwal hseq hpost).1 p hp img himg
end disk

end Nomt.C14
