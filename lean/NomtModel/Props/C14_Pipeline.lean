import NomtModel.Api.PipelineExamples
import NomtModel.Api.PipelineTrace
import NomtModel.Store.CrashClassify
/-!
# C14 — the commit / rollback pipelines of `lib.rs` + `store/mod.rs` + `store/sync.rs` with a failure point at every step

`Api/Pipeline.lean` mirrors the five mutating API calls as the sequence of steps the code performs, in the code's order;
`Env.F` is the set of failing I/O labels (one label = a fault injected once, an upward-closed set = a persistent fault, any
set = every interleaving of the concurrent `begin_sync` tasks), `Env.W` the I/O work of the particular commit (any lists).
The theorems hold for every call kind (`Call`), every `Env` with the code as it is (`E.Q = {}`), every state of `Api.Exec`.
-/
namespace Nomt.C14
open Nomt Nomt.Api Nomt.Api.Pipe

section pipeline
variable {Node VH : Type} [DecidableEq Node] [DecidableEq VH] (H : Hasher Node VH)

/-- T14 **a fault is reported and poisons**: if any I/O operation a call issues fails — whichever of the five calls, at
whichever step, once or persistently, whatever else fails with it — the call returns `Err` and leaves the handle poisoned.
(I/O is issued only after the changeset was accepted: a refused call issues none.) -/
theorem T14_fault_reports_and_poisons (E : Env) (hQ : E.Q = {}) (p : PSt Node VH) (c : Call)
    (hfail : noFail (runCall H E p c).trace = false) :
    (runCall H E p c).res = .err ∧ (runCall H E p c).st.poisoned = true := by
  cases hp : p.poisoned
  · -- un-poisoned handle
    by_cases hc : (∀ n, c ≠ .rollback n) ∨ E.finishOk = true
    · exact (commit_shape H E hQ p c hp hc).fault_err H hfail
    · -- a rollback whose `finish` fails issues nothing
      have hfin : E.finishOk = false := by
        cases h : E.finishOk
        · rfl
        · exact absurd (.inr h) hc
      cases c with
      | rollback n =>
        have := (rollback_finish_fails H E hfin p n).1
        simp only [runCall] at hfail; rw [this] at hfail; cases hfail
      | commit fid => exact absurd (.inl (by intro n h; cases h)) hc
      | tryCommit fid => exact absurd (.inl (by intro n h; cases h)) hc
      | ocommit oid => exact absurd (.inl (by intro n h; cases h)) hc
      | otryCommit oid => exact absurd (.inl (by intro n h; cases h)) hc
  · -- a poisoned handle issues nothing
    have hq : E.Q.rollbackPoisonLate = false := by rw [hQ]
    by_cases h0 : c = .rollback 0
    · subst h0; simp [runCall, rollbackP] at hfail
    · rw [(poisoned_commit H E hq p c hp h0).2.2.1] at hfail; cases hfail


/-- non-vacuity: a WAL write failing once during `FinishedSession::commit`; a rollback-segment append failing during
`Overlay::commit`; a persistent failure from the hash-table fsync on during `rollback` -/
example : noFail (runCall Ex.HN (Ex.once .walWrite) Ex.p0 (.commit 1)).trace = false ∧
    (runCall Ex.HN (Ex.once .walWrite) Ex.p0 (.commit 1)).res = .err ∧
    (runCall Ex.HN (Ex.once .walWrite) Ex.p0 (.commit 1)).st.poisoned = true := by decide
example : noFail (runCall Ex.HN (Ex.once .segPayload) Ex.p0 (.ocommit 10)).trace = false ∧
    (runCall Ex.HN (Ex.once .segPayload) Ex.p0 (.ocommit 10)).res = .err := by decide
example : noFail (runCall Ex.HN { F := fun a => a == .htFsync || a == .walTruncate } Ex.p0 (.rollback 1)).trace = false ∧
    (runCall Ex.HN { F := fun a => a == .htFsync || a == .walTruncate } Ex.p0 (.rollback 1)).st.poisoned = true := by decide

/-- T14 **no `Ok` after a failed step**: a call that returns `Ok` on a healthy handle issued no failing operation, leaves the
handle un-poisoned and the disk holding exactly the state in memory (nothing pending, nothing only in the WAL). -/
theorem T14_ok_means_nothing_failed (E : Env) (hQ : E.Q = {}) (hfin : E.finishOk = true) (s : St Node VH) (c : Call)
    (hok : (runCall H E (PSt.ofSt s) c).res = .ok) :
    noFail (runCall H E (PSt.ofSt s) c).trace = true ∧
    (specCall H s c).1 = .ok ∧ (runCall H E (PSt.ofSt s) c).st = PSt.ofSt (specCall H s c).2 := by
  have h := (Shape.durable H (commit_shape H E hQ (PSt.ofSt s) c rfl (.inr hfin)) (healthy_ofSt s)).2.2.2.2.1 hok
  exact ⟨h.2.1, h.1, h.2.2⟩

/-- T14 **a poisoned handle refuses everything**: each of the five calls (`rollback(0)`, the no-op `Ok`, aside) returns without `Ok`
(a non-blocking commit may hand the changeset back while sessions are alive), performs no step with an effect, issues nothing;
disk, poison flag, values, root, rollback log, sequence number, marker and every `committed` flag are unchanged — only the consumed
handle is gone.  (`E.Q = {}`: the code as repaired for F21; before, `rollback` was the exception — counterexample below.) -/
theorem T14_poisoned_refuses_everything (E : Env) (hQ : E.Q = {}) (p : PSt Node VH) (c : Call) (hp : p.poisoned = true)
    (hc : c ≠ .rollback 0) :
    (runCall H E p c).res ≠ .ok ∧ noEffect (runCall H E p c).trace = true ∧ noFail (runCall H E p c).trace = true ∧
    (runCall H E p c).st.poisoned = true ∧ (runCall H E p c).st.disk = p.disk ∧
    obs (runCall H E p c).st.mem = obs p.mem ∧
    (∀ x ∈ (runCall H E p c).st.mem.ovs, x.committed = true → ∃ y ∈ p.mem.ovs, y.id = x.id ∧ y.committed = true) ∧
    ((runCall H E p c).res = .busy → (runCall H E p c).st = p) := by
  obtain ⟨h1, h2, h3, _, h5, h6, h7, h8⟩ := poisoned_commit H E (by rw [hQ]) p c hp hc
  exact ⟨h1, h2, h3, h5, h6, h7.obs, h7.committed, h8⟩

/-- T14 **`rollback` on a poisoned handle** (full strength since the repair of F21): `Err` for `n > 0`, the poison check is the only
step after the guard, and NOTHING changes — the whole state, the in-memory rollback log included, is the state before the call;
`rollback(0)` stays the no-op `Ok`. -/
theorem T14_poisoned_rollback_refused (E : Env) (hQ : E.Q = {}) (p : PSt Node VH) (n : Nat) (hp : p.poisoned = true) :
    (runCall H E p (.rollback n)).st = p ∧
    (n ≠ 0 → (runCall H E p (.rollback n)).res = .err ∧
             (runCall H E p (.rollback n)).trace = [.guardWrite, .poisonCheck false]) ∧
    (n = 0 → (runCall H E p (.rollback n)).res = .ok ∧ (runCall H E p (.rollback n)).trace = []) := by
  by_cases hn : n = 0
  · subst hn; simp [runCall, rollbackP]
  · simp only [runCall]
    rw [poisoned_rollback H E (by rw [hQ]) p n hp hn]
    simp [hn]

example : (runCall Ex.HN {} Ex.pPoisoned (.commit 1)).res = .err ∧
    (runCall Ex.HN {} Ex.pPoisoned (.otryCommit 10)).res = .err ∧
    (runCall Ex.HN {} Ex.pPoisoned (.rollback 1)).res = .err ∧
    (runCall Ex.HN {} Ex.pPoisoned (.rollback 1)).st.mem.log = Ex.pPoisoned.mem.log ∧ Ex.pPoisoned.mem.log.length = 1 := by decide

/-- **F21, the order before the repair** (`rollbackPoisonLate`: the poison flag was looked at only by the inner commit, after
`Rollback::truncate(n)`): `rollback(1)` on a poisoned handle returned `Err` but had emptied the in-memory rollback log (on the real
code the session run in between could also panic in a merkle worker, the in-memory root being that of a rejected changeset) -/
example : Ex.pPoisoned.mem.log.length = 1 ∧
    (runCall Ex.HN { Q := { rollbackPoisonLate := true } } Ex.pPoisoned (.rollback 1)).res = .err ∧
    (runCall Ex.HN { Q := { rollbackPoisonLate := true } } Ex.pPoisoned (.rollback 1)).st.mem.log = [] ∧
    (runCall Ex.HN { Q := { rollbackPoisonLate := true } } Ex.pPoisoned (.rollback 1)).trace =
      [.guardWrite, .rbTruncate, .sessionFinish true, .poisonCheck false] := by decide

/-- before the repair the general statement about `rollback` on a poisoned handle was only this: everything unchanged EXCEPT that the
in-memory log may be shorter by `n` -/
theorem T14_poisoned_rollback_before_repair (E : Env) (hq : E.Q.rollbackPoisonLate = true) (p : PSt Node VH) (n : Nat)
    (hp : p.poisoned = true) (hn : n ≠ 0) :
    (runCall H E p (.rollback n)).res = .err ∧ noFail (runCall H E p (.rollback n)).trace = true ∧
    (runCall H E p (.rollback n)).st.poisoned = true ∧ (runCall H E p (.rollback n)).st.disk = p.disk ∧
    ((runCall H E p (.rollback n)).st.mem = p.mem ∨
     (runCall H E p (.rollback n)).st.mem = { p.mem with log := p.mem.log.drop n }) := by
  obtain ⟨h1, h2, _, h4, h5, h6⟩ := poisoned_rollback_late H E hq p n hp hn
  refine ⟨h1, h2, h4, h5, ?_⟩
  rcases h6 with h | ⟨_, _, h⟩
  · exact .inl h
  · exact .inr h

/-- T14 **the disk after a faulted call is the state before or after it, never a mixture**, and which one is decided by
the position of the failing operation: a failure while appending the rollback delta, in a pre-meta task or of the meta write
leaves the **old** state (nothing pending); a failed meta fsync leaves the old state durable and the **new** one written
but volatile; a failure after `Meta::write` returned leaves the **new** state; a call that returns `Ok` leaves the new state
and nothing pending; a refused call leaves the disk alone.  `post` is the state of the `Api.Exec` step.  The WAL is never
truncated with the table incomplete (`corrupt = false`). -/
theorem T14_fault_durable_pre_or_post (E : Env) (hQ : E.Q = {}) (s : St Node VH) (c : Call)
    (hc : (∀ n, c ≠ .rollback n) ∨ E.finishOk = true) :
    let out := runCall H E (PSt.ofSt s) c
    let pre := durOf s
    let post := durOf (specCall H s c).2
    out.st.disk.corrupt = false ∧
    ((failedAt .rbAppend out.trace || failedAt .preMeta out.trace || failedAt .metaWrite out.trace) = true →
      out.st.disk.synced = pre ∧ out.st.disk.pending = none) ∧
    (failedAt .metaFsync out.trace = true → out.st.disk.synced = pre ∧ out.st.disk.pending = some post) ∧
    (failedAt .postMeta out.trace = true → out.st.disk.synced = post ∧ out.st.disk.pending = none) ∧
    (out.res = .ok → out.st.disk.synced = post ∧ out.st.disk.pending = none ∧ out.st.disk.tableInWal = false) ∧
    (out.res ≠ .ok → noFail out.trace = true → out.st.disk.synced = pre ∧ out.st.disk.pending = none) ∧
    (∀ d ∈ out.st.disk.images, d = pre ∨ d = post) := by
  intro out pre post
  have hd := Shape.durable H (commit_shape H E hQ (PSt.ofSt s) c rfl hc) (healthy_ofSt s)
  obtain ⟨h0, h1, h2, h3, h4, h5⟩ := hd
  have e1 : (failedAt .rbAppend out.trace || failedAt .preMeta out.trace || failedAt .metaWrite out.trace) = true →
      out.st.disk.synced = pre ∧ out.st.disk.pending = none := by
    intro hf; have := h1 hf; exact ⟨by rw [this]; rfl, by rw [this]; rfl⟩
  have e2 : failedAt .metaFsync out.trace = true → out.st.disk.synced = pre ∧ out.st.disk.pending = some post := by
    intro hf; have := (h2 hf).2; exact ⟨by rw [this]; rfl, by rw [this]; rfl⟩
  have e3 : failedAt .postMeta out.trace = true → out.st.disk.synced = post ∧ out.st.disk.pending = none :=
    fun hf => (h3 hf).2
  have e4 : out.res = .ok → out.st.disk.synced = post ∧ out.st.disk.pending = none ∧ out.st.disk.tableInWal = false := by
    intro hok; have := (h4 hok).2.2; exact ⟨by rw [this]; rfl, by rw [this]; rfl, by rw [this]; rfl⟩
  have e5 : out.res ≠ .ok → noFail out.trace = true → out.st.disk.synced = pre ∧ out.st.disk.pending = none := by
    intro hne hnf; have := (h5 hne hnf).1; exact ⟨by rw [this]; rfl, by rw [this]; rfl⟩
  refine ⟨h0, e1, e2, e3, e4, e5, ?_⟩
  -- every case leaves only `pre` / `post` among the images
  have himg : ∀ a b, out.st.disk.synced = a → out.st.disk.pending = b → (a = pre ∨ a = post) →
      (∀ x, b = some x → x = pre ∨ x = post) → ∀ d ∈ out.st.disk.images, d = pre ∨ d = post := by
    intro a b ha hb h1 h2 d hdm
    simp only [DiskSt.images, List.mem_cons, Option.mem_toList] at hdm
    rcases hdm with rfl | hdm
    · rw [ha]; exact h1
    · exact h2 d (by rw [← hb]; exact hdm)
  cases hn : noFail out.trace
  · have hall := noFail_eq_not_failedAt out.trace
    rw [hn] at hall
    by_cases g1 : (failedAt .rbAppend out.trace || failedAt .preMeta out.trace || failedAt .metaWrite out.trace) = true
    · exact himg _ _ (e1 g1).1 (e1 g1).2 (.inl rfl) (fun x hx => by cases hx)
    · by_cases g2 : failedAt .metaFsync out.trace = true
      · exact himg _ _ (e2 g2).1 (e2 g2).2 (.inl rfl) (fun x hx => by cases hx; exact .inr rfl)
      · by_cases g3 : failedAt .postMeta out.trace = true
        · exact himg _ _ (e3 g3).1 (e3 g3).2 (.inr rfl) (fun x hx => by cases hx)
        · simp only [Bool.not_eq_true] at g1 g2 g3
          rw [g1, g2, g3] at hall
          cases hall
  · by_cases hok : out.res = .ok
    · exact himg _ _ (e4 hok).1 (e4 hok).2.1 (.inr rfl) (fun x hx => by cases hx)
    · exact himg _ _ (e5 hok hn).1 (e5 hok hn).2 (.inl rfl) (fun x hx => by cases hx)

/-- non-vacuity: the three cuts of one commit — a failed `ln` fsync leaves the old sequence number on disk, a failed meta
fsync leaves old durable + new pending, a failed WAL truncation leaves the new one -/
example : (runCall Ex.HN (Ex.once .lnFsync) Ex.p0 (.commit 1)).st.disk.synced.seqn = 1 ∧
    (runCall Ex.HN (Ex.once .lnFsync) Ex.p0 (.commit 1)).st.disk.pending.isNone = true ∧
    (runCall Ex.HN (Ex.once .metaFsync) Ex.p0 (.commit 1)).st.disk.synced.seqn = 1 ∧
    ((runCall Ex.HN (Ex.once .metaFsync) Ex.p0 (.commit 1)).st.disk.pending.map (·.seqn)) = some 2 ∧
    (runCall Ex.HN (Ex.once .walTruncate) Ex.p0 (.commit 1)).st.disk.synced.seqn = 2 ∧
    (runCall Ex.HN (Ex.once .walTruncate) Ex.p0 (.commit 1)).st.poisoned = true := by decide

/-- T14 **without a fault each pipeline is the `Api.Exec` step** (so every theorem of C01–C12 about `Api.Exec` speaks about the
pipelines): same result, and the handle afterwards is a fresh handle on the specification's new state. -/
theorem T14_no_fault_refines_exec (E : Env) (hQ : E.Q = {}) (hF : ∀ a, E.F a = false) (hl : E.rbLockFree = true)
    (hfin : E.finishOk = true) (s : St Node VH) (c : Call) :
    (runCall H E (PSt.ofSt s) c).res = (specCall H s c).1 ∧
    (runCall H E (PSt.ofSt s) c).st = PSt.ofSt (specCall H s c).2 :=
  Shape.clean H (commit_shape H E hQ (PSt.ofSt s) c rfl (.inr hfin)) hF hl

example : (runCall Ex.HN {} Ex.p0 (.commit 1)).res = .ok ∧ (runCall Ex.HN {} Ex.p0 (.commit 2)).res = .err ∧
    (runCall Ex.HN {} Ex.pBusy (.tryCommit 1)).res = .busy ∧ (runCall Ex.HN {} Ex.p0 (.ocommit 11)).res = .err ∧
    (runCall Ex.HN {} Ex.p0 (.rollback 1)).res = .ok := by decide

/-- reopening a healthy handle is `Api.reopen` -/
theorem T14_reopen_healthy (s : St Node VH) : reopenP (PSt.ofSt s) = some (PSt.ofSt (reopen s)) := by
  simp [reopenP, PSt.ofSt, DiskSt.procImage, durOf]

/-- T14 the same by `Pos.cut` — the function the disk-level theorem below is stated with: a failure at `pos` leaves the disk
component of the pipeline in the cut of `pos`. -/
theorem T14_fault_cut_of_position (E : Env) (hQ : E.Q = {}) (s : St Node VH) (c : Call)
    (hc : (∀ n, c ≠ .rollback n) ∨ E.finishOk = true) (pos : Pos)
    (hf : failedAt pos (runCall H E (PSt.ofSt s) c).trace = true) :
    cutHolds (durOf s) (durOf (specCall H s c).2) (runCall H E (PSt.ofSt s) c).st.disk pos.cut := by
  obtain ⟨_, e1, e2, e3, _⟩ := T14_fault_durable_pre_or_post H E hQ s c hc
  cases pos with
  | rbAppend => exact e1 (by simp [hf])
  | preMeta => exact e1 (by simp [hf])
  | metaWrite => exact e1 (by simp [hf])
  | metaFsync => exact e2 hf
  | postMeta => exact e3 hf

/-- T14 **what reopening shows after any call** (no power loss): the directory opens (it is never corrupt) on a clean handle
whose committed state is the state before or the state after the call — the `Api.Exec` step's — and it is the state after
as soon as the meta page was written (even if its fsync failed). -/
theorem T14_reopen_after_call (E : Env) (hQ : E.Q = {}) (s : St Node VH) (c : Call)
    (hc : (∀ n, c ≠ .rollback n) ∨ E.finishOk = true) :
    ∃ q, reopenP (runCall H E (PSt.ofSt s) c).st = some q ∧ Healthy q ∧
      (durOf q.mem = durOf s ∨ durOf q.mem = durOf (specCall H s c).2) ∧
      ((failedAt .metaFsync (runCall H E (PSt.ofSt s) c).trace || failedAt .postMeta (runCall H E (PSt.ofSt s) c).trace) = true →
        durOf q.mem = durOf (specCall H s c).2) := by
  obtain ⟨h0, _, e2, e3, _, _, himg⟩ := T14_fault_durable_pre_or_post H E hQ s c hc
  generalize runCall H E (PSt.ofSt s) c = out at h0 e2 e3 himg ⊢
  refine ⟨PSt.ofSt (reopen { out.st.mem with kv := out.st.disk.procImage.kv, root := out.st.disk.procImage.root,
                                             log := out.st.disk.procImage.log, seqn := out.st.disk.procImage.seqn }),
    by simp [reopenP, h0], healthy_ofSt _, ?_, ?_⟩
  · have : out.st.disk.procImage ∈ out.st.disk.images := by
      simp only [DiskSt.procImage, DiskSt.images]
      cases out.st.disk.pending <;> simp
    rcases himg _ this with h | h
    · left; rw [← h]; rfl
    · right; rw [← h]; rfl
  · intro hf
    rcases Bool.or_eq_true _ _ ▸ hf with hf | hf
    · have := e2 hf
      show durOf (reopen _) = _
      simp [reopen, durOf, DiskSt.procImage, this.2]
    · have := e3 hf
      show durOf (reopen _) = _
      simp [reopen, durOf, DiskSt.procImage, this.2, this.1]

/-- T14 **every I/O operation is issued where the label ↦ step mapping says**: in every trace of every call — any fault set, any
state — each I/O step sits at the position `Io.pos` names for its label (`Io.pos` is what the driver uses to read a REAL label
sequence: order check `conforms`, work `workOf`); the work read off any observed label sequence qualifies. -/
theorem T14_trace_positions (E : Env) (ls : List Io) (hW : E.W = workOf ls) (p : PSt Node VH) (c : Call) :
    positionsOk (runCall H E p c).trace = true :=
  runCall_positionsOk H E (hW ▸ workOf_wf ls) p c

/-- non-vacuity: the label sequences the model itself issues are accepted by the order check the driver applies to real traces,
and re-reading the work off them gives the work back -/
example : conforms (ioLabels (runCall Ex.HN {} Ex.p0 (.commit 1)).trace) = true ∧
    conforms (ioLabels (runCall Ex.HN {} Ex.p0 (.rollback 1)).trace) = true ∧
    (workOf (ioLabels (runCall Ex.HN {} Ex.p0 (.ocommit 10)).trace)).seg = ({} : IoWork).seg ∧
    -- a real order the pipeline cannot issue: the meta page before the WAL fsync
    conforms [.walSetLen, .walWrite, .metaWrite, .walFsync, .metaFsync] = false := by decide

/-! ### the theorems are sharp: one line of the code changed back / changed, and they fail (kernel-checked) -/

/-- **F8** (pre-repair `rollback.commit(delta)?`): the append of the rollback delta fails, the call returns `Err` — with the
in-memory root already advanced to the rejected changeset's and the handle NOT poisoned -/
example :
    let E : Env := { F := fun a => a == .segPayload, Q := { rbErrNoPoison := true } }
    noFail (runCall Ex.HN E Ex.p0 (.commit 1)).trace = false ∧ (runCall Ex.HN E Ex.p0 (.commit 1)).res = .err ∧
    (runCall Ex.HN E Ex.p0 (.commit 1)).st.poisoned = false ∧ (runCall Ex.HN E Ex.p0 (.commit 1)).st.mem.root = 8 ∧
    (runCall Ex.HN E Ex.p0 (.commit 1)).st.disk.synced.root = 7 := by decide

/-- **F2** (pre-repair `write_ht`, completion results ignored): a hash-table page write fails, the sync carries on — table fsync,
WAL truncation — and the call returns `Ok` on an un-poisoned handle; the WAL is gone with the table incomplete: the disk holds
neither the old nor the new state -/
example :
    let E : Env := { F := fun a => a == .htWrite, Q := { htResultIgnored := true } }
    noFail (runCall Ex.HN E Ex.p0 (.commit 1)).trace = false ∧ (runCall Ex.HN E Ex.p0 (.commit 1)).res = .ok ∧
    (runCall Ex.HN E Ex.p0 (.commit 1)).st.poisoned = false ∧ (runCall Ex.HN E Ex.p0 (.commit 1)).st.disk.corrupt = true ∧
    (reopenP (runCall Ex.HN E Ex.p0 (.commit 1)).st).isNone = true := by decide

/-- **seeded `bbn_result.or(ln_result)?`**: the fsync of exactly one of the two beatree files fails and is swallowed — `Ok`, new
meta durable; only when both fail is the error seen -/
example :
    let E1 : Env := { F := fun a => a == .bbnFsync, Q := { fsyncResultsOr := true } }
    let E2 : Env := { F := fun a => a == .lnFsync, Q := { fsyncResultsOr := true } }
    let E3 : Env := { F := fun a => a == .lnFsync || a == .bbnFsync, Q := { fsyncResultsOr := true } }
    noFail (runCall Ex.HN E1 Ex.p0 (.commit 1)).trace = false ∧ (runCall Ex.HN E1 Ex.p0 (.commit 1)).res = .ok ∧
    noFail (runCall Ex.HN E2 Ex.p0 (.ocommit 10)).trace = false ∧ (runCall Ex.HN E2 Ex.p0 (.ocommit 10)).res = .ok ∧
    (runCall Ex.HN E2 Ex.p0 (.ocommit 10)).st.disk.synced.seqn = 2 ∧
    (runCall Ex.HN E3 Ex.p0 (.commit 1)).res = .err := by decide

/-- **seeded: the result of `rollback.wait_post_meta()` assigned over the result of `bitbox_sync.post_meta()`**: a failed
hash-table write (or table fsync, or WAL truncation) is swallowed whenever rollback is enabled — `Ok`, not poisoned, the table
pages exist in the WAL only, which the next sync overwrites -/
example :
    let E : Env := { F := fun a => a == .htFsync, Q := { postMetaOverwritten := true } }
    noFail (runCall Ex.HN E Ex.p0 (.commit 1)).trace = false ∧ (runCall Ex.HN E Ex.p0 (.commit 1)).res = .ok ∧
    (runCall Ex.HN E Ex.p0 (.commit 1)).st.poisoned = false ∧
    (runCall Ex.HN E Ex.p0 (.commit 1)).st.disk.tableInWal = true := by decide

/-- observation (kernel-checked): `Nomt::rollback` whose `sess.finish(actuals)?` fails (a read error) returns `Err` WITHOUT
poison after `Rollback::truncate(n)` has popped the in-memory log (and set `pending_truncate`): the handle stays usable with a
rollback log that no longer matches the committed state -/
example :
    let E : Env := { finishOk := false }
    (runCall Ex.HN E Ex.p0 (.rollback 1)).res = .err ∧ (runCall Ex.HN E Ex.p0 (.rollback 1)).st.poisoned = false ∧
    (runCall Ex.HN E Ex.p0 (.rollback 1)).st.mem.log = [] ∧ Ex.p0.mem.log.length = 1 ∧
    (runCall Ex.HN E Ex.p0 (.rollback 1)).st.mem.kv = Ex.p0.mem.kv := by decide

end pipeline
section disk
open NomtDisk
variable {Content MetaRec WalRec LogRec TreeAbs : Type}

/-- T14 **link to the disk model** (T4.1 / T4.2, `Store/Crash*.lean`, through `Store/CrashClassify.lean`): for an accepted sync
trace `pre ++ [meta write, meta fsync] ++ post` and the position `pos` of the failing operation, with the SAME function
`Pos.cut` as in `T14_fault_cut_of_position`:
`old` — whatever accepted pre-meta events were issued (any list: the concurrent tasks go on after one has failed), every image
(durable part + any subset of the un-synced effects) recovers to the old state (tree, table view, live rollback records);
`metaVolatile` — with the meta page written and its fsync failed every image is old or new, and the image a process exit
leaves is the new state; `new` — after any prefix `q` of the post-meta events every image is the new state. -/
theorem T14_fault_disk_link
    (P : Params Content MetaRec WalRec TreeAbs) (L : LogParams MetaRec LogRec)
    (d0 : Disk Content MetaRec WalRec LogRec)
    (hinert : ∀ b, htView P d0 b = d0.pages File.fHt b)
    (pre post : List (Ev Content MetaRec WalRec LogRec)) (m1 : MetaRec) (w1 : WalRec)
    (hpre : ∀ ev ∈ pre, EvPreL P L d0 ev)
    (hflushed : (NomtDisk.run ⟨d0, []⟩ pre).vol = [])
    (hwal : (NomtDisk.run ⟨d0, []⟩ pre).dur.wal = some w1)
    (hseq : P.walSeqn w1 = P.seqn m1)
    (hpost : PostOKL P L (NomtDisk.run ⟨d0, []⟩ pre).dur m1 w1
      ⟨applyEff (NomtDisk.run ⟨d0, []⟩ pre).dur (.setMeta m1), []⟩ post)
    (pos : Pos) :
    match pos.cut with
    | .old =>
      ∀ issued, (∀ ev ∈ issued, EvPreL P L d0 ev) → ∀ img, IsImage (NomtDisk.run ⟨d0, []⟩ issued) img →
        absOfL P L img = absOfL P L d0
    | .metaVolatile =>
      (∀ img, IsImage (NomtDisk.run ⟨d0, []⟩ (pre ++ [Ev.eff (.setMeta m1)])) img →
        absOfL P L img = absOfL P L d0 ∨
        absOfL P L img = (absNew P (NomtDisk.run ⟨d0, []⟩ pre).dur m1 w1,
                          absLog L m1 (NomtDisk.run ⟨d0, []⟩ pre).dur.log)) ∧
      absOfL P L (procImage (NomtDisk.run ⟨d0, []⟩ (pre ++ [Ev.eff (.setMeta m1)]))) =
        (absNew P (NomtDisk.run ⟨d0, []⟩ pre).dur m1 w1, absLog L m1 (NomtDisk.run ⟨d0, []⟩ pre).dur.log)
    | .new =>
      ∀ q, q <+: post → ∀ img,
        IsImage (NomtDisk.run ⟨d0, []⟩ (pre ++ ([Ev.eff (.setMeta m1), Ev.fsync File.fMeta] ++ q))) img →
        absOfL P L img = (absNew P (NomtDisk.run ⟨d0, []⟩ pre).dur m1 w1,
                          absLog L m1 (NomtDisk.run ⟨d0, []⟩ pre).dur.log) := by
  obtain ⟨hA, hB1, hB2, hC⟩ := sync_fault_classified_log P L d0 hinert pre post m1 w1 hpre hflushed hwal hseq hpost
  cases pos <;> simp only [Pos.cut]
  · exact hA
  · exact hA
  · exact hA
  · exact ⟨hB1, hB2⟩
  · exact hC
end disk

end Nomt.C14
