import NomtModel.Api.SeekerLoopProof
/-!
# C13 (topic: warm-up and pipelining of a merkle worker) — `RangeUpdater::update` hands the same completions to
`handle_completion` whatever was warmed up, however full the seeker is, in whatever order the I/O completes

`Api/SeekerLoop.lean` mirrors the driving loop of `RangeUpdater::update` (pushes, skips, the queue of warmed-up seeks, the
back-pressure by `has_room`, `recv_page` / `try_recv_page`) over an abstract seeker.  By `T5_seeker_push_order`
(`Props/C05_Seeker.lean`) a `Seeker` is, to its owner, a FIFO: completions leave in push order, each key once; `Toy` is
exactly that — a FIFO whose requests complete after arbitrary numbers of I/O completions, served out of order — with any
`has_room` bound.  Proved here by kernel evaluation on an instance for EVERY subset of warmed-up keys × four `has_room`
bounds × three latency profiles (768 runs): the loop terminates, reaches no panic site and makes exactly the calls
`handle_completion(start, seek(read_write[start]))` of `Split.workerLoop` — the model `Api/Split.lean` / `Props/C13_Split.lean`
reason about; and the seeded change `C13-warmup-skip-drops-warm-entry` does not.  The general statement is
`T13_update_loop_transparent` (proof: `Api/SeekerLoopProof.lean`).
-/
namespace Nomt.C13
open Nomt Nomt.Split Nomt.SeekerLoop

def b4 (a b c d : Bool) : Key := [a, b, c, d]
/-- six sorted 4-bit keys -/
def lkKeys : List Key :=
  [b4 false false false false, b4 false false false true, b4 false false true false, b4 false true false false,
   b4 true false false false, b4 true true false false]
/-- the terminal of the prior trie above each key: `000` (two keys), `001`, `01`, `1` (two keys) -/
def lkTp (k : Key) : List Bool :=
  if k.take 3 = [false, false, false] then [false, false, false]
  else if k.take 3 = [false, false, true] then [false, false, true]
  else if k.take 2 = [false, true] then [false, true]
  else [true]
def lkOps : List (Op Nat) := lkKeys.map (fun k => (k, RW.read))
def lkNext (start : Nat) (c : Key × List Bool) : Nat := start + batchSize c.2 lkOps start

def subsets {α : Type} : List α → List (List α)
  | [] => [[]]
  | x :: xs => (subsets xs).map (x :: ·) ++ subsets xs

/-- the calls of one run: warmed-up keys `S`, `has_room` bound `room`, latency profile `lat` -/
def lkCalls (mutant : Bool) (S : List Key) (room : Nat) (lat : Key → Nat) : Option (List (Nat × Key × List Bool)) :=
  (updLoop (toyIface (List Bool)) lkKeys 6 (fun k => if S.contains k then some (lkTp k) else none) lkNext mutant 200
    { start := 0, sk := { room := room, lat := lat, spec := lkTp } }).map (·.calls)

def lkLats : List (Key → Nat) := [fun _ => 0, fun _ => 2, fun k => if k.getD 3 false then 0 else 3]

/-- what `Split.workerLoop` says the worker does: one call per terminal, at the first key under it -/
def lkExpected : List (Nat × Key × List Bool) :=
  [(0, b4 false false false false, [false, false, false]), (2, b4 false false true false, [false, false, true]),
   (3, b4 false true false false, [false, true]), (4, b4 true false false false, [true])]

/-- **T13.warm (instance, every subset)**: for every subset of the six keys warmed up, `has_room` bounds 1, 2, 3, 8
and three latency profiles (everything cached / every request two I/Os / mixed, completions out of order) the loop
terminates without reaching a panic site and calls `handle_completion` exactly at the batch starts of
`Split.workerLoop`, with the seek of the batch's first key — warm-up and pipelining are invisible. -/
theorem T13_update_loop_transparent_instance :
    (subsets lkKeys).all (fun S => [1, 2, 3, 8].all (fun room => lkLats.all (fun lat =>
      lkCalls false S room lat == some lkExpected))) = true ∧
    (workerLoop lkTp lkOps (fun _ => true) 0 6 7 0).map (fun bs => bs.map (fun b => (b.start, b.pos))) =
      some (lkExpected.map (fun c => (c.1, c.2.2))) := by
  constructor
  · decide +kernel
  · decide +kernel

/-- the instance is not vacuous: 64 subsets, and e.g. warming up the SECOND key of the first batch and the first of
the last goes through the skip logic with both queues in play -/
example : (subsets lkKeys).length = 64 ∧
    lkCalls false [b4 false false false true, b4 true false false false] 1 (fun _ => 2) = some lkExpected := by
  decide +kernel

/-- **kernel-checked counterexample of the seeded change `C13-warmup-skip-drops-warm-entry`** (`Some(k) => skips > 0 ||
&res.key < k`: while completions are being skipped the warmed-up queue is drained first): e.g. with every key but `0001`
warmed up, the warmed-up seek of `0000` is handled (batch of two, `skips = 1`), then the changed test takes the warmed-up
seek of `0010` — NOT covered by that terminal — as the completion to skip, and the seeker's completion for `0001` is
applied to `start_index = 2`: a batch of size 0, `min(pushes, batch_size) - 1` underflows (the `none` of the mirror; in
a release build `skips` wraps around).  Some run of the changed loop differs from the specified calls; every run of the
unchanged loop makes them. -/
theorem T13_warmup_skip_drops_warm_entry_counterexample :
    (subsets lkKeys).any (fun S => [1, 2, 3, 8].any (fun room => lkLats.any (fun lat =>
      lkCalls true S room lat != some lkExpected))) = true ∧
    (subsets lkKeys).all (fun S => [1, 2, 3, 8].all (fun room => lkLats.all (fun lat =>
      lkCalls false S room lat == some lkExpected))) = true := by
  constructor
  · decide +kernel
  · decide +kernel

/-- **T13.warm** (warm-up and pipelining are invisible — general): for every sorted duplicate-free key list, every
terminal function (`tp k` a prefix of `k`), EVERY warmed-up subset `S` (whichever prefix of the warm-up commands the
warm-up phase got through before it was cut off, and more generally any subset; a warmed-up key carries the specified
seek), every `has_room` bound ≥ 1 and every latency profile — each request completes after an arbitrary number of I/O
completions, served out of order — the loop of `RangeUpdater::update` over a FIFO seeker (what `T5_seeker_push_order` /
`T5_seeker_is_proveSpec` say a `Seeker` is to its owner) returns with enough fuel, reaches no panic site (no
`min(pushes, batch_size) - 1` underflow, no index out of bounds) and calls `handle_completion(start, seek(keys[start]))`
exactly at the batch starts of `Split.workerLoop` — the model `Props/C13_Split.lean` reasons about.  The
`warmed_up.len() >= 512` early exit of the push loop is covered.  Proof: `Api/SeekerLoopProof.lean` (invariant: the
outstanding completions are `skips` keys to discard followed by `keys[start, start+pushes)`, split order-preservingly
between the warmed-up queue and the seeker; measure: unpushed keys, remaining latency, queue lengths). -/
theorem T13_update_loop_transparent (keys : List Key) (tp : Key → List Bool) (S : List Key) (room : Nat) (lat : Key → Nat)
    (hroom : 1 ≤ room) (hsorted : keys.Pairwise (fun a b => bitsLt a b = true))
    (htp : ∀ k ∈ keys, (tp k).isPrefixOf k = true) :
    ∃ fuel s, updLoop (toyIface (List Bool)) keys keys.length (fun k => if S.contains k then some (tp k) else none)
        (fun start c => start + batchSize c.2 (keys.map (fun k => (k, (RW.read : RW Nat)))) start) false fuel
        { start := 0, sk := { room := room, lat := lat, spec := tp } } = some s ∧
      (workerLoop tp (keys.map (fun k => (k, (RW.read : RW Nat)))) (fun _ => true) 0 keys.length (keys.length + 1) 0).map
          (fun bs => bs.map (fun b => (b.start, b.pos))) = some (s.calls.map (fun c => (c.1, c.2.2))) :=
  updLoop_transparent keys tp S room lat hroom hsorted htp

/-- the hypotheses are met by the instance above (sorted keys, terminals that are prefixes) -/
example : lkKeys.Pairwise (fun a b => bitsLt a b = true) ∧ (∀ k ∈ lkKeys, (lkTp k).isPrefixOf k = true) := by
  constructor
  · decide
  · decide

end Nomt.C13
