import NomtModel.Core.PathProofExec
import NomtModel.Core.PathUpdateExec
import NomtModel.Core.TermHasher
import NomtModel.Core.UpdateNoPanic
import NomtModel.Core.Complete
import NomtModel.Core.MultiUpdateSafe
import NomtModel.Core.MultiUpdateRoot
/-!
# C18 — Proof verifiers are total: any input gets a verdict, never a panic

The `…O` mirrors make every Rust slice / subtraction / unwrap site an explicit `Outcome.panic`.
Termination of every verifier is by structural recursion (accepted by the kernel when these
definitions were elaborated).
-/
namespace Nomt.C18
open Nomt
variable {Node VH : Type} [DecidableEq Node] [DecidableEq VH] (H : Hasher Node VH)

/-- T18.1a: `PathProof::verify` returns a verdict for **every** proof object, key slice (of any length)
and root; the slice `&key_path[..siblings.len()]` is never out of range. -/
theorem T18_1a_verify_total (L : Nat) (P : PathProof Node VH) (kp : List Bool) (root : Node) :
    (verifyO H L P kp root).isPanic = false ∧
    verifyO H L P kp root = outcomeOfExcept (verify H L P kp root) :=
  ⟨verifyO_no_panic H L P kp root, verifyO_eq H L P kp root⟩

/-- T18.1b: on anything `verify` accepted, `in_scope` (hence `confirm_value` / `confirm_nonexistence`)
never slices out of range for a full-length key. -/
theorem T18_1b_confirm_total (L : Nat) (P : PathProof Node VH) (kp : List Bool) (root : Node)
    (v : Verified Node VH) (hv : verify H L P kp root = .ok v) (k : Key) (hk : k.length = L) :
    inScopeO v k = .ok (v.inScope k) :=
  inScopeO_no_panic H L P kp root v hv k hk

/-- non-vacuity: a 300-sibling proof against a 256-bit key is rejected, not sliced -/
example : verifyO TH 4 { terminal := .terminator [], siblings := List.replicate 9 T.term }
    [true, false, true, true] T.term = .err .tooManySiblings := by rfl

/-- T18.2: `verify_update` (path_proof.rs) returns a verdict and never panics when every path was produced by
`PathProof::verify` against the same trusted root — the root of a canonical set `S` of `L`-bit keys — and
the op keys are `L`-bit keys.  The two panic sites, the `skip - (n + 1)` underflow between consecutive
paths and the out-of-range slice in `build_trie`, are unreachable: under `H.Sound` one verified path is
never a proper prefix of another, and the spliced ops of a path are distinct full-length keys under it.
(Ops and paths themselves are arbitrary: unsorted / out-of-scope / empty inputs get an `err` verdict.) -/
theorem T18_2_verify_update_no_panic (hs : H.Sound) (L : Nat) (S : List (Key × VH)) (hc : Canon L 0 S)
    (hlen : ∀ kv ∈ S, kv.1.length = L) (paths : List (PathUpdateIn Node VH))
    (hv : ∀ p ∈ paths, ∃ P kp, kp.length = L ∧ verify H L P kp (nodeAt H L 0 S) = .ok p.inner)
    (hol : ∀ p ∈ paths, ∀ o ∈ p.ops, o.1.length = L) :
    (pathVerifyUpdate H L (nodeAt H L 0 S) paths).isPanic = false :=
  pathVerifyUpdate_no_panic H hs L S hc hlen paths
    (fun p hp => let ⟨P, kp, _, h⟩ := hv p hp; ⟨P, kp, h⟩) hol

/-- T18.2, positive half: when moreover the argument checks pass, the call reaches the hashing loop, i.e.
returns `ok` of the core `verifyUpdate` on the prepared paths. -/
theorem T18_2_verify_update_ok (hs : H.Sound) (L : Nat) (S : List (Key × VH)) (hc : Canon L 0 S)
    (hlen : ∀ kv ∈ S, kv.1.length = L) (paths : List (PathUpdateIn Node VH)) (hne : paths ≠ [])
    (hv : ∀ p ∈ paths, ∃ P kp, kp.length = L ∧ verify H L P kp (nodeAt H L 0 S) = .ok p.inner)
    (hol : ∀ p ∈ paths, ∀ o ∈ p.ops, o.1.length = L)
    (hchk : checkPaths (nodeAt H L 0 S) none paths = none) :
    pathVerifyUpdate H L (nodeAt H L 0 S) paths
      = .ok (verifyUpdate H (nodeAt H L 0 S) (paths.map (toUpd H))) :=
  pathVerifyUpdate_of_checks H hs L S hc hlen paths hne
    (fun p hp => let ⟨P, kp, _, h⟩ := hv p hp; ⟨P, kp, h⟩) hol hchk

/-! Non-vacuity of T18.2: a three-key set over the term hasher, two honestly verified paths with ops. -/
def exS : List (Key × Nat) := [([false, false], 7), ([false, true], 8), ([true, true], 9)]
def exV (k : Key) : Verified T Nat :=
  match verify TH 2 (proveSpec TH 2 exS k) k (nodeAt TH 2 0 exS) with
  | .ok v => v
  | .error _ => ⟨[], none, [], T.term⟩
def exPaths : List (PathUpdateIn T Nat) :=
  [ { inner := exV [false, true], ops := [([false, true], some 5)] },
    { inner := exV [true, false], ops := [([true, false], some 1), ([true, true], none)] } ]

example : (pathVerifyUpdate TH 2 (nodeAt TH 2 0 exS) exPaths).isPanic = false := by
  apply T18_2_verify_update_no_panic TH TH_sound 2 exS (by simp [exS, Canon, side]) (by simp [exS])
  · intro p hp
    simp only [exPaths, List.mem_cons, List.not_mem_nil, or_false] at hp
    rcases hp with rfl | rfl
    · exact ⟨proveSpec TH 2 exS [false, true], [false, true], rfl, rfl⟩
    · exact ⟨proveSpec TH 2 exS [true, false], [true, false], rfl, rfl⟩
  · simp only [exPaths]; decide
example : checkPaths (nodeAt TH 2 0 exS) none exPaths = none := by decide
/-- without the trust assumption the panic site is live: a "verified" object whose path is a proper prefix
of the next one (impossible output of `verify` for one root) makes the mirror panic -/
example : (pathVerifyUpdate TH 2 T.term
    [ { inner := ⟨[false], none, [T.term], T.term⟩, ops := [([false, false], some 1)] },
      { inner := ⟨[false, true], none, [T.term, T.term], T.term⟩, ops := [([false, true], some 1)] } ]).isPanic
    = true := by decide

/-- the trust assumption on the root is necessary for the `build_trie` site too: against an ill-formed root
(a leaf for key `10` stored under position `0`, which no canonical set has) `verify` accepts a path, the
checks pass, and `build_trie` is handed two keys that agree on every bit after `skip` -/
def badRoot : T := .node (.leaf [true, false] 7) .term
example : ∃ v, verify TH 2 { terminal := .leaf [true, false] 7, siblings := [T.term] } [false, false] badRoot = .ok v ∧
    (pathVerifyUpdate TH 2 badRoot [ { inner := v, ops := [([false, false], some 1)] } ]).isPanic = true :=
  ⟨_, rfl, by decide⟩

/-- T18.3 **`verify_multi_proof` is total**: for EVERY multi-proof object (any terminals, any depths, any
number of siblings — no hypothesis on lengths is needed) and every root, the mirror of the repaired
`verify` / `verify_range` returns a verdict: none of the remaining slice / index / subtraction /
`unwrap_err` sites is reachable, and the fuel of the Lean recursion is never exhausted. -/
theorem T18_3_verify_multi_total (mp : MultiProof Node VH) (root : Node) :
    (verifyMulti H mp root).isPanic = false :=
  verifyMulti_no_panic H mp root

/-- T18.4 (multi-proof lookups are total): on an accepted multi-proof, for a key at least as long as
every verified depth (true for 256-bit keys: `depth ≤ |terminal path| ≤ 256`), `find_index_for`,
`confirm_value` and `confirm_nonexistence` never reach a panic site. -/
theorem T18_4_multi_lookups_total (mp : MultiProof Node VH) (root : Node) (v : VerifiedMulti Node VH)
    (hv : verifyMulti H mp root = .ok v) (key : Key) (hk : ∀ vp ∈ v.inner, vp.depth ≤ key.length) (vh : VH) :
    (findIndexFor v key).isPanic = false ∧ (confirmValue v key vh).isPanic = false ∧
    (confirmNonexistence v key).isPanic = false :=
  multi_lookups_total H mp root v hv key hk vh

/-- T18.5 (**partial**) panic sites of `verify_multi_proof_update` that are unreachable on a
`VerifiedMultiProof` (= anything `verify` accepted, whatever object the prover supplied):

1. `hash_and_compact_terminal`: for any two different verified paths the `up_layers` computation
   succeeds — `shared_bits < depth`, so neither the `PathPrefixOfAnother` error nor the
   `skip - (n + 1)` underflow (multi_proof.rs:838) can occur;
2. every verified path has `unique_siblings.start ≤ end ≤ siblings.len()`, `end - start ≤ depth`
   and `depth ≤ path().len()`: the subtractions `unique_siblings.end - start` (638) and
   `next_terminal.depth - terminal_n` (640) of `CommonSiblings::advance`, the upper bound of its
   `siblings[taken..end]` slice (662) and the slice `path()[..terminal.depth]` (853) are safe;
3. every recorded bisection is non-empty and ends inside `siblings` (upper bound of the slice at 662
   for bisections; the `while` loop of `advance` makes progress);
4. `terminal_contains` (587) and the terminal search never slice out of range for a key at least as long
   as every verified depth (256-bit keys).

The remaining sites — `proof.bisections[bisection_index]` in range (620), `assert_eq!(common_siblings.start,
taken_siblings)` (623), the lower bound `taken ≤ end` of the slice at 662, `proof.inner[…]` index
synchronisation (616, 724, 779, 780, 796), `pop_if_at_depth(cur_layer).unwrap()` (868) and the key
slices inside `build_trie` — need the pre-order layout invariant of `inner` / `bisections` and the stack
discipline of `CommonSiblings`; they are discharged by `T18_5_multi_update_no_panic` below (this partial
statement is kept because it needs no hypothesis on key lengths). -/
theorem T18_5_partial_multi_update_sites (mp : MultiProof Node VH) (root : Node) (v : VerifiedMulti Node VH)
    (hv : verifyMulti H mp root = .ok v) :
    (∀ (i j : Nat) (t nt : VPath VH), v.inner[i]? = some t → v.inner[j]? = some nt → i ≠ j →
      upLayers t (some nt) = .ok (t.depth - (shared t.terminal.path nt.terminal.path + 1))) ∧
    (∀ vp ∈ v.inner, vp.uStart ≤ vp.uEnd ∧ vp.uEnd ≤ v.siblings.length ∧
      vp.uEnd - vp.uStart ≤ vp.depth ∧ vp.depth ≤ vp.terminal.path.length) ∧
    (∀ b ∈ v.bisections, b.cStart < b.cEnd ∧ b.cEnd ≤ v.siblings.length) ∧
    (∀ (key : Key), (∀ vp ∈ v.inner, vp.depth ≤ key.length) → ∀ i,
      (findTerminalFrom key (v.inner.drop i) i).isPanic = false) := by
  obtain ⟨hp, hb⟩ := verifyMulti_ranges H mp root v hv
  refine ⟨fun i j t nt hi hj hij => upLayers_ok H mp root v hv i j t nt hi hj hij, ?_, hb, ?_⟩
  · intro vp hvp
    obtain ⟨⟨a, b, c⟩, d⟩ := hp vp hvp
    exact ⟨a, b, c, d⟩
  · intro key hk i
    apply findTerminalFrom_no_panic
    intro t ht
    have htm : t ∈ v.inner := List.mem_of_mem_drop ht
    exact ⟨hk t htm, (hp t htm).2⟩

/-- non-vacuity of T18.3: a proof object with an absurd depth, no siblings and prefix-related terminals
gets an error verdict from the mirror of the repaired verifier (it reached a slice before the repair) -/
example : (match verifyMulti TH { paths := [{ terminal := .terminator [], depth := 300 },
              { terminal := .leaf [false, true] 1, depth := 0 }], siblings := [] } T.term with
           | .err .pathPrefixOfAnother => true
           | _ => false) = true := by decide


/-- T18.5 **`verify_multi_proof_update` never panics on an accepted multi-proof.**  For EVERY proof
object `mp` and root that `verify` accepted (`verifyMulti H mp root = ok v`, no trust assumption on the
root) whose leaf keys are `L`-bit keys and whose terminator positions have at most `L` bits (`L = 256`
in the code, where both hold by the types), and for ANY list of ops with `L`-bit keys — unsorted,
duplicated, out of scope, empty — the mirror of `verify_update` (multi_proof.rs:688) returns a verdict:
none of its panic sites is reachable:

* `proof.inner[…]` (616, 724, 779, 780, 796) and `proof.bisections[bisection_index]` (620) are in range;
* `assert_eq!(next_bisection.common_siblings.start, self.taken_siblings)` (623) holds;
* every `siblings[taken..end]` of `CommonSiblings::extend` (662) has `taken ≤ end ≤ len`, and
  `unique_siblings.end - start` (638), `depth - terminal_n` (640), `skip - (n + 1)` (838) do not underflow;
* `common_siblings.pop_if_at_depth(cur_layer).unwrap()` (868) always finds the sibling: at every layer
  either the pending left sibling or the proof-supplied sibling on the `CommonSiblings` stack is there;
* `build_trie` never slices a key out of range (update.rs:163/203): the ops handed to a terminal are
  distinct keys below it, and so is its leaf (the alignment T7.1);
* the fuel bounds of the Lean loops (`advanceLoop`) are not exhausted.

Proof: `verify_range`'s recursion is reified as a tree (`PTree`, `verifyRange_tree`) of which `inner`,
`bisections`, `siblings` are the pre-order layout; `advance` for the first terminal of a range pushes the
common siblings of the leftmost bisection chain (`advanceLoop_first`), the loop of
`hash_and_compact_terminal` is simulated layer by layer (`hctLoop_sim`), a whole range by structural
induction (`ingest_block`), the `for (key, op)` loop by an invariant (`updateStep_spec`). -/
theorem T18_5_multi_update_no_panic (L : Nat) (mp : MultiProof Node VH) (root : Node) (v : VerifiedMulti Node VH)
    (hv : verifyMulti H mp root = .ok v)
    (hleaf : ∀ p ∈ mp.paths, ∀ k x, p.terminal = .leaf k x → k.length = L)
    (hterm : ∀ p ∈ mp.paths, ∀ pos, p.terminal = .terminator pos → pos.length ≤ L)
    (ops : List (Key × Option VH)) (hol : ∀ o ∈ ops, o.1.length = L) :
    (multiVerifyUpdate H L v ops).isPanic = false :=
  multiVerifyUpdate_no_panic_of_paths H L mp root v hv hleaf hterm ops hol

/-- T18.5, the same with the length conditions stated on the verified object (`VerifiedMultiProof`):
leaf keys of length `L`, no verified depth above `L`. -/
theorem T18_5a_multi_update_no_panic_verified (L : Nat) (mp : MultiProof Node VH) (root : Node)
    (v : VerifiedMulti Node VH) (hv : verifyMulti H mp root = .ok v)
    (hleaf : ∀ vp ∈ v.inner, ∀ k x, vp.terminal = .leaf k x → k.length = L)
    (hdepth : ∀ vp ∈ v.inner, vp.depth ≤ L)
    (ops : List (Key × Option VH)) (hol : ∀ o ∈ ops, o.1.length = L) :
    (multiVerifyUpdate H L v ops).isPanic = false :=
  multiVerifyUpdate_no_panic H L mp root v hv hleaf hdepth ops hol

/-- T18.5, under the verifier's trust assumption (as T18.2 for path proofs): when the root is the root of
a canonical set of `L`-bit keys and `H` is sound, nothing at all has to be assumed about the proof object. -/
theorem T18_5b_multi_update_no_panic_trusted_root (hs : H.Sound) (L : Nat) (S : List (Key × VH))
    (hc : Canon L 0 S) (hlen : ∀ kv ∈ S, kv.1.length = L) (mp : MultiProof Node VH) (v : VerifiedMulti Node VH)
    (hv : verifyMulti H mp (nodeAt H L 0 S) = .ok v)
    (ops : List (Key × Option VH)) (hol : ∀ o ∈ ops, o.1.length = L) :
    (multiVerifyUpdate H L v ops).isPanic = false :=
  multiVerifyUpdate_no_panic_canon H hs L S hc hlen mp v hv ops hol

/-! Non-vacuity of T18.5: the three-key set `exS` over the term hasher, the multi-proof of two of its
paths built by `from_path_proofs`, accepted by `verify`; sorted in-scope ops, and unsorted / out-of-scope
ops. -/
def exMP : MultiProof T Nat :=
  match fromPathProofs [proveSpec TH 2 exS [false, true], proveSpec TH 2 exS [true, false]] with
  | .ok mp => mp
  | _ => ⟨[], []⟩
def exVM : VerifiedMulti T Nat :=
  match verifyMulti TH exMP (nodeAt TH 2 0 exS) with
  | .ok v => v
  | _ => ⟨[], [], [], T.term⟩
theorem exVM_ok : verifyMulti TH exMP (nodeAt TH 2 0 exS) = .ok exVM := by rfl

example : (multiVerifyUpdate TH 2 exVM [([false, true], some 5), ([true, false], some 1), ([true, true], none)]).isPanic
    = false := by
  have e : exMP.paths.map (·.terminal) = [.leaf [false, true] 8, .leaf [true, true] 9] := by rfl
  apply T18_5_multi_update_no_panic TH 2 exMP _ exVM exVM_ok
  · intro p hp k x ht
    have hp' : p.terminal ∈ exMP.paths.map (·.terminal) := List.mem_map_of_mem hp
    rw [e, ht] at hp'
    simp only [List.mem_cons, Terminal.leaf.injEq, List.not_mem_nil, or_false] at hp'
    rcases hp' with ⟨rfl, _⟩ | ⟨rfl, _⟩ <;> rfl
  · intro p hp pos ht
    have hp' : p.terminal ∈ exMP.paths.map (·.terminal) := List.mem_map_of_mem hp
    rw [e, ht] at hp'
    simp at hp'
  · decide
/-- ops out of order and out of scope: an error verdict, obtained through the theorem -/
example : (multiVerifyUpdate TH 2 exVM [([true, true], none), ([false, false], some 1)]).isPanic = false :=
  T18_5b_multi_update_no_panic_trusted_root TH TH_sound 2 exS (by simp [exS, Canon, side]) (by simp [exS])
    exMP exVM exVM_ok _ (by decide)
/-- without acceptance by `verify` the panic sites are live: a hand-made "verified" object whose
bisection list is empty although the first terminal's unique siblings do not start at `0` -/
example : (multiVerifyUpdate TH 2
    { inner := [{ terminal := .terminator [false], depth := 1, uStart := 1, uEnd := 2, route := [false] }],
      bisections := [], siblings := [T.term, T.term], root := T.term }
    [([false, false], some 1)]).isPanic = true := by decide

end Nomt.C18
