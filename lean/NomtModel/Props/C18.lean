import NomtModel.Core.PathProofExec
import NomtModel.Core.PathUpdateExec
import NomtModel.Core.TermHasher
/-!
# C18 — Proof verifiers are total: any input gets a verdict, never a panic

The `…O` mirrors make every Rust slice / subtraction / unwrap site an explicit `Outcome.panic`.
Termination of every verifier is by structural recursion (accepted by the kernel when these
definitions were elaborated).
-/
namespace Nomt.C18
open Nomt
variable {Node VH : Type} [DecidableEq Node] [DecidableEq VH] (H : Hasher Node VH)

/-- T18.1a: `PathProof::verify` returns a verdict for **every** proof object, key slice (of any length)
and root; the slice `&key_path[..siblings.len()]` is never out of range. -/
theorem T18_1a_verify_total (L : Nat) (P : PathProof Node VH) (kp : List Bool) (root : Node) :
    (verifyO H L P kp root).isPanic = false ∧
    verifyO H L P kp root = outcomeOfExcept (verify H L P kp root) :=
  ⟨verifyO_no_panic H L P kp root, verifyO_eq H L P kp root⟩

/-- T18.1b: on anything `verify` accepted, `in_scope` (hence `confirm_value` / `confirm_nonexistence`)
never slices out of range for a full-length key. -/
theorem T18_1b_confirm_total (L : Nat) (P : PathProof Node VH) (kp : List Bool) (root : Node)
    (v : Verified Node VH) (hv : verify H L P kp root = .ok v) (k : Key) (hk : k.length = L) :
    inScopeO v k = .ok (v.inScope k) :=
  inScopeO_no_panic H L P kp root v hv k hk

/-- non-vacuity: a 300-sibling proof against a 256-bit key is rejected, not sliced -/
example : verifyO TH 4 { terminal := .terminator [], siblings := List.replicate 9 T.term }
    [true, false, true, true] T.term = .err .tooManySiblings := by rfl

end Nomt.C18
