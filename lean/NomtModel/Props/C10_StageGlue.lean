import NomtModel.Store.StageGlueUpdate
import NomtModel.Props.C01_StageGlue
/-!
# C10 — `PostIoWork::run`: the leaf cache receives exactly the leaves the sync wrote

After the writes of a sync have completed, `ops::update` runs `PostIoWork::run`: every leaf the workers' trackers still hold
as inserted goes into the leaf cache under the page number it was written to.  A cache entry that differs from the page on
disk would survive a reopen as a wrong value only until the process exits — but it would make the RUNNING store differ from
the reopened one; the protocol the cache needs (`Nomt.C13.T13_leaf_sync_meets_protocol`, unit Q31: "leaves written at pairwise
different page numbers, every written leaf inserted") is what the theorem below provides for the real producer.  Mirror:
`UpdateOut.postIo` (`Store/StageGlueModel.lean`); tie: the `cache=` field of the `update` lines of `vharness stageglue` and
the oracle "every new leaf is in the cache after `PostIoWork` and equals the page on disk".
-/
namespace Nomt.C10
open Nomt Nomt.StageGlue
open Nomt.LeafUpd (Entry DbLeaf OutLeaf Leaf CellSize)
open Nomt.BranchUpd (kfReal)

variable {V : Type} [CellSize V]

/-- **T10.postio_inserts_written_leaves** — for every well-formed non-empty tree and every ascending batch: the
(page number, leaf) pairs `PostIoWork::run` inserts into the leaf cache are exactly the leaves the leaf stage produced, the
`i`-th one under `lnFresh (a0 + i)` — the page `handle_new_leaf` allocated and wrote it to, and the page number the new
branch level lists it under (`Nomt.C01.T1_update_is_kvApply`); with an allocator that never hands out a page twice the
page numbers are pairwise different, and none of them is the page of an untouched leaf when the allocator hands out no page
in use. -/
theorem T10_postio_inserts_written_leaves (pagesOf : V → List Nat) (lnFresh bbnFresh : Nat → Nat) (a0 : Nat) (t : Tree V)
    (cs : List (Nat × Option (V × Bool))) (lo : Nat) (ht : TreeOK t) (hcs : LeafUpd.ChOK (2 ^ 256) lo cs)
    (ha0 : cs = [] → a0 = 0) :
    ∃ o, update LeafUpd.sepReal kfReal pagesOf lnFresh bbnFresh false t cs a0 = some o ∧
      (∀ pn l, (pn, l) ∈ o.postIo ↔ ∃ i, (newsOf o.leafLevel)[i]? = some l ∧ pn = lnFresh (a0 + i)) ∧
      ((∀ i j, lnFresh i = lnFresh j → i = j) →
        ∀ pn l l', (pn, l) ∈ o.postIo → (pn, l') ∈ o.postIo → l = l') ∧
      ((∀ k, lnFresh k ∉ t.leaves.map (fun l => t.lpn l.sep)) →
        ∀ pn l, (pn, l) ∈ o.postIo → ∀ l' ∈ oldsOf o.leafLevel, pn ≠ t.lpn l'.sep) := by
  obtain ⟨o, e, h⟩ := update_spec pagesOf lnFresh bbnFresh a0 t cs lo ht hcs ha0
  refine ⟨o, e, h.postio, ?_, ?_⟩
  · intro hinj pn l l' h1 h2
    obtain ⟨i, hi, rfl⟩ := (h.postio pn l).1 h1
    obtain ⟨j, hj, hp⟩ := (h.postio _ l').1 h2
    have : a0 + i = a0 + j := hinj _ _ hp
    have hij : i = j := by omega
    subst hij
    rw [hi] at hj
    exact Option.some.inj hj
  · intro hfresh pn l h1 l' hl' hp
    obtain ⟨i, _, rfl⟩ := (h.postio pn l).1 h1
    exact hfresh (a0 + i) (List.mem_map.2 ⟨l', h.olds l' (mem_oldsOf hl'), hp.symm⟩)

/-- non-vacuity: on the three-leaf tree of `Props/C01_StageGlue.lean` a batch that shrinks a value of the second leaf (it
becomes under-full and is merged with the third) inserts ONE leaf of four entries into the cache, under the first page the
allocator hands out (kernel-evaluated) -/
example : TreeOK C01.exTree ∧
    (update LeafUpd.sepReal kfReal (fun _ : Nat => []) (fun k => 100 + k) (fun k => 200 + k) false C01.exTree
      [(BranchUpd.exKey 1 0 + 1, some (7, false))] 0).map (fun o => o.postIo.map fun x => (x.1, x.2.sep, x.2.ents.length)) =
      some [(100, BranchUpd.exKey 1 0, 4)] :=
  ⟨C01.exTree_ok, by decide +kernel⟩

end Nomt.C10
