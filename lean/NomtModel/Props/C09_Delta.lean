import NomtModel.Props.C11_Index
import NomtModel.Api.DeltaChain
import NomtModel.Store.RbHistory
/-!
# C09 (with C11 / C10) — building the rollback delta and the bookkeeping of `Rollback`

Property theorems about the mirrors of `nomt/src/rollback/reverse_delta_worker.rs` (`StoreLoadValueAsync::start_load`),
`rollback/mod.rs` (`ReverseDeltaBuilder::{tentative_preserve_prior, finalize}`, `InMemory`, `Rollback::{commit, truncate,
sync, read}`) and their callers in `lib.rs` (`Session::finish`, `FinishedSession::commit`, `Overlay::commit`,
`Nomt::rollback`).  Mirrors: `Api/DeltaBuild.lean`, `Store/RbModel.lean`; helper lemmas: `Api/DeltaBuildLemmas.lean`,
`Api/DeltaChain.lean`, `Store/RbTruncate.lean`, `Store/RbSync.lean`, `Store/RbHistory.lean`.  Tie to the code: harness
commands `delta` (real `Nomt`, real sessions / overlays / `StoreLoadValueAsync`) and `delta-log` (the real `Rollback` on a
scratch directory) vs driver mode `delta`, through hook H9.

(a) `T9_delta_is_prior_view`, `T9_delta_prior_by_key` — the delta is exactly the session's view of the written keys;
(b) `T9_delta_inverts_batch`; (c) `T9_chain_commit_then_rollback`, `T9_finalize_refines_exec_finish`,
`T9_redteam_fallthrough_counterexample`; (d) `T9_truncate_pops_newest`, `T9_truncate_refines_traceback`,
`T9_log_bounded_oldest_first`, `T9_rollback_then_sync`, `T9_history_refines_spec_log`, `T9_reopen_reads_same_log`,
`T9_maxlen0_first_sync_panics`.
-/
namespace Nomt.C09
open Nomt Nomt.Dlt

section Builder
variable {V : Type}

/-- the view of a session on the validated chain of `l` over the committed map `store` -/
def sessionView (h : Ovl.Heap V) (l : Ovl.Live) (store : KVL V) (k : Key) : Option V :=
  Ovl.readThrough (Ovl.chainData h l.chain) store k

/-- **T9.delta (a) — the delta is the prior view.**  For every heap of overlays the code can build (`C11.Built`), every
validated live overlay `l` (`LiveOK`: what `LiveOverlay::new` returns), every committed map, ANY sequence of
`preserve_prior_value` hints (written keys, unwritten keys, duplicates, any order) and every batch `actuals` that is
strictly ascending by key (debug-asserted by `Session::finish`) and whose `ReadThenWrite` priors are what the session read:
`start_load` + `ReverseDeltaBuilder::finalize` reach no panic site and the priors of the `Delta` are exactly
`{k ↦ view(k) | k written}` — as a list: one entry per written key, in key order, nothing for keys only read.  In particular the
prior of a key DELETED by a live ancestor overlay is `None` (the committed store is not consulted:
`T9_delta_prior_of_ancestor_delete`). -/
theorem T9_delta_is_prior_view {h : Ovl.Heap V} (hb : C11.Built h) (l : Ovl.Live) (ok : Ovl.LiveOK h l) (store : KVL V)
    (hints : List Key) (a : Actuals V) (hs : ASorted a) (ht : RtwTruthful (sessionView h l store) a) :
    finalize (startLoad h l store) hints a = .ok (priorSpec (sessionView h l store) a) :=
  finalize_eq_priorSpec (fun k => startLoad_spec (C11.built_inv hb).1 ok store k) hints a ht hs

/-- the same key by key, without any assumption on the order of the actuals (duplicates allowed): the delta is a
sorted map that holds the view's value for exactly the written keys -/
theorem T9_delta_prior_by_key {h : Ovl.Heap V} (hb : C11.Built h) (l : Ovl.Live) (ok : Ovl.LiveOK h l) (store : KVL V)
    (hints : List Key) (a : Actuals V) (ht : RtwTruthful (sessionView h l store) a) :
    ∃ d, finalize (startLoad h l store) hints a = .ok d ∧ KSorted d ∧
      ∀ k, kvGet d k = if k ∈ writtenKeys a then some (sessionView h l store k) else none :=
  finalize_get (fun k => startLoad_spec (C11.built_inv hb).1 ok store k) hints a ht

/-- a key whose youngest change along the chain is a `Delete` gets the prior `None`, whatever the store holds -/
theorem T9_delta_prior_of_ancestor_delete {h : Ovl.Heap V} (hb : C11.Built h) (l : Ovl.Live) (ok : Ovl.LiveOK h l)
    (store : KVL V) (hints : List Key) (a : Actuals V) (ht : RtwTruthful (sessionView h l store) a) (k : Key)
    (hw : k ∈ writtenKeys a) (hdel : Ovl.chainLookup (Ovl.chainData h l.chain) k = some none) :
    ∃ d, finalize (startLoad h l store) hints a = .ok d ∧ kvGet d k = some none := by
  obtain ⟨d, h1, _, h3⟩ := T9_delta_prior_by_key hb l ok store hints a ht
  refine ⟨d, h1, ?_⟩
  rw [h3, if_pos hw]
  simp [sessionView, Ovl.readThrough, hdel]

/-- **T9.delta (b) — the delta inverts the batch.**  Let `Vkv` be the session's view as a sorted list (the committed map
with the chain's change maps applied oldest first; overlay change maps have pairwise distinct keys — they are
`HashMap`s).  Applying the batch and then the built delta gives back `Vkv`, as a list. -/
theorem T9_delta_inverts_batch [DecidableEq V] {h : Ovl.Heap V} (hb : C11.Built h) (l : Ovl.Live) (ok : Ovl.LiveOK h l)
    (store : KVL V) (hst : KSorted store) (hd : ∀ ws ∈ Ovl.chainData h l.chain, WDistinct ws)
    (hints : List Key) (a : Actuals V) (hs : ASorted a) (ht : RtwTruthful (sessionView h l store) a) :
    ∃ d, finalize (startLoad h l store) hints a = .ok d ∧
      kvApply (kvApply (Ovl.applyChain store (Ovl.chainData h l.chain)) (writesOf a)) d
        = Ovl.applyChain store (Ovl.chainData h l.chain) := by
  refine ⟨_, T9_delta_is_prior_view hb l ok store hints a hs ht, ?_⟩
  have hv : sessionView h l store = kvGet (Ovl.applyChain store (Ovl.chainData h l.chain)) :=
    readThrough_eq_view hst _ hd
  rw [hv]
  exact priorSpec_inverts (Ovl.applyChain_sorted hst _) a

end Builder

/-! ### (c) overlay chains: the log after committing a chain, rollback restores the ancestors' views -/

section Chain
variable {Node VH : Type} [DecidableEq Node] [DecidableEq VH]

/-- **T9.chain (c).**  On the executable API model: a valid chain of overlays (`Api.ValidChain`, child first) each of
which carries the priors of its changes w.r.t. the view of ITS ancestors (`Api.ChainDeltas` — what `Session::finish`
records when the overlay is created, `T9_finish_delta_is_deltaOf`), committed oldest first: every commit is accepted
(T11.3), the committed state is the one direct commits give, the log invariant of T9.4 / T9.5 holds, the log is the
chain's deltas (newest first) in front of the old log cut at `max_rollback_log_len`, and `rollback n`
(`0 < n ≤` chain length, `n ≤ max_rollback_log_len`) returns `ok` and restores — as a list — the view of the overlay `n` levels
up the chain (`n = 1`: the parent's view, for A then B: A's view). -/
theorem T9_chain_commit_then_rollback (H : Hasher Node VH) (s : Api.St Node VH) (chain : List Nat)
    (hnd : chain.Nodup) (hv : Api.ValidChain s chain) (hd : Api.ChainDeltas s chain)
    (he : ∀ o ∈ chain, ∃ ov, s.ov? o = some ov) (hi : Api.StInv s) (hon : s.rollbackOn = true)
    (n : Nat) (hn : 0 < n) (hnc : n ≤ chain.length) (hnm : n ≤ s.maxLog) :
    (Api.commitSeq s chain.reverse).1 = true ∧
    (Api.commitSeq s chain.reverse).2.kv = Api.viewKV s chain ∧
    Api.StInv (Api.commitSeq s chain.reverse).2 ∧
    (Api.commitSeq s chain.reverse).2.log = (Api.chainLog s chain ++ s.log).take s.maxLog ∧
    (Api.rollback H (Api.commitSeq s chain.reverse).2 n).1 = .ok ∧
    (Api.rollback H (Api.commitSeq s chain.reverse).2 n).2.kv = Api.viewKV s (chain.drop n) :=
  Api.chain_commit_then_rollback H s chain hnd hv hd he hi hon n hn hnc hnm

/-- the delta `Api.finish` stores is `deltaOf (view of the chain)`: an overlay made from the finished session satisfies
its clause of `ChainDeltas` -/
theorem T9_finish_delta_is_deltaOf (s : Api.St Node VH) (hs : KSorted s.kv) (chain : List Nat)
    (hdist : ∀ o ∈ chain, ∀ ov, s.ov? o = some ov → WDistinct ov.changes) (ws : Api.Writes VH) :
    ws.map (fun kw => (kw.1, Api.viewGet s chain kw.1)) = Api.deltaOf (Api.viewKV s chain) ws :=
  Api.finish_delta_is_deltaOf s hs chain hdist ws

/-- **the mirror refines the specification**: the `delta` field the specification-level `Api.finish` stores in the
finished session (the function T9.4 – T9.8, T11.3, T12.x are about) is what the mirror of `start_load` + `finalize`
computes on a related overlay heap, for any hints -/
theorem T9_finalize_refines_exec_finish (H : Hasher Node VH) (s : Api.St Node VH) (h : Ovl.Heap VH)
    (hb : C11.Built h) (hr : Api.RelV s h) (l : Ovl.Live) (ok : Ovl.LiveOK h l) (sid fid : Nat) (x : Api.Sess)
    (hx : s.sess.find? (·.id == sid) = some x) (hc : x.chain = l.chain)
    (he : ∀ o ∈ x.chain, ∃ ov, s.ov? o = some ov) (hints : List Key) (a : Actuals VH) (hs : ASorted a)
    (ht : RtwTruthful (Api.viewGet s x.chain) a) :
    ∃ s' r f, Api.finish H s sid fid (writesOf a) = some (s', r) ∧ s'.fins.head? = some f ∧
      finalize (startLoad h l s.kv) hints a = .ok f.delta :=
  Api.finalize_refines_finish H s h (C11.built_inv hb).1 hr l ok sid fid x hx hc he hints a hs ht

end Chain

/-! ### the red-team change "a `Delete` of a live ancestor falls through to the store" -/

def kx : Key := [false, true]
def cexStore : KVL Nat := [(kx, 7)]
/-- overlay A (no parent) deletes the committed key -/
def cexA : Ovl.Ov Nat := match Ovl.Live.finish [] {} [(kx, none)] with
  | .ok o => o | _ => { seqn := 0, index := {}, values := [], parent := none, anc := [] }
def cexHeap : Ovl.Heap Nat := [cexA]
/-- the live overlay of a session on `[A]` -/
def cexLive : Ovl.Live := { parent := some 0, anc := [], minSeqn := 0 }
/-- the batch of overlay B: a blind write of the key A deleted -/
def cexBatch : Actuals Nat := [(kx, .write (some 9))]

def cexH : Hasher Nat Nat := { term := 0, leaf := fun _ v => v + 1, internal := fun a b => a + b + 100, kind := fun _ => .leaf }

/-- the API state with A and B as overlays, B carrying the delta the CHANGED `start_load` builds -/
def cexSt : Api.St Nat Nat :=
  { kv := cexStore, root := Api.rootOfKV cexH cexStore,
    ovs := [{ id := 1, parent := some 0, ancestors := [0], changes := [(kx, some 9)], prevRoot := Api.rootOfKV cexH [],
              root := Api.rootOfKV cexH [(kx, 9)], delta := [(kx, some 7)] },
            { id := 0, parent := none, ancestors := [], changes := [(kx, none)], prevRoot := Api.rootOfKV cexH cexStore,
              root := Api.rootOfKV cexH [], delta := [(kx, some 7)] }] }

theorem cexHeap_built : C11.Built cexHeap :=
  C11.Built.push (h := []) (l := {}) C11.Built.nil (by simp [Ovl.LiveOK]) (by rfl)

/-- **Kernel-checked counterexample of the red-team change.**  Store `{k ↦ 7}`; overlay A deletes `k`; a session on `[A]`
blindly writes `k := 9` (overlay B).  The real `start_load` records the prior `None` (A's view: `k` absent); the changed one
(`startLoadFT`: only an `Insert` is answered by the overlay) falls through to the committed store and records `Some 7`.  With
that delta: commit A, commit B (both accepted), `rollback(1)` returns `ok` and the committed values are `{k ↦ 7}` — the value
A deleted is back — instead of A's view `{}`; with the real delta `T9_chain_commit_then_rollback` applies. -/
theorem T9_redteam_fallthrough_counterexample :
    finalize (startLoad cexHeap cexLive cexStore) [] cexBatch = .ok [(kx, none)] ∧
    finalize (startLoadFT cexHeap cexLive cexStore) [] cexBatch = .ok [(kx, some 7)] ∧
    (Api.commitSeq cexSt [0, 1]).1 = true ∧
    (Api.rollback cexH (Api.commitSeq cexSt [0, 1]).2 1).1 = .ok ∧
    (Api.rollback cexH (Api.commitSeq cexSt [0, 1]).2 1).2.kv = [(kx, 7)] ∧
    Api.viewKV cexSt [0] = [] := by decide

/-! ### (d) `InMemory`, `truncate`, `max_rollback_log_len`, the published live range -/

section Log
variable {V : Type}
open Nomt.Rb

/-- **T9.truncate.**  `Rollback::truncate(n)`: `n = 0` hits `assert!(n > 0)` (`Nomt::rollback(0)` returns before calling it);
with fewer than `n` deltas held it returns `None` and the state is unchanged; otherwise it pops exactly the `n` newest deltas,
newest first — the log keeps the others in order —, the traceback is the fold of the popped deltas in that order (an older prior
overrides a newer one), and the pending truncation ends just before the oldest popped record. -/
theorem T9_truncate_pops_newest (r : Rb V) (n : Nat) :
    (n = 0 → ∃ s, r.truncate n = .panic s) ∧
    (r.log.length < n → r.truncate n = .ok (none, r)) ∧
    (0 < n → n ≤ r.log.length → (∀ x ∈ r.log, 0 < x.1) →
      ∃ first, ((r.log.drop (r.log.length - n)).head?).map (·.1) = some first ∧ 0 < first ∧
        r.truncate n = .ok (some (tracebackOf (r.log.drop (r.log.length - n)).reverse []),
          { r with log := r.log.take (r.log.length - n), pending := some (first - 1) })) :=
  truncate_spec r n

/-- **the mirror's traceback refines `Api.traceback`**: applying the `BTreeMap` traceback to the committed values is
applying the specification's traceback of the `n` newest deltas (`Api.rollback`: T9.5 – T9.8 are about that function) -/
theorem T9_truncate_refines_traceback [DecidableEq V] (r : Rb V) (n : Nat) (hn : n ≤ r.log.length) {kv : KVL V}
    (hs : KSorted kv) :
    kvApply kv (tracebackOf (r.log.drop (r.log.length - n)).reverse []) = kvApply kv (Api.traceback (r.absLog.take n)) := by
  rw [kvApply_tracebackOf hs]
  congr 2
  have key : (r.log.drop (r.log.length - n)).reverse = r.log.reverse.take n := by
    conv => rhs; rw [← List.take_append_drop (r.log.length - n) r.log, List.reverse_append]
    rw [List.take_append_of_le_length (by simp; omega), List.take_of_length_le (by simp; omega)]
  rw [key]
  simp [Rb.absLog, List.map_take]

/-- **T9.maxlen — at most `max_rollback_log_len` deltas, the oldest goes first.**  From a quiescent state (`Good`: what the
empty log is and what every operation below keeps) with `0 < max_rollback_log_len`, `commit(delta)` followed by the sync of the
commit reaches no panic site (`pop_oldest().unwrap()`, the two `panic!`s of `prune_oldest`), does not fail, and the log —
newest first — becomes `(delta :: log).take max_rollback_log_len`, which is the specification-level `Api.pushLog`. -/
theorem T9_log_bounded_oldest_first {r : Rb V} {m : Nat × Nat} (g : Good r m) (d : Delta V) :
    ∃ m' r', r.commitSync d = .ok (m', r') ∧ Good r' m' ∧ r'.absLog = (d :: r.absLog).take r.maxLen ∧
      r'.log.length ≤ r.maxLen := by
  obtain ⟨m', r', h1, h2, h3, h4⟩ := commitSync_good g d
  exact ⟨m', r', h1, h2, h3, h4 ▸ h2.len⟩

/-- the guard `0 < max_rollback_log_len` is sharp: with `0` the first sync panics in `prune_oldest` (after the meta was
written) — observed on the real store as well -/
theorem T9_maxlen0_first_sync_panics (d : Delta V) :
    ({ maxLen := 0 } : Rb V).commitSync d = .panic "prune_oldest: New live start is greater than the live end" :=
  maxLen0_first_sync_panics d

/-- `truncate(n)` + the sync of the rollback commit: the log loses exactly its `n` newest deltas (`Api.rollback`:
`log.drop n`), the published range is the one left in memory, `Good` is kept -/
theorem T9_rollback_then_sync {r : Rb V} {m : Nat × Nat} (g : Good r m) (n : Nat) (hn : 0 < n) (hle : n ≤ r.log.length) :
    ∃ r1 m' r', r.truncate n = .ok (some (tracebackOf (r.log.drop (r.log.length - n)).reverse []), r1) ∧
      r1.sync = .ok (m', r') ∧ Good r' m' ∧ r'.log = r.log.take (r.log.length - n) ∧
      r'.absLog = r.absLog.drop n := by
  obtain ⟨r1, m', r', h1, h2, h3, h4, h5, _⟩ := truncateSync_good g n hn hle
  exact ⟨r1, m', r', h1, h2, h3, h4, h5⟩

/-- **T9.history — any history.**  Starting from the empty log (or any `Good` state), every sequence of commits,
rollbacks (served or refused) and reopens runs without reaching a panic site or an error, ends in a `Good` state, and the
log (newest first) is the fold of the specification's log operations: `(d :: log).take maxLen`, `log.drop n` when
`n ≤ |log|` else unchanged, identity for reopen.  So at most `maxLen` commits are ever restorable. -/
theorem T9_history_refines_spec_log {r : Rb V} {m : Nat × Nat} (g : Good r m) (ops : List (Op V)) :
    ∃ r' m', Rb.run (r, m) ops = .ok (r', m') ∧ Good r' m' ∧ r'.absLog = ops.foldl (specStep r.maxLen) r.absLog ∧
      r'.log.length ≤ r.maxLen := by
  obtain ⟨r', m', h1, h2, h3, h4⟩ := run_good g ops
  exact ⟨r', m', h1, h2, h3, h4 ▸ h2.len⟩

/-- **T9.reopen (C10).**  `Rollback::read` with the range the last sync published, on ANY directory content that still
holds the in-memory records preceded by older ones (whatever whole segment files `prune_oldest` has removed meanwhile),
loads exactly the in-memory log: the lagging start of the published range brings no discarded delta back (F4b / F4c). -/
theorem T9_reopen_reads_same_log {r : Rb V} {m : Nat × Nat} (g : Good r m) (older : List (Nat × Delta V))
    (hp : ∀ x ∈ older, ∀ y ∈ r.log, x.1 < y.1) (he : r.log = [] → older = []) :
    ∃ r', Rb.read r.maxLen m (older ++ r.log) = .ok r' ∧ r'.log = r.log ∧ Good r' m := by
  obtain ⟨r', h1, h2, h3, _⟩ := read_good g older hp he
  exact ⟨r', h1, h2, h3⟩

end Log

/-! ### non-vacuity -/

/-- (a)/(b): the chain `[C, B, A]` of `Props/C11_Index.lean` (A inserts 00, 01, 10; B deletes 01, overwrites 10; C re-inserts
01, inserts 11) over a store holding 01 and 11: a batch with a hinted blind write, an unhinted blind delete of a key B
deleted… -/
example :
    let l : Ovl.Live := { parent := some 2, anc := [1, 0], minSeqn := 0 }
    let store : KVL Nat := [(C11.kB, 77), (C11.kD, 88)]
    Ovl.LiveOK C11.exHeap l ∧
    finalize (startLoad C11.exHeap l store) [C11.kC, C11.kC, [true]]
      [(C11.kA, .rtw (some 2) none), (C11.kB, .write none), (C11.kC, .write (some 5)), (C11.kD, .read (some 4))]
      = .ok [(C11.kA, some 2), (C11.kB, some 10), (C11.kC, some 30)] :=
  ⟨⟨C11.ovC, rfl, by decide, rfl, rfl⟩, by decide⟩

/-- after A is committed a session holds `[C, B]`; a key only A changed falls through to the (now updated) store -/
example :
    let l : Ovl.Live := { parent := some 2, anc := [1], minSeqn := 1 }
    finalize (startLoad C11.exHeap l [(C11.kA, 2), (C11.kB, 1), (C11.kC, 3)]) []
      [(C11.kA, .write none), (C11.kB, .write none)] = .ok [(C11.kA, some 2), (C11.kB, some 10)] := by decide

/-- (d): `max_rollback_log_len = 2`: three commits, the oldest delta is gone, `truncate(2)` pops the two newest, newest first,
`truncate(3)` is refused -/
example :
    let d (i : Nat) : Rb.Delta Nat := [([true], some i)]
    ∃ r m, Rb.run (({ maxLen := 2 } : Rb.Rb Nat), (0, 0)) [.commit (d 1), .commit (d 2), .commit (d 3)] = .ok (r, m) ∧
      r.log = [(2, d 2), (3, d 3)] ∧ m = (1, 3) ∧ r.seg.startLive = 2 ∧
      r.truncate 3 = .ok (none, r) ∧
      (∃ r1, r.truncate 2 = .ok (some [([true], some 2)], r1) ∧ r1.log = [] ∧ r1.pending = some 1) ∧
      (Rb.Rb.read 2 m r.seg.recs).bind (fun r' => Outcome.ok r'.log) = Outcome.ok r.log := by
  refine ⟨_, _, by rfl, by rfl, by rfl, by rfl, by rfl, ⟨_, by rfl, by rfl, by rfl⟩, by rfl⟩

example : Rb.Good ({ maxLen := 3 } : Rb.Rb Nat) (0, 0) := Rb.good_init 3 (by decide)

end Nomt.C09
