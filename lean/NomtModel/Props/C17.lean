import NomtModel.Store.Placement
import NomtModel.Props.C04
/-!
# C17 — The previous durable image stays intact until the switch-over

`checkPlacement` (`Store/Placement.lean`) is the monitor the Lean driver evaluates on (pre-image of the
real directory, real I/O trace of the operation).  The theorems state what its acceptance means — it is
sound for the property — and connect it to the hypothesis `EvPre` of the crash theorem (C04): the
page-write clause of `AllowedPre` ("only pages the old meta does not reach") is what the monitor decides
with `reach` := "the independent decoder marks the page as node / overflow page / free-list page".
-/
namespace Nomt.C17
open Nomt Nomt.Store

theorem pageCheck_ok (what : String) (marks : Array UInt8) (bump : Nat) (st st' : PlacementStats) (e : IoEv)
    (h : pageCheck what marks bump st e = .ok st') :
    e.offset / PAGE ≥ bump ∨ (marks[e.offset / PAGE]! ≠ 1 ∧ marks[e.offset / PAGE]! ≠ 2 ∧ marks[e.offset / PAGE]! ≠ 3) := by
  unfold pageCheck at h
  simp only at h
  split at h
  · cases h
  · split at h
    · cases h
    · split at h
      · rename_i hb; exact Or.inl hb
      · split at h
        · cases h
        · rename_i hm
          right
          simp only [Bool.or_eq_true, beq_iff_eq, not_or] at hm
          exact ⟨hm.1.1, hm.1.2, hm.2⟩

/-- T17.1 **no referenced `ln` / `bbn` page is overwritten**: if the monitor accepts a pre-switch-over page
write to `ln` (resp. `bbn`), the page is at or beyond the previous allocation frontier, or the previous state
does not use it as a node, an overflow page or a free-list page. -/
theorem T17_1_ln_write_target_unreferenced (lnM bbnM : Array UInt8) (lnB bbnB lnS bbnS : Nat)
    (st st' : PlacementStats) (e : IoEv) (hk : e.kind = "Write") (hf : e.file = "ln")
    (h : checkEv lnM bbnM lnB bbnB lnS bbnS st e = .ok st') :
    e.offset / PAGE ≥ lnB ∨ (lnM[e.offset / PAGE]! ≠ 1 ∧ lnM[e.offset / PAGE]! ≠ 2 ∧ lnM[e.offset / PAGE]! ≠ 3) := by
  unfold checkEv at h
  simp only [hk, hf, beq_self_eq_true, Bool.and_self, if_true] at h
  cases hp : pageCheck "ln" lnM lnB { st with preMetaEvents := st.preMetaEvents + 1 } e with
  | error m => simp [hp, Except.map] at h
  | ok s => exact pageCheck_ok _ _ _ _ _ _ hp

theorem T17_1b_bbn_write_target_unreferenced (lnM bbnM : Array UInt8) (lnB bbnB lnS bbnS : Nat)
    (st st' : PlacementStats) (e : IoEv) (hk : e.kind = "Write") (hf : e.file = "bbn")
    (h : checkEv lnM bbnM lnB bbnB lnS bbnS st e = .ok st') :
    e.offset / PAGE ≥ bbnB ∨ (bbnM[e.offset / PAGE]! ≠ 1 ∧ bbnM[e.offset / PAGE]! ≠ 2 ∧ bbnM[e.offset / PAGE]! ≠ 3) := by
  unfold checkEv at h
  have hne : ("bbn" == "ln") = false := by decide
  simp only [hk, hf, beq_self_eq_true, Bool.and_self, if_true, hne, Bool.and_false, Bool.false_eq_true, if_false] at h
  cases hp : pageCheck "bbn" bbnM bbnB { st with preMetaEvents := st.preMetaEvents + 1 } e with
  | error m => simp [hp, Except.map] at h
  | ok s => exact pageCheck_ok _ _ _ _ _ _ hp

/-- T17.2 **the hash table is untouched before the switch-over**: the monitor rejects every hash-table
page write in the pre-switch-over part of a trace. -/
theorem T17_2_ht_write_rejected (lnM bbnM : Array UInt8) (lnB bbnB lnS bbnS : Nat)
    (st : PlacementStats) (e : IoEv) (hk : e.kind = "Write") (hf : e.file = "ht") :
    ∃ msg, checkEv lnM bbnM lnB bbnB lnS bbnS st e = .error msg := by
  unfold checkEv
  have h1 : ("ht" == "ln") = false := by decide
  have h2 : ("ht" == "bbn") = false := by decide
  have h3 : ("Write" == "SetLen") = false := by decide
  simp [hk, hf, h1, h2, h3]

/-- T17.3 **nothing is unlinked before the switch-over** -/
theorem T17_3_unlink_rejected (lnM bbnM : Array UInt8) (lnB bbnB lnS bbnS : Nat)
    (st : PlacementStats) (e : IoEv) (hk : e.kind = "Unlink") :
    ∃ msg, checkEv lnM bbnM lnB bbnB lnS bbnS st e = .error msg := by
  unfold checkEv
  have h1 : ("Unlink" == "Write") = false := by decide
  have h2 : ("Unlink" == "SetLen") = false := by decide
  simp [hk, h1, h2]

/-- non-vacuity: on a tiny state (page 1 a leaf, page 2 free, frontier 3) a write to page 2 and one beyond
the frontier are accepted, a write to page 1 is rejected -/
example :
    (pageCheck "ln" #[0, 1, 4] 3 {} { kind := "Write", file := "ln", offset := 2 * PAGE, len := PAGE, site := "io.send" }).toBool = true ∧
    (pageCheck "ln" #[0, 1, 4] 3 {} { kind := "Write", file := "ln", offset := 5 * PAGE, len := PAGE, site := "io.send" }).toBool = true ∧
    (pageCheck "ln" #[0, 1, 4] 3 {} { kind := "Write", file := "ln", offset := 1 * PAGE, len := PAGE, site := "io.send" }).toBool = false := by
  refine ⟨?_, ?_, ?_⟩ <;> simp [pageCheck, PAGE, Except.toBool]

end Nomt.C17
