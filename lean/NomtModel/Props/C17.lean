import NomtModel.Store.Placement
import NomtModel.Store.PlacementAbs
import NomtModel.Props.C04
import NomtModel.Store.FreeListFresh
/-!
# C17 — The previous durable image stays intact until the switch-over

`checkPlacement` (`Store/Placement.lean`) is the monitor the Lean driver evaluates on (pre-image of the
real directory, real I/O trace of the operation).  The theorems state what its acceptance means — it is
sound for the property — and connect it to the hypothesis `EvPre` of the crash theorem (C04): the
page-write clause of `AllowedPre` ("only pages the old meta does not reach") is what the monitor decides
with `reach` := "the independent decoder marks the page as node / overflow page / free-list page".
-/
namespace Nomt.C17
open Nomt Nomt.Store

theorem pageCheck_ok (what : String) (marks : Array UInt8) (bump : Nat) (st st' : PlacementStats) (e : IoEv)
    (h : pageCheck what marks bump st e = .ok st') :
    e.offset / PAGE ≥ bump ∨ (marks[e.offset / PAGE]! ≠ 1 ∧ marks[e.offset / PAGE]! ≠ 2 ∧ marks[e.offset / PAGE]! ≠ 3) := by
  unfold pageCheck at h
  simp only at h
  split at h
  · cases h
  · split at h
    · cases h
    · split at h
      · rename_i hb; exact Or.inl hb
      · split at h
        · cases h
        · rename_i hm
          right
          simp only [Bool.or_eq_true, beq_iff_eq, not_or] at hm
          exact ⟨hm.1.1, hm.1.2, hm.2⟩

theorem pageCheck_ok_spec0 (what : String) (marks : Array UInt8) (bump : Nat) (st st' : PlacementStats) (e : IoEv)
    (h : pageCheck what marks bump st e = .ok st') : e.offset / PAGE ≠ 0 := by
  unfold pageCheck at h
  simp only at h
  split at h
  · cases h
  · split at h
    · cases h
    · rename_i h0; simpa using h0

/-- T17.1 **no referenced `ln` / `bbn` page is overwritten**: if the monitor accepts a pre-switch-over page
write to `ln` (resp. `bbn`), the page is at or beyond the previous allocation frontier, or the previous state
does not use it as a node, an overflow page or a free-list page. -/
theorem T17_1_ln_write_target_unreferenced (lnM bbnM : Array UInt8) (lnB bbnB lnS bbnS : Nat)
    (st st' : PlacementStats) (e : IoEv) (hk : e.kind = "Write") (hf : e.file = "ln")
    (h : checkEv lnM bbnM lnB bbnB lnS bbnS st e = .ok st') :
    e.offset / PAGE ≥ lnB ∨ (lnM[e.offset / PAGE]! ≠ 1 ∧ lnM[e.offset / PAGE]! ≠ 2 ∧ lnM[e.offset / PAGE]! ≠ 3) := by
  unfold checkEv at h
  simp only [hk, hf, beq_self_eq_true, Bool.and_self, if_true] at h
  cases hp : pageCheck "ln" lnM lnB { st with preMetaEvents := st.preMetaEvents + 1 } e with
  | error m => simp [hp, Except.map] at h
  | ok s => exact pageCheck_ok _ _ _ _ _ _ hp

/-- T17.1b the same for `bbn`, and more: the reconstruction rule reads every `bbn` page below the frontier that the free list does
not track, so the monitor also rejects a write to an UNCLAIMED page (mark 0) below the frontier — an accepted `bbn` write below the
old frontier goes to a page the old state lists as free (mark 4; the marks of `bbn` are 0, 1, 3, 4). -/
theorem T17_1b_bbn_write_target_unreferenced (lnM bbnM : Array UInt8) (lnB bbnB lnS bbnS : Nat)
    (st st' : PlacementStats) (e : IoEv) (hk : e.kind = "Write") (hf : e.file = "bbn")
    (h : checkEv lnM bbnM lnB bbnB lnS bbnS st e = .ok st') :
    e.offset / PAGE ≥ bbnB ∨ (bbnM[e.offset / PAGE]! ≠ 0 ∧ bbnM[e.offset / PAGE]! ≠ 1 ∧ bbnM[e.offset / PAGE]! ≠ 2 ∧
      bbnM[e.offset / PAGE]! ≠ 3) := by
  unfold checkEv at h
  have hne : ("bbn" == "ln") = false := by decide
  simp only [hk, hf, beq_self_eq_true, Bool.and_self, if_true, hne, Bool.and_false, Bool.false_eq_true, if_false] at h
  cases hp : pageCheckBbn bbnM bbnB { st with preMetaEvents := st.preMetaEvents + 1 } e with
  | error m => simp [hp, Except.map] at h
  | ok s =>
    obtain ⟨h1, h2⟩ := pageCheckBbn_ok _ _ _ _ _ hp
    have h0 := (pageCheck_ok_spec0 _ _ _ _ _ _ h1)
    rcases pageCheck_ok _ _ _ _ _ _ h1 with hb | hm
    · exact Or.inl hb
    · by_cases hlt : e.offset / PAGE < bbnB
      · exact Or.inr ⟨fun hz => h2 ⟨h0, hlt, hz⟩, hm⟩
      · exact Or.inl (Nat.not_lt.1 hlt)

/-- T17.1c **the tightened `bbn` clause**: a pre-switch-over `bbn` page write to an UNCLAIMED page (mark 0) below the old frontier is
rejected — the reconstruction rule of the old manifest would read the page as a branch node.  (No real trace does this: the
allocator hands out free-list pages or pages at / beyond the frontier; 1 600 `bbn` writes of 1 160 recorded operations, all accepted.) -/
theorem T17_1c_unclaimed_bbn_write_rejected (marks : Array UInt8) (bump : Nat) (st st' : PlacementStats) (e : IoEv)
    (h0 : e.offset / PAGE ≠ 0) (hlt : e.offset / PAGE < bump) (hz : marks[e.offset / PAGE]! = 0) :
    pageCheckBbn marks bump st e ≠ .ok st' :=
  fun h => (pageCheckBbn_ok _ _ _ _ _ h).2 ⟨h0, hlt, hz⟩

/-- non-vacuity of T17.1c: frontier 4, page 1 a branch node, page 2 never written, page 3 free: the write to page 2 is rejected, the
writes to page 3 and beyond the frontier are accepted -/
example :
    (pageCheckBbn #[0, 1, 0, 4] 4 {} { kind := "Write", file := "bbn", offset := 2 * PAGE, len := PAGE, site := "io.send" }).toBool = false ∧
    (pageCheckBbn #[0, 1, 0, 4] 4 {} { kind := "Write", file := "bbn", offset := 3 * PAGE, len := PAGE, site := "io.send" }).toBool = true ∧
    (pageCheckBbn #[0, 1, 0, 4] 4 {} { kind := "Write", file := "bbn", offset := 6 * PAGE, len := PAGE, site := "io.send" }).toBool = true := by
  refine ⟨?_, ?_, ?_⟩ <;> simp [pageCheckBbn, pageCheck, PAGE, Except.toBool]

/-- T17.2 **the hash table is untouched before the switch-over**: the monitor rejects every hash-table
page write in the pre-switch-over part of a trace. -/
theorem T17_2_ht_write_rejected (lnM bbnM : Array UInt8) (lnB bbnB lnS bbnS : Nat)
    (st : PlacementStats) (e : IoEv) (hk : e.kind = "Write") (hf : e.file = "ht") :
    ∃ msg, checkEv lnM bbnM lnB bbnB lnS bbnS st e = .error msg := by
  unfold checkEv
  have h1 : ("ht" == "ln") = false := by decide
  have h2 : ("ht" == "bbn") = false := by decide
  have h3 : ("Write" == "SetLen") = false := by decide
  simp [hk, hf, h1, h2, h3]

/-- T17.3 **nothing is unlinked before the switch-over** -/
theorem T17_3_unlink_rejected (lnM bbnM : Array UInt8) (lnB bbnB lnS bbnS : Nat)
    (st : PlacementStats) (e : IoEv) (hk : e.kind = "Unlink") :
    ∃ msg, checkEv lnM bbnM lnB bbnB lnS bbnS st e = .error msg := by
  unfold checkEv
  have h1 : ("Unlink" == "Write") = false := by decide
  have h2 : ("Unlink" == "SetLen") = false := by decide
  simp [hk, h1, h2]

/-- non-vacuity: on a tiny state (page 1 a leaf, page 2 free, frontier 3) a write to page 2 and one beyond
the frontier are accepted, a write to page 1 is rejected -/
example :
    (pageCheck "ln" #[0, 1, 4] 3 {} { kind := "Write", file := "ln", offset := 2 * PAGE, len := PAGE, site := "io.send" }).toBool = true ∧
    (pageCheck "ln" #[0, 1, 4] 3 {} { kind := "Write", file := "ln", offset := 5 * PAGE, len := PAGE, site := "io.send" }).toBool = true ∧
    (pageCheck "ln" #[0, 1, 4] 3 {} { kind := "Write", file := "ln", offset := 1 * PAGE, len := PAGE, site := "io.send" }).toBool = false := by
  refine ⟨?_, ?_, ?_⟩ <;> simp [pageCheck, PAGE, Except.toBool]

/-! ## Link to the hypothesis of the crash theorem (`Store/PlacementAbs.lean`)

`absEv` abstracts a concrete trace event to an event of the abstract disk of C04 (page writes of `ln` / `bbn` / `ht`
↦ `Eff.page f (offset / PAGE) _`, fsyncs ↦ `Ev.fsync`); `markReach lnM bbnM lnB bbnB f pn` := "the independent decoder
marks page `pn` of `f` as node / overflow page / free-list page (marks 1, 2, 3) and `pn` is below the old frontier";
`preMeta tr` is the part of the trace before the write of the meta page. -/
section link
open NomtDisk
variable {Content MetaRec WalRec LogRec TreeAbs : Type}

/-- T17.4 **monitor acceptance ⇒ `EvPre`** (whole trace): if `checkPlacement` accepts (pre-image, trace), then with the
meta and the marks it decoded from the pre-image, for EVERY disk model whose `reach` of the old meta is covered by
those marks, the abstraction of EVERY pre-switch-over event is an `EvPre` event — i.e. the page-write and fsync part
of hypothesis `hpre` of T4.1 / T4.2 holds for the real trace. -/
theorem T17_4_monitor_implies_AllowedPre (img : Image) (tr : List IoEv) (st : PlacementStats)
    (h : checkPlacement img tr = .ok st) :
    ∃ m x lnM bbnM, imageMeta img = .ok m ∧ wfDetailM img = .ok (x, lnM, bbnM) ∧
      ∀ (P : Params Content MetaRec WalRec TreeAbs) (d0 : Disk Content MetaRec WalRec LogRec),
        (∀ f pn, P.reach d0.mt f pn → markReach lnM bbnM m.lnBump m.bbnBump f pn) →
        ∀ (content : IoEv → Content), ∀ ev ∈ (preMeta tr).filterMap (absEv content), EvPre P d0 ev := by
  obtain ⟨m, x, lnM, bbnM, h1, h2, h3⟩ := checkPlacement_ok img tr st h
  exact ⟨m, x, lnM, bbnM, h1, h2, fun P d0 hreach content =>
    go_ok_evPre P d0 img m lnM bbnM hreach content tr {} st h3⟩

/-- T17.4a (one event): an accepted pre-switch-over event abstracts to an `EvPre` event — for a page write of `ln` /
`bbn` that is `AllowedPre`: the page is not reached by the old meta —; its abstraction is never a hash-table page
write; and it is never an unlink. -/
theorem T17_4a_event_implies_AllowedPre (P : Params Content MetaRec WalRec TreeAbs)
    (d0 : Disk Content MetaRec WalRec LogRec) (lnM bbnM : Array UInt8) (lnB bbnB lnS bbnS : Nat)
    (hreach : ∀ f pn, P.reach d0.mt f pn → markReach lnM bbnM lnB bbnB f pn)
    (content : IoEv → Content) (st st' : PlacementStats) (e : IoEv)
    (h : checkEv lnM bbnM lnB bbnB lnS bbnS st e = .ok st') :
    (∀ eff, absEv content e = some (Ev.eff eff) → AllowedPre P d0 eff) ∧
    (∀ pn c, absEv (MetaRec := MetaRec) (WalRec := WalRec) (LogRec := LogRec) content e
        ≠ some (Ev.eff (.page File.fHt pn c))) ∧
    e.kind ≠ "Unlink" := by
  have key := checkEv_ok_evPre P d0 lnM bbnM lnB bbnB lnS bbnS hreach content st st' e h
  refine ⟨fun eff hab => key _ hab, ?_, ?_⟩
  · intro pn c hab
    have h1 : AllowedPre P d0 (.page File.fHt pn c) := key _ hab
    rcases h1.1 with h2 | h2 <;> cases h2
  · intro hk
    obtain ⟨msg, hm⟩ := T17_3_unlink_rejected lnM bbnM lnB bbnB lnS bbnS st e hk
    rw [hm] at h; cases h

/-- non-vacuity of T17.4: the tiny trace `ToyTrace.tr` (write the free page 2, write beyond the frontier, fsync, then
the switch-over followed by a table write) is accepted; its pre-switch-over part abstracts to two page writes and an
fsync, and these are `EvPre` events of the disk model instantiated with the decoder's marks (`markParams`). -/
example :
    (checkPlacement.go ToyTrace.img ToyTrace.m ToyTrace.lnM ToyTrace.bbnM ToyTrace.tr {}).toBool = true ∧
    ToyTrace.absTr = [Ev.eff (.page File.fLn 2 0), Ev.eff (.page File.fLn 5 0), Ev.fsync File.fLn] ∧
    (∀ ev ∈ ToyTrace.absTr, EvPre (markParams Nat) ToyTrace.d0 ev) := by
  refine ⟨ToyTrace.accepted, ToyTrace.abstraction, ?_⟩
  cases hgo : checkPlacement.go ToyTrace.img ToyTrace.m ToyTrace.lnM ToyTrace.bbnM ToyTrace.tr {} with
  | error msg => have := ToyTrace.accepted; rw [hgo] at this; cases this
  | ok st' =>
    exact go_ok_evPre (markParams Nat) ToyTrace.d0 ToyTrace.img ToyTrace.m ToyTrace.lnM ToyTrace.bbnM
      (fun f pn hr => hr) (fun _ => 0) ToyTrace.tr {} st' hgo

/-- … and a write to the leaf page 1 is rejected by the monitor and is not `AllowedPre` in that model. -/
example :
    (checkEv ToyTrace.lnM ToyTrace.bbnM 3 1 0 0 {}
      { kind := "Write", file := "ln", offset := 1 * PAGE, len := PAGE, site := "io.send" }).toBool = false ∧
    ¬ AllowedPre (markParams Nat) ToyTrace.d0 (.page File.fLn 1 0) := by
  refine ⟨by decide, ?_⟩
  intro h
  exact h.2 (Or.inl ⟨rfl, by decide, Or.inl (by decide)⟩)

end link

/-! ## The allocator clause: the free list writes its own pages only where nothing lives -/
section allocator
open Nomt.Store.FreeList

/-- T17.5 **the free-list pages a sync writes are fresh.**  `s` is the allocator state at `start_sync` (model of
`free_list.rs` / `allocator/mod.rs`, `Store/FreeListModel.lean`, tied to the real `FreeList` by the `alloc`
differential), well-shaped, with `cap ≥ 2` page numbers per free-list page; the sync performs `n` allocations and
frees `freed`.  Every page `w` that `finish` hands to `encode_head` (`r.written`) is a page that was FREE in the
previous state — an item of its free list not handed out by this sync — or lies at / beyond the frontier reached
by this sync's allocations.  Hence, when the tracked and the live pages of the previous state partition
`[1, bump)`:
* `w` is none of the pages that hold the previous free list (`headsOf s.portions`) — no free-list page of the
  previous state is rewritten in place;
* `w` is not a live page of the previous state;
* `w` is not handed out to the tree by this sync's allocations (`handedOut s n`).

Before repair F18 the first consequence was FALSE for the code and for the model that mirrored it: with
`cap = 2`, previous list = page 1 holding {2} on top of the full page 10 holding {12, 11}, no allocation and
`freed = [3]`, `commit` handed page 10 — a page of the previous list, untouched and full — to `encode_head`
(`written = [10, 2]`; in the Rust code: `FreeList::commit` with portions `[(10, full), (1, [2])]` and
`to_push = [3]` returned pages `[10, 2]`).  `push_and_encode` now skips the head that `preallocate` merely
uncovered (`head_untouched`), `written = [2]` (second example below), and the statement is provable. -/
theorem T17_5_written_pages_fresh (cap : Nat) (hc : 2 ≤ cap) (s : State) (n : Nat) (freed live : List Nat)
    (r : Committed) (hw : WellShaped cap s.portions) (hfin : finish cap s n freed = some r)
    (w : Nat) (hwr : w ∈ r.written) :
    (w ∈ (itemsOf s.portions).drop n ∨ s.bump + (n - (itemsOf s.portions).length) ≤ w) ∧
    (w ∈ itemsOf s.portions ∨ s.bump ≤ w) ∧
    ((∀ a, (a ∈ pagesOf s.portions ∨ a ∈ live) ↔ (1 ≤ a ∧ a < s.bump)) →
     (∀ a, ¬ (a ∈ pagesOf s.portions ∧ a ∈ live)) → (pagesOf s.portions).Nodup →
       w ∉ headsOf s.portions ∧ w ∉ live ∧ w ∉ handedOut s n) := by
  have h1 := finish_written hc hw hfin w hwr
  have h2 : w ∈ itemsOf s.portions ∨ s.bump ≤ w := by
    rcases h1 with h | h
    · exact Or.inl (List.mem_of_mem_drop h)
    · exact Or.inr (by omega)
  refine ⟨h1, h2, ?_⟩
  intro hu hd hn
  have hcnt := count_pages_eq w s.portions
  have hle : List.count w (pagesOf s.portions) ≤ 1 := List.nodup_iff_count.mp hn w
  have hlt_of_mem : ∀ a, a ∈ pagesOf s.portions → a < s.bump := fun a ha => ((hu a).mp (Or.inl ha)).2
  refine ⟨?_, ?_, ?_⟩
  · intro hh
    have c1 : 1 ≤ List.count w (headsOf s.portions) := List.one_le_count_iff.mpr hh
    rcases h2 with h | h
    · have c2 : 1 ≤ List.count w (itemsOf s.portions) := List.one_le_count_iff.mpr h
      omega
    · have : w ∈ pagesOf s.portions := List.one_le_count_iff.mp (by omega)
      have := hlt_of_mem w this
      omega
  · intro hl
    rcases h2 with h | h
    · exact hd w ⟨mem_items_mem_pages w _ h, hl⟩
    · have := ((hu w).mp (Or.inr hl)).2
      omega
  · intro hh
    have c1 : 1 ≤ List.count w (handedOut s n) := List.one_le_count_iff.mpr hh
    rw [count_handedOut] at c1
    have hsplit := congrArg (List.count w) (List.take_append_drop n (itemsOf s.portions))
    rw [List.count_append] at hsplit
    rcases h1 with h | h
    · have c2 : 1 ≤ List.count w ((itemsOf s.portions).drop n) := List.one_le_count_iff.mpr h
      have hwlt := hlt_of_mem w (mem_items_mem_pages w _ (List.mem_of_mem_drop h))
      have hr : rng w s.bump (s.bump + (n - (itemsOf s.portions).length)) = 0 := by
        unfold rng; split <;> omega
      omega
    · have hr : rng w s.bump (s.bump + (n - (itemsOf s.portions).length)) = 0 := by
        unfold rng; split <;> omega
      have ht : List.count w ((itemsOf s.portions).take n) = 0 := by
        rw [List.count_eq_zero]
        intro hm
        have := hlt_of_mem w (mem_items_mem_pages w _ (List.mem_of_mem_take hm))
        omega
      omega

/-- non-vacuity (capacity 2): previous frontier 13, live pages 3 … 9, free list = page 1 holding {2} over the
full page 10 holding {12, 11}.  One allocation (page 2) and one freed page (3): `discard` empties the head, the
rest of the old list is consumed for the new one; the sync writes the free-list pages 11 and 12 — both free
pages of the previous list, neither handed out — and the pages 1 and 10 that held the previous list become free
pages of the new one (they are not written). -/
example : (finish 2 { portions := [(1, [2]), (10, [12, 11])], released := [], pop := false, bump := 13 } 1 [3]).map
    (fun r => (r.written, r.state.portions, r.state.bump)) = some ([11, 12], [(12, [10]), (11, [1, 3])], 13) := by
  decide

/-- the configuration that exhibited F18, after the repair: only page 2 is written, page 10 is not -/
example : (commit 2 { portions := [(1, [2]), (10, [12, 11])], released := [], pop := false, bump := 100 } [3]).map
    (fun r => (r.written, r.state.portions)) = some ([2], [(2, [1, 3]), (10, [12, 11])]) := by decide

example : WellShaped 2 [(1, [2]), (10, [12, 11])] := by simp [WellShaped, TailFull]

end allocator

end Nomt.C17
