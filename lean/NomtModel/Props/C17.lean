import NomtModel.Store.Placement
import NomtModel.Store.PlacementAbs
import NomtModel.Props.C04
/-!
# C17 — The previous durable image stays intact until the switch-over

`checkPlacement` (`Store/Placement.lean`) is the monitor the Lean driver evaluates on (pre-image of the
real directory, real I/O trace of the operation).  The theorems state what its acceptance means — it is
sound for the property — and connect it to the hypothesis `EvPre` of the crash theorem (C04): the
page-write clause of `AllowedPre` ("only pages the old meta does not reach") is what the monitor decides
with `reach` := "the independent decoder marks the page as node / overflow page / free-list page".
-/
namespace Nomt.C17
open Nomt Nomt.Store

theorem pageCheck_ok (what : String) (marks : Array UInt8) (bump : Nat) (st st' : PlacementStats) (e : IoEv)
    (h : pageCheck what marks bump st e = .ok st') :
    e.offset / PAGE ≥ bump ∨ (marks[e.offset / PAGE]! ≠ 1 ∧ marks[e.offset / PAGE]! ≠ 2 ∧ marks[e.offset / PAGE]! ≠ 3) := by
  unfold pageCheck at h
  simp only at h
  split at h
  · cases h
  · split at h
    · cases h
    · split at h
      · rename_i hb; exact Or.inl hb
      · split at h
        · cases h
        · rename_i hm
          right
          simp only [Bool.or_eq_true, beq_iff_eq, not_or] at hm
          exact ⟨hm.1.1, hm.1.2, hm.2⟩

/-- T17.1 **no referenced `ln` / `bbn` page is overwritten**: if the monitor accepts a pre-switch-over page
write to `ln` (resp. `bbn`), the page is at or beyond the previous allocation frontier, or the previous state
does not use it as a node, an overflow page or a free-list page. -/
theorem T17_1_ln_write_target_unreferenced (lnM bbnM : Array UInt8) (lnB bbnB lnS bbnS : Nat)
    (st st' : PlacementStats) (e : IoEv) (hk : e.kind = "Write") (hf : e.file = "ln")
    (h : checkEv lnM bbnM lnB bbnB lnS bbnS st e = .ok st') :
    e.offset / PAGE ≥ lnB ∨ (lnM[e.offset / PAGE]! ≠ 1 ∧ lnM[e.offset / PAGE]! ≠ 2 ∧ lnM[e.offset / PAGE]! ≠ 3) := by
  unfold checkEv at h
  simp only [hk, hf, beq_self_eq_true, Bool.and_self, if_true] at h
  cases hp : pageCheck "ln" lnM lnB { st with preMetaEvents := st.preMetaEvents + 1 } e with
  | error m => simp [hp, Except.map] at h
  | ok s => exact pageCheck_ok _ _ _ _ _ _ hp

theorem T17_1b_bbn_write_target_unreferenced (lnM bbnM : Array UInt8) (lnB bbnB lnS bbnS : Nat)
    (st st' : PlacementStats) (e : IoEv) (hk : e.kind = "Write") (hf : e.file = "bbn")
    (h : checkEv lnM bbnM lnB bbnB lnS bbnS st e = .ok st') :
    e.offset / PAGE ≥ bbnB ∨ (bbnM[e.offset / PAGE]! ≠ 1 ∧ bbnM[e.offset / PAGE]! ≠ 2 ∧ bbnM[e.offset / PAGE]! ≠ 3) := by
  unfold checkEv at h
  have hne : ("bbn" == "ln") = false := by decide
  simp only [hk, hf, beq_self_eq_true, Bool.and_self, if_true, hne, Bool.and_false, Bool.false_eq_true, if_false] at h
  cases hp : pageCheck "bbn" bbnM bbnB { st with preMetaEvents := st.preMetaEvents + 1 } e with
  | error m => simp [hp, Except.map] at h
  | ok s => exact pageCheck_ok _ _ _ _ _ _ hp

/-- T17.2 **the hash table is untouched before the switch-over**: the monitor rejects every hash-table
page write in the pre-switch-over part of a trace. -/
theorem T17_2_ht_write_rejected (lnM bbnM : Array UInt8) (lnB bbnB lnS bbnS : Nat)
    (st : PlacementStats) (e : IoEv) (hk : e.kind = "Write") (hf : e.file = "ht") :
    ∃ msg, checkEv lnM bbnM lnB bbnB lnS bbnS st e = .error msg := by
  unfold checkEv
  have h1 : ("ht" == "ln") = false := by decide
  have h2 : ("ht" == "bbn") = false := by decide
  have h3 : ("Write" == "SetLen") = false := by decide
  simp [hk, hf, h1, h2, h3]

/-- T17.3 **nothing is unlinked before the switch-over** -/
theorem T17_3_unlink_rejected (lnM bbnM : Array UInt8) (lnB bbnB lnS bbnS : Nat)
    (st : PlacementStats) (e : IoEv) (hk : e.kind = "Unlink") :
    ∃ msg, checkEv lnM bbnM lnB bbnB lnS bbnS st e = .error msg := by
  unfold checkEv
  have h1 : ("Unlink" == "Write") = false := by decide
  have h2 : ("Unlink" == "SetLen") = false := by decide
  simp [hk, h1, h2]

/-- non-vacuity: on a tiny state (page 1 a leaf, page 2 free, frontier 3) a write to page 2 and one beyond
the frontier are accepted, a write to page 1 is rejected -/
example :
    (pageCheck "ln" #[0, 1, 4] 3 {} { kind := "Write", file := "ln", offset := 2 * PAGE, len := PAGE, site := "io.send" }).toBool = true ∧
    (pageCheck "ln" #[0, 1, 4] 3 {} { kind := "Write", file := "ln", offset := 5 * PAGE, len := PAGE, site := "io.send" }).toBool = true ∧
    (pageCheck "ln" #[0, 1, 4] 3 {} { kind := "Write", file := "ln", offset := 1 * PAGE, len := PAGE, site := "io.send" }).toBool = false := by
  refine ⟨?_, ?_, ?_⟩ <;> simp [pageCheck, PAGE, Except.toBool]

/-! ## Link to the hypothesis of the crash theorem (`Store/PlacementAbs.lean`)

`absEv` abstracts a concrete trace event to an event of the abstract disk of C04 (page writes of `ln` / `bbn` / `ht`
↦ `Eff.page f (offset / PAGE) _`, fsyncs ↦ `Ev.fsync`); `markReach lnM bbnM lnB bbnB f pn` := "the independent decoder
marks page `pn` of `f` as node / overflow page / free-list page (marks 1, 2, 3) and `pn` is below the old frontier";
`preMeta tr` is the part of the trace before the write of the meta page. -/
section link
open NomtDisk
variable {Content MetaRec WalRec LogRec TreeAbs : Type}

/-- T17.4 **monitor acceptance ⇒ `EvPre`** (whole trace): if `checkPlacement` accepts (pre-image, trace), then with the
meta and the marks it decoded from the pre-image, for EVERY disk model whose `reach` of the old meta is covered by
those marks, the abstraction of EVERY pre-switch-over event is an `EvPre` event — i.e. the page-write and fsync part
of hypothesis `hpre` of T4.1 / T4.2 holds for the real trace. -/
theorem T17_4_monitor_implies_AllowedPre (img : Image) (tr : List IoEv) (st : PlacementStats)
    (h : checkPlacement img tr = .ok st) :
    ∃ m x lnM bbnM, imageMeta img = .ok m ∧ wfDetailM img = .ok (x, lnM, bbnM) ∧
      ∀ (P : Params Content MetaRec WalRec TreeAbs) (d0 : Disk Content MetaRec WalRec LogRec),
        (∀ f pn, P.reach d0.mt f pn → markReach lnM bbnM m.lnBump m.bbnBump f pn) →
        ∀ (content : IoEv → Content), ∀ ev ∈ (preMeta tr).filterMap (absEv content), EvPre P d0 ev := by
  obtain ⟨m, x, lnM, bbnM, h1, h2, h3⟩ := checkPlacement_ok img tr st h
  exact ⟨m, x, lnM, bbnM, h1, h2, fun P d0 hreach content =>
    go_ok_evPre P d0 img m lnM bbnM hreach content tr {} st h3⟩

/-- T17.4a (one event): an accepted pre-switch-over event abstracts to an `EvPre` event — for a page write of `ln` /
`bbn` that is `AllowedPre`: the page is not reached by the old meta —; its abstraction is never a hash-table page
write; and it is never an unlink. -/
theorem T17_4a_event_implies_AllowedPre (P : Params Content MetaRec WalRec TreeAbs)
    (d0 : Disk Content MetaRec WalRec LogRec) (lnM bbnM : Array UInt8) (lnB bbnB lnS bbnS : Nat)
    (hreach : ∀ f pn, P.reach d0.mt f pn → markReach lnM bbnM lnB bbnB f pn)
    (content : IoEv → Content) (st st' : PlacementStats) (e : IoEv)
    (h : checkEv lnM bbnM lnB bbnB lnS bbnS st e = .ok st') :
    (∀ eff, absEv content e = some (Ev.eff eff) → AllowedPre P d0 eff) ∧
    (∀ pn c, absEv (MetaRec := MetaRec) (WalRec := WalRec) (LogRec := LogRec) content e
        ≠ some (Ev.eff (.page File.fHt pn c))) ∧
    e.kind ≠ "Unlink" := by
  have key := checkEv_ok_evPre P d0 lnM bbnM lnB bbnB lnS bbnS hreach content st st' e h
  refine ⟨fun eff hab => key _ hab, ?_, ?_⟩
  · intro pn c hab
    have h1 : AllowedPre P d0 (.page File.fHt pn c) := key _ hab
    rcases h1.1 with h2 | h2 <;> cases h2
  · intro hk
    obtain ⟨msg, hm⟩ := T17_3_unlink_rejected lnM bbnM lnB bbnB lnS bbnS st e hk
    rw [hm] at h; cases h

/-- non-vacuity of T17.4: the tiny trace `ToyTrace.tr` (write the free page 2, write beyond the frontier, fsync, then
the switch-over followed by a table write) is accepted; its pre-switch-over part abstracts to two page writes and an
fsync, and these are `EvPre` events of the disk model instantiated with the decoder's marks (`markParams`). -/
example :
    (checkPlacement.go ToyTrace.img ToyTrace.m ToyTrace.lnM ToyTrace.bbnM ToyTrace.tr {}).toBool = true ∧
    ToyTrace.absTr = [Ev.eff (.page File.fLn 2 0), Ev.eff (.page File.fLn 5 0), Ev.fsync File.fLn] ∧
    (∀ ev ∈ ToyTrace.absTr, EvPre (markParams Nat) ToyTrace.d0 ev) := by
  refine ⟨ToyTrace.accepted, ToyTrace.abstraction, ?_⟩
  cases hgo : checkPlacement.go ToyTrace.img ToyTrace.m ToyTrace.lnM ToyTrace.bbnM ToyTrace.tr {} with
  | error msg => have := ToyTrace.accepted; rw [hgo] at this; cases this
  | ok st' =>
    exact go_ok_evPre (markParams Nat) ToyTrace.d0 ToyTrace.img ToyTrace.m ToyTrace.lnM ToyTrace.bbnM
      (fun f pn hr => hr) (fun _ => 0) ToyTrace.tr {} st' hgo

/-- … and a write to the leaf page 1 is rejected by the monitor and is not `AllowedPre` in that model. -/
example :
    (checkEv ToyTrace.lnM ToyTrace.bbnM 3 1 0 0 {}
      { kind := "Write", file := "ln", offset := 1 * PAGE, len := PAGE, site := "io.send" }).toBool = false ∧
    ¬ AllowedPre (markParams Nat) ToyTrace.d0 (.page File.fLn 1 0) := by
  refine ⟨by decide, ?_⟩
  intro h
  exact h.2 (Or.inl ⟨rfl, by decide, Or.inl (by decide)⟩)

end link

end Nomt.C17
