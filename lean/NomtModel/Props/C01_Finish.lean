import NomtModel.Api.FinishExample
/-!
# C01 (topic: `Session::finish`) — the value changes `finish` hands to the B-tree / the overlay

`finish` pushes `tx.write_value(path, value)` for every `Write` / `ReadThenWrite` entry, in the order of the actuals;
the `ValueTransaction` (a `Vec`) is what `FinishedSession::commit` gives to `Store::commit` → `beatree` and what
`into_overlay` stores as the overlay's values.
-/
namespace Nomt.C01
open Nomt Nomt.Api Nomt.Split Nomt.Dlt Nomt.Finish
variable {Node VH V : Type} [DecidableEq Node] [DecidableEq VH]

/-- **T1_finish_value_changes — the change list is exactly the writes; reads change nothing.**  For every strictly
ascending actuals list (and everything `finish` needs to succeed: canonical view, 1…64 workers, …): the value
transaction is `writesOf actuals` — one entry per `Write(w)` / `ReadThenWrite(_, w)` with the value `w`, in key order,
nothing for a `Read` —, its keys are pairwise distinct (so "last write per key" is "the write"), and applying it to
the session's view `kv` gives, key by key, the written value for a written key and the OLD value for every key that is
not written (in particular for every key only read). -/
theorem T1_finish_value_changes (H : Hasher Node VH) (hs : H.Sound) (hv : V → VH) (L : Nat) (kv : KVL V)
    (hkl : ∀ x ∈ kv, x.1.length = L) (hks : KSorted kv)
    (P : Params) (h1 : 1 ≤ P.n) (h64 : P.n ≤ 64) (hL : 6 ≤ L) (hnsup : P.superseded = false)
    (hord : P.order.Perm (List.range P.n))
    (load : Key → Outcome Unit (Option V)) (viewV : Key → Option V) (hl : ∀ k, load k = .ok (viewV k))
    (hints : List Key) (a : Actuals V) (hal : ∀ x ∈ a, x.1.length = L) (has : ASorted a) :
    ∃ out, Finish.finish false H hv L P load hints (hashKV hv kv) a = .ok out ∧
      out.changes = writesOf a ∧ out.changes.map (·.1) = writtenKeys a ∧ WDistinct out.changes ∧
      (∀ k, kvGet (kvApply kv out.changes) k = (wsLookup (writesOf a) k).getD (kvGet kv k)) ∧
      (∀ k, k ∉ writtenKeys a → kvGet (kvApply kv out.changes) k = kvGet kv k) := by
  obtain ⟨delta, hfin, _⟩ := finalizeStep_total hl P hints a
  obtain ⟨bss0, w, _, _, hok⟩ := finish_ok H hs hv L (hashKV hv kv) (hashKV_len hv L kv hkl) (hashKV_sorted hv kv hks)
    P h1 h64 hL a hal has load hints hnsup delta hfin hord
  have hd := writesOf_distinct a has
  refine ⟨_, hok, rfl, Dlt.writesOf_keys a, hd, fun k => ?_, ?_⟩
  · show kvGet (kvApply kv (writesOf a)) k = _
    rw [kvGet_kvApply_distinct hks hd k]
    cases wsLookup (writesOf a) k <;> rfl
  intro k hk
  show kvGet (kvApply kv (writesOf a)) k = _
  rw [kvGet_kvApply_distinct hks hd k, wsLookup_none (writesOf a) k (by rw [Dlt.writesOf_keys]; exact hk)]

/-! ### instances -/
open Nomt.Finish.Ex

/-- non-vacuity: the mixed batch — four written keys, two reads leave nothing in the transaction -/
example : changesOf (Finish.Ex.run false 3 true true Finish.Ex.view mixed) =
    some [(k00000000, some 1), (k00000001, some 7), (k00000011, none), (k11000000, none)] ∧
    kvApply Finish.Ex.view (writesOf mixed) = [(k00000000, 1), (k00000001, 7), (k00000010, 2)] := by decide

example : ∃ out, Finish.finish false TH id 8 (P 3 true true) Finish.Ex.load [] (hashKV id Finish.Ex.view) mixed = .ok out ∧
    out.changes = writesOf mixed ∧ out.changes.map (·.1) = writtenKeys mixed ∧ WDistinct out.changes ∧
    (∀ k, kvGet (kvApply Finish.Ex.view out.changes) k = (wsLookup (writesOf mixed) k).getD (kvGet Finish.Ex.view k)) ∧
    (∀ k, k ∉ writtenKeys mixed → kvGet (kvApply Finish.Ex.view out.changes) k = kvGet Finish.Ex.view k) :=
  T1_finish_value_changes TH TH_sound id 8 Finish.Ex.view (by decide) (by unfold KSorted; decide) (P 3 true true) (by decide) (by decide)
    (by decide) rfl (List.Perm.refl _) Finish.Ex.load (kvGet Finish.Ex.view) (fun _ => rfl) _ mixed (by decide) (by decide)

/-- outside the hypothesis (release build, a key twice): both writes stay in the transaction, in order — applied in
order the last one wins -/
example : (match Finish.finishWith false TH id 8 { P 1 false false with debug := false } (proveSpec TH 8 Finish.Ex.view) Finish.Ex.load []
            Finish.Ex.view duplicate with | .ok o => some o.changes | _ => none) = some [(k00000001, some 7), (k00000001, some 8)] ∧
    kvGet (kvApply Finish.Ex.view [(k00000001, some 7), (k00000001, some 8)]) k00000001 = some 8 := by decide

end Nomt.C01
