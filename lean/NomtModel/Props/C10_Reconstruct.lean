import NomtModel.Store.BtReconLoop
/-!
# C10 — `reconstruct`: the branch index rebuilt at open holds exactly the live branch nodes of the image

Property theorem about the mirror `BtRecon.reconstruct` (`Store/BtReconstruct.lean`) of
`nomt/src/beatree/ops/reconstruction.rs`.  Helper lemmas: `Store/BtReconLemmas.lean`, `Store/BtReconLoop.lean`.  Tie to
the code: the `reopen` / `recon` lines of harness command `bttree` (the real `reconstruct` on the bbn files the real
syncs left, with the true free-page set and with doctored ones, vs the mirror; oracle: index after reopen = live index
before close).
-/
namespace Nomt.C10
open Nomt Nomt.Store Nomt.BtLookup Nomt.BtRecon

/-- **T10.reconstruct** — let the decoder of the image monitor accept the bbn file (`liveBranches bbn bump marks = .ok brs`:
every page below the bump is all zero, or tracked by the free list, or decodes as a branch node carrying its own page
number — `wfImage` demands this of every image), let the bump lie inside the file, let the first separator of every
live node be prefix-compressed or the prefix empty (true of every node the branch stage builds), and let the live
nodes have pairwise different first separators (`wfImage`: separators strictly ascending over all nodes).  Then
`reconstruct` over the file, with the free-page set the decoder used, ends without error and without reaching a panic
site of the bit-slice arithmetic, and the index it returns is ascending by key and holds EXACTLY the live branch nodes
of the image, each under its first separator: `(k, pn)` is an entry iff page `pn` is a live node whose first separator
is `k`.

What this says about STALE pages: a freed page that still holds its old node (its `bbn_pn` still equals its page number)
is kept out of the index only by `marks` — the free list read from the manifest's head — or by lying at / above the
bump; nothing in the page tells it from a live one.  `reconstruct` is sound exactly when the free list accounts for
every non-zero page below the bump that is not a node of the tree, which is the page-accounting clause of `wfImage`. -/
theorem T10_reconstruct_is_live_index (bbn : ByteArray) (bump : Nat) (marks : Array Bool) (brs : List (Nat × Branch))
    (hlive : liveBranches bbn bump marks = .ok brs) (hfile : 1 ≤ numPages bbn) (hbump : bump ≤ numPages bbn)
    (hpc : ∀ x ∈ brs, 1 ≤ x.2.prefixCompressed ∨ x.2.prefixLen = 0)
    (hinj : ∀ x ∈ brs, ∀ y ∈ brs, firstSep x = firstSep y → x = y) :
    ∃ idx, reconstruct bbn (fun pn => marks[pn]!) bump = .ok idx ∧ Asc idx ∧
      ∀ k pn, (k, pn) ∈ idx ↔ ∃ b, (pn, b) ∈ brs ∧ firstSep (pn, b) = k := by
  obtain ⟨hcls, hbrs⟩ := liveBranches_ok hlive
  have hmem : ∀ pn b, (pn, b) ∈ brs ↔ pn < bump ∧ live bbn marks pn = some (pn, b) := by
    intro pn b
    rw [hbrs, List.mem_filterMap]
    constructor
    · rintro ⟨q, hq, hl⟩
      have hq' : q < bump := List.mem_range.1 hq
      have : q = pn := by
        obtain ⟨o, ho⟩ := hcls q hq'
        have hlo := live_of_cls ho
        rw [hlo] at hl
        subst hl
        exact (cls_fst ho).symm
      subst this
      exact ⟨hq', hl⟩
    · rintro ⟨h1, h2⟩
      exact ⟨pn, List.mem_range.2 h1, h2⟩
  have hloop := reconLoop_spec bbn marks bump hcls
    (fun pn b hp hl => hpc (pn, b) ((hmem pn b).2 ⟨hp, hl⟩))
    (fun p q b c hp hq hb hc he => by
      have := hinj (p, b) ((hmem p b).2 ⟨hp, hb⟩) (q, c) ((hmem q c).2 ⟨hq, hc⟩) he
      injection this)
    bump 0 [] (by omega)
    ⟨List.Pairwise.nil, fun k q => by simp⟩
  obtain ⟨idx, hrun, hbuilt⟩ := hloop
  refine ⟨idx, ?_, hbuilt.asc, fun k pn => ?_⟩
  · unfold reconstruct
    have h1 : ¬ numPages bbn < 1 := by omega
    have h2 : ¬ bump > numPages bbn := by omega
    simp only [h1, h2, if_false]
    exact hrun
  · rw [hbuilt.mem k pn]
    constructor
    · rintro ⟨h1, b, h2, h3⟩; exact ⟨b, (hmem pn b).2 ⟨h1, h2⟩, h3⟩
    · rintro ⟨b, h1, h2⟩
      obtain ⟨h3, h4⟩ := (hmem pn b).1 h1
      exact ⟨h3, b, h4, h2⟩

/-! ### non-vacuity

A byte-level instance does not evaluate in the kernel in reasonable time (`pageOf` / `allZero` on 4096-byte pages); the
instance below only shows that the hypotheses are satisfiable.  The non-trivial instances are the real bbn files of the
`bttree` run: on every `reopen` / `recon` line the mirror's answer equals the real `reconstruct`'s, and with the true
free-page set both equal the live index before close. -/
example : ∃ idx, reconstruct (ByteArray.mk (Array.replicate 4096 0)) (fun pn => (#[] : Array Bool)[pn]!) 0 = .ok idx ∧ Asc idx :=
  let ⟨idx, h, ha, _⟩ := T10_reconstruct_is_live_index (ByteArray.mk (Array.replicate 4096 0)) 0 #[] [] rfl
    (by simp [numPages, PAGE, ByteArray.size]) (by omega) (fun _ h => by cases h) (fun _ h => by cases h)
  ⟨idx, h, ha⟩

end Nomt.C10
