import NomtModel.Store.BtLookupLemmas
/-!
# C16 (and C01) — the read path of the beatree at code level computes the specification of `T16_lookup`

Property theorems about the mirrors of `Store/BtLookup.lean`: `find_key_pos` / `search_branch` / `partial_lookup`
(`nomt/src/beatree/ops/mod.rs`), `Index::lookup` (`beatree/index.rs`), `LeafNode::get` (`beatree/leaf/node.rs`).  Helper
lemmas: `Store/BtLookupLemmas.lean`.  Tie to the code: the `get` / `rget` / `sb` / `lg` lines of harness command `bttree`
(every lookup of the real `Tree` and of its read transactions is answered through these mirrors on the decoded real
pages, and compared with the state machine's specification-level `viewGet`).
-/
namespace Nomt.C16
open Nomt Nomt.Store Nomt.BtLookup

/-- **T16.find_key_pos** — on a well-formed bottom-level branch node (separators strictly ascending, `prefix_len ≤ 256`,
at least the first separator prefix-compressed, the compressed separators carrying the stored prefix) the mirror of
`find_key_pos(branch, key, None)` — `Less` shortcut, `Greater`-and-all-compressed shortcut, else the `while low < high`
loop with `get_key(branch, mid)` — reaches no panic site, never runs out of fuel, and returns `(true, i)` when
separator `i` equals the key and `(false, number of separators below the key)` otherwise. -/
theorem T16_find_key_pos {nd : BNode} (h : NodeWF nd) (key : Nat) :
    findKeyPos nd key none = .ok (fkpSpec nd.seps key) := findKeyPos_spec h key

/-- **T16.search_branch** — on such a node `search_branch` returns, without a panic, the child `findLeaf` (the
specification the image theorem `T16_lookup` is stated with) selects — the last separator `≤ key` — together with its
index in the node; `None` iff the key is below the first separator. -/
theorem T16_search_branch {nd : BNode} (h : NodeWF nd) (key : Nat) :
    ∃ r, searchBranch nd key = .ok r ∧ r.map (·.2) = findLeaf nd.seps key ∧
      ∀ i pn, r = some (i, pn) → ∃ s, nd.seps[i]? = some (s, pn) ∧ s ≤ key := searchBranch_spec h key

/-- **T16.partial_lookup** — on a well-formed index (every node well formed and stored under its first separator, the
separators ascending across the nodes) `Index::lookup` (`get_prev`) followed by `search_branch` names, without a panic,
exactly the leaf page `findLeaf` selects among ALL `(separator, leaf)` pairs of the tree. -/
theorem T16_partial_lookup (idx : Index) (h : IndexWF idx) (key : Nat) :
    partialLookup idx key = .ok (findLeaf idx.flat key) := partialLookup_spec idx key h

/-- **T16.leaf_get** — on a leaf whose keys ascend strictly, `LeafNode::get` (the toolchain's `binary_search_by` over
the cell pointers, then the cell) returns, without a panic, the cell and the overflow flag of THE entry with the key,
and `None` iff there is none. -/
theorem T16_leaf_get (es : List LeafEntry) (key : Nat) (h : LeafAsc es) :
    leafGet es key = .ok (leafSpec es key) := leafGet_spec es key h

/-- **T16.route-by-separators** (the C10 link: lookups after reopen = lookups before close) — two well-formed indexes
that hold the same `(separator, leaf page)` pairs — however the pairs are grouped into branch nodes, under whatever page
numbers the nodes live, in whatever order they were inserted — route EVERY key to the same leaf page, without a panic.
With `T10_reconstruct_is_live_index` (the index rebuilt at open holds exactly the live nodes of the image, which are the
nodes of the index the last sync left) the `partial_lookup` of the reopened tree equals that of the tree before close. -/
theorem T16_route_depends_on_separators_only (a b : Index) (ha : IndexWF a) (hb : IndexWF b)
    (hsame : ∀ x, x ∈ a.flat ↔ x ∈ b.flat) (key : Nat) :
    partialLookup a key = partialLookup b key ∧ partialLookup a key = .ok (findLeaf a.flat key) := by
  rw [partialLookup_spec a key ha, partialLookup_spec b key hb, findLeaf_congr ha.asc hb.asc hsame key]
  exact ⟨rfl, rfl⟩

/-! ### non-vacuity: prefix `01`, two compressed separators and an uncompressed one; a two-node index -/

def exNode : BNode :=
  { bbnPn := 3, pl := 2, pc := 2, pfx := 1,
    seps := [(2 ^ 254, 10), (2 ^ 254 + 2 ^ 200, 11), (3 * 2 ^ 254, 12)] }

theorem exNode_wf : NodeWF exNode where
  ne := by decide
  asc := by unfold Asc exNode; decide
  pl_le := by decide
  pc_pos := by decide
  share := by
    intro i e hi he
    have : i = 0 ∨ i = 1 := by simp only [exNode] at hi; omega
    rcases this with rfl | rfl <;> (simp [exNode] at he; subst he; decide)

/-- the `Less` shortcut, an exact hit, a key between two separators (binary search), a key above all -/
example : searchBranch exNode 5 = .ok none ∧
    searchBranch exNode (2 ^ 254 + 2 ^ 200) = .ok (some (1, 11)) ∧
    searchBranch exNode (2 ^ 255) = .ok (some (1, 11)) ∧
    searchBranch exNode (2 ^ 256 - 1) = .ok (some (2, 12)) := by decide

def exNode0 : BNode := { bbnPn := 2, pl := 0, pc := 1, pfx := 0, seps := [(0, 7), (2 ^ 200, 8)] }

example : partialLookup [(0, exNode0), (2 ^ 254, exNode)] (2 ^ 250) = .ok (some 8) ∧
    partialLookup [(0, exNode0), (2 ^ 254, exNode)] (2 ^ 255) = .ok (some 11) ∧
    findLeaf (Index.flat [(0, exNode0), (2 ^ 254, exNode)]) (2 ^ 255) = some 11 := by decide

/-- the same five separators grouped differently (one node / two nodes) -/
def exNodeAll : BNode :=
  { bbnPn := 9, pl := 0, pc := 1, pfx := 0,
    seps := [(0, 7), (2 ^ 200, 8), (2 ^ 254, 10), (2 ^ 254 + 2 ^ 200, 11), (3 * 2 ^ 254, 12)] }

example : partialLookup [(0, exNodeAll)] (2 ^ 255) = partialLookup [(0, exNode0), (2 ^ 254, exNode)] (2 ^ 255) ∧
    (∀ x, x ∈ Index.flat [(0, exNodeAll)] ↔ x ∈ Index.flat [(0, exNode0), (2 ^ 254, exNode)]) := by
  refine ⟨by decide, fun x => ?_⟩
  have : Index.flat [(0, exNodeAll)] = Index.flat [(0, exNode0), (2 ^ 254, exNode)] := by decide
  rw [this]

end Nomt.C16
