import NomtModel.Store.StageGlueUpdate
import NomtModel.Store.LeafUpdKV
import NomtModel.Store.BranchUpdExamples
import NomtModel.Store.StageGlueFilterMulti
import NomtModel.Store.ExtRangeToy
/-!
# C01 — the whole beatree update (`ops::update`: leaf stage → branch stage) is the sequential model

Property theorems about the mirror `Store/StageGlueModel.lean` of the GLUE of the update: `ops::update`,
`leaf_stage::run` outside the `LeafUpdater` (tracker calls of `run_worker`, `apply_worker_changes`,
`filter_leaves_changeset`, `enforce_first_leaf_separator`), `branch_stage::run` outside the `BranchUpdater`
(`apply_bbn_changes`, `filter_branch_changeset`, `apply_changes_to_index`) — for one worker; tied to the real code by
`vharness stageglue` / `nomt_model stageglue` (hook `verif_api::stage_glue`: the real `ops::update` end to end, the real
`enforce_first_leaf_separator` and `filter_*_changeset` on caller-supplied lists).  The per-node updaters are the mirrors of
`Store/LeafUpdModel.lean` / `Store/BranchUpdModel.lean`; their stage theorems (`T1_leaf_update_is_kvApply`,
`T1_branch_update_is_kvApply`, `T16_branch_level_closed`) are composed here.

Vocabulary: `TreeOK t` — a beatree, the EMPTY one (no leaf, no branch node: a fresh store) included: `LeafUpd.DbOK` leaves,
none empty, the first under the zero key; a
`BranchUpd.DbOK kfReal` branch level; the branch level lists exactly (separator, page number) of the leaves.
`UpdateOK` — `Store/StageGlueUpdate.lean`.  `lnFresh k` / `bbnFresh k` = the page the `k`-th `allocate()` of the sync
returns in the leaf / bbn store; `a0` = the pages `overflow::chunk` took for the `InsertOverflow` values of the batch.
-/
namespace Nomt.C01
open Nomt Nomt.StageGlue
open Nomt.LeafUpd (Entry DbLeaf OutLeaf Leaf CellSize applyAll toKV toW encBits encBits_orderEmb map_applyAll)
open Nomt.BranchUpd (kfReal)

variable {V : Type} [CellSize V]

/-- **T1.update_is_kvApply** — the whole `ops::update` (both stages, one worker, the code as it is) on EVERY well-formed
tree — the empty tree of a fresh or emptied store included — with content `S` and ANY ascending batch `cs` (also the empty
one, one that changes no leaf — finding F11's batch on the empty tree —, one that empties the first leaf, a run of leaves or
the whole tree, one that refills an emptied tree):
* reaches no panic site — none of the two updaters, not `assert!(entry.deleted.is_none())` of `NodesTracker::delete`, not the
  `assert!`s of `filter_*_changeset` nor `branch_changeset.len() - 1` (the branch twin of F11's site), not the `unwrap` /
  indexings of `enforce_first_leaf_separator` — and every loop terminates;
* the leaves it leaves behind hold exactly `kvApply S cs` (256-bit keys, the cell with its overflow flag as value);
* the new branch level is well formed (`BranchUpd.DbOK kfReal`) and its entries are exactly (separator, page number) of the
  new leaves, left to right, the first one under the ZERO KEY, the others under the separator the leaf stage gave them;
  an untouched leaf keeps its page number, the `i`-th produced leaf sits at `lnFresh (a0 + i)`;
* the new leaves are non-empty, within a page, at least half full unless rightmost (`NewGood`), their separators ascend
  and bound their keys (`OutUpTo`). -/
theorem T1_update_is_kvApply (pagesOf : V → List Nat) (lnFresh bbnFresh : Nat → Nat) (a0 : Nat) (t : Tree V)
    (cs : List (Nat × Option (V × Bool))) (lo : Nat) (ht : TreeOK t) (hcs : LeafUpd.ChOK (2 ^ 256) lo cs)
    (ha0 : cs = [] → a0 = 0) :
    ∃ o, update LeafUpd.sepReal kfReal pagesOf lnFresh bbnFresh false t cs a0 = some o ∧
      (LeafUpd.flatOut o.leafLevel).map (toKV (encBits 256)) =
        kvApply ((LeafUpd.flat t.leaves).map (toKV (encBits 256))) (cs.map (toW (encBits 256))) ∧
      BranchUpd.DbOK kfReal o.index ∧
      BranchUpd.flat o.index = relabel0 (lvlEnts (lvlOf t.lpn lnFresh a0 o.leafLevel)) ∧
      (∀ e, (BranchUpd.flat o.index).head? = some e → e.key = 0) ∧
      OutAsc o.leafLevel ∧ (∀ l, OutLeaf.new l ∈ o.leafLevel → LeafUpd.NewGood l) ∧
      (∀ l, OutLeaf.old l ∈ o.leafLevel → l ∈ t.leaves) ∧ (∃ s, LeafUpd.OutUpTo o.leafLevel s) := by
  obtain ⟨o, e, h⟩ := update_spec pagesOf lnFresh bbnFresh a0 t cs lo ht hcs ha0
  refine ⟨o, e, ?_, h.index, h.level, ?_, h.asc, h.news, h.olds, h.chain⟩
  · rw [h.content]
    exact map_applyAll encBits_orderEmb cs ht.leaves.ok.sorted ht.leaves.ok.sizeOK.2 (LeafUpd.ChOK.keys_lt hcs)
  · intro x hx
    rw [h.level] at hx
    cases hl : lvlEnts (lvlOf t.lpn lnFresh a0 o.leafLevel) with
    | nil => rw [hl] at hx; cases hx
    | cons y r =>
      rw [hl] at hx
      simp only [relabel0, List.head?_cons, Option.some.injEq] at hx
      rw [← hx]

/-- **T1.filter_changeset_spec** — `filter_leaves_changeset` / `filter_branch_changeset` on the concatenation `l` of the
workers' changed-node lists, in any order of arrival.  Producer invariant `PairInv (sortCs l)`: in key order a separator
occurs at most twice, and if twice then one entry is a deletion and the other an insertion.  Then no `assert!` fires
(and, for the branch twin, `len() - 1` does not underflow when `l ≠ []`), the result is ascending with every separator
ONCE, and a separator that has an insertion keeps the insertion (`mergePairs`); a list that is already ascending — one
worker — comes back unchanged. -/
theorem T1_filter_changeset_spec {α : Type} (leaf : Bool) (l : List (Nat × Option α)) (hne : leaf = true ∨ l ≠ [])
    (h : PairInv (ExtRange.sortCs l)) :
    ExtRange.filterCs leaf l = some (mergePairs (ExtRange.sortCs l)) ∧
      (mergePairs (ExtRange.sortCs l)).Pairwise (fun a b => a.1 < b.1) ∧
      (∀ c ∈ mergePairs (ExtRange.sortCs l), ∃ c' ∈ ExtRange.sortCs l, c'.1 = c.1) ∧
      (l.Pairwise (fun a b => a.1 < b.1) → ExtRange.filterCs leaf l = some l) :=
  ⟨filterCs_spec leaf l hne h, (mergePairs_asc _ h).1, (mergePairs_asc _ h).2, fun ha => filterCs_of_asc leaf l hne ha⟩

/-- **T1.filter_disjoint_workers** — several workers.  If every worker's list is in key order (its tracker is a `BTreeMap`) and
NO separator is held by two workers' trackers, then for the concatenation of the lists in ANY order of completion:
`filter_*_changeset` reaches neither of its `assert!`s (nor `len() - 1` on a non-empty list), removes nothing, and returns
the strictly ascending sort of all entries — the duplicate branch is dead and `PairInv` holds trivially.  The premise is an
invariant of the extend-range protocol that is NOT proved here for every schedule (an `ExtendRangeResponse` MOVES entries
out of the responder's tracker, `T19_answer_conserves_entries`; ranges are adjacent, `T16_ranges_adjacent_every_schedule`;
what is missing: "every key of a worker's tracker lies inside its current range", which needs the updaters' lower
bounds on the separators they emit); it is kernel-checked on the toy instances below and was measured on the real code
(1 439 multi-worker stage runs, 10 670 tracker keys: no key in two trackers). -/
theorem T1_filter_disjoint_workers {α : Type} (leaf : Bool) (parts : List (List (Nat × Option α)))
    (hasc : ∀ p ∈ parts, p.Pairwise (fun a b => a.1 < b.1))
    (hdis : parts.Pairwise (fun p q => ∀ a ∈ p, ∀ b ∈ q, a.1 ≠ b.1)) (hne : leaf = true ∨ parts.flatten ≠ []) :
    ExtRange.filterCs leaf parts.flatten = some (ExtRange.sortCs parts.flatten) ∧
      (ExtRange.sortCs parts.flatten).Pairwise (fun a b => a.1 < b.1) ∧
      (ExtRange.sortCs parts.flatten).Perm parts.flatten :=
  filterCs_of_nodup leaf _ hne (keys_nodup_of_disjoint parts hasc hdis)

/-- the separators of the entries every worker hands to `apply_*_changes` when all workers have returned, worker by worker -/
def finalKeys {σ N C : Type} (g : ExtRange.G σ N C) : List (List Nat) :=
  (List.range g.n).map fun i => (ExtRange.workerChanges (g.ws i)).1.map (·.1)

/-- the toy stage with two workers under the schedule `s` followed by round robin: the workers' final separators -/
def toyFinalKeys (nodes : List (List Nat)) (cs : List (Nat × Bool)) (s : List Nat) : Option (List (List Nat)) :=
  let db := ExtRange.Toy.mkDb nodes
  let wps := ExtRange.prepareWorkers (ExtRange.Toy.look db) (cs.map (·.1)) 2
  let g0 := ExtRange.initG ExtRange.Toy.upd {} db cs wps
  match ExtRange.runSched ExtRange.Toy.upd {} db s g0 with
  | .inl _ => none
  | .inr g1 =>
    match ExtRange.runPolicy ExtRange.Toy.upd {} db (List.range g1.n) 1 400 g1 with
    | some (.inr g) => some (finalKeys g)
    | _ => none

/-- **T1.workers_trackers_disjoint_partial** (kernel-checked, Q30's toy updater) — on the instance "under-full last node +
emptied first node of the right worker + granted unchanged range + second merge" under ALL 128 schedules whose first 21 steps
are 7 freely chosen bursts of either worker: when the workers have returned no separator is held by both, although entries
did travel from the right worker to the left one (the left worker ends with the separators 30, 33, 40 of the right worker's
initial range; every schedule ends with the same two lists) — the premise of `T1_filter_disjoint_workers`. -/
theorem T1_workers_trackers_disjoint_partial :
    (ExtRange.Toy.allPicks 7).all (fun s =>
      match toyFinalKeys ExtRange.Toy.lvlA ExtRange.Toy.csA (s.flatMap fun i => [i, i, i]) with
      | some ks => decide (ks.flatten.Nodup) && decide (ks.length = 2)
      | none => false) = true ∧
    toyFinalKeys ExtRange.Toy.lvlA ExtRange.Toy.csA [] = some [[10, 20, 30, 33, 40], [50]] := by
  constructor <;> decide +kernel

/-- **T1.filter_three_equal_keys_example** (kernel-checked; the question of `notes/Q30.md` (e) 5) — outside the producer
invariant: three entries under one separator `(Some a, None, Some b)` pass both `assert!`s, index 1 is collected twice, and
the removal from the back deletes the entries at positions 1 AND 2: the FIRST insertion survives, the last one is dropped
(the real functions answer the same: `fl` / `fb` lines of `vharness stageglue`).  `(None, Some, None)` keeps the
insertion; two insertions or two deletions in a row trip an `assert!`; the empty list is fine for the leaf twin and
underflows `len() - 1` in the branch twin. -/
theorem T1_filter_three_equal_keys_example :
    ExtRange.filterCs true [(5, some 1), (5, none), (5, some 2)] = some [(5, some 1)] ∧
    ExtRange.filterCs true [(5, (none : Option Nat)), (5, some 7), (5, none)] = some [(5, some 7)] ∧
    ExtRange.filterCs true [(5, some 1), (5, some 2)] = none ∧
    ExtRange.filterCs true [(5, (none : Option Nat)), (5, none)] = none ∧
    ExtRange.filterCs true ([] : List (Nat × Option Nat)) = some [] ∧
    ExtRange.filterCs false ([] : List (Nat × Option Nat)) = none := by
  decide

/-! ## finding F11: the first commit of a store that changes no leaf -/

/-- the empty tree of a fresh store -/
def emptyTree : Tree Nat := { index := [], leaves := [], lpn := fun _ => 0 }

theorem emptyTree_ok : TreeOK emptyTree where
  leaves := ⟨trivial, (by intro l hl; cases hl), (by intro l hl; cases hl)⟩
  index := trivial
  level := rfl

/-- **T1.F11_first_commit_changes_no_leaf** — finding F11 as a theorem about the repaired code: on the EMPTY tree a batch
that only deletes (absent) keys — `Write(None)` of keys that were never written, the first commit of a store — goes through
`ops::update` without reaching a panic site: the leaf changeset is empty, `filter_leaves_changeset` (with
`saturating_sub`) returns it, the branch stage returns early, nothing is allocated or released, the tree stays empty. -/
theorem T1_F11_first_commit_changes_no_leaf {V : Type} [CellSize V] (pagesOf : V → List Nat) (lnFresh bbnFresh : Nat → Nat)
    (t : Tree V) (ht : TreeOK t) (hempty : t.leaves = []) (cs : List (Nat × Option (V × Bool))) (lo : Nat)
    (hcs : LeafUpd.ChOK (2 ^ 256) lo cs) (hdel : ∀ c ∈ cs, c.2 = none) :
    ∃ o, update LeafUpd.sepReal kfReal pagesOf lnFresh bbnFresh false t cs 0 = some o ∧
      o.leafLevel = [] ∧ BranchUpd.flat o.index = [] ∧ o.lnFreed = [] := by
  obtain ⟨o, e, h⟩ := update_spec pagesOf lnFresh bbnFresh 0 t cs lo ht hcs (fun _ => rfl)
  have hflat : LeafUpd.flatOut o.leafLevel = [] := by
    rw [h.content, hempty]
    have key : ∀ (cs : List (Nat × Option (V × Bool))), (∀ c ∈ cs, c.2 = none) →
        applyAll ([] : List (Entry V)) cs = [] := by
      intro cs
      induction cs with
      | nil => intro _; rfl
      | cons c r ih =>
        intro hd
        show applyAll (LeafUpd.write1 [] c.1 c.2) r = []
        rw [hd c (by simp)]
        exact ih (fun c' hc' => hd c' (by simp [hc']))
    exact key cs hdel
  have hlvl : o.leafLevel = [] := by
    cases hl : o.leafLevel with
    | nil => rfl
    | cons a r =>
      exfalso
      have hne : a.ents ≠ [] := by
        cases a with
        | old l => have := h.olds l (by rw [hl]; simp); rw [hempty] at this; cases this
        | new l => exact (h.news l (by rw [hl]; simp)).1
      rw [hl] at hflat
      have : a.ents = [] := by
        have e2 : LeafUpd.flatOut (a :: r) = a.ents ++ LeafUpd.flatOut r := rfl
        rw [e2] at hflat
        exact (List.append_eq_nil_iff.1 hflat).1
      exact hne this
  refine ⟨o, e, hlvl, by rw [h.level, hlvl]; rfl, ?_⟩
  obtain ⟨fl, h1, h2⟩ := h.ln_freed
  rw [hempty] at h1 h2
  simp only [List.filter_nil, List.map_nil] at h2
  rw [h1, List.Perm.eq_nil h2]
  simp [LeafUpd.flat, LeafUpd.ovfLog]

/-- **T1.F11_len_minus_one_counterexample** (kernel-checked) — the code BEFORE the repair of F11 (flag `f11` of the mirror:
`filter_leaves_changeset` computes `leaf_changeset.len() - 1` the way `filter_branch_changeset` still does): the same first
commit — the empty tree, one deletion of an absent key — reaches the underflow (`none`), while the code as it is returns the
empty tree; on a non-empty changeset the two variants agree. -/
theorem T1_F11_len_minus_one_counterexample :
    update LeafUpd.sepReal kfReal (fun _ : Nat => []) (fun k => 100 + k) (fun k => 200 + k) false emptyTree
      [(7, none)] 0 true = none ∧
    (update LeafUpd.sepReal kfReal (fun _ : Nat => []) (fun k => 100 + k) (fun k => 200 + k) false emptyTree
      [(7, none)] 0).map (fun o => (o.leafChangeset, o.index.length, o.lnFreed)) = some ([], 0, []) ∧
    (update LeafUpd.sepReal kfReal (fun _ : Nat => []) (fun k => 100 + k) (fun k => 200 + k) false emptyTree
      [(7, some (20, false))] 0 true).map (fun o => (o.leafChangeset, (BranchUpd.flat o.index).map fun e => (e.key, e.val))) =
      some ([(0, some 100)], [(0, 100)]) := by
  decide +kernel

/-- the first commit of a store that writes: the hypotheses of `T1_update_is_kvApply` hold on the empty tree, and
(kernel-evaluated) two inserted keys give ONE leaf under the ZERO key at the first allocated page and one branch node -/
example : TreeOK emptyTree ∧
    (update LeafUpd.sepReal kfReal (fun _ : Nat => []) (fun k => 100 + k) (fun k => 200 + k) false emptyTree
      [(7, some (20, false)), (9, some (30, false))] 0).map
      (fun o => (o.leafChangeset, (BranchUpd.flat o.index).map (fun e => (e.key, e.val)), o.index.map (·.bbn))) =
      some ([(0, some 100)], [(0, 100)], [200]) :=
  ⟨emptyTree_ok, by decide +kernel⟩

/-! ## non-vacuity and the seeded change at the level of the whole update -/

open Nomt.BranchUpd (exKey exNode)

/-- three leaves of two values each under one branch node -/
def exTree : Tree Nat where
  index := [⟨0, 1, exNode [(0, 10), (exKey 1 0, 11), (exKey 2 0, 12)]⟩]
  leaves := [⟨0, [⟨5, 1300, false⟩, ⟨7, 1300, false⟩]⟩,
             ⟨exKey 1 0, [⟨exKey 1 0 + 1, 1300, false⟩, ⟨exKey 1 0 + 2, 1300, false⟩]⟩,
             ⟨exKey 2 0, [⟨exKey 2 0 + 1, 1300, false⟩, ⟨exKey 2 0 + 2, 1300, false⟩]⟩]
  lpn := fun s => if s = 0 then 10 else if s = exKey 1 0 then 11 else 12

/-- every key of leaf 0 deleted, leaf 1 untouched, leaf 2 emptied -/
def exBatch : List (Nat × Option (Nat × Bool)) :=
  [(5, none), (7, none), (exKey 2 0 + 1, none), (exKey 2 0 + 2, none)]

theorem exTree_ok : TreeOK exTree where
  leaves := {
    ok := by
      refine ⟨⟨?_, ?_, ?_, ?_, ?_⟩, ⟨?_, ?_, ?_, ?_, ?_⟩, ⟨?_, ?_, ?_, ?_, ?_⟩⟩
      all_goals first
        | (simp only [LeafUpd.Sorted]; decide)
        | (simp only [LeafUpd.SizeOK, LeafUpd.Entry.size, CellSize.size, LeafUpd.MAXV, Nomt.Gen.MAX_LEAF_VALUE_SIZE]; decide)
        | (simp only [LeafUpd.KeysBelow]; decide)
        | decide
        | (intro c hc; cases hc; decide)
        | (intro c hc; cases hc)
    nonempty := by decide
    zero := by intro l hl; simp [exTree] at hl; subst hl; rfl }
  index := by decide +kernel
  level := by decide +kernel

/-- the hypotheses of `T1_update_is_kvApply` are met by a concrete tree and a batch that empties the first and the third
leaf; the update exists, and (kernel-evaluated) it points the zero key at leaf 1's page 11 and releases pages 10 and 12 -/
example : TreeOK exTree ∧ LeafUpd.ChOK (2 ^ 256) 0 exBatch ∧
    (update LeafUpd.sepReal kfReal (fun _ => []) (fun k => 100 + k) (fun k => 200 + k) false exTree exBatch 0).map
      (fun o => (o.leafChangeset, o.lnFreed, (BranchUpd.flat o.index).map fun e => (e.key, e.val))) =
      some ([(0, some 11), (exKey 1 0, none), (exKey 2 0, none)], [10, 12], [(0, 11)]) := by
  refine ⟨exTree_ok, ?_, by decide +kernel⟩
  simp only [exBatch, LeafUpd.ChOK]
  refine ⟨by decide, by decide, ?_, by decide, by decide, ?_, by decide, by decide, ?_, by decide, by decide, ?_, trivial⟩
  all_goals (intro v o h; cases h)

/-- **T1.seeded_first_leaf_separator_update_counterexample** (kernel-checked) — the whole update with the seeded change
`C01-first-leaf-separator-skips-untouched` (flag `seeded` of the mirror) on the well-formed tree above: the zero key is
pointed at page 12 — the page of the emptied leaf 2, which the same update RELEASES — and leaf 1 stays under its old
separator: every key below `exKey 1 0` is routed to a released page, and the content of the tree read through the
index is no longer `kvApply`; the code as it is gives `[(0, 11)]`. -/
theorem T1_seeded_first_leaf_separator_update_counterexample :
    (update LeafUpd.sepReal kfReal (fun _ => []) (fun k => 100 + k) (fun k => 200 + k) true exTree exBatch 0).map
      (fun o => (o.lnFreed, (BranchUpd.flat o.index).map fun e => (e.key, e.val))) =
      some ([10, 12], [(0, 12), (exKey 1 0, 11)]) := by
  decide +kernel

end Nomt.C01
