import NomtModel.Api.Locks2Chain
import NomtModel.Api.Locks2Replay
/-!
# C15 / C11 (topic: a session on a SUPERSEDED overlay chain never produces a changeset — the repair of F23)

F23 (found by the lock recorder): a session begun on a chain of overlays whose base was no longer the committed state
computed its changes from the pages of the wrong state; after a rollback to the old base its overlay was accepted and the
store published a root that is not the root of its content.  Repair: `begin_session` compares — under `shared`, AFTER
taking the read guard — the committed root with the state the chain was built on (`base_superseded`), and
`Session::finish` refuses when it is set.  The LTS carries the flag (`sessBase`, `finChk`, `Api/Locks2Chain.lean`).

Why comparing ONCE, at the start, is enough is a locking fact: the committed root cannot change while the session's read
guard is held (T15.5).  So, for every interleaving of the code's calls:

* `T15_superseded_flag_exact` — the flag of a live session is exact for as long as the session lives;
* `T15_superseded_chain_never_commits` — `finish` of a session whose chain does not stand on the committed state is
  refused: the read guard is dropped, the call returns `errSuperseded` (never `ok`: no `FinishedSession`, no overlay, hence
  no write section of a linearized execution — T15.6 — stems from such a session), nothing else changes;
* `T15_finish_accepted_base_current` — a `finish` that goes on belongs to a session whose chain's base IS the committed
  root at that moment (and was, during the whole session).
-/
namespace Nomt.C15
open Nomt.Locks2
variable {C R W D : Type} [DecidableEq R] (ops : DbOps C R W D)

/-- T15.superseded-a **the flag is exact for the whole life of the session**: in every reachable state, a live session
that compared its chain's base `b` has `stale = (committed root NOW ≠ b)`. -/
theorem T15_superseded_flag_exact (db0 : Db C R D) (evs : List (Event R W D)) (hc : ∀ e ∈ evs, e.isCode = true) :
    let s := run ops (init db0) evs
    ∀ x ∈ s.readers, ∀ b, x.chain = some b → x.stale = decide (s.db.root ≠ b) := by
  intro s x hx b hb
  have h1 : Inv1 s := inv1_run ops evs _ hc (inv1_init db0)
  have h2 : ChainOk s := chainOk_run ops evs _ hc (inv1_init db0) (chainOk_init db0)
  rw [← (h1.snap x hx).2.1]
  exact h2 x hx b hb

/-- T15.superseded-b **a session on a superseded chain never produces a changeset**: in every reachable state, if thread
`t` is at the check of `Session::finish` for its session `sid`, whose chain was built on `b`, and the committed root is
not `b`, then the step replaces the rest of `finish` by "drop the session, return `errSuperseded`": two more
(never blocking) steps and the call has returned the error; the committed state and the other sessions are untouched. -/
theorem T15_superseded_chain_never_commits (db0 : Db C R D) (evs : List (Event R W D))
    (hc : ∀ e ∈ evs, e.isCode = true) (t : Tid) (sid : Nat) (rest : List (Instr R W D)) (b : R) :
    let s := run ops (init db0) evs
    (s.thr t).prog = .finChk sid :: rest →
    (∃ x ∈ s.readers, x.owner = t ∧ x.sid = sid ∧ x.chain = some b) → s.db.root ≠ b →
    let s1 := (next ops s (.step t)).1
    (s1.thr t).prog = [.aReadUnlock sid, .ret .errSuperseded] ∧ s1.db = s.db ∧ s1.readers = s.readers ∧
    (next ops (next ops s1 (.step t)).1 (.step t)).2 = .finished .errSuperseded := by
  intro s hp hx hne s1
  obtain ⟨x, hxm, hxo, hxs, hxc⟩ := hx
  have hst : x.stale = true := by
    have := T15_superseded_flag_exact ops db0 evs hc x hxm b hxc
    rw [this]; simpa using hne
  have hany : s.readers.any (fun y => y.owner == t && y.sid == sid && y.stale) = true := by
    simp only [List.any_eq_true]
    exact ⟨x, hxm, by simp [hxo, hxs, hst]⟩
  obtain ⟨e1, e2, e3⟩ := exec_finChk ops s t sid rest
  have hs1 : s1 = (exec ops s t (.finChk sid) rest).1 := by simp [s1, next, hp]
  rw [hany] at e1
  simp only [if_true] at e1
  refine ⟨by rw [hs1]; exact e1, by rw [hs1]; exact e2, by rw [hs1]; exact e3, ?_⟩
  have hp1 : (s1.thr t).prog = [.aReadUnlock sid, .ret .errSuperseded] := by rw [hs1]; exact e1
  simp [next, hp1, exec]

/-- T15.superseded-c **a finish that goes on stands on the committed state**: if the check lets `finish` continue, every
entry of the session that compared a chain base `b` has `b` = the committed root now. -/
theorem T15_finish_accepted_base_current (db0 : Db C R D) (evs : List (Event R W D))
    (hc : ∀ e ∈ evs, e.isCode = true) (t : Tid) (sid : Nat) (rest : List (Instr R W D)) :
    let s := run ops (init db0) evs
    (s.thr t).prog = .finChk sid :: rest →
    (((next ops s (.step t)).1.thr t).prog ≠ [.aReadUnlock sid, .ret .errSuperseded]) →
    ∀ x ∈ s.readers, x.owner = t → x.sid = sid → ∀ b, x.chain = some b → s.db.root = b := by
  intro s hp hgo x hxm hxo hxs b hxc
  obtain ⟨e1, _, _⟩ := exec_finChk ops s t sid rest
  have hs1 : (next ops s (.step t)).1 = (exec ops s t (.finChk sid) rest).1 := by simp [next, hp]
  rw [hs1, e1] at hgo
  have hany : s.readers.any (fun y => y.owner == t && y.sid == sid && y.stale) = false := by
    cases h : s.readers.any (fun y => y.owner == t && y.sid == sid && y.stale) with
    | false => rfl
    | true => rw [h] at hgo; simp at hgo
  have hst : x.stale = false := by
    rw [List.any_eq_false] at hany
    have := hany x hxm
    simpa [hxo, hxs] using this
  have := T15_superseded_flag_exact ops db0 evs hc x hxm b hxc
  rw [hst] at this
  simpa using this.symm

/-! ## Non-vacuity (instance `natOps`) -/

abbrev E2 := Event Nat Nat Nat
def st (t : Tid) (n : Nat) : List E2 := List.replicate n (.step t)

/-- Overlay A was built on state `0`; thread 2 commits `0 → 5`; thread 1 begins a session on `[A]` (chain base `0`, committed
root `5`: superseded) and finishes it: refused.  Thread 3's session on a chain built on `5` is accepted. -/
def exSuperseded : List E2 :=
  [.call 2 (.commit (natCS 0 5) .ok)] ++ st 2 11 ++
  [.call 1 (.beginSessionOv 7 0)] ++ st 1 5 ++ [.call 3 (.beginSessionOv 8 5)] ++ st 3 5 ++
  [.call 1 (.finishSession 7)] ++ st 1 3 ++ [.call 3 (.finishSession 8)] ++ st 3 3

set_option maxRecDepth 8192 in
example : let s := run natOps (init (natDb 0)) exSuperseded
    (s.thr 1).res = some .errSuperseded ∧ (s.thr 3).res = some .ok ∧ s.readers = [] ∧ s.db.root = 5 := by decide

def exBeforeFinish : List E2 :=
  [.call 2 (.commit (natCS 0 5) .ok)] ++ st 2 11 ++ [.call 1 (.beginSessionOv 7 0)] ++ st 1 5 ++ [.call 1 (.finishSession 7)]

set_option maxRecDepth 8192 in
/-- the hypotheses of T15.superseded-b are met just before thread 1's `finish` -/
example : (run natOps (init (natDb 0)) exBeforeFinish |>.thr 1).prog = [.finChk 7, .aReadUnlock 7, .ret .ok] ∧
    (∃ x ∈ (run natOps (init (natDb 0)) exBeforeFinish).readers, x.owner = 1 ∧ x.sid = 7 ∧ x.chain = some 0) ∧
    (run natOps (init (natDb 0)) exBeforeFinish).db.root ≠ 0 := by
  refine ⟨by rfl, ⟨⟨1, 7, 5, 5, none, some 0, true⟩, by decide, rfl, rfl, rfl⟩, by decide⟩

def exPreRepair : List E2 :=
  [.call 2 (.commit (natCS 0 5) .ok)] ++ st 2 11 ++ [.call 1 (.beginSession 7)] ++ st 1 5 ++ [.call 1 (.finishSession 7)] ++ st 1 3

set_option maxRecDepth 8192 in
/-- the pre-repair program (no comparison: the flag is never set) lets the same `finish` through -/
example : ((run natOps (init (natDb 0)) exPreRepair).thr 1).res = some .ok := by decide

end Nomt.C15
