import NomtModel.Store.IoPoolExit
import NomtModel.Store.IoPoolWaitLemmas
/-!
# C14 (and C04) — the I/O pool: every submitted page command completes exactly once with the right verdict

Mirrors: `Store/IoPoolModel.lean` (`IoKind::get_result`, `unix.rs::execute`, `linux.rs::run_worker` as a transition system),
`Store/IoPoolWait.lean` (the callers' counting loops, `Fsyncer`).  Tie: `iopool` differential (hook `verif_api::io_pool`).
-/
namespace Nomt.C14
open Nomt.IoPool

/-- **Verdict table of `IoKind::get_result`** (`res` = the syscall's return value, `errno` = `last_os_error()` of the calling
thread, which the function reads in the `res == -1` arm only): `Ok` iff the whole page was transferred or a READ returned 0 (end
of file); `Err` iff `res = -1` and `errno ≠ EINTR`; `Retry` in every other case — `-1` with `EINTR`, every short count, a WRITE
that returned 0, and any value that is neither `-1`, `0`-on-a-read nor `PAGE_SIZE` (e.g. a count above the page size).
For the io_uring back end (`sysOf`: a negative completion result becomes `-1`, and `errno` is whatever the worker thread's
`errno` happens to be — io_uring does not set it): a failed completion is classified `Retry` iff that stale `errno` is `EINTR`,
otherwise `Err` — independently of the error the completion carries. -/
theorem T14_get_result_spec (isRead : Bool) (res : Int) (errno : Nat) :
    (getResult isRead res errno = .ok ↔ (res = 4096 ∨ (isRead = true ∧ res = 0))) ∧
    (getResult isRead res errno = .err ↔ (res = -1 ∧ errno ≠ EINTR)) ∧
    (getResult isRead res errno = .retry ↔
      ((res = -1 ∧ errno = EINTR) ∨ (res ≠ -1 ∧ res ≠ 4096 ∧ ¬ (isRead = true ∧ res = 0)))) ∧
    (res < 0 → (getResult isRead (sysOf res) errno = .retry ↔ errno = EINTR) ∧
               (getResult isRead (sysOf res) errno = .err ↔ errno ≠ EINTR)) :=
  ⟨getResult_ok_iff _ _ _, getResult_err_iff _ _ _, getResult_retry_iff _ _ _, by
    intro h
    have : sysOf res = -1 := by unfold sysOf; split <;> omega
    rw [this, getResult_retry_iff, getResult_err_iff]
    constructor <;> constructor <;> intro h1 <;> simp_all⟩

example : getResult true 0 0 = .ok ∧ getResult false 0 0 = .retry ∧ getResult false (-1) 28 = .err ∧
    getResult false (-1) 4 = .retry ∧ getResult false 1000 0 = .retry ∧ getResult true 8192 0 = .retry ∧
    getResult false (sysOf (-28)) 4 = .retry ∧ getResult false (sysOf (-4)) 0 = .err := by decide

/-- **`unix.rs::execute`** for every sequence `k` of kernel answers (`k i` = return value and `errno` of the `i`-th `pread` /
`pwrite`): it returns (fuel is never the answer) after `n` syscalls with `1 ≤ n ≤ MAX_IO_ATTEMPTS`; every syscall before the
last was classified `Retry`; the result is `Ok` iff the last one transferred the page, `Err(errno)` of the first hard error, and
`Err(short_io_error)` iff all `MAX_IO_ATTEMPTS` attempts were interrupted or short. -/
theorem T14_execute_spec (isRead : Bool) (k : Nat → Int × Nat) :
    ∃ r n, execute isRead k = some (r, n) ∧ 1 ≤ n ∧ n ≤ MAX_IO_ATTEMPTS ∧
      (∀ i, i + 1 < n → verd isRead k i = .retry) ∧
      (match verd isRead k (n - 1) with
       | .ok => r = .ok
       | .err => r = .os (k (n - 1)).2
       | .retry => n = MAX_IO_ATTEMPTS ∧ r = .short) := by
  obtain ⟨r, n, e, h1, h2, h3, h4⟩ := executeLoop_spec isRead k MAX_IO_ATTEMPTS 0 (by decide) (by decide)
  exact ⟨r, n, e, by omega, h2, fun i hi => h3 i (by omega) hi, h4⟩

example : execute false (fun i => if i < 3 then (1000, 0) else if i < 5 then (-1, 4) else (4096, 0)) = some (.ok, 6) ∧
    execute false (fun _ => (1000, 0)) = some (.short, 16) ∧
    execute true (fun i => if i < 2 then (-1, 4) else (-1, 5)) = some (.os 5, 3) := by decide

/-- **F24, kernel-checked**: the retry loop as it was before the repair (no `MAX_IO_ATTEMPTS`) on a page write that keeps coming
back short (the page straddles `RLIMIT_FSIZE`): no amount of fuel makes it return — the commit hangs. -/
theorem T14_F24_unbounded_execute_counterexample (isRead : Bool) (fuel attempts : Nat) :
    executeLoop false isRead (fun _ => (1000, 0)) fuel attempts = none :=
  executeLoop_unbounded_short isRead fuel attempts

/-- **`run_worker`, exactly once** — for EVERY schedule `acts` of the worker thread's steps and the environment's actions (sends
on any handles at any time, shutdown, the kernel completing any in-flight entry with any result while the thread has any `errno`,
`submit_and_wait` interrupted, even spurious completions), in the state reached:

1. every command sent so far (sequence number `i < nextId`) is in exactly ONE of: the command channel, the `retries` queue, the
   `pending` slab, the completions delivered — so it is never delivered twice and never lost while the thread lives;
2. a delivered completion went to the handle the command was sent on (the packet is the one of the `i`-th send), with the result
   `Final` prescribes for the attempts made for it: all but the last were classified `Retry`, the last one decides — `Ok(())`
   iff it was classified `Ok`, `Err(|res|)` iff `Err`, `Err(short_io_error)` iff it was the `MAX_IO_ATTEMPTS`-th `Retry`; the
   number of submission entries pushed for it equals the number of completed attempts and is at most `MAX_IO_ATTEMPTS`;
3. no command still in the worker was issued more than `MAX_IO_ATTEMPTS` times (F24's repair: no endless reissue);
4. if the worker has exited (sq capacity > 0): the pool was shut down, the command channel, the retry queue and the slab are
   empty, and EVERY command ever sent was delivered exactly once — commands pending at shutdown are completed before the exit. -/
theorem T14_io_exactly_once (cap : Nat) (acts : List Act) :
    let s := run { sqCap := cap } acts
    (∀ i, cnt i s = if i < s.nextId then 1 else 0) ∧
    (∀ x ∈ s.delivered, (s.delivered.map (·.1.id)).count x.1.id = 1 ∧ s.sent[x.1.id]? = some (x.1.handle, x.1.isRead) ∧
        Final x.1.isRead x.1.hist x.2 ∧ x.1.pushes = x.1.hist.length ∧ x.1.pushes ≤ MAX_IO_ATTEMPTS) ∧
    (∀ x ∈ s.retries, x.1.pushes < MAX_IO_ATTEMPTS) ∧ (∀ x ∈ s.pending.occ, x.2.packet.pushes ≤ MAX_IO_ATTEMPTS) ∧
    (0 < cap → s.pc = .exited →
        s.closed = true ∧ s.chan = [] ∧ s.retries = [] ∧ s.pending.occ = [] ∧
        ∀ i, i < s.nextId → (s.delivered.map (·.1.id)).count i = 1) := by
  intro s
  have inv : Inv s := Inv_run acts (Inv_init cap)
  refine ⟨inv.cnt, ?_, ?_, ?_, ?_⟩
  · intro x hx
    obtain ⟨hf, hp, hs⟩ := inv.delivered x hx
    have hc := inv.cnt x.1.id
    have hpos : 0 < (s.delivered.map (·.1.id)).count x.1.id :=
      List.count_pos_iff.mpr (List.mem_map.mpr ⟨x, hx, rfl⟩)
    refine ⟨?_, hs, hf, hp, ?_⟩
    · unfold cnt at hc
      split at hc <;> omega
    · obtain ⟨pre, last, e, _, hl, _⟩ := hf
      rw [hp, e]; simp; omega
  · intro x hx
    obtain ⟨h1, _, _, h4, h5, _⟩ := inv.retries x hx
    omega
  · intro x hx
    obtain ⟨_, _, h3, h4, _⟩ := inv.pending x hx
    omega
  · intro hcap hpc
    have xinv : XInv s := XInv_run acts (XInv_init cap hcap)
    obtain ⟨hl, hr, hsd⟩ := xinv.x5 hpc
    obtain ⟨hcl, hch⟩ := xinv.x4 hsd
    have hocc : s.pending.occ = [] := List.eq_nil_of_length_eq_zero hl
    refine ⟨hcl, hch, hr, hocc, ?_⟩
    intro i hi
    have hc := inv.cnt i
    unfold cnt at hc
    simp [hch, hr, hocc, hi] at hc
    exact hc

/-- non-vacuity: two handles, three commands, one retried after `EINTR`, one failing with `ENOSPC`, shutdown with I/O pending:
the worker exits with all three delivered -/
example :
    let s := run {} [.send 0 false, .send 1 true, .worker .ok, .worker .ok, .worker .ok, .send 0 false, .worker .ok, .worker .ok,
      .worker .ok, .complete 0 (-4) 4, .complete 1 4096 0, .close, .worker .ok, .worker .ok, .worker .ok, .worker .ok,
      .worker .ok, .worker .ok, .worker .ok, .complete 2 (-28) 0, .complete 1 4096 0, .worker .ok, .worker .ok, .worker .ok,
      .worker .ok, .worker .ok, .worker .ok, .worker .ok, .worker .ok]
    s.pc = .exited ∧ s.delivered.map (fun x => (x.1.id, x.1.handle, x.2, x.1.pushes)) =
      [(1, 1, .ok, 1), (2, 0, .os 28, 1), (0, 0, .ok, 2)] := by decide +kernel

/-- one round of the worker on a single command whose write keeps coming back short -/
def shortRound : List Act :=
  [.worker .ok, .worker .ok, .worker .ok, .complete 0 1000 0, .worker .ok, .worker .ok, .worker .ok]

/-- **F24 in `run_worker`, kernel-checked**: with the pre-repair worker (`bounded := false`) a command that stays short has been
issued 40 times after 40 rounds and is queued for the 41st, nothing was delivered; the current worker delivers
`Err(short_io_error)` after exactly `MAX_IO_ATTEMPTS` issues. -/
theorem T14_F24_unbounded_worker_counterexample :
    let sched := [.send 0 false, .worker .ok] ++ (List.replicate 40 shortRound).flatten
    ((run { bounded := false } sched).retries.map (·.1.pushes) = [40] ∧ (run { bounded := false } sched).delivered = []) ∧
    (run {} sched).delivered.map (fun x => (x.2, x.1.pushes)) = [(.short, 16)] := by decide +kernel

/-- **Observation, kernel-checked (what happens instead of "completed before the worker exits" when the thread dies)**: when
`submit_and_wait` fails with anything but `EINTR`, `run_worker` panics (`panic!("unexpected error")`); from then on, whatever
the environment does, nothing is delivered any more: the commands in the slab, in `retries` and in the command channel are
never completed — and since every `IoHandle` owns a sender of its completion channel, `recv()` of their callers blocks for
ever instead of failing. -/
theorem T14_worker_panic_strands_pending (s : St) (h : s.pc = .panicked) (acts : List Act) :
    (run s acts).pc = .panicked ∧ (run s acts).delivered = s.delivered ∧ (run s acts).pending.occ = s.pending.occ ∧
      (run s acts).retries = s.retries := by
  induction acts generalizing s with
  | nil => exact ⟨h, rfl, rfl, rfl⟩
  | cons a l ih =>
    have hstep : (step s a).pc = .panicked ∧ (step s a).delivered = s.delivered ∧
        (step s a).pending.occ = s.pending.occ ∧ (step s a).retries = s.retries := by
      cases a with
      | worker sr => simp [step, wstep, h]
      | close => simp [step, h]
      | complete key res errno => simp only [step]; split <;> simp [h]
      | spurious key res errno => simp [step, h]
      | send hd r => simp only [step]; split <;> simp [h]
    obtain ⟨h1, h2, h3, h4⟩ := hstep
    obtain ⟨i1, i2, i3, i4⟩ := ih (step s a) h1
    exact ⟨i1, i2.trans h2, i3.trans h3, i4.trans h4⟩

/-- a failing `submit_and_wait` (e.g. `EBUSY`) with two writes queued: the worker is dead, both stay in the slab -/
example :
    let s := run {} [.send 0 false, .send 0 false, .worker .ok, .worker .ok, .worker .ok, .worker .ok, .worker .err]
    s.pc = .panicked ∧ s.pending.occ.length = 2 ∧ s.delivered = [] := by decide +kernel

/-- **The counting loops return `Ok` iff EVERY command completed `Ok`, and only after all of them completed.**
`results`: the results of all commands submitted on the handle; `arrivals`: the order in which the pool delivers them (any
permutation — `T14_io_exactly_once`: each exactly once, on that handle).

* `update` (`total_io = leaf + branch + ln free-list + bbn free-list pages` = the number of commands submitted): the loop never
  blocks, returns the FIRST error in arrival order, `Ok` iff all results are `Ok`, and in the `Ok` case has received every
  completion (the shared handle's channel is empty again); on an error it returns early, the rest stays in the channel;
* `write_ht`: receives all `n` completions in every case, returns the first error, `Ok` iff all are `Ok`;
* a loop that counts MORE than was submitted blocks for ever (`recv()` cannot fail: the handle owns a sender);
* `wait_pre_meta`: `Ok` iff both fsyncs are `Ok`. -/
theorem T14_wait_loops_count_all (results arrivals : List IoRes) (hperm : arrivals.Perm results) :
    (∀ leaf branch lnFl bbnFl, results.length = updateTotalIo leaf branch lnFl bbnFl →
      ∃ rest, recvAll (updateTotalIo leaf branch lnFl bbnFl) arrivals = some (firstErr arrivals, rest) ∧
        (firstErr arrivals = .ok ↔ ∀ x ∈ results, x = .ok) ∧ (firstErr arrivals = .ok → rest = []) ∧
        (firstErr arrivals ≠ .ok → ∃ pre, arrivals = pre ++ firstErr arrivals :: rest ∧ ∀ x ∈ pre, x = .ok)) ∧
    (writeHtLoop results.length .ok arrivals = some (firstErr arrivals, []) ∧
        (firstErr arrivals = .ok ↔ ∀ x ∈ results, x = .ok)) ∧
    (∀ n, results.length < n → (∀ x ∈ results, x = .ok) → recvAll n arrivals = none) ∧
    (∀ bbn ln, (waitPreMeta bbn ln).1 = .ok ↔ (bbn = .ok ∧ ln = .ok)) := by
  have hmem : (∀ x ∈ arrivals, x = .ok) ↔ ∀ x ∈ results, x = .ok :=
    ⟨fun h x hx => h x (hperm.mem_iff.mpr hx), fun h x hx => h x (hperm.mem_iff.mp hx)⟩
  have hlen := hperm.length_eq
  refine ⟨?_, ?_, ?_, ?_⟩
  · intro leaf branch lnFl bbnFl hn
    obtain ⟨rest, e, h1, h2⟩ := recvAll_spec arrivals _ (hlen.trans hn)
    exact ⟨rest, e, (firstErr_ok_iff arrivals).trans hmem, h1, h2⟩
  · refine ⟨?_, (firstErr_ok_iff arrivals).trans hmem⟩
    have := writeHtLoop_spec arrivals results.length .ok hlen
    simpa using this
  · intro n hn hall
    exact recvAll_blocks arrivals n (by omega) (hmem.mpr hall)
  · intro bbn ln
    unfold waitPreMeta
    by_cases h : bbn = .ok <;> simp [h]

example : recvAll (updateTotalIo 2 1 1 0) [.ok, .ok, .os 28, .ok] = some (.os 28, [.ok]) ∧
    writeHtLoop 4 .ok [.ok, .os 5, .os 28, .ok] = some (.os 5, []) ∧ recvAll 3 [.ok, .ok] = none := by decide

/-- **seeded `C14-freelist-write-result-dropped`, kernel-checked**: one leaf write (`Ok`) and one free-list write failing with
`ENOSPC`; the free-list write is sent on a sibling handle and not counted, so the counted handle sees `[Ok]` and `update`
returns `Ok` although a submitted write failed — with the current arithmetic and handle it returns the error. -/
theorem T14_seeded_freelist_result_dropped_counterexample :
    recvAll (seededTotalIo 1 0) [.ok] = some (.ok, []) ∧
    recvAll (updateTotalIo 1 0 1 0) [.ok, .os 28] = some (.os 28, []) := by decide

/-- **seeded `C14-beatree-fsync-result-or`, kernel-checked**: `bbn_result.or(ln_result)` is `Ok` as soon as ONE of the two
fsyncs succeeded — a failed `ln` (or `bbn`) fsync is swallowed; the current code reports it. -/
theorem T14_seeded_fsync_result_or_counterexample :
    waitPreMetaOr .ok (.os 5) = .ok ∧ waitPreMetaOr (.os 5) .ok = .ok ∧
    (waitPreMeta .ok (.os 5)).1 = .os 5 ∧ (waitPreMeta (.os 5) .ok).1 = .os 5 := by decide

/-- **`Fsyncer`** — for EVERY interleaving `acts` of `fsync()` calls, steps of the worker thread (start of `sync_all`, its
return with any result), threads inside `wait()` and the `Drop`: in the state reached,

1. the `wait()` calls that returned so far returned, in order, the published results of requests number 1, 2, 3, … (`waits` is
   a prefix of `syncs`; its generations are `1 … k`): the k-th `wait` returns the result of the k-th accepted `fsync`, never an
   older one, and no result is returned twice;
2. while the handle lives: at most one request is outstanding (`req ≤ returned waits + 1`); when the state is `Done(r)` it holds
   the result of the `sync_all` run for the LATEST accepted request (`g = req`), which is what the next `wait()` returns; a
   running `sync_all` belongs to the latest request, i.e. it started after that `fsync()` call (so it covers every write
   completed before the call);
3. `fsync()` while a request is outstanding (state `Started` or an unconsumed `Done`) hits the `assert!`: it panics and changes
   nothing else; nothing is queued. -/
theorem T14_fsyncer_spec (acts : List FsAct) :
    let s := fsRun {} acts
    (s.waits.map (·.1) = List.range' 1 s.waits.length) ∧
    (s.st ≠ .handleDead →
      (∃ tl, s.syncs = s.waits ++ tl ∧ tl.length ≤ 1) ∧ s.req ≤ s.waits.length + 1 ∧
      (∀ r g, s.st = .done r g → g = s.req ∧ s.syncs = s.waits ++ [(g, r)] ∧
          (fsStep s .waitTake).waits = s.waits ++ [(s.req, r)] ∧ (fsStep s .waitTake).st = .idle) ∧
      (∀ g, s.running = some g → g = s.req ∧ s.st = .started)) ∧
    (s.st ≠ .idle → fsStep s .fsync = { s with panics := s.panics + 1 }) := by
  intro s
  have inv : FInv s := FInv_run acts FInv_init
  obtain ⟨hg, hs⟩ := inv
  refine ⟨hg, ?_, ?_⟩
  · intro hd
    cases hst : s.st with
    | idle =>
      simp only [hst] at hs
      refine ⟨⟨[], by simp [hs.2.1], by simp⟩, by omega, ?_, ?_⟩
      · intro r g h; cases h
      · intro g h; simp [hs.1] at h
    | started =>
      simp only [hst] at hs
      refine ⟨⟨[], by simp [hs.1], by simp⟩, by omega, ?_, ?_⟩
      · intro r g h; cases h
      · intro g h
        cases hs.2.2 with
        | inl h2 => simp [h2] at h
        | inr h2 => rw [h2] at h; cases h; exact ⟨rfl, rfl⟩
    | done r g =>
      simp only [hst] at hs
      refine ⟨⟨[(g, r)], hs.2.1, by simp⟩, by omega, ?_, ?_⟩
      · intro r' g' h
        cases h
        refine ⟨hs.2.2.1, hs.2.1, ?_, ?_⟩ <;> simp [fsStep, hst, hs.2.2.1]
      · intro g' h; simp [hs.1] at h
    | handleDead => exact absurd hst hd
  · intro hne
    unfold fsStep
    cases hst : s.st <;> simp_all

/-- non-vacuity: two requests with different results, a `wait` arriving before its `sync_all` has finished, an `fsync()` while
the first result is unconsumed (panics) -/
example :
    let s := fsRun {} [.fsync, .waitTake, .workerPick, .waitTake, .workerDone (.os 5), .fsync, .waitTake, .fsync, .workerPick,
      .workerDone .ok, .waitTake]
    s.waits = [(1, .os 5), (2, .ok)] ∧ s.panics = 1 ∧ s.st = .idle := by decide

end Nomt.C14
