import NomtModel.Core.TriePosReach
/-!
# C05 — the page path of a key: what `seek` walks

`seek.rs` descends a key with a `TriePosition` and fetches pages by `PageId`; `PageIdsIterator` precomputes the page
ids of a key (warm-up, prepopulation).  Both must name the same pages, and the page ids along a key must bracket the
key.  Mirrors: `Core/TriePos.lean`; lemmas: `Core/PageIdOrder.lean`, `Core/TriePosReach.lean`.  Tie to the code: the
`fpd / down / q / pidsiter / pid` lines of harness command `triepos` vs driver mode `triepos`, plus the harness oracle
"item `⌊(d−1)/6⌋` of the real iterator = `page_id()` of the real depth-`d` position of the key".
-/
namespace Nomt.C05
open Nomt Nomt.TriePos

/-- **T5.seek_page_path** for a 256-bit key and every depth `1 ≤ d ≤ 256`: the position `from_path_and_depth(key, d)`
contains the key, its page id is item `⌊(d−1)/6⌋` of `PageIdsIterator::new(key)` (which has 43 items, never panics),
its node index is `< 126`, and the key lies between `min_key_path` and `max_key_path` of that page. -/
theorem T5_seek_page_path (key : List Bool) (hk : key.length = 256) (d : Nat) (h1 : 1 ≤ d) (h2 : d ≤ 256) :
    ∃ p items, Pos.fromPathAndDepth key d = some p ∧ PidIter.collect 43 (PidIter.new key) = some items ∧
      items.length = 43 ∧ p.subtrieContains key = true ∧ p.nodeIndex < NODES_PER_PAGE ∧
      ∃ P lo hi, items[(d - 1) / 6]? = some P ∧ p.pageId = some (some P) ∧ minKeyPath P = some lo ∧
        maxKeyPath P = some hi ∧ (bitsLe lo key && bitsLe key hi) = true := by
  have hw := fromPathAndDepth_wf key d hk h1 h2
  have hq := fromPathAndDepth_eq key d hk h1 h2
  have hcoll := pidIter_collect key hk 43
  have hpath : (⟨key, d, specIndex (key.take d)⟩ : Pos).path = key.take d := rfl
  have hcont : (⟨key, d, specIndex (key.take d)⟩ : Pos).subtrieContains key = true :=
    (wf_subtrieContains _ key).mpr ⟨key.drop d, by rw [hpath]; exact List.take_append_drop d key⟩
  have hpid : (⟨key, d, specIndex (key.take d)⟩ : Pos).pageId =
      some (some (sextetsOf (key.take (6 * ((d - 1) / 6))))) := by
    rw [pageId_eq _ hw h1, specPage_of_prefix _ key ((wf_subtrieContains _ key).mp hcont), hpath,
      List.length_take, Nat.min_eq_left (by omega)]
  have hPlen : (sextetsOf (key.take (6 * ((d - 1) / 6)))).length ≤ MAX_PAGE_DEPTH := by
    rw [sextetsOf_length, List.length_take]; unfold MAX_PAGE_DEPTH; omega
  refine ⟨_, _, hq, hcoll, by rw [List.length_map, List.length_range]; rfl, hcont, (wf_nodeIndex_lt _ hw h1).1,
    sextetsOf (key.take (6 * ((d - 1) / 6))), _, _, ?_, hpid, keyPathFill_eq false _ hPlen,
    keyPathFill_eq true _ hPlen, ?_⟩
  · rw [List.getElem?_map, List.getElem?_range (by omega)]; rfl
  · rw [key_bracket_iff _ key _ _ hPlen hk (keyPathFill_eq false _ hPlen) (keyPathFill_eq true _ hPlen)]
    apply List.isPrefixOf_iff_prefix.mpr
    rw [pidBits_sextetsOf _ (by rw [List.length_take]; omega)]
    exact ⟨key.drop (6 * ((d - 1) / 6)), List.take_append_drop _ key⟩

example := T5_seek_page_path (List.replicate 256 true) (List.length_replicate ..) 252 (by decide) (by decide)

end Nomt.C05
