import NomtModel.Store.FrameSmall
/-!
# C17 — the previous durable image stays intact until the switch-over: the CONTENT clause for `ln` / `bbn`

`Props/C17.lean` shows that an accepted trace writes only to pages the decoder did not MARK.  This file shows that the real
on-disk decoder (`wfImage` / `absImage` / `absLeaves`, the free-list reader, the walk `wfDetailM` of `Store/ImgCheck.lean`)
depends only on the pages it marks — the frame property that the crash theorems (C04) assume of the recovery abstraction.
Vocabulary: `ReadAgree` (`Store/FrameImage.lean`), `Touched`, `writesOf` (`Store/FramePlacement.lean`), `writePage`,
`applyWrites` (`Store/FrameWrite.lean`).
-/
namespace Nomt.C17
open Nomt.Store

/-- T17.6 **frame property of the real decoder.**  Let the walk accept image `A` with marks `lnM`, `bbnM`.  Let `B` have the
same meta page, `ln` / `bbn` files that are not shorter, and agree with `A` on the reserved page 0 of both files, on every
`ln` page marked node (1) / overflow page (2) / free-list page (3) and on every `bbn` page below the frontier not marked
free (4) — `B` may differ arbitrarily everywhere else (free pages, unclaimed `ln` pages, everything at or beyond the
frontier) and may be longer.  Then `wfImage`, `absImage` (same keys, same values incl. overflow chains), `absLeaves`, the
walk (marks and statistics), both free lists and the decoded manifest (frontiers) of `B` are those of `A`. -/
theorem T17_6_decoder_frame {A B : Image} {st : Stats} {lnM bbnM : Array UInt8} {m : Meta}
    (hm : imageMeta A = .ok m) (hd : wfDetailM A = .ok (st, lnM, bbnM)) (hag : ReadAgree A B m lnM bbnM) :
    wfImage B = wfImage A ∧ absImage B = absImage A ∧ absLeaves B = absLeaves A ∧ wfDetailM B = wfDetailM A ∧
    freeListAll B.ln m.lnBump m.lnBump m.lnFreelistPn = freeListAll A.ln m.lnBump m.lnBump m.lnFreelistPn ∧
    freeListAll B.bbn m.bbnBump m.bbnBump m.bbnFreelistPn = freeListAll A.bbn m.bbnBump m.bbnBump m.bbnFreelistPn ∧
    imageMeta B = imageMeta A :=
  frame_main hm hd hag

/-- T17.7 **`checkPlacement` accepted ⇒ the old state still decodes** (the hypothesis `hpre` of T4.1 for the concrete
decoder; no side condition).  If the placement monitor accepts the real trace `tr` against the pre-image `img`, then for
EVERY sub-list `sub` of the events before the meta write (every prefix, every subset of it) and every image `B` with the old
meta page whose `ln` / `bbn` differ from the pre-image at most on the pages written by `sub` (ANY contents, each 4 KiB write
applied or not, the files possibly extended): `B` is accepted iff the pre-image is, and decodes to the same state — same
leaves, same values, same free lists, same frontier.  (The monitor's `pageCheckBbn` rejects a write to an unclaimed `bbn` page
below the frontier — pages the reconstruction rule reads —; with the former `pageCheck` alone this needed `bbn_leaked = 0`.) -/
theorem T17_7_accepted_trace_keeps_old_state {img : Image} {tr : List IoEv} {stP : PlacementStats}
    (h : checkPlacement img tr = .ok stP) :
    ∃ m st lnM bbnM, imageMeta img = .ok m ∧ wfDetailM img = .ok (st, lnM, bbnM) ∧
      (∀ (sub : List IoEv) (B : Image), sub.Sublist (preMeta tr) → B.metaF = img.metaF →
        Touched img.ln B.ln (writesOf "ln" sub) → Touched img.bbn B.bbn (writesOf "bbn" sub) →
        wfImage B = wfImage img ∧ absImage B = absImage img ∧ absLeaves B = absLeaves img ∧ wfDetailM B = wfDetailM img ∧
        imageMeta B = imageMeta img) := by
  obtain ⟨m, st, lnM, bbnM, hm, hd, _⟩ := checkPlacement_ok img tr stP h
  refine ⟨m, st, lnM, bbnM, hm, hd, fun sub B hsub hmeta hln hbbn => ?_⟩
  have hag := placement_readAgree h hm hd sub hsub B hmeta hln hbbn
  obtain ⟨h1, h2, h3, h4, _, _, h7⟩ := frame_main hm hd hag
  exact ⟨h1, h2, h3, h4, h7⟩

/-- T17.7b the same with the writes made concrete: `lnW` / `bbnW` are page writes `(page number, 4 KiB contents)` at the
page numbers of the accepted pre-switch-over `ln` / `bbn` write events; ANY sub-lists of them are applied to the files in
order (`applyWrites`, extending the file with zeros where needed).  The result decodes to the old state. -/
theorem T17_7b_torn_writes_keep_old_state {img : Image} {tr : List IoEv} {stP : PlacementStats}
    (h : checkPlacement img tr = .ok stP)
    (lnW bbnW subLn subBbn : List (Nat × ByteArray))
    (hlnW : ∀ w ∈ lnW, w.2.size = PAGE ∧ w.1 ∈ writesOf "ln" (preMeta tr))
    (hbbnW : ∀ w ∈ bbnW, w.2.size = PAGE ∧ w.1 ∈ writesOf "bbn" (preMeta tr))
    (hs1 : subLn.Sublist lnW) (hs2 : subBbn.Sublist bbnW) :
    let B : Image := { img with ln := applyWrites img.ln subLn, bbn := applyWrites img.bbn subBbn }
    wfImage B = wfImage img ∧ absImage B = absImage img ∧ absLeaves B = absLeaves img := by
  intro B
  obtain ⟨m, st', lnM', bbnM', hm, hd', hkeep⟩ := T17_7_accepted_trace_keeps_old_state h
  have hln : Touched img.ln B.ln (writesOf "ln" (preMeta tr)) :=
    (applyWrites_sublist_touched lnW subLn img.ln hs1 (fun w hw => (hlnW w hw).1)).mono
      (fun x hx => by obtain ⟨w, hw, rfl⟩ := List.mem_map.1 hx; exact (hlnW w hw).2)
  have hbbn : Touched img.bbn B.bbn (writesOf "bbn" (preMeta tr)) :=
    (applyWrites_sublist_touched bbnW subBbn img.bbn hs2 (fun w hw => (hbbnW w hw).1)).mono
      (fun x hx => by obtain ⟨w, hw, rfl⟩ := List.mem_map.1 hx; exact (hbbnW w hw).2)
  obtain ⟨h1, h2, h3, _, _⟩ := hkeep (preMeta tr) B (List.Sublist.refl _) rfl hln hbbn
  exact ⟨h1, h2, h3⟩

/-- T17.8 **the old free lists still decode.**  T17.5 says the free-list pages a sync writes go onto free / fresh pages; with
the frame property: under the old manifest both free-list chains of every torn intermediate image read back exactly as
before (same free-list pages, same items, same order). -/
theorem T17_8_old_free_lists_decode {img : Image} {tr : List IoEv} {stP : PlacementStats}
    (h : checkPlacement img tr = .ok stP) {m : Meta} {st : Stats} {lnM bbnM : Array UInt8}
    (hm : imageMeta img = .ok m) (hd : wfDetailM img = .ok (st, lnM, bbnM))
    (sub : List IoEv) (B : Image) (hsub : sub.Sublist (preMeta tr)) (hmeta : B.metaF = img.metaF)
    (hln : Touched img.ln B.ln (writesOf "ln" sub)) (hbbn : Touched img.bbn B.bbn (writesOf "bbn" sub)) :
    freeListAll B.ln m.lnBump m.lnBump m.lnFreelistPn = freeListAll img.ln m.lnBump m.lnBump m.lnFreelistPn ∧
    freeListAll B.bbn m.bbnBump m.bbnBump m.bbnFreelistPn = freeListAll img.bbn m.bbnBump m.bbnBump m.bbnFreelistPn := by
  have hag := placement_readAgree h hm hd sub hsub B hmeta hln hbbn
  obtain ⟨_, _, _, _, h5, h6, _⟩ := frame_main hm hd hag
  exact ⟨h5, h6⟩

/-- T17.9 **an in-place update is visible** (counterexample to dropping the placement clause, for EVERY accepted image).
Take any leaf `(separator, pn)` of any accepted image and overwrite page `pn` of `ln` in place with a page `z` that is not a
leaf (e.g. the all-zero page: `T17_9_zero_page_is_no_leaf`).  The page is marked 1 — so `pageCheck` rejects the write — every
other page of every file is untouched (`Touched … [pn]`), and the old manifest no longer decodes to the old state. -/
theorem T17_9_inplace_leaf_write_changes_abstraction {A : Image} {st : Stats} {lnM bbnM : Array UInt8}
    (hd : wfDetailM A = .ok (st, lnM, bbnM)) {ls : List (List (ByteArray × ByteArray))} (hl : absLeaves A = .ok ls)
    {m : Meta} (hm : imageMeta A = .ok m) {seps : List (Nat × Nat)} (hs : imageSeps A m = .ok seps)
    (s : Nat × Nat) (hmem : s ∈ seps) (z : ByteArray) (hz : z.size = PAGE) {e : String} (hze : decodeLeaf z = .error e) :
    lnM[s.2]! = 1 ∧ s.2 ≠ 0 ∧ s.2 < m.lnBump ∧ Touched A.ln (writePage A.ln s.2 z) [s.2] ∧
    absLeaves { A with ln := writePage A.ln s.2 z } ≠ absLeaves A :=
  inplace_leaf_write_visible hd hl hm hs s hmem z hz hze

theorem T17_9_zero_page_is_no_leaf : (zeros PAGE).size = PAGE ∧ decodeLeaf (zeros PAGE) = .error "leaf: n = 0" :=
  ⟨size_zeros _, decodeLeaf_zeros⟩

/-- T17.9b the monitor side of T17.9: a page write to a page marked 1 / 2 / 3 below the frontier is rejected. -/
theorem T17_9b_marked_write_rejected (what : String) (marks : Array UInt8) (bump : Nat) (st st' : PlacementStats) (e : IoEv)
    (hlt : e.offset / PAGE < bump)
    (hmk : marks[e.offset / PAGE]! = 1 ∨ marks[e.offset / PAGE]! = 2 ∨ marks[e.offset / PAGE]! = 3) :
    pageCheck what marks bump st e ≠ .ok st' :=
  fun h => (pageCheck_ok_spec what marks bump st st' e h).2 ⟨hlt, hmk⟩

/-- T17.10 a concrete page write touches exactly its page: `pwrite` of 4 KiB at page `pn` (replace, or zero-extend and
append) leaves every other page of the file as it was and never shortens the file; so does any sub-list of any list of page
writes applied in order. -/
theorem T17_10_page_write_touches_its_page (f : ByteArray) (ws sub : List (Nat × ByteArray)) (hsub : sub.Sublist ws)
    (hs : ∀ w ∈ ws, w.2.size = PAGE) : Touched f (applyWrites f sub) (ws.map (·.1)) :=
  applyWrites_sublist_touched ws sub f hsub hs

/-- non-vacuity of T17.6 / T17.7 / T17.7b / T17.8: the freshly created store (`Store/FrameFresh.lean`: meta page of a new
database, `ln` / `bbn` holding the reserved page 0) is accepted by the walk; the trace of its first sync
(two `ln` pages and one `bbn` page beyond the frontier, fsyncs, meta write) is accepted by `checkPlacement`; a TORN
execution — of the two `ln` writes only the second reached the file, the `bbn` write did not, contents arbitrary — decodes
to the old (empty) state under the old meta page. -/
example (c1 c2 c3 : ByteArray) (h1 : c1.size = PAGE) (h2 : c2.size = PAGE) (h3 : c3.size = PAGE) :
    let img := Fresh.mk (zeros PAGE)
    let B : Image := { img with ln := applyWrites img.ln [(2, c2)], bbn := applyWrites img.bbn [] }
    wfImage B = wfImage img ∧ absImage B = absImage img ∧ absLeaves B = absLeaves img := by
  obtain ⟨stP, hacc⟩ := Fresh.accepted (zeros PAGE) (size_zeros _) (allZero_zeros _)
  have hw1 : (1 : Nat) ∈ writesOf "ln" (preMeta Fresh.tr) := by decide
  have hw2 : (2 : Nat) ∈ writesOf "ln" (preMeta Fresh.tr) := by decide
  have hw3 : (1 : Nat) ∈ writesOf "bbn" (preMeta Fresh.tr) := by decide
  exact T17_7b_torn_writes_keep_old_state hacc
    [(1, c1), (2, c2)] [(1, c3)] [(2, c2)] []
    (by intro w hw; simp only [List.mem_cons, List.mem_nil_iff, or_false] at hw
        rcases hw with rfl | rfl
        · exact ⟨h1, hw1⟩
        · exact ⟨h2, hw2⟩)
    (by intro w hw; simp only [List.mem_cons, List.mem_nil_iff, or_false] at hw
        subst hw; exact ⟨h3, hw3⟩)
    (List.Sublist.cons _ (List.Sublist.refl _)) (List.nil_sublist _)

/-- non-vacuity of T17.10: three page writes, the middle one lost; the pages outside `{3, 0, 7}` keep their contents and the
file is not shorter (here it grows from one page to eight). -/
example (c : ByteArray) (hc : c.size = PAGE) :
    Touched (zeros PAGE) (applyWrites (zeros PAGE) [(3, c), (7, c)]) [3, 0, 7] :=
  T17_10_page_write_touches_its_page _ [(3, c), (0, c), (7, c)] [(3, c), (7, c)]
    (List.Sublist.cons_cons _ (List.Sublist.cons _ (List.Sublist.refl _)))
    (by intro w hw; simp only [List.mem_cons, List.mem_nil_iff, or_false] at hw; rcases hw with rfl | rfl | rfl <;> exact hc)

/-- non-vacuity of T17.9 on a kernel-checked accepted image WITH a leaf and a branch node (`Store/FrameSmall.lean`: meta with
frontier 2 / 2, `ln` = page 0 + the leaf `encodeLeaf [(key1, 010203), (key2, 09)]`, `bbn` = page 0 + the branch node
`encodeBranch [0 ↦ leaf page 1]`, built with the mirror encoders and decoded through `leaf_rt` / `branch_rt`): the image
abstracts to the two keys; page 1 of `ln` is marked 1; the monitor rejects a trace that writes it; and overwriting it in place
changes `absLeaves` although no other page is touched. -/
example :
    absLeaves Small.img = .ok [[(Small.key1, [1, 2, 3].toByteArray), (Small.key2, [9].toByteArray)]] ∧
    (∃ msg, checkPlacement Small.img
      ({ kind := "Write", file := "ln", offset := 4096, len := 4096, site := "io.send" } :: Small.tr) = .error msg) ∧
    Small.lnMarks[1]! = 1 ∧
    Touched Small.img.ln (writePage Small.img.ln 1 (zeros PAGE)) [1] ∧
    absLeaves { Small.img with ln := writePage Small.img.ln 1 (zeros PAGE) } ≠ absLeaves Small.img := by
  have h := T17_9_inplace_leaf_write_changes_abstraction (Small.hwalk Small.pages0) (Small.hleaves Small.pages0)
    (Small.hmeta _ _ _) (Small.hseps Small.pages0) (0, 1) List.mem_cons_self (zeros PAGE) (size_zeros _) decodeLeaf_zeros
  exact ⟨Small.hleaves Small.pages0, Small.inplace_rejected, h.1, h.2.2.2.1, h.2.2.2.2⟩

/-- non-vacuity of T17.7 / T17.7b on the same image: a sync that adds one more key writes a new leaf at the `ln` frontier and a
new branch node at the `bbn` frontier (`Small.tr`, accepted); in the TORN execution where only the `bbn` write reached the file
(any contents `c`), the image still decodes to the two old keys under the old meta page. -/
example (c : ByteArray) (hc : c.size = PAGE) :
    let B : Image := { Small.img with ln := applyWrites Small.img.ln [], bbn := applyWrites Small.img.bbn [(2, c)] }
    absLeaves B = .ok [[(Small.key1, [1, 2, 3].toByteArray), (Small.key2, [9].toByteArray)]] ∧ wfImage B = wfImage Small.img := by
  obtain ⟨stP, hacc⟩ := Small.accepted
  have hw1 : (2 : Nat) ∈ writesOf "ln" (preMeta Small.tr) := by decide
  have hw2 : (2 : Nat) ∈ writesOf "bbn" (preMeta Small.tr) := by decide
  have h := T17_7b_torn_writes_keep_old_state hacc [(2, c)] [(2, c)] [] [(2, c)]
    (by intro w hw; simp only [List.mem_cons, List.mem_nil_iff, or_false] at hw; subst hw; exact ⟨hc, hw1⟩)
    (by intro w hw; simp only [List.mem_cons, List.mem_nil_iff, or_false] at hw; subst hw; exact ⟨hc, hw2⟩)
    (List.nil_sublist _) (List.Sublist.refl _)
  exact ⟨h.2.2.trans (Small.hleaves Small.pages0), h.1⟩

end Nomt.C17
