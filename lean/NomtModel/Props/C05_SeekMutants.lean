import NomtModel.Props.C05_Seek
/-!
# C05 — three seeded one-line changes of `seek.rs`, as kernel-checked counterexamples

Each section mirrors ONE changed site (the rest of the mirror is untouched), exhibits a concrete input that meets the
hypotheses of the corresponding theorem, and shows by kernel evaluation that the changed mirror breaks the conclusion
while the unchanged mirror keeps it:

* `seeded/C05-seek-naked-overlay-delete`: in the merge of `continue_leaves_fetch` a deletion always steps over the
  collected entry the cursor is at — a naked deletion loses a live neighbour or indexes past the end
  (`leavesMerge = kvApply`, `T11_merge_spec`, is what `T5_seek_is_proveSpec` hands to `reconstruct_pages`);
* `seeded/C05-seek-overflow-overlay-deletion`: in `continue_leaf_fetch` an overflow item is taken without consulting the
  overlay's deletions — the terminal becomes a key the session's view does not hold;
* `seeded/C05-seek-overlay-stale-page-skips-reconstruction`: `continue_seek` does not reconstruct an elided child that a
  live overlay still carries — in a world that satisfies `World.OK` (the stale image sits at a page id that is not live)
  the changed seek ends at a terminator of the stale image instead of the leaf `proveSpec` names.
-/
namespace Nomt.C05
open Nomt Nomt.Ovl Nomt.TriePos Nomt.Seek

/-! ### `C05-seek-naked-overlay-delete` -/

/-- the merge loop with the change.  The second argument is `collected[idx..]`, `none` when `idx = len + 1`
(the next slice `collected[start_idx..]` resp. `collected[idx..]` then starts past the end: a panic). -/
def mergeLoopNaked {VH : Type} : List (Key × Option VH) → Option (KVL VH) → Outcome Unit (KVL VH)
  | [], some coll => .ok coll
  | [], none => .panic "slice index starts past the end"
  | _ :: _, none => .panic "slice index starts past the end"
  | (ok, some v) :: ov, some coll =>
    match mergeLoopNaked ov (some (restAfter coll ok)) with
    | .ok t => .ok (preOf coll ok ++ (ok, v) :: t)
    | e => e
  | (ok, none) :: ov, some coll =>
    match mergeLoopNaked ov (match coll.dropWhile (fun e => bitsLt e.1 ok) with | [] => none | _ :: t => some t) with
    | .ok t => .ok (preOf coll ok ++ t)
    | e => e

def mk1 : Key := [false, false, true]
def mk2 : Key := [false, true, false]
def mk3 : Key := [false, true, true]

/-- ascending collected leaves `001, 011` and the naked deletion of `010`: the unchanged merge is the sorted-map union
(both leaves stay), the changed loop drops the live leaf `011`; with only `001` collected it indexes past the end -/
theorem T5_seek_naked_delete_counterexample :
    KSorted [(mk1, 1), (mk3, 3)] ∧ OvSorted [(mk2, (none : Option Nat))] ∧
    leavesMerge [(mk1, 1), (mk3, 3)] [(mk2, (none : Option Nat))] = kvApply [(mk1, 1), (mk3, 3)] [(mk2, none)] ∧
    kvApply [(mk1, 1), (mk3, 3)] [(mk2, (none : Option Nat))] = [(mk1, 1), (mk3, 3)] ∧
    mergeLoopNaked [(mk2, (none : Option Nat))] (some [(mk1, 1), (mk3, 3)]) = .ok [(mk1, 1)] ∧
    mergeLoopNaked [(mk2, (none : Option Nat))] (some [(mk1, 1)]) = .panic "slice index starts past the end" := by
  refine ⟨?_, ?_, by decide, by decide, by decide, by decide⟩
  · unfold KSorted; decide
  · unfold OvSorted; decide

/-! ### `C05-seek-overflow-overlay-deletion` -/

/-- the `loop` of `continue_leaf_fetch` with the change: the `OverflowItem` arm breaks at once -/
def leafLoopOvf {VH V : Type} (vh : V → VH) (ovf : V → Bool) : Nat → BtIt V → List Key → Outcome Unit (LeafLoop VH V)
  | 0, _, _ => .panic "fuel"
  | fuel + 1, it, dels =>
    match it.next with
    | .panic m => .panic m
    | .err e => .err e
    | .ok (_, none) => .panic "leaf must exist"
    | .ok (it', some .blocked) => .ok (.blocked it' dels)
    | .ok (it', some (.item k v)) =>
      if ovf v then .ok (.found (k, vh v)) else
      let r := manageDeletions dels k
      if r.2 then leafLoopOvf vh ovf fuel it' r.1 else .ok (.found (k, vh v))

/-- one leaf: `001` with an overflow value, `011` inline -/
def ovfLeaf : Leaf (Nat × Bool) := ⟨[false, false, false], [(mk1, (1, true)), (mk3, (3, false))]⟩
/-- the iterator of the whole range after the leaf has been provided -/
def ovfIt : BtIt (Nat × Bool) :=
  let it0 := BtIt.new [] [] [ovfLeaf] [false, false, false] none
  match provideLeaf it0.leaf ovfLeaf with
  | .ok lf => { it0 with leaf := lf }
  | _ => it0

def foundOf {VH V : Type} : Outcome Unit (LeafLoop VH V) → Option (Key × VH)
  | .ok (.found kv) => some kv
  | _ => none

/-- the overlay deletes `001`: the view of the range is `{011 ↦ 3}`, which the unchanged loop returns (`fetchLoop`, the
loop invariant of `leafLoop_ok`, says so for the items `001, 011` the iterator yields); the changed loop returns the
deleted overflow item -/
theorem T5_seek_overflow_deletion_counterexample :
    fetchLoop [(mk1, 1), (mk3, 3)] [mk1] = (.ok (mk3, 3) : Outcome Unit (Key × Nat)) ∧
    kvApply [(mk1, 1), (mk3, 3)] [(mk1, (none : Option Nat))] = [(mk3, 3)] ∧
    foundOf (leafLoop (·.1) (itFuel ovfIt) ovfIt [mk1]) = some (mk3, 3) ∧
    foundOf (leafLoopOvf (·.1) (·.2) (itFuel ovfIt) ovfIt [mk1]) = some (mk1, 1) := by
  refine ⟨by decide, by decide, by decide, by decide⟩

/-! ### `C05-seek-overlay-stale-page-skips-reconstruction` -/

/-- `continue_seek` with the change: `page_set.contains(child) || overlay.page(child).is_some()` -/
def continueSeekStale {Node VH V : Type} (env : Env Node VH V) (ps : PageSet Node) (r : Req Node VH V) (pid : PageId)
    (page : MPage Node) : Outcome Unit (PageSet Node × Req Node VH V) :=
  match r.st with
  | .seeking =>
    if r.pos.depth % DEPTH ≠ 0 then .panic "assert: depth % DEPTH == 0" else
    let r := { r with pageId := some pid }
    match walkPage env page ((r.key.drop r.pos.depth).take DEPTH) r with
    | .panic m => .panic m
    | .err e => .err e
    | .ok (.returned r) => .ok (ps, r)
    | .ok (.bottom r) =>
      match r.pos.childPageIndex with
      | none => .panic "child_page_index"
      | some c =>
        match childPageId pid c with
        | .error _ => .panic "child_page_id unwrap"
        | .ok child =>
          if page.isElided c then
            if ps.contains child || (env.ovPages.lookup child).isSome then .ok (ps, r)
            else
              match beginLeavesFetch env r.pos page with
              | .panic m => .panic m
              | .err e => .err e
              | .ok st => continueLeavesFetch env ps { r with st := st } none
          else .ok (ps, r)
  | _ => .panic "seek past end"

/-- two keys that share twelve bits: the page `[0, 0]` below them is elided -/
def pKey : Key := List.replicate 12 false ++ [true] ++ List.replicate 243 false
def pView : KVL Nat := [(skA, 1), (pKey, 2)]
def pLeaves : List (Leaf Nat) := [⟨skA, pView⟩]
def pPage0 : MPage T := { specPageOf TH pView [] with elided := 0 }
def pPage1 : MPage T := { specPageOf TH pView [0] with elided := 1 }
/-- what an overlay that once emptied page `[0, 0]` still carries -/
def pStale : MPage T := { nodes := fun _ => T.term, elided := 0 }
def pEnv : Env T Nat Nat :=
  { kind := TH.kind, root := nodeAt TH 256 0 pView, record := true, primary := [], secondary := [], leaves := pLeaves,
    vh := id, ov := [], ovPages := [([0, 0], pStale)], disk := [([], pPage0), ([0], pPage1)], recon := reconSpec TH }
def pW : World T Nat Nat :=
  { env := pEnv, H := TH, view := pView,
    U := fun p => if p = [0, 0] then some pStale else if p = [] then some pPage0 else if p = [0] then some pPage1 else none,
    G := fun p => p = [] ∨ p = [0] }

theorem pView_len : ∀ kv ∈ pView, kv.1.length = KEY_BITS := by decide +kernel

/-- both keys of the view lie below `bs` only if `bs` is a prefix of the zero key -/
theorem p_two_prefix (bs : List Bool) (hl : bs.length ≤ KEY_BITS) (h2 : 2 ≤ (under bs pView).length) :
    bs = skA.take bs.length := by
  rw [under_eq_filter bs pView (by intro kv hkv; rw [pView_len kv hkv]; exact hl)] at h2
  have hp : bs.isPrefixOf skA = true := by
    cases hc : bs.isPrefixOf skA with
    | true => rfl
    | false =>
      simp only [pView, List.filter, hc] at h2
      split at h2 <;> simp at h2
  rw [List.isPrefixOf_iff_prefix] at hp
  exact List.prefix_iff_eq_take.1 hp

theorem pW_rep : Rep pW := by
  refine ⟨.inl rfl, ?_⟩
  intro P hP _
  rcases hP with h | h
  · subst h
    refine ⟨pPage0, rfl, ?_, ?_⟩
    · intro bs hne hlen hsp hthr
      exact specPage_faithful pW [] [] [] rfl bs hne hlen hsp hthr
    · intro bs hl hlen hsp hthr h2
      have hbs := p_two_prefix bs hlen h2
      have hl6 : bs.length = 6 := by simpa using hl
      rw [hl6] at hbs
      subst hbs
      have hb : pPage0.isElided (loadBE (lp (List.take 6 skA))) = false := by decide +kernel
      exact ⟨fun h => (by rw [hb] at h; cases h), fun _ => .inr (.inr (by decide +kernel))⟩
  · subst h
    refine ⟨pPage1, rfl, ?_, ?_⟩
    · intro bs hne hlen hsp hthr
      exact specPage_faithful pW [] [0] (pidBits [0]) rfl bs hne hlen hsp hthr
    · intro bs hl hlen hsp hthr h2
      have hbs := p_two_prefix bs hlen h2
      have hl12 : bs.length = 12 := by simpa using hl
      rw [hl12] at hbs
      subst hbs
      have hb : pPage1.isElided (loadBE (lp (List.take 12 skA))) = true := by decide +kernel
      refine ⟨fun _ => ?_, fun h => (by rw [hb] at h; cases h)⟩
      exact Nat.lt_of_le_of_lt (under_length_le _ _) (by decide)

theorem pW_ok : pW.OK where
  sound := TH_sound
  kind := rfl
  root := rfl
  prim := List.Pairwise.nil
  sec := List.Pairwise.nil
  leaves := by
    refine ⟨?_, ?_, ?_, trivial⟩
    · unfold KSorted; decide +kernel
    · decide +kernel
    · intro l' hl'; cases hl'
  firstSep := by
    intro l hl k hk
    have : l = ⟨skA, pView⟩ := by simpa [pW, pEnv, pLeaves] using hl.symm
    subst this
    exact bitsLt_zeros k 256 hk
  ov := List.Pairwise.nil
  viewEq := by
    show pView = kvApply (vhMap id (kvApply (flat pLeaves) (smerge [] []))) []
    rw [smerge_nil_right]
    decide +kernel
  viewLen := pView_len
  baseLen := by
    show ∀ kv ∈ kvApply (flat pLeaves) (smerge [] []), kv.1.length = KEY_BITS
    rw [smerge_nil_right]
    decide +kernel
  ovLen := by intro e he; cases he
  rep := pW_rep
  recon := reconSpec_ok pW rfl

theorem pW_mem : MemOK pW [] := by
  intro p
  by_cases h1 : p = [0, 0]
  · subst h1; rfl
  · by_cases h2 : p = []
    · subst h2; rfl
    · by_cases h3 : p = [0]
      · subst h3; rfl
      · have b1 : (p == ([0, 0] : PageId)) = false := by simpa using h1
        have b2 : (p == ([] : PageId)) = false := by simpa using h2
        have b3 : (p == ([0] : PageId)) = false := by simpa using h3
        simp [pW, pEnv, List.lookup, b1, b2, b3, h1, h2, h3]

structure StaleOut where
  state : Nat
  depth : Nat
  query : Option Query
  terminal : Option (Option (Key × Nat))
  nsibs : Nat
deriving DecidableEq

def stTag : RState T Nat Nat → Nat
  | .seeking => 0 | .fetchingLeaf .. => 1 | .fetchingLeaves .. => 2 | .completed _ => 3

/-- the seek of `pKey` up to the arrival of page `[0]` (handled by `cs`), then — if the request seeks on — what the
next `step` does: the page `[0, 0]` is not in the page set, the overlay answers with its stale image.  Result: the state
after page `[0]`, the next query, and the terminal / number of siblings of the completed request -/
def staleScript (cs : Env T Nat Nat → PageSet T → Req T Nat Nat → PageId → MPage T → Outcome Unit (PageSet T × Req T Nat Nat)) :
    Option StaleOut :=
  match Req.new pEnv pKey with
  | .ok r0 =>
    match continueSeek pEnv {} r0 [] pPage0 with
    | .ok (ps1, r1) =>
      match cs pEnv (ps1.insert [0] pPage1 .persisted) r1 [0] pPage1 with
      | .ok (ps2, r2) =>
        let q := match nextQuery r2 with | .ok (_, q) => q | _ => none
        let fin : Option (SeekRes T Nat) := match r2.st with
          | .seeking =>
            (match (ps2.get [0, 0]).map (·.1), pEnv.ovPages.lookup [0, 0] with
             | none, some pg =>
               (match continueSeek pEnv ps2 r2 [0, 0] pg with
                | .ok (_, r3) => r3.result
                | _ => none)
             | _, _ => none)
          | _ => none
        some { state := stTag r2.st, depth := r2.pos.depth, query := q, terminal := fin.map (·.terminal),
               nsibs := (fin.map (·.sibs.length)).getD 0 }
      | _ => none
    | _ => none
  | _ => none

def specTerminal (p : PathProof T Nat) : Option (Key × Nat) × Nat :=
  (match p.terminal with | .leaf k v => some (k, v) | .terminator _ => none, p.siblings.length)

/-- in a world that meets every hypothesis of `T5_seek_is_proveSpec` — the stale image sits at the page id `[0, 0]`,
which is not live — the specified proof of `pKey` ends in the leaf `(pKey, 2)` below 13 siblings; the unchanged
`continue_seek` starts the leaves fetch for the elided page (state `FetchingLeaves`, next query: b-tree leaf 0); the changed
one seeks on, is handed the overlay's stale image of `[0, 0]` and completes at a TERMINATOR: not the specified proof -/
theorem T5_seek_stale_overlay_page_counterexample :
    pW.OK ∧ PSInv pW ({} : Sys T Nat Nat).ps ∧ MemOK pW ({} : Sys T Nat Nat).cache ∧
    specTerminal (proveSpec TH KEY_BITS pView pKey) = (some (pKey, 2), 13) ∧
    staleScript continueSeek = some ⟨2, 12, some (.leaf 0), none, 0⟩ ∧
    staleScript continueSeekStale = some ⟨0, 12, some (.page [0, 0]), some none, 13⟩ :=
  ⟨pW_ok, fun P pg o h => by simp [PageSet.get] at h, pW_mem, by decide +kernel, by decide +kernel, by decide +kernel⟩

end Nomt.C05
