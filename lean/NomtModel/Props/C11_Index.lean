import NomtModel.Api.OvlPrune
import NomtModel.Api.OvlBtIter
/-!
# C11 (and C05) — the overlay index, lookups through overlay chains and the overlay / disk merges

Property theorems about the mirror of `nomt/src/overlay.rs` (`Api/OvlModel.lean`: `Index`, `prune_below`,
`LiveOverlay::new / value / value_iter / finish`) and of the two places of `nomt/src/merkle/seek.rs` where
overlay values and on-disk leaves are merged (`Api/OvlMerge.lean`).  All theorems quantify over every heap
of overlays that `new` / `finish` can build (`Built`: any number of overlays, any forks, any change maps in
any order) and over all keys.  Helper lemmas: `Api/OvlIndex.lean`, `OvlInv.lean`, `OvlValue.lean`,
`OvlFinish.lean`, `OvlNew.lean`, `OvlPrune.lean`, `OvlMerge.lean`.  Tie to the code: harness command
`overlay-index` vs driver mode `ovl` (the real `overlay.rs` through `nomt::verif_api`).
-/
namespace Nomt.C11
open Nomt Nomt.Ovl
variable {V : Type}

/-- every heap of frozen overlays the code can produce: start empty; a session holds a well-shaped live overlay
(`LiveOK`: what any successful `LiveOverlay::new` returns — `T11_new_gives_liveOK`) and `finish` appends the
overlay it creates -/
inductive Built : Heap V → Prop where
  | nil : Built []
  | push {h : Heap V} {l : Live} {changes : Writes V} {o : Ov V} :
      Built h → LiveOK h l → Live.finish h l changes = .ok o → Built (h ++ [o])

/-- the same scripts run twice, once per pruning policy: at every `finish` each side may or may not run
`Index::prune_below` -/
inductive Lockstep : Heap V → Heap V → Prop where
  | nil : Lockstep [] []
  | push {h h' : Heap V} {l : Live} {changes : Writes V} {o o' : Ov V} (b b' : Bool) :
      Lockstep h h' → LiveOK h l → Live.finishWith b h l changes = .ok o →
      Live.finishWith b' h' l changes = .ok o' → Lockstep (h ++ [o]) (h' ++ [o'])

theorem built_inv {h : Heap V} (hb : Built h) : HeapInv h ∧ HeapTight h := by
  induction hb with
  | nil => exact ⟨HeapInv.nil, fun i o hi => by simp at hi⟩
  | @push h l changes o _ ok hf ih =>
    obtain ⟨o', ho', inv, _, _, _, _, ht⟩ := finishWith_inv ih.1 ok true changes
    have : Live.finishWith true h l changes = Live.finish h l changes := rfl
    rw [this, hf] at ho'
    cases ho'
    exact ⟨heapInv_push ih.1 inv, heapTight_push ih.2 (ht rfl)⟩

theorem lockstep_inv {h h' : Heap V} (hl : Lockstep h h') : HeapInv h ∧ HeapInv h' ∧ Similar h h' := by
  induction hl with
  | nil => exact ⟨HeapInv.nil, HeapInv.nil, Similar.refl _⟩
  | @push h h' l changes o o' b b' _ ok hf hf' ih =>
    obtain ⟨x, x', hx, hx', i1, i2, sim⟩ := finish_similar ih.1 ih.2.1 ih.2.2 ok b b' changes
    rw [hf] at hx; rw [hf'] at hx'
    cases hx; cases hx'
    exact ⟨i1, i2, sim⟩

/-- **T11.index.prune**: `Index::prune_below(min)` — the two pop-front loops with their remove / conditional
re-insert — removes from the map and from the log exactly the entries with a sequence number below `min`,
for every well-formed index (map sorted, log ascending, every map entry recorded in the log); every index
`finish` ever builds is well-formed (`T11_index_exact`). -/
theorem T11_index_prune_below_spec (idx : Index) (wf : idx.WF) (min : Nat) :
    idx.pruneBelow min = idx.pruneSpec min ∧ (idx.pruneSpec min).WF :=
  ⟨pruneBelow_eq_spec wf min, pruneSpec_wf wf min⟩

/-- **T11.index.exact**: in every reachable heap the index of every overlay `o` maps exactly the keys changed
by `o` or by one of the ancestors that were live when `o` was created (`o.anc`) — nothing else: entries of
ancestors that had been committed or dropped are gone — each to the sequence number of the YOUNGEST overlay
that changed it (`o.seqn − j` for the overlay at distance `j`); the index is well-formed, and the ancestor
list is never longer than the sequence number (so `parent.seqn − n` cannot underflow). -/
theorem T11_index_exact {h : Heap V} (hb : Built h) (i : Nat) (o : Ov V) (hi : h[i]? = some o) (k : Key) :
    kvGet o.index.values k = (firstIdx (o.values :: chainData h o.anc) k).map (fun j => o.seqn - j) ∧
    o.index.WF ∧ o.anc.length ≤ o.seqn :=
  let inv := (built_inv hb).1 i o hi
  ⟨index_exact inv ((built_inv hb).2 i o hi) k, inv.wf, inv.ancLen⟩

/-- **T11.index.value**: for every reachable heap and every accepted ancestor list `p :: rest`,
`LiveOverlay::value(k)` reaches no panic site (no `unwrap` on a missing entry, no slice index out of range,
no underflow) and returns the youngest change of `k` along the chain it validated — the parent `p` and the
first `n` supplied ancestors — `none` ("not changed in the overlay": fall through to the store) iff none of
them changes `k`.  Index entries of older ancestors are skipped (`checked_sub`), never misread. -/
theorem T11_index_value_spec {h : Heap V} (hb : Built h) (alive committed : Nat → Bool) (sup : List Nat) (l : Live)
    (hn : Live.new h alive committed sup = .ok l) (k : Key) :
    l.value h k = .ok (chainLookup (chainData h l.chain) k) ∧ l.chain = sup.take l.chain.length := by
  refine ⟨value_spec (built_inv hb).1 (new_ok_liveOK hn) k, ?_⟩
  cases sup with
  | nil => simp [Live.new] at hn; subst hn; rfl
  | cons p rest =>
    unfold Live.new at hn
    simp only at hn
    cases hp : h[p]? with
    | none => rw [hp] at hn; cases hn
    | some po =>
      rw [hp] at hn
      dsimp only at hn
      cases hz : zipCheck alive rest po.anc with
      | error e => rw [hz] at hn; cases hn
      | ok used =>
        rw [hz] at hn
        dsimp only at hn
        obtain ⟨_, h2, _, _⟩ := zipCheck_ok hz
        split at hn
        · cases hn
        · split at hn
          · cases hn
          · cases hn
            simp only [Live.chain, List.length_cons, List.take_succ_cons]
            rw [← h2]

/-- the same for any well-shaped live overlay (a `LiveOverlay` outlives status changes of its ancestors) -/
theorem T11_index_value_spec' {h : Heap V} (hb : Built h) (l : Live) (ok : LiveOK h l) (k : Key) :
    l.value h k = .ok (chainLookup (chainData h l.chain) k) :=
  value_spec (built_inv hb).1 ok k

/-- **T11.value_iter**: `value_iter(start, end)` reaches no panic site and yields, as a sorted map, exactly the
restriction of the chain view to the HALF-OPEN range: strictly ascending keys (each key once), and key `k`
carries the youngest change of `k` along the chain iff `start ≤ k < end` (`end = none`: no upper bound);
consequently an entry `(k, c)` is produced iff `k` is in range and `c` is that youngest change.  A stale
index entry in the middle of the range hides nothing behind it. -/
theorem T11_value_iter_spec {h : Heap V} (hb : Built h) (l : Live) (ok : LiveOK h l) (start : Key) (stop : Option Key) :
    ∃ r, l.valueIter h start stop = .ok r ∧ KSorted r ∧
      (∀ k, kvGet r k = if inRange start stop k then chainLookup (chainData h l.chain) k else none) ∧
      (∀ k c, (k, c) ∈ r ↔ (inRange start stop k = true ∧ chainLookup (chainData h l.chain) k = some c)) := by
  obtain ⟨r, hr, hs, hg⟩ := valueIter_spec (built_inv hb).1 ok start stop
  refine ⟨r, hr, hs, hg, fun k c => ⟨fun hm => ?_, fun ⟨h1, h2⟩ => ?_⟩⟩
  · have := kvGet_of_mem hs hm
    rw [hg] at this
    by_cases hr' : inRange start stop k = true
    · rw [if_pos hr'] at this; exact ⟨hr', this⟩
    · rw [if_neg hr'] at this; cases this
  · apply mem_of_kvGet
    rw [hg, if_pos h1, h2]

/-- **T11.merge** (`SeekRequest::continue_leaves_fetch`, reconstruction of elided pages): the merge loop over
the collected on-disk leaf data and the overlay's `value_iter` of the same range — with its empty-collection
fast path — is the sorted-map union in which overlay entries override and deletions delete: overlay
insertions between disk entries are inserted, an overlay deletion hides the disk entry, a "naked" deletion is
ignored, the youngest overlay value wins (T11.value_iter).  For any ascending inputs. -/
theorem T11_merge_spec {VH : Type} (coll : KVL VH) (hs : KSorted coll) (ov : List (Key × Option VH)) (ho : OvSorted ov) :
    leavesMerge coll ov = kvApply coll ov ∧ KSorted (leavesMerge coll ov) ∧
    ∀ k, kvGet (leavesMerge coll ov) k = match wsLookup ov k with | some w => w | none => kvGet coll k := by
  rw [leavesMerge_eq_kvApply hs ho]
  exact ⟨rfl, kvApply_sorted hs ov, fun k => kvGet_kvApply_distinct hs (ovSorted_distinct ho) k⟩

/-- **T11.leaf_fetch** (`begin_leaf_fetch` + `continue_leaf_fetch`, the leaf below a leaf node of the session's
trie): whatever the overlay-aware fetch returns is an entry of the merged range; if the merged range holds
exactly one entry — which is what a leaf node of the session's trie means — it returns that entry and the
panic "leaf must exist" is not reached; without an overlay insertion in the range it returns the first
merged entry and panics exactly when the merged range is empty. -/
theorem T11_leaf_fetch_spec {VH : Type} (disk : KVL VH) (hs : KSorted disk) (ov : List (Key × Option VH)) (ho : OvSorted ov) :
    (∀ x, leafFetch disk ov = .ok x → x ∈ kvApply disk ov) ∧
    (∀ y, kvApply disk ov = [y] → leafFetch disk ov = .ok y) ∧
    (firstInsert ov = none → leafFetch disk ov = match (kvApply disk ov).head? with
      | some y => .ok y
      | none => .panic "leaf must exist") :=
  ⟨fun _ h => leafFetch_sound hs ho h, fun _ h => leafFetch_single hs ho h, leafFetch_no_insert hs ho⟩

/-- **T11.prune_invisible (index level)**: run any script of sessions and `finish` calls twice, each `finish`
with or without `Index::prune_below`: every `value` and every `value_iter` of every live overlay returns the
same on both heaps.  What pruning removes can never be seen. -/
theorem T11_prune_invisible {h h' : Heap V} (hl : Lockstep h h') (l : Live) (ok : LiveOK h l) :
    (∀ k, l.value h k = l.value h' k) ∧ (∀ a b, l.valueIter h a b = l.valueIter h' a b) := by
  obtain ⟨i1, i2, sim⟩ := lockstep_inv hl
  exact lookups_similar i1 i2 sim ok

/-- **T11.prune_invisible (semantic level)**: let a session hold the parent `p` and its first `n` live ancestors
while the remaining, older ancestors of `p`'s creation chain have been committed oldest-first into the
committed map (`applyChain base older`).  What the session reads for any key — the overlay's change if `value`
finds one, else the committed map — is what reading through the WHOLE creation chain over the old committed
map `base` gives: skipping / pruning the committed ancestors changes no lookup result. -/
theorem T11_committed_ancestors_invisible {h : Heap V} (hb : Built h) (l : Live) (ok : LiveOK h l) (p : Nat) (po : Ov V)
    (hp : l.parent = some p) (hpo : h[p]? = some po) (base : KVL V) (hs : KSorted base)
    (hd : ∀ ws ∈ chainData h (po.anc.drop l.anc.length), WDistinct ws) (k : Key) :
    (match l.value h k with
      | .ok (some c) => c
      | _ => kvGet (applyChain base (chainData h (po.anc.drop l.anc.length))) k) =
    readThrough (chainData h (p :: po.anc)) base k := by
  rw [value_spec (built_inv hb).1 ok k]
  have hanc : l.anc = po.anc.take l.anc.length := by
    unfold LiveOK at ok
    rw [hp] at ok
    obtain ⟨po', hpo', _, h2, _⟩ := ok
    rw [hpo] at hpo'; cases hpo'; exact h2
  have hsplit : chainData h (p :: po.anc) = chainData h l.chain ++ chainData h (po.anc.drop l.anc.length) := by
    have hc : l.chain = p :: l.anc := by simp [Live.chain, hp]
    rw [hc]
    conv => lhs; rw [← List.take_append_drop l.anc.length po.anc, ← hanc]
    simp [chainData]
  rw [hsplit, ← readThrough_split hs _ _ hd]
  unfold readThrough
  cases chainLookup (chainData h l.chain) k <;> rfl

/-- **T11.new (acceptance)**: with `n = min(#supplied further ancestors, #ancestors live when the parent was
created)`, `LiveOverlay::new(p :: rest)` succeeds exactly when the first `n` supplied ancestors ARE the
parent's first `n` ancestors (`Arc::ptr_eq` on every pair), all still alive (`Weak::upgrade`), and the
overlay below the oldest overlay used is committed or does not exist; the session then reads `p` and those
`n` ancestors with `min_seqn = p.seqn − n`.  I.e. accepted lists are prefixes of the parent chain that reach
down to the committed state. -/
theorem T11_new_accepts_iff {h : Heap V} (hb : Built h) (alive committed : Nat → Bool) (p : Nat) (rest : List Nat)
    (po : Ov V) (hp : h[p]? = some po) (l : Live) :
    Live.new h alive committed (p :: rest) = .ok l ↔
      (rest.take (min rest.length po.anc.length) = po.anc.take (min rest.length po.anc.length) ∧
       (∀ a ∈ po.anc.take (min rest.length po.anc.length), alive a = true) ∧
       chainIncomplete committed (lastParent h po (po.anc.take (min rest.length po.anc.length))) = false ∧
       l = { parent := some p, anc := po.anc.take (min rest.length po.anc.length),
             minSeqn := po.seqn - min rest.length po.anc.length }) :=
  new_ok_iff (built_inv hb).1 alive committed p rest hp l

/-- **T11.new (total)**: `LiveOverlay::new` on existing overlays returns `Ok` or one of its two errors — the
`u64` subtraction `parent.seqn − ancestor_data.len()` never underflows — every `Ok` is well-shaped, and
`finish` on a well-shaped live overlay never panics either -/
theorem T11_new_finish_total {h : Heap V} (hb : Built h) (alive committed : Nat → Bool) (sup : List Nat)
    (hex : ∀ p ∈ sup.head?, p < h.length) :
    (Live.new h alive committed sup).isPanic = false ∧
    (∀ l, Live.new h alive committed sup = .ok l → LiveOK h l ∧ ∀ changes, ∃ o, l.finish h changes = .ok o ∧ Built (h ++ [o])) := by
  refine ⟨new_no_panic (built_inv hb).1 alive committed sup hex, fun l hn => ⟨new_ok_liveOK hn, fun changes => ?_⟩⟩
  obtain ⟨o, ho, _⟩ := finishWith_inv (built_inv hb).1 (new_ok_liveOK hn) true changes
  exact ⟨o, ho, Built.push hb (new_ok_liveOK hn) ho⟩

/-- **T11.2 tie**: on an API state `s` describing the same overlays as the heap, the specification-level
`Api.newLive` (the function T11.2 / T11.3 / T11.5 of `Props/C11.lean` are about) returns exactly the chain
of the mirrored `LiveOverlay::new`, and refuses with the same error. -/
theorem T11_2_newLive_is_mirror {Node VH : Type} [DecidableEq Node] [DecidableEq VH] {s : Api.St Node VH} {h : Heap V}
    (hb : Built h) (hr : Rel s h) (ids : List Nat) :
    Api.newLive s ids = (match Live.new h s.alive (committedOf s) ids with
      | .ok l => .ok l.chain
      | .err .incomplete => .error .incomplete
      | .err .notAncestor => .error .notAncestor
      | .panic _ => .error .notAncestor) :=
  api_newLive_eq (built_inv hb).1 hr ids

/-! ### non-vacuity: a concrete chain  A ← B ← C  over the keys 00, 01, 10, 11 -/

def kA : Key := [false, false]
def kB : Key := [false, true]
def kC : Key := [true, false]
def kD : Key := [true, true]

/-- A inserts 00, 01, 10 -/
def ovA : Ov Nat := match Live.finish ([] : Heap Nat) {} [(kB, some 1), (kA, some 2), (kC, some 3)] with
  | .ok o => o | _ => { seqn := 0, index := {}, values := [], parent := none, anc := [] }
def lAB : Live := { parent := some 0, anc := [], minSeqn := 0 }
/-- B (on A) deletes 01 and overwrites 10 -/
def ovB : Ov Nat := match Live.finish [ovA] lAB [(kC, some 30), (kB, none)] with
  | .ok o => o | _ => ovA
def lBC : Live := { parent := some 1, anc := [0], minSeqn := 0 }
/-- C (on B, A) re-inserts 01 and inserts 11 -/
def ovC : Ov Nat := match Live.finish [ovA, ovB] lBC [(kD, some 4), (kB, some 10)] with
  | .ok o => o | _ => ovA
def exHeap : Heap Nat := [ovA, ovB, ovC]

theorem exHeap_built : Built exHeap :=
  Built.push (h := [ovA, ovB]) (l := lBC)
    (Built.push (h := [ovA]) (l := lAB)
      (Built.push (h := []) (l := {}) Built.nil (by simp [LiveOK]) (by rfl))
      ⟨ovA, rfl, by decide, rfl, rfl⟩ (by rfl))
    ⟨ovB, rfl, by decide, rfl, rfl⟩ (by rfl)

/-- a session on `[C, B, A]` with nothing committed; one on `[C, B]` after A was committed (stale entries of A
in C's index); the refused lists -/
example :
    Live.new exHeap (fun _ => true) (fun _ => false) [2, 1, 0] = .ok { parent := some 2, anc := [1, 0], minSeqn := 0 } ∧
    Live.new exHeap (fun _ => true) (fun q => q == 0) [2, 1] = .ok { parent := some 2, anc := [1], minSeqn := 1 } ∧
    Live.new exHeap (fun _ => true) (fun _ => false) [2, 1] = .err .incomplete ∧
    Live.new exHeap (fun _ => true) (fun _ => false) [2, 0] = .err .notAncestor ∧
    Live.new exHeap (fun a => a != 1) (fun _ => false) [2, 0] = .err .incomplete := by decide

example :
    let l : Live := { parent := some 2, anc := [1, 0], minSeqn := 0 }
    l.value exHeap kA = .ok (some (some 2)) ∧ l.value exHeap kB = .ok (some (some 10)) ∧
    l.value exHeap kC = .ok (some (some 30)) ∧ l.value exHeap [true] = .ok none ∧
    l.valueIter exHeap kB (some kD) = .ok [(kB, some 10), (kC, some 30)] := by decide

/-- after A is committed the session holds `[C, B]`: A's entry for 00 is stale and skipped, 10 comes from B -/
example :
    let l : Live := { parent := some 2, anc := [1], minSeqn := 1 }
    LiveOK exHeap l ∧ l.value exHeap kA = .ok none ∧ l.value exHeap kC = .ok (some (some 30)) ∧
    l.valueIter exHeap kA none = .ok [(kB, some 10), (kC, some 30), (kD, some 4)] :=
  ⟨⟨ovC, rfl, by decide, rfl, rfl⟩, by decide, by decide, by decide⟩

/-- a child of that session: A's entries are pruned from its index -/
example :
    (match Live.finish exHeap { parent := some 2, anc := [1], minSeqn := 1 } [(kA, none)] with
      | .ok o => (o.seqn, o.index.values, o.index.bySeqn.map (·.1))
      | _ => (0, [], [])) = (3, [(kA, 3), (kB, 2), (kC, 1), (kD, 2)], [1, 1, 2, 2, 3]) := by decide

/-- the merges -/
example :
    leavesMerge [(kA, 1), (kC, 3)] [(kA, none), (kB, some 20), (kC, some 30), (kD, none)] = [(kB, 20), (kC, 30)] ∧
    leafFetch [(kA, 1), (kC, 3)] [(kA, none), (kD, none)] = .ok (kC, 3) ∧
    leafFetch [(kA, 1)] [(kA, none)] = (.panic "leaf must exist" : Outcome Unit (Key × Nat)) ∧
    KSorted [(kA, 1), (kC, 3)] ∧ OvSorted [(kA, (none : Option Nat)), (kB, some 20), (kC, some 30), (kD, none)] := by
  refine ⟨by decide, by decide, by decide, ?_, ?_⟩
  · unfold KSorted; decide
  · unfold OvSorted; decide

end Nomt.C11
