import NomtModel.Api.OvlBtNew
/-!
# C05 (and C11) — `BeatreeIterator`: in-memory staging merged with the on-disk leaves

Property theorem about the mirror of `nomt/src/beatree/iterator.rs` (`Api/OvlBtIter.lean`): the iterator every
overlay-aware seek (`merkle/seek.rs`: the leaf below a leaf node, the leaves of an elided page) reads the value
store with.  Helper lemmas: `Api/OvlBtStaging.lean`, `OvlBtLeaf.lean`, `OvlBtSpec.lean`, `OvlBtNew.lean`.
Tie to the code: the `bti` lines of harness command `overlay-index` vs driver mode `ovl` (the real
`BeatreeIterator` over real leaf pages / branch nodes through `nomt::verif_api::beatree_run_iterator`).
-/
namespace Nomt.C05
open Nomt Nomt.Ovl
variable {V : Type}

/-- **T5.iterator**: `BeatreeIterator::new(primary, secondary, index, start, end)` driven to exhaustion — `next`,
and `provide_leaf` with the needed leaf whenever it answers `Blocked` — on any tree whose leaves are in order
(`LeavesOK`: keys ascending inside and across leaves, every separator not above the keys of its leaf and above
everything before it) and whose first separator is not above `start`, with any two ascending staging maps:
it never panics (not in `TakeMemory`'s `panic!()`, not in `provide_leaf`), needs no more than the fuel of the
mirror, and the items it yields are, as a sorted map, exactly

  `start ≤ k < end`  ↦  the primary staging change of `k`, else the secondary's, else the on-disk entry

with deletions removing the key: strictly ascending keys (each once), nothing outside the half-open range,
a staged deletion hides the disk entry, a staged insertion between disk entries is inserted, the more
recent (primary) staging map wins. -/
theorem T5_iterator_spec (primary secondary : List (Key × Option V)) (leaves : List (Leaf V)) (start : Key)
    (stop : Option Key) (hp : OvSorted primary) (hs : OvSorted secondary) (hl : LeavesOK leaves)
    (h0 : ∀ l ∈ leaves.head?, bitsLt start l.sep = false) :
    ∃ items n, (BtIt.new primary secondary leaves start stop).runAll = .ok (items, n) ∧ KSorted items ∧
      ∀ k, kvGet items k =
        if inRange start stop k then
          (match wsLookup primary k with
           | some c => c
           | none => match wsLookup secondary k with
             | some c => c
             | none => kvGet (flat leaves) k)
        else none := by
  obtain ⟨n, hn⟩ := runAll_spec primary secondary leaves start stop hp hs hl h0
  have hD : KSorted ((flat leaves).filter (fun e => inRange start stop e.1)) := ksorted_filter (flat_sorted hl) _
  have hps : OvSorted (rangeOf primary start stop) := List.Pairwise.filter _ hp
  have hss : OvSorted (rangeOf secondary start stop) := List.Pairwise.filter _ hs
  refine ⟨_, n, hn, kvApply_sorted hD _, fun k => ?_⟩
  rw [kvGet_kvApply_distinct hD (ovSorted_distinct (smerge_sorted hps hss)), wsLookup_smerge hps hss,
    kvGet_filter (flat_sorted hl)]
  unfold rangeOf
  rw [wsLookup_filter_key primary (inRange start stop) k, wsLookup_filter_key secondary (inRange start stop) k]
  by_cases hr : inRange start stop k = true
  · simp only [hr, if_true]
    cases wsLookup primary k with
    | some c => rfl
    | none =>
      simp only
      cases wsLookup secondary k with
      | some c => rfl
      | none =>
        simp only
        cases kvGet (flat leaves) k <;> simp [Option.filter, hr]
  · have hr' : inRange start stop k = false := by simpa using hr
    simp only [hr', Bool.false_eq_true, if_false]
    cases kvGet (flat leaves) k <;> simp [Option.filter, hr']

/-! ### non-vacuity: two leaves, two staging maps, a range cutting into both leaves -/

def k0 : Key := [false, false, false]
def k1 : Key := [false, false, true]
def k2 : Key := [false, true, false]
def k3 : Key := [false, true, true]
def k4 : Key := [true, false, false]
def k5 : Key := [true, false, true]

def exLeaves : List (Leaf Nat) := [⟨k0, [(k1, 1), (k2, 2)]⟩, ⟨k3, [(k3, 3), (k5, 5)]⟩]

example : LeavesOK exLeaves := by
  refine ⟨?_, by decide, by decide, ?_, by decide, by decide, trivial⟩ <;> (unfold KSorted; decide)

/-- primary deletes `k3` and inserts `k4`; secondary re-inserts `k3` and overwrites `k2`; range `[k2, k5)` -/
example :
    (BtIt.new [(k3, none), (k4, some 40)] [(k2, some 20), (k3, some 30)] exLeaves k2 (some k5)).runAll =
      .ok ([(k2, 20), (k4, 40)], 2) := by decide

end Nomt.C05
