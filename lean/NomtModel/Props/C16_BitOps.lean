import NomtModel.Store.BitOpsReconstruct
import NomtModel.Store.BitOpsOrder
import NomtModel.Store.BitOpsBranchRt
import NomtModel.Store.BitOpsCallSites
/-!
# C16 (topic: bit operations of the B-tree) — `nomt/src/beatree/ops/bit_ops.rs`

Only property theorems and non-vacuity examples.  The mirror (`Store/BitOps.lean`) follows the Rust on bytes and
64-bit words (chunked big-endian reads, masks, shifts, remainder bytes, the extra byte of a right shift; `none` =
panic); the driver mode `bitops` runs it against the real functions (`vharness bitops`, hook
`nomt::verif_api::bit_ops`).  A byte string is a `List Nat` of bytes (`Bytes`), bit `p` is `bitOf l p` (Msb0).

Registration (tools/props.py, for C16 and as an additional run for C01 — reading keys back goes through `get_key`):
`{"cmd": "bitops", "mode": "bitops", "cases": {"quick": 40000, "thorough": 1000000}, "shards": {"quick": 4, "thorough": 16}}`,
`{"cmd": "bitops-node", "mode": "bitops", "cases": {"quick": 1200, "thorough": 30000}, "shards": {"quick": 4, "thorough": 16}}`
(both quick runs together ≈ 11 s wall on 4 shards).
-/
namespace Nomt.C16
open Nomt.BitOps

/-! ## `first_chunk_mask`, `last_chunk_mask` -/

/-- `first_chunk_mask(bs)` is the low `64 − bs` bits for `bs ≤ 7` and panics (`7 - bit_start` underflows) otherwise. -/
theorem T16_first_chunk_mask_spec (bs : Nat) :
    (bs ≤ 7 → firstChunkMask bs = some (2 ^ (64 - bs) - 1)) ∧ (7 < bs → firstChunkMask bs = none) :=
  ⟨firstChunkMask_eq bs, first_chunk_mask_panics bs⟩

/-- `last_chunk_mask(bs, len, n)` for `n ≥ 1` (and fewer than `2^32` used bits) is the word whose first
`used = (bs + len) ∸ 64·(n−1)` bits (Msb0, saturating at 64) are set; it panics for `n = 0`. -/
theorem T16_last_chunk_mask_spec (bs len n : Nat) (hn : 0 < n) (hu : bs + len - (n - 1) * 64 < 2 ^ 32) :
    ∃ m, lastChunkMask bs len n = some m ∧ m < 2 ^ 64 ∧
      ∀ j, j < 64 → m.testBit (63 - j) = decide (j < bs + len - (n - 1) * 64) := by
  refine ⟨_, lastChunkMask_eq bs len n hn hu, lcmVal_lt _, ?_⟩
  intro j hj
  rw [testBit_lcmVal]
  rw [decide_eq_decide]
  constructor <;> intro <;> omega

theorem T16_last_chunk_mask_panics (bs len : Nat) : lastChunkMask bs len 0 = none := last_chunk_mask_panics bs len

example : firstChunkMask 3 = some 0x1fffffffffffffff ∧ lastChunkMask 3 70 2 = some 0xff80000000000000 := by decide

/-! ## `bitwise_memcpy` -/

/-- **T16.memcpy** — `bitwise_memcpy(dst, dbs, src, sbs, len)` under its contract `MemcpyGuard`
(`len = 0`, or: both bit offsets ≤ 7, the source holds exactly `⌈(sbs+len)/64⌉` whole 8-byte chunks,
the destination holds at least `⌈(dbs+len)/8⌉` bytes): it does not panic, the length is unchanged, destination
bits `[dbs, dbs+len)` equal the source bits `[sbs, sbs+len)`, **every other destination bit is unchanged**.
No bound on any length. -/
theorem T16_memcpy_spec (dst : List Nat) (dbs : Nat) (src : List Nat) (sbs len : Nat)
    (hdst : Bytes dst) (hsrc : Bytes src) (g : MemcpyGuard dst.length dbs src.length sbs len) :
    ∃ out, bitwiseMemcpy dst dbs src sbs len = some out ∧ out.length = dst.length ∧ Bytes out ∧
      (∀ i, i < len → bitOf out (dbs + i) = bitOf src (sbs + i)) ∧
      (∀ p, p < dbs ∨ dbs + len ≤ p → bitOf out p = bitOf dst p) := by
  refine ⟨_, bitwiseMemcpy_spec hdst hsrc g, length_memcpySpec _ _ _ _ _, bytes_memcpySpec _ _ _ _ _, ?_, ?_⟩
  · intro i hi
    have hroom : dbs + i < 8 * dst.length := by
      rcases g with g | ⟨_, _, _, g4⟩ <;> omega
    unfold memcpySpec
    rw [bitOf_bytesOfBits _ _ _ hroom]
    unfold memcpyBit
    rw [if_pos (by omega)]
    congr 2; omega
  · intro p hp
    by_cases hin : p < 8 * dst.length
    · unfold memcpySpec
      rw [bitOf_bytesOfBits _ _ _ hin]
      unfold memcpyBit
      rw [if_neg (by omega)]
    · rw [bitOf_beyond _ p (by rw [length_memcpySpec]; omega), bitOf_beyond _ p (by omega)]

/-- the mirror **is** the bit-level specification under the contract (equational form of T16.memcpy) -/
theorem T16_memcpy_eq_spec (dst : List Nat) (dbs : Nat) (src : List Nat) (sbs len : Nat)
    (hdst : Bytes dst) (hsrc : Bytes src) (g : MemcpyGuard dst.length dbs src.length sbs len) :
    bitwiseMemcpy dst dbs src sbs len = some (memcpySpec dst dbs src sbs len) :=
  bitwiseMemcpy_spec hdst hsrc g

/-- no panic inside the contract -/
theorem T16_memcpy_no_panic (dst : List Nat) (dbs : Nat) (src : List Nat) (sbs len : Nat)
    (hdst : Bytes dst) (hsrc : Bytes src) (g : MemcpyGuard dst.length dbs src.length sbs len) :
    (bitwiseMemcpy dst dbs src sbs len).isSome = true := by
  rw [bitwiseMemcpy_spec hdst hsrc g]; rfl

/-- `len = 0` never touches anything, whatever the other arguments are -/
theorem T16_memcpy_empty (dst : List Nat) (dbs : Nat) (src : List Nat) (sbs : Nat) :
    bitwiseMemcpy dst dbs src sbs 0 = some dst := by
  simp [bitwiseMemcpy]

-- non-vacuity: a right shift by 2 over a chunk boundary with the extra destination byte; a left shift whose
-- second-to-last source chunk ends the destination (the "rare case" of the Rust comment)
example : MemcpyGuard 9 5 16 3 62 ∧
    bitwiseMemcpy (List.replicate 9 0) 5 (List.replicate 16 255) 3 62 = some [7, 255, 255, 255, 255, 255, 255, 255, 0xE0] := by
  decide
example : MemcpyGuard 8 0 16 7 60 ∧
    bitwiseMemcpy (List.replicate 8 0xAA) 0 (List.replicate 16 255) 7 60 = some [255, 255, 255, 255, 255, 255, 255, 0xFA] := by
  decide

/-! ### outside the contract: each clause of `MemcpyGuard` is needed

(cf. F13 / F14 in DESIGN.md §6: wrongly sized source ranges at the call sites in `BranchNodeBuilder`) -/

/-- source one chunk too LONG (the F13 shape): no panic, but the last-chunk mask is applied to the wrong chunk
and every destination bit up to the chunk end is overwritten — here 3 bits were to be copied, 64 were. -/
theorem T16_memcpy_long_source_clobbers :
    bitwiseMemcpy [0, 0, 0, 0, 0, 0, 0, 0] 0 (List.replicate 16 255) 0 3 = some [255, 255, 255, 255, 255, 255, 255, 255] ∧
    memcpySpec [0, 0, 0, 0, 0, 0, 0, 0] 0 (List.replicate 16 255) 0 3 = [224, 0, 0, 0, 0, 0, 0, 0] := by decide

/-- source one chunk too SHORT (the F14 shape): with a right shift the tail arithmetic underflows (panic); with a
left shift the bits of the missing chunk are silently dropped (the slice handed over ends after 61 of the 62 bits;
with the 16-byte slice the contract asks for, all 62 arrive). -/
theorem T16_memcpy_short_source :
    bitwiseMemcpy (List.replicate 16 0) 5 (List.replicate 8 255) 3 62 = none ∧
    bitwiseMemcpy (List.replicate 16 0) 0 (List.replicate 8 255) 3 62 =
      some [255, 255, 255, 255, 255, 255, 255, 0xF8, 0, 0, 0, 0, 0, 0, 0, 0] ∧
    bitwiseMemcpy (List.replicate 16 0) 0 (List.replicate 16 255) 3 62 =
      some [255, 255, 255, 255, 255, 255, 255, 0xFC, 0, 0, 0, 0, 0, 0, 0, 0] := by decide

/-- destination too short: silently truncated without a shift, index out of bounds with a right shift;
a bit offset above 7 panics in `first_chunk_mask`. -/
theorem T16_memcpy_other_violations :
    bitwiseMemcpy [0] 0 (List.replicate 8 255) 0 12 = some [255] ∧
    bitwiseMemcpy (List.replicate 8 0) 5 (List.replicate 8 255) 0 64 = none ∧
    bitwiseMemcpy (List.replicate 8 0) 8 (List.replicate 8 255) 0 8 = none ∧
    bitwiseMemcpy (List.replicate 8 0) 0 (List.replicate 8 255) 8 8 = none := by decide

/-! ## `prefix_len`, `separator_len` -/

/-- **T16.prefix_len** — `prefix_len(a, b)` is the length of the longest common bit prefix of the two keys:
at most 256, the keys agree on every earlier bit, and differ at that bit unless it is 256. -/
theorem T16_prefix_len_spec (a b : List Nat) :
    prefixLen a b = commonPrefix (bitOf a) (bitOf b) 256 0 ∧ prefixLen a b ≤ 256 ∧
    (∀ j, j < prefixLen a b → bitOf a j = bitOf b j) ∧
    (prefixLen a b < 256 → bitOf a (prefixLen a b) ≠ bitOf b (prefixLen a b)) :=
  ⟨prefixLen_eq a b, prefixLen_le a b, prefixLen_agree a b, prefixLen_differ a b⟩

/-- **T16.separator_len** — `separator_len(k)` = 256 − (number of trailing zero bits), except 1 for the all-zero
key: between 1 and 256, every bit from it on is zero, and (unless the key is zero) the bit before it is set —
i.e. it is the length of the key without its trailing zeros. -/
theorem T16_separator_len_spec (k : List Nat) (hk : Bytes k) (hl : k.length = 32) :
    separatorLen k = (if k = List.replicate 32 0 then 1 else 256 - trailingZeros (bitOf k) 256) ∧
    1 ≤ separatorLen k ∧ separatorLen k ≤ 256 ∧
    (∀ p, separatorLen k ≤ p → bitOf k p = false) ∧
    (k ≠ List.replicate 32 0 → bitOf k (separatorLen k - 1) = true) ∧
    prefixPad k (separatorLen k) = k := by
  refine ⟨separatorLen_eq k, (separatorLen_bounds k hk hl).1, (separatorLen_bounds k hk hl).2,
    separatorLen_zero_after k hl, separatorLen_last_one k hk hl, ?_⟩
  apply bytes_ext_bits (bytes_prefixPad _ _) hk (by rw [length_prefixPad, hl])
  intro p hp
  rw [length_prefixPad] at hp
  rw [bitOf_prefixPad _ _ _ (by omega)]
  by_cases h : p < separatorLen k
  · simp [h]
  · simp [h, separatorLen_zero_after k hl p (by omega)]

example : prefixLen (List.replicate 32 0xF0) (List.replicate 31 0xF0 ++ [0xF1]) = 255 ∧
    separatorLen (0x80 :: List.replicate 31 0) = 1 ∧ separatorLen (List.replicate 32 0) = 1 ∧
    separatorLen (List.replicate 9 0 ++ [0x10] ++ List.replicate 22 0) = 76 := by decide

/-! ## `separate` -/

/-- **T16.separate** — for 32-byte keys `a < b` (byte-lexicographic = numeric order, `beVal_lt_iff_lex`)
`separate(a, b)` does not panic and returns the first `prefix_len(a,b) + 1` bits of `b`, zero padded:
strictly above `a`, not above `b`, and **no shorter prefix of `b` is above `a`** (minimal length). -/
theorem T16_separate_spec (a b : List Nat) (ha : Bytes a) (hb : Bytes b) (hal : a.length = 32) (hbl : b.length = 32)
    (hlt : keyNum a < keyNum b) :
    ∃ s, separate a b = some s ∧ s = prefixPad b (prefixLen a b + 1) ∧ s.length = 32 ∧
      keyNum a < keyNum s ∧ keyNum s ≤ keyNum b ∧
      (∀ m, keyNum a < keyNum (prefixPad b m) → prefixLen a b + 1 ≤ m) := by
  obtain ⟨h256, _, _⟩ := first_difference a b ha hb hal hbl hlt
  refine ⟨_, separate_eq a b hb hbl h256, rfl, length_prefixPad _ _, separator_gt a b ha hb hal hbl hlt,
    prefixPad_le b hb hbl _, ?_⟩
  intro m hm
  apply Nat.lt_of_not_le
  intro hle
  have := prefixPad_short_le a b ha hal m (by omega)
  omega

/-- the order used above is the order of the Rust on `[u8; 32]` -/
theorem T16_key_order_is_lex (a b : List Nat) (ha : Bytes a) (hb : Bytes b) (hl : a.length = b.length) :
    keyNum a < keyNum b ↔ a < b := beVal_lt_iff_lex a b ha hb hl

/-- outside the contract: equal keys make `separate` index `separator[32]` (panic) -/
theorem T16_separate_equal_panics (a b : List Nat) (h : prefixLen a b = 256) : separate a b = none :=
  separate_panics a b h

example : keyNum (List.replicate 32 0x5A) < keyNum (List.replicate 9 0x5A ++ [0x5E] ++ List.replicate 22 0) ∧
    separate (List.replicate 32 0x5A) (List.replicate 9 0x5A ++ [0x5E] ++ List.replicate 22 0) =
      some (List.replicate 9 0x5A ++ [0x5C] ++ List.replicate 22 0) := by decide

/-! ## `reconstruct_key` -/

/-- **T16.reconstruct** — `reconstruct_key(maybe_prefix, (separator_bytes, bit_start, bit_len))` under its contract
(`prefix_bit_len + bit_len ≤ 256`, the prefix slice holds the prefix bits, the separator triple satisfies the
contract of `bitwise_memcpy`): no panic, and the key is **prefix bits ++ separator bits ++ zeros**. -/
theorem T16_reconstruct_spec (prefix? : Option (List Nat × Nat)) (sepBytes : List Nat) (sepStart sepLen : Nat)
    (hp : Bytes (prefBytes prefix?)) (hs : Bytes sepBytes) (g : ReconstructGuard prefix? sepBytes sepStart sepLen) :
    ∃ key, reconstructKey prefix? sepBytes sepStart sepLen = some key ∧ key.length = 32 ∧ Bytes key ∧
      (∀ p, p < prefBits prefix? → bitOf key p = bitOf (prefBytes prefix?) p) ∧
      (∀ i, i < sepLen → bitOf key (prefBits prefix? + i) = bitOf sepBytes (sepStart + i)) ∧
      (∀ p, prefBits prefix? + sepLen ≤ p → bitOf key p = false) := by
  refine ⟨_, reconstructKey_spec prefix? sepBytes sepStart sepLen hp hs g, length_bytesOfBits _ _,
    bytes_bytesOfBits _ _, ?_, ?_, ?_⟩
  · intro p hp
    have := g.1
    unfold reconstructSpec
    rw [bitOf_bytesOfBits _ _ _ (by omega)]
    unfold reconstructBit
    rw [if_pos hp]
  · intro i hi
    have := g.1
    unfold reconstructSpec
    rw [bitOf_bytesOfBits _ _ _ (by omega)]
    unfold reconstructBit
    rw [if_neg (by omega), if_pos (by omega)]
    congr 2; omega
  · intro p hp
    by_cases h : p < 256
    · unfold reconstructSpec
      rw [bitOf_bytesOfBits _ _ _ (by omega)]
      unfold reconstructBit
      rw [if_neg (by omega), if_neg (by omega)]
    · exact bitOf_beyond _ p (by unfold reconstructSpec; rw [length_bytesOfBits]; omega)

-- non-vacuity: an 11-bit prefix, a 7-bit separator stored at bit offset 6 of its slice (left shift by 3)
example : ReconstructGuard (some ([0xAB, 0xC0], 11)) [0x03, 0xF8, 0, 0, 0, 0, 0, 0] 6 7 ∧
    reconstructKey (some ([0xAB, 0xC0], 11)) [0x03, 0xF8, 0, 0, 0, 0, 0, 0] 6 7 =
      some ([0xAB, 0xDF, 0xC0] ++ List.replicate 29 0) := by decide

/-- outside the contract: a prefix longer than 256 bits slices `key[33..]` (panic); a prefix slice shorter than its
bit length is indexed out of bounds (panic) -/
theorem T16_reconstruct_violations :
    reconstructKey (some (List.replicate 33 0, 264)) [] 0 0 = none ∧
    reconstructKey (some ([0xFF], 12)) [] 0 0 = none := by decide

/-! ## `get_key`: the round trip with how `BranchNodeBuilder` stores prefix and separators -/

/-- **T16.get_key** — on every branch page with a sane layout (`NodeOK`: 4096 bytes, `n ≥ 1`, `i < n`, `prefix_len ≤ 256`,
cells non-decreasing at `i` and not beyond the last cell, prefix + stored bits ≤ 256, cells + bit vector + node
pointers fit in the page — all of it checked by `decodeBranch` on real pages) the real read path
`get_key(node, i)` = `reconstruct_key(raw_prefix, raw_separator(i))` does not panic (the 8-byte aligned raw slices stay
inside the page, every `bitwise_memcpy` call is inside its contract) and returns the shared prefix bits (for a
compressed separator) ++ the stored separator bits ++ zeros. -/
theorem T16_get_key_spec (pg : List Nat) (n pc pl s e last i : Nat) (h : NodeOK pg n pc pl s e last i) :
    getKey pg i = some (bytesOfBits (storedKeyBit pg n pc pl s e i) 32) :=
  getKey_spec pg n pc pl s e last i h

/-- **T16.reconstruct_rt** — a page built by the mirror of `BranchNodeBuilder::new` + `push` × n (`encodeBranch`, under the
guard `branchOK` of `T16_rt_branch`) read back through the mirror of the REAL `get_key` path: every separator comes
back as **the key that was pushed** — compressed or not, also when the separator is shorter than the prefix. -/
theorem T16_reconstruct_rt (x : Store.BranchIn) (hok : Store.branchOK x = true) (j : Nat) (it : Store.BItem)
    (hj : x.items[j]? = some it) :
    getKey (Store.pageNats x) j = some (Store.keyBytes it.key) :=
  Store.getKey_encodeBranch x hok j it hj

/-- prefix `1010`, two compressed separators — `101` (shorter than the prefix: nothing stored) and `101011` — and an
uncompressed one `1111` (the sample of `T16_rt_branch`) -/
def sampleBranchBits : Store.BranchIn :=
  { bbnPn := 7, pc := 2, pl := 4,
    items := [⟨0xA0 * 2 ^ 248, 3, 11⟩, ⟨0xAC * 2 ^ 248, 6, 12⟩, ⟨0xF0 * 2 ^ 248, 4, 13⟩],
    fill := List.replicate 32534 true }

example : getKey (Store.pageNats sampleBranchBits) 1 =
    some (Store.keyBytes (Store.BItem.key ⟨0xAC * 2 ^ 248, 6, 12⟩)) :=
  T16_reconstruct_rt sampleBranchBits (by decide +kernel) 1 ⟨0xAC * 2 ^ 248, 6, 12⟩ rfl
example : Store.keyBytes (0xAC * 2 ^ 248) = 0xAC :: List.replicate 31 0 := by decide +kernel

/-! ## the `bitwise_memcpy` call sites of `BranchNodeBuilder::push_chunk`

The mirror of the builder (`Store/BitOpsBuilder.lean`: `new`, `push`, `push_chunk` with the fast path and
`copy_and_shift_separators`) is run line by line against the real builder (`vharness bitops-node`).  Theorems: every
source produced by `raw_separators` is inside the contract of `bitwise_memcpy`, and each of the three call-site shapes
copies exactly the intended bits (the properties F13 / F14 violated). -/

/-- `raw_separators(from, to)` always yields `(bytes, bit_start, bit_len)` with `bit_start ≤ 7` and exactly the 8-byte
chunks that hold the bits — the source side of the contract of `bitwise_memcpy`, for any page. -/
theorem T16_raw_separators_in_contract (pg : List Nat) (frm to : Nat) (bytes : List Nat) (bitStart bitLen : Nat)
    (h : rawSeparators pg frm to = some (bytes, bitStart, bitLen)) :
    bitStart ≤ 7 ∧ (bitLen = 0 ∨ bytes.length / 8 = (bitStart + bitLen + 63) / 64) :=
  rawSeparators_guard pg frm to bytes bitStart bitLen h

/-- fast path of `push_chunk` (base and new node have the same prefix length; the cells copied before make the new
range as long as the base range): one `bitwise_memcpy`, inside its contract; the new node's separator range receives
the base range bit for bit and **no other bit of the page changes**. -/
theorem T16_push_chunk_fast_path (pg base : List Nat) (index nItems frm to : Nat)
    (sStart sLen sBitStart sBitLen bStart bLen bBitStart bBitLen : Nat)
    (pgB : Bytes pg) (baseB : Bytes base)
    (hs : rawSeparatorsData pg index (index + nItems) = some (sStart, sLen, sBitStart, sBitLen))
    (hb : rawSeparatorsData base frm to = some (bStart, bLen, bBitStart, bBitLen))
    (hlen : sBitLen = bBitLen) (hr1 : sStart + sLen ≤ pg.length) (hr2 : bStart + bLen ≤ base.length) :
    ∃ pg', ((rawSeparatorsData pg index (index + nItems)).bind fun (sStart, sLen, sBitStart, _) =>
        (sliceOf pg sStart (sStart + sLen)).bind fun d =>
        (rawSeparators base frm to).bind fun (bBytes, bBitStart, bBitLen) =>
        (bitwiseMemcpy d sBitStart bBytes bBitStart bBitLen).map fun out => writeAt pg sStart out) = some pg' ∧
      pg'.length = pg.length ∧ Bytes pg' ∧
      (∀ t, t < bBitLen → bitOf pg' (8 * sStart + sBitStart + t) = bitOf base (8 * bStart + bBitStart + t)) ∧
      (∀ p, (p < 8 * sStart + sBitStart ∨ 8 * sStart + sBitStart + sBitLen ≤ p) → bitOf pg' p = bitOf pg p) :=
  fastPath_spec pg base index nItems frm to sStart sLen sBitStart sBitLen bStart bLen bBitStart bBitLen pgB baseB hs hb hlen hr1 hr2

/-- one iteration of `copy_and_shift_separators` when the new prefix is LONGER by `diff` (the F13 site, as repaired:
the source length is recomputed after skipping): no panic, the new separator receives the base separator without its
first `diff` bits, nothing else changes.  `hr1` / `hr2`: the two slices lie inside the pages. -/
theorem T16_copy_shift_grow (pg base : List Nat) (index baseIndex diff : Nat)
    (sStart sLen sBitStart sBitLen bStart bLen bBitStart bBitLen : Nat)
    (pgB : Bytes pg) (baseB : Bytes base)
    (hs : rawSeparatorsData pg index (index + 1) = some (sStart, sLen, sBitStart, sBitLen))
    (hb : rawSeparatorsData base baseIndex (baseIndex + 1) = some (bStart, bLen, bBitStart, bBitLen))
    (hlen : sBitLen = bBitLen - diff)
    (hr1 : sStart + sLen ≤ pg.length)
    (hr2 : bStart + (bBitStart + diff) / 8 +
      (if sBitLen = 0 then 0 else (((bBitStart + diff) % 8 + sBitLen + 7) / 8 + 7) / 8 * 8) ≤ base.length) :
    ∃ pg', copyShiftOne pg base index baseIndex none 0 diff = some pg' ∧ pg'.length = pg.length ∧ Bytes pg' ∧
      (∀ t, t < sBitLen → bitOf pg' (8 * sStart + sBitStart + t) = bitOf base (8 * bStart + bBitStart + diff + t)) ∧
      (∀ p, (p < 8 * sStart + sBitStart ∨ 8 * sStart + sBitStart + sBitLen ≤ p) → bitOf pg' p = bitOf pg p) :=
  copyShiftOne_grow pg base index baseIndex diff sStart sLen sBitStart sBitLen bStart bLen bBitStart bBitLen pgB baseB hs hb hlen hr1 hr2

/-- one iteration of `copy_and_shift_separators` when the new prefix is SHORTER by `diff` (the F14 site, as repaired:
the carried-prefix source is sized from its starting bit): no panic, the new separator receives the last `diff` bits of
the base prefix followed by the whole base separator, nothing else changes. -/
theorem T16_copy_shift_extend (pg base : List Nat) (index baseIndex diff : Nat)
    (sStart sLen sBitStart sBitLen bStart bLen bBitStart bBitLen pStart pBitStart : Nat)
    (pgB : Bytes pg) (baseB : Bytes base)
    (hs : rawSeparatorsData pg index (index + 1) = some (sStart, sLen, sBitStart, sBitLen))
    (hb : rawSeparatorsData base baseIndex (baseIndex + 1) = some (bStart, bLen, bBitStart, bBitLen))
    (hlen : sBitLen = bBitLen + diff) (hdiff : 0 < diff) (hp7 : pBitStart ≤ 7)
    (hr1 : sStart + sLen ≤ pg.length)
    (hr2 : pStart + ((pBitStart + diff + 7) / 8 + 7) / 8 * 8 ≤ base.length)
    (hr3 : sStart + (sBitStart + diff) / 8 + sLen ≤ pg.length)
    (hr4 : bStart + bLen ≤ base.length) :
    ∃ pg', copyShiftOne pg base index baseIndex
        (some (pStart, pStart + ((pBitStart + diff + 7) / 8 + 7) / 8 * 8, pBitStart)) 1 diff = some pg' ∧
      pg'.length = pg.length ∧ Bytes pg' ∧
      (∀ t, t < diff → bitOf pg' (8 * sStart + sBitStart + t) = bitOf base (8 * pStart + pBitStart + t)) ∧
      (∀ t, t < bBitLen → bitOf pg' (8 * sStart + sBitStart + diff + t) = bitOf base (8 * bStart + bBitStart + t)) ∧
      (∀ p, (p < 8 * sStart + sBitStart ∨ 8 * sStart + sBitStart + sBitLen ≤ p) → bitOf pg' p = bitOf pg p) :=
  copyShiftOne_extend pg base index baseIndex diff sStart sLen sBitStart sBitLen bStart bLen bBitStart bBitLen pStart pBitStart
    pgB baseB hs hb hlen hdiff hp7 hr1 hr2 hr3 hr4

-- non-vacuity on small pages (the theorems do not fix the page size): a base node with prefix length 4 and two stored
-- separators of 3 and 6 bits, and new nodes with prefix length 6 (grow by 2), 2 (shrink by 2) and 4 (fast path)
def exBase : List Nat := [0, 0, 0, 0, 2, 0, 2, 0, 4, 0, 3, 0, 9, 0] ++ List.replicate 50 0xA5
def exGrow : List Nat := [0, 0, 0, 0, 2, 0, 2, 0, 6, 0, 1, 0, 5, 0] ++ List.replicate 50 0x3C
def exShrink : List Nat := [0, 0, 0, 0, 2, 0, 2, 0, 2, 0, 5, 0, 13, 0] ++ List.replicate 50 0x3C
def exSame : List Nat := [0, 0, 0, 0, 2, 0, 2, 0, 4, 0, 3, 0, 9, 0] ++ List.replicate 50 0x3C

example : ∃ pg', copyShiftOne exGrow exBase 1 1 none 0 2 = some pg' ∧
    bitOf pg' (8 * 14 + 7) = bitOf exBase (8 * 14 + 7 + 2) := by
  obtain ⟨pg', h1, _, _, h4, _⟩ := T16_copy_shift_grow exGrow exBase 1 1 2 14 8 7 4 14 8 7 6
    (by decide) (by decide) (by decide) (by decide) (by decide) (by decide) (by decide)
  exact ⟨pg', h1, h4 0 (by decide)⟩

example : ∃ pg', copyShiftOne exShrink exBase 1 1 (some (14, 14 + 8, 2)) 1 2 = some pg' ∧
    bitOf pg' (8 * 14 + 7) = bitOf exBase (8 * 14 + 2) ∧ bitOf pg' (8 * 14 + 7 + 2) = bitOf exBase (8 * 14 + 7) := by
  obtain ⟨pg', h1, _, _, h4, h5, _⟩ := T16_copy_shift_extend exShrink exBase 1 1 2 14 8 7 8 14 8 7 6 14 2
    (by decide) (by decide) (by decide) (by decide) (by decide) (by decide) (by decide) (by decide) (by decide)
    (by decide) (by decide)
  exact ⟨pg', h1, h4 0 (by decide), h5 0 (by decide)⟩

example : ∃ pg', pg'.length = exSame.length ∧ bitOf pg' (8 * 14 + 4 + 8) = bitOf exBase (8 * 14 + 4 + 8) ∧
    bitOf pg' (8 * 14 + 4 + 9) = bitOf exSame (8 * 14 + 4 + 9) := by
  obtain ⟨pg', _, h2, _, h4, h5⟩ := T16_push_chunk_fast_path exSame exBase 0 2 0 2 14 8 4 9 14 8 4 9
    (by decide) (by decide) (by decide) (by decide) (by decide) (by decide) (by decide)
  exact ⟨pg', h2, h4 8 (by decide), h5 _ (by right; decide)⟩

example : rawSeparators exBase 1 2 = some (List.replicate 8 0xA5, 7, 6) := by decide

/-- **observation** — `BranchNode::set_prefix` calls `bitwise_memcpy(dst, 0, key, 0, prefix_len)` with the whole 32-byte key as
source, i.e. OUTSIDE the contract whenever `prefix_len ≤ 192` (4 chunks where 1–3 are needed).  What happens then
(instance: `prefix_len = 10`, destination slice of 8 bytes): no panic, the 10 prefix bits arrive, and the remaining 54
bits of the slice are overwritten with key bits as well.  Harmless only because `set_prefix` is the first write into a
fresh node and the separators are written afterwards. -/
theorem T16_set_prefix_outside_contract :
    ¬ MemcpyGuard 8 0 32 0 10 ∧
    bitwiseMemcpy (List.replicate 8 0) 0 (List.replicate 32 0xFF) 0 10 = some (List.replicate 8 0xFF) ∧
    memcpySpec (List.replicate 8 0) 0 (List.replicate 32 0xFF) 0 10 = [0xFF, 0xC0, 0, 0, 0, 0, 0, 0] := by decide

/-- the unrepaired F14 sizing (`⌈diff/8⌉` rounded up to 8, ignoring the start bit) leaves the contract as soon as
`start bit + diff` crosses a 64-bit boundary: 62 carried bits starting at bit 3 need 2 chunks, the old formula gave 1 -/
example : ¬ MemcpyGuard 16 5 (((62 + 7) / 8 + 7) / 8 * 8) 3 62 ∧ MemcpyGuard 16 5 (((3 + 62 + 7) / 8 + 7) / 8 * 8) 3 62 := by decide

end Nomt.C16
