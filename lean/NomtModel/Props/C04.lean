import NomtModel.Store.Crash3
/-!
# C04 — Durability never depends on unsynced data (power-loss safety)

Disk model (`Store/Disk.lean`): a state is `(dur, vol)` — the durable content and the list of issued,
not yet fsynced effects; `fsync f` moves `f`'s effects into `dur`; the possible on-disk images when the
machine stops are `dur ⊕ sub` for **every sub-list** `sub` of `vol` (any subset of un-synced writes lost).
Recovery (`absOf`) reads the tree through the meta record (frame property: only pages reachable from the
meta matter) and the hash table after WAL redo iff the WAL's sequence number equals the meta's.

`EvPre` / `PostOK` are the order-and-placement clauses the real I/O trace is checked against: before the
meta write only non-reachable tree pages and a WAL with a foreign sequence number are written and every
file is fsynced (`hflushed`); after the meta fsync only hash-table pages covered by the WAL, and the WAL is
truncated only once the table is complete.
-/
namespace Nomt.C04
open NomtDisk
variable {Content MetaRec WalRec LogRec TreeAbs : Type} (P : Params Content MetaRec WalRec TreeAbs)

/-- T4.1 **power-loss atomicity of a sync**: for an accepted trace `pre ++ [meta write, meta fsync] ++ post`,
every image (durable part plus ANY sub-list of the un-synced effects) of EVERY prefix of the trace recovers
to the old state or to the new state, and after the whole trace — i.e. once the call has returned — to the
new state. -/
theorem T4_1_powerloss_atomic
    (d0 : Disk Content MetaRec WalRec LogRec)
    (hinert : ∀ b, htView P d0 b = d0.pages File.fHt b)
    (pre post : List (Ev Content MetaRec WalRec LogRec)) (m1 : MetaRec) (w1 : WalRec)
    (hpre : ∀ ev ∈ pre, EvPre P d0 ev)
    (hflushed : (run ⟨d0, []⟩ pre).vol = [])
    (hwal : (run ⟨d0, []⟩ pre).dur.wal = some w1)
    (hseq : P.walSeqn w1 = P.seqn m1)
    (hpost : PostOK P w1 ⟨applyEff (run ⟨d0, []⟩ pre).dur (.setMeta m1), []⟩ post) :
    (∀ p, p <+: pre ++ ([Ev.eff (.setMeta m1), Ev.fsync File.fMeta] ++ post) →
       ∀ img, IsImage (run ⟨d0, []⟩ p) img →
         absOf P img = absOf P d0 ∨ absOf P img = absNew P (run ⟨d0, []⟩ pre).dur m1 w1) ∧
    (∀ img, IsImage (run ⟨d0, []⟩ (pre ++ ([Ev.eff (.setMeta m1), Ev.fsync File.fMeta] ++ post))) img →
       absOf P img = absNew P (run ⟨d0, []⟩ pre).dur m1 w1) :=
  sync_crash_atomic P d0 hinert pre post m1 w1 hpre hflushed hwal hseq hpost

end Nomt.C04
