import NomtModel.Store.Crash3
import NomtModel.Store.RecoverReal
/-!
# C04 — Durability never depends on unsynced data (power-loss safety)

Disk model (`Store/Disk.lean`): a state is `(dur, vol)` — the durable content and the list of issued,
not yet fsynced effects; `fsync f` moves `f`'s effects into `dur`; the possible on-disk images when the
machine stops are `dur ⊕ sub` for **every sub-list** `sub` of `vol` (any subset of un-synced writes lost).
Recovery (`absOf`) reads the tree through the meta record (frame property: only pages reachable from the
meta matter) and the hash table after WAL redo iff the WAL's sequence number equals the meta's.

`EvPre` / `PostOK` are the order-and-placement clauses the real I/O trace is checked against: before the
meta write only non-reachable tree pages and a WAL with a foreign sequence number are written and every
file is fsynced (`hflushed`); after the meta fsync only hash-table pages covered by the WAL, and the WAL is
truncated only once the table is complete.
-/
namespace Nomt.C04
open NomtDisk
variable {Content MetaRec WalRec LogRec TreeAbs : Type} (P : Params Content MetaRec WalRec TreeAbs)

/-- T4.1 **power-loss atomicity of a sync**: for an accepted trace `pre ++ [meta write, meta fsync] ++ post`,
every image (durable part plus ANY sub-list of the un-synced effects) of EVERY prefix of the trace recovers
to the old state or to the new state, and after the whole trace — i.e. once the call has returned — to the
new state. -/
theorem T4_1_powerloss_atomic
    (d0 : Disk Content MetaRec WalRec LogRec)
    (hinert : ∀ b, htView P d0 b = d0.pages File.fHt b)
    (pre post : List (Ev Content MetaRec WalRec LogRec)) (m1 : MetaRec) (w1 : WalRec)
    (hpre : ∀ ev ∈ pre, EvPre P d0 ev)
    (hflushed : (run ⟨d0, []⟩ pre).vol = [])
    (hwal : (run ⟨d0, []⟩ pre).dur.wal = some w1)
    (hseq : P.walSeqn w1 = P.seqn m1)
    (hpost : PostOK P w1 ⟨applyEff (run ⟨d0, []⟩ pre).dur (.setMeta m1), []⟩ post) :
    (∀ p, p <+: pre ++ ([Ev.eff (.setMeta m1), Ev.fsync File.fMeta] ++ post) →
       ∀ img, IsImage (run ⟨d0, []⟩ p) img →
         absOf P img = absOf P d0 ∨ absOf P img = absNew P (run ⟨d0, []⟩ pre).dur m1 w1) ∧
    (∀ img, IsImage (run ⟨d0, []⟩ (pre ++ ([Ev.eff (.setMeta m1), Ev.fsync File.fMeta] ++ post))) img →
       absOf P img = absNew P (run ⟨d0, []⟩ pre).dur m1 w1) :=
  sync_crash_atomic P d0 hinert pre post m1 w1 hpre hflushed hwal hseq hpost

/-! ## With the rollback log (`Store/CrashLog.lean`)

`absOfL` adds the third thing recovery reads: the live rollback records `absLog m l` — the records of `l` inside the
live range `[startLive m, endLive m]` written in the meta (mirror of `seglog::open`), of which `Rollback::read` keeps the
last `max_rollback_log_len`.  `EvPreL` additionally accepts, before the meta write, any `logSet l'` that recovery under
the OLD meta cannot tell from the old log (`absLog_append_beyond`: appends beyond the old live range — `Rollback::commit`
→ `seglog.append`); `PostOKL` additionally accepts, after the meta fsync, any `logSet l'` that recovery under the NEW
meta cannot tell from the log as it was at the meta write (`absLog_filter_keep`, `absLog_drop_lagging`: `prune_oldest` /
`prune_recent` outside the new live range).  `hflushed` demands the appends durable before the meta write. -/

/-- T4.2 **power-loss atomicity of a sync, including the rollback log**: every image (durable part plus ANY sub-list of
the un-synced effects) of EVERY prefix of an accepted trace recovers — tree, hash-table view and live rollback
records together — to exactly the old or exactly the new state, and to the new state after the whole trace. -/
theorem T4_2_powerloss_atomic_with_rollback_log (L : LogParams MetaRec LogRec)
    (d0 : Disk Content MetaRec WalRec LogRec)
    (hinert : ∀ b, htView P d0 b = d0.pages File.fHt b)
    (pre post : List (Ev Content MetaRec WalRec LogRec)) (m1 : MetaRec) (w1 : WalRec)
    (hpre : ∀ ev ∈ pre, EvPreL P L d0 ev)
    (hflushed : (run ⟨d0, []⟩ pre).vol = [])
    (hwal : (run ⟨d0, []⟩ pre).dur.wal = some w1)
    (hseq : P.walSeqn w1 = P.seqn m1)
    (hpost : PostOKL P L (run ⟨d0, []⟩ pre).dur m1 w1 ⟨applyEff (run ⟨d0, []⟩ pre).dur (.setMeta m1), []⟩ post) :
    (∀ p, p <+: pre ++ ([Ev.eff (.setMeta m1), Ev.fsync File.fMeta] ++ post) →
       ∀ img, IsImage (run ⟨d0, []⟩ p) img →
         absOfL P L img = absOfL P L d0 ∨
         absOfL P L img = (absNew P (run ⟨d0, []⟩ pre).dur m1 w1, absLog L m1 (run ⟨d0, []⟩ pre).dur.log)) ∧
    (∀ img, IsImage (run ⟨d0, []⟩ (pre ++ ([Ev.eff (.setMeta m1), Ev.fsync File.fMeta] ++ post))) img →
       absOfL P L img = (absNew P (run ⟨d0, []⟩ pre).dur m1 w1, absLog L m1 (run ⟨d0, []⟩ pre).dur.log)) :=
  sync_crash_atomic_log P L d0 hinert pre post m1 w1 hpre hflushed hwal hseq hpost

/-- T4.2a the concrete shapes of the accepted log effects: an append beyond the live range is invisible to recovery
under that meta; so is dropping records outside the live range. -/
theorem T4_2a_append_and_prune_invisible (L : LogParams MetaRec LogRec) (m : MetaRec) (l ext : List LogRec)
    (keep : LogRec → Bool) (hext : ∀ r ∈ ext, L.endLive m < L.recId r)
    (hkeep : ∀ r, L.live m r = true → keep r = true) :
    absLog L m (l ++ ext) = absLog L m l ∧ absLog L m (l.filter keep) = absLog L m l :=
  ⟨absLog_append_beyond L m l ext hext, absLog_filter_keep L m l keep hkeep⟩

/-- non-vacuity of T4.2: the tiny instance `NomtDisk.Toy` (commit appending record 3, new root page, WAL; after the
meta the lagging record 1 is pruned, the table written, the WAL collapsed) satisfies every hypothesis, and its old and
new states differ. -/
example :
    (∀ p, p <+: Toy.pre ++ ([Ev.eff (.setMeta Toy.m1), Ev.fsync File.fMeta] ++ Toy.post) →
       ∀ img, IsImage (run ⟨Toy.d0, []⟩ p) img →
         absOfL Toy.P Toy.L img = absOfL Toy.P Toy.L Toy.d0 ∨
         absOfL Toy.P Toy.L img = (absNew Toy.P (run ⟨Toy.d0, []⟩ Toy.pre).dur Toy.m1 Toy.w1,
           absLog Toy.L Toy.m1 (run ⟨Toy.d0, []⟩ Toy.pre).dur.log)) ∧
    absOfL Toy.P Toy.L Toy.d0 ≠ (absNew Toy.P (run ⟨Toy.d0, []⟩ Toy.pre).dur Toy.m1 Toy.w1,
           absLog Toy.L Toy.m1 (run ⟨Toy.d0, []⟩ Toy.pre).dur.log) :=
  ⟨(T4_2_powerloss_atomic_with_rollback_log Toy.P Toy.L Toy.d0 Toy.hinert Toy.pre Toy.post Toy.m1 Toy.w1
      Toy.hpre Toy.hflushed Toy.hwal Toy.hseq Toy.hpost).1, Toy.old_ne_new⟩

/-- T4.2b the new live records after a commit are the old ones plus the appended record (the meta keeps the start,
moves the end to the new record; nothing lay beyond the old end). -/
theorem T4_2b_new_live_records (L : LogParams MetaRec LogRec) (m0 m1 : MetaRec) (l : List LogRec) (r : LogRec)
    (hs : L.startLive m1 = L.startLive m0) (he : L.endLive m1 = L.recId r)
    (hr : L.endLive m0 < L.recId r) (hsr : L.startLive m0 ≤ L.recId r)
    (hl : ∀ x ∈ l, L.recId x ≤ L.endLive m0) :
    liveRecs L m1 (l ++ [r]) = liveRecs L m0 l ++ [r] :=
  liveRecs_commit L m0 m1 l r hs he hr hsr hl

/-- T4.2c **the same, started while the previous sync's WAL truncation is still un-synced** (`bitbox` does not fsync
`truncate_wal` at the end of a sync): the start state is `⟨d0, vol0⟩` with `vol0` holding only WAL truncations, and
WAL truncations are also accepted anywhere before the meta write (`AllowedPreL'`). -/
theorem T4_2c_powerloss_atomic_pending_wal_truncation (L : LogParams MetaRec LogRec)
    (d0 : Disk Content MetaRec WalRec LogRec)
    (hinert : ∀ b, htView P d0 b = d0.pages File.fHt b)
    (vol0 : List (Eff Content MetaRec WalRec LogRec)) (hvol0 : ∀ e ∈ vol0, e = Eff.walSet none)
    (pre post : List (Ev Content MetaRec WalRec LogRec)) (m1 : MetaRec) (w1 : WalRec)
    (hpre : ∀ ev ∈ pre, EvA (AllowedPreL' P L d0) ev)
    (hflushed : (run ⟨d0, vol0⟩ pre).vol = [])
    (hwal : (run ⟨d0, vol0⟩ pre).dur.wal = some w1)
    (hseq : P.walSeqn w1 = P.seqn m1)
    (hpost : PostOKL P L (run ⟨d0, vol0⟩ pre).dur m1 w1
      ⟨applyEff (run ⟨d0, vol0⟩ pre).dur (.setMeta m1), []⟩ post) :
    (∀ p, p <+: pre ++ ([Ev.eff (.setMeta m1), Ev.fsync File.fMeta] ++ post) →
       ∀ img, IsImage (run ⟨d0, vol0⟩ p) img →
         absOfL P L img = absOfL P L d0 ∨
         absOfL P L img = (absNew P (run ⟨d0, vol0⟩ pre).dur m1 w1, absLog L m1 (run ⟨d0, vol0⟩ pre).dur.log)) ∧
    (∀ img, IsImage (run ⟨d0, vol0⟩ (pre ++ ([Ev.eff (.setMeta m1), Ev.fsync File.fMeta] ++ post))) img →
       absOfL P L img = (absNew P (run ⟨d0, vol0⟩ pre).dur m1 w1, absLog L m1 (run ⟨d0, vol0⟩ pre).dur.log)) :=
  sync_crash_atomic_log_pending P L d0 hinert vol0 hvol0 pre post m1 w1 hpre hflushed hwal hseq hpost

/-- non-vacuity of T4.2c: `Toy.d0p` still holds the previous (applied) WAL, its truncation is pending. -/
example :
    ∀ img, IsImage (run ⟨Toy.d0p, Toy.vol0⟩
        (Toy.pre ++ ([Ev.eff (.setMeta Toy.m1), Ev.fsync File.fMeta] ++ Toy.post))) img →
      absOfL Toy.P Toy.L img = (absNew Toy.P (run ⟨Toy.d0p, Toy.vol0⟩ Toy.pre).dur Toy.m1 Toy.w1,
        absLog Toy.L Toy.m1 (run ⟨Toy.d0p, Toy.vol0⟩ Toy.pre).dur.log) :=
  (T4_2c_powerloss_atomic_pending_wal_truncation Toy.P Toy.L Toy.d0p Toy.hinertp Toy.vol0 Toy.hvol0 Toy.pre Toy.post
    Toy.m1 Toy.w1 Toy.hprep Toy.hflushedp Toy.hwalp Toy.hseq Toy.hpostp).2

end Nomt.C04
