import NomtModel.Store.WalkerReconExample
/-!
# C13 — the reconstructor is a sub-trie walker: its child-page root

`reconstruct` runs a `PageWalker` with a parent page (like a commit worker's walker, `T13_walker_child_roots_partial`) below the
elided child; the only child-page root it delivers is compared with the node the parent page holds
(`assert_eq!(root, subtree_root)`).
-/
namespace Nomt.C13
open Nomt Nomt.Walker Nomt.TriePos

variable {Node VH : Type} [DecidableEq Node] [DecidableEq VH] (H : Hasher Node VH)

/-- **T13_reconstructor_child_root**: under `ReconPre` the reconstructor never panics and the node it delivers for the parent
page is `nodeAt` of the leaves at the position — whatever node it was started with — so the assertion of `reconstruct_pages`
holds exactly when the parent page holds the reference node. -/
theorem T13_reconstructor_child_root {ps : PageSet Node} {pos : Pos} {O : List (Key × VH)} (h : ReconPre H ps pos O)
    (sr : Node) :
    ∃ ps' pages, (Walker.newReconstructor sr (specPage pos.path)).reconstruct H ps pos O =
      .ok (ps', some (specNode H O pos.path, pages)) := by
  obtain ⟨w3, h1, _, _⟩ := reconstruct_sim H h sr
  exact ⟨_, _, h1⟩

example : ∃ ps' pages, (Walker.newReconstructor T.term (specPage RecEx.rpos.path)).reconstruct TH RecEx.rps RecEx.rpos
    RecEx.rO = .ok (ps', some (specNode TH RecEx.rO RecEx.rpos.path, pages)) :=
  T13_reconstructor_child_root TH RecEx.rpre T.term

end Nomt.C13
