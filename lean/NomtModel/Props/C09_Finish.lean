import NomtModel.Api.FinishExample
import NomtModel.Props.C09_Delta
/-!
# C09 (topic: `Session::finish`) — the rollback delta of a finished session

`finish` finalizes the session's `ReverseDeltaBuilder` on the actuals (only if the store records rollback deltas):
`T9_delta_is_prior_view` (`Props/C09_Delta.lean`) composed with the mirror of `finish`.
-/
namespace Nomt.C09
open Nomt Nomt.Api Nomt.Split Nomt.Dlt Nomt.Finish
variable {Node VH V : Type} [DecidableEq Node] [DecidableEq VH]

/-- **T9_finish_delta — the delta of a finished session is the prior view of exactly the written keys.**  For every
heap of overlays the code can build, every validated live overlay, every committed map, ANY `preserve_prior_value`
hints (none, written keys, unwritten keys, duplicates), every strictly ascending actuals list whose `ReadThenWrite`
priors are what the session read (the caller contract `RtwTruthful`; blind `Write`s need nothing), every canonical
trie view, 1…64 workers: `finish` succeeds and `rollback_delta` is `Some {k ↦ view(k) | k written}` (one entry per
written key, in key order; nothing for keys only read) when rollback is enabled, `None` otherwise — the same whether
the prior came from a hint, from a `ReadThenWrite`, or from the final lookup. -/
theorem T9_finish_delta (H : Hasher Node VH) (hs : H.Sound) (hv : V → VH) (L : Nat) (view : KVL VH)
    (hvlen : ∀ kv ∈ view, kv.1.length = L) (hsorted : view.Pairwise KeyLt)
    (P : Params) (h1 : 1 ≤ P.n) (h64 : P.n ≤ 64) (hL : 6 ≤ L) (hnsup : P.superseded = false)
    (hord : P.order.Perm (List.range P.n))
    {h : Ovl.Heap V} (hb : C11.Built h) (l : Ovl.Live) (ok : Ovl.LiveOK h l) (store : KVL V)
    (hints : List Key) (a : Actuals V) (hal : ∀ x ∈ a, x.1.length = L) (has : ASorted a)
    (ht : RtwTruthful (sessionView h l store) a) :
    ∃ out, Finish.finish false H hv L P (startLoad h l store) hints view a = .ok out ∧
      out.delta = if P.rollback then some (priorSpec (sessionView h l store) a) else none := by
  have hfin : finalizeStep P (startLoad h l store) hints a
      = .ok (if P.rollback then some (priorSpec (sessionView h l store) a) else none) := by
    unfold finalizeStep
    cases P.rollback
    · simp
    · simp [T9_delta_is_prior_view hb l ok store hints a has ht]
  obtain ⟨bss0, w, _, _, hok⟩ := finish_ok H hs hv L view hvlen hsorted P h1 h64 hL a hal has
    (startLoad h l store) hints hnsup _ hfin hord
  exact ⟨_, hok, rfl⟩

/-- the same at the level of a loader that answers the view (what the `finishops` driver runs) -/
theorem T9_finish_delta_view (H : Hasher Node VH) (hs : H.Sound) (hv : V → VH) (L : Nat) (view : KVL VH)
    (hvlen : ∀ kv ∈ view, kv.1.length = L) (hsorted : view.Pairwise KeyLt)
    (P : Params) (h1 : 1 ≤ P.n) (h64 : P.n ≤ 64) (hL : 6 ≤ L) (hnsup : P.superseded = false)
    (hord : P.order.Perm (List.range P.n))
    (load : Key → Outcome Unit (Option V)) (viewV : Key → Option V) (hl : ∀ k, load k = .ok (viewV k))
    (hints : List Key) (a : Actuals V) (hal : ∀ x ∈ a, x.1.length = L) (has : ASorted a) (ht : RtwTruthful viewV a) :
    ∃ out, Finish.finish false H hv L P load hints view a = .ok out ∧
      out.delta = if P.rollback then some (priorSpec viewV a) else none := by
  obtain ⟨bss0, w, _, _, hok⟩ := finish_ok H hs hv L view hvlen hsorted P h1 h64 hL a hal has
    load hints hnsup _ (finalizeStep_spec hl P hints a ht has) hord
  exact ⟨_, hok, rfl⟩

/-! ### instances -/
open Nomt.Finish.Ex

/-- non-vacuity: the mixed batch with hints for a written and an unwritten key: priors of the four written keys -/
example : RtwTruthful (kvGet Finish.Ex.view) mixed ∧
    deltaOf (Finish.finish false TH id 8 (P 2 true true) Finish.Ex.load [k00000011, k10000000, k00000011] Finish.Ex.view mixed) =
      some (some [(k00000000, some 1), (k00000001, none), (k00000011, none), (k11000000, some 3)]) ∧
    deltaOf (Finish.Ex.run false 2 true false Finish.Ex.view mixed) = some none := by
  refine ⟨?_, by decide, by decide⟩
  intro k p n hm
  simp only [mixed, List.mem_cons, Prod.mk.injEq, List.mem_nil_iff, or_false, reduceCtorEq, and_false, false_or] at hm
  rcases hm with ⟨rfl, h⟩ | ⟨rfl, h⟩ | ⟨rfl, h⟩ <;> (injection h with h1 h2)

example : ∃ out, Finish.finish false TH id 8 (P 2 true true) Finish.Ex.load [k00000011] Finish.Ex.view noops = .ok out ∧
    out.delta = if (P 2 true true).rollback then some (priorSpec (kvGet Finish.Ex.view) noops) else none :=
  T9_finish_delta_view TH TH_sound id 8 Finish.Ex.view (by decide) (by decide) (P 2 true true) (by decide) (by decide) (by decide) rfl
    (List.Perm.refl _) Finish.Ex.load (kvGet Finish.Ex.view) (fun _ => rfl) _ noops (by decide) (by decide)
    (by
      intro k p n hm
      simp only [noops, List.mem_cons, Prod.mk.injEq, List.mem_nil_iff, or_false, reduceCtorEq, and_false, false_or, or_false] at hm
      obtain ⟨rfl, h⟩ := hm
      injection h with h1 h2)

/-- **the excluded point, kernel-checked**: a `ReadThenWrite` whose prior is NOT what the session read
(`00000000` holds 1, the caller claims 9) — the builder keeps the claim, with or without a hint for the key: rolling
this commit back would write 9 (the `finishops` differential runs the real code here). -/
theorem T9_finish_delta_untruthful_rtw_keeps_the_claim :
    deltaOf (Finish.finish false TH id 8 (P 1 false true) Finish.Ex.load [k00000000] Finish.Ex.view
      [(k00000000, .rtw (some 9) (some 4)), (k00000010, .write none)]) =
      some (some [(k00000000, some 9), (k00000010, some 2)]) := by decide

end Nomt.C09
