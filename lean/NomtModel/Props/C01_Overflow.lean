import NomtModel.Store.OvfMain
import NomtModel.Store.OvfLive
import NomtModel.Store.LeafRt
/-!
# C01 (topic: values that do not fit a leaf — `beatree/ops/overflow.rs`, `ValueChange::insert`)

"A committed value is what a later read returns" for the values the B-tree does not store in the leaf itself.  The
model (`Store/OvfModel.lean`) mirrors `chunk`, `encode_cell` / `decode_cell`, `total_needed_pages`, `parse_page`,
`read_blocking`, the `AsyncReader` and `delete` over an abstract page store, `none` = a Rust panic.  All theorems are
for **every** value length (no bound below 2²⁹, the limit `decode_cell` asserts), every allocator and every content
of the pool pages the code writes into.  Tie to the code: the `overflow` differential (hook H9: the real functions on
a scratch file, page bytes / cells / values / freed lists compared line by line with the model).
-/
namespace Nomt.C01
open Nomt Nomt.Ovf
open Nomt.Wal (Bytes)

/-- what a caller of the `AsyncReader` may observe on the pages of a value `value` -/
def EvGood (value : Bytes) : Ev → Prop
  | .value _ v => v = value
  | .ioError _ => False
  | _ => True

/-- T1.ovf-0 **the page count**: for every non-empty value `total_needed_pages(len)` lies in the window in which
`chunk`'s loop works (`(t−1)·4092 < len + 4·(t − min t 15) ≤ t·4092`: every page gets a byte of the stream
"page numbers ‖ value", the last one gets its end); none of its three `usize` subtractions underflows; it is within
one page of the least such count and not always the least (first at 4 243 403 bytes). -/
theorem T1_overflow_page_count (len : Nat) (h : 0 < len) :
    Window len (totalNeededPages len) ∧ 0 < totalNeededPages len ∧
    (∀ t, Window len t → totalNeededPages len ≤ t + 1) ∧
    (len ≤ neededPages len * BODY_SIZE ∧
      (MAX_CELL_PNS < neededPages len → ¬ neededPages len ≤ MAX_CELL_PNS + (neededPages len * BODY_SIZE - len) / 4 →
        neededPages len * BODY_SIZE ≤ len + (neededPages len - MAX_CELL_PNS) * 4)) :=
  ⟨tnp_window len h, totalNeededPages_pos len h, fun t ht => tnp_near_least len t h ht,
    (tnp_sub_exact len).1, (tnp_sub_exact len).2.2⟩

/-- T1.ovf-1 **`chunk` never panics** on a non-empty value (the two `assert!`s inside and after its loop hold for every
length, allocator and pool), and panics on the empty one (its first `assert!`; `ValueChange::insert` never sends one). -/
theorem T1_overflow_chunk_total (value : Bytes) (alloc : Nat → Nat) (junk : Nat → Bytes) :
    (value ≠ [] → ∃ out, chunk value alloc junk = some out ∧ out.total = totalNeededPages value.length ∧
        out.cell.length = min (totalNeededPages value.length) 15 ∧ out.writes.length = totalNeededPages value.length) ∧
    (value = [] → chunk value alloc junk = none) := by
  constructor
  · intro hne
    obtain ⟨out, h, ht, hc, hw, _, _⟩ := chunk_ok value hne alloc junk
    refine ⟨out, h, ht, ?_, ?_⟩
    · rw [hc, List.length_take, allocated_length, Nat.min_comm]; rfl
    · have := congrArg List.length hw
      simpa [allocated_length] using this
  · rintro rfl; rfl

/-- T1.ovf-2 **round trip**: for every value of 1 … 2²⁹ bytes — in particular every length above the inline limit
1332, the multiples of 4092 and their neighbours, and the lengths at which the 15 page numbers of the cell are
exceeded and page numbers spill into the pages — `chunk` + `encode_cell` succeed and `read_blocking` of the cell, on any
store that holds the written pages, returns exactly the value. -/
theorem T1_overflow_roundtrip (value : Bytes) (hne : value ≠ []) (hmax : value.length ≤ MAX_VALUE_SIZE)
    (hash : Bytes) (hh : hash.length = 32) (alloc : Nat → Nat) (junk : Nat → Bytes)
    (h32 : ∀ i, i < totalNeededPages value.length → alloc i < 2 ^ 32)
    (hj : ∀ i, (junk i).length = PAGE_SIZE) :
    ∃ out cell, chunk value alloc junk = some out ∧ encodeCell value.length hash out.cell = some cell ∧
      ∀ σ : Store, (∀ w ∈ out.writes, σ w.1 = some w.2) → readBlocking cell σ = some value := by
  obtain ⟨out, cell, hchunk, henc, hdec, _, _, _, _, hchain⟩ :=
    chunk_cell_chain value hne hmax hash hh alloc junk h32 hj
  refine ⟨out, cell, hchunk, henc, fun σ hσ => ?_⟩
  obtain ⟨parts, hc, hfb, _, hlen⟩ := hchain σ hσ
  rw [← hfb]
  exact readBlocking_chain hc cell hash value.length hdec hlen (by rw [hfb])

/-- T1.ovf-2b the same on the store the writes produce when the allocated pages are pairwise distinct ("fresh page
numbers"), and the pages that were not allocated keep their content. -/
theorem T1_overflow_roundtrip_fresh (value : Bytes) (hne : value ≠ []) (hmax : value.length ≤ MAX_VALUE_SIZE)
    (hash : Bytes) (hh : hash.length = 32) (alloc : Nat → Nat) (junk : Nat → Bytes)
    (h32 : ∀ i, i < totalNeededPages value.length → alloc i < 2 ^ 32)
    (hfresh : ∀ i j, i < totalNeededPages value.length → j < totalNeededPages value.length →
      alloc i = alloc j → i = j)
    (hj : ∀ i, (junk i).length = PAGE_SIZE) (σ₀ : Store) :
    ∃ out cell, chunk value alloc junk = some out ∧ encodeCell value.length hash out.cell = some cell ∧
      readBlocking cell (applyWrites σ₀ out.writes) = some value ∧
      ∀ q, q ∉ allocated alloc value.length → applyWrites σ₀ out.writes q = σ₀ q := by
  obtain ⟨out, cell, hchunk, henc, hdec, _, _, hwr, _, hchain⟩ :=
    chunk_cell_chain value hne hmax hash hh alloc junk h32 hj
  have hnd : (out.writes.map (·.1)).Nodup := by rw [hwr]; exact allocated_nodup alloc _ hfresh
  refine ⟨out, cell, hchunk, henc, ?_, fun q hq => applyWrites_frame _ _ q (by rw [hwr]; exact hq)⟩
  obtain ⟨parts, hc, hfb, _, hlen⟩ := hchain _ (applyWrites_mem out.writes σ₀ hnd)
  rw [← hfb]
  exact readBlocking_chain hc cell hash value.length hdec hlen (by rw [hfb])

/-- T1.ovf-3 **the readers never index past the page numbers learned so far**: on the pages `chunk` wrote
(a) `read_blocking` does not panic (T1.ovf-2) and (b) the repaired `AsyncReader` does not panic under ANY schedule of
its caller — `submit` at any time, completions of the outstanding requests delivered in any order —, every page it
requests exists, and a value it returns is the value.  (The invariant: after `k` pages at least `min(total, k+1)`
page numbers are known, because a page brings either 1023 more or all the remaining ones.) -/
theorem T1_overflow_reader_total (value : Bytes) (hne : value ≠ []) (hmax : value.length ≤ MAX_VALUE_SIZE)
    (hash : Bytes) (hh : hash.length = 32) (alloc : Nat → Nat) (junk : Nat → Bytes)
    (h32 : ∀ i, i < totalNeededPages value.length → alloc i < 2 ^ 32)
    (hj : ∀ i, (junk i).length = PAGE_SIZE) :
    ∃ out cell r₀, chunk value alloc junk = some out ∧ encodeCell value.length hash out.cell = some cell ∧
      AR.new cell = some r₀ ∧
      ∀ σ : Store, (∀ w ∈ out.writes, σ w.1 = some w.2) → ∀ acts : List Act,
        ∃ evs s', Run.run true σ ⟨r₀, []⟩ acts = some (evs, s') ∧ ∀ e ∈ evs, EvGood value e := by
  obtain ⟨out, cell, hchunk, henc, hdec, _, _, _, _, hchain⟩ :=
    chunk_cell_chain value hne hmax hash hh alloc junk h32 hj
  have hr₀ : AR.new cell = some ⟨[], out.cell.map (fun pn => (pn, none)), 0, 0, value.length,
      totalNeededPages value.length⟩ := by simp only [AR.new, hdec]
  refine ⟨out, cell, _, hchunk, henc, hr₀, fun σ hσ acts => ?_⟩
  obtain ⟨parts, hc, hfb, _, hlen⟩ := hchain σ hσ
  obtain ⟨r, hr, hinv⟩ := new_inv (σ := σ) (parts := parts) cell hash value.length hdec hlen (by rw [hfb])
  rw [hr₀] at hr; cases hr
  obtain ⟨evs, s', hrun, _, hev⟩ := run_inv hc acts _ hinv
  refine ⟨evs, s', hrun, fun e he => ?_⟩
  have := hev e he
  cases e <;> simp_all [EvOK, EvGood]

/-- T1.ovf-3b **the repaired reader never stalls its caller**: the repair of F12 lets `submit` answer `None` while the
next page number is not known yet; a caller that submits until `None` and then waits for a completion (the rollback
worker) would hang if nothing were outstanding at that moment.  After ANY schedule on the pages `chunk` wrote, either
the value has been delivered, or a request is outstanding, or `submit` hands out a new request (in particular the very
first `submit`, which `ReadTransaction::lookup_async` unwraps, succeeds). -/
theorem T1_overflow_async_no_stall (value : Bytes) (hne : value ≠ []) (hmax : value.length ≤ MAX_VALUE_SIZE)
    (hash : Bytes) (hh : hash.length = 32) (alloc : Nat → Nat) (junk : Nat → Bytes)
    (h32 : ∀ i, i < totalNeededPages value.length → alloc i < 2 ^ 32)
    (hj : ∀ i, (junk i).length = PAGE_SIZE) :
    ∃ out cell r₀, chunk value alloc junk = some out ∧ encodeCell value.length hash out.cell = some cell ∧
      AR.new cell = some r₀ ∧
      ∀ σ : Store, (∀ w ∈ out.writes, σ w.1 = some w.2) → ∀ acts : List Act,
        ∃ evs s', Run.run true σ ⟨r₀, []⟩ acts = some (evs, s') ∧
          ((∃ i, Ev.value i value ∈ evs) ∨ s'.out ≠ [] ∨
            ∃ i pn r', s'.ar.submit true = some (some (i, pn), r')) := by
  obtain ⟨out, cell, hchunk, henc, hdec, _, _, _, _, hchain⟩ :=
    chunk_cell_chain value hne hmax hash hh alloc junk h32 hj
  have hr₀ : AR.new cell = some ⟨[], out.cell.map (fun pn => (pn, none)), 0, 0, value.length,
      totalNeededPages value.length⟩ := by simp only [AR.new, hdec]
  refine ⟨out, cell, _, hchunk, henc, hr₀, fun σ hσ acts => ?_⟩
  obtain ⟨parts, hc, hfb, _, hlen⟩ := hchain σ hσ
  obtain ⟨r, hr, hinv⟩ := new_inv (σ := σ) (parts := parts) cell hash value.length hdec hlen (by rw [hfb])
  rw [hr₀] at hr; cases hr
  have hpos := totalNeededPages_pos value.length (List.length_pos_iff.2 hne)
  have hlive : Live ⟨⟨[], out.cell.map (fun pn => (pn, none)), 0, 0, value.length,
      totalNeededPages value.length⟩, []⟩ := by
    refine ⟨Nat.zero_le _, ?_, fun i pn _ hi _ => absurd hi (Nat.not_lt_zero _), hpos⟩
    intro pn x hs
    simp only [List.getElem?_map] at hs
    cases hq : out.cell[0]? with
    | none => rw [hq] at hs; simp at hs
    | some q => rw [hq] at hs; simp at hs; exact hs.2.symm
  obtain ⟨evs, s', hrun, hinv', hev⟩ := run_inv hc acts _ hinv
  refine ⟨evs, s', hrun, ?_⟩
  rcases run_live hc acts _ evs s' hinv hlive hrun with ⟨i, v, hm⟩ | hl'
  · left
    have := hev _ hm
    simp only [EvOK] at this
    exact ⟨i, by rw [← hfb, ← this]; exact hm⟩
  · right
    rcases hinv' with ⟨hari, _, _⟩ | ⟨hempty, hreq⟩
    · exact no_stall hc hari hl'
    · -- the reader cannot be finished while the caller still waits
      exfalso
      have hlt := hl'.proc_lt
      have hpr : s'.ar.proc < s'.ar.req := by omega
      have hpl : s'.ar.proc < s'.ar.pages.length := Nat.lt_of_lt_of_le hpr hl'.req_pages
      obtain ⟨⟨pn, x⟩, hs⟩ : ∃ e, s'.ar.pages[s'.ar.proc]? = some e := ⟨_, List.getElem?_eq_getElem hpl⟩
      have hx := hl'.waiting pn x hs
      subst hx
      have := hl'.outst _ pn (Nat.le_refl _) hpr hs
      rw [hempty] at this
      simp at this

/-- T1.ovf-4 **F12, kernel-checked**: before the repair, sixteen `submit`s without a completion in between (the
rollback worker's pattern for a cold leaf) on the cell of a 65 468-byte value index `pages[15]` of a 15-element vector:
panic, the commit aborts.  Fifteen are fine; the repaired `submit` answers `None` to the sixteenth. -/
theorem T1_overflow_F12_old_submit_panics :
    (AR.new f12Cell).bind (submitN false 16) = none ∧
    ((AR.new f12Cell).bind (submitN false 15)).isSome = true ∧
    ((AR.new f12Cell).bind (submitN true 16)).isSome = true := submit_old_panics

/-- T1.ovf-5 **cell round trip and totality**: `decode_cell ∘ encode_cell = id` on (size ≤ 2²⁹, 32-byte hash, non-empty
list of `u32`); `decode_cell` panics exactly on its three assertions — on every other byte string it returns, and
`encode_cell` of what it returns is the byte string (the format is a bijection). -/
theorem T1_overflow_cell_roundtrip :
    (∀ (vs : Nat) (hash : Bytes) (pages : List Nat) (cell : Bytes), hash.length = 32 → (∀ x ∈ pages, x < 2 ^ 32) →
        pages ≠ [] → encodeCell vs hash pages = some cell → decodeCell cell = some (vs, hash, pages)) ∧
    (∀ (vs : Nat) (hash : Bytes) (pages : List Nat), (encodeCell vs hash pages).isSome = true ↔ vs ≤ MAX_VALUE_SIZE) ∧
    (∀ raw : Bytes, (decodeCell raw).isSome = true ↔
        44 ≤ raw.length ∧ raw.length % 4 = 0 ∧ Nomt.Wal.leNat (Nomt.Wal.slice raw 0 8) ≤ MAX_VALUE_SIZE) ∧
    (∀ (raw : Bytes) (vs : Nat) (hash : Bytes) (pages : List Nat), decodeCell raw = some (vs, hash, pages) →
        encodeCell vs hash pages = some raw ∧ hash.length = 32 ∧ 1 ≤ pages.length ∧ ∀ x ∈ pages, x < 2 ^ 32) :=
  ⟨fun vs hash pages cell hh hp hne h => decodeCell_encodeCell vs hash pages cell hh hp hne h,
   encodeCell_isSome_iff, decodeCell_isSome_iff,
   fun raw vs hash pages h => by
     obtain ⟨a, _, c, _, e, f⟩ := encodeCell_decodeCell raw vs hash pages h
     exact ⟨a, c, e, f⟩⟩

/-- T1.ovf-6 **overflow pages**: `parse_page` returns what an iteration of `chunk` wrote whatever the pool page held
before, and on an arbitrary 4096-byte page it panics exactly when the two counts of the header do not fit. -/
theorem T1_overflow_page_roundtrip :
    (∀ (junk : Bytes) (pns : List Nat) (bytes : Bytes), junk.length = PAGE_SIZE → (∀ x ∈ pns, x < 2 ^ 32) →
        4 * pns.length + bytes.length ≤ BODY_SIZE →
        parsePage (mkPage junk pns bytes) = some (pns, bytes) ∧ (mkPage junk pns bytes).length = PAGE_SIZE) ∧
    (∀ page : Bytes, page.length = PAGE_SIZE →
        ((parsePage page).isSome = true ↔
          Nomt.Wal.leNat (Nomt.Wal.slice page 0 2) * 4 ≤ BODY_SIZE ∧
          Nomt.Wal.leNat (Nomt.Wal.slice page 2 2) ≤ BODY_SIZE - Nomt.Wal.leNat (Nomt.Wal.slice page 0 2) * 4)) :=
  ⟨fun junk pns bytes hj hp hf => ⟨parsePage_mkPage junk pns bytes hj hp hf, length_mkPage junk pns bytes hj hf⟩,
   parsePage_isSome_iff⟩

/-- T1.ovf-7 **inline or overflow** (`ValueChange::insert` + `leaf_stage::run`): a value is kept in the leaf iff its
length is ≤ `MAX_LEAF_VALUE_SIZE` = 1332; either way what goes into the leaf is an admissible leaf cell
(`leafEntryOK`, the guard of the leaf round trip `Store.leaf_rt`: inline ≤ 1332 bytes, overflow cell `40 + 4k` bytes
with `1 ≤ k ≤ 15`), a single cell with its 34-byte pointer fits the leaf body, and an overflow cell (≤ 100 bytes) is
never larger than the largest inline cell. -/
theorem T1_inline_or_overflow (value : Bytes) (hmax : value.length ≤ MAX_VALUE_SIZE)
    (hash : Bytes) (hh : hash.length = 32) (alloc : Nat → Nat) (junk : Nat → Bytes) (key : ByteArray)
    (hk : key.size = 32) :
    ∃ cell flag ws, storeValue value hash alloc junk = some (cell, flag, ws) ∧
      (flag = true ↔ MAX_LEAF_VALUE_SIZE < value.length) ∧ MAX_LEAF_VALUE_SIZE = 1332 ∧
      (flag = false → cell = value ∧ ws = []) ∧
      (flag = true → cell.length = 40 + 4 * min (totalNeededPages value.length) 15 ∧ cell.length ≤ 100) ∧
      bodySize 1 cell.length ≤ LEAF_NODE_BODY_SIZE ∧
      Store.leafEntryOK ⟨key, flag, cell.toByteArray⟩ = true := by
  by_cases hov : isOverflow value.length = true
  · have hlen := (isOverflow_iff _).1 hov
    have hne : value ≠ [] := by rintro rfl; simp at hlen
    obtain ⟨out, h, _, hc, _, _, _⟩ := chunk_ok value hne alloc junk
    obtain ⟨cell, henc⟩ : ∃ cell, encodeCell value.length hash out.cell = some cell :=
      Option.isSome_iff_exists.1 ((encodeCell_isSome_iff _ _ _).2 hmax)
    have hcl : out.cell.length = min (totalNeededPages value.length) 15 := by
      rw [hc, List.length_take, allocated_length, Nat.min_comm]; rfl
    have hl := length_encodeCell _ _ _ _ henc
    have hpos := totalNeededPages_pos value.length (by omega)
    rw [hh, hcl] at hl
    refine ⟨cell, true, out.writes, by simp only [storeValue, hov, if_true, h, henc], ?_, max_leaf_value_size,
      by simp, fun _ => ⟨by omega, by omega⟩, ?_, ?_⟩
    · simp [max_leaf_value_size, hlen]
    · simp only [bodySize, LEAF_NODE_BODY_SIZE, PAGE_SIZE]; omega
    · simp only [Store.leafEntryOK, hk, List.size_toByteArray, Store.MAX_OVERFLOW_CELL_NODE_POINTERS]
      simp; omega
  · have hlen : value.length ≤ 1332 := by
      have : ¬ 1332 < value.length := fun h => hov ((isOverflow_iff _).2 h)
      omega
    refine ⟨value, false, [], by simp only [storeValue, hov]; simp, ?_, max_leaf_value_size, by simp, by simp, ?_, ?_⟩
    · simp [max_leaf_value_size]; omega
    · simp only [bodySize, LEAF_NODE_BODY_SIZE, PAGE_SIZE]; omega
    · simp only [Store.leafEntryOK, hk, List.size_toByteArray, Store.MAX_LEAF_VALUE_SIZE, Store.LEAF_NODE_BODY_SIZE,
        Store.PAGE]
      simp; omega

/-- T1.ovf-8 **every value reads back**, inline or not: what `leaf_stage::run` stores for a value of 0 … 2²⁹ bytes
(cell + overflow flag + page writes), looked up again (`finish_lookup_blocking`: the cell itself, or `read_blocking`
through the overflow flag), is the value. -/
theorem T1_value_roundtrip (value : Bytes) (hmax : value.length ≤ MAX_VALUE_SIZE)
    (hash : Bytes) (hh : hash.length = 32) (alloc : Nat → Nat) (junk : Nat → Bytes)
    (h32 : ∀ i, i < totalNeededPages value.length → alloc i < 2 ^ 32)
    (hj : ∀ i, (junk i).length = PAGE_SIZE) :
    ∃ cell flag ws, storeValue value hash alloc junk = some (cell, flag, ws) ∧
      ∀ σ : Store, (∀ w ∈ ws, σ w.1 = some w.2) → loadValue cell flag σ = some value := by
  by_cases hov : isOverflow value.length = true
  · have hlen := (isOverflow_iff _).1 hov
    have hne : value ≠ [] := by rintro rfl; simp at hlen
    obtain ⟨out, cell, hchunk, henc, hread⟩ := T1_overflow_roundtrip value hne hmax hash hh alloc junk h32 hj
    exact ⟨cell, true, out.writes, by simp only [storeValue, hov, if_true, hchunk, henc],
      fun σ hσ => by simp only [loadValue, if_true]; exact hread σ hσ⟩
  · exact ⟨value, false, [], by simp only [storeValue, hov]; simp, fun σ _ => by simp [loadValue]⟩

/-! ## non-vacuity -/

/-- a value of 70 000 bytes: 18 pages, 15 named in the cell, 3 page numbers spill into the first page -/
example : totalNeededPages 70000 = 18 ∧ totalNeededPages 1333 = 1 ∧ totalNeededPages (15 * 4092) = 15 ∧
    totalNeededPages (15 * 4092 + 1) = 16 ∧ totalNeededPages (16 * 4092 - 4) = 16 ∧
    totalNeededPages (16 * 4092 - 3) = 17 ∧ totalNeededPages (2 ^ 29) = 131329 := by decide

/-- the hypotheses of the round trip hold for a 70 000-byte value, descending non-contiguous page numbers and pool
pages full of `0xAA` -/
example : ∃ out cell, chunk (List.replicate 70000 7) (fun i => 5000 - 3 * i) (fun _ => List.replicate 4096 0xAA) = some out ∧
    encodeCell (List.replicate 70000 (7 : UInt8)).length (List.replicate 32 1) out.cell = some cell ∧
    ∀ σ : Store, (∀ w ∈ out.writes, σ w.1 = some w.2) → readBlocking cell σ = some (List.replicate 70000 7) := by
  have hl : (List.replicate 70000 (7 : UInt8)).length = 70000 := List.length_replicate
  exact T1_overflow_roundtrip (List.replicate 70000 7)
    (fun h => by rw [h] at hl; exact absurd hl (by decide)) (by rw [hl]; decide)
    (List.replicate 32 1) List.length_replicate (fun i => 5000 - 3 * i) (fun _ => List.replicate 4096 0xAA)
    (fun i _ => by show 5000 - 3 * i < 2 ^ 32; omega) (fun _ => List.length_replicate)

/-- a small instance evaluated by the kernel: a one-page value written to page 9 and read back, `delete` frees page 9 -/
example :
    let value : Bytes := [1, 2, 3, 4, 5]
    let junk : Nat → Bytes := fun _ => List.replicate 4096 0xAA
    (chunk value (fun i => 9 + i) junk).map (fun o => (o.cell, o.total, o.writes.map (·.1))) = some ([9], 1, [9]) := by
  decide

set_option maxRecDepth 100000 in
/-- evaluated by the kernel: the `AsyncReader` on that value — the second `submit` answers `None` (one page), the
completion of the first request delivers the value -/
example :
    let junk : Nat → Bytes := fun _ => List.replicate 4096 0xAA
    let hash : Bytes := List.replicate 32 1
    ((chunk [1, 2, 3, 4, 5] (fun i => 9 + i) junk).bind (fun o =>
      (encodeCell 5 hash o.cell).bind (fun cell => (AR.new cell).bind (fun r =>
        (Run.run true (applyWrites (fun _ => none) o.writes) ⟨r, []⟩ [.submit, .submit, .complete 0]).map (·.1))))) =
      some [.submitted 0 9, .nothing, .value 0 [1, 2, 3, 4, 5]] := by
  decide

end Nomt.C01
