import NomtModel.Store.PrepareSyncTheorems
import NomtModel.Store.PrepareSyncExample
import NomtModel.Store.GenFnCheck
/-!
# C04 (topic: `bitbox::DB::prepare_sync`) — the CONTENT clause of the crash theorem for the merkle page table

The crash theorems (`Props/C04.lean` T4.1, T4.9 …) assume of the hash table: the durable WAL carries the new sequence
number (`hwal`) and every table write after the switch-over replays a WAL entry (`AllowedPost`).  This file proves the
second for the code that produces both sides — the mirror `PrepSync.prepareSync` of `DB::prepare_sync`
(`Store/PrepareSyncModel.lean`, tied to the real function by the `prepsync` differential through hook
`verif_api::bitbox_sync::PrepareSim`): **redo of the WAL it builds, over the OLD table, is the OLD table with the page
list it returns applied — in any order — exactly when every diff names every slot in which the page differs from the
old content of its bucket** (the conclusion of `T16_walker_diff_names_changes_partial`).

Setting (`PrepSync.Before`): the in-memory meta map is well-formed and equals the meta pages of the file, one page per
bucket, the table satisfies `Probe.Inv` / `Probe.NoDup` (what `wfTable` accepts on real `ht` files, `T5_5`).
Caller contract (`PrepSync.ChangesOK`): `[u8; 32]` ids / whole pages labelled with their id / diffs without reserved
bit; every page id once (the changeset is a map); bucket infos truthful (`ContractFrom`; `T4_prepare_sync_contract_static`
gives it from the plain statement about the old table).
-/
namespace Nomt.C04
open Nomt Nomt.Wal Nomt.Store Nomt.Store.Probe Nomt.PrepSync

/-- **T4_prepare_sync_wal_covers_ht** (the `AllowedPost` content clause, no longer a hypothesis for this component):
for every table state satisfying the table invariant and every changeset inside the contract whose diffs name every slot
that differs from the stored content of the page's bucket, `bitbox::recover` on (the OLD table, the WAL blob
`prepare_sync` built) returns exactly the OLD table with the returned `ht` pages applied — meta map and bucket pages —
for EVERY order `ht'` of that list (`changed_meta_pages` is a `HashSet`; `write_ht` sorts; io_uring completes in any
order).  A crash after the meta write therefore recovers to what the uninterrupted sync leaves. -/
theorem T4_prepare_sync_wal_covers_ht {hash : Bytes → Nat} {debug : Bool} {S : St} {T : Wal.Table} {seqn : Nat}
    {ds : List Dirty} {b0 : Builder} {res : Res} (hB : Before hash S T) (hC : ChangesOK hash S T ds)
    (hs : seqn < 2 ^ 32) (h : prepareSync hash debug S seqn ds b0 = .ok res)
    (hcov : ∀ x ∈ ups ds res.cells, Covers (T.pages.getD x.1 []) x.2)
    (ht' : List (Nat × Bytes)) (hp : ht'.Perm res.ht) :
    recover hash seqn T res.wal.asSlice.toArray = .ok (applyHt (dataOffset S.mm.buckets) T ht') :=
  (prepareSync_wal_covers_ht_iff hB hC hs h ht' hp).2 hcov

/-- **T4_prepare_sync_partial_writeout** (every image between the meta fsync and the end of the write-out): with
covering diffs, recovery of the sync's WAL on the OLD table with ANY sub-list `sub` of the returned pages already applied
(the pages of `write_ht` that reached the disk before the crash: any subset, any order, 4 KiB pages atomic) gives exactly
the table of the completed write-out.  (`ht'` ranges over the orders of the returned list, so `sub` is an arbitrary
sub-multiset in an arbitrary order.) -/
theorem T4_prepare_sync_partial_writeout {hash : Bytes → Nat} {debug : Bool} {S : St} {T : Wal.Table} {seqn : Nat}
    {ds : List Dirty} {b0 : Builder} {res : Res} (hB : Before hash S T) (hC : ChangesOK hash S T ds)
    (hs : seqn < 2 ^ 32) (h : prepareSync hash debug S seqn ds b0 = .ok res)
    (hcov : ∀ x ∈ ups ds res.cells, Covers (T.pages.getD x.1 []) x.2)
    (ht' : List (Nat × Bytes)) (hp : ht'.Perm res.ht) (sub : List (Nat × Bytes)) (hsub : sub.Sublist ht') :
    recover hash seqn (applyHt (dataOffset S.mm.buckets) T sub) res.wal.asSlice.toArray =
      .ok (applyHt (dataOffset S.mm.buckets) T ht') :=
  prepareSync_partial_writeout hB hC hs h hcov ht' hp sub hsub

/-- **T4_prepare_sync_wal_covers_ht_iff**: the coverage hypothesis is NECESSARY — redo equals the write-out iff every
diff covers the differences. -/
theorem T4_prepare_sync_wal_covers_ht_iff {hash : Bytes → Nat} {debug : Bool} {S : St} {T : Wal.Table} {seqn : Nat}
    {ds : List Dirty} {b0 : Builder} {res : Res} (hB : Before hash S T) (hC : ChangesOK hash S T ds)
    (hs : seqn < 2 ^ 32) (h : prepareSync hash debug S seqn ds b0 = .ok res)
    (ht' : List (Nat × Bytes)) (hp : ht'.Perm res.ht) :
    recover hash seqn T res.wal.asSlice.toArray = .ok (applyHt (dataOffset S.mm.buckets) T ht') ↔
      ∀ x ∈ ups ds res.cells, Covers (T.pages.getD x.1 []) x.2 :=
  prepareSync_wal_covers_ht_iff hB hC hs h ht' hp

/-- **T4_prepare_sync_redo_vs_writeout** (no coverage hypothesis — a fresh page is built in an un-zeroed pool page):
recovery never fails on the WAL of `prepare_sync`; it yields the meta map of the write-out, leaves every bucket no
updated page lives in exactly as the write-out does, and in the bucket of an updated page it leaves `redoOf old page`
(`T3_redo_slots`: the page's nodes in the named slots, its label and elided-children bits, the OLD bytes elsewhere)
where the write-out leaves `page`. -/
theorem T4_prepare_sync_redo_vs_writeout {hash : Bytes → Nat} {debug : Bool} {S : St} {T : Wal.Table} {seqn : Nat}
    {ds : List Dirty} {b0 : Builder} {res : Res} (hB : Before hash S T) (hC : ChangesOK hash S T ds)
    (hs : seqn < 2 ^ 32) (h : prepareSync hash debug S seqn ds b0 = .ok res)
    (ht' : List (Nat × Bytes)) (hp : ht'.Perm res.ht) :
    ∃ U, recover hash seqn T res.wal.asSlice.toArray = .ok U ∧ U.WF ∧
      U.meta = (applyHt (dataOffset S.mm.buckets) T ht').meta ∧
      U.pages.length = (applyHt (dataOffset S.mm.buckets) T ht').pages.length ∧
      (∀ b, b ∉ (ups ds res.cells).map (·.1) → U.pages[b]? = (applyHt (dataOffset S.mm.buckets) T ht').pages[b]?) ∧
      (∀ x ∈ ups ds res.cells, ∃ F, redoOf (T.pages.getD x.1 []) x.2 = .ok F ∧ U.pages[x.1]? = some F ∧
        (applyHt (dataOffset S.mm.buckets) T ht').pages[x.1]? = some x.2.page) :=
  prepareSync_redo_vs_writeout hB hC hs h ht' hp

/-- **T4_prepare_sync_abstraction**: the written-out table `W`, as a finite map page id → page, is the old map with the
updated pages inserted and the cleared pages removed — `W` satisfies the table invariant again, its view is the run of
the probing model's insert / remove operations (`T5.5`), every updated page is FOUND (by the lookup the code performs)
in the bucket `prepare_sync` reported and that bucket holds its bytes, every cleared page is NOT found, and every other
page is found exactly where it was, with its bytes untouched. -/
theorem T4_prepare_sync_abstraction {hash : Bytes → Nat} {debug : Bool} {S : St} {T : Wal.Table} {seqn : Nat}
    {ds : List Dirty} {b0 : Builder} {res : Res} (hB : Before hash S T) (hC : ChangesOK hash S T ds)
    (h : prepareSync hash debug S seqn ds b0 = .ok res) (ht' : List (Nat × Bytes)) (hp : ht'.Perm res.ht) :
    let W := applyHt (dataOffset S.mm.buckets) T ht'
    let V := viewOf S.mm T.pages
    let V' := viewOf res.mm W.pages
    W.meta = res.mm.bitvec ∧ W.pages.length = T.pages.length ∧ Inv (hashN hash) V' ∧ NoDup V' ∧
    V' = Probe.run (hashN hash) ALLOC_ATTEMPTS V (ds.map opOf) ∧
    (∀ x ∈ pairs ds res.cells, x.2.diff.cleared = false →
      find (hashN hash) V' (pidN x.2.pid) = some x.1 ∧ W.pages[x.1]? = some x.2.page) ∧
    (∀ d ∈ ds, d.diff.cleared = true → find (hashN hash) V' (pidN d.pid) = none) ∧
    (∀ q, (∀ d ∈ ds, pidN d.pid ≠ q) → find (hashN hash) V' q = find (hashN hash) V q ∧
      ∀ b, find (hashN hash) V q = some b → W.pages[b]? = T.pages[b]?) :=
  prepareSync_abstraction hB hC h ht' hp

/-- **T4_prepare_sync_lookup_after** (composition with T5.5): on the written-out table the lookup the code performs
(`ProbeSequence` + label check + retry, mirrored as `Probe.lookup`, any fuel `≥ 2n + 2`) answers `b` for a page id iff
that page is stored in bucket `b` — every page of the new state is found, no other. -/
theorem T4_prepare_sync_lookup_after {hash : Bytes → Nat} {debug : Bool} {S : St} {T : Wal.Table} {seqn : Nat}
    {ds : List Dirty} {b0 : Builder} {res : Res} (hB : Before hash S T) (hC : ChangesOK hash S T ds)
    (h : prepareSync hash debug S seqn ds b0 = .ok res) (ht' : List (Nat × Bytes)) (hp : ht'.Perm res.ht)
    (p b fuel : Nat) (hf : 2 * (viewOf res.mm (applyHt (dataOffset S.mm.buckets) T ht').pages).n + 2 ≤ fuel) :
    Probe.lookup (hashN hash) (viewOf res.mm (applyHt (dataOffset S.mm.buckets) T ht').pages) p fuel = some (some b) ↔
      Stored (viewOf res.mm (applyHt (dataOffset S.mm.buckets) T ht').pages) p b := by
  obtain ⟨_, _, hI, hD, _⟩ := prepareSync_abstraction hB hC h ht' hp
  rw [lookup_eq_find _ _ _ _ hf]
  constructor
  · intro e
    injection e with e
    exact (lookupF_iff_stored hI hD p b).1 e
  · intro e
    rw [show find (hashN hash) _ p = some b from (lookupF_iff_stored hI hD p b).2 e]

/-- **T4_prepare_sync_total**: under the contract, with a WAL mapping of a positive number of pages and a log below
128 GiB, `prepare_sync` reaches NO panic site (`unwrap` / `unreachable!` of the cleared branch, `bitvec[bucket]`,
`bitvec[start..end]`, the debug `assert_eq!`, `hash % 0`, the page-number addition, every site of the WAL builder and of
`pack_changed_nodes`): it returns `Ok`, or `Err(BucketExhaustion)` — the documented error path — and then some page that
needs a bucket finds none on the table as the earlier pages of the changeset left it. -/
theorem T4_prepare_sync_total {hash : Bytes → Nat} (debug : Bool) {S : St} {T : Wal.Table} (seqn : Nat) {ds : List Dirty}
    {b0 : Builder} (hB : Before hash S T) (hC : ChangesOK hash S T ds) (hs : Builder.SizeInv b0.size)
    (hlt : 6 + (ds.map encLen).sum < MAX_SIZE) :
    (∃ res, prepareSync hash debug S seqn ds b0 = .ok res) ∨
    (∃ mm k d, prepareSync hash debug S seqn ds b0 = .err (.bucketExhaustion mm) ∧ ds[k]? = some d ∧ needsAlloc d ∧
      alloc (hashN hash) ALLOC_ATTEMPTS
        (Probe.run (hashN hash) ALLOC_ATTEMPTS (viewOf S.mm T.pages) ((ds.take k).map opOf)) (pidN d.pid) = none) :=
  prepareSync_total debug seqn hB hC hs hlt

/-- **T4_prepare_sync_exhaustion_iff**: the exact condition of the error path: `BucketExhaustion` iff the `k`-th page
needs a bucket and `allocate_bucket` on the table after the first `k` pages returns `None` (for tables of fewer than
4999 buckets: iff NO bucket of the page's probe sequence is free, `Probe.allocTop_none`; else also after 9999 probes). -/
theorem T4_prepare_sync_exhaustion_iff {hash : Bytes → Nat} (debug : Bool) {S : St} {T : Wal.Table} (seqn : Nat)
    {ds : List Dirty} {b0 : Builder} (hB : Before hash S T) (hC : ChangesOK hash S T ds) (hs : Builder.SizeInv b0.size)
    (hlt : 6 + (ds.map encLen).sum < MAX_SIZE) :
    (∃ mm, prepareSync hash debug S seqn ds b0 = .err (.bucketExhaustion mm)) ↔
    ∃ k d, ds[k]? = some d ∧ needsAlloc d ∧
      alloc (hashN hash) ALLOC_ATTEMPTS
        (Probe.run (hashN hash) ALLOC_ATTEMPTS (viewOf S.mm T.pages) ((ds.take k).map opOf)) (pidN d.pid) = none :=
  prepareSync_exhaustion_iff debug seqn hB hC hs hlt

/-- **T4_prepare_sync_contract_static**: the caller contract stated against the OLD table: every page id once, a page
with a known bucket (`Known` / a filled cell) is stored there, a page announced fresh is not stored, a cleared page has a
known bucket — is the page-by-page contract the theorems use, and conversely. -/
theorem T4_prepare_sync_contract_static {hN : Nat → Nat} {lim : Nat} (ds : List Dirty) (V : Probe.Table) (hn : 0 < V.n)
    (hI : Inv hN V) (hD : NoDup V) (hnd : (ds.map (fun d => pidN d.pid)).Nodup) :
    (∀ d ∈ ds, AgreesAt hN V d) ↔ ContractFrom hN lim V ds :=
  ⟨contractFrom_of_static ds V hn hI hD hnd, static_of_contractFrom ds V hn hI hD hnd⟩

/-- **T4_prepare_sync_fn_ties**: the two integer functions of the CURRENT source text the mirror depends on are the ones it
uses: `full_entry(hash)` (the meta byte `set_full` writes) and `num_meta_byte_pages(num_pages)` (= `data_page_offset`, the
page number of bucket 0) — regenerated from `meta_map.rs` / `ht_file.rs` on every run by `tools/gen_functions.py`. -/
theorem T4_prepare_sync_fn_ties :
    (∀ h, GenFn.full_entry h = some (Wal.fullEntry h).toNat) ∧
    (∀ n, n < 2 ^ 32 - 4095 → GenFn.num_meta_byte_pages n = some (dataOffset n)) :=
  ⟨GenFnCheck.full_entry_eq, GenFnCheck.num_meta_byte_pages_eq⟩

/-! ## non-vacuity and counterexamples (hash ≡ 0, two buckets) -/

/-- the hypotheses of all theorems above are met: the empty table, the page `exPage` (two non-zero slots) as a fresh
page with the diff `{0, 1}`; the call succeeds and recovery of its WAL is its write-out -/
example (debug : Bool) : ∃ res, prepareSync exHash debug exS 7 [exD] exB = .ok res ∧
    recover exHash 7 exT res.wal.asSlice.toArray = .ok (applyHt (dataOffset exS.mm.buckets) exT res.ht) := by
  obtain ⟨res, h⟩ := exRuns debug 3 (by omega) plain_3
  refine ⟨res, h, T4_prepare_sync_wal_covers_ht exBefore exChangesD (by omega) h ?_ res.ht (List.Perm.refl _)⟩
  obtain ⟨_, _, _, _, _, _, _, _, _, _, f10, _⟩ := prepareSync_facts exBefore exChangesD h
  intro x hx
  obtain ⟨hx1, _⟩ := ups_sub_pairs _ _ x hx
  have hd := mem_pairs _ _ x hx1
  simp only [List.mem_singleton] at hd
  rw [exOldBucket x.1 (f10 x hx1), hd]
  exact exCovered

/-- **counterexample (a)**: the seeded change `C03-wal-diff-drops-reconstruction` (`diff: updated.diff` instead of
`updated.total_diff()`: the WAL entry of a page promoted to a fresh bucket carries only the slot the update touched, not
the slots the reconstruction wrote) violates `wal_covers_ht`: `prepare_sync` succeeds, recovery of its WAL succeeds, and
the recovered table is NOT the written-out one (slot 0 of the page stays empty). -/
theorem T4_seeded_diff_drops_reconstruction_counterexample (debug : Bool) :
    (∃ res, prepareSync exHash debug exS 7 [exD2] exB = .ok res) ∧
    ∀ res, prepareSync exHash debug exS 7 [exD2] exB = .ok res →
      recover exHash 7 exT res.wal.asSlice.toArray ≠ .ok (applyHt (dataOffset exS.mm.buckets) exT res.ht) := by
  refine ⟨exRuns debug 2 (by omega) plain_2, ?_⟩
  intro res h e
  have hcov := (T4_prepare_sync_wal_covers_ht_iff exBefore exChangesD2 (by omega) h res.ht (List.Perm.refl _)).1 e
  obtain ⟨_, _, _, _, _, _, _, _, _, _, f10, _, _, _, _, _, f16, _⟩ := prepareSync_facts exBefore exChangesD2 h
  obtain ⟨b, hc⟩ := length_one f16
  rw [hc] at hcov f10
  have hb := f10 (b, exD2) (by rw [pairs_single]; exact List.mem_singleton.2 rfl)
  have := hcov (b, exD2) (by rw [ups_single _ _ exD2_cleared]; exact List.mem_singleton.2 rfl)
  rw [exOldBucket b hb] at this
  exact exNotCovered this

/-- **counterexample (b)**: finding F20's diff (slot 0 of a stored page becomes a terminator, slot 1 is rewritten, the
diff names only slot 1) violates `wal_covers_ht`: recovery leaves the stale node in slot 0. -/
theorem T4_F20_zeroed_slot_missing_counterexample (debug : Bool) :
    (∃ res, prepareSync exHash debug exS3 7 [exD3] exB = .ok res) ∧
    ∀ res, prepareSync exHash debug exS3 7 [exD3] exB = .ok res →
      recover exHash 7 exT3 res.wal.asSlice.toArray ≠ .ok (applyHt (dataOffset exS3.mm.buckets) exT3 res.ht) := by
  refine ⟨exRuns3 debug, ?_⟩
  intro res h e
  have hcov := (T4_prepare_sync_wal_covers_ht_iff exBefore3 exChangesD3 (by omega) h res.ht (List.Perm.refl _)).1 e
  obtain ⟨_, _, _, _, _, _, _, _, _, _, _, _, _, _, _, _, f16, f17⟩ := prepareSync_facts exBefore3 exChangesD3 h
  obtain ⟨b, hc⟩ := length_one f16
  rw [hc] at hcov f17
  have hb : b = 0 := by
    have hk := f17 (b, exD3) (by rw [pairs_single]; exact List.mem_singleton.2 rfl)
    change exD3.bucket = .known b ∨ exD3.bucket = .depSet b ∨
      (exD3.diff.cleared = false ∧ (exD3.bucket = .fresh ∨ exD3.bucket = .depUnset)) at hk
    rw [exD3_bucket] at hk
    rcases hk with k | k | ⟨_, k | k⟩
    · exact (BInfo.known.inj k).symm
    · cases k
    · cases k
    · cases k
  subst hb
  have := hcov (0, exD3) (by rw [ups_single _ _ exD3_cleared]; exact List.mem_singleton.2 rfl)
  exact f20NotCovered this

end Nomt.C04
