import NomtModel.Api.Locks2Replay
import NomtModel.Api.Locks2Dead
/-!
# C15 (topic: conformance of RECORDED executions of the real store)

The lock recorder (hook H19) and `vharness lockrec` turn an execution of the real `Nomt` under real threads into a log
of `call` / `at` (/ `spur`) lines in real-time order; `Locks2.replay` (`Api/Locks2Replay.lean`) is the function the
driver mode `locks` executes on them.  If it accepts a log — every recorded micro-step is the thread's next micro-step
in the model and is enabled in the state the recorded prefix leads to — the log IS a run of the two-lock LTS, and the
theorems about all interleavings apply to that execution of the real code:

* `T15_replay_sound` — an accepted log is `run` of its events, all of them calls of the code, every step enabled;
* `T15_recorded_execution_linearizable` — the committed state the model reaches (which the harness compares with the
  real store's root, rollback-log length and poison flag: `final` line) is the sequential specification `specStep`
  (= `Api/Exec.lean`: T15.6e) run over the write sections in write-guard order, with the verdicts the model gave —
  which are the results the real calls returned, because every `ret` line was compared (`T15_recorded_verdicts`);
* `T15_recorded_sessions_snapshot` — at every point of an accepted log all live sessions have the committed state as
  their start state, and an observation step (`sess_read`, `sess_root`, `read_root`) sees exactly it (the value the
  harness compares with what the real session read).
* `T15_spur_*` — the one behaviour of the real lock the recorded executions added to the LTS: `try_write` may fail on a
  free lock while a thread is queued at it (parking_lot's PARKED_BIT).
-/
namespace Nomt.C15
open Nomt.Locks2
variable {C R W D : Type} [DecidableEq R] (ops : DbOps C R W D)

/-- T15.replay **soundness of the replay**: if the replay function accepts a recorded log, the log is a run of the LTS
from the initial state: the final state is `run` of the recorded events, every event is a call / step of the code's
programs, and every recorded micro-step was enabled (not waiting for a lock, thread inside a call) where the real code
performed it; a `call` found its thread idle. -/
theorem T15_replay_sound (db0 : Db C R D) (ls : List (RLine R W D))
    (h : accepted (replay ops (init db0) ls).2 = true) :
    (replay ops (init db0) ls).1 = run ops (init db0) (ls.map RLine.event) ∧
    (∀ e ∈ ls.map RLine.event, e.isCode = true) ∧
    Enabled ops (init db0) (ls.map RLine.event) :=
  replay_sound ops (init db0) ls h

/-- the answers to the lines of an accepted log are the LTS's own step results: `finished r` exactly where the LTS ends
the call with `r` -/
theorem T15_replay_answers (s : S C R W D) (t : Tid) (n : IName) (h : (replayLine ops s (.at t n)).2.ok = true) :
    ((replayLine ops s (.at t n)).2 = .ran ∧ ∀ r, (next ops s (.step t)).2 ≠ .finished r) ∨
    (∃ r, (replayLine ops s (.at t n)).2 = .finished r ∧ (next ops s (.step t)).2 = .finished r) :=
  replayLine_at_answer ops s t n h

/-- T15.recorded-lin **a recorded execution is linearizable in write-guard order**: for an accepted log, running the
sequential specification over the finished write sections (oldest first) from the initial state gives the committed
state at the moment the current guard was taken — the CURRENT committed state if no guard is held — and the recorded
verdicts. -/
theorem T15_recorded_execution_linearizable (db0 : Db C R D) (ls : List (RLine R W D))
    (h : accepted (replay ops (init db0) ls).2 = true) :
    let s := (replay ops (init db0) ls).1
    specRun ops db0 s.doneOps.reverse = (if s.wown then s.base else s.db, s.doneRes.reverse) := by
  obtain ⟨hs, hc, _⟩ := replay_sound ops (init db0) ls h
  intro s
  have : s = run ops (init db0) (ls.map RLine.event) := hs
  rw [this]
  exact (inv_lin_run ops _ _ hc (inv1_init db0) (lin_init ops db0)).2.hist

/-- … in particular at the end of a recorded scenario (all calls have returned): the final committed state IS the
sequential result.  This is the line `final` of the replay: root, content, rollback-log length, poison flag and the
verdicts in write-guard order, compared with the real store. -/
theorem T15_recorded_final_state (db0 : Db C R D) (ls : List (RLine R W D))
    (h : accepted (replay ops (init db0) ls).2 = true)
    (hidle : ∀ t, (((replay ops (init db0) ls).1).thr t).prog = []) :
    specRun ops db0 ((replay ops (init db0) ls).1).doneOps.reverse =
      (((replay ops (init db0) ls).1).db, ((replay ops (init db0) ls).1).doneRes.reverse) := by
  have hl := T15_recorded_execution_linearizable ops db0 ls h
  obtain ⟨hs, hc, _⟩ := replay_sound ops (init db0) ls h
  have h1 : Inv1 ((replay ops (init db0) ls).1) := by rw [hs]; exact inv1_run ops _ _ hc (inv1_init db0)
  have hw : ((replay ops (init db0) ls).1).wown = false := by
    cases hw : ((replay ops (init db0) ls).1).wown with
    | false => rfl
    | true =>
      obtain ⟨t, ht⟩ := Option.isSome_iff_exists.1 (h1.wown_bit hw)
      exact absurd ht (idle_facts _ t h1 (hidle t)).2.1
  simpa [hw] using hl

/-- T15.recorded-verdicts **the verdict of a section is the result of its call**: in every state of an accepted log, a
thread about to release the write guard with verdict `r` (the entry T15.6 puts into the history) has nothing left to do
but return `r` — the result the replay compared with the real call's. -/
theorem T15_recorded_verdicts (db0 : Db C R D) (ls : List (RLine R W D))
    (h : accepted (replay ops (init db0) ls).2 = true) (t : Tid) (r : Res) (rest : List (Instr R W D)) :
    (((replay ops (init db0) ls).1).thr t).prog = .aWriteUnlock r :: rest → rest = [.ret r] := by
  obtain ⟨hs, _, _⟩ := replay_sound ops (init db0) ls h
  intro hp
  have hv := vd_run ops (ls.map RLine.event) (init db0) (fun _ => rfl) t
  rw [← hs, hp] at hv
  exact vd_head r rest hv

/-- T15.recorded-snapshot **sessions of a recorded execution read one committed state**: in the state an accepted log
leads to, every live session started from the committed content and root that are current now, and the next
observation step of any thread sees exactly them (`stepObs` is what the driver prints for `atv` lines and the harness
compares with what the real session returned). -/
theorem T15_recorded_sessions_snapshot (db0 : Db C R D) (ls : List (RLine R W D))
    (h : accepted (replay ops (init db0) ls).2 = true) :
    let s := (replay ops (init db0) ls).1
    (∀ x ∈ s.readers, x.content = s.db.content ∧ x.root = s.db.root ∧ (x.prev = none ∨ x.prev = some x.root)) ∧
    (∀ t sid rest, (s.thr t).prog = .sessRead sid :: rest →
      (match stepObs s t with | .content c => c = s.db.content ∧ ∀ x ∈ s.readers, x.content = c | _ => False)) ∧
    (∀ t sid rest, (s.thr t).prog = .sessRoot sid :: rest →
      (match stepObs s t with | .root r => r = s.db.root ∧ ∀ x ∈ s.readers, x.root = r | _ => False)) := by
  obtain ⟨hs, hc, _⟩ := replay_sound ops (init db0) ls h
  intro s
  have h1 : Inv1 s := by
    have : s = run ops (init db0) (ls.map RLine.event) := hs
    rw [this]; exact inv1_run ops _ _ hc (inv1_init db0)
  refine ⟨h1.snap, ?_, ?_⟩
  · intro t sid rest hp
    simp only [stepObs, hp]
    exact ⟨by first | trivial | rfl, fun x hx => (h1.snap x hx).1⟩
  · intro t sid rest hp
    simp only [stepObs, hp]
    exact ⟨by first | trivial | rfl, fun x hx => (h1.snap x hx).2.1⟩

/-- T15.spur-a **the spurious failure of `try_write`** (parking_lot: `compare_exchange(0, WRITER_BIT)` fails on
`PARKED_BIT`): it happens only to a thread at `try_write` while ANOTHER thread is queued at a blocking acquisition of
the access lock; it ends the call with `busy` and changes neither the committed state nor a lock word nor the history —
exactly like the failure on a held lock (T15.8c). -/
theorem T15_spur_effect (s : S C R W D) (t u : Tid) (hw : s.wbit ≠ some t) :
    ((next ops s (.spur t u)).2 = .finished .busy ↔
      (∃ rest, (s.thr t).prog = .aTryWrite :: rest) ∧ u ≠ t ∧ isQueued (s.thr u).prog = true) ∧
    ((next ops s (.spur t u)).2 ≠ .finished .busy → (next ops s (.spur t u)).1 = s) ∧
    (let s' := (next ops s (.spur t u)).1
     s'.db = s.db ∧ s'.readers = s.readers ∧ s'.wbit = s.wbit ∧ s'.wown = s.wown ∧
     s'.doneOps = s.doneOps ∧ s'.doneRes = s.doneRes) := by
  have hbne : (s.wbit == some t) = false := by simpa using hw
  simp only [next]
  cases hp : (s.thr t).prog with
  | nil => simp
  | cons i rest =>
    by_cases hc : u ≠ t ∧ isQueued (s.thr u).prog = true
    · cases i <;> simp [hc, abort, hbne]
    · cases i <;> simp [hc]

/-- T15.spur-b the non-blocking commits still never WAIT (T15.8a / b are about the programs, which did not change): the
spurious event is not a wait, it is a second way for `try_write` to hand the changeset back. -/
theorem T15_spur_never_blocks (s : S C R W D) (t u : Tid) : (next ops s (.spur t u)).2 ≠ .blocked := by
  simp only [next]
  split
  · split <;> simp
  · simp

/-! ## Non-vacuity (instance `natOps`): a recorded log in the format of `vharness lockrec` -/

/-- Thread 1 opens session 7 and samples the root; thread 2's `try_commit` is handed back (a session is live); the
session ends; thread 2 commits `0 → 5` (blocking); thread 3's stale commit `0 → 6` takes the guard, fails the root check
and UNWINDS (M guard, write guard, return: three more recorded steps); thread 3 rolls back. -/
def exLog : List (RLine Nat Nat Nat) :=
  [.call 1 (.beginSession 7), .at 1 .aRead, .at 1 .mLock, .at 1 .sessRoot, .at 1 .mUnlock, .at 1 .ret,
   .call 2 (.tryCommit (natCS 0 5) .ok), .at 2 .aTryWrite,
   .call 1 (.endSession 7), .at 1 .aReadUnlock, .at 1 .ret,
   .call 2 (.commit (natCS 0 5) .ok), .at 2 .aWrite1, .at 2 .aWrite2, .at 2 .chkPoison, .at 2 .mLock, .at 2 .chkRoot,
   .at 2 .pubRoot, .at 2 .mUnlock, .at 2 .logPush, .at 2 .store, .at 2 .aWriteUnlock, .at 2 .ret,
   .call 3 (.commit (natCS 0 6) .ok), .at 3 .aWrite1, .at 3 .aWrite2, .at 3 .chkPoison, .at 3 .mLock, .at 3 .chkRoot,
   .at 3 .mUnlock, .at 3 .aWriteUnlock, .at 3 .ret,
   .call 3 (.rollback 1 .ok), .at 3 .aWrite1, .at 3 .aWrite2, .at 3 .chkPoison, .at 3 .logPop, .at 3 .mLock,
   .at 3 .readRoot, .at 3 .mUnlock, .at 3 .chkPoison, .at 3 .mLock, .at 3 .chkSeen, .at 3 .pubRb, .at 3 .mUnlock,
   .at 3 .storeRb, .at 3 .aWriteUnlock, .at 3 .ret]

set_option maxRecDepth 8192 in
example : accepted (replay natOps (init (natDb 0)) exLog).2 = true := by decide
set_option maxRecDepth 8192 in
example : let r := replay natOps (init (natDb 0)) exLog
    r.1.doneRes.reverse = [.ok, .errStale, .ok] ∧ r.1.db.root = 0 ∧ r.1.db.content = 0 ∧ r.1.db.log = [] ∧
    r.2.getLast? = some (.finished .ok) ∧ r.2[7]? = some (.finished .busy) ∧ r.2[31]? = some (.finished .errStale) := by
  decide
set_option maxRecDepth 8192 in
/-- `T15_recorded_final_state` used: the final state of the recorded log is the sequential run of its three sections -/
example : specRun natOps (natDb 0) (replay natOps (init (natDb 0)) exLog).1.doneOps.reverse =
    ((replay natOps (init (natDb 0)) exLog).1.db, [.ok, .errStale, .ok]) := by
  have := T15_recorded_final_state natOps (natDb 0) exLog (by decide)
    (by
      have hs := (replay_sound natOps (init (natDb 0)) exLog (by decide)).1
      intro t
      by_cases h1 : t = 1
      · subst h1; decide
      · by_cases h2 : t = 2
        · subst h2; decide
        · by_cases h3 : t = 3
          · subst h3; decide
          · rw [hs, run_thr_other natOps _ _ t (by
              intro e he
              have : e.tid = 1 ∨ e.tid = 2 ∨ e.tid = 3 := by
                revert e; decide
              rcases this with h | h | h <;> rw [h] <;> first | exact fun x => h1 x.symm | exact fun x => h2 x.symm | exact fun x => h3 x.symm)]
            rfl)
  have hr : (replay natOps (init (natDb 0)) exLog).1.doneRes.reverse = [.ok, .errStale, .ok] := by decide
  rw [hr] at this; exact this

/-- a log the replay REJECTS: thread 2's blocking commit is recorded as having taken the write guard while session 7 is
live — the model says that step is blocked (a recorder that showed this would have caught the real lock, or the model,
being wrong) -/
example : (replay natOps (init (natDb 0))
    [.call 1 (.beginSession 7), .at 1 .aRead, .call 2 (.commit (natCS 0 5) .ok), .at 2 .aWrite1, .at 2 .aWrite2]).2
    = [.started, .ran, .started, .ran, .blocked] := by decide

/-- … and one whose result differs: a stale changeset recorded as published (the model's next step after the failed
root check is the unwinding `M.unlock`, not `pub_root`) -/
example : (replay natOps (init (natDb 3))
    [.call 1 (.commit (natCS 0 5) .ok), .at 1 .aWrite1, .at 1 .aWrite2, .at 1 .chkPoison, .at 1 .mLock, .at 1 .chkRoot,
     .at 1 .pubRoot]).2.getLast? = some (.wrongStep .mUnlock) := by decide

/-- the spurious `try_write` failure: thread 2 is queued behind thread 1's write guard; thread 1 releases; before thread
2 is scheduled thread 3's `try_write` fails although nobody holds the lock -/
example : (replay natOps (init (natDb 0))
    [.call 1 (.commit (natCS 0 5) .ok), .at 1 .aWrite1, .at 1 .aWrite2, .call 2 (.commit (natCS 0 6) .ok),
     .call 3 (.tryCommit (natCS 0 7) .ok), .at 1 .chkPoison, .at 1 .mLock, .at 1 .chkRoot, .at 1 .pubRoot, .at 1 .mUnlock,
     .at 1 .logPush, .at 1 .store, .at 1 .aWriteUnlock, .spur 3 2, .at 2 .aWrite1]).2.drop 13
    = [.finished .busy, .ran] := by decide

end Nomt.C15
