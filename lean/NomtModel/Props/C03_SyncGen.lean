import NomtModel.Props.C03_Order
import NomtModel.Store.SyncGenToy
/-!
# C03 — the recovery `Nomt::open` performs, as a program, is accepted by the recovery order monitor

`Store/SyncGenRec.lean` writes the I/O choreography of the recovery (`bitbox::DB::open` → `recover`, then
`Rollback::read` → `seglog::open`) down: one thread; redo every table page the redo log names (any number), fsync the
table, truncate + fsync the redo log (or only truncate + fsync a stale log, or nothing), unlink the rollback segments
outside the live range (any number), truncate + fsync the head segment.

* T3_recovery_program_accepted — for every parameter choice the trace is accepted by `checkRecoveryOrder`.
* T3_recovery_program_idempotent — hence (T3.5) every crash / power-loss image of every prefix of every recovery the
  choreography allows recovers to the state of the image recovery started from (nested crashes at any depth).
* T3_recovery_program_member_sound — the membership check run on every recorded recovery trace.
* T3_recovery_program_table_fsync_needed — without the table fsync (the code before F17 was repaired) the monitor rejects.
-/
namespace Nomt.C03
open NomtDisk Nomt.Store
variable {Content MetaRec WalRec LogRec TreeAbs : Type} (P : NomtDisk.Params Content MetaRec WalRec TreeAbs)

/-- T3.7 **the recovery choreography is accepted by the recovery order monitor**, for every number and placement of
redone table pages (`ht.recover.write`, `ht.recover.write_meta`), every list of unlinked segments, with or without a head
segment (whose name is not the name of a store file: `R.WF`), and in the three cases of the redo log (absent / stale /
belonging to the manifest's sync): the redo log is truncated only after the table fsync that follows the last redone
page has completed. -/
theorem T3_recovery_program_accepted (R : SyncGen.RecParams) (hwf : R.WF) :
    ∃ st, checkRecoveryOrder (SyncGen.recLines {} R) = .ok st :=
  SyncGen.recovery_accepted R hwf

/-- non-vacuity: `Toy.exR` redoes three table pages, unlinks one segment and truncates the head. -/
example : SyncGen.Toy.exR.WF ∧ (checkRecoveryOrder (SyncGen.recLines {} SyncGen.Toy.exR)).toBool = true ∧
    (SyncGen.recLines {} SyncGen.Toy.exR).length = 18 :=
  ⟨SyncGen.Toy.exR_wf, SyncGen.Toy.exR_accepted, by decide⟩

/-- T3.8 **every image of every prefix of every recovery the choreography allows recovers to the state recovery started
from.**  `d` is a crash image whose redo log `w` carries the sequence number of its meta page; the recovery trace is the
choreography's (no acceptance by the monitor is assumed: T3.7 provides it); its abstracted effects satisfy the content
clauses (table writes replay `w`; pruning outside the live range).  Then every image — durable part plus any sub-list of
the volatile effects — of every prefix abstracts to the state of `d`, with `d`'s redo log or none: the statement applies
again to the recovery of that image. -/
theorem T3_recovery_program_idempotent (L : LogParams MetaRec LogRec) (C : Contents Content MetaRec WalRec)
    (R : SyncGen.RecParams) (hwf : R.WF)
    (d : Disk Content MetaRec WalRec LogRec) (w : WalRec) (hw : d.wal = some w) (hs : P.walSeqn w = P.seqn d.mt)
    (hcont : cAll (contChk (AllowedPreL' P L d) (contPostL P L d d.mt w)) 2 (cinit d)
      (absTrace C { phase := 2, walWritten := true } 0 (SyncGen.recLines {} R))) :
    ∀ cp, cp <+: absTrace C { phase := 2, walWritten := true } 0 (SyncGen.recLines {} R) → ∀ img,
      IsCImage (crun (cinit d) cp) img → absOfL P L img = absOfL P L d ∧ (img.wal = d.wal ∨ img.wal = none) := by
  obtain ⟨st, hacc⟩ := SyncGen.recovery_accepted R hwf
  exact T3_5_accepted_real_recovery_trace_idempotent P L C _ st hacc d w hw hs hcont

/-- non-vacuity of T3.8: the choreography's trace for "redo the table page of bucket 5" (then the table fsync, the
truncation of the redo log and its fsync) abstracts to `CToy.recGood`; every image of every prefix of its execution on the
toy crash image recovers to that image's state. -/
example :
    absTrace (LogRec := Nat) OToy.CR { phase := 2, walWritten := true } 0
      (SyncGen.recLines {} { wal := .redo [(5 * PAGE, PAGE, "ht.recover.write")] }) = CToy.recGood ∧
    (∀ cp, cp <+: absTrace (LogRec := Nat) OToy.CR { phase := 2, walWritten := true } 0
        (SyncGen.recLines {} { wal := .redo [(5 * PAGE, PAGE, "ht.recover.write")] }) → ∀ img,
      IsCImage (crun (cinit Toy.dR) cp) img → absOfL Toy.P Toy.L img = absOfL Toy.P Toy.L Toy.dR) := by
  have heq : absTrace (LogRec := Nat) OToy.CR { phase := 2, walWritten := true } 0
      (SyncGen.recLines {} { wal := .redo [(5 * PAGE, PAGE, "ht.recover.write")] }) = CToy.recGood := by rfl
  refine ⟨heq, ?_⟩
  intro cp hcp img himg
  have hcont : cAll (contChk (AllowedPreL' Toy.P Toy.L Toy.dR) (contPostL Toy.P Toy.L Toy.dR Toy.dR.mt Toy.w1)) 2
      (cinit Toy.dR) (absTrace (LogRec := Nat) OToy.CR { phase := 2, walWritten := true } 0
        (SyncGen.recLines {} { wal := .redo [(5 * PAGE, PAGE, "ht.recover.write")] })) := by
    rw [heq]; exact CToy.recGood_cont
  exact (T3_recovery_program_idempotent Toy.P Toy.L OToy.CR { wal := .redo [(5 * PAGE, PAGE, "ht.recover.write")] }
    (SyncGen.RecParams.wfB_sound _ (by decide)) Toy.dR Toy.w1 rfl rfl hcont cp hcp img himg).1

/-- T3.9 **soundness of the membership check the driver runs on every recorded recovery trace**: a trace it accepts IS
the choreography's trace for the parameters read off it, hence (well-formed parameters) accepted by the monitor. -/
theorem T3_recovery_program_member_sound (R : SyncGen.RecParams) (tr : List IoEv2)
    (h : SyncGen.recMemberOf {} R tr = true) (hwf : R.wfB = true) :
    tr = SyncGen.recLines {} R ∧ ∃ st, checkRecoveryOrder tr = .ok st := by
  have heq := SyncGen.recMemberOf_sound {} R tr h
  exact ⟨heq, by rw [heq]; exact SyncGen.recovery_accepted R (SyncGen.RecParams.wfB_sound R hwf)⟩

example : SyncGen.recMemberOf {} (SyncGen.recParamsOf (SyncGen.recLines {} SyncGen.Toy.exR))
    (SyncGen.recLines {} SyncGen.Toy.exR) = true := SyncGen.Toy.exR_roundtrip

/-- T3.10 **the table fsync is needed** (defect F17, kernel-checked): the recovery program without the table fsync
generates, for `Toy.exR`, a trace `checkRecoveryOrder` rejects (the redo log is truncated while a redone page is not
durable); with it the trace is accepted. -/
theorem T3_recovery_program_table_fsync_needed :
    (checkRecoveryOrder (SyncGen.recLines SyncGen.Toy.noRecFsync SyncGen.Toy.exR)).toBool = false ∧
    (checkRecoveryOrder (SyncGen.recLines {} SyncGen.Toy.exR)).toBool = true :=
  ⟨SyncGen.Toy.noRecFsync_rejected, SyncGen.Toy.exR_accepted⟩

end Nomt.C03
