import NomtModel.Store.ExtRangeToy
/-!
# C01 — the multi-worker stage produces the sequential content; the two seeded one-line changes do not

`Toy.stage cfg level changes workers rev burst` runs the mirror of the whole stage (`prepare_workers`, the worker LTS
under a schedule policy, `apply_*_changes`, `filter_*_changeset`, the effect on the level) with the toy node updater
(`Store/ExtRangeToy.lean`: nodes of at most 4 keys, under-full below 2).  The flags `staleHigh` / `singleMerge` of `Cfg` are
the seeded changes `C01-branch-stage-stale-range-high` / `C01-branch-stage-single-merge` expressed in the mirror; the
`extrange` differential shows that the flagged mirror, instantiated with the real `BranchUpdater` mirror, answers exactly as
the PATCHED real code does (0 differences on 2 800 lines each).
-/
namespace Nomt.C01
open Nomt Nomt.ExtRange

/-- **T1.multiworker_content_partial** — kernel-checked instances (toy updater): for 1 … 5 workers and two opposite
schedule policies the content of the new level is the old content with the changes applied, on the two geometries that force
range extensions (an under-full last node + an emptied first node of the right worker + a granted unchanged range + a second
merge; a merge that splits and needs a second merge).  The general statement (for the real updaters, every schedule) is
decided by the differential + oracles of `extrange`; what is proved for every schedule is the protocol layer (C13). -/
theorem T1_multiworker_content_partial :
    ([1, 2, 3, 4, 5].all fun n => [(false, 1000), (true, 1)].all fun p =>
      ((Toy.stage {} Toy.lvlA Toy.csA n p.1 p.2).map fun r => r.1.flatten) == some (Toy.specKeys Toy.lvlA Toy.csA)) = true ∧
    ([1, 2, 3].all fun n => [(false, 1000), (true, 1)].all fun p =>
      ((Toy.stage {} Toy.lvlB Toy.csB n p.1 p.2).map fun r => r.1.flatten) == some (Toy.specKeys Toy.lvlB Toy.csB)) = true := by
  constructor <;> decide +kernel

/-- **T1.seeded_stale_range_high_counterexample** — the mirror with `range.high` read once before the final merge loop
(seeded change `C01-branch-stage-stale-range-high`), two workers, both schedule policies: after the right worker granted the
unchanged range `[30, 50)` the left worker's second merge (cutoff 40 < 50) is compared with the stale bound 20, a second
extension is requested, and the node `[40, 41, 42]` stays in the level BETWEEN the nodes `[33, 50, 51, 52]` and `[53]`: the
level is not ascending any more (keys 50 … 52 are not found by a lookup), although no panic site is reached and the content
as a multiset is complete.  The code as it is gives the ascending level on the same input. -/
theorem T1_seeded_stale_range_high_counterexample :
    (Toy.stage { staleHigh := true } Toy.lvlA Toy.csA 2 false 1000).map (·.1) =
      some [[10, 30, 31, 32], [33, 50, 51, 52], [40, 41, 42], [53]] ∧
    (Toy.stage { staleHigh := true } Toy.lvlA Toy.csA 2 true 1).map (·.1) =
      some [[10, 30, 31, 32], [33, 50, 51, 52], [40, 41, 42], [53]] ∧
    (Toy.stage {} Toy.lvlA Toy.csA 2 false 1000).map (·.1) = some [[10, 30, 31, 32], [33, 40, 41, 42], [50, 51, 52, 53]] ∧
    (Toy.stage { staleHigh := true } Toy.lvlA Toy.csA 1 false 1000).map (·.1) =
      some [[10, 30, 31, 32], [33, 40, 41, 42], [50, 51, 52, 53]] := by
  refine ⟨?_, ?_, ?_, ?_⟩ <;> decide +kernel

/-- **T1.seeded_single_merge_counterexample** — the mirror with `while let NeedsMerge` replaced by one merge (seeded change
`C01-branch-stage-single-merge`): `[10] + [20, 21, 22, 23]` splits into `[10, 20, 21, 22]` and the under-full remainder
`[23]`, whose second merge is dropped: key 23 is in no node of the new level (and the page of `[20 … 23]` is freed).  One
worker suffices; with two workers the same happens at the end of each worker's range. -/
theorem T1_seeded_single_merge_stage_counterexample :
    (Toy.stage { singleMerge := true } Toy.lvlB Toy.csB 1 false 1000) =
      some ([[10, 20, 21, 22], [30, 31, 32]], [Pn.old 1, Pn.old 2]) ∧
    (Toy.stage {} Toy.lvlB Toy.csB 1 false 1000) =
      some ([[10, 20, 21, 22], [23, 30, 31, 32]], [Pn.old 1, Pn.old 2, Pn.old 3]) ∧
    Toy.specKeys Toy.lvlB Toy.csB = [10, 20, 21, 22, 23, 30, 31, 32] := by
  refine ⟨?_, ?_, ?_⟩ <;> decide +kernel

/-! ## non-vacuity -/

/-- the toy run of `T1_multiworker_content_partial` really uses the protocol: with two workers the freed pages include the
page of the node the right worker emptied and handed over -/
example : (Toy.stage {} Toy.lvlA Toy.csA 2 false 1000).map (·.2) =
    some [Pn.old 1, Pn.old 2, Pn.old 3, Pn.old 4, Pn.old 5] := by decide +kernel

end Nomt.C01
