import NomtModel.Store.ExtRangeToy
import NomtModel.Store.ExtRangeLaws
/-!
# C01 — the multi-worker stage produces the sequential content; the two seeded one-line changes do not

`Toy.stage cfg level changes workers rev burst` runs the mirror of the whole stage (`prepare_workers`, the worker LTS
under a schedule policy, `apply_*_changes`, `filter_*_changeset`, the effect on the level) with the toy node updater
(`Store/ExtRangeToy.lean`: nodes of at most 4 keys, under-full below 2).  The flags `staleHigh` / `singleMerge` of `Cfg` are
the seeded changes `C01-branch-stage-stale-range-high` / `C01-branch-stage-single-merge` expressed in the mirror; the
`extrange` differential shows that the flagged mirror, instantiated with the real `BranchUpdater` mirror, answers exactly as
the PATCHED real code does (0 differences on 2 800 lines each).
-/
namespace Nomt.C01
open Nomt Nomt.ExtRange

/-- **T1.multiworker_content_partial** — kernel-checked instances (toy updater): for 1 … 5 workers and two opposite
schedule policies the content of the new level is the old content with the changes applied, on the two geometries that force
range extensions (an under-full last node + an emptied first node of the right worker + a granted unchanged range + a second
merge; a merge that splits and needs a second merge).  The general statement (for the real updaters, every schedule) is
decided by the differential + oracles of `extrange`; what is proved for every schedule is the protocol layer (C13). -/
theorem T1_multiworker_content_partial :
    ([1, 2, 3, 4, 5].all fun n => [(false, 1000), (true, 1)].all fun p =>
      ((Toy.stage {} Toy.lvlA Toy.csA n p.1 p.2).map fun r => r.1.flatten) == some (Toy.specKeys Toy.lvlA Toy.csA)) = true ∧
    ([1, 2, 3].all fun n => [(false, 1000), (true, 1)].all fun p =>
      ((Toy.stage {} Toy.lvlB Toy.csB n p.1 p.2).map fun r => r.1.flatten) == some (Toy.specKeys Toy.lvlB Toy.csB)) = true := by
  constructor <;> decide +kernel

/-- **T1.seeded_stale_range_high_counterexample** — the mirror with `range.high` read once before the final merge loop
(seeded change `C01-branch-stage-stale-range-high`), two workers, both schedule policies: after the right worker granted the
unchanged range `[30, 50)` the left worker's second merge (cutoff 40 < 50) is compared with the stale bound 20, a second
extension is requested, and the node `[40, 41, 42]` stays in the level BETWEEN the nodes `[33, 50, 51, 52]` and `[53]`: the
level is not ascending any more (keys 50 … 52 are not found by a lookup), although no panic site is reached and the content
as a multiset is complete.  The code as it is gives the ascending level on the same input. -/
theorem T1_seeded_stale_range_high_counterexample :
    (Toy.stage { staleHigh := true } Toy.lvlA Toy.csA 2 false 1000).map (·.1) =
      some [[10, 30, 31, 32], [33, 50, 51, 52], [40, 41, 42], [53]] ∧
    (Toy.stage { staleHigh := true } Toy.lvlA Toy.csA 2 true 1).map (·.1) =
      some [[10, 30, 31, 32], [33, 50, 51, 52], [40, 41, 42], [53]] ∧
    (Toy.stage {} Toy.lvlA Toy.csA 2 false 1000).map (·.1) = some [[10, 30, 31, 32], [33, 40, 41, 42], [50, 51, 52, 53]] ∧
    (Toy.stage { staleHigh := true } Toy.lvlA Toy.csA 1 false 1000).map (·.1) =
      some [[10, 30, 31, 32], [33, 40, 41, 42], [50, 51, 52, 53]] := by
  refine ⟨?_, ?_, ?_, ?_⟩ <;> decide +kernel

/-- **T1.seeded_single_merge_counterexample** — the mirror with `while let NeedsMerge` replaced by one merge (seeded change
`C01-branch-stage-single-merge`): `[10] + [20, 21, 22, 23]` splits into `[10, 20, 21, 22]` and the under-full remainder
`[23]`, whose second merge is dropped: key 23 is in no node of the new level (and the page of `[20 … 23]` is freed).  One
worker suffices; with two workers the same happens at the end of each worker's range. -/
theorem T1_seeded_single_merge_stage_counterexample :
    (Toy.stage { singleMerge := true } Toy.lvlB Toy.csB 1 false 1000) =
      some ([[10, 20, 21, 22], [30, 31, 32]], [Pn.old 1, Pn.old 2]) ∧
    (Toy.stage {} Toy.lvlB Toy.csB 1 false 1000) =
      some ([[10, 20, 21, 22], [23, 30, 31, 32]], [Pn.old 1, Pn.old 2, Pn.old 3]) ∧
    Toy.specKeys Toy.lvlB Toy.csB = [10, 20, 21, 22, 23, 30, 31, 32] := by
  refine ⟨?_, ?_, ?_⟩ <;> decide +kernel

/-- the entries of the level the stage leaves, left to right -/
def levelEntries {N V : Type} (items : N → List (Nat × V)) (lvl : List (OutN N)) : List (Nat × V) :=
  lvl.flatMap fun o => match o with | .old d => items d.node | .new _ nd _ => items nd

/-- the sequential specification: every change replaces / removes / adds the entry of its key -/
def specEntries {C V : Type} (put : Nat → C → Option (Nat × V)) (old : List (Nat × V)) (cs : List (Nat × C)) :
    List (Nat × V) :=
  cs.foldl (fun acc c => acc.filter (fun e => e.1 != c.1) ++ (put c.1 c.2).toList) old

/-- FULL statement wanted — `T1_multiworker_content` (NOT proved): for every updater that satisfies `UpdLaws`, every
well-formed level, ascending change list, worker count, EVERY complete schedule and every completion order of the workers:
the stage does not panic in `filter_*_changeset`, the entries of the new level are a permutation of the sequential
specification, and the separators of the new level ascend with every node's keys between its separator and the next.
`T13_result_schedule_independent` / `T13_worker_count_independent` at content level are corollaries (the right-hand side
mentions neither the schedule nor the worker count).

What IS proved towards it, for every schedule: the protocol layer (`T13_protocol_invariant_every_schedule`,
`T13_no_deadlock`, `T16_ranges_adjacent_every_schedule`), the phase structure (`T13_no_extension_in_scope_loop_every_schedule`),
the key order of the trackers (`T13_tracker_keys_ascend_every_schedule`: no produced node is overwritten), the stability of
answers (`T13_answer_stable`) and the conservation of entries by a hand-over (`T19_answer_conserves_entries`,
`T19_pending_base_page_freed_once`).  What is MISSING (each needs the order of the separators against the ranges, i.e. an
invariant of the size of the one-worker `RS` invariant of `Store/BranchUpdRun.lean`, for all workers at once):
(1) `reset_*_base_fresh(key)` of worker `i` only ever deletes a node whose separator lies in `[range.low, range.high)` of `i`
at that moment, and not twice — so every base is consumed by exactly one worker (`T19_multiworker_freed_once`);
(2) when a change is ingested the node that holds its key is the current base of that updater (the ops of a worker stay
inside its initial range: proved; the base chain is contiguous: not proved);
(3) `inner.extend(response.changed)` never meets an equal key (the received separators are `≥` the requester's old
`range.high`, its own are below);
(4) the laws themselves for `LeafUpdater` / `BranchUpdater`: they hold on the states `run_worker` reaches (ascending keys
ingested in scope), not on all states — `UpdLaws` has to be relativised to a well-formedness predicate of the updater state
that the existing one-worker invariants (`LeafUpd.Inv`, `BranchUpd.RS`) provide per run, not per call. -/
def MultiworkerContent {σ N C V : Type} (U : Upd σ N C) (items : N → List (Nat × V))
    (put : Nat → C → Option (Nat × V)) (look : List (DbN N) → Nat → Option Nat) : Prop :=
  ∀ (cfg : Cfg), cfg.staleHigh = false → cfg.singleMerge = false → cfg.highMax = false →
  ∀ (db : List (DbN N)) (cs : List (Nat × C)) (count : Nat) (s order : List Nat) (g : G σ N C),
    (db.map (·.sep)).Pairwise (· < ·) →
    (∀ d ∈ db, ((items d.node).map (·.1)).Pairwise (· < ·) ∧ ∀ e ∈ items d.node, d.sep ≤ e.1) →
    (cs.map (·.1)).Pairwise (· < ·) → cs ≠ [] →
    runSched U cfg db s (initG U cfg db cs (prepareWorkers (look db) (cs.map (·.1)) count)) = .inr g →
    allDone g = true → order.Perm (List.range g.n) →
    ∃ changes freed, assemble cfg g order = some (changes, freed) ∧
      (levelEntries items (applyCs (db.map OutN.old) changes)).Perm
        (specEntries put (db.flatMap fun d => items d.node) cs) ∧
      ((applyCs (db.map OutN.old) changes).map OutN.sep).Pairwise (· < ·)

/-! ## non-vacuity -/

/-- the toy run of `T1_multiworker_content_partial` really uses the protocol: with two workers the freed pages include the
page of the node the right worker emptied and handed over -/
example : (Toy.stage {} Toy.lvlA Toy.csA 2 false 1000).map (·.2) =
    some [Pn.old 1, Pn.old 2, Pn.old 3, Pn.old 4, Pn.old 5] := by decide +kernel

end Nomt.C01
