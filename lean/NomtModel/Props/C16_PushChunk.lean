import NomtModel.Store.PushChunkExamples
import NomtModel.Store.PushChunkSeq
import NomtModel.Store.PushChunkBridge
import NomtModel.Props.C16_GenFn
/-!
# C16 / C01 (topic: the branch-node encoder as a whole — `BranchNodeBuilder::{new, push, push_chunk}` read back by `get_key`)

Closes the gap "the whole-`push_chunk` round trip is not a theorem".  The mirror is the byte-level one of
`Store/BitOpsBuilder.lean` (`builderNew`, `builderPush`, `builderPushChunk`: same loops, same slices, every
`bitwise_memcpy` call with the Rust's range arithmetic), tied byte for byte to the real builder by `vharness bitops` /
`vharness pushchunk-branch`; the decoder is the mirror of the REAL read path `get_key` = `raw_prefix` + `raw_separator` +
`reconstruct_key` (`Store/BitOpsNode.lean`) and of `node_pointer`.  Only property theorems and non-vacuity examples.
-/
namespace Nomt.C16
open Nomt Nomt.BitOps

/-- T16.pc-1 **`set_prefix`** — also where it calls `bitwise_memcpy` OUTSIDE its contract (the whole 32-byte key as
source, `0 < prefix_len ≤ 192`: four source chunks where fewer are needed, `T16_set_prefix_outside_contract`): on a page
whose header says `n` items and `pl ≤ 256` prefix bits, with the destination slice inside the page, it does not panic,
the `pl` prefix bits of the page are the first `pl` bits of the key, and no byte outside the slice
`[10 + 2n, 10 + 2n + round_up_8(⌈pl/8⌉))` changes. -/
theorem T16_set_prefix_rt (pg key : List Nat) (n pc pl : Nat) (cell : Nat → Nat) (L : Lay pg n pc pl cell 0) (hk : Bytes key)
    (hkl : key.length = 32) (hpl : pl ≤ 256) (hroom : 10 + n * 2 + ((pl + 7) / 8 + 7) / 8 * 8 ≤ 4096) :
    ∃ pg', setPrefix pg key = some pg' ∧ pg'.length = pg.length ∧ Bytes pg' ∧
      (∀ p, p < pl → bitOf pg' (8 * (10 + n * 2) + p) = bitOf key p) ∧
      (∀ i, (i < 10 + n * 2 ∨ 10 + n * 2 + ((pl + 7) / 8 + 7) / 8 * 8 ≤ i) → pg'.getD i 0 = pg.getD i 0) :=
  setPrefix_spec pg key n pc pl cell L hk hkl hpl hroom

example : ¬ MemcpyGuard 8 0 32 0 40 ∧ (setPrefix (exNewBuilder 40).page (key2 0xAB 0x40)).isSome = true ∧
    ((setPrefix (exNewBuilder 40).page (key2 0xAB 0x40)).map fun pg' => bitOf pg' (8 * (10 + 2 * 2) + 9)) = some true := by decide +kernel

/-- T16.pc-2 **`T16_branch_push_chunk_rt`: the whole `push_chunk(base, from, to, updated)`** on any builder state.
Hypotheses (`ChunkPre`): the builder's page has the header `new` wrote and the cells of the `index` items pushed so far,
`separator_bit_offset` being the last of them; the base node has a header, non-decreasing cells and fits its page
(`body_size ≤ BRANCH_NODE_BODY_SIZE`), its keys in the range are at most 256 bits; the range is NON-EMPTY (forced:
an empty range with equal prefix lengths panics in `raw_separators_data(0, 0)` when `from = 0` or `index = 0`, see
`T16_push_chunk_empty_range`), inside the base and inside the base's prefix-compressed items (the comment on
`push_chunk`; NOT asserted by the code); `index + n_items ≤ prefix_compressed ≤ n` of the new node (the `assert!`); the
capacity bound of the new node counts the chunk's bits as `push_chunk` writes them (`cellSum` — equal to what
`BranchGauge` counted unless the chunk starts with a first separator shorter than the base prefix under a shorter new
prefix, finding F22's shape, `T16_push_chunk_not_bytewise`); `updated` addresses items of the node; and every key of
the chunk starts with the new node's prefix — for ANY new prefix length, longer, equal or shorter than the base's.
Conclusion: no panic (every slice in range, every `bitwise_memcpy` call inside its contract except `set_prefix`'s, which is
covered by T16.pc-1, `u16::try_from` succeeds); `index` and `separator_bit_offset` advance by the chunk; the page keeps
header and earlier cells, the new cells are the base's lengths with the prefix difference applied; **`get_key(new, index + k)
= get_key(base, from + k)` for every `k`** — `push_chunk(base, from, to)` ≡ `for i in from..to { push(get_key(base, i), …) }`
on the decoded node; the node pointer of a copied item is the base's, or the `updated` one; an earlier or later pointer
changes only if `updated` names it; and no bit an earlier item is decoded from (cells in front of `index`, prefix,
separator bits in front of `separator_bit_offset`) changes. -/
theorem T16_branch_push_chunk_rt (b : Builder) (base : List Nat) (frm to : Nat) (updated : List (Nat × Nat))
    (nN pcN plN : Nat) (cOld : Nat → Nat) (nB pcB plB : Nat) (cB : Nat → Nat) (lastN lastB : Nat)
    (H : ChunkPre b base frm to updated nN pcN plN cOld nB pcB plB cB lastN lastB) :
    ∃ b', builderPushChunk b base frm to updated = some b' ∧
      b'.index = b.index + (to - frm) ∧
      b'.sepBitOffset = b.sepBitOffset + cellSum cB frm (extOf plN plB) (diffOf plN plB) (to - frm) ∧
      b'.prefixLen = b.prefixLen ∧ b'.prefixCompressed = b.prefixCompressed ∧
      Lay b'.page nN pcN plN (newCells cOld cB b.index b.sepBitOffset frm (extOf plN plB) (diffOf plN plB)) (b.index + (to - frm)) ∧
      prevCell (newCells cOld cB b.index b.sepBitOffset frm (extOf plN plB) (diffOf plN plB)) (b.index + (to - frm)) =
        b.sepBitOffset + cellSum cB frm (extOf plN plB) (diffOf plN plB) (to - frm) ∧
      (∀ k, k < to - frm → getKey b'.page (b.index + k) = getKey base (frm + k)) ∧
      (∀ k, k < to - frm → ptrVal b'.page nN (b.index + k) =
        updFun b.index updated (fun j => ptrVal base nB (frm + (j - b.index))) (b.index + k)) ∧
      (b.index ≠ 0 → ∀ j, j < nN → ¬ (b.index ≤ j ∧ j < b.index + (to - frm)) →
        ptrVal b'.page nN j = updFun b.index updated (ptrVal b.page nN) j) ∧
      (b.index ≠ 0 → ∀ p, (p < 8 * (10 + 2 * b.index) ∨ (8 * (10 + nN * 2) ≤ p ∧ p < 8 * (10 + nN * 2) + plN + b.sepBitOffset)) →
        bitOf b'.page p = bitOf b.page p) :=
  builderPushChunk_spec b base frm to updated nN pcN plN cOld nB pcB plB cB lastN lastB H

/-- non-vacuity: items 1, 2 of the three-item base `exBaseNode` (prefix `0xAB`, 8 bits) into a fresh node with a
4-bit prefix (prefix extension by 4 bits), one `updated` page number -/
theorem exChunkPre : ChunkPre (exNewBuilder 4) exBaseNode 1 3 [(1, 77)] 2 2 4 (fun _ => 0) 3 3 8 exBaseCells 14 8 where
  LN := ⟨bytes_of_all _ (by decide +kernel), by decide +kernel, by decide +kernel, by decide +kernel, by decide +kernel,
    by decide +kernel⟩
  hoff := by decide +kernel
  LB := ⟨bytes_of_all _ (by decide +kernel), by decide +kernel, by decide +kernel, by decide +kernel, by decide +kernel,
    by decide +kernel⟩
  monoB := by decide
  hlastB := by decide
  FB := ⟨by decide, by decide, by decide, by decide⟩
  itemB := by
    intro i h1 h2
    have : i = 1 ∨ i = 2 := by omega
    rcases this with rfl | rfl <;> decide
  hft := by decide
  hto := by decide
  hpcB := by decide
  hpcN := by decide +kernel
  hpcnN := by decide
  FN := ⟨by decide, by decide, by decide, by decide⟩
  hcp := by decide +kernel
  hupd := by decide +kernel
  hpre := by decide +kernel

example : ∃ b', builderPushChunk (exNewBuilder 4) exBaseNode 1 3 [(1, 77)] = some b' ∧
    (getKey b'.page 0 = getKey exBaseNode 1 ∧ getKey b'.page 1 = getKey exBaseNode 2 ∧
    nodeCell b'.page 0 = some 6 ∧ nodeCell b'.page 1 = some 14 ∧ nodePointer b'.page 0 = some 7 ∧ nodePointer b'.page 1 = some 77) :=
  ex_of_isSome (x := runR1) _ runR1_some
    ⟨runR1_k0.trans exBase_k1.symm, runR1_k1.trans exBase_k2.symm, runR1_cells.1, runR1_cells.2, runR1_ptrs.1, runR1_ptrs.2⟩

/-- T16.pc-3 **the whole `push(key, separator_len, pn)`** on the same mirror and in the same terms (`PushPre`: header and
earlier cells, `index < n`, `separator_len ≤ 256` and not shorter than the key, capacity, a compressed key starts with
the node's prefix): no panic, the cell is `separator_bit_offset + stored length`, **`get_key(new, index) = key`**,
`node_pointer(index) = pn`, nothing an earlier item is decoded from changes.  With T16.pc-2 and T16.pc-4: after ANY
sequence of `push` / `push_chunk` calls meeting their preconditions, the node decodes through `get_key` / `node_pointer`
to exactly the concatenation of what was pushed. -/
theorem T16_branch_push_rt (b : Builder) (key : List Nat) (sepLen pn : Nat) (nN pcN plN : Nat) (cOld : Nat → Nat) (lastN : Nat)
    (H : PushPre b key sepLen pn nN pcN plN cOld lastN) :
    ∃ b', builderPush b key sepLen pn = some b' ∧ b'.index = b.index + 1 ∧
      b'.sepBitOffset = b.sepBitOffset + pushLen b.index pcN plN sepLen ∧
      b'.prefixLen = b.prefixLen ∧ b'.prefixCompressed = b.prefixCompressed ∧
      Lay b'.page nN pcN plN (fun i => if i < b.index then cOld i else b.sepBitOffset + pushLen b.index pcN plN sepLen) (b.index + 1) ∧
      getKey b'.page b.index = some key ∧ ptrVal b'.page nN b.index = pn ∧
      (b.index ≠ 0 → ∀ j, j < nN → j ≠ b.index → ptrVal b'.page nN j = ptrVal b.page nN j) ∧
      (b.index ≠ 0 → ∀ p, (p < 8 * (10 + 2 * b.index) ∨ (8 * (10 + nN * 2) ≤ p ∧ p < 8 * (10 + nN * 2) + plN + b.sepBitOffset)) →
        bitOf b'.page p = bitOf b.page p) :=
  builderPush_spec b key sepLen pn nN pcN plN cOld lastN H

theorem exPushPre : PushPre (exNewBuilder 8) (key2 0xAB 0x40) 10 5 2 2 8 (fun _ => 0) 6 where
  LN := ⟨bytes_of_all _ (by decide +kernel), by decide +kernel, by decide +kernel, by decide +kernel, by decide +kernel,
    by decide +kernel⟩
  hoff := by decide +kernel
  hbpl := by decide +kernel
  hbpc := by decide +kernel
  hidx := by decide +kernel
  FN := ⟨by decide, by decide, by decide, by decide⟩
  hk := bytes_of_all _ (by decide +kernel)
  hkl := by decide
  hsl := by decide
  hcp := by decide +kernel
  hpn := by decide
  hzero := by
    have : ∀ p, p < 256 → 10 ≤ p → bitOf (key2 0xAB 0x40) p = false := by decide +kernel
    exact fun p h1 h2 => this p h2 h1
  hpre := fun h => absurd (by decide +kernel) h

/-- T16.pc-4 what `push_chunk` leaves of an EARLIER item `j < index` (any item whose cells end in front of
`separator_bit_offset`): `get_key` returns the same key before and after the call. -/
theorem T16_branch_push_chunk_keeps (b : Builder) (base : List Nat) (frm to : Nat) (updated : List (Nat × Nat))
    (nN pcN plN : Nat) (cOld : Nat → Nat) (nB pcB plB : Nat) (cB : Nat → Nat) (lastN lastB : Nat)
    (H : ChunkPre b base frm to updated nN pcN plN cOld nB pcB plB cB lastN lastB) (j : Nat) (hj : j < b.index)
    (hN : NodeOK b.page nN pcN plN (prevCell cOld j) (cOld j) lastN j) (hle : cOld j ≤ b.sepBitOffset)
    (b' : Builder) (hb' : builderPushChunk b base frm to updated = some b') :
    getKey b'.page j = getKey b.page j :=
  pushChunk_keeps b base frm to updated nN pcN plN cOld nB pcB plB cB lastN lastB H j hj hN hle b' hb'

/-- a `push` followed by a `push_chunk` that is not the first call (so `set_prefix` is not re-run and the chunk lands
behind an existing separator): all three keys read back -/
example : ∃ b1, builderPush exNewBuilder3 (key2 0xAB 0x20) 11 4 = some b1 ∧
    ∃ b2, builderPushChunk b1 exBaseNode 1 3 [] = some b2 ∧
    (getKey b2.page 0 = some (key2 0xAB 0x20) ∧ getKey b2.page 1 = getKey exBaseNode 1 ∧ getKey b2.page 2 = getKey exBaseNode 2) :=
  ex_of_isSome (x := runR2) _ runR2_some (ex_of_isSome (x := runR3) _ runR3_some
    ⟨runR3_k0, runR3_k1.trans exBase_k1.symm, runR3_k2.trans exBase_k2.symm⟩)

/-- T16.pc-4a **any sequence of `new`, `push`, `push_chunk` calls.**  `BInv b n pc pl last cells keys` is the builder invariant:
the page has the header and the cells of the `index` items pushed so far, `separator_bit_offset` is the last cell, and
`keys[j] = get_key(page, j)` for every `j < index`.  `new` establishes it on ANY 4096-byte page (first part); if every call of
the list meets its precondition in the state it is made in (`RunOK`: `PushPre` / `ChunkPre`, for whatever cells describe that
state), the whole run does not panic and the invariant holds at the end for `keys ++` the pushed keys / the keys `get_key`
reads from each chunk's base range, in call order (second part) — so after the last call **`get_key(node, j)` is the `j`-th
key pushed, for every `j`** (third part: reading the invariant). -/
theorem T16_branch_builder_seq_rt :
    (∀ (pg : List Nat) (n pc pl last : Nat), Bytes pg → pg.length = 4096 → n < 65536 → pc < 65536 → pl < 65536 → Fit n pl last →
      ∃ b, builderNew pg n pc pl = some b ∧ BInv b n pc pl last (fun _ => 0) []) ∧
    (∀ (n pc pl last : Nat) (ops : List BOp) (b : Builder) (cells : Nat → Nat) (keys : List (Option (List Nat))),
      BInv b n pc pl last cells keys → RunOK n pc pl last b ops →
      ∃ b' cells', runOps ops b = some b' ∧ BInv b' n pc pl last cells' (keys ++ ops.flatMap opKeys)) ∧
    (∀ (b : Builder) (n pc pl last : Nat) (cells : Nat → Nat) (keys : List (Option (List Nat))), BInv b n pc pl last cells keys →
      keys.length = b.index ∧ ∀ j, j < b.index → keys[j]? = some (getKey b.page j)) :=
  ⟨fun pg n pc pl last hB hl hn hpc hpl F => BInv.new pg n pc pl last hB hl hn hpc hpl F,
   fun n pc pl last ops b cells keys I R => runOps_spec n pc pl last ops b cells keys I R,
   fun _ _ _ _ _ _ _ I => ⟨I.hlen, fun j hj => (I.items j hj).2.2.2⟩⟩

/-- non-vacuity: the invariant of a fresh builder and a one-call run (the chunk of `exChunkPre`) -/
example : BInv (exNewBuilder 4) 2 2 4 14 (fun _ => 0) [] ∧
    RunOK 2 2 4 14 (exNewBuilder 4) [BOp.chunk exBaseNode 1 3 [(1, 77)]] :=
  ⟨⟨exChunkPre.LN, exChunkPre.hoff, by decide, by decide, exChunkPre.FN, by decide, by decide, rfl,
     fun j hj => absurd hj (Nat.not_lt_zero j)⟩,
   RunOK.cons _ _ _
     (fun cOld hL ho => ⟨3, 3, 8, exBaseCells, 8, ⟨hL, ho, exChunkPre.LB, exChunkPre.monoB, exChunkPre.hlastB, exChunkPre.FB,
       exChunkPre.itemB, exChunkPre.hft, exChunkPre.hto, exChunkPre.hpcB, exChunkPre.hpcN, exChunkPre.hpcnN, exChunkPre.FN,
       exChunkPre.hcp, exChunkPre.hupd, exChunkPre.hpre⟩⟩)
     (fun b' _ => RunOK.nil b')⟩

/-- T16.pc-4c **which base nodes**: every page the branch encoder produces under the guard `branchOK` of the branch round trip
(`T16_rt_branch`: the pages `decodeBranch` reads back as `x` — any prefix / `prefix_compressed` split, separators shorter than
the prefix included) has what `ChunkPre` asks of the base node: the layout with the cells `sepEnd x`, non-decreasing cells bounded
by the total, the capacity bound `Fit`, and compressed separators of at most a key. -/
theorem T16_branch_chunk_base_of_encoder (x : Store.BranchIn) (hok : Store.branchOK x = true) :
    Lay (Store.pageNats x) x.items.length x.pc x.pl (Store.sepEnd x) x.items.length ∧
    (∀ i, i < x.items.length → prevCell (Store.sepEnd x) i ≤ Store.sepEnd x i) ∧
    (∀ i, i < x.items.length → Store.sepEnd x i ≤ Store.sumL (Store.storedLens x.pc x.pl x.items 0)) ∧
    Fit x.items.length x.pl (Store.sumL (Store.storedLens x.pc x.pl x.items 0)) ∧
    (∀ i, i < x.items.length → i < x.pc → x.pl + (Store.sepEnd x i - prevCell (Store.sepEnd x) i) ≤ 256) :=
  Store.base_of_branchOK x hok

example : Store.branchOK (Store.BranchIn.mk 7 2 4 [⟨0xA0 * 2 ^ 248, 3, 11⟩, ⟨0xAC * 2 ^ 248, 6, 12⟩, ⟨0xF0 * 2 ^ 248, 4, 13⟩]
    (List.replicate 32534 true)) = true := by
  decide +kernel

/-- T16.pc-4b **capacity from the gauge**: the hypothesis `Fit n pl last` of T16.pc-2 / T16.pc-3 is the builders' documented
precondition in the terms of the CURRENT source: `branch::node::body_size(prefix_len, total_separator_lengths, n)` (the
translated function, `T16_fn_branch_body_size`) is at most `BRANCH_NODE_BODY_SIZE = 4096 − 10`, for a node with at least one
item, no separator longer than a key and `prefix_len ≤ 256`.  So under the gauge's bound neither builder call has a panic site. -/
theorem T16_branch_fit_of_gauge (n pl last bs : Nat) (hg : GenFn.branch_body_size pl last n = some bs) (hbs : bs ≤ 4096 - 10)
    (hn : 1 ≤ n) (hn32 : n < 2 ^ 32) (hpl : pl ≤ 256) (hlast : last ≤ 256 * n) (hl32 : last < 2 ^ 32) : Fit n pl last := by
  have h := T16_fn_branch_body_size pl last n hn32 (by omega) hl32
  rw [h] at hg
  cases hg
  exact ⟨by omega, hlast, hpl, hn⟩

example : Fit 2 4 14 := T16_branch_fit_of_gauge 2 4 14 15 (by decide) (by decide) (by decide) (by decide) (by decide) (by decide) (by decide)

/-! ## the forced hypotheses, run on the mirror (the real builder at the same points: `vharness pushchunk-branch`) -/

/-- T16.pc-5 the EMPTY range: with equal prefix lengths (fast path) `push_chunk(base, from, from)` panics
(`raw_separators_data(0, 0)`: `to - 1` underflows) when the builder is empty or `from = 0`; with different prefix
lengths (`copy_and_shift_separators` returns on an empty range) it is a no-op.  The callers never pass one. -/
theorem T16_push_chunk_empty_range :
    builderPushChunk (exNewBuilder 8) exBaseNode 0 0 [] = none ∧
    builderPushChunk (exNewBuilder 8) exBaseNode 1 1 [] = none ∧
    (builderPushChunk (exNewBuilder 4) exBaseNode 0 0 []).isSome = true ∧
    (∃ b1, builderPush exNewBuilder3 (key2 0xAB 0x20) 11 4 = some b1 ∧
      (builderPushChunk b1 exBaseNode 0 0 [] = none ∧
       (builderPushChunk b1 exBaseNode 1 1 []).map (fun b => (b.index, b.sepBitOffset, nodeCell b.page 0)) =
         some (b1.index, b1.sepBitOffset, nodeCell b1.page 0) ∧
       (builderPushChunk b1 exBaseNode 1 1 []).map (fun b => getKey b.page 0) = some (some (key2 0xAB 0x20)))) :=
  ⟨runE1, runE2, runE3, ex_of_isSome (x := runR2) _ runR2_some
    ⟨runE4, by rw [runE5, runR2_view.1, runR2_view.2.1, runR2_view.2.2], runE5_k0⟩⟩

/-- T16.pc-6 finding F22's shape at the level of the builder: the base's first key is the zero key (`separator_len = 1`,
stored with 0 bits under the 8-bit prefix).  Rebuilt under a 4-bit prefix, `push_chunk` gives it `0 + 4` bits
(cells 4, 12), `push` of the same keys gives it `1 − 4 → 0` bits (cells 0, 8): the two nodes DECODE to the same keys
and pointers, but their cells (hence bytes) differ and the chunk-built one is 4 bits longer than `BranchGauge` counted — byte equality
`push_chunk ≡ push*` is false exactly here, which is why the repaired caller (`d4be933`) re-inserts such a separator. -/
theorem T16_push_chunk_not_bytewise :
    ∃ bc, builderPushChunk (exNewBuilder 4) exF22Base 0 2 [] = some bc ∧
      ∃ bp, ((builderPush (exNewBuilder 4) exZeroKey 1 5).bind fun b => builderPush b (key2 0 0x30) 12 7) = some bp ∧
      (getKey bc.page 0 = getKey bp.page 0 ∧ getKey bc.page 1 = getKey bp.page 1 ∧
      getKey bc.page 0 = getKey exF22Base 0 ∧ getKey bc.page 1 = getKey exF22Base 1 ∧
      nodePointer bc.page 0 = nodePointer bp.page 0 ∧ nodePointer bc.page 1 = nodePointer bp.page 1 ∧
      nodeCell bc.page 0 = some 4 ∧ nodeCell bp.page 0 = some 0 ∧ bc.sepBitOffset = 12 ∧ bp.sepBitOffset = 8) :=
  ex_of_isSome (x := runF1) _ runF1_some (ex_of_isSome (x := runF2) _ runF2_some
    ⟨runF1_k0.trans runF2_k0.symm, runF1_k1.trans runF2_k1.symm, runF1_k0.trans exF22_k0.symm, runF1_k1.trans exF22_k1.symm,
     runF1_ptrs.1.trans runF2_ptrs.1.symm, runF1_ptrs.2.trans runF2_ptrs.2.symm, runF1_cells.1, runF2_cells.1, runF1_cells.2,
     runF2_cells.2⟩)

/-! ## kernel-checked counterexamples: one-line mistakes in `push_chunk` -/

/-- `pushChunkMut .none` is the mirror itself -/
theorem T16_push_chunk_mut_none (b : Builder) (base : List Nat) (frm to : Nat) (updated : List (Nat × Nat)) :
    pushChunkMut .none b base frm to updated = builderPushChunk b base frm to updated :=
  pushChunkMut_none b base frm to updated

/-- T16.pc-7 the prefix difference taken with the wrong sign (`self.prefix_len − base.prefix_len`): under a SHORTER new
prefix the separators lose bits instead of gaining the carried prefix bits (both keys read back as `A0 00…`), under a
LONGER one they gain garbage (`AB F0…`, `AB F4…`), where the code as it is returns the base's keys -/
theorem T16_push_chunk_sign_cex :
    (∃ b', pushChunkMut .signFlip (exNewBuilder 4) exBaseNode 1 3 [] = some b' ∧
      (getKey b'.page 0 ≠ getKey exBaseNode 1 ∧ getKey b'.page 1 ≠ getKey exBaseNode 2)) ∧
    (∃ b', pushChunkMut .signFlip (exNewBuilder 9) exBaseNode 1 3 [] = some b' ∧
      (getKey b'.page 0 ≠ getKey exBaseNode 1 ∧ getKey b'.page 1 ≠ getKey exBaseNode 2)) ∧
    (∃ b', builderPushChunk (exNewBuilder 9) exBaseNode 1 3 [] = some b' ∧
      (getKey b'.page 0 = getKey exBaseNode 1 ∧ getKey b'.page 1 = getKey exBaseNode 2)) :=
  ⟨ex_of_isSome (x := runS1) _ runS1_some
      ⟨by rw [runS1_k0, exBase_k1]; exact key2_ne _ _ _ _ (by decide), by rw [runS1_k1, exBase_k2]; exact key2_ne _ _ _ _ (by decide)⟩,
   ex_of_isSome (x := runS2) _ runS2_some
      ⟨by rw [runS2_k0, exBase_k1]; exact key2_ne _ _ _ _ (by decide), by rw [runS2_k1, exBase_k2]; exact key2_ne _ _ _ _ (by decide)⟩,
   ex_of_isSome (x := runG2) _ runG2_some ⟨runG2_k0.trans exBase_k1.symm, runG2_k1.trans exBase_k2.symm⟩⟩

/-- T16.pc-8 `base_prev_cell_pointer` left at 0 for `from ≠ 0` (the first copied separator gets the length of everything
in front of it as well): wrong cells (4, 8 instead of 2, 6) and wrong keys -/
theorem T16_push_chunk_prev_cell_cex :
    ∃ b', pushChunkMut .noPrevCell (exNewBuilder 8) exBaseNode 1 3 [] = some b' ∧
      (nodeCell b'.page 0 = some 4 ∧ getKey b'.page 0 ≠ getKey exBaseNode 1 ∧ getKey b'.page 1 ≠ getKey exBaseNode 2) :=
  ex_of_isSome (x := runP1) _ runP1_some
    ⟨runP1_cell, by rw [runP1_k0, exBase_k1]; exact key2_ne _ _ _ _ (by decide),
     by rw [runP1_k1, exBase_k2]; exact key2_ne _ _ _ _ (by decide)⟩

/-- T16.pc-9 the fast path (one block copy) taken although the prefix lengths differ: the cells are right, the bits are
not shifted — wrong keys -/
theorem T16_push_chunk_fast_path_cex :
    ∃ b', pushChunkMut .fastAlways (exNewBuilder 4) exBaseNode 1 3 [] = some b' ∧
      (nodeCell b'.page 0 = some 6 ∧ nodeCell b'.page 1 = some 14 ∧
      getKey b'.page 0 ≠ getKey exBaseNode 1 ∧ getKey b'.page 1 ≠ getKey exBaseNode 2) :=
  ex_of_isSome (x := runQ1) _ runQ1_some
    ⟨runQ1_cells.1, runQ1_cells.2, by rw [runQ1_k0, exBase_k1]; exact key2_ne _ _ _ _ (by decide),
     by rw [runQ1_k1, exBase_k2]; exact key2_ne _ _ _ _ (by decide)⟩

/-- T16.pc-10 the documented-only precondition `to ≤ base.prefix_compressed`: a chunk that reaches an UNCOMPRESSED base
item is not rejected (no assert) and the copied item reads back as a different key (`AB AC…` for `AC 00…`).  Base
`exUBase`: 2 items, only the first compressed.  The real builder at this point: `vharness pushchunk-branch`, counter
"past base prefix_compressed" — never a panic, wrong keys. -/
theorem T16_push_chunk_uncompressed_base_cex :
    ∃ b', builderPushChunk (exNewBuilder 8) exUBase 0 2 [] = some b' ∧
      (getKey b'.page 0 = getKey exUBase 0 ∧ getKey b'.page 1 ≠ getKey exUBase 1) :=
  ex_of_isSome (x := runU1) _ runU1_some
    ⟨runU1_k0.trans exU_k0.symm, by rw [runU1_k1, exU_k1]; exact key2_ne _ _ _ _ (by decide)⟩

end Nomt.C16
