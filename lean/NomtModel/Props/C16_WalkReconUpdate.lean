import NomtModel.Props.C02_WalkReconUpdate
/-!
# C16 — the diff of the pages an updating walker hands out when it entered reconstructed pages

`T16_walker_diff_names_changes_partial` for page sets with reconstructed pages on the way: it is the last clause of
`T2_walker_root_reconstructed` — the diff of every page handed out names every slot that differs from the page it
started from (for a reconstructed page: the reconstructed page of the page set; the diff handed out additionally contains the
reconstruction diff, `T16_promoted_page_diff`).
-/
namespace Nomt.C16
open Nomt Nomt.Walker Nomt.TriePos

variable {Node VH : Type} [DecidableEq Node] [DecidableEq VH] (H : Hasher Node VH)

/-- **T16_walker_diff_names_changes over reconstructed pages**: the walk does not panic and the diff of every page handed out
names every slot that differs from the page it started from -/
theorem T16_walker_diff_names_changes_reconstructed (hs : H.Sound) (ps : PageSet Node) (root : Node)
    {S S' : List (Key × VH)} (hS : KeysOK S) (hS' : KeysOK S') {steps : List (Step VH)} (hso : ScriptOK S S' steps)
    (hps : G.PSOK ps steps) (hrep : Represents H ps root S) (inhibit : Bool) :
    ∃ w' r pages, (Walker.start root inhibit).runM H ps steps = .ok w' ∧ w'.conclude H = .ok (.root r pages) ∧
      ∀ o ∈ pages, ∃ P pg d b base, o = .updated P pg d b ∧
        (base = ps.fresh P ∨ ∃ e og, ps.get P = some (⟨base, e⟩, og)) ∧
        ∀ i, i < 126 → pg.nodes.getD i H.term ≠ base.getD i H.term → d.changed i = true := by
  obtain ⟨w', pages, h1, h2, h3⟩ := C02.T2_walker_root_reconstructed H hs ps root hS hS' hso hps hrep inhibit
  refine ⟨w', _, pages, h1, h2, ?_⟩
  intro o ho
  obtain ⟨P, pg, d, b, e, _, _, base, hb, hd⟩ := h3 o ho
  exact ⟨P, pg, d, b, base, e, hb, hd⟩

example : G.PSOK Ex2.ps2r Ex2.steps2 ∧ Represents TH Ex2.ps2r Ex2.root2 Ex2.S2 := ⟨Ex2.psok2r, Ex2.rep2r⟩

end Nomt.C16
