import NomtModel.Props.C02_WalkReconUpdate
/-!
# C16 — the diff of the pages an updating walker hands out when it entered reconstructed pages

`T16_walker_diff_names_changes_partial` for page sets with reconstructed pages on the way: it is the last clause of
`T2_walker_root_reconstructed` — the diff of every page handed out names every slot that differs from the page it
started from (for a reconstructed page: the reconstructed page of the page set; the diff handed out additionally contains the
reconstruction diff, `T16_promoted_page_diff`).
-/
namespace Nomt.C16
open Nomt Nomt.Walker Nomt.TriePos

variable {Node VH : Type} [DecidableEq Node] [DecidableEq VH] (H : Hasher Node VH)

/-- **T16_walker_diff_names_changes over reconstructed pages**: the walk does not panic and the diff of every page handed out
names every slot that differs from the page it started from -/
theorem T16_walker_diff_names_changes_reconstructed (hs : H.Sound) (ps : PageSet Node) (root : Node)
    {S S' : List (Key × VH)} (hS : KeysOK S) (hS' : KeysOK S') {steps : List (Step VH)} (hso : ScriptOK S S' steps)
    (hps : G.PSOK ps steps) (hrep : Represents H ps root S) (inhibit : Bool) :
    ∃ w' r pages, (Walker.start root inhibit).runM H ps steps = .ok w' ∧ w'.conclude H = .ok (.root r pages) ∧
      ∀ o ∈ pages, ∃ P pg d b base, o = .updated P pg d b ∧
        (base = ps.fresh P ∨ ∃ e og, ps.get P = some (⟨base, e⟩, og)) ∧
        ∀ i, i < 126 → pg.nodes.getD i H.term ≠ base.getD i H.term → d.changed i = true := by
  obtain ⟨w', pages, h1, h2, h3⟩ := C02.T2_walker_root_reconstructed H hs ps root hS hS' hso hps hrep inhibit
  refine ⟨w', _, pages, h1, h2, ?_⟩
  intro o ho
  obtain ⟨P, pg, d, b, e, _, _, base, hb, hd⟩ := h3 o ho
  exact ⟨P, pg, d, b, base, e, hb, hd⟩

/-- **T16_walker_names_every_written_slot — absolutely, not relative to the pool page**: along a walk (any origin of the pages on
the way), for every page handed out: its diff names EVERY slot the walker wrote into it (`G.walkWrites`), and the walker
writes every meaningful slot at or below every replaced terminal (`set_node` for the nodes, `zero_sibling` for the
terminators next to one-sided branches).  So a page that lies below a replaced terminal — a page the walk CREATES, which goes
to a fresh bucket — has every slot the new trie defines in it named by its diff, whatever the un-zeroed pool page held; and
the part below the terminal of the terminal's own page as well. -/
theorem T16_walker_names_every_written_slot (hs : H.Sound) (ps : PageSet Node) (root : Node)
    {S S' : List (Key × VH)} (hS : KeysOK S) (hS' : KeysOK S') {steps : List (Step VH)} (hso : ScriptOK S S' steps)
    (hps : G.PSOK ps steps) (hrep : Represents H ps root S) (inhibit : Bool) :
    ∃ w' r pages, (Walker.start root inhibit).runM H ps steps = .ok w' ∧ w'.conclude H = .ok (.root r pages) ∧
      ∀ o ∈ pages, ∃ P pg d b, o = .updated P pg d b ∧
        (∀ q ∈ G.walkWrites H ps none root steps, q ≠ [] → specPage q = P → d.changed (specIndex q) = true) ∧
        ∀ s ∈ steps, s.2.isSome = true → ∀ q, s.1 <+: q → q ≠ [] → q.length ≤ 256 → (q = s.1 ∨ Mean S' q) →
          specPage q = P → d.changed (specIndex q) = true := by
  have hrepR := rep_matR H ps hS hso hrep
  have hDp : PathsIn (MatR ps steps) steps := by
    intro s hs' x hx hne
    have := G.pathsIn_of_psok ps hps s hs' x hx hne
    exact ⟨Or.inl this.1, Or.inl this.2⟩
  have hnd := G.final_log_nodup H ps hs none hS hS' hso hrepR hDp
  obtain ⟨w', hw', hinv⟩ := G.runInv_run H ps hs hS hS' hrepR (Or.inl (Or.inl rfl)) steps [] _ _
    (by simpa using hso) (by simpa using hps) (by simpa using hDp) (by intro P0 hp; cases hp)
    (G.runInv_start H ps _ none root S S' steps inhibit) _ hnd (tw_compactUp_log_prefix H _ _ none)
  simp only [List.nil_append] at hinv
  obtain ⟨pages, hc, hpg⟩ := G.conclude_spec H ps hs hS hS' hso hrepR (Or.inl (Or.inl rfl)) hinv hnd
  refine ⟨w', _, pages, hw', hc, ?_⟩
  intro o ho
  obtain ⟨P, pg, d, b, e, _, _, _, hnamed⟩ := hpg o ho
  refine ⟨P, pg, d, b, e, hnamed, ?_⟩
  intro s hs' hsome q hq hne hl hm hqp
  have hbw := G.walkWrites_block H ps hs hS' none root hso s hs' hsome
  apply hnamed q ?_ hne hqp
  rcases hm with h1 | h1
  · rw [h1]; exact hbw.1
  · by_cases hqs : q = s.1
    · rw [hqs]; exact hbw.1
    · exact hbw.2 q hq hqs hl h1

example : G.PSOK Ex2.ps2r Ex2.steps2 ∧ Represents TH Ex2.ps2r Ex2.root2 Ex2.S2 := ⟨Ex2.psok2r, Ex2.rep2r⟩

end Nomt.C16
