import NomtModel.Store.ExtRangeToy
/-!
# C19 — page numbers through the extend-range protocol: nothing is lost or duplicated by a hand-over

`answer` is the mirror of the response computed by `try_answer_left_neighbor`, `takeResp` of what
`request_range_extension` does with it (`Store/ExtRangeModel.lean`).
-/
namespace Nomt.C19
open Nomt Nomt.ExtRange

/-- **T19.answer_conserves_entries** — the entries handed to the left worker and the entries the right worker keeps are
exactly its tracker, in order: no `ChangedNodeEntry` (hence no `deleted` page number to be freed, no `inserted` page) is
dropped or duplicated by an answer; a deferred request (`none`) changes nothing. -/
theorem T19_answer_conserves_entries {N : Type} (inner : Inner N) (low high right : Option Nat) (fin : Bool)
    (resp : Resp N) (inner' : Inner N) (relink : Bool)
    (h : answer inner low high right fin = some (resp, inner', relink)) : resp.changed ++ inner' = inner := by
  unfold answer at h
  cases hs : scan low 0 inner with
  | unch c k => rw [hs] at h; simp only [Option.some.injEq, Prod.mk.injEq] at h; obtain ⟨h1, h2, _⟩ := h; subst h1 h2; simp
  | next c nh => rw [hs] at h; simp only [Option.some.injEq, Prod.mk.injEq] at h; obtain ⟨h1, h2, _⟩ := h; subst h1 h2; simp
  | fin c sep =>
    rw [hs] at h
    simp only at h
    cases fin with
    | false => simp at h
    | true =>
      simp only [if_true] at h
      cases hu : unchAtEnd sep high with
      | true => rw [hu] at h; simp only [if_true, Option.some.injEq, Prod.mk.injEq] at h; obtain ⟨h1, h2, _⟩ := h; subst h1 h2; simp
      | false =>
        rw [hu] at h
        simp only [Bool.false_eq_true, if_false, Option.some.injEq, Prod.mk.injEq] at h
        obtain ⟨h1, h2, _⟩ := h; subst h1 h2; simp

/-- **T19.pending_base_page_freed_once** — when the last entry of a response carries an inserted node, the requester takes
it as its pending base and records its page number in `extra_freed` exactly once (the node is merged into the requester's
next node, its page is garbage); otherwise `extra_freed` is unchanged. -/
theorem T19_pending_base_page_freed_once {σ N C : Type} (w : W σ N C) (r : Resp N) :
    (takeResp w r).tr.extraFreed =
      w.tr.extraFreed ++ (match r.changed.getLast?.bind (·.2.inserted) with | some (_, pn) => [pn] | none => []) := by
  unfold takeResp
  cases hl : r.changed.getLast? with
  | none => simp
  | some x =>
    obtain ⟨k, e⟩ := x
    cases hi : e.inserted with
    | none => simp [hi]
    | some y => obtain ⟨nd, pn⟩ := y; simp [hi]

/-- **T19.multiworker_freed_once_partial** — kernel-checked on the toy instances (1 … 5 workers, two schedule policies):
the freed page numbers are pairwise distinct, and they are exactly the pages of the old nodes that are not part of the new
level plus the fresh pages of pending bases.  In general "every old page released at most once, every vanished node
released" is an oracle of the `extrange` differential (C19 messages), not a theorem: it needs the ranges to be disjoint in
terms of the updater's cutoffs. -/
theorem T19_multiworker_freed_once_partial :
    ([1, 2, 3, 4, 5].all fun n => [(false, 1000), (true, 1)].all fun p =>
      match Toy.stage {} Toy.lvlA Toy.csA n p.1 p.2 with
      | some (_, freed) => freed.eraseDups.length == freed.length && freed.length == 5
      | none => false) = true := by
  decide +kernel

/-! ## non-vacuity -/

/-- an answer that hands over two entries (a deleted node, then a node with an inserted page) and keeps the third -/
example : (answer (N := Nat) [(20, { deleted := some 2, next := some 30 }), (30, { deleted := some 3, inserted := some (7, .new 1 0), next := some 40 }),
      (40, { deleted := some 4, inserted := some (8, .new 1 1), next := none })] (some 20) none none false).map
        (fun x => (x.1.changed.map (·.1), x.1.newHigh, x.2.1.map (·.1), x.2.2)) = some ([20, 30], some 40, [40], false) := by
  decide

end Nomt.C19
