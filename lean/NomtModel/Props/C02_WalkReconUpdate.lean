import NomtModel.Store.WalkerGExample
import NomtModel.Store.WalkerReconMut
/-!
# C02 — the UPDATING page walker over page sets with reconstructed pages on the way

`T2_walker_root_partial` / `T2_walker_pages_partial` (`Props/C02_PageWalker.lean`) assume that every page on the way to a terminal
was loaded from the hash table (`PSOK`).  Here the pages on the way may have ANY origin (`G.PSOK`: `Persisted` or
`Reconstructed`) — walks that ENTER reconstructed (elided) pages.  The simulation (`Store/WalkerGSim*.lean`, the generalised
copy of `Store/WalkerSim*.lean`) excludes EVERY panic site, including the `try_into().unwrap()` of `handle_elision_threshold`
(`new_parent_children_leaves_counter < 0`): the guard holds by the accounting of `Store/WalkerAcct.lean` — the counter of a
stack page always covers the old weights (`page_leaves_counter + children_leaves_counter`) of its reconstructed children that
have not been left yet — which needs (i) `OriginsOK`: the counters the page set was reconstructed with are consistent (the
`children_leaves_counter` of a reconstructed page is at least the sum of the weights of its reconstructed children; what the
oracle `C02 recon counters` checks, there with equality), (ii) no page of the page set lies below a replaced terminal, and
(iii) no page is left twice along an ascending script (`Store/WalkerTreeLogInv.lean`).
-/
namespace Nomt.C02
open Nomt Nomt.Walker Nomt.TriePos

variable {Node VH : Type} [DecidableEq Node] [DecidableEq VH] (H : Hasher Node VH)

/-- **T2_walker_root / T2_walker_pages over reconstructed pages**: for a page set that represents `S` (every materialised slot
below an internal parent holds `nodeAt`, whatever the origin of its page) whose reconstructed pages carry consistent leaf
counters (`G.PSOK.origins`) and which holds no page below a replaced terminal (`G.PSOK.clean`), an ascending prefix-free
in-scope script, every page on the way present with 126 slots (ANY origin), pool pages arbitrary, elision active or inhibited:
every call and `conclude` return `ok` — in particular `new_parent_children_leaves_counter` never goes negative —, `conclude`
returns `Output::Root(nodeAt S')`, and every page handed out is an `UpdatedPage` with 126 slots whose slots below internal
parents hold `nodeAt S'` and whose diff names every slot that differs from the page it started from. -/
theorem T2_walker_root_reconstructed (hs : H.Sound) (ps : PageSet Node) (root : Node) {S S' : List (Key × VH)}
    (hS : KeysOK S) (hS' : KeysOK S') {steps : List (Step VH)} (hso : ScriptOK S S' steps) (hps : G.PSOK ps steps)
    (hrep : Represents H ps root S) (inhibit : Bool) :
    ∃ w' pages, (Walker.start root inhibit).runM H ps steps = .ok w' ∧
      w'.conclude H = .ok (.root (nodeAt H 256 0 S') pages) ∧
      ∀ o ∈ pages, ∃ P pg d b, o = .updated P pg d b ∧ pg.nodes.length = 126 ∧
        (∀ q, q ≠ [] → q.length ≤ 256 → specPage q = P → MatR ps steps q → Mean S' q →
          pg.nodes.getD (specIndex q) H.term = specNode H S' q) ∧
        ∃ base, BaseOf ps P base ∧ DiffNames H pg.nodes base d := by
  have hrepR := rep_matR H ps hS hso hrep
  have hDp : PathsIn (MatR ps steps) steps := by
    intro s hs' x hx hne
    have := G.pathsIn_of_psok ps hps s hs' x hx hne
    exact ⟨Or.inl this.1, Or.inl this.2⟩
  have hnd := G.final_log_nodup H ps hs none hS hS' hso hrepR hDp
  obtain ⟨w', hw', hinv⟩ := G.runInv_run H ps hs hS hS' hrepR (Or.inl (Or.inl rfl)) steps [] _ _
    (by simpa using hso) (by simpa using hps) (by simpa using hDp) (by intro P0 hp; cases hp)
    (G.runInv_start H ps _ none root S S' steps inhibit) _ hnd (tw_compactUp_log_prefix H _ _ none)
  simp only [List.nil_append] at hinv
  obtain ⟨pages, hc, hpg⟩ := G.conclude_spec H ps hs hS hS' hso hrepR (Or.inl (Or.inl rfl)) hinv hnd
  refine ⟨w', pages, hw', hc, ?_⟩
  intro o ho
  obtain ⟨P, pg, d, b, e, hl, hm, hdiff, _⟩ := hpg o ho
  exact ⟨P, pg, d, b, e, hl, hm, hdiff⟩

/-- non-vacuity: the hypotheses hold for the empty page set … -/
example : ∃ w' pages, (Walker.start T.term false).runM TH Ex.exPs Ex.exSteps = .ok w' ∧
      w'.conclude TH = .ok (.root (nodeAt TH 256 0 Ex.exS') pages) ∧
      ∀ o ∈ pages, ∃ P pg d b, o = .updated P pg d b ∧ pg.nodes.length = 126 ∧
        (∀ q, q ≠ [] → q.length ≤ 256 → specPage q = P → MatR Ex.exPs Ex.exSteps q → Mean Ex.exS' q →
          pg.nodes.getD (specIndex q) TH.term = specNode TH Ex.exS' q) ∧
        ∃ base, BaseOf Ex.exPs P base ∧ DiffNames TH pg.nodes base d :=
  T2_walker_root_reconstructed TH TH_sound Ex.exPs T.term Ex.exKeys Ex.exKeys' Ex.exScript
    ⟨fun _ => by simp [Ex.exPs], fun s hs hne => by
      simp only [Ex.exSteps, List.mem_singleton] at hs
      rw [hs] at hne; exact absurd rfl hne,
     originsOK_of_no_recon _ (fun _ _ _ _ _ h => by simp [Ex.exPs] at h),
     fun _ _ _ _ _ _ => rfl⟩ Ex.exRep false

/-- … and the promotion history of `Store/WalkerReconMut.lean` really walks INTO reconstructed pages with real counters (19
leaves, `page_leaves_counter = 19` resp. `children_leaves_counter = 19`; kernel evaluation) -/
theorem T2_walk_into_reconstructed_instance :
    ReconMut.verdictDrop false = some (true, true) ∧ ReconMut.verdictStale false = some (true, true) := by
  constructor <;> decide +kernel

end Nomt.C02
