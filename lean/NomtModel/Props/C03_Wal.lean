import NomtModel.Store.WalEncode
import NomtModel.Store.WalRedoLemmas
import NomtModel.Store.WalRedoTable
import NomtModel.Store.WalBuilderTotal
import NomtModel.Generated.Constants
import NomtModel.Store.WalExample
/-!
# C03 (topic: the bitbox write-ahead log) — what is written before the meta swap is what recovery re-applies

The abstract crash theorems (`Props/C03.lean`, `Props/C04.lean`) treat the WAL as a list of (bucket, content) pairs.
This file is about the bytes: the mirrors of `WalBlobBuilder` (`bitbox/wal/write.rs`), `WalBlobReader`
(`bitbox/wal/read.rs`), `PageDiff` (`page_diff.rs`) and of the page reconstruction in `bitbox::recover`
(`Store/WalModel.lean`, `Store/PageDiffModel.lean`, `Store/WalRedo.lean`), tied to the code by the `wal` differential
(`harness/src/wal.rs` vs driver mode `wal`).

* `T3_wal_roundtrip`, `T3_wal_builder_is_encode`, `T3_wal_builder_no_panic`, `T3_wal_length_page_multiple`,
  `T3_wal_reader_total`: the blob.
* `T3_redo_slots`, `T3_redo_reproduces_page` (+ `_iff`), `T3_redo_idempotent`, `T3_redo_join`, `T3_unpack_pack`: redo.
* `T3_redo_omitted_slot_counterexample`: a diff that omits a reconstructed slot does not reproduce the page.
* `T3_recover_is_redo`, `T3_redo_log_depends_only_outside`, `T3_redo_log_idempotent`, `T3_redo_log_total`: the redo loop
  of `bitbox::recover` on the whole table.
-/
namespace Nomt.C03
open Nomt Nomt.Wal Nomt.Wal.PageDiff

/-! ## the blob: encoder, reader -/

/-- T3.wal-1 **round trip**: for every sync sequence number and ANY number of entries (each one as the Rust types and
`prepare_sync` make it: `u64` bucket, 32-byte page id, a diff without reserved bit, exactly `count(diff)` nodes of 32
bytes), `WalBlobReader::new` + `read_entry` until `None` on the blob `reset(seqn); write_*…; finalize()` produced
return `seqn`, exactly the entries in order, and stop at the END tag (never looking at the padding). -/
theorem T3_wal_roundtrip (seqn : Nat) (hs : seqn < 2 ^ 32) (es : List Entry) (hes : ∀ e ∈ es, e.Honest) :
    ∃ res, readAll (encode seqn es).toArray = .ok res ∧ res.seqn = seqn ∧ res.entries = es ∧ res.ending = .ok () :=
  readAll_encode seqn hs es hes

/-- T3.wal-2 mirror = specification for the builder: whatever the state machine `reset; write_clear / write_update …;
finalize` (with `grow`) leaves in `as_slice()` without panicking is the one-expression specification `encode`. -/
theorem T3_wal_builder_is_encode {b b' : Builder} {seqn : Nat} {es : List Entry} (h : b.run seqn es = .ok b') :
    b'.asSlice = encode seqn es :=
  Builder.run_ok h

/-- T3.wal-2' **the builder does not panic below 128 GiB**: with a mapping whose size is a positive multiple of the page
size (`WalBlobBuilder::new`: `1 << 30`), `reset; write_*…; finalize` reaches none of its panic / UB sites
(`checked_add`, "WAL blob too large", a copy or the zero fill past the end of the — possibly re-grown — mapping) as
long as the un-padded blob stays below `MAX_SIZE`, and `as_slice()` is then `encode seqn entries`.  (Not modelled:
`mremap` and the fall-back `mmap` both failing.) -/
theorem T3_wal_builder_no_panic {b : Builder} (hsize : 1 ≤ b.size ∧ b.size % PAGE_SIZE = 0) (seqn : Nat)
    (es : List Entry) (hlt : (encBody seqn es).length < MAX_SIZE) :
    ∃ b', b.run seqn es = .ok b' ∧ b'.asSlice = encode seqn es :=
  Builder.run_total hsize seqn es hlt

example : (1 : Nat) ≤ 2 ^ 30 ∧ 2 ^ 30 % PAGE_SIZE = 0 := by decide

/-- T3.wal-3 the blob handed to `write_wal` is a whole number of pages (what `WalBlobReader::new` insists on). -/
theorem T3_wal_length_page_multiple (seqn : Nat) (es : List Entry) : (encode seqn es).length % PAGE_SIZE = 0 :=
  Builder.encode_length_mod seqn es

/-- T3.wal-4 **totality of the reader**: on ANY byte string as WAL file, `WalBlobReader::new` and the `read_entry` loop
never reach a panic site (`wal[offset]`, `wal[offset..offset + N]`, `try_into`): every index is inside the buffer,
the loop ends within `len + 1` calls; the outcome is a list of entries followed by END or by one of the errors. -/
theorem T3_wal_reader_total (file : Array UInt8) :
    (readAll file).isPanic = false ∧ ∀ res, readAll file = .ok res → res.ending.isPanic = false :=
  readAll_total file

/-- non-vacuity of the round trip: a clear entry and the update entry of a concrete page are honest entries -/
example : ∀ e ∈ [Entry.clear (2 ^ 64 - 1), updateOf exPage ⟨3, 0⟩ 7], e.Honest := by
  intro e he
  simp only [List.mem_cons, List.not_mem_nil, or_false] at he
  rcases he with rfl | rfl
  · show 2 ^ 64 - 1 < 2 ^ 64; omega
  · exact updateOf_honest exPage_length (by decide) plain_3 (by omega)

/-! ## `PageDiff` -/

/-- T3.diff-1 `unpack_changed_nodes(pack_changed_nodes(P))` onto ANY page `Q` (of the same length) that agrees with
`P` outside the slots named by the diff gives `P`. -/
theorem T3_unpack_pack {d : PageDiff} {P Q : Bytes} (hc : d.changed 127 = false)
    (hlen : Q.length = P.length) (hb : ∀ i ∈ d.ones, i * 32 + 32 ≤ P.length)
    (hagree : ∀ o, o / 32 ∉ d.ones → Q[o]? = P[o]?) :
    d.pack P = .ok (packedOf P d) ∧ d.unpack (packedOf P d) Q = .ok P :=
  ⟨pack_eq hc hb, unpack_pack hc hlen hb hagree⟩

/-- T3.diff-2 `join` = union of the changed slots (and of the cleared flags). -/
theorem T3_join_is_union (a b : PageDiff) (i : Nat) : (a.join b).changed i = (a.changed i || b.changed i) :=
  changed_join a b i

/-- T3.diff-3 mirror = specification: `iter_ones` (lowest set bit first, erase, repeat; word 1 shifted by 64) yields
exactly the set bits of the map in ascending order, and `count` is their number. -/
theorem T3_iter_ones_spec (d : PageDiff) (hc : d.changed 127 = false) :
    d.iterOnes = .ok d.ones ∧ d.count = d.ones.length ∧ d.ones.Pairwise (· < ·) ∧
      ∀ i, i ∈ d.ones ↔ i < 128 ∧ d.changed i = true :=
  ⟨iterOnes_eq d hc, count_eq d, ones_sorted d, fun _ => mem_ones⟩

/-- T3.diff-4 `from_bytes` accepts exactly the 16-byte strings without reserved bit (126, 127 = cleared flag), and
`as_bytes ∘ from_bytes` / `from_bytes ∘ as_bytes` are identities there. -/
theorem T3_diff_bytes_roundtrip :
    (∀ d : PageDiff, d.WF → d.changed 126 = false → d.changed 127 = false → fromBytes d.asBytes = some d) ∧
    (∀ (b : Bytes) (d : PageDiff), b.length = 16 → fromBytes b = some d →
        d.WF ∧ d.changed 126 = false ∧ d.changed 127 = false ∧ d.asBytes = b) :=
  ⟨fun _ h1 h2 h3 => fromBytes_asBytes h1 h2 h3, fun _ _ hb h => fromBytes_some hb h⟩

/-- T3.diff-5 `set_changed` (slot < 126) sets the slot's bit and ERASES the cleared flag; slots ≥ 126 panic. -/
theorem T3_set_changed (d : PageDiff) (slot : Nat) :
    (slot < 126 → ∃ d', d.setChanged slot = .ok d' ∧
        ∀ i, i < 128 → d'.changed i = (decide (i ≠ 127) && (d.changed i || i == slot))) ∧
    (126 ≤ slot → (d.setChanged slot).isPanic = true) :=
  ⟨fun h => setChanged_ok d h, fun h => setChanged_panics d h⟩

example : (⟨2 ^ 63 + 5, 2 ^ 62 + 9⟩ : PageDiff).ones = [0, 2, 63, 64, 67, 126] := by decide
example : (⟨5, 2 ^ 63⟩ : PageDiff).iterOnes.isPanic = true := by decide

/-! ## redo of an update entry

`updateOf P d bucket` is what `prepare_sync` writes for the dirty page `P` (label and elided-children bits are part of
the page bytes): page id = `labelOf P`, the diff `d`, the nodes `pack_changed_nodes(P)`, `elidedOf P`.  `redoPage old …`
is the page `recover` writes into the bucket whose current content is `old`.  An update entry therefore carries: the
slots named by its diff (and nothing about the other slots), the label, the elided-children bits. -/

/-- T3.redo-1 **what redo does, byte by byte** (any old bucket content): the result has the writer's node in every
slot named by the diff, the writer's page id in the last 32 bytes, the writer's elided-children bits before it, and
the OLD bucket's byte everywhere else below offset 4056. -/
theorem T3_redo_slots {P old : Bytes} {d : PageDiff} (hP : P.length = PAGE_SIZE) (hold : old.length = PAGE_SIZE)
    (hd : PageDiff.Plain d) :
    ∃ F, redoPage old (labelOf P) d (packedOf P d) (elidedOf P) = .ok F ∧ F.length = PAGE_SIZE ∧
      (∀ i, i ∈ d.ones → ∀ j, j < 32 → F[i * 32 + j]? = P[i * 32 + j]?) ∧
      (∀ o, 4056 ≤ o → F[o]? = P[o]?) ∧
      (∀ o, o < 4056 → o / 32 ∉ d.ones → F[o]? = old[o]?) := by
  obtain ⟨F, h1, h2, h3, h4, h5, h6⟩ := redoPage_char (el := elidedOf P) hold hd (packedOf_length P d)
    (packedOf_node_length hP hd) (labelOf_length hP)
  refine ⟨F, h1, h2, ?_, ?_, h6⟩
  · intro i hi j hj
    obtain ⟨n, hmem⟩ := exists_mem_zip (m := packedOf P d) (by simp [packedOf]) hi
    rw [h3 _ _ hmem j hj, packed_byte hmem hj]
  · intro o ho
    by_cases b : o < 4064
    · have := h5 (o - 4056) (by omega)
      rw [elided_byte hP (by omega)] at this
      have e : 4056 + (o - 4056) = o := by omega
      rw [e] at this
      exact this
    · by_cases c : o < 4096
      · have := h4 (o - 4064) (by omega)
        rw [label_byte (by omega)] at this
        have e : 4064 + (o - 4064) = o := by omega
        rw [e] at this
        exact this
      · rw [List.getElem?_eq_none (by rw [h2]; unfold PAGE_SIZE; omega),
          List.getElem?_eq_none (by rw [hP]; unfold PAGE_SIZE; omega)]

/-- T3.redo-2 **redo reproduces the page the writer intended** — GIVEN the old bucket content agrees with the writer's
page on the bytes outside the slots named by the diff (below the elided-children field). -/
theorem T3_redo_reproduces_page {P old : Bytes} {d : PageDiff} (hP : P.length = PAGE_SIZE)
    (hold : old.length = PAGE_SIZE) (hd : PageDiff.Plain d)
    (hagree : ∀ o, o < 4056 → o / 32 ∉ d.ones → old[o]? = P[o]?) :
    redoPage old (labelOf P) d (packedOf P d) (elidedOf P) = .ok P :=
  redoPage_reproduces hP hold hd hagree

/-- T3.redo-2' the hypothesis of T3.redo-2 is NECESSARY: redo reproduces the page iff the bucket agreed with it
outside the diff.  A diff must name every slot in which the new page differs from what the bucket holds. -/
theorem T3_redo_reproduces_iff {P old : Bytes} {d : PageDiff} (hP : P.length = PAGE_SIZE)
    (hold : old.length = PAGE_SIZE) (hd : PageDiff.Plain d) :
    redoPage old (labelOf P) d (packedOf P d) (elidedOf P) = .ok P ↔
      ∀ o, o < 4056 → o / 32 ∉ d.ones → old[o]? = P[o]? := by
  constructor
  · intro h o ho hn
    obtain ⟨F, h1, _, _, _, h6⟩ := T3_redo_slots (old := old) hP hold hd
    rw [h] at h1
    injection h1 with h1
    subst h1
    exact (h6 o ho hn).symm
  · exact redoPage_reproduces hP hold hd

/-- T3.redo-3 **redo is idempotent** (any old content, any nodes): applying the same update entry to the page it
produced gives the same page — a crash during recovery, or after a part of the post-meta write-out, is harmless. -/
theorem T3_redo_idempotent {old pid : Bytes} {d : PageDiff} {ns : List Bytes} {el : Nat} {F : Bytes}
    (hold : old.length = PAGE_SIZE) (hd : PageDiff.Plain d) (hcount : ns.length = d.count)
    (hn : ∀ n ∈ ns, n.length = 32) (hpid : pid.length = 32)
    (h : redoPage old pid d ns el = .ok F) : redoPage F pid d ns el = .ok F :=
  redoPage_idem hold hd hcount hn hpid h

/-- T3.redo-4 **applying entries in order = applying the joined diff**: reconstruct (`P1`, diff `d1`) then update
(`P2`, diff `d2`; `P2` keeps `P1`'s content on the slots of `d1` that `d2` does not name) is the single entry of `P2`
with `d1.join d2` — `StackPage::total_diff`. -/
theorem T3_redo_join {P1 P2 old : Bytes} {d1 d2 : PageDiff}
    (hP1 : P1.length = PAGE_SIZE) (hP2 : P2.length = PAGE_SIZE) (hold : old.length = PAGE_SIZE)
    (h1 : PageDiff.Plain d1) (h2 : PageDiff.Plain d2)
    (hsame : ∀ i, i ∈ d1.ones → i ∉ d2.ones → ∀ j, j < 32 → P1[i * 32 + j]? = P2[i * 32 + j]?) :
    ∃ F1 F2, redoPage old (labelOf P1) d1 (packedOf P1 d1) (elidedOf P1) = .ok F1 ∧
      redoPage F1 (labelOf P2) d2 (packedOf P2 d2) (elidedOf P2) = .ok F2 ∧
      redoPage old (labelOf P2) (d1.join d2) (packedOf P2 (d1.join d2)) (elidedOf P2) = .ok F2 :=
  redoPage_join hP1 hP2 hold h1 h2 hsame

/-- non-vacuity of T3.redo-2 and the **kernel-checked counterexample** for a diff that omits a reconstructed slot
(cf. the seeded change `C03-wal-diff-drops-reconstruction`, `diff: updated.diff` instead of `updated.total_diff()`):
the page `exPage` was reconstructed into an empty bucket (slot 0) and then updated (slot 1).  With the joined diff
`{0, 1}` redo reproduces the page; with the update's own diff `{1}` redo succeeds but the bucket holds a page whose
slot 0 is still empty — neither the old nor the new page. -/
theorem T3_redo_omitted_slot_counterexample :
    redoPage exOld (labelOf exPage) ((⟨1, 0⟩ : PageDiff).join ⟨2, 0⟩) (packedOf exPage ((⟨1, 0⟩ : PageDiff).join ⟨2, 0⟩))
        (elidedOf exPage) = .ok exPage ∧
    ∃ F, redoPage exOld (labelOf exPage) ⟨2, 0⟩ (packedOf exPage ⟨2, 0⟩) (elidedOf exPage) = .ok F ∧
      F ≠ exPage ∧ F ≠ exOld ∧ F[0]? = some 0 ∧ exPage[0]? = some 1 := by
  refine ⟨?_, ?_⟩
  · have : (⟨1, 0⟩ : PageDiff).join ⟨2, 0⟩ = ⟨3, 0⟩ := by decide
    rw [this]
    exact T3_redo_reproduces_page exPage_length exOld_length plain_3 exAgree
  · obtain ⟨F, h1, h2, h3, h4, h5⟩ := T3_redo_slots (P := exPage) (old := exOld) (d := ⟨2, 0⟩) exPage_length exOld_length plain_2
    have hold0 : ∀ o, o < 4096 → exOld[o]? = some 0 := by
      intro o ho
      unfold exOld
      rw [List.getElem?_replicate, if_pos ho]
    have hpage : ∀ o, o < 64 → exPage[o]? = some 1 := by
      intro o ho
      unfold exPage
      rw [List.getElem?_append_left (by rw [List.length_replicate]; exact ho), List.getElem?_replicate, if_pos ho]
    have h0 : F[0]? = some 0 := by
      rw [h5 0 (by omega) (by rw [ones_2]; simp)]
      exact hold0 0 (by omega)
    have hp0 : exPage[0]? = some 1 := hpage 0 (by omega)
    have h32 : F[32]? = some 1 := by
      have := h3 1 (by rw [ones_2]; simp) 0 (by omega)
      simp only [Nat.one_mul, Nat.add_zero] at this
      rw [this]
      exact hpage 32 (by omega)
    refine ⟨F, h1, ?_, ?_, h0, hp0⟩
    · intro e; rw [e, hp0] at h0; cases h0
    · intro e
      rw [e, hold0 32 (by omega)] at h32
      cases h32

/-- non-vacuity of T3.redo-4 and T3.redo-3: reconstruct slot 0, then update slot 1 of the same page, on an empty
bucket; and the second redo applied once more changes nothing -/
example : ∃ F1 F2, redoPage exOld (labelOf exPage) ⟨1, 0⟩ (packedOf exPage ⟨1, 0⟩) (elidedOf exPage) = .ok F1 ∧
    redoPage F1 (labelOf exPage) ⟨2, 0⟩ (packedOf exPage ⟨2, 0⟩) (elidedOf exPage) = .ok F2 ∧
    redoPage exOld (labelOf exPage) ((⟨1, 0⟩ : PageDiff).join ⟨2, 0⟩) (packedOf exPage ((⟨1, 0⟩ : PageDiff).join ⟨2, 0⟩))
      (elidedOf exPage) = .ok F2 :=
  T3_redo_join exPage_length exPage_length exOld_length plain_1 plain_2 (fun _ _ _ _ _ => rfl)

example : ∃ F, redoPage exOld (labelOf exPage) ⟨2, 0⟩ (packedOf exPage ⟨2, 0⟩) (elidedOf exPage) = .ok F ∧
    redoPage F (labelOf exPage) ⟨2, 0⟩ (packedOf exPage ⟨2, 0⟩) (elidedOf exPage) = .ok F := by
  obtain ⟨F, h, _⟩ := T3_redo_slots (P := exPage) (old := exOld) (d := ⟨2, 0⟩) exPage_length exOld_length plain_2
  exact ⟨F, h, T3_redo_idempotent exOld_length plain_2 (packedOf_length _ _) (packedOf_node_length exPage_length plain_2)
    (labelOf_length exPage_length) h⟩

/-! ## the redo loop on the whole hash table -/

/-- T3.log-1 **recovery = reader ∘ redo loop**: on the blob the builder wrote for `(seqn, entries)`, `bitbox::recover`
leaves the table untouched when `seqn` is not the manifest's sync sequence number (the WAL of a sync that never wrote
its meta page, or of one that concluded) and otherwise applies exactly `entries` in order. -/
theorem T3_recover_is_redo (hash : Bytes → Nat) (syncSeqn : Nat) (T : Table) (seqn : Nat) (hs : seqn < 2 ^ 32)
    (es : List Entry) (hes : ∀ e ∈ es, e.Honest) :
    recover hash syncSeqn T (encode seqn es).toArray = if seqn ≠ syncSeqn then .ok T else redoAll hash T es :=
  recover_encode hash syncSeqn T seqn hs es hes

/-- T3.log-2 **the redo loop depends only on what the log does not write**: two hash tables of the same size that
agree on every position the log does not write (meta bytes of other buckets, bytes of other buckets, bytes of the
named buckets outside the diffs' slots / label / elided bits) are taken to the SAME table.  So any loss or tearing of
the post-meta write-out (which touches exactly the written positions) is repaired by recovery. -/
theorem T3_redo_log_depends_only_outside (hash : Bytes → Nat) (es : List Entry) (hes : ∀ e ∈ es, e.Honest)
    {T1 T2 : Table} (w1 : T1.WF) (w2 : T2.WF) (hs : T1.SameSize T2)
    (hag : ∀ p, ¬ writesAll es p → T1.at p = T2.at p) {U : Table} (h : redoAll hash T1 es = .ok U) :
    redoAll hash T2 es = .ok U :=
  redoAll_agree hash es hes w1 w2 hs hag h

/-- T3.log-3 **redo of the log is idempotent, also after a crash in the middle of recovery**: if recovery of `T` gives
`U`, recovery restarted on the table left after any prefix of the log was applied (`k = es.length`: after all of it)
gives `U` again. -/
theorem T3_redo_log_idempotent (hash : Bytes → Nat) (es : List Entry) (hes : ∀ e ∈ es, e.Honest)
    {T U : Table} (w : T.WF) (h : redoAll hash T es = .ok U) (k : Nat) :
    ∃ Tk, redoAll hash T (es.take k) = .ok Tk ∧ redoAll hash Tk es = .ok U :=
  redoAll_prefix_absorbed hash es hes w h k

/-- T3.log-4 the redo loop does not fail (no error, no panic site) on honest entries whose buckets exist, and changes
only positions the log writes. -/
theorem T3_redo_log_total (hash : Bytes → Nat) (es : List Entry) (hes : ∀ e ∈ es, e.Honest) {T : Table} (w : T.WF)
    (hf : ∀ e ∈ es, e.fits T.meta.length T.pages.length) :
    ∃ U, redoAll hash T es = .ok U ∧ U.WF ∧ T.SameSize U ∧ ∀ p, ¬ writesAll es p → U.at p = T.at p := by
  obtain ⟨U, h⟩ := redoAll_ok hash es hes w hf
  exact ⟨U, h, redoAll_frame hash es hes w h⟩

/-- non-vacuity of the table theorems: a two-bucket table and a log with an update and a clear entry -/
example : ∃ U, redoAll (fun _ => 0) ⟨List.replicate 4096 0, [exOld, exOld]⟩ [updateOf exPage ⟨3, 0⟩ 1, Entry.clear 0] = .ok U := by
  have hes : ∀ e ∈ [updateOf exPage ⟨3, 0⟩ 1, Entry.clear 0], e.Honest := by
    intro e he
    simp only [List.mem_cons, List.not_mem_nil, or_false] at he
    rcases he with rfl | rfl
    · exact updateOf_honest exPage_length (by decide) plain_3 (by omega)
    · show 0 < 2 ^ 64; omega
  have w : Table.WF ⟨List.replicate 4096 0, [exOld, exOld]⟩ := by
    intro p hp
    simp only [List.mem_cons, List.not_mem_nil, or_false] at hp
    rcases hp with rfl | rfl <;> exact exOld_length
  obtain ⟨U, h, _⟩ := T3_redo_log_total (fun _ => 0) _ hes w (by
    intro e he
    simp only [List.mem_cons, List.not_mem_nil, or_false] at he
    rcases he with rfl | rfl
    · show 1 < (List.replicate 4096 (0 : UInt8)).length ∧ 1 < 2
      rw [List.length_replicate]; omega
    · show 0 < (List.replicate 4096 (0 : UInt8)).length
      rw [List.length_replicate]; omega)
  exact ⟨U, h⟩

/-! ## constants -/

/-- T3.const the layout constants of the WAL / page-diff model are the ones extracted from the Rust sources
(`tools/gen_constants.py`): page size, nodes per page, the tombstone and full-mask meta bytes and the shift of
`full_entry`; 126 slots of 32 bytes end below the elided-children field (offset 4056) and the label (offset 4064).
(The WAL tags 1–4, `MAX_SIZE` and `CLEAR_BIT` are not extracted yet: carried by hand, held by the differential.) -/
theorem T3_const_wal :
    Wal.PAGE_SIZE = Gen.PAGE_SIZE ∧ Wal.NODES_PER_PAGE = Gen.NODES_PER_PAGE ∧
    Wal.TOMBSTONE.toNat = Gen.TOMBSTONE ∧ Wal.FULL_MASK = Gen.FULL_MASK ∧
    (∀ h, Wal.fullEntry h = UInt8.ofNat ((h / 2 ^ Gen.FULL_ENTRY_SHIFT % 256) ^^^ Gen.FULL_MASK)) ∧
    Wal.NODES_PER_PAGE * Wal.NODE_SIZE ≤ Wal.PAGE_SIZE - 40 ∧ Wal.PAGE_SIZE - 40 = 4056 ∧ Wal.PAGE_SIZE - 32 = 4064 := by
  refine ⟨rfl, rfl, rfl, rfl, fun _ => rfl, by decide, rfl, rfl⟩

end Nomt.C03
