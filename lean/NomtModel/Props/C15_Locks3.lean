import NomtModel.Api.Locks3Dead
import NomtModel.Api.Locks3Order
/-!
# C15 (topic: the access lock AND the beatree read-transaction counter)

`Api/Locks3*.lean` extends the two-lock LTS of `Api/Locks2*.lean` (unchanged; T15.5 – T15.8 stand) by the third resource a
commit waits for: `Store::commit → … → Tree::prepare_sync → ReadTransactionCounter::block_until_zero`.  The `store`
micro-step of the writer is BLOCKED while any read transaction is open; `rtBegin` / `rtDrop` are micro-steps of the
threads at the places of the current source (header of `Api/Locks3.lean`).

* T15.9a — invariant, every interleaving of code calls: a read transaction is held only under the access read guard of
  its session (or, the writer's inner session in `rollback`, with its drop queued before the thread's next lock step);
* T15.9b / T15.9 — under the caller discipline of T15.7 no cyclic wait among access lock, `shared` and the counter, and
  from every blocked thread the wait edges lead to a thread that can move;
* `T15_order_begin_session` — the order "read guard, delta builder, updater" of the LTS IS the order `tools/gen_steps.py`
  reads off the current text of `Nomt::begin_session` (`rfl`);
* `T15_delta_builder_before_guard_deadlocks` — the seeded order (delta builder above `RwLock::read_arc`): the same
  schedule that finishes under the code's order ends in a state where writer and queued session wait for each other.
-/
namespace Nomt.C15
open Nomt.Locks2 Nomt.Locks3 Nomt.GenOrder
variable {C R W D : Type} [DecidableEq R] (ops : DbOps C R W D)

/-- decidability of `Good3` (for the examples) -/
instance good3Dec (v : Variant) : (s : S3 C R W D) → (evs : List (Event3 R W D)) → Decidable (Good3 ops v s evs)
  | _, [] => isTrue trivial
  | s, e :: rest =>
    have := good3Dec v (next3 ops v s e).1 rest
    have : Decidable (okEvent s e) := by cases e <;> unfold okEvent <;> exact inferInstance
    by unfold Good3; exact inferInstance

/-- T15.9a **a read transaction only under the read guard.**  In every state reached by code calls and rt micro-steps in
the code's order (any interleaving, any caller): every open read transaction `(u, sid)` belongs to a session whose access
read guard thread `u` holds NOW, or thread `u` has its `rtDrop sid` queued before its next lock micro-step (the inner
session of `rollback`, a session being finished); every queued `rtBegin` will happen under that guard as well. -/
theorem T15_9a_rt_only_under_guard (db0 : Db C R D) (evs : List (Event3 R W D))
    (hg : Good3 ops .code (init3 db0) evs) : RtInv (run3 ops .code (init3 db0) evs) :=
  (good3_run ops evs _ hg (inv1_init db0) (disc_init db0) (rtInv_init db0)).2.2

/-- T15.9a' … hence whenever a writer is inside `store.commit` (head micro-step `store` / `storeRb`, write guard held) every
open read transaction belongs to a thread with a queued rt micro-step — a thread that is not waiting for anything. -/
theorem T15_9a_writer_waits_only_for_movers (db0 : Db C R D) (evs : List (Event3 R W D))
    (hg : Good3 ops .code (init3 db0) evs) (t u : Tid) (sid : Nat) :
    let s := run3 ops .code (init3 db0) evs
    atStore (s.l2.thr t).prog = true → (u, sid) ∈ s.rt → s.pend u ≠ [] ∧ blocked3 s u = false := by
  obtain ⟨h1, _, hr⟩ := good3_run ops evs _ hg (inv1_init db0) (disc_init db0) (rtInv_init db0)
  intro s hst hm
  have := store_edge_target s h1 hr t u sid hst hm
  refine ⟨this, ?_⟩
  cases hp : s.pend u with
  | nil => exact absurd hp this
  | cons a q => simp [blocked3, hp]

/-- T15.9b **no cyclic wait** among the access lock, `shared` and the read-transaction counter, in every state reached by
a trace of code calls that respects the caller discipline of T15.7 (`Good3`: a session owner starts no call that can wait
for the access lock), with the rt micro-steps in the code's order. -/
theorem T15_9b_no_wait_cycle_with_rt_counter (db0 : Db C R D) (evs : List (Event3 R W D))
    (hg : Good3 ops .code (init3 db0) evs) (t : Tid) : ¬ WaitPath3 (run3 ops .code (init3 db0) evs) t t := by
  obtain ⟨h1, hd, hr⟩ := good3_run ops evs _ hg (inv1_init db0) (disc_init db0) (rtInv_init db0)
  exact no_wait_cycle3 _ h1 hd hr t

/-- T15.9 **deadlock freedom with the read-transaction counter.**  Same hypotheses.  If a thread is blocked — at the access
lock, at `shared`, or as the writer in `block_until_zero` — then following wait edges from it one reaches a thread that can
move: it is not blocked and has a queued rt micro-step (never waits), is inside a call whose next micro-step is enabled,
or is an idle session owner (who can end its session).  Every wait edge lowers `rank3` (≤ 6), so the chain has at most
four edges.  A blocked thread's step changes nothing (`T15_9c`). -/
theorem T15_9_deadlock_free_with_rt_counter (db0 : Db C R D) (evs : List (Event3 R W D))
    (hg : Good3 ops .code (init3 db0) evs) (t : Tid) :
    let s := run3 ops .code (init3 db0) evs
    blocked3 s t = true → ∃ u, WaitPath3 s t u ∧ CanMove3 s u := by
  obtain ⟨h1, hd, hr⟩ := good3_run ops evs _ hg (inv1_init db0) (disc_init db0) (rtInv_init db0)
  intro s hb
  exact progress3 s h1 hd hr (rank3 s t) t (Nat.le_refl _) hb

/-- T15.9c waiting is passive (either variant): the step of a blocked thread returns `blocked` and leaves the state as it is. -/
theorem T15_9c_blocked_step (v : Variant) (s : S3 C R W D) (t : Tid) (hb : blocked3 s t = true) :
    next3 ops v s (.l2 (.step t)) = (s, .blocked) := blocked3_step ops v s t hb

/-- T15.9d moving is real (either variant): a queued rt micro-step always runs (and shortens the queue); a thread inside a
call with nothing queued that is not blocked performs its lock micro-step. -/
theorem T15_9d_mover_moves (v : Variant) (s : S3 C R W D) (t : Tid) :
    (s.pend t ≠ [] → (next3 ops v s (.rt t)).2 = .ran ∧ ((next3 ops v s (.rt t)).1.pend t).length + 1 = (s.pend t).length) ∧
    (∀ i rest, s.pend t = [] → (s.l2.thr t).prog = i :: rest → blocked3 s t = false →
      (next3 ops v s (.l2 (.step t))).2 ≠ .blocked) :=
  ⟨rt_step_runs ops v s t, fun i rest hpe hp hb => unblocked3_step ops v s t i rest hpe hp hb⟩

/-- T15.order-6 **`Nomt::begin_session`: read guard, THEN the delta builder, THEN the updater** — the sequence of lock and
rt micro-steps the LTS makes a thread perform for `begin_session` (plain and on overlays), in the vocabulary of the
step-order translator, EQUALS the list read off the current Rust text (`Generated/StepOrder.lean`,
`nomt_begin_session`), for every session id. -/
theorem T15_order_begin_session (sid : Nat) (b : R) :
    orderRt (microSeq .code (.beginSession sid : Call R W D)) 0 = sessOrderS nomt_begin_session ∧
    orderRt (microSeq .code (.beginSessionOv sid b : Call R W D)) 0 = sessOrderS nomt_begin_session := ⟨rfl, rfl⟩

/-- T15.order-6b the read guard is the FIRST step of `begin_session`, in the LTS (first micro-step `aRead`, nothing queued at
the call) and in the source (first entry of the generated list, which also lists the two `self.root()` reads). -/
theorem T15_order_begin_session_guard_first (sid : Nat) (b : R) :
    (microSeq .code (.beginSession sid : Call R W D)).head? = some (.inl (.aRead sid)) ∧
    (microSeq .code (.beginSessionOv sid b : Call R W D)).head? = some (.inl (.aRead sid)) ∧
    (names nomt_begin_session).head? = some .guard_read := ⟨rfl, rfl, by decide⟩

/-- T15.order-7 **drop of a `Session`: the read transactions go BEFORE the read guard** — the LTS's `endSession` (and
`finishSession`) performs `rtDrop` before `aReadUnlock`, and the step `aReadUnlock` removes whatever the session still
holds (`rtOnStep`); in the source this is the declaration order of the fields of `struct Session` (Rust drops fields in
declaration order): `merkle_updater`, `rollback_delta` before `access_guard`, read off the current text. -/
theorem T15_order_session_drop (sid : Nat) :
    dropOrder (microSeq .code (.endSession sid : Call R W D)) = names session_fields ∧
    dropOrder (microSeq .code (.finishSession sid : Call R W D)) = names session_fields := ⟨rfl, rfl⟩

example : names session_fields = [.field_updater, .field_delta, .field_guard] := by decide

/-- what the two sides are -/
example : sessOrderS nomt_begin_session = [.guard_read, .delta_builder, .updater_begin] := by decide
/-- sensitivity: the seeded order is a different list (it is `[delta_builder, guard_read, updater_begin]`) -/
example : orderRt (microSeq .deltaFirst (.beginSession 3 : Call Nat Nat Nat)) 0 = [.delta_builder, .guard_read, .updater_begin] ∧
    orderRt (microSeq .deltaFirst (.beginSession 3 : Call Nat Nat Nat)) 0 ≠ sessOrderS nomt_begin_session := by decide

/-! ## the directed schedule (the one `vharness rtlock-scenarios` runs on the real store) -/

abbrev E3 := Event3 Nat Nat Nat
def steps3 (t : Tid) (n : Nat) : List E3 := List.replicate n (.l2 (.step t))

/-- main (thread 1) holds session 1; the writer (thread 2) parks in a blocking commit `0 → 5`; the reader (thread 3) calls
`begin_session` and queues behind the parked writer; main drops session 1; the writer commits; the reader's session
starts.  (`.rt t` with nothing queued is a no-op, so ONE schedule serves both variants.) -/
def rtSched : List E3 :=
  [.l2 (.call 1 (.beginSession 1)), .rt 1, .l2 (.step 1), .rt 1, .rt 1] ++ steps3 1 4 ++
  [.l2 (.call 2 (.commit (natCS 0 5) .ok)), .l2 (.step 2), .l2 (.step 2),       -- WRITER_BIT, then parked on the reader
   .l2 (.call 3 (.beginSession 3)), .rt 3, .l2 (.step 3),                        -- queued behind the writer
   .l2 (.call 1 (.endSession 1)), .rt 1, .l2 (.step 1), .l2 (.step 1)] ++        -- main drops session 1
  steps3 2 7 ++                                                                  -- write guard … log push: now at `store`
  steps3 2 3 ++                                                                  -- store, write unlock, return
  [.l2 (.step 3), .rt 3, .rt 3] ++ steps3 3 4                                    -- the queued session starts

set_option maxRecDepth 8192 in
/-- non-vacuity of T15.9 / T15.9a: the schedule is `Good3`; under the code's order everything finishes, the commit is
applied and the queued session starts from the NEW state, holding its two read transactions under its guard -/
example : Good3 natOps .code (init3 (natDb 0)) rtSched := by decide
set_option maxRecDepth 8192 in
example : let s := run3 natOps .code (init3 (natDb 0)) rtSched
    (s.l2.thr 1).prog = [] ∧ (s.l2.thr 2).prog = [] ∧ (s.l2.thr 3).prog = [] ∧ (s.l2.thr 2).res = some .ok ∧
    s.l2.db.content = 5 ∧ s.l2.db.root = 5 ∧ s.l2.readers.map (fun x => (x.owner, x.sid, x.root, x.prev)) = [(3, 3, 5, some 5)] ∧
    s.rt = [(3, 3), (3, 3)] ∧ s.l2.wbit = none := by decide

/-- the prefix up to the writer's `store` micro-step, reader queued -/
def rtSchedMid : List E3 := rtSched.take 26

set_option maxRecDepth 8192 in
/-- T15.9 used: in the middle of the schedule (code order) the queued reader is blocked on WRITER_BIT; the theorem's mover
is the writer, which is NOT blocked at `store` (no read transaction is open) -/
example : let s := run3 natOps .code (init3 (natDb 0)) rtSchedMid
    blocked3 s 3 = true ∧ atStore (s.l2.thr 2).prog = true ∧ blocked3 s 2 = false ∧ s.rt = [] ∧ rank3 s 3 = 6 := by decide
set_option maxRecDepth 8192 in
example : ∃ u, WaitPath3 (run3 natOps .code (init3 (natDb 0)) rtSchedMid) 3 u ∧
    CanMove3 (run3 natOps .code (init3 (natDb 0)) rtSchedMid) u :=
  T15_9_deadlock_free_with_rt_counter natOps (natDb 0) rtSchedMid (by decide) 3 (by decide)

set_option maxRecDepth 8192 in
/-- **Counterexample — the seeded order of `begin_session` (rollback delta builder, i.e. a read transaction, BEFORE
`RwLock::read_arc(&access_lock)`) deadlocks.**  The same `Good3` schedule, variant `deltaFirst`: the reader (thread 3)
opened its read transaction and queued behind the parked writer; main dropped its session; the writer (thread 2) got the
write guard and reached `store.commit`, where `block_until_zero` waits for thread 3's read transaction, while thread 3
waits for WRITER_BIT, which thread 2 owns: a wait cycle `2 → 3 → 2`.  Both are blocked, their steps change nothing
(the remaining 10 events of the schedule leave the state as it is), main is idle and owns no session, the commit is not
applied, the invariant of T15.9a is false (thread 3 holds a read transaction without a read guard and without a queued
drop).  `rollback(true)` is what makes `begin_session` build the delta builder. -/
theorem T15_delta_builder_before_guard_deadlocks :
    let s := run3 natOps .deltaFirst (init3 (natDb 0)) rtSchedMid
    Good3 natOps .deltaFirst (init3 (natDb 0)) rtSched ∧
    WaitPath3 s 2 2 ∧ blocked3 s 2 = true ∧ blocked3 s 3 = true ∧
    next3 natOps .deltaFirst s (.l2 (.step 2)) = (s, .blocked) ∧ next3 natOps .deltaFirst s (.l2 (.step 3)) = (s, .blocked) ∧
    ((s.l2.thr 1).prog = [] ∧ s.pend 1 = [] ∧ holdsSession s.l2 1 = false) ∧
    s.rt = [(3, 3)] ∧ hasReader s.l2 3 3 = false ∧ s.pend 3 = [] ∧ s.l2.db.content = 0 ∧
    (let s' := run3 natOps .deltaFirst (init3 (natDb 0)) rtSched
     s'.l2.db.content = 0 ∧ (s'.l2.thr 2).res = none ∧ blocked3 s' 2 = true ∧ blocked3 s' 3 = true) := by
  intro s
  have hb2 : blocked3 s 2 = true := by decide
  have hb3 : blocked3 s 3 = true := by decide
  have hw23 : WaitsFor3 s 2 3 := ⟨by decide, Or.inr ⟨by decide, 3, by decide⟩⟩
  have hw32 : WaitsFor3 s 3 2 := ⟨by decide, Or.inl (by show s.l2.wbit = some 2; decide)⟩
  refine ⟨by decide, .cons hb2 hw23 (.one hb3 hw32), hb2, hb3, blocked3_step natOps _ s 2 hb2,
    blocked3_step natOps _ s 3 hb3, by decide, by decide, by decide, by decide, by decide, by decide⟩

end Nomt.C15
