import NomtModel.Store.StepOrderCheck
/-!
# C04 (topic: the order of the phases of one sync, read off the current Rust text)
-/
namespace Nomt.C04
open Nomt.GenOrder N

/-- T4.order-1 `Sync::sync` performs its phases in exactly this order: start the three writers, WAIT for the hash-table WAL and for the B-tree files (both
fsynced) BEFORE the meta page is written, bump the sequence number only after the meta write returned, and only then let the hash-table pages be written, the
B-tree index be swapped and the rollback log be pruned -/
theorem T4_order_sync_phases :
    names GenOrder.sync = [bitbox_begin, beatree_begin, rollback_begin, bitbox_wait_pre_meta, beatree_wait_pre_meta, panic_point, meta_write, seqn_bump,
      panic_point, rollback_post_meta, bitbox_post_meta, beatree_post_meta, rollback_wait_post_meta] ∧ straight GenOrder.sync = true := by decide

/-- T4.order-2 the meta page is written and THEN fsynced before `Meta::write` returns; the WAL is truncated, written and THEN fsynced before `write_wal` returns -/
theorem T4_order_write_then_fsync :
    names meta_write = [encode, write, fsync] ∧ names write_wal = [set_len, write, fsync] ∧ allBefore propagate_result fsync write_ht = true := by decide

end Nomt.C04
