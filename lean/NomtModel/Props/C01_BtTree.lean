import NomtModel.Api.BtTreeInv
/-!
# C01 — the beatree `Tree` object: `Tree::lookup` = the sequential map, at every phase of a sync

Property theorems about the state machine of `Api/BtTreeModel.lean` (`Shared`'s staging maps shadowing the tree until
`finish_sync` swaps the index).  See `Props/C15_BtTree.lean` for the read-transaction theorems and the tie.
-/
namespace Nomt.C01
open Nomt Nomt.Ovl Nomt.BtTree
variable {α : Type} [DecidableEq α]

/-- **T1.tree-lookup** — for EVERY sequence of steps the protocol permits (`commit cs` at any time — also between
`take` and `finish`, while a sync is in flight —, `gate` / `take` / page writes of `update` to free or fresh pages /
`finish` with any index that meets the contract of `update`, read transactions begun and dropped anywhere), in the state
reached `Tree::lookup k` — primary staging, then secondary staging, then index → one leaf → cell → overflow chain —
returns `kvGet` of all committed changesets applied in order, oldest first. -/
theorem T1_tree_lookup_is_sequential (steps : List (Step α)) (st : St α) (h : run true {} steps = .ok st) (k : Key) :
    st.lookup k = kvGet (kvApplyAll [] (commitsOf steps)) k := by
  have inv := run_inv steps inv_init h
  have hs : st.spec = kvApplyAll [] (commitsOf steps) := by simpa using run_spec steps h
  rw [← hs]
  exact viewGet_of_ok inv.shared k

/-- **T1.tree-total** — in a reachable state no step reaches a panic site of the code except the drop of a read
transaction that does not exist (`checked_sub(1).unwrap()`, unreachable through the API: every `ReadTransactionInner` is
dropped once); in particular `assert!(self.secondary_staging.is_none())` of `take_staged_changeset` never fires. -/
theorem T1_tree_no_panic (steps : List (Step α)) (st : St α) (h : run true {} steps = .ok st) (s : Step α) (m : String)
    (hp : step true st s = .panic m) : ∃ id, s = .drop id ∧ hasId st.rtx id = false := by
  have inv := run_inv steps inv_init h
  cases s <;> simp only [step] at hp
  case take =>
    split at hp
    · cases hp
    · rename_i hph
      have hph' : st.phase = .gated := by simpa using hph
      split at hp
      · rename_i s hs
        have := inv.phaseSec.2 (by simp [hs])
        rw [hph'] at this; cases this
      · cases hp
  case drop id =>
    split at hp
    · cases hp
    · rename_i hh
      exact ⟨id, rfl, by simpa using hh⟩
  all_goals (repeat' split at hp) <;> cases hp

/-! ### non-vacuity: a commit arriving while a sync is in flight, an overflow value, a deletion -/

def kA : Key := [false, false]
def kB : Key := [false, true]
def kC : Key := [true, false]

def script : List (Step Nat) :=
  [.commit [(kB, some [1]), (kC, some [7, 7, 7])], .gate, .take,
   .commit [(kC, none)],                                    -- arrives while the sync is in flight
   .write 2 (.chunk [] [7, 7]), .write 3 (.chunk [] [7]),    -- the overflow chain of `kC`
   .write 1 (.leaf [(kB, .inl [1]), (kC, .ovf [2, 3])]),
   .finish [(kA, 1)] [] 4]

def finalLookup (steps : List (Step Nat)) (k : Key) : Option (Option (List Nat)) :=
  match run true {} steps with
  | .ok st => some (st.lookup k)
  | _ => none

example : finalLookup script kB = some (some [1]) ∧ finalLookup script kC = some none ∧
    finalLookup (script.take 3) kC = some (some [7, 7, 7]) ∧
    finalLookup (script ++ [.gate, .take, .write 4 (.leaf [(kB, .inl [1])]), .finish [(kA, 4)] [1, 2, 3] 5]) kB
      = some (some [1]) := by decide

/-- without the deletion the value is read through the overflow chain (pages 2, 3) after the sync has finished -/
example : finalLookup (script.eraseIdx 3) kC = some (some [7, 7, 7]) := by decide

end Nomt.C01
