import NomtModel.Store.CacheNew
import NomtModel.Store.CacheSetLemmas
/-!
# C13 (topic: the caches are transparent) — results do not depend on cache sizes, shard counts, pinned levels, prepopulation

Mirror (`Store/CacheLru.lean`, `Store/CacheModel.lean`, tied to the real `PageCache` / `LeafCache` / `PageSet` by the
`caches` differential through hook H21): the `lru` crate as nomt uses it, `CacheShardLocked` (pinned map + LRU),
`PageCache::{new, get, insert, batch_update, evict, shard_index_for}`, `make_shards`, `LeafCache::{new, get, insert,
evict}`, `PageSet`.  `Store/CacheOps.lean` defines the reference stores (page id → latest committed page; page number →
leaf stored there), the cached read paths (`pageRead`, `leafLookup`, `leafPeek`) and the operation sequences.

Theorems are for EVERY operation sequence, every shard count 1…64, every limit (also limits of 1 page, `max_items = 0`),
every number of pinned levels, every LRU capacity (the mirror's `capPred` is arbitrary; nomt's is `usize::MAX`), every
shard-assignment function of the leaf cache.
-/
namespace Nomt.C13
open Nomt Nomt.Cache

/-- **T13_page_cache_transparent** (coherence invariant + transparency): start from any well-formed page cache (1…64
shards, any limits, any number of pinned levels, any contents) that is coherent with the reference store — every cached
entry equals the store's latest page.  Then for EVERY sequence of cached reads, commits (`batch_update` of changed and
removed pages, the store taking the same list), `evict` calls and prepopulation runs (`insert` of any list of stored
pages) over representable page ids: no panic site is reached; the values the reads return are exactly those of the same
sequence run WITHOUT a cache (`prefRun`: every read answered by the store); the final store is the same; the cache is
coherent again and keeps its shape (shard count, limits, pinned levels). -/
theorem T13_page_cache_transparent {P : Type} (s : PState P) (w : s.pc.WF) (h : Coh s.pc s.store) (ops : List (POp P))
    (hv : ∀ op ∈ ops, op.Valid) :
    ∃ s', prun {} s ops = .ok (s', (prefRun s.store ops).2) ∧ s'.store = (prefRun s.store ops).1 ∧
      Coh s'.pc s'.store ∧ Same s.pc s'.pc :=
  prun_ok s w h ops hv

/-- **T13_page_cache_total**: no operation sequence over representable page ids reaches a panic site of the page
cache (`shard_index_for` arithmetic, the `debug_assert!` on the region, the shard index, `unwrap`s of `batch_update`),
whatever the cache holds — also outside the callers' protocol. -/
theorem T13_page_cache_total {P : Type} (ops : List (POp P)) (s : PState P) (w : s.pc.WF) (hv : ∀ op ∈ ops, op.Valid) :
    ∃ s' o, prun {} s ops = .ok (s', o) ∧ Same s.pc s'.pc :=
  prun_total ops s w hv

/-- **T13_page_cache_config_independent** (C13 for `page_cache_size`, `commit_concurrency` as the shard count,
`page_cache_upper_levels`, `prepopulate_page_cache`): two stores opened on the same data with ANY two valid cache
configurations, each running the same reads and commits interleaved with ANY evictions and prepopulation runs of its
own (`ops₁`, `ops₂` agree after deleting the cache-only operations), observe the same values and end with the same
store. -/
theorem T13_page_cache_config_independent {P : Type} (dbg₁ dbg₂ : Bool) (store : PStore P)
    (n₁ size₁ fl₁ n₂ size₂ fl₂ : Nat)
    (hn₁ : 1 ≤ n₁ ∧ n₁ ≤ 64) (hn₂ : 1 ≤ n₂ ∧ n₂ ≤ 64)
    (hs₁ : size₁ * 1024 * 1024 ≤ usizeMax) (hs₂ : size₂ * 1024 * 1024 ≤ usizeMax)
    (ops₁ ops₂ : List (POp P)) (hv₁ : ∀ op ∈ ops₁, op.Valid) (hv₂ : ∀ op ∈ ops₂, op.Valid)
    (hsame : ops₁.filter (fun o => !o.cacheOnly) = ops₂.filter (fun o => !o.cacheOnly)) :
    ∃ pc₁ pc₂ s₁ s₂ o,
      PageCache.new {} dbg₁ (store []) n₁ size₁ fl₁ = .ok pc₁ ∧ PageCache.new {} dbg₂ (store []) n₂ size₂ fl₂ = .ok pc₂ ∧
      prun {} ⟨pc₁, store⟩ ops₁ = .ok (s₁, o) ∧ prun {} ⟨pc₂, store⟩ ops₂ = .ok (s₂, o) ∧ s₁.store = s₂.store := by
  have e₁ := PageCache.new_ok dbg₁ (store []) n₁ size₁ fl₁ hn₁.1 hn₁.2 hs₁
  have e₂ := PageCache.new_ok dbg₂ (store []) n₂ size₂ fl₂ hn₂.1 hn₂.2 hs₂
  obtain ⟨s₁, r₁, st₁, _, _⟩ := prun_ok ⟨_, store⟩ ⟨by simp [freshShards_length]; exact hn₁.1, by simp [freshShards_length]; exact hn₁.2⟩
    (fresh_coh n₁ _ fl₁ (store []) store (fun r hr => hr)) ops₁ hv₁
  obtain ⟨s₂, r₂, st₂, _, _⟩ := prun_ok ⟨_, store⟩ ⟨by simp [freshShards_length]; exact hn₂.1, by simp [freshShards_length]; exact hn₂.2⟩
    (fresh_coh n₂ _ fl₂ (store []) store (fun r hr => hr)) ops₂ hv₂
  have hr : prefRun store ops₁ = prefRun store ops₂ := by
    rw [← prefRun_filter store ops₁, ← prefRun_filter store ops₂, hsame]
  refine ⟨_, _, s₁, s₂, (prefRun store ops₁).2, e₁, e₂, r₁, ?_, ?_⟩
  · rw [hr]; exact r₂
  · rw [st₁, st₂, hr]

/-- **T13_leaf_cache_transparent**: start from any leaf cache with ≥ 1 shard (any `max_items`, also 0, any contents, any
shard-assignment function) in which every cached leaf of a non-dirty page number equals the leaf stored at that number.
For EVERY operation sequence that meets the callers' protocol `LProto` — lookups (`lookup_blocking`: `get`, on a miss
read the store and `insert`), bare `get`s (leaf stage, read transactions), leaf writes at ANY page number (fresh, or
released by an earlier sync and handed out again), `PostIoWork::run` insertions, `evict` — no panic site is reached, every
lookup returns the leaf the store holds at that moment (`lrefRun`: the run without a cache), and the invariant holds
again.  Protocol = (a) no lookup of a page number between its write and its `insert`, (b) `insert(pn, leaf)` passes the
leaf stored at `pn` — checked for the real callers by reading `leaf_stage.rs` / `ops/update/mod.rs` / `beatree/mod.rs`
(`notes/Q31.md` (d)) and sampled by the `caches` run. -/
theorem T13_leaf_cache_transparent {L : Type} (assign : Nat → Nat) (s : LState L) (hn : 1 ≤ s.lc.shards.length)
    (h : LCoh s.lc assign s.disk s.dirty) (ops : List (LOp L)) (hp : LProto s.disk s.dirty ops) :
    ∃ s', lrun {} assign s ops = .ok (s', (lrefRun s.disk ops).2) ∧ s'.disk = (lrefRun s.disk ops).1 ∧
      LCoh s'.lc assign s'.disk s'.dirty ∧ LSame s.lc s'.lc :=
  lrun_ok assign s hn h ops hp

/-- **T13_leaf_cache_config_independent** (C13 for `leaf_cache_size` and the shard hashing): the same protocol-conforming
operation sequence run over ANY two fresh leaf caches — any shard counts ≥ 1, any sizes (0 included), any two
`RandomState` shard assignments — returns the same leaves and leaves the same store. -/
theorem T13_leaf_cache_config_independent {L : Type} (dbg₁ dbg₂ : Bool) (disk : LDisk L) (assign₁ assign₂ : Nat → Nat)
    (n₁ size₁ n₂ size₂ : Nat) (hn₁ : 1 ≤ n₁) (hn₂ : 1 ≤ n₂)
    (hs₁ : size₁ * 1024 * 1024 ≤ usizeMax) (hs₂ : size₂ * 1024 * 1024 ≤ usizeMax)
    (ops : List (LOp L)) (hp : LProto disk (fun _ => false) ops) :
    ∃ lc₁ lc₂ s₁ s₂ o,
      LeafCache.new dbg₁ n₁ size₁ = .ok lc₁ ∧ LeafCache.new dbg₂ n₂ size₂ = .ok lc₂ ∧
      lrun {} assign₁ ⟨lc₁, disk, fun _ => false⟩ ops = .ok (s₁, o) ∧
      lrun {} assign₂ ⟨lc₂, disk, fun _ => false⟩ ops = .ok (s₂, o) ∧ s₁.disk = s₂.disk := by
  have e₁ := LeafCache.new_ok (L := L) dbg₁ n₁ size₁ hn₁ hs₁
  have e₂ := LeafCache.new_ok (L := L) dbg₂ n₂ size₂ hn₂ hs₂
  obtain ⟨s₁, r₁, d₁, _, _⟩ := lrun_ok assign₁
    ⟨{ shards := List.replicate n₁ { cache := Lru.unbounded, maxItems := size₁ * 256 / n₁ } }, disk, fun _ => false⟩
    (by simpa using hn₁) (by intro pn l _ hl; rw [LeafCache.fresh_view] at hl; cases hl) ops hp
  obtain ⟨s₂, r₂, d₂, _, _⟩ := lrun_ok assign₂
    ⟨{ shards := List.replicate n₂ { cache := Lru.unbounded, maxItems := size₂ * 256 / n₂ } }, disk, fun _ => false⟩
    (by simpa using hn₂) (by intro pn l _ hl; rw [LeafCache.fresh_view] at hl; cases hl) ops hp
  exact ⟨_, _, s₁, s₂, _, e₁, e₂, r₁, r₂, by rw [d₁, d₂]⟩

/-- **T13_leaf_sync_meets_protocol**: a sync as the leaf stage performs it — all new leaves written (at pairwise
distinct page numbers, each fresh or RECYCLED: no condition relating them to earlier syncs or to the cache contents),
then `PostIoWork::run` inserting each of them, then `evict` — meets the protocol, and hands over to the following
operations a store in which none of its page numbers is dirty. -/
theorem T13_leaf_sync_meets_protocol {L : Type} (disk : LDisk L) (dirty : Nat → Bool) (leaves : List (Nat × L))
    (rest : List (LOp L)) (hnd : (leaves.map (·.1)).Nodup)
    (hrest : LProto (writeAll disk leaves) (fun x => if x ∈ leaves.map (·.1) then false else dirty x) rest) :
    LProto disk dirty (syncOps leaves ++ rest) :=
  LProto_sync disk dirty leaves rest hnd hrest

/-- **T13_cache_budget**: after `evict` no LRU of the page cache holds more than its shard's `page_limit` and no shard
of the leaf cache more than `max_items` (the pinned map is outside the budget, as documented); the limits
`make_shards` hands out add up to `64 · ⌊pages / 64⌋ ≤ pages` (to one page per shard when `pages < 64`, i.e.
`page_cache_size = 0`) and those of `LeafCache::new` to `≤ pages` (`pages = size · 256`). -/
theorem T13_cache_budget {P L : Type} (pc : PageCache P) (lc : LeafCache L) :
    (∀ s ∈ pc.evict.shards, s.cached.len ≤ s.pageLimit) ∧ (∀ s ∈ lc.evict.shards, s.cache.len ≤ s.maxItems) ∧
    (∀ n c, 1 ≤ n → n ≤ 64 → 1 ≤ c → ((freshShards (P := P) n c).map (·.pageLimit)).sum = c * 64) ∧
    (∀ n, ((freshShards (P := P) n 0).map (·.pageLimit)).sum = n) ∧
    (∀ n size, 1 ≤ n →
      ((List.replicate n ({ cache := Lru.unbounded, maxItems := size * 256 / n } : LeafShard L)).map (·.maxItems)).sum
        ≤ size * 256) :=
  ⟨pc.evict_budget, lc.evict_budget, fun n c => freshShards_budget n c, freshShards_budget_zero, fun n size => LeafCache.new_budget n size⟩

/-- **T13_evict_keeps_most_recent**: `evict` leaves exactly the `limit` most recently used entries, in order; the loop's
fuel is never the answer (one more unit changes nothing). -/
theorem T13_evict_keeps_most_recent {K V : Type} [DecidableEq K] (c : Lru K V) (limit : Nat) :
    (c.evict limit).items = c.items.take limit ∧ Lru.evictLoop (c.len + 1) c limit = c.evict limit :=
  ⟨Lru.evict_items c limit, Lru.evictLoop_fuel c.len c limit (by omega)⟩

/-- **T13_cache_new_total**: `PageCache::new` reaches no panic site for 1…64 shards and EVERY size < 16 EiB —
`page_cache_size = 0` included, where every shard gets a limit of one page (the repair of finding F25) — and builds
empty shards whose limits are ≥ 1; `LeafCache::new` reaches none for ≥ 1 shard and any size < 16 EiB,
`leaf_cache_size = 0` included. -/
theorem T13_cache_new_total {P L : Type} (dbg : Bool) (root : Option (Entry P)) (n size fl : Nat) (h1 : 1 ≤ n)
    (hs : size * 1024 * 1024 ≤ usizeMax) :
    (n ≤ 64 → PageCache.new {} dbg root n size fl =
        .ok { shards := freshShards n (size * 256 / 64), root := root, fixedLevels := fl } ∧
      ∀ s ∈ freshShards (P := P) n (size * 256 / 64), 1 ≤ s.pageLimit) ∧
    LeafCache.new (L := L) dbg n size =
      .ok { shards := List.replicate n { cache := Lru.unbounded, maxItems := size * 256 / n } } :=
  ⟨fun h64 => ⟨PageCache.new_ok dbg root n size fl h1 h64 hs, freshShards_limit_pos n _⟩,
    LeafCache.new_ok dbg n size h1 hs⟩

/-- **T13_page_cache_size0_opens** (the repaired behaviour): for every shard count 1…64, `PageCache::new` with
`page_cache_size = 0` builds a cache of one page per shard, and every operation sequence over it is transparent (reads =
uncached reads, no panic, coherence kept) — the limit-1 instance of `T13_page_cache_transparent`. -/
theorem T13_page_cache_size0_opens {P : Type} (dbg : Bool) (store : PStore P) (n fl : Nat) (h1 : 1 ≤ n) (h64 : n ≤ 64)
    (ops : List (POp P)) (hv : ∀ op ∈ ops, op.Valid) :
    ∃ pc s', PageCache.new {} dbg (store []) n 0 fl = .ok pc ∧ (∀ s ∈ pc.shards, s.pageLimit = 1) ∧
      prun {} ⟨pc, store⟩ ops = .ok (s', (prefRun store ops).2) ∧ s'.store = (prefRun store ops).1 ∧
      Coh s'.pc s'.store := by
  have e := PageCache.new_ok dbg (store []) n 0 fl h1 h64 (by simp [usizeMax])
  obtain ⟨s', r, st, c, _⟩ := prun_ok ⟨_, store⟩
    ⟨by simp [freshShards_length]; exact h1, by simp [freshShards_length]; exact h64⟩
    (fresh_coh n (0 * 256 / 64) fl (store []) store (fun r hr => hr)) ops hv
  refine ⟨_, s', e, ?_, r, st, c⟩
  intro s hs
  simp only [freshShards, List.mem_map] at hs
  obtain ⟨i, _, rfl⟩ := hs
  simp [shardLimit]

/-- **T13_F25_page_cache_size0_counterexample** (finding F25, the code before repair `6886fe6`; mirror flag
`f25ZeroLimitUnwrap`): with `make_shards` unwrapping `NonZeroUsize::new(per_root_child · count)`, `PageCache::new` —
hence `Nomt::open` — with `page_cache_size = 0` ends in a panic for every shard count 1…64, while the code as it is opens
the store (`T13_page_cache_size0_opens`). -/
theorem T13_F25_page_cache_size0_counterexample {P : Type} (dbg : Bool) (root : Option (Entry P)) (n fl : Nat)
    (h1 : 1 ≤ n) (h64 : n ≤ 64) :
    (∃ m, PageCache.new { f25ZeroLimitUnwrap := true } dbg root n 0 fl = .panic m) ∧
    (∃ pc, PageCache.new {} dbg root n 0 fl = .ok pc) :=
  ⟨PageCache.new_size0_panics_f25 dbg root n fl h1 h64,
    ⟨_, PageCache.new_ok dbg root n 0 fl h1 h64 (by simp [usizeMax])⟩⟩

/-- **T13_page_set**: the working map of a `PageSet` shadows the warmed-up map (`get` after `insert` returns the inserted
page; another id is unaffected), a set created over a frozen one reads what the frozen one had inserted, and `contains`
does NOT see the warmed-up map. -/
theorem T13_page_set {P O : Type} (s : PageSet P O) (id k : PageId) (p : P) (o : O) (hk : k ≠ id) :
    (s.insert id p o).get id = some (p, o) ∧ (s.insert id p o).get k = s.get k ∧
    (PageSet.new (some s.freeze)).get id = Lru.find? s.map id ∧
    (PageSet.new (some s.freeze)).contains id = false :=
  ⟨PageSet.get_insert_self s id p o, PageSet.get_insert_ne s hk p o, PageSet.get_new_freeze s id,
    PageSet.contains_new _ id⟩

/-! ## seeded change `C13-leaf-cache-full-shard-keeps-stale` = `C13-leaf-cache-budget-skip-insert` (flag `leafSkipFull`) -/

def exLeafCache : LeafCache Nat := { shards := [{ cache := Lru.unbounded, maxItems := 1 }] }
def exLeafOps : List (LOp Nat) := [.lookup 5] ++ syncOps [(5, 9)] ++ [.lookup 5]
def leafOutputs (q : Flags) : Option (List Nat) :=
  match lrun q id ⟨exLeafCache, fun _ => 0, fun _ => false⟩ exLeafOps with
  | .ok (_, o) => some o
  | _ => none

/-- **T13_seeded_leaf_skip_full_counterexample** (kernel-checked): one shard with `max_items = 1`.  A lookup caches the
leaf at page number 5; a sync writes a new leaf to the recycled page number 5, `PostIoWork::run` inserts it, `evict`
runs; the next lookup of 5 must return the new leaf 9.  The sequence meets the protocol; the code as it is returns
`[0, 9]` like the uncached run; with `insert` skipping a full shard the cache keeps serving the stale leaf: `[0, 0]`. -/
theorem T13_seeded_leaf_skip_full_counterexample :
    LProto (fun _ => (0 : Nat)) (fun _ => false) exLeafOps ∧
    (lrefRun (fun _ => (0 : Nat)) exLeafOps).2 = [0, 9] ∧
    leafOutputs {} = some [0, 9] ∧
    leafOutputs { leafSkipFull := true } = some [0, 0] := by
  refine ⟨by simp [exLeafOps, syncOps, LProto], by decide, by decide, by decide⟩

/-! ## non-vacuity -/

def exStore : PStore Nat := fun id => if id = [3, 1] then some ⟨7, 40⟩ else if id = [] then some ⟨1, 2⟩ else none
def exOps : List (POp Nat) :=
  [.read [3, 1], .commit [([3, 1], some ⟨8, 40⟩), ([3, 2, 0], some ⟨9, 41⟩)], .evict, .fill [[3, 1]], .read [3, 2, 0],
   .commit [([3, 2, 0], none)], .read [3, 2, 0], .read [3, 1], .read []]

/-- T13_page_cache_transparent / _config_independent: a history with a miss, a commit, an eviction, a prepopulation and a
removal, under 7 shards × 0 MiB (one page per shard) × 1 pinned level and under 64 shards × 16 MiB × 3 pinned levels -/
example : ∃ pc₁ pc₂ s₁ s₂,
    PageCache.new {} true (exStore []) 7 0 1 = .ok pc₁ ∧ PageCache.new {} false (exStore []) 64 16 3 = .ok pc₂ ∧
    prun {} ⟨pc₁, exStore⟩ exOps = .ok (s₁, [some ⟨7, 40⟩, some ⟨9, 41⟩, none, some ⟨8, 40⟩, some ⟨1, 2⟩]) ∧
    prun {} ⟨pc₂, exStore⟩ (exOps.filter fun o => !o.cacheOnly) =
      .ok (s₂, [some ⟨7, 40⟩, some ⟨9, 41⟩, none, some ⟨8, 40⟩, some ⟨1, 2⟩]) := by
  have hv : ∀ op ∈ exOps, op.Valid := by
    intro op hop
    simp only [exOps, List.mem_cons, List.mem_nil_iff, or_false] at hop
    rcases hop with rfl | rfl | rfl | rfl | rfl | rfl | rfl | rfl | rfl <;>
      simp [POp.Valid, ValidId]
  have hv2 : ∀ op ∈ exOps.filter (fun o => !o.cacheOnly), op.Valid := fun op hop => hv op (List.mem_filter.mp hop).1
  obtain ⟨pc₁, pc₂, s₁, s₂, o, e₁, e₂, r₁, r₂, _⟩ := T13_page_cache_config_independent true false exStore 7 0 1 64 16 3
    (by decide) (by decide) (by decide) (by decide) exOps (exOps.filter fun o => !o.cacheOnly) hv hv2
    (by simp [List.filter_filter])
  have ho : o = [some ⟨7, 40⟩, some ⟨9, 41⟩, none, some ⟨8, 40⟩, some ⟨1, 2⟩] := by
    obtain ⟨s', r', _, _, _⟩ := T13_page_cache_transparent ⟨pc₁, exStore⟩
      (by rw [PageCache.new_ok true _ 7 0 1 (by decide) (by decide) (by decide)] at e₁
          cases e₁; exact ⟨by simp [freshShards_length], by simp [freshShards_length]⟩)
      (by rw [PageCache.new_ok true _ 7 0 1 (by decide) (by decide) (by decide)] at e₁
          cases e₁; exact fresh_coh 7 _ 1 _ exStore (fun r hr => hr)) exOps hv
    rw [r₁] at r'
    cases r'
    show (prefRun exStore exOps).2 = _
    decide
  exact ⟨pc₁, pc₂, s₁, s₂, e₁, e₂, ho ▸ r₁, ho ▸ r₂⟩

/-- T13_leaf_cache_transparent / T13_leaf_sync_meets_protocol: page number 5 is cached, released, recycled for another
leaf by a sync, looked up again; 3 shards, `max_items = 0` -/
example : LProto (fun _ => (0 : Nat)) (fun _ => false) ([.lookup 5, .peek 6] ++ (syncOps [(5, 9), (7, 3)] ++ [.lookup 5, .lookup 7])) ∧
    ∃ s', lrun {} (fun pn => pn * 7) ⟨{ shards := List.replicate 3 { cache := Lru.unbounded, maxItems := 0 } }, fun _ => (0 : Nat), fun _ => false⟩
      ([.lookup 5, .peek 6] ++ (syncOps [(5, 9), (7, 3)] ++ [.lookup 5, .lookup 7])) = .ok (s', [0, 0, 9, 3]) := by
  have hp : LProto (fun _ => (0 : Nat)) (fun _ => false) ([.lookup 5, .peek 6] ++ (syncOps [(5, 9), (7, 3)] ++ [.lookup 5, .lookup 7])) := by
    refine ⟨rfl, rfl, ?_⟩
    exact T13_leaf_sync_meets_protocol _ _ [(5, 9), (7, 3)] [.lookup 5, .lookup 7] (by decide) (by simp [LProto])
  refine ⟨hp, ?_⟩
  obtain ⟨s', r, _, _, _⟩ := T13_leaf_cache_transparent (fun pn => pn * 7)
    ⟨{ shards := List.replicate 3 { cache := Lru.unbounded, maxItems := 0 } }, fun _ => (0 : Nat), fun _ => false⟩
    (by simp) (by intro pn l _ hl; rw [LeafCache.fresh_view] at hl; cases hl) _ hp
  exact ⟨s', by rw [r]; rfl⟩

/-- T13_leaf_cache_config_independent: 1 shard × 0 MiB against 32 shards × 1 MiB with another hashing -/
example : ∃ lc₁ lc₂ s₁ s₂ o,
    LeafCache.new true 1 0 = .ok lc₁ ∧ LeafCache.new false 32 1 = .ok lc₂ ∧
    lrun {} id ⟨lc₁, fun pn => pn + 100, fun _ => false⟩ ([.lookup 5] ++ (syncOps [(5, 9)] ++ [.lookup 5])) = .ok (s₁, o) ∧
    lrun {} (fun pn => 3 * pn + 1) ⟨lc₂, fun pn => pn + 100, fun _ => false⟩ ([.lookup 5] ++ (syncOps [(5, 9)] ++ [.lookup 5])) = .ok (s₂, o) ∧
    s₁.disk = s₂.disk :=
  T13_leaf_cache_config_independent true false _ _ _ 1 0 32 1 (by decide) (by decide) (by decide) (by decide) _
    ⟨rfl, T13_leaf_sync_meets_protocol _ _ [(5, 9)] [.lookup 5] (by decide) (by simp [LProto])⟩

/-- T13_cache_budget / T13_evict_keeps_most_recent: four entries, limit 2 -/
example : ((⟨[(1, 10), (2, 20), (3, 30), (4, 40)], usizeMax - 1⟩ : Lru Nat Nat).evict 2).items = [(1, 10), (2, 20)] := by
  decide

/-- T13_cache_new_total / T13_cache_budget / T13_page_cache_size0_opens / T13_F25_page_cache_size0_counterexample -/
example : (∃ pc : PageCache Nat, PageCache.new {} true none 33 1 2 = .ok pc ∧ (pc.shards.map (·.pageLimit)).sum = 256) ∧
    (∃ pc : PageCache Nat, PageCache.new {} true none 33 0 2 = .ok pc ∧ (pc.shards.map (·.pageLimit)).sum = 33) ∧
    (∃ m, PageCache.new (P := Nat) { f25ZeroLimitUnwrap := true } true none 33 0 2 = .panic m) ∧
    (∃ lc : LeafCache Nat, LeafCache.new true 32 0 = .ok lc ∧ lc.shards.length = 32) := by
  refine ⟨⟨_, PageCache.new_ok true none 33 1 2 (by decide) (by decide) (by decide), ?_⟩,
    ⟨_, PageCache.new_ok true none 33 0 2 (by decide) (by decide) (by decide), ?_⟩,
    (T13_F25_page_cache_size0_counterexample true none 33 2 (by decide) (by decide)).1,
    ⟨_, LeafCache.new_ok true 32 0 (by decide) (by decide), by simp⟩⟩
  · exact freshShards_budget 33 4 (by decide) (by decide) (by decide)
  · exact freshShards_budget_zero 33

/-- T13_page_cache_size0_opens: the history of `exOps` on a size-0 cache of 64 shards -/
example : ∃ pc s', PageCache.new {} false (exStore []) 64 0 2 = .ok pc ∧ (∀ s ∈ pc.shards, s.pageLimit = 1) ∧
    prun {} ⟨pc, exStore⟩ exOps = .ok (s', (prefRun exStore exOps).2) := by
  have hv : ∀ op ∈ exOps, op.Valid := by
    intro op hop
    simp only [exOps, List.mem_cons, List.mem_nil_iff, or_false] at hop
    rcases hop with rfl | rfl | rfl | rfl | rfl | rfl | rfl | rfl | rfl <;>
      simp [POp.Valid, ValidId]
  obtain ⟨pc, s', e, l, r, _, _⟩ := T13_page_cache_size0_opens false exStore 64 2 (by decide) (by decide) exOps hv
  exact ⟨pc, s', e, l, r⟩

/-- T13_page_set -/
example : ((PageSet.new (P := Nat) (O := Nat) none).insert [1] 5 6).get [1] = some (5, 6) ∧
    (PageSet.new (some ((PageSet.new (P := Nat) (O := Nat) none).insert [1] 5 6).freeze)).get [1] = some (5, 6) ∧
    (PageSet.new (some ((PageSet.new (P := Nat) (O := Nat) none).insert [1] 5 6).freeze)).contains [1] = false := by
  decide

end Nomt.C13
