import NomtModel.Store.StepOrderCheck
import NomtModel.Props.C04_SyncGen
/-!
# C04 (topic: the edges of the sync choreography, read off the current Rust text)

`Props/C04_SyncGen.lean` proves that every run of the choreography `SyncGen.real` is accepted by the order monitor and is crash-atomic.  `real` is a
hand-written model whose happens-before edges can be switched off one at a time (`SyncGen.Variant`).  Three of those edges, and the two unconditional
joins in front of `Meta::write`, are visible as call ORDER in the controller functions that `tools/gen_steps.py` re-reads on every run; this file
computes the variant the CURRENT source denotes and proves it is `real`.
-/
namespace Nomt.C04
open Nomt.GenOrder N
open Nomt.Store

/-- the choreography variant denoted by the current source text (edges not visible as straight-line call order — the directory fsync of a segment
roll-over and "every completion received before the fsyncers are asked" live in loops — are taken from `real` and are tied by the membership check of real traces) -/
def variantOfSource : SyncGen.Variant :=
  { SyncGen.real with
    -- `beatree::SyncController::wait_pre_meta` joins the update task and awaits BOTH fsyncers, propagating their errors, and `Sync::sync` calls it before `Meta::write`
    waitBeatree := allBefore beatree_wait_pre_meta meta_write GenOrder.sync && allFallible beatree_wait_pre_meta GenOrder.sync &&
      allFallible join_begin_task ctl_beatree_wait_pre_meta && allFallible await_bbn_fsync ctl_beatree_wait_pre_meta &&
      allFallible await_ln_fsync ctl_beatree_wait_pre_meta &&
      -- the fsyncers are asked only after the update (which submits and awaits the page writes) has been prepared
      allBefore prepare_sync request_bbn_fsync ctl_beatree_begin_sync && allBefore prepare_sync request_ln_fsync ctl_beatree_begin_sync
    -- `write_ht` awaits the submitted pages before the table fsync
    waitHtWrites := allBefore submit_page await_completion write_ht && allBefore await_completion fsync write_ht && allBefore propagate_result fsync write_ht
    -- the table fsync (inside `write_ht`) precedes `truncate_wal` in `post_meta`
    htFsync := occurs fsync write_ht && allFallible fsync write_ht && allBefore write_ht_call truncate_wal_call ctl_bitbox_post_meta &&
      allFallible write_ht_call ctl_bitbox_post_meta }

/-- T4.order-3 the current source denotes the choreography the theorems are about, and the two joins the model has unconditionally in front of `Meta::write`
are in the text: the WAL task is spawned only after the table pages were set aside, `bitbox.wait_pre_meta` joins both tasks and is called, fallibly, before `Meta::write` -/
theorem T4_order_source_is_real_choreography :
    variantOfSource = SyncGen.real ∧
    allBefore bitbox_wait_pre_meta meta_write GenOrder.sync = true ∧ allFallible bitbox_wait_pre_meta GenOrder.sync = true ∧
    allFallible join_begin_task ctl_bitbox_wait_pre_meta = true ∧ allFallible join_wal_task ctl_bitbox_wait_pre_meta = true ∧
    allBefore set_ht_pages spawn_wal_writeout ctl_bitbox_begin_sync = true ∧ occurs write_wal_call ctl_bitbox_spawn_wal_writeout = true ∧
    allBefore meta_write bitbox_post_meta GenOrder.sync = true ∧ allBefore meta_write rollback_post_meta GenOrder.sync = true := by decide

/-- T4.order-4 hence every run of the choreography THE SOURCE DENOTES is accepted by the order monitor (T4.10 instantiated) -/
theorem T4_order_source_choreography_accepted (Pm : SyncGen.Params) (hwf : Pm.WF) (tr : List Store.IoEv2)
    (hrun : SyncGen.OpLang variantOfSource Pm tr) :
    ∃ st, Store.checkOrder tr = .ok st ∧ st.phase = 2 := by
  rw [T4_order_source_is_real_choreography.1] at hrun
  exact (T4_sync_program_accepted Pm hwf tr hrun).1

end Nomt.C04
