import NomtModel.Store.BranchUpdRelease
import NomtModel.Store.BranchUpdExamples
/-!
# C19 — the branch stage frees the page of every replaced branch node exactly once

`runWorker` (`Store/BranchUpdModel.lean`) is the mirror of `branch_stage.rs::run_worker` for one worker over the whole
level; its second component is the list of page numbers handed to `branches_tracker.delete` (they become
`BranchStageOutput::freed_pages` and go to the free list of the bbn store); `oldBbns out` are the page numbers of the old
nodes that are part of the new level unchanged.  Tie to the code: the `stage` lines of the `branchupd` differential (the
real `branch_stage::run`: freed page numbers compared with the mirror's, and with the harness's own count).
-/
namespace Nomt.C19
open Nomt Nomt.BranchUpd

/-- **T19.branch_released_partition** — for any level, any change list and any key functions: whenever the stage ends
without reaching a panic site, the released page numbers together with the page numbers of the untouched nodes of the
new level are exactly (as a multiset) the page numbers of the old level: no old node is dropped without its page being
released, none is released and kept, none is released twice. -/
theorem T19_branch_released_partition (kf : KF) (db : List DbNode) (cs : List (Nat × Option Nat))
    (out : List OutNode) (rel : List Nat) (h : runWorker kf db cs = some (out, rel)) :
    (rel ++ oldBbns out).Perm (db.map (·.bbn)) :=
  runWorker_ledger kf db cs out rel h

/-- **T19.branch_released_once** — with pairwise distinct page numbers in the old level: a page number is released at
most once, a released page is not referenced by the new level, and every old node that is not part of the new level has
been released. -/
theorem T19_branch_released_once (kf : KF) (db : List DbNode) (cs : List (Nat × Option Nat))
    (out : List OutNode) (rel : List Nat) (h : runWorker kf db cs = some (out, rel))
    (hnd : (db.map (·.bbn)).Nodup) :
    rel.Nodup ∧ (∀ p ∈ rel, p ∉ oldBbns out) ∧ (∀ n ∈ db, n.bbn ∈ rel ∨ n.bbn ∈ oldBbns out) := by
  have p := runWorker_ledger kf db cs out rel h
  have nd : (rel ++ oldBbns out).Nodup := p.nodup_iff.2 hnd
  rw [List.nodup_append] at nd
  refine ⟨nd.1, fun x hx hy => nd.2.2 x hx x hy rfl, ?_⟩
  intro n hn
  have : n.bbn ∈ rel ++ oldBbns out := p.mem_iff.2 (List.mem_map.2 ⟨n, hn, rfl⟩)
  exact List.mem_append.1 this

/-! ## non-vacuity -/

/-- one delete in the first node: it is under-full, the merge cascades over all followers (every node is rewritten and
released); one update in the third node only: the first two nodes stay, the third is under-full and is merged with the
last one -/
example :
    (runWorker kfReal exDb [(exKey 0 5, none)]).map (fun r => (r.2, oldBbns r.1)) = some ([1, 2, 3, 4], []) ∧
    (runWorker kfReal exDb [(exKey 2 7, some 99)]).map (fun r => (r.2, oldBbns r.1)) = some ([3, 4], [1, 2]) := by
  decide +kernel

end Nomt.C19
