import NomtModel.Store.CacheNew
/-!
# C05 (topic: cold or warm caches) — the pages a seek reads are the stored pages whatever the caches hold

`seek.rs` takes every merkle page from the page set, else from `PageCache::get`, else from the hash table followed by
`PageCache::insert` whose RETURNED page it uses; `T5_seek_is_proveSpec` (`Props/C05_Seek.lean`) is stated over the page
universe those reads deliver.  This file shows that the universe is the store's, with cold or warm caches.
-/
namespace Nomt.C05
open Nomt Nomt.Cache

/-- **T5_cached_page_read_is_store_read**: with a page cache coherent with the store — in particular a cold one (just
opened, with or without prepopulation) or one warmed by any earlier history (`T13_page_cache_transparent` keeps the
invariant) — the page a seek obtains for ANY page id is exactly the page the hash table holds (`none` iff it holds none),
no panic site is reached, and the cache stays coherent. -/
theorem T5_cached_page_read_is_store_read {P : Type} (pc : PageCache P) (store : PStore P) (w : pc.WF)
    (h : Coh pc store) (id : PageId) (hv : ValidId id) :
    ∃ pc', pageRead pc store id = .ok (store id, pc') ∧ Coh pc' store ∧ Same pc pc' :=
  pageRead_ok pc store w h id hv

/-- non-vacuity: a miss on a cold cache (filled from the store), then a hit -/
example : ∃ pc' pc'', pageRead (P := Nat) { shards := freshShards 3 4, root := none, fixedLevels := 1 }
      (fun id => if id = [9, 9] then some ⟨5, 6⟩ else none) [9, 9] = .ok (some ⟨5, 6⟩, pc') ∧
    pc'.view [9, 9] = some ⟨5, 6⟩ ∧
    pageRead pc' (fun id => if id = [9, 9] then some ⟨5, 6⟩ else none) [9, 9] = .ok (some ⟨5, 6⟩, pc'') := by
  refine ⟨_, _, rfl, by decide, rfl⟩

end Nomt.C05
