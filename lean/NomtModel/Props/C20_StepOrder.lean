import NomtModel.Store.StepOrderCheck
/-!
# C20 — the ORDER of the open path in the CURRENT source text: the directory lock comes first

`tools/gen_steps.py` re-reads `Store::open`, `create` (`nomt/src/store/mod.rs`) and `Flock::lock`
(`nomt/src/store/flock.rs`) on every run into `Generated/StepOrder.lean` (`store_open`, `store_create`,
`flock_lock_fn`).  The theorems below are kernel `decide`s over those lists: moving the `Flock::lock` call below a
file creation / a file open / `Meta::read` / a part that repairs files (`DB::open` = WAL redo, `Rollback::read` = seglog
clean-up), or dropping its `?`, breaks an obligation on the next run.  They are the source-text counterpart of
`T20_open_order` (`Props/C20_OpenPath.lean`), whose mirror has this order by construction.
-/
namespace Nomt.C20
open Nomt.GenOrder

/-- **T20_create_locks_first**: in `create`, `Flock::lock` precedes every file creation and write (`File::create` of
`meta`, `Meta::write`, `bitbox::create`, `beatree::create`, the directory fsync), its failure is propagated, and the
only steps before it are `create_dir_all` and opening the directory; the function is straight-line -/
theorem T20_create_locks_first :
    allBefore .flock_lock .file_create store_create = true ∧ allBefore .flock_lock .meta_write store_create = true ∧
    allBefore .flock_lock .bitbox_create store_create = true ∧ allBefore .flock_lock .beatree_create store_create = true ∧
    allBefore .flock_lock .dir_fsync store_create = true ∧ allFallible .flock_lock store_create = true ∧
    (names store_create).takeWhile (· ≠ .flock_lock) = [.create_dir_all, .dir_open] ∧ straight store_create = true := by
  decide

/-- **T20_open_locks_first**: in `Store::open`, every occurrence of the lock (`create(..)?` in the creating branch,
`Flock::lock(..)?` in the other) precedes the I/O pool, every `OpenOptions … open(path.join(..))` of a database file,
`Meta::read`, `validate`, `Tree::open`, `DB::open` (WAL redo writes the table), `Rollback::read` (seglog clean-up) and
`Sync::new`; both propagate their failure; before them only the emptiness test and opening the directory happen -/
theorem T20_open_locks_first :
    allBefore .flock_lock .io_pool_start store_open = true ∧ allBefore .flock_lock .file_open_rw store_open = true ∧
    allBefore .flock_lock .meta_read store_open = true ∧ allBefore .flock_lock .tree_open store_open = true ∧
    allBefore .flock_lock .db_open store_open = true ∧ allBefore .flock_lock .rollback_read store_open = true ∧
    allBefore .create_call .io_pool_start store_open = true ∧ allBefore .create_call .db_open store_open = true ∧
    allBefore .meta_read .meta_validate store_open = true ∧ allBefore .meta_validate .tree_open store_open = true ∧
    allFallible .flock_lock store_open = true ∧ allFallible .create_call store_open = true ∧
    allFallible .meta_read store_open = true ∧ allFallible .meta_validate store_open = true ∧
    (names store_open).takeWhile (· ≠ .io_pool_start) = [.empty_check, .create_call, .dir_open, .flock_lock] ∧
    straight store_open = true := by
  decide

/-- **T20_refused_lock_bails**: `Flock::lock` opens the lock file (failure propagated), tries the exclusive lock, and
the failing arm bails — nothing else -/
theorem T20_refused_lock_bails :
    names flock_lock_fn = [.lock_file_open, .try_lock, .bail] ∧ allFallible .lock_file_open flock_lock_fn = true ∧
    allFallible .try_lock flock_lock_fn = true := by
  decide

/-- non-vacuity: the lists are not empty and contain the lock -/
example : occurs .flock_lock store_open = true ∧ occurs .flock_lock store_create = true ∧ store_open.length = 16 := by
  decide

end Nomt.C20
