import NomtModel.Store.RbSync
/-!
# C12 — a deferred commit leaves the rollback log untouched and hands the delta back

Property theorems about the mirror of `Rollback::commit_nonblocking` / `Rollback::truncate` (`Store/RbModel.lean`); the
caller (`FinishedSession::try_commit_nonblocking`) puts the delta handed back into the changeset it returns, so a deferred
attempt can be repeated (specification level: T12.4).  Tie to the code: harness commands `delta` (`try_commit_nonblocking`
on the real store while the harness holds one of the two locks, hook H9) and `delta-log` (`commit_nonblocking` on the real
`Rollback`) vs driver mode `delta`.
-/
namespace Nomt.C12
open Nomt Nomt.Rb
variable {V : Type}

/-- **T12.delta.busy — busy hand-back.**  If either lock `commit_nonblocking` tries (`in_memory`, then `seglog`) is taken,
the result is `Some(delta)` with the very delta passed in, and the whole state of the rollback log — in-memory deltas,
pending truncation, the seglog's live range and records — is unchanged (nothing was appended, no record id consumed). -/
theorem T12_commit_nonblocking_busy_handback (r : Rb V) (inMemFree segFree : Bool) (d : Delta V)
    (hbusy : inMemFree = false ∨ segFree = false) :
    r.commitNonblocking inMemFree segFree d = (some d, r) := by
  rcases hbusy with h | h
  · simp [Rb.commitNonblocking, h]
  · cases inMemFree <;> simp [Rb.commitNonblocking, h]

/-- with both locks free `commit_nonblocking` is `commit`, and nothing is handed back -/
theorem T12_commit_nonblocking_free_is_commit (r : Rb V) (d : Delta V) :
    r.commitNonblocking true true d = (none, r.commit d) := by
  simp [Rb.commitNonblocking]

/-- a deferred attempt can simply be repeated: busy any number of times, then free, is one blocking commit of the
same delta -/
theorem T12_retry_after_busy (r : Rb V) (d : Delta V) (attempts : List (Bool × Bool))
    (hbusy : ∀ a ∈ attempts, a.1 = false ∨ a.2 = false) :
    attempts.foldl (fun (s : Option (Delta V) × Rb V) a =>
        match s.1 with
        | some d' => s.2.commitNonblocking a.1 a.2 d'
        | none => s) (some d, r) = (some d, r) ∧
    r.commitNonblocking true true d = (none, r.commit d) := by
  refine ⟨?_, T12_commit_nonblocking_free_is_commit r d⟩
  induction attempts with
  | nil => rfl
  | cons a rest ih =>
    simp only [List.foldl_cons]
    rw [T12_commit_nonblocking_busy_handback r a.1 a.2 d (hbusy a (List.mem_cons_self ..))]
    exact ih (fun a' ha' => hbusy a' (List.mem_cons_of_mem _ ha'))

/-- **T12.delta.truncate — a rollback that cannot be served changes nothing**: `truncate(n)` with fewer than `n` deltas held
returns `None` and the state itself (`Nomt::rollback` then fails with "not enough logged for rolling back") -/
theorem T12_truncate_refused_noop (r : Rb V) (n : Nat) (h : r.log.length < n) : r.truncate n = .ok (none, r) :=
  (truncate_spec r n).2.1 h

/-- non-vacuity: a log holding one delta, `seglog` lock taken -/
example :
    let r : Rb Nat := (({ maxLen := 3 } : Rb Nat).commit [([true], some 1)])
    r.commitNonblocking true false [([false], none)] = (some [([false], none)], r) ∧ r.log.length = 1 ∧
    (r.commitNonblocking true true [([false], none)]).2.log.length = 2 ∧ r.truncate 2 = .ok (none, r) := by
  refine ⟨by rfl, by rfl, by rfl, by rfl⟩

end Nomt.C12
