import NomtModel.Props.C10_OpenPath
/-!
# C13 — the creation-time parameters (bucket count, seed) of an existing store do not depend on the `Options` of a later open
-/
namespace Nomt.C13
open Nomt Nomt.Store Nomt.OpenPath

variable {Tree Log : Type}

/-- **T13_open_ignores_option_seed**: two opens of one existing directory under ANY two `Options` (other
`hashtable_buckets`, other `bitbox_seed`, other workers / caches / rollback flag) run with the same bucket count and
seed — in the table AND in `Sync`, i.e. in every manifest written afterwards — the same sequence number and frontiers -/
theorem T13_open_ignores_option_seed (dbg : Bool) (P : Parts Tree Log) (o1 o2 : Options) (d : Dir)
    (hp : d.present = true) (hne : d.files.isEmpty = false) (hl : d.lockedByOther = false) (r1 r2 : Opened Tree Log)
    (h1 : (storeOpen {} dbg P o1 d).1 = .ok r1) (h2 : (storeOpen {} dbg P o2 d).1 = .ok r2) :
    r1.syncNumPages = r2.syncNumPages ∧ r1.capacity = r2.capacity ∧ r1.syncSeed0 = r2.syncSeed0 ∧
    r1.syncSeed1 = r2.syncSeed1 ∧ r1.bitboxSeed0 = r2.bitboxSeed0 ∧ r1.bitboxSeed1 = r2.bitboxSeed1 := by
  obtain ⟨_, a, b, c, e, f, g, _⟩ := C10.T10_open_config_independent dbg P o1 o2 d hp hne hl r1 r2 h1 h2
  exact ⟨a, b, c, e, f, g⟩

/-- **T13_seeded_sync_uses_option_seed_counterexample** (seeded change `C13-sync-uses-option-seed`:
`Sync::new(meta.sync_seqn, meta.bitbox_num_pages, o.bitbox_seed, …)`, mirror flag `syncSeedFromOptions`): EVERY
successful open of an existing directory under `Options` whose seed differs from the manifest's leaves a store that
probes its table with the manifest's seed but will write the OPTION's seed into the next manifest — after the next
commit the stored pages are no longer found (`compute_root_node` then meets a missing root page:
`T10_root_missing_page_counterexample`). -/
theorem T13_seeded_sync_uses_option_seed_counterexample (dbg : Bool) (P : Parts Tree Log) (o : Options) (d : Dir)
    (hp : d.present = true) (hne : d.files.isEmpty = false) (hl : d.lockedByOther = false) (r : Opened Tree Log)
    (h : (storeOpen { syncSeedFromOptions := true } dbg P o d).1 = .ok r) :
    ∃ metaF m, d.get .manifest = some metaF ∧ metaRead metaF = .ok m ∧
      r.bitboxSeed0 = m.seed0 ∧ r.syncSeed0 = o.seed0 ∧ (o.seed0 ≠ m.seed0 → r.syncSeed0 ≠ r.bitboxSeed0) := by
  rw [storeOpen_existing _ dbg P o d hp hne hl] at h
  obtain ⟨metaF, m, h1, h2, _, _, _, h6, _, h8, _⟩ := openFiles_ok _ dbg P o d r h
  refine ⟨metaF, m, h1, h2, h8, by simpa using h6, ?_⟩
  intro hne'
  rw [h8]
  have : r.syncSeed0 = o.seed0 := by simpa using h6
  rw [this]; exact hne'

/-- non-vacuity of the flag: the mirror with and without it differs exactly in the `Sync` seed (by definition); the
seeded patch itself is caught by the `openpath` differential on the first reopened directory (notes/Q37.md) -/
example : ({ syncSeedFromOptions := true } : OpenFlags) ≠ {} := by decide

end Nomt.C13
