import NomtModel.Api.SplitCanon
import NomtModel.Api.SplitExample
import NomtModel.Props.C06
/-!
# C06 (topic: assembly) — the session witness is assembled correctly from the outputs of the commit workers

`UpdateHandle::join` (`nomt/src/merkle/mod.rs`) receives one `WorkerOutput` per commit worker, **in the order the
workers finish**, and stitches the witnessed paths and the per-batch operation ranges into the `Witness`.  The mirror
(`Api/Split.lean`: `runWorkers` → `workerOut` → `join`, every slice / index / arithmetic panic site a `none`) is
proved equal to the specification `witnessSpec` of C06 for every worker count 1 … 64, every key-sorted operation
list, every prior state and every completion order; the per-worker trie work is abstracted by the specification
(`proveSpec`), and the `shards` differential compares the mirror with the real workers line by line.
-/
namespace Nomt.C06
open Nomt Nomt.Api Nomt.Split
variable {Node VH : Type} [DecidableEq Node] [DecidableEq VH] (H : Hasher Node VH)

/-- T6.9 **`join` is concatenation in arrival order.**  For every worker count `n ∈ 1…64`, every operation list
with `L`-bit keys (`L ≥ 6`) and every list `order` of worker indices: no worker and no step of `join` reaches a panic
site (`read_write[witnessed_start..witnessed_end]`, `min(pushes, batch_size) - 1`, …) and the assembled witness is
the flat form of the workers' groups — witnessed path of each owned batch with exactly the operations of that batch —
concatenated in the order the outputs arrived: every `path_index` points at the path of the operation's own batch.
Needs only that terminal positions are prefixes of their keys and stable below a terminal (`TermFn`). -/
theorem T6_9_join_is_concatenation (L n : Nat) (prover : Key → PathProof Node VH) (ops : List (Op VH))
    (T : TermFn L (tpOf prover)) (hlen : ∀ o ∈ ops, o.1.length = L) (hL : 6 ≤ L) (h1 : 1 ≤ n) (h64 : n ≤ 64)
    (order : List Nat) (hord : ∀ i ∈ order, i < n) :
    assemble L n prover ops order = some (flat (order.flatMap (workerGroups L n prover ops))) :=
  assemble_spec L n prover ops T hlen hL h1 h64 order hord

/-- T6.10 **assembly in worker order IS the specified witness.**  With the outputs taken in worker order `0 … n-1`
the result of `join` is `witnessSpecL` of the read keys and the written values, path for path, operation for
operation (in the flat representation of `nomt_core::witness::Witness`) — for every `n ∈ 1…64`, every canonical
prior state and every key-sorted batch. -/
theorem T6_10_assembly_in_worker_order (hs : H.Sound) (L : Nat) (view : KVL VH) (hc : Canon L 0 view)
    (hsorted : view.Pairwise KeyLt) (n : Nat) (ops : List (Op VH)) (hlen : ∀ o ∈ ops, o.1.length = L)
    (hsort : ops.Pairwise KeyLt) (hL : 6 ≤ L) (h1 : 1 ≤ n) (h64 : n ≤ 64) :
    assemble L n (proveSpec H L view) ops (List.range n)
      = some (flat (witnessSpecL H L view (readKeys ops) (subtrieOps ops))) :=
  assemble_worker_order H hs L view hc hsorted n ops hlen hsort hL h1 h64

/-- T6 **the assembled witness does not depend on the order in which the workers complete.**  For EVERY
permutation `order` of the workers: `join` succeeds, the witnessed paths with the operations pointing at them are a
permutation of the specified witness, and sorted by path they ARE the specified witness `witnessSpecL` (paths
strictly ascending, each operation attached to the path covering it) — hence, by T6.5 – T6.7, every path verifies,
every read is attested with the view's value and `verify_update` replays to the new root, whatever the schedule. -/
theorem T6_witness_assembly_order_independent (hs : H.Sound) (L : Nat) (view : KVL VH) (hc : Canon L 0 view)
    (hsorted : view.Pairwise KeyLt) (n : Nat) (ops : List (Op VH)) (hlen : ∀ o ∈ ops, o.1.length = L)
    (hsort : ops.Pairwise KeyLt) (hL : 6 ≤ L) (h1 : 1 ≤ n) (h64 : n ≤ 64)
    (order : List Nat) (hperm : order.Perm (List.range n)) :
    ∃ a, assemble L n (proveSpec H L view) ops order = some a ∧
      a.groups.Perm (witnessSpecL H L view (readKeys ops) (subtrieOps ops)) ∧
      a.canon = witnessSpecL H L view (readKeys ops) (subtrieOps ops) :=
  assemble_any_order H hs L view hc hsorted n ops hlen hsort hL h1 h64 order hperm

/-- T6.11 the flat `Witness` representation loses nothing: grouping reads / writes by `path_index` gives the list of
witnessed paths with their operations back. -/
theorem T6_11_groups_of_flat (ws : List (WPath Node VH)) : (flat ws).groups = ws := groups_flat ws

/-- T6.12 **the value `join` attests for a read is the session's view.**  `join` takes the value of a read from the
leaf of the batch's terminal if that leaf has the read key and "absent" otherwise; for every key below the terminal
of the batch's first key this is `kvGet view`. -/
theorem T6_12_attested_value_is_view (hs : H.Sound) (L : Nat) (view : KVL VH) (hc : Canon L 0 view)
    (hsorted : view.Pairwise KeyLt) (k0 k : Key) (h0 : k0.length = L) (hk : k.length = L)
    (hp : tpOf (proveSpec H L view) k0 <+: k) :
    leafValue (proveSpec H L view k0).terminal k = kvGet view k :=
  leafValue_spec H hs L view hc hsorted k0 k h0 hk hp

/-! ### the instance of `Api/SplitExample.lean` (3 workers, a depth-1 terminal straddling the boundary 21 | 22) -/
open Nomt.Split.Ex

/-- the three workers' index ranges, and their completions: worker 0 owns the batch `[0,2)` under the terminal `0`
although its range ends at 1; worker 1 leaves it alone (`owned = false`) and owns `[2,3)` -/
example : (List.range 3).map (fun i => (rangeStart 8 3 i Ex.ops, rangeEnd 8 3 i Ex.ops)) = [(0, 1), (1, 3), (3, 4)] ∧
    bss.map (fun bs => bs.map fun b => (b.start, b.next, b.pos, b.owned)) =
      [ [(0, 2, [false], true)],
        [(1, 2, [false], false), (2, 3, [true, false], true)],
        [(3, 4, [true, true, false], true)] ] := by decide

/-- non-vacuity of T6.10 / T6: in worker order the assembled witness is the specified one; in the completion order
2, 0, 1 the paths come in another order and every operation still points at the path covering it -/
example :
    summary (assemble 8 3 prover Ex.ops [0, 1, 2]) = some
      { paths := [[false], [true, false], [true, true, false]],
        reads := [(k00000100, none, 0), (k11000000, some 1, 2)],
        writes := [(k01100000, some 5, 0), (k10000000, some 6, 1), (k11000000, none, 2)] } ∧
    summary (assemble 8 3 prover Ex.ops [2, 0, 1]) = some
      { paths := [[true, true, false], [false], [true, false]],
        reads := [(k11000000, some 1, 0), (k00000100, none, 1)],
        writes := [(k11000000, none, 0), (k01100000, some 5, 1), (k10000000, some 6, 2)] } := by decide

example : (witnessSpecL TH 8 Ex.view (readKeys Ex.ops) (subtrieOps Ex.ops)).map (fun w => (w.path, w.reads, w.writes)) =
    [ ([false], [(k00000100, none)], [(k01100000, some 5)]),
      ([true, false], [], [(k10000000, some 6)]),
      ([true, true, false], [(k11000000, some 1)], [(k11000000, none)]) ] := by rfl

/-- T6.13 **F3, kernel-checked**: `join` as it was before the repair (one running `witnessed_start` across the
outputs, `Split.joinOld`) is correct when the outputs happen to arrive in worker order, and wrong for the
completion order 1, 0, 2 of the instance: the read of `00000100` is attached to the path `10` (which does not cover
it) and the write of `10000000` to the path `0`. -/
theorem T6_13_F3_completion_order_assembly_is_wrong :
    summary (joinOld Ex.ops (outs [0, 1, 2]) 0 0 {}) = summary (assemble 8 3 prover Ex.ops [0, 1, 2]) ∧
    summary (joinOld Ex.ops (outs [1, 0, 2]) 0 0 {}) = some
      { paths := [[true, false], [false], [true, true, false]],
        reads := [(k00000100, none, 0), (k11000000, some 1, 2)],
        writes := [(k01100000, some 5, 1), (k10000000, some 6, 1), (k11000000, none, 2)] } ∧
    summary (joinOld Ex.ops (outs [1, 0, 2]) 0 0 {}) ≠ summary (assemble 8 3 prover Ex.ops [1, 0, 2]) := by decide

/-- T6.14 **the red-team change, kernel-checked**: a worker that pins `witnessed_start` at the start of its RANGE
instead of its first OWNED batch (`Split.workerOutPinned`) breaks the witness even when the outputs arrive in worker
order — worker 1's range starts at index 1, inside the batch of the straddling terminal `0` that worker 0 owns: the
write of `01100000` is listed twice (also under the path `10`, which does not cover it) and the write of `10000000`
is lost. -/
theorem T6_14_witnessed_start_at_range_start_is_wrong :
    (outs [0, 1, 2]).map (·.witnessedStart) = [some 0, some 2, some 3] ∧
    (outsPinned [0, 1, 2]).map (·.witnessedStart) = [some 0, some 1, some 3] ∧
    summary (join Ex.ops (outsPinned [0, 1, 2]) 0 {}) = some
      { paths := [[false], [true, false], [true, true, false]],
        reads := [(k00000100, none, 0), (k11000000, some 1, 2)],
        writes := [(k01100000, some 5, 0), (k01100000, some 5, 1), (k11000000, none, 2)] } ∧
    summary (join Ex.ops (outsPinned [0, 1, 2]) 0 {}) ≠ summary (assemble 8 3 prover Ex.ops [0, 1, 2]) := by decide

/-- the hypotheses of T6.10 hold for the instance (term hasher) -/
example : assemble 8 3 (proveSpec TH 8 Ex.view) Ex.ops (List.range 3)
    = some (flat (witnessSpecL TH 8 Ex.view (readKeys Ex.ops) (subtrieOps Ex.ops))) :=
  T6_10_assembly_in_worker_order TH TH_sound 8 Ex.view (by simp [Ex.view, Canon, side, k11000000, k11100000])
    (by decide) 3 Ex.ops (by decide) (by decide) (by decide) (by decide) (by decide)

end Nomt.C06
