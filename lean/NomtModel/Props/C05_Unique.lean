import NomtModel.Core.PathUnique
import NomtModel.Core.TermHasher
/-!
# C05 — T5.3: the verifying path proof of a key is unique

`Props/C05.lean` proves that the specified proof `proveSpec S k` verifies (T5.1) and is truthful (T5.2).  Here:
under `Hasher.Sound`, for a canonical set `S` of `L`-bit keys and an `L`-bit key `k`, ANY proof object that
`PathProof::verify` accepts against the root of `S` with key path `k` **is** `proveSpec S k`:

* the same depth (number of siblings) — neither a shorter nor a longer proof exists: a shorter one would have
  to present an internal node as a leaf / terminator, a longer one hashes through a depth at which the trie
  has already ended (compact leaf or terminator), and `Sound` separates the three kinds of node;
* the same siblings, one by one (`internal_inj`);
* the same terminal — the same leaf `(k0, vh)` (for an absent `k` below a compact leaf: that other key's
  leaf), or a terminator.  A terminator carries a `TriePosition` that `verify` does not hash and does not
  check; it is the only freedom, removed by the normal form "the terminator's position is the first
  `siblings.len()` bits of `k`" (what `Session::prove` emits).

So the store has no freedom in what a correct `Session::prove` returns: the equality with `proveSpec` that
the differential run checks is a consequence of the proof verifying, not an implementation detail.
Counterexamples (kernel-checked) show that each hypothesis is needed.
-/
namespace Nomt.C05
open Nomt
variable {Node VH : Type} [DecidableEq Node] [DecidableEq VH] (H : Hasher Node VH)

/-- normal form: a terminator's (unhashed) position is where the key path ends -/
def NormalForm (P : PathProof Node VH) (k : Key) : Prop :=
  ∀ pos, P.terminal = .terminator pos → pos = k.take P.siblings.length

/-- T5.3 **uniqueness of the verifying proof.**  `H` sound, `S` canonical, `k` an `L`-bit key, `P` ANY proof
object accepted by `verify` against the root of `S` with key path `k` (so `k` is in its scope).  Then `P` has
exactly the siblings of `proveSpec S k` (in particular the same depth), and its terminal is the specified
one: the same leaf, or both are terminators, the specified one at position `k[..depth]`. -/
theorem T5_3_verifying_proof_unique (hs : H.Sound) (L : Nat) (S : List (Key × VH)) (hc : Canon L 0 S)
    (k : Key) (hk : k.length = L) (P : PathProof Node VH) (v : Verified Node VH)
    (hv : verify H L P k (nodeAt H L 0 S) = .ok v) :
    P.siblings = (proveSpec H L S k).siblings ∧
    ((∃ k0 v0, P.terminal = .leaf k0 v0 ∧ (proveSpec H L S k).terminal = .leaf k0 v0) ∨
     (∃ pos, P.terminal = .terminator pos ∧
       (proveSpec H L S k).terminal = .terminator (k.take P.siblings.length))) := by
  unfold verify at hv
  split at hv
  · cases hv
  · rename_i hguard
    simp only at hv
    split at hv
    · rename_i hroot
      have hlen : P.siblings.length ≤ L := by
        have : P.siblings.length ≤ min k.length L := by omega
        omega
      have := proveAux_unique H hs L 0 S k P.terminal P.siblings hc (by omega) hlen
        (by simpa using hroot)
      simpa [proveSpec, TermAgrees] using this
    · cases hv

/-- T5.3a with the terminator position in normal form the proof object itself is unique:
`P = proveSpec S k`, field by field. -/
theorem T5_3a_normal_form_eq_proveSpec (hs : H.Sound) (L : Nat) (S : List (Key × VH)) (hc : Canon L 0 S)
    (k : Key) (hk : k.length = L) (P : PathProof Node VH) (v : Verified Node VH)
    (hv : verify H L P k (nodeAt H L 0 S) = .ok v) (hn : NormalForm P k) :
    P = proveSpec H L S k := by
  obtain ⟨h1, h2⟩ := T5_3_verifying_proof_unique H hs L S hc k hk P v hv
  have ht : P.terminal = (proveSpec H L S k).terminal := by
    rcases h2 with ⟨k0, v0, e1, e2⟩ | ⟨pos, e1, e2⟩
    · rw [e1, e2]
    · rw [e2, e1, hn pos e1]
  cases P with
  | mk t s =>
    cases hps : proveSpec H L S k with
    | mk t' s' =>
      rw [hps] at h1 ht
      simp only at h1 ht
      rw [h1, ht]

/-- T5.3b two accepted proofs for the same key against the same root give the same `VerifiedPathProof`
(path, terminal as `Option<LeafData>`, siblings, root): whatever is done with the verified object —
`confirm_value`, `confirm_nonexistence`, `verify_update` — cannot depend on which accepted proof was
supplied. -/
theorem T5_3b_verified_unique (hs : H.Sound) (L : Nat) (S : List (Key × VH)) (hc : Canon L 0 S)
    (k : Key) (hk : k.length = L) (P Q : PathProof Node VH) (v w : Verified Node VH)
    (hv : verify H L P k (nodeAt H L 0 S) = .ok v) (hw : verify H L Q k (nodeAt H L 0 S) = .ok w) :
    v = w := by
  obtain ⟨p1, p2⟩ := T5_3_verifying_proof_unique H hs L S hc k hk P v hv
  obtain ⟨q1, q2⟩ := T5_3_verifying_proof_unique H hs L S hc k hk Q w hw
  have hsib : P.siblings = Q.siblings := by rw [p1, q1]
  unfold verify at hv hw
  split at hv
  · cases hv
  · split at hw
    · cases hw
    · simp only at hv hw
      split at hv
      · split at hw
        · injection hv with hv; injection hw with hw
          rw [← hv, ← hw, hsib]
          rcases p2 with ⟨k0, v0, e1, e2⟩ | ⟨pos, e1, e2⟩ <;> rcases q2 with ⟨k1, v1, f1, f2⟩ | ⟨pos', f1, f2⟩
          · rw [e2] at f2; injection f2 with a b; subst a; subst b; simp [e1, f1]
          · rw [e2] at f2; cases f2
          · rw [e2] at f2; cases f2
          · simp [e1, f1]
        · cases hw
      · cases hv

/-! ### Non-vacuity and counterexamples (term hasher `TH`, which is `Sound`) -/

def exS2 : List (Key × Nat) := [([false, false], 7), ([false, true], 8)]
def exS3 : List (Key × Nat) := [([false, false], 7), ([false, true], 8), ([true, true], 9)]

/-- the theorem applied: the honest proof of the absent key `10` under the compact leaf `11` -/
example : proveSpec TH 2 exS3 [true, false] = ⟨.leaf [true, true] 9, [.node (.leaf [false, false] 7) (.leaf [false, true] 8)]⟩ := by
  rfl
example (P : PathProof T Nat) (v : Verified T Nat)
    (hv : verify TH 2 P [true, false] (nodeAt TH 2 0 exS3) = .ok v) (hn : NormalForm P [true, false]) :
    P = ⟨.leaf [true, true] 9, [.node (.leaf [false, false] 7) (.leaf [false, true] 8)]⟩ := by
  rw [T5_3a_normal_form_eq_proveSpec TH TH_sound 2 exS3 (by simp [exS3, Canon, side]) [true, false] rfl P v hv hn]
  rfl

/-- **Counterexample 1 — the terminator position is free.**  In `{00, 01}` the key `10` ends in a terminator
at depth 1.  The same siblings with a terminator carrying ANY position verify (the position is not hashed),
so without the normal form the proof object is not unique — `verify` gives the same `VerifiedPathProof`
for both (T5.3b). -/
example :
    let good : PathProof T Nat := proveSpec TH 2 exS2 [true, false]
    let other : PathProof T Nat := { good with terminal := .terminator [false, false, true] }
    good.terminal = .terminator [true] ∧ other ≠ good ∧
    (∃ v, verify TH 2 good [true, false] (nodeAt TH 2 0 exS2) = .ok v ∧
          verify TH 2 other [true, false] (nodeAt TH 2 0 exS2) = .ok v) := by
  refine ⟨rfl, ?_, _, rfl, rfl⟩
  intro h
  have := congrArg (·.terminal) h
  simp [proveSpec, proveAux, exS2, side] at this

/-- **Counterexample 2 — depth.**  A proof that is too short or too long does not verify under a sound
hasher: cutting the last sibling of the honest proof of `01`, or extending the honest proof of `10` below
its terminator by one more (terminator) sibling, is rejected. -/
example :
    (∃ e, verify TH 2 { (proveSpec TH 2 exS2 [false, true]) with siblings := [T.term] } [false, true]
      (nodeAt TH 2 0 exS2) = .error e) ∧
    (∃ e, verify TH 2 { terminal := .terminator [true, false], siblings := (proveSpec TH 2 exS2 [true, false]).siblings ++ [T.term] }
      [true, false] (nodeAt TH 2 0 exS2) = .error e) := by
  exact ⟨⟨.rootMismatch, rfl⟩, ⟨.rootMismatch, rfl⟩⟩

/-- a hasher that is not `Sound`: every node hashes to `()` -/
def unitH : Hasher Unit Nat := { term := (), leaf := fun _ _ => (), internal := fun _ _ => (), kind := fun _ => .terminator }

/-- **Counterexample 3 — `Sound` is needed.**  With the collapsing hasher, proofs of different depths, with
different siblings and different terminals all verify for the same key against the same root. -/
example :
    (∃ v, verify unitH 2 ⟨.leaf [true, true] 1, []⟩ [true, false] (nodeAt unitH 2 0 exS3) = .ok v) ∧
    (∃ v, verify unitH 2 ⟨.terminator [], [(), ()]⟩ [true, false] (nodeAt unitH 2 0 exS3) = .ok v) ∧
    ¬ unitH.Sound := by
  refine ⟨⟨_, rfl⟩, ⟨_, rfl⟩, ?_⟩
  intro h
  have := h.kind_leaf [] 0
  simp [unitH] at this

/-- **Counterexample 4 — the key matters.**  Uniqueness is per key path: the neighbouring key `11` (present)
and the absent key `10` share their single sibling but not the proof — for `S = {00, 01, 11}` both end in
the leaf `11` and the proofs coincide, while for `S = {00, 01}` the key `11` ends in the terminator at `[1]`
like `10` does; what differs between keys is only the scope. -/
example : proveSpec TH 2 exS3 [true, true] = proveSpec TH 2 exS3 [true, false] ∧
    (proveSpec TH 2 exS2 [true, true]).terminal = .terminator [true] := ⟨rfl, rfl⟩

end Nomt.C05
