import NomtModel.Store.OpenPathLemmas
import NomtModel.Props.C20
/-!
# C20 — the open path takes the directory lock before it touches a database file

Mirror of `Store::open` / `create` / `Flock::lock` as an effect trace (`Store/OpenPath.lean`); composition with the lock
protocol LTS of `Api/Flock.lean` / `Props/C20.lean`.  The ORDER of the real source text is tied separately by the
step-order translator (`Props/C20_StepOrder.lean` when generated) and by the `flock` / `openpath` runs (directory
fingerprints around refused opens, `strace`).
-/
namespace Nomt.C20
open Nomt Nomt.OpenPath

variable {Tree Log : Type}

/-- **T20_open_order**: for every directory state, `Options` and behaviour of the parts, the effect trace of
`Store::open` is `pre ++ [flock b] ++ rest` where `pre` — (`create_dir_all` when the directory is to be created,)
opening the directory, opening `.lock` with `O_CREAT` — creates, writes, resizes or unlinks NO database file and holds
no other `flock`; `b = false` iff another handle holds the lock, and then NOTHING follows (`rest = []`) and the result
is an error value.  Hence every creation (`meta`, `ht`, `wal`, `ln`, `bbn`), write (`Meta::write`, WAL redo), resize
(`set_len`, WAL truncation) and unlink (seglog clean-up) of the open path happens with the exclusive lock held. -/
theorem T20_open_order (fl : OpenFlags) (dbg : Bool) (P : Parts Tree Log) (o : Options) (d : Dir) :
    ∃ b rest, (storeOpen fl dbg P o d).2 = lockPre d ++ [Eff.flock b] ++ rest ∧
      (∀ e ∈ lockPre d, e.mutatesDb = false ∧ ∀ c, e ≠ .flock c) ∧
      (b = false ↔ d.lockedByOther = true) ∧
      (b = false → rest = [] ∧ ∃ m, (storeOpen fl dbg P o d).1 = .err m) := by
  obtain ⟨b, hb, hiff, _, _⟩ := lockPhase_trace d
  obtain ⟨rest, hr, hlocked⟩ := storeOpen_trace fl dbg P o d
  refine ⟨b, rest, by rw [hr, hb], fun e he => ⟨(lockPre_ok d).1 e he, (lockPre_ok d).2 e he⟩, hiff, ?_⟩
  intro hf
  exact hlocked (hiff.1 hf)

/-- the open path seen by the lock protocol: the `flock` call is the LTS's atomic `tryOpen`, every effect on a database
file a `write` of the opener -/
def absSteps (p : Flock.Pid) : List Eff → List Flock.Step
  | [] => []
  | .flock _ :: rest => .tryOpen p :: absSteps p rest
  | e :: rest => if e.mutatesDb then .write p :: absSteps p rest else absSteps p rest

theorem absSteps_append (p : Flock.Pid) (a b : List Eff) : absSteps p (a ++ b) = absSteps p a ++ absSteps p b := by
  induction a with
  | nil => rfl
  | cons e rest ih =>
    cases e <;> simp only [List.cons_append, absSteps, ih] <;> (try split) <;> simp

theorem absSteps_lockPre (p : Flock.Pid) (d : Dir) : absSteps p (lockPre d) = [] := by
  unfold lockPre
  split <;> simp [absSteps, Eff.mutatesDb]

/-- **T20_open_refused_is_noop** (composition with T20.2): in the lock protocol, a `Store::open` by `p` on a directory
whose lock another process holds is ONE refused `tryOpen` and nothing else — the directory (lock word, file contents,
every process' phase) is exactly as before -/
theorem T20_open_refused_is_noop (fl : OpenFlags) (dbg : Bool) (P : Parts Tree Log) (o : Options) (d : Dir)
    (D : Flock.Dir) (p q : Flock.Pid) (hq : D.holder = some q) (hl : d.lockedByOther = true) :
    absSteps p (storeOpen fl dbg P o d).2 = [.tryOpen p] ∧
    Flock.run D (absSteps p (storeOpen fl dbg P o d).2) = D := by
  obtain ⟨b, rest, ht, _, hiff, hno⟩ := T20_open_order fl dbg P o d
  have hb : b = false := hiff.2 hl
  obtain ⟨hrest, _⟩ := hno hb
  have e : absSteps p (storeOpen fl dbg P o d).2 = [.tryOpen p] := by
    rw [ht, hrest, hb, List.append_nil, absSteps_append, absSteps_lockPre]
    rfl
  refine ⟨e, ?_⟩
  rw [e]
  show (Flock.step D (.tryOpen p)).1 = D
  apply T20_2_refused_open_changes_nothing
  by_cases hp : D.phase p ≠ .idle
  · simp [Flock.step, hp]
  · simp [Flock.step, hp, hq]

/-- **T20_open_writes_under_lock**: when the lock is free and `p` is idle, the open path's steps in the protocol begin
with the granted `tryOpen p`; every later `write p` is performed while `p` holds the lock (it takes effect:
`T20_3_no_write_without_lock` does not apply), and no other process can become non-idle meanwhile (`T20_1`) -/
theorem T20_open_writes_under_lock (fl : OpenFlags) (dbg : Bool) (P : Parts Tree Log) (o : Options) (d : Dir)
    (D : Flock.Dir) (p : Flock.Pid) (hfree : D.holder = none) (hidle : D.phase p = .idle) (hl : d.lockedByOther = false) :
    ∃ rest, absSteps p (storeOpen fl dbg P o d).2 = .tryOpen p :: absSteps p rest ∧
      (Flock.step D (.tryOpen p)).2 = true ∧ (Flock.step D (.tryOpen p)).1.holder = some p := by
  obtain ⟨b, rest, ht, _, hiff, _⟩ := T20_open_order fl dbg P o d
  have hb : b = true := by
    cases b with
    | true => rfl
    | false => have := hiff.1 rfl; rw [hl] at this; cases this
  refine ⟨rest, ?_, ?_, ?_⟩
  · rw [ht, hb, absSteps_append, absSteps_append, absSteps_lockPre]; rfl
  · simp [Flock.step, hidle, hfree]
  · simp [Flock.step, hidle, hfree, Flock.setPhase]

/-- non-vacuity: the trace of a refused open of an existing directory, and of the creation of a fresh one (no part
performs effects here) -/
example :
    (storeOpen (Tree := Unit) (Log := Unit) {} true
      { treeOpen := fun _ _ _ _ _ _ => (.ok (), []), recover := fun _ _ _ ht _ h => (.ok (ht, h.metaBytes), []),
        rollbackRead := fun _ _ _ _ => (.ok (), []) } {}
      { present := true, files := [(.lock, ByteArray.empty)], lockedByOther := true }).2 =
      [.openDir, .openLockCreate, .flock false] := by
  rfl

end Nomt.C20
