import NomtModel.Store.GenFnCheck
import NomtModel.Api.ShardRegionsTable
/-!
# C13 (topic: translated function — `shard_index_for`)
-/
namespace Nomt.C13
open Nomt

/-- T13.fn the `shard_index_for` of the CURRENT source (translated on every run) names, for every shard count 1…64 and every root child,
the shard whose region owns the child (the table of T13.1), and never divides by zero / underflows there -/
theorem T13_fn_shard_index_for (n a : Nat) (h1 : 1 ≤ n) (h64 : n ≤ 64) (ha : a < 64) :
    GenFn.shard_index_for n a = some (Shards.indexFor n a) ∧ Shards.indexFor n a < n := by
  have hq : TriePos.PidOk (a :: []) := ⟨fun x hx => by simp at hx; omega, by show 1 ≤ TriePos.MAX_PAGE_DEPTH; decide⟩
  obtain ⟨rs, _, _, hi, hlt, _⟩ := TriePos.shard_owner n h1 h64 a [] hq
  exact ⟨(GenFnCheck.shard_index_for_eq n a h64 ha).trans hi, hlt⟩

/-- outside the admissible range the function panics exactly where the mirror says (no shards) -/
theorem T13_fn_shard_index_for_zero (a : Nat) : GenFn.shard_index_for 0 a = none := by
  unfold GenFn.shard_index_for; rfl

example : GenFn.shard_index_for 7 9 = some 0 ∧ GenFn.shard_index_for 7 10 = some 1 ∧ GenFn.shard_index_for 64 63 = some 63 := by decide

end Nomt.C13
