import NomtModel.Store.CacheNew
/-!
# C01 (topic: the leaf cache under value reads) — a value is looked up in the leaf that is stored, not in a stale copy

`Nomt::read` / `Session::read` end in `ops::lookup_blocking`: the branch index names a leaf page number, the leaf comes
from `LeafCache::get` or from the store (and is then inserted).  Page numbers are recycled by the allocator, the cache is
keyed by page number and nothing is removed from it when a page number is released.
-/
namespace Nomt.C01
open Nomt Nomt.Cache

/-- **T1_leaf_lookup_reads_stored_leaf**: in a leaf cache that is coherent with the leaf store, the lookup of any
non-dirty page number returns the leaf stored there — also when that page number held another leaf earlier, was released
and handed out again (`T13_leaf_sync_meets_protocol`: the sync overwrote the entry) — and keeps the cache coherent. -/
theorem T1_leaf_lookup_reads_stored_leaf {L : Type} (assign : Nat → Nat) (s : LState L) (hn : 1 ≤ s.lc.shards.length)
    (h : LCoh s.lc assign s.disk s.dirty) (pn : Nat) (hd : s.dirty pn = false) :
    ∃ s', lstep {} assign s (.lookup pn) = .ok (s', [s.disk pn]) ∧ LCoh s'.lc assign s'.disk s'.dirty := by
  obtain ⟨s', h1, _, h3, _, _⟩ := lstep_ok assign s hn h (.lookup pn) [] ⟨hd, trivial⟩
  exact ⟨s', h1, h3⟩

/-- non-vacuity: a one-entry cache holding the current leaf of page number 4 -/
example : ∃ s', lstep {} id ⟨{ shards := [{ cache := ⟨[(4, 44)], usizeMax - 1⟩, maxItems := 1 }] }, fun pn => pn * 11, fun _ => false⟩
    (.lookup 4) = .ok (s', [44]) := ⟨_, rfl⟩

end Nomt.C01
