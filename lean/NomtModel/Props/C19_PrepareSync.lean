import NomtModel.Store.PrepareSyncTheorems
import NomtModel.Store.PrepareSyncExample
/-!
# C19 (topic: `bitbox::DB::prepare_sync`) — the occupancy counter is the number of stored pages
-/
namespace Nomt.C19
open Nomt Nomt.Wal Nomt.Store Nomt.Store.Probe Nomt.PrepSync

/-- **T19_prepare_sync_occupancy**: if `occupied_buckets` was the number of full buckets before the sync, then after
`prepare_sync` (`occupied_buckets_delta`: −1 per cleared page, +1 per page that got a fresh bucket; wrapping `usize`
atomics) it is the number of full buckets of the written-out table, i.e. the number of stored pages
(`T19_occupied_is_stored_pages`: the labels of the full buckets are pairwise distinct). -/
theorem T19_prepare_sync_occupancy {hash : Bytes → Nat} {debug : Bool} {S : St} {T : Wal.Table} {seqn : Nat}
    {ds : List Dirty} {b0 : Builder} {res : Res} (hB : Before hash S T) (hC : ChangesOK hash S T ds)
    (h : prepareSync hash debug S seqn ds b0 = .ok res) (hocc : S.occupied = occupied (viewOf S.mm T.pages))
    (ht' : List (Nat × Bytes)) (hp : ht'.Perm res.ht) :
    res.occupied = occupied (viewOf res.mm (applyHt (dataOffset S.mm.buckets) T ht').pages) ∧
    res.occupied = (storedPages (viewOf res.mm (applyHt (dataOffset S.mm.buckets) T ht').pages)).length :=
  prepareSync_occupancy hB hC h hocc ht' hp

/-- non-vacuity: the empty two-bucket table (`occupied = 0`) and one fresh page -/
example (debug : Bool) : ∃ res, prepareSync exHash debug exS 7 [exD] exB = .ok res ∧
    res.occupied = occupied (viewOf res.mm (applyHt (dataOffset exS.mm.buckets) exT res.ht).pages) := by
  obtain ⟨res, h⟩ := exRuns debug 3 (by omega) plain_3
  exact ⟨res, h, (T19_prepare_sync_occupancy exBefore exChangesD h (by decide +kernel) res.ht (List.Perm.refl _)).1⟩

end Nomt.C19
