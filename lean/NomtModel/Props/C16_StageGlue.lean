import NomtModel.Store.StageGlueEnforce3
import NomtModel.Store.StageGlueClosed
import NomtModel.Props.C01_StageGlue
/-!
# C16 — `enforce_first_leaf_separator`: the first leaf of the tree always sits under the zero key

Property theorems about the mirror `enforceFirst` (`Store/StageGlueModel.lean`) of
`leaf_stage.rs::enforce_first_leaf_separator` (tied to the real function line by line by the `enf` lines of
`vharness stageglue` / `nomt_model stageglue`, and inside the whole `ops::update` by the `update` lines).

Vocabulary: a leaf level `lvl` = (separator, page number) pairs as the branch level shows them; `applyAll (lvlEnts lvl)
(chs cs)` = the level the branch stage builds from the leaf changeset `cs` (`Nomt.C01.T1_branch_update_is_applyAll`);
`relabel0` = the same leaves with the first one under the zero key.
-/
namespace Nomt.C16
open Nomt Nomt.StageGlue
open Nomt.LeafUpd (applyAll)
open Nomt.BranchUpd (chs)

/-- **T16.first_leaf_separator** — specification of `enforce_first_leaf_separator`.  For every leaf level that ascends
from the zero key and every ascending leaf changeset whose deletions name leaves of the level (`EnfPre`): the function
reaches no panic site (the `unwrap` on `indexed_leaf(next_separator)`, the indexings `leaf_changeset[0]` / `[idx]`) and its
loop terminates; the changeset it leaves is ascending again (what the branch stage's `prepare_workers` / `ChOK` need); and
the level the branch stage builds from it consists of exactly the leaves it would build from the input, in the same
order, the first one relabelled to the zero key — whether the first leaf alone, a run of leaves behind it, or every leaf
was deleted, and whether the new first leaf is an untouched old leaf, a rewritten one or a new one.  When the changeset
does not start with the deletion of the zero key it is returned unchanged. -/
theorem T16_first_leaf_separator (lvl : Level) (cs : List (Nat × Option Nat)) (h : EnfPre lvl cs) :
    ∃ cs', enforceFirst false lvl cs = some cs' ∧ CsAsc cs' ∧
      (cs.head? = some (0, none) →
        applyAll (lvlEnts lvl) (chs cs') = relabel0 (applyAll (lvlEnts lvl) (chs cs))) ∧
      (cs.head? ≠ some (0, none) → cs' = cs) := by
  by_cases hh : cs.head? = some (0, none)
  · obtain ⟨c, post, rfl⟩ : ∃ c post, cs = c :: post := by
      cases cs with
      | nil => cases hh
      | cons c post => exact ⟨c, post, rfl⟩
    simp only [List.head?_cons, Option.some.injEq] at hh
    subst hh
    obtain ⟨cs', e, a, b⟩ := enforceFirst_spec h
    exact ⟨cs', e, a, fun _ => b, fun hn => absurd rfl hn⟩
  · exact ⟨cs, enforceFirst_noop false lvl cs hh, h.cs_asc, fun h' => absurd h' hh, fun _ => rfl⟩

/-- `indexed_leaf` never fails on a separator of the level: the `unwrap` inside the loop cannot panic for ANY changeset
(the theorem above needs `EnfPre` only for what the result means) -/
theorem T16_enforce_unwrap_safe (A : Level) (x : Nat × Nat) (R : Level) (h : LvlAsc (A ++ x :: R)) :
    nextCandidate (A ++ x :: R) x.1 = some (R.head?, (R.head?.map (·.1)).getD x.1) :=
  nextCandidate_at A x R h

/-- **T16.update_tree_closed** — `ops::update` maps EVERY well-formed tree (the empty one included) to a well-formed tree
(possibly the empty one): `newTree` — the new index, the leaves the leaf stage left (the first one under the zero key), the
page numbers the update wrote them to — satisfies `TreeOK` again: the leaves are `LeafUpd.DbOK` (sorted, within the size limits, every
key in `[separator, next separator)`), none is empty, the first separator is the zero key, the branch level is
`BranchUpd.DbOK kfReal` and lists exactly (separator, page number) of the leaves. -/
theorem T16_update_tree_closed {V : Type} [LeafUpd.CellSize V] (pagesOf : V → List Nat) (lnFresh bbnFresh : Nat → Nat)
    (a0 : Nat) (t : Tree V) (cs : List (Nat × Option (V × Bool))) (lo : Nat) (ht : TreeOK t)
    (hcs : LeafUpd.ChOK (2 ^ 256) lo cs) (ha0 : cs = [] → a0 = 0) :
    ∃ o, update LeafUpd.sepReal BranchUpd.kfReal pagesOf lnFresh bbnFresh false t cs a0 = some o ∧
      TreeOK (newTree t lnFresh a0 o) ∧
      LeafUpd.flat (newTree t lnFresh a0 o).leaves = applyAll (LeafUpd.flat t.leaves) cs := by
  obtain ⟨o, e, h⟩ := update_spec pagesOf lnFresh bbnFresh a0 t cs lo ht hcs ha0
  refine ⟨o, e, update_closed pagesOf lnFresh bbnFresh a0 t cs lo ht hcs o h, ?_⟩
  show LeafUpd.flat (newLeaves o.leafLevel) = _
  rw [flat_newLeaves, h.content]

/-- **T16.update_invariant** — EVERY history of updates (any batches, any allocators, each update on the tree the previous
one left; the history may start from the empty tree, empty the tree and refill it): the tree stays `TreeOK`, and its
content is the original content with all batches applied in order. -/
theorem T16_update_invariant {V : Type} [LeafUpd.CellSize V] (pagesOf : V → List Nat) (t t' : Tree V)
    (css : List (List (Nat × Option (V × Bool)))) (ht : TreeOK t) (h : Rounds pagesOf t css t') :
    TreeOK t' ∧ LeafUpd.flat t'.leaves = css.foldl (fun l cs => applyAll l cs) (LeafUpd.flat t.leaves) :=
  rounds_invariant pagesOf t t' css ht h

/-- non-vacuity: a round exists on the three-leaf tree of `Props/C01_StageGlue.lean` (the batch empties the first and the
third leaf) -/
example : TreeOK C01.exTree ∧ ∃ t', Rounds (fun _ : Nat => []) C01.exTree [C01.exBatch] t' := by
  refine ⟨C01.exTree_ok, ?_⟩
  have hcs : LeafUpd.ChOK (2 ^ 256) 0 C01.exBatch := by
    simp only [C01.exBatch, LeafUpd.ChOK]
    refine ⟨by decide, by decide, ?_, by decide, by decide, ?_, by decide, by decide, ?_, by decide, by decide, ?_, trivial⟩
    all_goals (intro v o h; cases h)
  obtain ⟨o, e, h⟩ := update_spec (fun _ : Nat => []) (fun k => 100 + k) (fun k => 200 + k) 0 C01.exTree C01.exBatch 0
    C01.exTree_ok hcs (fun _ => rfl)
  exact ⟨_, .cons _ _ _ _ _ 0 0 o _ hcs (fun _ => rfl) e (.nil _)⟩

/-- non-vacuity on the empty tree: a store is filled, emptied and refilled — three rounds starting from the empty tree -/
example : TreeOK C01.emptyTree ∧ ∃ t', Rounds (fun _ : Nat => []) C01.emptyTree
    [[(7, some (20, false))], [(7, none)], [(3, some (5, false))]] t' := by
  refine ⟨C01.emptyTree_ok, ?_⟩
  have hc1 : LeafUpd.ChOK (2 ^ 256) 0 [((7 : Nat), some ((20 : Nat), false))] :=
    ⟨by decide, by decide, (by intro v o h; cases h; decide), trivial⟩
  have hc2 : LeafUpd.ChOK (2 ^ 256) 0 [((7 : Nat), (none : Option (Nat × Bool)))] :=
    ⟨by decide, by decide, (by intro v o h; cases h), trivial⟩
  have hc3 : LeafUpd.ChOK (2 ^ 256) 0 [((3 : Nat), some ((5 : Nat), false))] :=
    ⟨by decide, by decide, (by intro v o h; cases h; decide), trivial⟩
  obtain ⟨o1, e1, h1⟩ := update_spec (fun _ : Nat => []) (fun k => 100 + k) (fun k => 200 + k) 0 C01.emptyTree _ 0
    C01.emptyTree_ok hc1 (fun h => by cases h)
  have t1 := update_closed (fun _ : Nat => []) (fun k => 100 + k) (fun k => 200 + k) 0 C01.emptyTree _ 0
    C01.emptyTree_ok hc1 o1 h1
  obtain ⟨o2, e2, h2⟩ := update_spec (fun _ : Nat => []) (fun k => 300 + k) (fun k => 400 + k) 0 _ _ 0 t1 hc2
    (fun h => by cases h)
  have t2 := update_closed (fun _ : Nat => []) (fun k => 300 + k) (fun k => 400 + k) 0 _ _ 0 t1 hc2 o2 h2
  obtain ⟨o3, e3, h3⟩ := update_spec (fun _ : Nat => []) (fun k => 500 + k) (fun k => 600 + k) 0 _ _ 0 t2 hc3
    (fun h => by cases h)
  exact ⟨_, .cons _ _ _ _ _ 0 0 o1 _ hc1 (fun h => by cases h) e1
    (.cons _ _ _ _ _ 0 0 o2 _ hc2 (fun h => by cases h) e2
      (.cons _ _ _ _ _ 0 0 o3 _ hc3 (fun h => by cases h) e3 (.nil _)))⟩

/-! ## the seeded change `C01-first-leaf-separator-skips-untouched` -/

/-- four leaves; every key of leaf 0 deleted, leaf 1 untouched, leaf 2 emptied -/
def seededLvl : Level := [(0, 10), (100, 11), (200, 12), (300, 13)]
def seededCs : List (Nat × Option Nat) := [(0, none), (200, none)]

theorem seeded_pre : EnfPre seededLvl seededCs where
  lvl_asc := by unfold LvlAsc seededLvl; decide
  lvl_zero := by intro x hx; simp [seededLvl] at hx; subst hx; rfl
  cs_asc := by unfold CsAsc seededCs; decide
  dels := by
    intro k hk
    simp [seededCs] at hk
    rcases hk with rfl | rfl
    · exact ⟨10, by simp [seededLvl]⟩
    · exact ⟨12, by simp [seededLvl]⟩

/-- **T16.seeded_first_leaf_separator_counterexample** (kernel-checked) — the mirror with the guard `s == *separator`
replaced by `s <= *separator` (flag `seeded`), on a well-formed input: the loop skips the deletion of leaf 2 although the
candidate is the UNTOUCHED leaf 1, the zero key is pointed at leaf 2's page (12 — a page the leaf stage has just
released) and the deletion of separator 200 is recorded twice: the changeset is no longer strictly ascending, the
resulting level still lists leaf 1 under its old separator 100 but routes `[0, 100)` to the released page — while the
code as it is puts leaf 1 (page 11) under the zero key, removes 100 and 200, and keeps the order. -/
theorem T16_seeded_first_leaf_separator_counterexample :
    enforceFirst true seededLvl seededCs = some [(0, some 12), (200, none), (200, none)] ∧
    applyAll (lvlEnts seededLvl) (chs [(0, some 12), (200, none), (200, none)]) =
      [⟨0, 12, false⟩, ⟨100, 11, false⟩, ⟨300, 13, false⟩] ∧
    relabel0 (applyAll (lvlEnts seededLvl) (chs seededCs)) = [⟨0, 11, false⟩, ⟨300, 13, false⟩] ∧
    enforceFirst false seededLvl seededCs = some [(0, some 11), (100, none), (200, none)] ∧
    applyAll (lvlEnts seededLvl) (chs [(0, some 11), (100, none), (200, none)]) = [⟨0, 11, false⟩, ⟨300, 13, false⟩] := by
  decide

/-! ## non-vacuity -/

/-- the hypotheses of `T16_first_leaf_separator` are met by the instance above, and on it the function really acts:
the first three leaves deleted, the fourth rewritten — the new page goes under the zero key, separator 300 is removed -/
example : EnfPre seededLvl seededCs ∧
    EnfPre seededLvl [(0, none), (100, none), (200, none), (300, some 77)] ∧
    enforceFirst false seededLvl [(0, none), (100, none), (200, none), (300, some 77)] =
      some [(0, some 77), (100, none), (200, none), (300, none)] := by
  refine ⟨seeded_pre, ⟨by unfold LvlAsc seededLvl; decide, seeded_pre.lvl_zero, by unfold CsAsc; decide, ?_⟩, by decide⟩
  intro k hk
  simp at hk
  rcases hk with rfl | rfl | rfl
  · exact ⟨10, by simp [seededLvl]⟩
  · exact ⟨11, by simp [seededLvl]⟩
  · exact ⟨12, by simp [seededLvl]⟩

end Nomt.C16
