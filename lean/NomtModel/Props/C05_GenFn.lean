import NomtModel.Store.GenFnCheck5
/-!
# C05 (topic: translated function — the meta byte of a full bucket, `bitbox/meta_map.rs`)
-/
namespace Nomt.C05
open Nomt

/-- T5.fn `full_entry(hash)` of the CURRENT source is the tag the probing model and the `ht` decoder use: the top 7 bits of the
64-bit hash under the FULL bit — so a page is found again by the tag it was stored with -/
theorem T5_fn_full_entry (hash : Nat) :
    GenFn.full_entry hash = some (Wal.fullEntry hash).toNat := GenFnCheck.full_entry_eq hash

example : GenFn.full_entry (2 ^ 63) = some 0xC0 ∧ GenFn.full_entry 0 = some 0x80 ∧ GenFn.full_entry (2 ^ 57) = some 0x81 := by decide

/-- T5.fn-2 the meta map of the CURRENT source as functions of the meta byte: `hint_empty` ⇔ byte `0`, `hint_tombstone` ⇔ byte `127`,
`hint_not_match` ⇔ the byte differs from `full_entry(hash)`; `set_full` / `set_tombstone` store exactly these bytes; an index outside
`bitvec` panics -/
theorem T5_fn_meta_map (bv : List Nat) (b hash : Nat) :
    GenFn.meta_hint_empty bv b = (bv[b]?).map (fun m => decide (m = 0)) ∧
    GenFn.meta_hint_tombstone bv b = (bv[b]?).map (fun m => decide (m = 127)) ∧
    GenFn.meta_hint_not_match bv b hash = (bv[b]?).map (fun m => decide (m ≠ (Wal.fullEntry hash).toNat)) ∧
    GenFn.meta_set_full bv b hash = (if b < bv.length then some (bv.set b (Wal.fullEntry hash).toNat) else none) ∧
    GenFn.meta_set_tombstone bv b = (if b < bv.length then some (bv.set b 127) else none) ∧
    GenFn.meta_len bv.length = some bv.length ∧ GenFn.meta_page_index b = some (b / 4096) :=
  ⟨(GenFnCheck.meta_hints_eq bv b hash).1, (GenFnCheck.meta_hints_eq bv b hash).2.1, (GenFnCheck.meta_hints_eq bv b hash).2.2,
   (GenFnCheck.meta_set_eq bv b hash).1, (GenFnCheck.meta_set_eq bv b hash).2, rfl, GenFnCheck.meta_page_index_eq b⟩

/-- T5.fn-3 `ProbeSequence::next` of the CURRENT source (a `loop`, translated as recursion on explicit fuel) is the mirror `PS.next` of
`Store/ProbeModel.lean` — triangular step `bucket += step; step += 1; bucket %= n`, the `step > 2n` bound, the three hints in the
source's order — for EVERY fuel, on every table of `0 < n < 2^62` valid meta bytes, and it never panics there -/
theorem T5_fn_probe_next (bv : List Nat) (hv : ∀ b ∈ bv, b = 0 ∨ b = 127 ∨ (128 ≤ b ∧ b < 256)) (hn : 0 < bv.length)
    (hlen : bv.length < 2 ^ 62) (hash : Nat) (hh : hash < 2 ^ 64) (fuel bucket step : Nat) (hb : bucket < 2 ^ 63)
    (hs : step ≤ 2 * bv.length + 1) :
    GenFn.probe_next fuel hash bucket step bv.length bv =
      (Store.Probe.PS.next (bv.map GenFnCheck.slotOfByte) fuel ⟨hash, bucket, step⟩).map
        (fun r => some (GenFnCheck.prGen r.1, r.2.bucket, r.2.step)) :=
  GenFnCheck.probe_next_eq bv hv hn hlen hash hh fuel bucket step hb hs

/-- T5.fn-4 fuel is not the answer: from a state of the probe sequence of `hash`, more than `2n + 1 - step` units of fuel make the
translated `next` return a result (neither out of fuel nor a panic) -/
theorem T5_fn_probe_next_total (bv : List Nat) (hv : ∀ b ∈ bv, b = 0 ∨ b = 127 ∨ (128 ≤ b ∧ b < 256)) (hn : 0 < bv.length)
    (hlen : bv.length < 2 ^ 62) (hash : Nat) (hh : hash < 2 ^ 64) (fuel : Nat) (s : Store.Probe.PS)
    (hok : Store.Probe.PS.Ok hash bv.length s) (hb : s.bucket < 2 ^ 63) (hs : s.step ≤ 2 * bv.length + 1)
    (hf : 2 * bv.length + 1 - s.step < fuel) :
    ∃ r, GenFn.probe_next fuel hash s.bucket s.step bv.length bv = some (some r) :=
  GenFnCheck.probe_next_fuel bv hv hn hlen hash hh fuel s hok hb hs hf

/-- T5.fn-5 `HTOffsets::data_page_index` / `meta_bytes_index`: bucket pages follow the meta-byte pages -/
theorem T5_fn_ht_offsets (off ix : Nat) (h : off + ix < 2 ^ 64) :
    GenFn.ht_data_page_index off ix = some (off + ix) ∧ GenFn.ht_meta_bytes_index ix = some ix := GenFnCheck.ht_offsets_eq off ix h

/-- T5.fn-6 `ProbeSequence::new` of the CURRENT source (struct result = the tuple `(hash, bucket, step)`; the page-id hash is a parameter)
is the mirror `PS.new`: the sequence starts at `hash % len` with step 0 — and on a table WITHOUT buckets it panics (`hash % 0`,
finding F-Q36-1: `Options::hashtable_buckets(0)` is accepted) -/
theorem T5_fn_probe_new (n hash : Nat) :
    GenFn.probe_new n hash = if n = 0 then none
      else some ((Store.Probe.PS.new hash n).hash, (Store.Probe.PS.new hash n).bucket, (Store.Probe.PS.new hash n).step) :=
  GenFnCheck.probe_new_eq n hash

example : GenFn.probe_new 0 77 = none ∧ GenFn.probe_new 10 77 = some (77, 7, 0) := by decide

example : GenFn.probe_next 10 (2 ^ 57 * 5) 1 0 4 [0x85 - 1, 0x84, 127, 0] = some (some (.Tombstone 2, 2, 2)) ∧
    GenFn.probe_next 10 (2 ^ 57 * 5) 1 0 4 [0x85 - 1, 0x85, 127, 0] = some (some (.PossibleHit 1, 1, 1)) ∧
    GenFn.probe_next 20 (2 ^ 57 * 5) 1 0 2 [0x84, 0x84] = some (some (.Exhausted, 1, 5)) ∧
    GenFn.probe_next 3 (2 ^ 57 * 5) 1 0 2 [0x84, 0x84] = none ∧
    GenFn.probe_next 3 0 1 0 0 [] = some none ∧ GenFn.meta_hint_empty [0, 127] 2 = none := by decide

end Nomt.C05
