import NomtModel.Store.GenFnCheck
/-!
# C05 (topic: translated function — the meta byte of a full bucket, `bitbox/meta_map.rs`)
-/
namespace Nomt.C05
open Nomt

/-- T5.fn `full_entry(hash)` of the CURRENT source is the tag the probing model and the `ht` decoder use: the top 7 bits of the
64-bit hash under the FULL bit — so a page is found again by the tag it was stored with -/
theorem T5_fn_full_entry (hash : Nat) :
    GenFn.full_entry hash = some (Wal.fullEntry hash).toNat := GenFnCheck.full_entry_eq hash

example : GenFn.full_entry (2 ^ 63) = some 0xC0 ∧ GenFn.full_entry 0 = some 0x80 ∧ GenFn.full_entry (2 ^ 57) = some 0x81 := by decide

end Nomt.C05
