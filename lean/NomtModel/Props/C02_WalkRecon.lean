import NomtModel.Store.WalkerReconExample
import NomtModel.Store.WalkerElision
/-!
# C02 — reconstruction of elided pages (`page_walker::reconstruct_pages`) and the elision decisions of the page walker

The mirror `Store/WalkerModel.lean` (`Walker.reconstruct`, `reconstructPages`, `handleElision`, `countLeaves`) follows
`page_walker.rs` statement by statement, every panic site a value; it is tied to the real code by the `walker` differential
(`--focus recon`: histories that walk INTO reconstructed pages).  Vocabulary: `ReconPre` = what `seek` guarantees when it calls
`reconstruct_pages` (sorted 256-bit leaves, all below the position, 2 ≤ n < `PAGE_ELISION_THRESHOLD`, the child page not yet in
the page set, pool pages of 126 slots with ANY content); `psR` = the page set with the first elided page inserted;
`BlockIds O p Lc` = `Lc` lists, each once, exactly the page prefixes `c` at / below `p` with `|c| % 6 = 0` that hold an internal
node of the trie of `O`; `pageCount O c` = the number of leaves of that trie which lie in the page with prefix `c`.
-/
namespace Nomt.C02
open Nomt Nomt.Walker Nomt.TriePos
open Nomt.Wal (PageDiff)

variable {Node VH : Type} [DecidableEq Node] [DecidableEq VH] (H : Hasher Node VH)

/-- **T2_reconstruct_pages_correct** (no hypothesis on leaf counters; this discharges the contract `ReconOK` of the seek,
`Props/C05_SeekRecon.lean`): under `ReconPre` and with the parent page holding the node of the sub-trie at the position, the
mirrored `reconstruct_pages` reaches NO panic site — `assert_eq!(root, subtree_root)`, `push_reconstructed`'s
`prev_children_leaves_counter.unwrap()`, the `try_into().unwrap()` of the counter arithmetic, every `stack.last().unwrap()`,
`page_set.get(..).unwrap()`, index and `child_page_id(..).unwrap()` included — and yields, besides the page set with the first
elided page inserted, EXACTLY the pages at / below the position whose prefix holds an internal node, each once
(`BlockIds`); each has 126 slots, every slot whose parent position is an internal node holds `nodeAt` of the leaves below it,
its `page_leaves_counter` is the number of leaves of the trie that lie in the page, and its diff names every slot that differs
from the pool page it was built on.  (Not claimed: the exact value of `children_leaves_counter` — it is bounded: no page is ever
kept — and that the diff names a meaningful slot whose node happens to equal the pool page's garbage; the `recon` oracles of the
differential check both on every run.) -/
theorem T2_reconstruct_pages_correct {ps : PageSet Node} {pos : Pos} {O : List (Key × VH)} (h : ReconPre H ps pos O)
    (page : Page Node) (hpage : page.getNode H pos.nodeIndex = .ok (specNode H O pos.path)) :
    ∃ l Lc, reconstructPages H page (specPage pos.path) pos ps O = .ok (psR H ps (sextetsOf pos.path), some l) ∧
      l.map (·.pageId) = Lc.map sextetsOf ∧ BlockIds O pos.path Lc ∧
      ∀ r ∈ l, ∃ c ∈ Lc, r.pageId = sextetsOf c ∧ r.page.nodes.length = 126 ∧
        (∀ q, q ≠ [] → q.length ≤ 256 → specPage q = r.pageId → Mean O q →
          r.page.nodes.getD (specIndex q) H.term = specNode H O q) ∧
        r.pageLeaves = pageCount O c ∧
        ∃ base, BaseOf (psR H ps (sextetsOf pos.path)) r.pageId base ∧ DiffNames H r.page.nodes base r.diff :=
  reconstructPages_correct H h page hpage

/-- non-vacuity: the hypotheses are met by two leaves below `0^6` over the empty page set (`Store/WalkerReconExample.lean`) -/
example : ∃ l Lc, reconstructPages TH (⟨List.replicate 126 (specNode TH RecEx.rO RecEx.rpos.path), 0⟩ : Page T)
      (specPage RecEx.rpos.path) RecEx.rpos RecEx.rps RecEx.rO =
        .ok (psR TH RecEx.rps (sextetsOf RecEx.rpos.path), some l) ∧
      l.map (·.pageId) = Lc.map sextetsOf ∧ BlockIds RecEx.rO RecEx.rpos.path Lc := by
  obtain ⟨l, Lc, h1, h2, h3, _⟩ := T2_reconstruct_pages_correct TH RecEx.rpre
    (⟨List.replicate 126 (specNode TH RecEx.rO RecEx.rpos.path), 0⟩ : Page T) (by
      unfold Page.getNode
      have hi : RecEx.rpos.nodeIndex < 126 := by decide +kernel
      rw [if_pos (by exact hi)]
      simp only
      rw [List.getD_eq_getElem?_getD, List.getElem?_replicate]
      simp [hi])
  exact ⟨l, Lc, h1, h2, h3⟩

/-- … and the mirror really reconstructs (kernel evaluation, `Store/WalkerReconMut.lean`): 19 leaves below `0^18` that lie two
pages below the elided child `[0,0]` — pages `[0,0,0]` (19 leaves in the page) and `[0,0]` (none in the page, 19 below), both
diffs naming every slot that holds a node -/
theorem T2_reconstruct_instance :
    ReconMut.reconSummary 18 = some [([0, 0, 0], 19, 0, true), ([0, 0], 0, 19, true)] := by decide +kernel

/-- **T2_reconstruct_simulates**: the whole run of `reconstruct` — no panic site, and the walker's final state simulates the
tree walker (`Store/WalkerTree.lean`) after its three stages; the delivered child-page root is the node of the sub-trie -/
theorem T2_reconstruct_no_panic {ps : PageSet Node} {pos : Pos} {O : List (Key × VH)} (h : ReconPre H ps pos O) (sr : Node) :
    ∃ w3 : Walker Node, (Walker.newReconstructor sr (specPage pos.path)).reconstruct H ps pos O =
        .ok (psR H ps (sextetsOf pos.path), some (specNode H O pos.path, w3.outputPages)) ∧ w3.reconstruction = true := by
  obtain ⟨w3, h1, _, h3⟩ := reconstruct_sim H h sr
  exact ⟨w3, h1, h3⟩

example : ∃ w3 : Walker T, (Walker.newReconstructor T.term (specPage RecEx.rpos.path)).reconstruct TH RecEx.rps RecEx.rpos RecEx.rO =
    .ok (psR TH RecEx.rps (sextetsOf RecEx.rpos.path), some (specNode TH RecEx.rO RecEx.rpos.path, w3.outputPages)) ∧
    w3.reconstruction = true := T2_reconstruct_no_panic TH RecEx.rpre T.term

/-- **T2_count_leaves_spec** (`count_leaves`): on a page with prefix `pre` whose slots reachable through internal nodes hold
the specified nodes of `S`, `count_leaves` = the number of leaves of the trie of `S` that lie in the page, and together with the
keys that lie in child pages (`specBelow`) these are all keys below the page: the sum the walker compares with
`PAGE_ELISION_THRESHOLD` is the number of leaves of the sub-trie whenever the children counter is the number of keys in the
child pages. -/
theorem T2_count_leaves_spec (hs : H.Sound) {S : List (Key × VH)} (hk : KeysOK S) (pg : Page Node) (pre : Path)
    (h6 : pre.length % 6 = 0) (hlen : pre.length < 256)
    (hf0 : FaithfulFrom H S pg (pre ++ [false]) 6) (hf1 : FaithfulFrom H S pg (pre ++ [true]) 6) :
    countLeaves H pg = pageCount S pre ∧
    countLeaves H pg + (specBelow S 6 (pre ++ [false]) + specBelow S 6 (pre ++ [true])) = (sub S pre).length :=
  countLeaves_spec H hs hk pg pre h6 hlen hf0 hf1

example : countLeaves TH (⟨[], 0⟩ : Page T) = 0 := by decide

/-- **T2_leaves_counted_once**: over any duplicate-free list of page prefixes at / below a page boundary `p` that hold internal
nodes, the numbers of leaves in those pages add up to at most the number of keys below `p` — why a reconstructor below an
elided child (fewer than the threshold) never keeps a page -/
theorem T2_leaves_counted_once (S : List (Key × VH)) (L : List Path) (hnd : L.Nodup) (p : Path) (hp : p ≠ [])
    (hp6 : p.length % 6 = 0) (hpl : p.length ≤ 256)
    (hL : ∀ c ∈ L, p <+: c ∧ c.length % 6 = 0 ∧ 2 ≤ (sub S c).length ∧ c.length < 256) :
    (L.map (pageCount S)).sum ≤ (sub S p).length :=
  pageCount_sum_le S L hnd p hp hp6 hpl hL

example : ((([] : List Path)).map (pageCount RecEx.rO)).sum ≤ (sub RecEx.rO RecEx.rpath).length :=
  T2_leaves_counted_once RecEx.rO [] List.nodup_nil RecEx.rpath (by decide) (by decide) (by decide)
    (fun c hc => by cases hc)

/-! ## the elision decision (`handle_elision_threshold`), one step, exactly -/

/-- **T2_elision_keep**: when the verdict `elides` is `false` — no counter, or `count_leaves + counter ≥ threshold`, or elision
inhibited — the page leaves the stack as an `UpdatedPage` (a reconstructed or new page is PROMOTED: handed out without a bucket)
with `total_diff()`, its bit in the parent's `elided_children` is CLEARED and the parent forgets its counters
(`keptResult`). -/
theorem T2_elision_keep (w : Walker Node) (sp parent : StackPage Node) (rest : List (StackPage Node))
    (hst : w.stack = sp :: parent :: rest) (hrec : w.reconstruction = false)
    (hm1 : w.mutDropReconDiff = false) (hm2 : w.mutStalePrev = false)
    (hne : sp.pageId ≠ []) (hpp : parentPageId sp.pageId ≠ []) (hk : elides H w sp = false) :
    ∃ ci, childIndexAtLevel sp.pageId (sp.pageId.length - 1) = some ci ∧
      w.handleElision H = .ok (keptResult w sp parent rest ci) :=
  handleElision_keep H w sp parent rest hst hrec hm1 hm2 hne hpp hk

/-- **T2_elision_elide**: when the verdict is `true` (`count_leaves + counter < threshold`, not inhibited) and the counter
arithmetic does not trap, the page's bit in the parent is SET, the parent's counter is updated, and the page is handed out only
if it had a bucket — then as a CLEARED page (`elidedResult`). -/
theorem T2_elision_elide (w : Walker Node) (sp parent : StackPage Node) (rest : List (StackPage Node))
    (hst : w.stack = sp :: parent :: rest) (hrec : w.reconstruction = false) (hm1 : w.mutDropReconDiff = false)
    (hne : sp.pageId ≠ []) (hpp : parentPageId sp.pageId ≠ []) (clc : Nat)
    (hor : sp.childrenLeaves.or sp.prevChildrenLeaves = some clc) (hk : elides H w sp = true)
    (parent2 : StackPage Node)
    (hpar : elideParentCounter (storeElided sp) parent (countLeaves H sp.page) clc = .ok parent2) :
    ∃ ci, childIndexAtLevel sp.pageId (sp.pageId.length - 1) = some ci ∧
      w.handleElision H = .ok (elidedResult w sp parent2 rest ci) :=
  handleElision_elide H w sp parent rest hst hrec hm1 hne hpp clc hor hk parent2 hpar

/-- **T2_elision_persisted_never_elided**: a page loaded from the hash table carries no counters (`PageOrigin::Persisted`), so
the verdict is `false`: a stored page is never demoted by the walker while it holds a node (it is cleared by `set_node` when it
empties).  The branch "elided although it had a bucket" of `handle_elision_threshold` is not reachable from the page sets the
store builds. -/
theorem T2_elision_persisted_never_elided (w : Walker Node) (pid : PageId) (pg : Page Node) (d : PageDiff)
    (b : Option Nat) : elides H w (StackPage.new pid pg d (.persisted b)) = false :=
  elides_persisted H w _ rfl rfl

example : elides TH (Walker.start T.term false) (StackPage.new [0, 0] ⟨[], 0⟩ PageDiff.empty (.persisted (some 1))) = false :=
  T2_elision_persisted_never_elided TH _ _ _ _ _

/-- **the seeded change `C02-elision-stale-prev-counter`, kernel-checked on the mirror** (`Walker.mutStalePrev`: the tail of
`handle_elision_threshold` does not reset the parent's `prev_children_leaves_counter`): 19 leaves two pages below the elided
child `[0,0]`; a 20th leaf arrives; page `[0,0,0]` reaches the threshold and is stored, but its parent `[0,0]` is elided from the
stale counter `19` — a stored page without a stored parent -/
theorem T2_elision_stale_prev_counterexample : ReconMut.verdictStale true = some (true, false) := by decide +kernel

/-- … and the unchanged mirror stores both pages -/
theorem T2_elision_promotes_chain_instance : ReconMut.verdictStale false = some (true, true) := by decide +kernel

end Nomt.C02
