import NomtModel.Core.Top
import NomtModel.Core.Binding
import NomtModel.Core.Compact
import NomtModel.Core.Sorted
import NomtModel.Core.TermHasher
/-!
# C02 — The root is the canonical commitment of the key-value set
-/
namespace Nomt.C02
open Nomt
variable {Node VH : Type} (H : Hasher Node VH)

/-- T2.1: the stack-based `build_trie` of `core/src/update.rs` (mirrored in `Core/Build.lean`) computes the
specified sub-trie root for every canonically arranged key list sharing a `skip`-bit prefix. -/
theorem T2_1_buildTrie_eq_spec (skip fuel : Nat) (B : List (Key × VH)) (p : List Bool)
    (hcan : Canon fuel skip B) (hlen : ∀ kv ∈ B, kv.1.length = skip + fuel) (hp : ∀ kv ∈ B, kv.1.take skip = p) :
    buildTrie H skip B = nodeAt H fuel skip B :=
  buildTrie_eq_nodeAt H skip fuel B p hcan hlen hp

/-- T2.2: empty set ↦ terminator, single pair ↦ its leaf hash -/
theorem T2_2_root_empty (L : Nat) : nodeAt H L 0 ([] : List (Key × VH)) = H.term := by simp [nodeAt]
theorem T2_2_root_single (L : Nat) (k : Key) (v : VH) : nodeAt H L 0 [(k, v)] = H.leaf k v := by
  cases L <;> simp [nodeAt]

/-- strictly sorted equal-length keys are canonically arranged (the precondition of T2.1 is what the code
guarantees: sorted batches) -/
theorem T2_1b_sorted_is_canon (fuel d : Nat) (S : List (Key × VH)) (p : List Bool)
    (hs : SortedKV S) (hlen : ∀ kv ∈ S, kv.1.length = d + fuel) (hp : ∀ kv ∈ S, kv.1.take d = p) :
    Canon fuel d S := canon_of_sorted fuel d S p hs hlen hp

section
variable [DecidableEq Node] [DecidableEq VH]
/-- T2.4: two key-value sets with the same root are equal (so the root is a function of the set alone and
identifies it: history-, batch-split- and configuration-independence of the root follow from C01). -/
theorem T2_4_root_injective (hs : H.Sound) (L : Nat) (S S' : List (Key × VH))
    (hc : Canon L 0 S) (hc' : Canon L 0 S') (h : nodeAt H L 0 S = nodeAt H L 0 S') : S = S' :=
  rootOf_inj H hs L S S' hc hc' h

/-- T2.6: the compaction table used by `page_walker::compact_step` and `verify_update`
(`(T,T)→T, (L,T)→L, (T,L)→sibling, else internal`) is exactly the specified node of the union. -/
theorem T2_6_compaction_law (hs : H.Sound) (fuel d : Nat) (X : List (Key × VH)) (hc : Canon (fuel+1) d X) (b : Bool) :
    compactStep H b (nodeAt H fuel (d+1) (side d b X)) (nodeAt H fuel (d+1) (side d (!b) X)) = nodeAt H (fuel+1) d X :=
  compact_spec H hs fuel d X hc b
end

example : buildTrie TH 0 [([false, true], 1), ([true, false], 2)] = nodeAt TH 2 0 [([false, true], 1), ([true, false], 2)] := by rfl

end Nomt.C02
