import NomtModel.Store.WalkerSimTop
import NomtModel.Store.WalkerExample
/-!
# C13 — the sub-trie walk of a commit worker (`PageWalker::new(root, Some(parent_page))`)

`T13_6_root_independent_of_workers` (`Props/C13_Split.lean`) composes the root from the child-page roots the workers
deliver and ASSUMES that each of them is the specified node of the updated set.  The theorem below discharges that
assumption for the mirror of `PageWalker` (`Store/WalkerModel.lean`, tied to the real code by the `walker` differential,
whose split flow drives sub-walkers with parent page ROOT and places their child-page roots with
`advance_and_place_node`).

`InScope (some P0) steps` = every terminal lies in a page strictly below the parent page `P0` (what `assert_page_in_scope`
demands).  Partial: as `T2_walker_root_partial` (no elided sub-trie entered).
-/
namespace Nomt.C13
open Nomt Nomt.Walker Nomt.TriePos

variable {Node VH : Type} [DecidableEq Node] [DecidableEq VH] (H : Hasher Node VH)

/-- **T13_walker_child_roots (partial)**: a walker with parent page `P0`, driven with an ascending script of terminals
below `P0`, never reaches a panic site and concludes with `Output::ChildPageRoots`; every delivered pair `(position,
node)` sits on the bottom layer of `P0` (depth `6·(depth P0 + 1)`) and its node is `nodeAt` of the updated key set at that
position; every page handed out holds `nodeAt` at its meaningful slots. -/
theorem T13_walker_child_roots_partial (hs : H.Sound) (ps : PageSet Node) (root : Node) (P0 : PageId)
    {S S' : List (Key × VH)} (hS : KeysOK S) (hS' : KeysOK S') {steps : List (Step VH)} (hso : ScriptOK S S' steps)
    (hps : PSOK ps steps) (hrep : Represents H ps root S) (hscope : InScope (some P0) steps) (inhibit : Bool) :
    ∃ w' roots pages, (Walker.startP root (some P0) inhibit).runM H ps steps = .ok w' ∧
      w'.conclude H = .ok (.childPageRoots roots pages) ∧
      (∀ e ∈ roots, e.2 = specNode H S' e.1.path ∧ e.1.path.length = 6 * (P0.length + 1)) ∧
      ∀ o ∈ pages, ∃ P pg d b, o = .updated P pg d b ∧ pg.nodes.length = 126 ∧
        ∀ q, q ≠ [] → q.length ≤ 256 → specPage q = P → MatR ps steps q → Mean S' q →
          pg.nodes.getD (specIndex q) H.term = specNode H S' q := by
  have hrepR := rep_matR H ps hS hso hrep
  have hDp : PathsIn (MatR ps steps) steps := by
    intro s hs' x hx hne
    have := pathsIn_of_psok ps hps s hs' x hx hne
    exact ⟨Or.inl this.1, Or.inl this.2⟩
  obtain ⟨w', hw', hinv⟩ := runInv_run H ps hs hS hS' hrepR (Or.inl (Or.inl rfl)) steps [] _ _
    (by simpa using hso) (by simpa using hps) (by simpa using hDp) (by simpa using hscope)
    (runInv_start H ps _ (some P0) root S S' steps inhibit)
  simp only [List.nil_append] at hinv
  obtain ⟨roots, pages, hc, hr, hp⟩ := conclude_children_spec H ps hs hS hS' hso hrepR hinv
  refine ⟨w', roots, pages, hw', hc, hr, ?_⟩
  intro o ho
  obtain ⟨P, pg, d, b, e, hl, hm, _⟩ := hp o ho
  exact ⟨P, pg, d, b, e, hl, hm⟩

/-- non-vacuity: the hypotheses hold for the two-key trie whose leaves sit in the child page `[0]` of the root page, a page
set holding both pages, parent page ROOT and the script that replaces the terminal `0^7` (`Store/WalkerExample.lean`) -/
example : ∃ w' roots pages, (Walker.startP Ex2.root2 (some []) false).runM TH Ex2.ps2 Ex2.steps2 = .ok w' ∧
    w'.conclude TH = .ok (.childPageRoots roots pages) ∧
    (∀ e ∈ roots, e.2 = specNode TH Ex2.S2 e.1.path ∧ e.1.path.length = 6) := by
  obtain ⟨w', roots, pages, h1, h2, h3, _⟩ := T13_walker_child_roots_partial TH TH_sound Ex2.ps2 Ex2.root2 []
    Ex2.keys2 Ex2.keys2 Ex2.script2 Ex2.psok2 Ex2.rep2 Ex2.scope2 false
  exact ⟨w', roots, pages, h1, h2, h3⟩

end Nomt.C13
