import NomtModel.Api.Witness
import NomtModel.Api.WitnessLemmas
import NomtModel.Props.C05
import NomtModel.Props.C08
/-!
# C06 — A session witness lets a stateless verifier replay the session

`witnessSpec` (`Api/Witness.lean`) is the specified witness: one path per terminal reached by the read and
written keys, each path carrying `proveSpec view k` for the first key `k` that reaches it, the reads
attested with `kvGet view`, the writes listed under their path.  The real `Witness` (canonicalised: paths
ascending, operations ascending) must EQUAL it (correspondence run), and the oracle additionally verifies /
replays the real witness with the real verifier.

The three statements of the property, for the specified witness, are instances of theorems proved for
arbitrary keys and arbitrary verified path sets (T6.1 – T6.3).  T6.5 – T6.7 close the remaining gap: the
specified witness *itself* (`witnessSpec`, grouped by terminal) verifies path by path, passes the argument
checks of `verify_update` and replays to the root of the updated set (helper lemmas: `Api/WitnessGroup.lean`,
`Api/WitnessLemmas.lean`).  They are stated for `witnessSpecL` (the key length a parameter,
`witnessSpecL H 256 = witnessSpec H` by `rfl`) and instantiated at 256 in `T6_7_replay_256`.
-/
namespace Nomt.C06
open Nomt Nomt.Api
variable {Node VH : Type} [DecidableEq Node] [DecidableEq VH] (H : Hasher Node VH)

/-- T6.1 every path proof a witness can contain (the specified proof of any key of the batch) verifies
against the session's base root — the root of the session's view. -/
theorem T6_1_paths_verify (L : Nat) (view : List (Key × VH)) (hc : Canon L 0 view) (k : Key) (hk : k.length = L) :
    ∃ v, verify H L (proveSpec H L view k) k (nodeAt H L 0 view) = .ok v ∧ v.inScope k = true :=
  C05.T5_1_proveSpec_verifies H L view hc k hk

/-- T6.2 the verified path attests, for the key it was made for, exactly the session's view: the value
(hash) if present, non-existence otherwise. -/
theorem T6_2_reads_attested (hs : H.Sound) (L : Nat) (view : List (Key × VH)) (hc : Canon L 0 view)
    (k : Key) (hk : k.length = L) :
    ∃ v, verify H L (proveSpec H L view k) k (nodeAt H L 0 view) = .ok v ∧
      (∀ vh, v.confirmValue k vh = some (decide ((k, vh) ∈ view))) ∧
      ((v.confirmNonexistence k = some true ∧ ∀ vh, (k, vh) ∉ view) ∨
       (v.confirmNonexistence k = some false ∧ ∃ vh, (k, vh) ∈ view)) :=
  C05.T5_2_proveSpec_truthful H hs L view hc k hk

/-- T6.3 replaying the witnessed writes through `verify_update` over ANY set of paths verified against the
base root that passes the verifier's argument checks (ascending paths; non-empty, ascending, in-scope
operations — the canonical witness is such a set) yields exactly the root of the updated key-value set,
i.e. the new root the store reports (C02). -/
theorem T6_3_replay_gives_new_root (hs : H.Sound) (L : Nat) (view : List (Key × VH)) (hc : Canon L 0 view)
    (hlen : ∀ kv ∈ view, kv.1.length = L) (paths : List (PathUpdateIn Node VH)) (hne : paths ≠ [])
    (hv : ∀ p ∈ paths, ∃ P kp, kp.length = L ∧ verify H L P kp (nodeAt H L 0 view) = .ok p.inner)
    (hol : ∀ p ∈ paths, ∀ o ∈ p.ops, o.1.length = L)
    (hchk : checkPaths (nodeAt H L 0 view) none paths = none) :
    pathVerifyUpdate H L (nodeAt H L 0 view) paths = .ok (nodeAt H L 0 (kvApply view (allOps paths))) :=
  C08.T8_3_verify_update_complete H hs L view hc hlen paths hne hv hol hchk

/-- the specified witness of an empty batch is empty (and `verify_update` of no paths returns the base root) -/
theorem T6_0_empty (view : KVL VH) : witnessSpec H view [] [] = [] := by
  simp [witnessSpec, witnessWith, witnessWith.merge, groupByTerminal]

/-- T6.4 what the driver executes (`witnessFast`, all proofs read off one cached-hash tree) is the
specification `witnessSpec`, for every canonical view. -/
theorem T6_4_driver_witness_is_spec (view : KVL VH) (hc : Canon 256 0 view) (reads : List Key) (writes : Writes VH) :
    witnessFast H view reads writes = witnessSpec H view reads writes :=
  witnessFast_eq H view hc reads writes

/-- T6.5 **every path of the specified witness verifies and attests the view.**  For every `WPath` of the
witness there is one `Verified` object `v` — the result of `PathProof::verify` of the witnessed proof against
the base root with ANY key of the group as key path — whose path is the witnessed path, which has every read
and written key of the group in scope, and for every attested read `(k, val)`: `val` is the session's view
`kvGet view k`, confirmed by `v` (`confirm_value` for a present key, `confirm_nonexistence` for an absent one). -/
theorem T6_5_witness_paths_verify (hs : H.Sound) (L : Nat) (view : KVL VH) (hc : Canon L 0 view)
    (hlen : ∀ kv ∈ view, kv.1.length = L) (reads : List Key) (writes : Writes VH)
    (hr : ∀ k ∈ reads, k.length = L) (hw : ∀ kw ∈ writes, kw.1.length = L)
    (w : WPath Node VH) (hmem : w ∈ witnessSpecL H L view reads writes) :
    ∃ v, v.path = w.path ∧ v.root = nodeAt H L 0 view ∧
      (∃ k0, k0.length = L ∧ verify H L w.proof k0 (nodeAt H L 0 view) = .ok v) ∧
      (∀ o ∈ w.reads ++ w.writes, o.1.length = L ∧
          verify H L w.proof o.1 (nodeAt H L 0 view) = .ok v ∧ v.inScope o.1 = true) ∧
      (∀ o ∈ w.reads, o.2 = kvGet view o.1 ∧
          match o.2 with
          | some vh => v.confirmValue o.1 vh = some true
          | none => v.confirmNonexistence o.1 = some true) :=
  witness_paths_verify H L view reads writes hs hc hlen hr hw w hmem

/-- T6.5b the witness is a partition of the session's operations: its paths are strictly ascending, its
reads (path by path) are the read keys in ascending order without duplicates, each with the value seen, and
its writes (path by path) are the batch in ascending key order. -/
theorem T6_5b_witness_partitions (hs : H.Sound) (L : Nat) (view : KVL VH) (hc : Canon L 0 view)
    (reads : List Key) (writes : Writes VH)
    (hr : ∀ k ∈ reads, k.length = L) (hw : ∀ kw ∈ writes, kw.1.length = L)
    (hd : writes.Pairwise (fun a b => a.1 ≠ b.1)) :
    (witnessSpecL H L view reads writes).Pairwise (fun a b => bitsLt a.path b.path = true) ∧
    (witnessSpecL H L view reads writes).flatMap (·.reads) = sortedReads view reads ∧
    (sortedReads view reads).Pairwise KeyLt ∧
    (∀ x, x ∈ sortedReads view reads ↔ ∃ k ∈ reads, x = (k, kvGet view k)) ∧
    (witnessSpecL H L view reads writes).flatMap (·.writes) = sortedWrites writes ∧
    (sortedWrites writes).Pairwise KeyLt ∧
    (∀ x, x ∈ sortedWrites writes ↔ x ∈ writes) :=
  ⟨witnessSpecL_paths_sorted H L view reads writes hs hc hr hw,
   allReads_eq_sortedReads H L view reads writes hs hc hr hw,
   sortedReads_sorted view reads, mem_sortedReads view reads,
   by rw [← allOps_witnessUpdatesL]; exact allOps_eq_sortedWrites H L view reads writes hs hc hr hw,
   sortedWrites_sorted writes, mem_sortedWrites writes hd⟩

/-- T6.6 **the specified witness passes the argument checks of `verify_update`**: with `witnessUpdatesL` the
list of (verified path, writes of the path) for the paths that carry writes, every root matches, the paths
are strictly ascending and every path has non-empty, strictly ascending, in-scope operations. -/
theorem T6_6_witness_passes_checks (hs : H.Sound) (L : Nat) (view : KVL VH) (hc : Canon L 0 view)
    (hlen : ∀ kv ∈ view, kv.1.length = L) (reads : List Key) (writes : Writes VH)
    (hr : ∀ k ∈ reads, k.length = L) (hw : ∀ kw ∈ writes, kw.1.length = L) :
    checkPaths (nodeAt H L 0 view) none (witnessUpdatesL H L view reads writes) = none :=
  witnessUpdates_checkPaths H L view reads writes hs hc hlen hr hw

/-- T6.7 **the specified witness replays the session**: `verify_update` over the witnessed paths and writes
answers `ok` with the root of `kvApply view writes` — the root the store reports after the session (C02) —
for every canonical view, every read set and every batch with pairwise distinct keys (for an empty batch no
path carries writes and `verify_update` of no paths answers the base root). -/
theorem T6_7_witness_replays (hs : H.Sound) (L : Nat) (view : KVL VH) (hc : Canon L 0 view)
    (hlen : ∀ kv ∈ view, kv.1.length = L) (reads : List Key) (writes : Writes VH)
    (hr : ∀ k ∈ reads, k.length = L) (hw : ∀ kw ∈ writes, kw.1.length = L)
    (hd : writes.Pairwise (fun a b => a.1 ≠ b.1)) :
    pathVerifyUpdate H L (nodeAt H L 0 view) (witnessUpdatesL H L view reads writes)
      = .ok (nodeAt H L 0 (kvApply view writes)) :=
  witnessUpdates_replay H L view reads writes hs hc hlen hr hw hd

/-- T6.7 at the key length of the code, on `witnessSpec` itself (`witnessUpdates` is built from `witnessSpec`). -/
theorem T6_7_replay_256 (hs : H.Sound) (view : KVL VH) (hc : Canon 256 0 view)
    (hlen : ∀ kv ∈ view, kv.1.length = 256) (reads : List Key) (writes : Writes VH)
    (hr : ∀ k ∈ reads, k.length = 256) (hw : ∀ kw ∈ writes, kw.1.length = 256)
    (hd : writes.Pairwise (fun a b => a.1 ≠ b.1)) :
    checkPaths (nodeAt H 256 0 view) none (witnessUpdates H view reads writes) = none ∧
    pathVerifyUpdate H 256 (nodeAt H 256 0 view) (witnessUpdates H view reads writes)
      = .ok (nodeAt H 256 0 (kvApply view writes)) :=
  ⟨witnessUpdates_checkPaths H 256 view reads writes hs hc hlen hr hw,
   witnessUpdates_replay H 256 view reads writes hs hc hlen hr hw hd⟩

/-- the length-parametric definitions are the specification at 256 -/
theorem T6_8_witnessSpecL_256 (view : KVL VH) (reads : List Key) (writes : Writes VH) :
    witnessSpecL H 256 view reads writes = witnessSpec H view reads writes ∧
    witnessUpdatesL H 256 view reads writes = witnessUpdates H view reads writes := ⟨rfl, rfl⟩

/-! Non-vacuity (term hasher, 2-bit keys).  The trie of `exS` has the terminals `00`, `01` (leaves at depth 2)
and `1` (the leaf `11` at depth 1).  The session reads `10` (absent — shares the terminal `1`) and `01`, and
writes `11 := ⊥`, `00 := 1` (given out of order): three paths; the path `1` carries a read and a write. -/
def exS : List (Key × Nat) := [([false, false], 7), ([false, true], 8), ([true, true], 9)]
def exReads : List Key := [[true, false], [false, true]]
def exWrites : Writes Nat := [([true, true], none), ([false, false], some 1)]

example : (witnessSpecL TH 2 exS exReads exWrites).map (fun w => (w.path, w.reads, w.writes)) =
    [ ([false, false], [], [([false, false], some 1)]),
      ([false, true], [([false, true], some 8)], []),
      ([true], [([true, false], none)], [([true, true], none)]) ] := by rfl

example : (witnessUpdatesL TH 2 exS exReads exWrites).map (fun p => (p.inner.path, p.ops)) =
    [ ([false, false], [([false, false], some 1)]), ([true], [([true, true], none)]) ] := by decide

example : pathVerifyUpdate TH 2 (nodeAt TH 2 0 exS) (witnessUpdatesL TH 2 exS exReads exWrites)
    = .ok (nodeAt TH 2 0 [([false, false], 1), ([false, true], 8)]) := by
  have := T6_7_witness_replays TH TH_sound 2 exS (by simp [exS, Canon, side]) (by simp [exS]) exReads exWrites
    (by simp [exReads]) (by simp [exWrites]) (by simp [exWrites])
  rw [this]
  have : kvApply exS exWrites = [([false, false], 1), ([false, true], 8)] := by decide
  rw [this]

example : ∀ w ∈ witnessSpecL TH 2 exS exReads exWrites, ∃ v : Verified T Nat, v.path = w.path ∧
    ∀ o ∈ w.reads, o.2 = kvGet exS o.1 := by
  intro w hw
  obtain ⟨v, hp, _, _, _, hr⟩ := T6_5_witness_paths_verify TH TH_sound 2 exS (by simp [exS, Canon, side]) (by simp [exS])
    exReads exWrites (by simp [exReads]) (by simp [exWrites]) w hw
  exact ⟨v, hp, fun o ho => (hr o ho).1⟩

end Nomt.C06
