import NomtModel.Api.Witness
import NomtModel.Props.C05
import NomtModel.Props.C08
/-!
# C06 — A session witness lets a stateless verifier replay the session

`witnessSpec` (`Api/Witness.lean`) is the specified witness: one path per terminal reached by the read and
written keys, each path carrying `proveSpec view k` for the first key `k` that reaches it, the reads
attested with `kvGet view`, the writes listed under their path.  The real `Witness` (canonicalised: paths
ascending, operations ascending) must EQUAL it (correspondence run), and the oracle additionally verifies /
replays the real witness with the real verifier.

The three statements of the property, for the specified witness, are instances of theorems proved for
arbitrary keys and arbitrary verified path sets:
-/
namespace Nomt.C06
open Nomt Nomt.Api
variable {Node VH : Type} [DecidableEq Node] [DecidableEq VH] (H : Hasher Node VH)

/-- T6.1 every path proof a witness can contain (the specified proof of any key of the batch) verifies
against the session's base root — the root of the session's view. -/
theorem T6_1_paths_verify (L : Nat) (view : List (Key × VH)) (hc : Canon L 0 view) (k : Key) (hk : k.length = L) :
    ∃ v, verify H L (proveSpec H L view k) k (nodeAt H L 0 view) = .ok v ∧ v.inScope k = true :=
  C05.T5_1_proveSpec_verifies H L view hc k hk

/-- T6.2 the verified path attests, for the key it was made for, exactly the session's view: the value
(hash) if present, non-existence otherwise. -/
theorem T6_2_reads_attested (hs : H.Sound) (L : Nat) (view : List (Key × VH)) (hc : Canon L 0 view)
    (k : Key) (hk : k.length = L) :
    ∃ v, verify H L (proveSpec H L view k) k (nodeAt H L 0 view) = .ok v ∧
      (∀ vh, v.confirmValue k vh = some (decide ((k, vh) ∈ view))) ∧
      ((v.confirmNonexistence k = some true ∧ ∀ vh, (k, vh) ∉ view) ∨
       (v.confirmNonexistence k = some false ∧ ∃ vh, (k, vh) ∈ view)) :=
  C05.T5_2_proveSpec_truthful H hs L view hc k hk

/-- T6.3 replaying the witnessed writes through `verify_update` over ANY set of paths verified against the
base root that passes the verifier's argument checks (ascending paths; non-empty, ascending, in-scope
operations — the canonical witness is such a set) yields exactly the root of the updated key-value set,
i.e. the new root the store reports (C02). -/
theorem T6_3_replay_gives_new_root (hs : H.Sound) (L : Nat) (view : List (Key × VH)) (hc : Canon L 0 view)
    (hlen : ∀ kv ∈ view, kv.1.length = L) (paths : List (PathUpdateIn Node VH)) (hne : paths ≠ [])
    (hv : ∀ p ∈ paths, ∃ P kp, kp.length = L ∧ verify H L P kp (nodeAt H L 0 view) = .ok p.inner)
    (hol : ∀ p ∈ paths, ∀ o ∈ p.ops, o.1.length = L)
    (hchk : checkPaths (nodeAt H L 0 view) none paths = none) :
    pathVerifyUpdate H L (nodeAt H L 0 view) paths = .ok (nodeAt H L 0 (kvApply view (allOps paths))) :=
  C08.T8_3_verify_update_complete H hs L view hc hlen paths hne hv hol hchk

/-- the specified witness of an empty batch is empty (and `verify_update` of no paths returns the base root) -/
theorem T6_0_empty (view : KVL VH) : witnessSpec H view [] [] = [] := by
  simp [witnessSpec, witnessWith, witnessWith.merge, groupByTerminal]

/-- T6.4 what the driver executes (`witnessFast`, all proofs read off one cached-hash tree) is the
specification `witnessSpec`, for every canonical view. -/
theorem T6_4_driver_witness_is_spec (view : KVL VH) (hc : Canon 256 0 view) (reads : List Key) (writes : Writes VH) :
    witnessFast H view reads writes = witnessSpec H view reads writes :=
  witnessFast_eq H view hc reads writes

end Nomt.C06
