import NomtModel.Store.ExtRangeAdjInit
/-!
# C16 — the separator ranges of the workers partition the level and stay adjacent through range extensions

`ChainOK` (`Store/ExtRangePrepLemmas.lean`) is the partition `prepare_workers` establishes (proved for every worker count in
`T13_prepare_workers_partition`); here: what the two functions that move a boundary do to it.
-/
namespace Nomt.C16
open Nomt Nomt.ExtRange

/-- **T16.ranges_partition_initially** — the separator ranges `prepare_workers` hands out are `[None, s₁), [s₁, s₂), …,
[sₖ, None)` with `s₁ < s₂ < … < sₖ`: pairwise disjoint and covering the whole key space, every `sᵢ` a value the level lookup
returned (a separator of the level). -/
theorem T16_ranges_partition_initially (keys : List Nat) (total : Nat) : ∀ (ws : List WP) (low : Option Nat) (start : Nat)
    (left : Bool), ChainOK keys total low start left ws →
    (ws.head?.map (·.low) = some low) ∧ (ws.getLast?.map (·.high) = some none) ∧
    (∀ i a b, ws[i]? = some a → ws[i + 1]? = some b → a.high = b.low ∧ ∃ s, a.high = some s ∧ ∀ l, a.low = some l → l < s)
  | [], _, _, _, h => by simp [ChainOK] at h
  | [w], _, _, _, h => by
    obtain ⟨hl, _, _, hh, _⟩ := h
    refine ⟨by simp [hl], by simp [hh], ?_⟩
    intro i a b _ hb
    simp at hb
  | w :: w' :: rest, _, _, _, h => by
    obtain ⟨hl, _, _, _, _, ⟨s, hs, hlt⟩, _, hrest⟩ := h
    obtain ⟨r1, r2, r3⟩ := T16_ranges_partition_initially keys total (w' :: rest) _ _ _ hrest
    refine ⟨by simp [hl], by simpa using r2, ?_⟩
    intro i a b ha hb
    cases i with
    | zero =>
      simp only [List.getElem?_cons_zero, Option.some.injEq, List.getElem?_cons_succ] at ha hb
      subst ha hb
      simp only [List.head?_cons, Option.map_some, Option.some.injEq] at r1
      exact ⟨r1.symm, s, hs, fun l hl' => hlt l (by rw [← hl]; exact hl')⟩
    | succ i =>
      simp only [List.getElem?_cons_succ] at ha hb
      exact r3 i a b ha hb

/-- **T16.boundary_moves_on_both_sides** — "`self.low` and `left.high` are kept equal": an answer sets the responder's
`range.low` to the `new_high_range` it sends, and the requester sets its `range.high` to the `new_high_range` it receives (and
nothing else moves a boundary: `low` is written by `answerWith` only, `high` by `takeResp` only).  With the protocol
invariant (one outstanding request per channel, the requester blocked until it takes the answer) the ranges of neighbours
are adjacent again as soon as the response is taken (`T16_ranges_adjacent_every_schedule`). -/
theorem T16_boundary_moves_on_both_sides {σ N C : Type} (g : G σ N C) (i r : Nat) (chan : List Nat) (fin : Bool) (next : Pc)
    (resp : Resp N) (inner' : Inner N) (relink : Bool) (g' : G σ N C) (hri : r ≠ i)
    (ha : answer (g.ws i).tr.inner (g.ws i).low (g.ws i).high (g.ws i).right fin = some (resp, inner', relink))
    (h : answerWith g i fin next r chan = .ok g') :
    (g'.ws i).low = resp.newHigh ∧ (g'.ws r).resp = some resp ∧ (takeResp (g'.ws r) resp).high = resp.newHigh := by
  unfold answerWith at h
  simp only [ha] at h
  repeat' split at h
  all_goals first
    | (injection h with h; subst h
       exact ⟨by simp [upd, Ne.symm hri], by simp [upd], (takeResp_frame _ _).2.2.2.2.1⟩)
    | cases h

/-- **T16.ranges_adjacent_every_schedule** — for every node updater, level, change list, worker count and EVERY
interleaving of the worker threads (the code as it is): in every state reached, the effective upper bound of every worker
(the `new_high_range` of the response waiting in its slot, else its `range.high`) equals the `range.low` of its effective
right neighbour (the `new_right_neighbor` of that response, else its `right_neighbor`).  With the initial partition
`[None, s₁), …, [sₖ, None)` this is "the separator ranges of linked workers stay adjacent: no gap, no overlap" — a boundary
only moves by an answer, on both sides at once.  Not included: `low ≤ high` of each range (needs the order of the tracker's
keys, an updater law) and the ranges of workers that were bypassed by a relink (empty by then: `low = high`, an oracle of
the differential). -/
theorem T16_ranges_adjacent_every_schedule {σ N C : Type} (U : Upd σ N C) (cfg : Cfg) (hs : cfg.staleHigh = false)
    (hm : cfg.highMax = false) (db : List (DbN N)) (cs : List (Nat × C)) (look : Nat → Option Nat) (hlook : ∀ k s, look k = some s → s ≤ k)
    (hasc : Asc (cs.map (·.1))) (hne : cs ≠ []) (count : Nat) (s : List Nat) :
    match runSched U cfg db s (initG U cfg db cs (prepareWorkers look (cs.map (·.1)) count)) with
    | .inr g' => Adj g'
    | .inl _ => True := by
  have hlen : 0 < (cs.map (·.1)).length := by
    cases cs with
    | nil => exact absurd rfl hne
    | cons _ _ => simp
  have hc := (prepLoop_chain look hlook (cs.map (·.1)) hasc (cs.map (·.1)).length (count - 1) 0 (cs.map (·.1))
    { low := none, high := none, start := 0, stop := (cs.map (·.1)).length, left := false, right := false }
    (by simp) (Nat.zero_le _) rfl rfl rfl (Nat.le_refl _) hlen (fun _ _ l _ _ h => by cases h)).1
  exact adj_runSched U cfg db hs hm s _ (inv_init U cfg db cs (cs.map (·.1)) _ none 0 false hc)
    (adj_init U cfg db cs (cs.map (·.1)) _ none 0 false hc)

/-! ## non-vacuity -/

example : ∃ ws, ws = prepareWorkers (fun k => if k < 20 then some 10 else some 20) [11, 12, 13, 20, 21, 53] 2 ∧
    ws.map (fun w => (w.low, w.high)) = [(none, some 20), (some 20, none)] := ⟨_, rfl, by decide⟩

end Nomt.C16
