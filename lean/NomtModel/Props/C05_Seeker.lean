import NomtModel.Props.C05_Seek
import NomtModel.Store.SeekerInv
import NomtModel.Store.SeekerCount
/-!
# C05 / C13 — the `Seeker` (`nomt/src/merkle/seek.rs`): request multiplexing over the I/O pool

Property theorems about the mirror `Store/Seeker.lean` of the `Seeker` (I/O slab with its free list, `io_waiters`, idle
queues, `MAX_INFLIGHT` back-pressure, `take_completion`), whose requests are the `SeekRequest`s of `Store/Seek.lean`
(`T5_seek_is_proveSpec`, `Props/C05_Seek.lean`).  A run is ANY list of calls `push k | submit_all | recv ud | recvErr ud |
take_completion` — `recv ud` = the I/O pool hands over the completion of the read with user data `ud`, whichever the
scheduler picks; a `recv` for which nothing is in flight is a no-op — from any seeker state, for every `MAX_INFLIGHT`.

Helper lemmas: `Store/SeekerKeys.lean`, `Store/SeekerRun.lean`.  Tie to the code: harness command `seeker` (the REAL
`Seeker` through `nomt::verif_api::seek::SeekerSim`, scripted I/O) vs driver mode `seeker`, the whole multiplexer state
after every call.
-/
namespace Nomt.C05
open Nomt Nomt.Ovl Nomt.TriePos Nomt.Seek Nomt.Seeker

variable {Node VH V : Type}

/-- **T5.seeker.order** (exactly once, in push order — for EVERY world, hash table, `MAX_INFLIGHT`, call sequence and
completion order; no hypothesis): if a run from a fresh seeker reaches no panic site, then at every moment
`keys handed out so far ++ keys of the live requests (front to back) = keys pushed so far`, every request handed out
is completed, and `processed` counts them.  So the completions are a prefix of the push sequence — duplicates
included, each push answered at most once and in order — and once `is_empty()` every pushed key has been answered
exactly once. -/
theorem T5_seeker_push_order (env : Env Node VH V) (ht : Ht) (maxInflight : Nat) (cache : List (PageId × MPage Node))
    (ps : PageSet Node) (leafCache : List Nat) (ops : List Seeker.Op) (s : Seeker.Run Node VH V)
    (h : Seeker.run env ht { m := { maxInflight := maxInflight, cache := cache, ps := ps, leafCache := leafCache } } ops = .ok s) :
    s.out.map (·.key) ++ s.m.reqs.map (·.key) = pushedKeys ops ∧
    (∀ r ∈ s.out, r.isCompleted = true) ∧ s.m.processed = s.out.length ∧
    (s.m.isEmpty = true → s.out.map (·.key) = pushedKeys ops) := by
  obtain ⟨h1, h2, h3⟩ := run_fifo env ht ops _ s h
  have h1' : s.out.map (·.key) ++ s.m.reqs.map (·.key) = pushedKeys ops := by
    simpa [keys] using h1
  refine ⟨h1', h3 (fun r hr => by cases hr), by simpa using h2, ?_⟩
  intro he
  have : s.m.reqs = [] := by
    unfold Mux.isEmpty at he
    exact List.isEmpty_iff.1 he
  rw [this] at h1'
  simpa using h1'

/-- **T5.seeker.slab** (index reuse): `Slab::insert` hands out `vacant_key()`, an index that holds NO load at that
moment, and leaves every other index alone; `Slab::remove` frees exactly its index (which becomes the next
`vacant_key()`).  With the mirror of `handle_completion` — the only caller of `remove`, reached only through the
completion carrying that index as user data — an index is handed out again only after the completion of its previous
load was consumed. -/
theorem T5_seeker_slab_reuse (s s' : Slab) (v : IoReq) (k : Nat) :
    (s.insert v = .ok (s', k) → k = s.next ∧ s.get k = none ∧ s'.get k = some v ∧ s'.len = s.len + 1 ∧
      ∀ j, j ≠ k → s'.get j = s.get j) ∧
    (s.remove k = .ok (s', v) → s.get k = some v ∧ s'.get k = none ∧ s'.next = k ∧ ∀ j, j ≠ k → s'.get j = s.get j) := by
  constructor
  · intro h
    unfold Slab.insert at h
    split at h
    · rename_i hn
      cases h
      refine ⟨rfl, ?_, ?_, rfl, ?_⟩
      · simp [Slab.get, hn]
      · simp [Slab.get, hn]
      · intro j hj
        simp only [Slab.get]
        by_cases hlt : j < s.entries.length
        · rw [List.getElem?_append_left hlt]
        · have e1 : s.entries[j]? = none := List.getElem?_eq_none (by omega)
          have e2 : (s.entries ++ [Entry.occ v])[j]? = none :=
            List.getElem?_eq_none (by simp only [List.length_append, List.length_singleton]; omega)
          rw [e1, e2]
    · split at h
      · rename_i n hv
        cases h
        refine ⟨rfl, by simp [Slab.get, hv], ?_, rfl, ?_⟩
        · have hlt : s.next < s.entries.length := by
            obtain ⟨hl, _⟩ := List.getElem?_eq_some_iff.1 hv
            exact hl
          simp [Slab.get, List.getElem?_set, hlt]
        · intro j hj
          simp only [Slab.get]
          rw [List.getElem?_set]
          have : ¬ s.next = j := fun e => hj e.symm
          simp [this]
      · cases h
  · intro h
    unfold Slab.remove at h
    split at h
    · rename_i v0 hv
      cases h
      have hlt : k < s.entries.length := by
        obtain ⟨hl, _⟩ := List.getElem?_eq_some_iff.1 hv
        exact hl
      refine ⟨by simp [Slab.get, hv], by simp [Slab.get, List.getElem?_set, hlt], rfl, ?_⟩
      intro j hj
      simp only [Slab.get]
      rw [List.getElem?_set]
      have : ¬ k = j := fun e => hj e.symm
      simp [this]
    · cases h

/-- **T5.seeker.spec** (the `Seeker` refines the request-level system of `T5_seek_is_proveSpec`): in a world that is
`OK`, with a hash table in which every probe sequence reaches its page (`HtOK`), from a fresh seeker over a good page
set and good in-memory sources, for EVERY `MAX_INFLIGHT`, every leaf cache, every list of calls `push (256-bit key) |
submit_all | recv ud | recvErr ud | take_completion` and hence every completion order: the run reaches NO panic site
(none of the `assert!`s, `unwrap`s, `unreachable!`s and index operations of `seek.rs`, nor the slab's), the requests
are handed out in push order, each once, and every request handed out holds exactly the proof `proveSpec view key`
(the siblings only when `record_siblings`), at the terminal's position and with the page id of that position.
Proof: the refinement invariant `MInv` (`Store/SeekerInv.lean`) — a ghost function "what request `i` waits for", the
waiter list of `q` holds only live requests waiting for `q`, idle requests wait for nothing, the slab's free list, the
probe counters, the reads in flight — is kept by every call; each step of a request is one of Q18's operations. -/
theorem T5_seeker_is_proveSpec [DecidableEq Node] [DecidableEq VH] (W : World Node VH V) (hOK : W.OK) (ht : Ht)
    (hHt : HtOK W ht) (maxInflight : Nat) (cache : List (PageId × MPage Node)) (ps : PageSet Node) (leafCache : List Nat)
    (hps : PSInv W ps) (hmem : MemOK W cache) (ops : List Seeker.Op)
    (hk : ∀ k, Seeker.Op.push k ∈ ops → k.length = KEY_BITS) :
    ∃ s, Seeker.run W.env ht { m := { maxInflight := maxInflight, cache := cache, ps := ps, leafCache := leafCache } } ops = .ok s ∧
      s.out.map (·.key) ++ s.m.reqs.map (·.key) = pushedKeys ops ∧
      ∀ r ∈ s.out, ∃ res, r.result = some res ∧
        resultProof res.pos res.sibs res.terminal =
          (if W.env.record then proveSpec W.H KEY_BITS W.view r.key
           else { proveSpec W.H KEY_BITS W.view r.key with siblings := [] }) ∧
        res.pos.path = r.key.take res.pos.depth ∧
        res.pageId = (if res.pos.depth = 0 then none else some (specPage res.pos.path)) := by
  obtain ⟨s, aw, e, _, hout⟩ := run_inv W hOK ht hHt ops
    { m := { maxInflight := maxInflight, cache := cache, ps := ps, leafCache := leafCache } } (fun _ => none)
    (minv_init W ht maxInflight cache ps leafCache hps hmem) (fun r hr => by simp at hr) hk
  obtain ⟨o1, o2, _, _⟩ := T5_seeker_push_order W.env ht maxInflight cache ps leafCache ops s e
  refine ⟨s, e, o1, ?_⟩
  intro r hr
  obtain ⟨ps', a, hok⟩ := hout r hr
  have hc := o2 r hr
  have hres : ∃ res, r.result = some res := by
    unfold Req.isCompleted at hc
    unfold Req.result
    cases hs : r.st with
    | completed t => exact ⟨_, rfl⟩
    | seeking => rw [hs] at hc; cases hc
    | fetchingLeaf dels it needed => rw [hs] at hc; cases hc
    | fetchingLeaves page range it needed coll => rw [hs] at hc; cases hc
  obtain ⟨res, hres⟩ := hres
  exact ⟨res, hres, completed_result hok hres⟩

/-- **T5.seeker.nostall** (the exact boundary of the stall observation; partial: the re-submission of requests that
wait for nothing is not covered): for EVERY world, hash table, `MAX_INFLIGHT` and every run in which no read is lost to
an I/O error (`recvErr` abandons the whole update in the real code), at every moment
* every waiter list has exactly one load, in flight or parked: `|io_waiters| = reads in flight + |idle_page_loads|`;
* a seeker that has no room (`!has_room()`) and FEWER than `MAX_INFLIGHT` parked loads has a read in flight —
  `recv_page` will return;
* whenever some request waits for a load (`io_waiters` not empty) and fewer than `MAX_INFLIGHT` loads are parked, a read
  is in flight after `submit_all` (with room, `submit_all` re-probes every parked load).
So a state "requests wait for I/O, nothing in flight, `submit_all` changes nothing" needs ALL `MAX_INFLIGHT` loads
parked at once — which `T5_seeker_stall_all_loads_idle_counterexample` shows is enough.  No hypothesis on the world
(`Store/SeekerCount.lean`: "if the call returns, then …"); that the calls do return is `T5_seeker_is_proveSpec`. -/
theorem T5_seeker_no_stall_partial (env : Env Node VH V) (ht : Ht) (maxInflight : Nat) (cache : List (PageId × MPage Node))
    (ps : PageSet Node) (leafCache : List Nat) (ops : List Seeker.Op) (hne : noErr ops) (s : Seeker.Run Node VH V)
    (h : Seeker.run env ht { m := { maxInflight := maxInflight, cache := cache, ps := ps, leafCache := leafCache } } ops = .ok s) :
    s.m.waiters.length = s.m.inflight.length + s.m.idleLoads.length ∧
    (s.m.hasRoom = false → s.m.idleLoads.length < s.m.maxInflight → s.m.inflight ≠ []) ∧
    (∀ m', s.m.waiters ≠ [] → s.m.idleLoads.length < s.m.maxInflight → submitAll env ht s.m = .ok m' →
      m'.inflight ≠ []) := by
  obtain ⟨c0, b0⟩ := cinv_init (Node := Node) (VH := VH) (V := V) maxInflight cache ps leafCache
  obtain ⟨c, b, _⟩ := run_c env ht ops _ s hne c0 h
  rw [b0] at b
  have hcount : s.m.waiters.length = s.m.inflight.length + s.m.idleLoads.length := by
    simp only [bal] at b
    omega
  have hfull : s.m.hasRoom = false → s.m.idleLoads.length < s.m.maxInflight → s.m.inflight ≠ [] := by
    intro hr hl he
    unfold Mux.hasRoom at hr
    have : ¬ s.m.waiters.length < s.m.maxInflight := by simpa using hr
    rw [he] at hcount
    simp only [List.length_nil] at hcount
    omega
  refine ⟨hcount, hfull, ?_⟩
  intro m' hw hl hs
  obtain ⟨_, _, _, mono, room⟩ := submitAll_c env ht _ _ c hs
  cases hr : s.m.hasRoom with
  | false => exact mono (hfull hr hl)
  | true =>
    by_cases hi : s.m.idleLoads = []
    · apply mono
      intro he
      rw [he, hi] at hcount
      simp only [List.length_nil] at hcount
      exact hw (List.length_eq_zero_iff.1 (by omega))
    · exact room hr hi

/-! ### non-vacuity and the stall

the world `skW` of `Props/C05_Seek.lean` (two keys under the root page, one b-tree leaf; `skW_ok : skW.OK`); the root
page sits behind one misprobe: its probe sequence reads bucket 5 (another page, same tag) and then bucket 9. -/

def skHt : Ht :=
  { probes := fun p => if p = [] then [5, 9] else [],
    label := fun b => if b = 9 then some [] else if b = 5 then some [1] else none }

/-- the hypotheses of `T5_seeker_is_proveSpec` are met by the example: the world is `OK` (`skW_ok`), the page set is
empty, the cache is good (`skW_mem`), and the only stored page — the root — is reached by its probe sequence, after
one bucket that holds another page -/
example : HtOK skW skHt := by
  intro pid page h
  by_cases hp : pid = []
  · subst hp
    exact ⟨1, 9, rfl, rfl, fun j' b' hj hb => by
      have : j' = 0 := by omega
      subst this
      have : b' = 5 := by simpa [skHt] using hb.symm
      subst this
      decide⟩
  · have : (pid == ([] : PageId)) = false := by simpa using hp
    simp [skW, skEnv, List.lookup, this] at h

def skOut (o : Outcome Unit (Seeker.Run T Nat Nat)) : List (Option (Option (Key × Nat) × List T × Nat)) :=
  match o with
  | .ok s => s.out.map (fun r => r.result.map (fun x => (x.terminal, x.sibs, x.pos.depth)))
  | _ => []

/-- the multiplexer at a glance: completions handed out, live requests, the waiter lists, loads in the slab,
`idle_requests`, `idle_page_loads`, the user data of the reads in flight -/
structure Shape where
  out : Nat
  reqs : Nat
  waiters : List (List Nat)
  slab : Nat
  idleReqs : List Nat
  idleLoads : List Nat
  inflight : List Nat
deriving DecidableEq, Repr

def skShape (o : Outcome Unit (Seeker.Run T Nat Nat)) : Option Shape :=
  match o with
  | .ok s => some ⟨s.out.length, s.m.reqs.length, s.m.waiters.map (·.2), s.m.slab.len, s.m.idleReqs, s.m.idleLoads,
      s.m.inflight.map (·.1)⟩
  | _ => none

/-- two keys sharing the root page and the b-tree leaf, cold caches, `MAX_INFLIGHT = 2`: ONE load of the root page
serves both (waiter list `[0, 1]`), the misprobe is re-probed by the next `submit_all`, ONE load of the leaf serves
both, the slab index 0 is used three times; the completions leave in push order and are the specified proofs (the
values of `T5_seek_is_proveSpec`'s example) -/
example :
    skShape (Seeker.run skEnv skHt { m := { maxInflight := 2 } } [.push skB, .push skA, .submitAll]) =
      some ⟨0, 2, [[0, 1]], 1, [], [], [0]⟩ ∧
    skShape (Seeker.run skEnv skHt { m := { maxInflight := 2 } } [.push skB, .push skA, .submitAll, .recv 0]) =
      some ⟨0, 2, [[0, 1]], 1, [], [0], []⟩ ∧
    skShape (Seeker.run skEnv skHt { m := { maxInflight := 2 } }
      [.push skB, .push skA, .submitAll, .recv 0, .submitAll, .recv 0, .submitAll]) =
      some ⟨0, 2, [[0, 1]], 1, [], [], [0]⟩ ∧
    skOut (Seeker.run skEnv skHt { m := { maxInflight := 2 } }
      [.push skB, .push skA, .submitAll, .recv 0, .submitAll, .recv 0, .take, .submitAll, .recv 0, .take, .take]) =
      [some (some (skB, 2), [T.leaf skA 1], 1), some (some (skA, 1), [T.leaf skB 2], 1)] := by decide +kernel

def skEmpty (o : Outcome Unit (Seeker.Run T Nat Nat)) : Option (Bool × Bool × Bool) :=
  match o with
  | .ok s => some (s.m.isEmpty, s.m.hasRoom, s.m.hasLive)
  | _ => none

/-- the hypotheses of `T5_seeker_push_order` are met by that run (it returns normally, and the seeker is empty) -/
example : skEmpty (Seeker.run skEnv skHt { m := { maxInflight := 2 } }
    [.push skB, .push skA, .submitAll, .recv 0, .submitAll, .recv 0, .take, .submitAll, .recv 0, .take, .take]) =
    some (true, true, false) := by decide +kernel

/-- the hypothesis of `T5_seeker_no_stall_partial` is met by those runs (no `recvErr`), and the stall below sits exactly
on its boundary: one parked load, `MAX_INFLIGHT = 1` -/
example : noErr [.push skB, .push skA, .submitAll, .recv 0, .submitAll, .recv 0, .take, .submitAll, .recv 0, .take, .take] ∧
    noErr [.push skB, .submitAll, .recv 0] := ⟨trivial, trivial⟩

/-- the slab lemma on a slab in use: index 0 freed, index 1 in use — `insert` hands out 0 again -/
example : ({ entries := [.vac 2, .occ (.leaf 7)], next := 0, len := 1 } : Slab).insert (.leaf 3) =
    .ok ({ entries := [.occ (.leaf 3), .occ (.leaf 7)], next := 2, len := 2 }, 0) := by decide

/-- **T5.seeker.stall (counterexample to "never stalls")**: `submit_all` returns at once when `!has_room()`, so a page
load that `handle_completion` parked in `idle_page_loads` (misprobe) is re-probed only when there is room again.  When
ALL `MAX_INFLIGHT` loads are parked at the same time nothing is in flight, nothing is resubmitted, `take_completion`
answers `None` and `has_live_requests()` is false: `RangeUpdater::update`, the tail of `warm_up_phase` and
`Updater::prove`-style loops spin forever.  Here with `MAX_INFLIGHT = 1` in the `OK` world `skW` (the REAL `Seeker`
does the same with the override of hook H34 — harness counter `stall_no_room_all_loads_idle`); with the production
constant it takes 1024 simultaneous misprobes. -/
theorem T5_seeker_stall_all_loads_idle_counterexample :
    skW.OK ∧
    skShape (Seeker.run skEnv skHt { m := { maxInflight := 1 } } [.push skB, .submitAll, .recv 0]) =
      some ⟨0, 1, [[0]], 1, [], [0], []⟩ ∧
    skShape (Seeker.run skEnv skHt { m := { maxInflight := 1 } } [.push skB, .submitAll, .recv 0, .submitAll, .take]) =
      some ⟨0, 1, [[0]], 1, [], [0], []⟩ ∧
    skEmpty (Seeker.run skEnv skHt { m := { maxInflight := 1 } } [.push skB, .submitAll, .recv 0]) =
      some (false, false, false) :=
  ⟨skW_ok, by decide +kernel, by decide +kernel, by decide +kernel⟩

end Nomt.C05
