import NomtModel.Api.ApiRollback
/-!
# C09 — Rollback restores exactly the state n commits ago  (first claim; Exec-level theorems follow)
-/
namespace Nomt.C09
open NomtApi
variable {K V R : Type} [DecidableEq K] [DecidableEq R]

/-- T9.1 + T9.3: in every state whose log is a chain of actual commits ending in the current values
(`Inv`, preserved by every commit: `commit_inv`), `rollback n` with `0 < n ≤ log length` succeeds and the
values are exactly those before the last `n` commits (`mid` with a chain of the `n` newest deltas from
`mid` to the current values), the older log is kept and the invariant is preserved; a rollback that
cannot be served returns `err` and changes nothing. -/
theorem T9_1_rollback_restores (rootOf : KV K V → R) (n : Nat) (s : St K V R) (hi : Inv s) (hn : 0 < n) :
    (n ≤ s.log.length →
      ∃ mid, Chain mid (s.log.drop (s.log.length - n)) s.kv ∧
        (rollback rootOf n s).1 = .ok ∧ (rollback rootOf n s).2.kv = mid ∧
        (rollback rootOf n s).2.log = s.log.take (s.log.length - n) ∧ Inv (rollback rootOf n s).2) ∧
    (s.log.length < n → rollback rootOf n s = (.err, s)) :=
  rollback_restores rootOf n s hi hn

/-- the invariant is established by the empty log and kept by commits -/
theorem T9_0_commit_keeps_inv (cs : Changeset K V R) (s : St K V R) (hi : Inv s)
    (hd : cs.delta = deltaOf s.kv cs.writes) : Inv (commit cs s).2 :=
  commit_inv cs s hi hd

/-- undoing a chain of commits restores its start state, whatever the chain (T9.2: `rollback k` then
`rollback m` equals `rollback (k+m)` follows by `chain_append`). -/
theorem T9_2_undo_chain (st0 fin : KV K V) (ds : List (Delta K V)) (h : Chain st0 ds fin) :
    applyWrites fin (traceback ds) = st0 := undo_chain st0 fin ds h

example : Inv (K := Nat) (V := Nat) (R := Nat) { kv := fun _ => none, root := 0, log := [], seqn := 0 } :=
  ⟨fun _ => none, Chain.nil _⟩

end Nomt.C09
