import NomtModel.Api.ApiRollback
import NomtModel.Api.ExecRollback
/-!
# C09 — Rollback restores exactly the state n commits ago

Part A: the abstract model `Api/Api.lean` (function-valued maps, log oldest first).
Part B: the executable model `Api/Exec.lean` (sorted lists, log newest first, bounded by `maxLog`);
helper lemmas and the definitions `deltaOf`, `LogChain`, `LogInv`, `StInv` are in `Api/ExecRollback.lean`.
-/
namespace Nomt.C09
open NomtApi
variable {K V R : Type} [DecidableEq K] [DecidableEq R]

/-- T9.1 + T9.3: in every state whose log is a chain of actual commits ending in the current values
(`Inv`, preserved by every commit: `commit_inv`), `rollback n` with `0 < n ≤ log length` succeeds and the
values are exactly those before the last `n` commits (`mid` with a chain of the `n` newest deltas from
`mid` to the current values), the older log is kept and the invariant is preserved; a rollback that
cannot be served returns `err` and changes nothing. -/
theorem T9_1_rollback_restores (rootOf : KV K V → R) (n : Nat) (s : St K V R) (hi : Inv s) (hn : 0 < n) :
    (n ≤ s.log.length →
      ∃ mid, Chain mid (s.log.drop (s.log.length - n)) s.kv ∧
        (rollback rootOf n s).1 = .ok ∧ (rollback rootOf n s).2.kv = mid ∧
        (rollback rootOf n s).2.log = s.log.take (s.log.length - n) ∧ Inv (rollback rootOf n s).2) ∧
    (s.log.length < n → rollback rootOf n s = (.err, s)) :=
  rollback_restores rootOf n s hi hn

/-- the invariant is established by the empty log and kept by commits -/
theorem T9_0_commit_keeps_inv (cs : Changeset K V R) (s : St K V R) (hi : Inv s)
    (hd : cs.delta = deltaOf s.kv cs.writes) : Inv (commit cs s).2 :=
  commit_inv cs s hi hd

/-- undoing a chain of commits restores its start state, whatever the chain (T9.2: `rollback k` then
`rollback m` equals `rollback (k+m)` follows by `chain_append`). -/
theorem T9_2_undo_chain (st0 fin : KV K V) (ds : List (Delta K V)) (h : Chain st0 ds fin) :
    applyWrites fin (traceback ds) = st0 := undo_chain st0 fin ds h

example : Inv (K := Nat) (V := Nat) (R := Nat) { kv := fun _ => none, root := 0, log := [], seqn := 0 } :=
  ⟨fun _ => none, Chain.nil _⟩

end Nomt.C09

namespace Nomt.C09
open Nomt Nomt.Api
variable {Node VH : Type} [DecidableEq Node] [DecidableEq VH]

/-- T9.4: the invariant `StInv` (the log, newest first, is a chain of reverse deltas of actual commits from
a sorted state to the current values; no log without rollback) holds for an empty log and is kept by the
state change of every commit whose delta is the priors of its writes — including the `maxLog` truncation —
by blocking commits and overlay commits whatever their result. -/
theorem T9_4_commits_keep_inv :
    (∀ (s : St Node VH), KSorted s.kv → s.log = [] → StInv s) ∧
    (∀ (s : St Node VH) (ws delta : Writes VH) (root : Node) (marker : Option Nat),
      StInv s → delta = deltaOf s.kv ws → StInv (applyCommit s ws delta root marker)) ∧
    (∀ (s : St Node VH) (fid : Nat), StInv s →
      (∀ f, s.fins.find? (·.id == fid) = some f → f.delta = deltaOf s.kv f.writes) → StInv (commitFin s fid).2) ∧
    (∀ (s : St Node VH) (oid : Nat), StInv s →
      (∀ o, s.ov? oid = some o → o.delta = deltaOf s.kv o.changes) → StInv (commitOv s oid).2) :=
  ⟨fun s hs hl => ⟨hl ▸ LogInv.nil hs, fun _ => hl⟩, applyCommit_stInv, commitFin_stInv, commitOv_stInv⟩

/-- T9.5: in a state satisfying the invariant, `rollback n` with `0 < n ≤ log length` returns `ok`; the new
values are — as a list — the state `mid` from which the `n` newest logged commits lead to the current
values, i.e. the values `n` commits ago (`mid` is unique: T9.6); the root is the root of `mid`, the older
log is kept and the invariant is preserved. -/
theorem T9_5_rollback_restores_exec (H : Hasher Node VH) (s : St Node VH) (n : Nat) (hi : StInv s)
    (hon : s.rollbackOn = true) (hn : 0 < n) (hle : n ≤ s.log.length) :
    ∃ mid, KSorted mid ∧ LogChain mid (s.log.take n) s.kv ∧ LogInv mid (s.log.drop n) ∧
      (rollback H s n).1 = .ok ∧ (rollback H s n).2.kv = mid ∧ (rollback H s n).2.root = rootOfKV H mid ∧
      (rollback H s n).2.log = s.log.drop n ∧ StInv (rollback H s n).2 :=
  rollback_restores_exec H s n hi hon hn hle

/-- T9.6: *whatever* sorted state `mid` the `n` newest deltas lead from to the current values — in particular
the committed values as they were `n` successful commits ago — is what `rollback n` restores. -/
theorem T9_6_rollback_kv_unique (H : Hasher Node VH) (s : St Node VH) (n : Nat) (hon : s.rollbackOn = true)
    (hn : 0 < n) (hle : n ≤ s.log.length) (mid : KVL VH) (hm : KSorted mid)
    (hc : LogChain mid (s.log.take n) s.kv) : (rollback H s n).2.kv = mid :=
  rollback_kv_unique H s n hon hn hle mid hm hc

/-- T9.7: commit then `rollback 1` gives back the very same list of values (and its root) -/
theorem T9_7_commit_rollback_one (H : Hasher Node VH) (s : St Node VH) (ws : Writes VH) (root : Node)
    (marker : Option Nat) (hs : KSorted s.kv) (hon : s.rollbackOn = true) (hmax : 0 < s.maxLog) :
    (rollback H (applyCommit s ws (deltaOf s.kv ws) root marker) 1).1 = .ok ∧
    (rollback H (applyCommit s ws (deltaOf s.kv ws) root marker) 1).2.kv = s.kv ∧
    (rollback H (applyCommit s ws (deltaOf s.kv ws) root marker) 1).2.root = rootOfKV H s.kv := by
  have hlog : (applyCommit s ws (deltaOf s.kv ws) root marker).log = deltaOf s.kv ws :: s.log.take (s.maxLog - 1) := by
    simp only [applyCommit, pushLog, hon, if_true]
    obtain ⟨m, hm⟩ : ∃ m, s.maxLog = m + 1 := ⟨s.maxLog - 1, by omega⟩
    rw [hm]; simp
  obtain ⟨h1, h2, h3, _⟩ := rollback_ok_fields H (applyCommit s ws (deltaOf s.kv ws) root marker) 1 hon
    (by omega) (by rw [hlog]; simp)
  have hkv : (rollback H (applyCommit s ws (deltaOf s.kv ws) root marker) 1).2.kv = s.kv := by
    rw [h2, hlog]
    simp only [List.take_succ_cons, List.take_zero, traceback_cons]
    show kvApply (kvApply s.kv ws) (deltaOf s.kv ws ++ traceback []) = s.kv
    rw [show traceback ([] : List (Writes VH)) = [] from rfl, List.append_nil]
    exact kvApply_deltaOf hs ws
  exact ⟨h1, hkv, by rw [h3, ← h2, hkv]⟩

/-- T9.8: `rollback k` then `rollback m` equals `rollback (k + m)` on values, root, log and overlay marker
(only the sync sequence number differs: two syncs instead of one) -/
theorem T9_8_rollback_compose (H : Hasher Node VH) (s : St Node VH) (k m : Nat) (hon : s.rollbackOn = true)
    (hk : 0 < k) (hm : 0 < m) (hle : k + m ≤ s.log.length) :
    (rollback H (rollback H s k).2 m).1 = .ok ∧ (rollback H s (k + m)).1 = .ok ∧
    (rollback H (rollback H s k).2 m).2.kv = (rollback H s (k + m)).2.kv ∧
    (rollback H (rollback H s k).2 m).2.root = (rollback H s (k + m)).2.root ∧
    (rollback H (rollback H s k).2 m).2.log = (rollback H s (k + m)).2.log ∧
    (rollback H (rollback H s k).2 m).2.lastMarker = (rollback H s (k + m)).2.lastMarker ∧
    (rollback H (rollback H s k).2 m).2.seqn = (rollback H s (k + m)).2.seqn + 1 :=
  rollback_rollback H s k m hon hk hm hle

/-- non-vacuity (Exec): two commits on a sorted state satisfy the invariant with a log of length 2 -/
example : StInv (Node := Nat) (VH := Nat)
    (applyCommit (applyCommit { root := 0 } [([true], some 1)] (deltaOf [] [([true], some 1)]) 1 none)
      [([true], none), ([false], some 2)] (deltaOf [([true], 1)] [([true], none), ([false], some 2)]) 2 none) := by
  apply applyCommit_stInv
  · apply applyCommit_stInv
    · exact ⟨LogInv.nil KSorted.nil, by simp⟩
    · rfl
  · rfl

end Nomt.C09
