import NomtModel.Api.Locks2Exec
/-!
# C15 — the sequential specification of the two-lock LTS is `Api/Exec.lean`

Kept apart from `Props/C15_Locks2.lean` only because `Api/Exec.lean` brings `Nomt.run` of the trie model
into scope, which clashes with `Locks2.run`.
-/
namespace Nomt.C15
open Nomt Nomt.Locks2

/-- T15.6e **`specStep` is `Api/Exec.lean`** (the sequential API model of C01 / C09–C12) on what the lock
protocol sees of the state — `kv`, `root`, `log`, `lastMarker` (`coreOf`) — for a store that is not poisoned
and working I/O: a session commit that got the guard is `Api.commitFin`, an overlay commit whose parent check
passed and that got the guard is `Api.commitOv`, `rollback n` (`n > 0`, rollback enabled) is `Api.rollback`.
With T15.6: after any interleaving the committed state is the sequential execution of `Api/Exec.lean` over
the write sections in write-guard order. -/
theorem T15_6e_spec_is_api_exec {Node VH : Type} [DecidableEq Node] [DecidableEq VH] (H : Hasher Node VH)
    (s : Api.St Node VH) :
    (∀ fid f s1 pf, Api.takeFin s fid = some (f, s1) →
      specStep (apiOps H s.maxLog s.rollbackOn) (coreOf s) (.commit (csOfFin f) none pf .ok)
        = (coreOf (Api.commitFin s fid).2, resOf (Api.commitFin s fid).1)) ∧
    (∀ oid o, s.ov? oid = some o → o.held = true →
      (match o.parent with | none => true | some p => s.lastMarker == some p) = true →
      specStep (apiOps H s.maxLog s.rollbackOn) (coreOf s) (.commit (csOfOv o) (some oid) true .ok)
        = (coreOf (Api.commitOv s oid).2, resOf (Api.commitOv s oid).1)) ∧
    (∀ n, n ≠ 0 → s.rollbackOn = true →
      specStep (apiOps H s.maxLog s.rollbackOn) (coreOf s) (.rollback n .ok)
        = (coreOf (Api.rollback H s n).2,
           match (Api.rollback H s n).1 with | .ok => .ok | _ => .errNotEnough)) :=
  ⟨fun fid f s1 pf ht => specStep_commitFin H s fid f s1 ht pf,
   fun oid o ho hh hp => specStep_commitOv H s oid o ho hh hp,
   fun n hn hon => specStep_rollback H s n hn hon⟩

/-! Non-vacuity: the hypotheses of the three clauses hold in concrete API states (hasher irrelevant here:
`Node := Nat`), and the accepted / refused cases both occur. -/
def exSt : Api.St Nat Nat :=
  { root := 3, log := [[([false], some 1)]],
    fins := [{ id := 1, chain := [], writes := [([true], some 5)], prevRoot := 3, root := 4, delta := [([true], none)] },
             { id := 2, chain := [], writes := [([true], some 6)], prevRoot := 9, root := 8, delta := [([true], none)] }],
    ovs := [{ id := 7, parent := none, ancestors := [], changes := [([false], none)], prevRoot := 3, root := 5,
              delta := [([false], some 1)] }] }
example : ∃ f s1, Api.takeFin exSt 1 = some (f, s1) ∧ (Api.commitFin exSt 1).1 = .ok ∧
    (Api.commitFin exSt 2).1 = .err ∧ (Api.commitOv exSt 7).1 = .ok ∧
    (exSt.ov? 7).map (·.held) = some true := ⟨_, _, rfl, by decide, by decide, by decide, by decide⟩

end Nomt.C15
