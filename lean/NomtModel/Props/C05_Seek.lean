import NomtModel.Store.SeekReconOK
import NomtModel.Core.TermHasher
import NomtModel.Generated.Constants
/-!
# C05 — the seek (`nomt/src/merkle/seek.rs`): every completed seek holds the specified path proof

Property theorems about the mirror of the `SeekRequest` state machine (`Store/Seek.lean`: `SeekRequest::new`,
`next_query`, `continue_seek`, `continue_leaf_fetch`, `continue_leaves_fetch`, `range_bounds`, every `unwrap` /
`assert!` / `panic!` / `unreachable!` / index a panic value) and of the simulation surface of hook H18 (`Sys`: `push`,
`step`, `supplyPage`, `supplyLeaf`).  `Session::prove` (`Updater::prove`) turns the result of a seek into the `PathProof`
`resultProof`; the merkle workers use the same seek to warm up and to find the terminals of an update.

Setting (`World.OK`, `Store/SeekInv.lean`): a sound hasher; a b-tree (ascending leaves with separators, two ascending
staging maps) and the ascending value changes of the session's overlay chain; the VIEW = b-tree content with those changes
applied; a page universe `U` (overlay pages, then page cache, then hash table) that REPRESENTS the view: the root page
is live, a live page holds the reference node `nodeAt` in every slot below an internal parent, and each of its child
pages that exists is either live too or flagged in `elided_children` and then covers fewer than
`PAGE_ELISION_THRESHOLD` leaves (the rule of `checkMerkle`); page ids that are not live may hold anything (stale images
in an overlay or in the cache).  `page_walker::reconstruct_pages` is a parameter with the contract `ReconOK`
(`T5_seek_recon_contract_satisfiable`: the executable specification `reconSpec` fulfils it; **`T5_seek_recon_contract_discharged`
in `Props/C05_SeekRecon.lean`: the MIRROR of `page_walker.rs` fulfils it — that is the function the driver runs since unit Q35 —
so `T5_seek_is_proveSpec_unconditional` needs no contract hypothesis**).

Helper lemmas: `Store/SeekRange.lean` (range_bounds), `SeekSpec.lean` (the reference trie along a key),
`SeekIter.lean` / `SeekLoops.lean` / `SeekFetch.lean` (the two fetches), `SeekWalk.lean` / `SeekSys.lean` (continue_seek),
`SeekRun.lean` (operations and runs), `SeekReconOK.lean`.  Tie to the code: harness command `seek` (the REAL
`SeekRequest` through `nomt::verif_api::seek::SeekSim`) vs driver mode `seek`, line by line incl. every intermediate state.
-/
namespace Nomt.C05
open Nomt Nomt.Ovl Nomt.TriePos Nomt.Seek

variable {Node VH V : Type} [DecidableEq Node] [DecidableEq VH]

/-- **T5.seek**: start from any good page set (empty, or warmed up by an earlier seeker) and any page cache consistent
with the page universe; let the environment do ANYTHING in ANY order — push any number of keys, advance any request by
one query, deliver the page or the leaf a request waits for, whenever it likes, interleaving the requests arbitrarily
(operations that do not apply are no-ops).  Then no panic site is reached, and EVERY completed request holds exactly
the specified path proof of its key in the session's view: `terminal` is the leaf `(key, value hash)` resp. the
terminator of `proveSpec view k` (whose position is the request's position), `siblings` are exactly its siblings in
the order `PathProof` wants them (top-down; none when the seeker does not record them), the position is the prefix of
the key of that length and `page_id` is the page the terminal lives in.  With T5.1–T5.3 (`Props/C05.lean`,
`C05_Unique.lean`) the proof verifies against the view's root, is truthful, and is the only one that does. -/
theorem T5_seek_is_proveSpec (W : World Node VH V) (hOK : W.OK) (s0 : Sys Node VH V) (hps : PSInv W s0.ps)
    (hmem : MemOK W s0.cache) (hreqs : s0.reqs = []) (acts : List Seek.Action) (ha : ActsOK acts) :
    ∃ s, Seek.run W.env s0 acts = .ok s ∧
      ∀ (i : Nat) (r : Req Node VH V) (aw : Option Query) (res : SeekRes Node VH), s.reqs[i]? = some (r, aw) →
        r.result = some res →
        resultProof res.pos res.sibs res.terminal =
          (if W.env.record then proveSpec W.H KEY_BITS W.view r.key
           else { proveSpec W.H KEY_BITS W.view r.key with siblings := [] }) ∧
        res.pos.path = r.key.take res.pos.depth ∧
        res.pageId = (if res.pos.depth = 0 then none else some (specPage res.pos.path)) := by
  have h0 : SysInv W s0 := ⟨hps, hmem, by rw [hreqs]; intro x hx; cases hx⟩
  obtain ⟨s, e1, e2⟩ := run_ok W hOK acts s0 h0 ha
  refine ⟨s, e1, ?_⟩
  intro i r aw res hi hres
  exact completed_result (e2.reqs _ (List.mem_of_getElem? hi)) hres

/-- the keys of the requests are the keys pushed, in order -/
theorem T5_seek_keys (W : World Node VH V) (hOK : W.OK) (s : Sys Node VH V) (hs : SysInv W s) (key : Key)
    (hk : key.length = KEY_BITS) :
    ∃ s' r, Seek.push W.env s key = .ok s' ∧ s'.reqs = s.reqs ++ [(r, none)] ∧ r.key = key := by
  obtain ⟨s', e1, _, r, e3, e4⟩ := push_ok W hOK s hs key hk
  exact ⟨s', r, e1, e3, e4⟩

/-- **T5.seek.total** (no panic, no stall): in every reachable state every operation returns normally (the fuel of the
two item loops is never the answer, `leaf must exist` / `seek past end` / the `unwrap`s / `assert!`s / the
`assert_eq!(root, subtree_root)` of the reconstruction are never reached), and a request that is not completed can
always move: if it waits for nothing its next `step` finds a page at hand, asks for a page, or asks for a leaf (never
"no query": `needed_leaves` is never exhausted while the iterator is blocked); if it waits for a page the hash table
holds that page; if it waits for a leaf that leaf is the one its iterator is blocked on.  Each of these moves lowers
the termination measure (`T5_seek_terminates`). -/
theorem T5_seek_total (W : World Node VH V) (hOK : W.OK) (s : Sys Node VH V) (hs : SysInv W s) (i : Nat)
    (r : Req Node VH V) (aw : Option Query) (hi : s.reqs[i]? = some (r, aw)) (hnc : r.isCompleted = false) :
    match aw with
    | none => ∃ s' out, Seek.step W.env s i = .ok (s', out) ∧ SysInv W s' ∧ out ≠ .noQuery ∧ out ≠ .busy ∧
        sysMeasure W.env.leaves.length s' < sysMeasure W.env.leaves.length s
    | some (.page _) => ∃ s', supplyPage W.env s i = .ok s' ∧ SysInv W s' ∧
        sysMeasure W.env.leaves.length s' < sysMeasure W.env.leaves.length s
    | some (.leaf _) => ∃ s', supplyLeaf W.env s i = .ok s' ∧ SysInv W s' ∧
        sysMeasure W.env.leaves.length s' < sysMeasure W.env.leaves.length s := by
  cases aw with
  | none =>
    rcases step_ok W hOK s hs i with ⟨s', out, e1, e2, e3, e4⟩ | ⟨_, e2⟩
    · obtain ⟨o1, o2⟩ := e3 r hi hnc
      exact ⟨s', out, e1, e2, o1, o2, e4 o1 o2⟩
    · rw [hi] at e2; cases e2
  | some q =>
    cases q with
    | page p =>
      rcases supplyPage_ok W hOK s hs i with h | ⟨_, e2⟩
      · exact h
      · exact absurd hi (e2 r p)
    | leaf l =>
      rcases supplyLeaf_ok W hOK s hs i with h | ⟨_, e2⟩
      · exact h
      · exact absurd hi (e2 r l)

/-- **T5.seek.terminates**: the measure `Σ (257 − depth)·(2N + 6) + rank` (`N` b-tree leaves; `Store/SeekMeasure.lean`)
of a reachable state is at most `#requests · (257·(2N + 6) + 2N + 3)`, and EVERY operation that does anything — a `step`
that is not answered `busy` / "no query", a delivered page, a delivered leaf, of any request, in any order — strictly
lowers it.  So after the last `push` at most that many such operations can happen, under every schedule; together
with `T5_seek_total` (an unfinished request can always move): every seek completes, fuel is never the answer. -/
theorem T5_seek_terminates (W : World Node VH V) (hOK : W.OK) (s : Sys Node VH V) (hs : SysInv W s) (i : Nat) :
    sysMeasure W.env.leaves.length s ≤
      s.reqs.length * (257 * (2 * W.env.leaves.length + 6) + 2 * W.env.leaves.length + 3) ∧
    (∀ s' out, Seek.step W.env s i = .ok (s', out) → out ≠ .noQuery → out ≠ .busy →
      sysMeasure W.env.leaves.length s' < sysMeasure W.env.leaves.length s) ∧
    (∀ s', supplyPage W.env s i = .ok s' → sysMeasure W.env.leaves.length s' < sysMeasure W.env.leaves.length s) ∧
    (∀ s', supplyLeaf W.env s i = .ok s' → sysMeasure W.env.leaves.length s' < sysMeasure W.env.leaves.length s) := by
  refine ⟨sysMeasure_bound hs, ?_, ?_, ?_⟩
  · intro s' out h o1 o2
    rcases step_ok W hOK s hs i with ⟨s1, out1, e1, _, _, e4⟩ | ⟨e1, _⟩
    · rw [e1] at h; cases h; exact e4 o1 o2
    · rw [e1] at h; cases h
  · intro s' h
    rcases supplyPage_ok W hOK s hs i with ⟨s1, e1, _, e3⟩ | ⟨e1, _⟩
    · rw [e1] at h; cases h; exact e3
    · rw [e1] at h; cases h
  · intro s' h
    rcases supplyLeaf_ok W hOK s hs i with ⟨s1, e1, _, e3⟩ | ⟨e1, _⟩
    · rw [e1] at h; cases h; exact e3
    · rw [e1] at h; cases h

/-- the invariant the two theorems above rest on holds along every run -/
theorem T5_seek_invariant (W : World Node VH V) (hOK : W.OK) (s0 : Sys Node VH V) (h0 : SysInv W s0) (acts : List Seek.Action)
    (ha : ActsOK acts) : ∃ s, Seek.run W.env s0 acts = .ok s ∧ SysInv W s :=
  run_ok W hOK acts s0 h0 ha

/-- **T5.seek.requests** (partial: the page half of "it only asks for what lies on the key's path"): the page a seeking
request asks for next is the page of the next six bits of ITS OWN key below its position — the sextets of the key's
prefix of that length — and that position is reached through internal nodes only.  (The leaf half — only leaves whose
separator lies below the end of the position's key range, in order — is the `Shape` / `ItRest` part of `SysInv`; the
harness checks both on every run.) -/
theorem T5_seek_requests_minimal_partial (W : World Node VH V) (hOK : W.OK) (s : Sys Node VH V) (hs : SysInv W s) (i : Nat)
    (r : Req Node VH V) (aw : Option Query) (hi : s.reqs[i]? = some (r, aw)) (hst : r.st = .seeking) :
    nextQuery r = .ok (r, some (.page (sextetsOf (r.key.take r.pos.depth)))) ∧
    (∀ j, j < r.pos.depth → 2 ≤ (under (r.key.take j) W.view).length) ∧
    (∀ p, aw = some (.page p) → p = sextetsOf (r.key.take r.pos.depth)) := by
  have hreq : ReqOK W s.ps r aw := hs.reqs _ (List.mem_of_getElem? hi)
  obtain ⟨ht, hpid, hstok⟩ := hreq
  unfold StOK at hstok
  rw [hst] at hstok
  obtain ⟨h6, h2, _, h4⟩ := hstok
  refine ⟨nextQuery_seeking W hOK r ht hpid hst h6 h2, ht.thr, ?_⟩
  intro p hp
  rcases h4 with h | ⟨h, _⟩
  · rw [h] at hp; cases hp
  · rw [h] at hp
    exact (Query.page.inj (Option.some.inj hp)).symm

/-- **the assumed contract of `reconstruct_pages` is satisfiable**: the executable specification `reconSpec` fulfils it
in every world -/
theorem T5_seek_recon_contract_satisfiable (W : World Node VH V) (hrec : W.env.recon = reconSpec W.H) : ReconOK W :=
  reconSpec_ok W hrec

/-- `range_bounds` never panics on a position of the descent and denotes "the keys below the position" -/
theorem T5_seek_range_bounds (bs : List Bool) (hb : bs.length ≤ KEY_BITS) :
    ∃ stop, rangeBounds (bs ++ List.replicate (KEY_BITS - bs.length) false) bs.length =
        .ok (bs ++ List.replicate (KEY_BITS - bs.length) false, stop) ∧
      ∀ k : Key, k.length = KEY_BITS →
        (inRange (bs ++ List.replicate (KEY_BITS - bs.length) false) stop k = true ↔ bs.isPrefixOf k = true) :=
  rangeBounds_spec bs hb

/-- the constants the mirror and the hypotheses carry are the ones of the current sources -/
theorem T5_const_seek : Seek.THRESHOLD = Gen.PAGE_ELISION_THRESHOLD ∧ TriePos.DEPTH = Gen.DEPTH ∧
    TriePos.NODES_PER_PAGE = Gen.NODES_PER_PAGE ∧ TriePos.MAX_PAGE_DEPTH = Gen.MAX_PAGE_DEPTH := by decide

/-! ### non-vacuity: a world with two keys, the free hasher, a cold cache -/

def skA : Key := List.replicate 256 false
def skB : Key := true :: List.replicate 255 false
def skLeaves : List (Leaf Nat) := [⟨skA, [(skA, 1), (skB, 2)]⟩]
def skView : KVL Nat := [(skA, 1), (skB, 2)]
def skRoot : MPage T :=
  { nodes := fun i => if i = 0 then .leaf skA 1 else if i = 1 then .leaf skB 2 else .term, elided := 0 }
def skEnv : Env T Nat Nat :=
  { kind := TH.kind, root := nodeAt TH 256 0 skView, record := true, primary := [], secondary := [], leaves := skLeaves,
    vh := id, ov := [], ovPages := [], disk := [([], skRoot)], recon := reconSpec TH }
def skW : World T Nat Nat :=
  { env := skEnv, H := TH, view := skView, U := fun p => if p = [] then some skRoot else none, G := fun p => p = [] }

theorem sk_under_one (b : Bool) : (under [b] skView).length = 1 := by cases b <;> decide +kernel

theorem skW_rep : Rep skW := by
  refine ⟨rfl, ?_⟩
  intro P hP _
  have : P = [] := hP
  subst this
  refine ⟨skRoot, rfl, ?_, ?_⟩
  · intro bs hne hlen hsp hthr
    match bs, hne with
    | [b], _ => cases b <;> decide +kernel
    | a :: b :: rest, _ =>
      have := hthr 1 (by simp) (by simp)
      simp only [List.take_succ_cons, List.take_zero] at this
      have h1 : (under [a] skW.view).length = 1 := sk_under_one a
      omega
  · intro bs hl hlen hsp hthr h2
    match bs, hl with
    | a :: b :: rest, _ =>
      have := hthr 1 (by simp) (by simp)
      simp only [List.take_succ_cons, List.take_zero] at this
      have h1 : (under [a] skW.view).length = 1 := sk_under_one a
      omega

theorem skW_ok : skW.OK where
  sound := TH_sound
  kind := rfl
  root := rfl
  prim := List.Pairwise.nil
  sec := List.Pairwise.nil
  leaves := by
    refine ⟨?_, ?_, ?_, trivial⟩
    · unfold KSorted; decide +kernel
    · decide +kernel
    · intro l' hl'; cases hl'
  firstSep := by
    intro l hl k hk
    have : l = ⟨skA, [(skA, 1), (skB, 2)]⟩ := by simpa [skW, skEnv, skLeaves] using hl.symm
    subst this
    exact bitsLt_zeros k 256 hk
  ov := List.Pairwise.nil
  viewEq := by
    show skView = kvApply (vhMap id (kvApply (flat skLeaves) (smerge [] []))) []
    rw [smerge_nil_right]
    decide +kernel
  viewLen := by decide +kernel
  baseLen := by
    show ∀ kv ∈ kvApply (flat skLeaves) (smerge [] []), kv.1.length = KEY_BITS
    rw [smerge_nil_right]
    decide +kernel
  ovLen := by intro e he; cases he
  rep := skW_rep
  recon := reconSpec_ok skW rfl

theorem skW_mem : MemOK skW [] := by
  intro p
  by_cases h : p = []
  · subst h; rfl
  · have hb : (p == ([] : PageId)) = false := by simpa using h
    simp [skW, skEnv, List.lookup, hb, h]

/-- the hypotheses of `T5_seek_is_proveSpec` are met … -/
example : skW.OK ∧ PSInv skW ({} : Sys T Nat Nat).ps ∧ MemOK skW ({} : Sys T Nat Nat).cache :=
  ⟨skW_ok, fun P pg o h => by simp [PageSet.get] at h, skW_mem⟩

def skRes (o : Outcome Unit (Sys T Nat Nat)) (i : Nat) : Option (Option (Key × Nat) × List T × Nat) :=
  match o with
  | .ok s => (s.reqs[i]?.bind (·.1.result)).map (fun r => (r.terminal, r.sibs, r.pos.depth))
  | _ => none

/-- … and the mirror really gets there (kernel evaluation): two interleaved seeks over a cold cache — the root page
comes from the hash table once, the second request finds it in the page set; each fetches the b-tree leaf -/
example : skRes (Seek.run skEnv {} [.push skB, .push skA, .step 0, .supplyPage 0, .step 1, .step 0, .step 1,
      .supplyLeaf 1, .supplyLeaf 0]) 0 = some (some (skB, 2), [T.leaf skA 1], 1) ∧
    skRes (Seek.run skEnv {} [.push skB, .push skA, .step 0, .supplyPage 0, .step 1, .step 0, .step 1,
      .supplyLeaf 1, .supplyLeaf 0]) 1 = some (some (skA, 1), [T.leaf skB 2], 1) := by decide +kernel

end Nomt.C05
