import NomtModel.Store.ImgCheck
/-!
# C19 — page accounting (the part checked on the on-disk image)

`wfDetail` (`Store/ImgCheck.lean`) claims every page of `ln` / `bbn` for exactly one role (node,
overflow page, free-list page, free page) through `claim`, and counts the pages of `[1, bump)` that
nobody claimed (`lnLeaked` / `bbnLeaked`, printed by the driver; a non-zero count is reported by
tools/check.py as `C19 leaked pages: …`).  The theorems state that the ownership monitor is sound: a
successful `claim` is always the FIRST claim of a page inside `[1, bump)`, so an accepted image has no
page that is both free and in use or used twice.
-/
namespace Nomt.C19
open Nomt Nomt.Store

/-- a successful claim: the page is in range, was unclaimed, and is now marked -/
theorem T19_claim_first (marks m' : Array UInt8) (bump pn : Nat) (tag : UInt8) (what : String)
    (h : claim marks bump pn tag what = .ok m') :
    1 ≤ pn ∧ pn < bump ∧ marks[pn]! = 0 ∧ m' = marks.set! pn tag := by
  unfold claim at h
  split at h
  · cases h
  · rename_i h1
    split at h
    · cases h
    · rename_i h2
      simp only [Bool.or_eq_true, beq_iff_eq, decide_eq_true_eq, not_or, Nat.not_le] at h1
      simp only [bne_iff_ne, ne_eq, Decidable.not_not] at h2
      simp only [pure, Except.pure, Except.ok.injEq] at h
      exact ⟨by omega, h1.2, h2, h.symm⟩

/-- a page that is already claimed (mark ≠ 0) can never be claimed again -/
theorem T19_no_double_claim (marks : Array UInt8) (bump pn : Nat) (tag : UInt8) (what : String)
    (h : marks[pn]! ≠ 0) : ∃ e, claim marks bump pn tag what = .error e := by
  cases hc : claim marks bump pn tag what with
  | error e => exact ⟨e, rfl⟩
  | ok m' => exact absurd (T19_claim_first _ _ _ _ _ _ hc).2.2.1 h

/-- the leak counter of an all-claimed range is zero on a tiny instance (kernel evaluation) -/
example : countUnclaimed #[0, 1, 2, 4] 4 = 0 ∧ countUnclaimed #[0, 1, 0, 4] 4 = 1 := by decide

end Nomt.C19
