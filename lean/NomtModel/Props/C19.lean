import NomtModel.Store.ImgCheck
import NomtModel.Store.ConstantsAlloc
import NomtModel.Store.ProbeInv
import NomtModel.Store.FreeListBounded
import NomtModel.Store.FreeListWF
import NomtModel.Store.FreeListNthPop
/-!
# C19 — page accounting (the part checked on the on-disk image)

`wfDetail` (`Store/ImgCheck.lean`) claims every page of `ln` / `bbn` for exactly one role (node,
overflow page, free-list page, free page) through `claim`, and counts the pages of `[1, bump)` that
nobody claimed (`lnLeaked` / `bbnLeaked`, printed by the driver; a non-zero count is reported by
tools/check.py as `C19 leaked pages: …`).  The theorems state that the ownership monitor is sound: a
successful `claim` is always the FIRST claim of a page inside `[1, bump)`, so an accepted image has no
page that is both free and in use or used twice.

The second part (T19.1 – T19.3) is about the allocator itself: `Store/FreeListModel.lean` mirrors
`beatree/allocator/free_list.rs` (`pop`, `discard`, `commit` = `preallocate` + `push_and_encode` with the
fragmentation logic) and `SyncAllocator::allocate` / `SyncFinisher::finish` at the level of page numbers;
`Store/FreeListLemmas.lean` proves that page numbers are conserved through a sync.  T19.1 – T19.3 are
conditional on `finish … = some r`: the model answers `none` where the code would panic (`unwrap` of an
exhausted `new_pages`, the `assert!`s of `push` / `push_and_encode`) or when the loop fuel runs out.  T19.5
(`Store/FreeListTotal.lean`) removes the condition: on a well-shaped list (`WellShaped`, the invariant of a
committed free list) `finish` answers `some` for EVERY capacity ≥ 2, every allocation count and every freed list,
and the new list is well-shaped; T19.2u / T19.3u / T19.6 are the unconditional forms (T19.6: over whole
histories starting from the empty store).  `Store/FreeListBounded.lean` (T19.4) keeps the earlier bounded
evaluation as an independent check of the executable model.
-/
namespace Nomt.C19
open Nomt Nomt.Store

/-- a successful claim: the page is in range, was unclaimed, and is now marked -/
theorem T19_claim_first (marks m' : Array UInt8) (bump pn : Nat) (tag : UInt8) (what : String)
    (h : claim marks bump pn tag what = .ok m') :
    1 ≤ pn ∧ pn < bump ∧ marks[pn]! = 0 ∧ m' = marks.set! pn tag := by
  unfold claim at h
  split at h
  · cases h
  · rename_i h1
    split at h
    · cases h
    · rename_i h2
      simp only [Bool.or_eq_true, beq_iff_eq, decide_eq_true_eq, not_or, Nat.not_le] at h1
      simp only [bne_iff_ne, ne_eq, Decidable.not_not] at h2
      simp only [pure, Except.pure, Except.ok.injEq] at h
      exact ⟨by omega, h1.2, h2, h.symm⟩

/-- a page that is already claimed (mark ≠ 0) can never be claimed again -/
theorem T19_no_double_claim (marks : Array UInt8) (bump pn : Nat) (tag : UInt8) (what : String)
    (h : marks[pn]! ≠ 0) : ∃ e, claim marks bump pn tag what = .error e := by
  cases hc : claim marks bump pn tag what with
  | error e => exact ⟨e, rfl⟩
  | ok m' => exact absurd (T19_claim_first _ _ _ _ _ _ hc).2.2.1 h

/-- the leak counter of an all-claimed range is zero on a tiny instance (kernel evaluation) -/
example : countUnclaimed #[0, 1, 2, 4] 4 = 0 ∧ countUnclaimed #[0, 1, 0, 4] 4 = 1 := by decide

/-! ## occupancy of the hash table and the constants behind it -/

/-- T19.const (meta bytes): with the values extracted from `bitbox/meta_map.rs`, `EMPTY`,
`TOMBSTONE` and every full entry `FULL_MASK ^ tag` are pairwise distinct bytes, different tags give
different bytes, the test of `full_count` (`byte & FULL_MASK != 0`) holds exactly for full entries,
and the decoder `decodeSlot` of the image monitor reads them back -/
theorem T19_const_meta_bytes :
    Gen.EMPTY ≠ Gen.TOMBSTONE ∧ Gen.EMPTY &&& Gen.FULL_MASK = 0 ∧ Gen.TOMBSTONE &&& Gen.FULL_MASK = 0 ∧
    (∀ t, t < 128 →
      (Gen.FULL_MASK ^^^ t) ≠ Gen.EMPTY ∧ (Gen.FULL_MASK ^^^ t) ≠ Gen.TOMBSTONE ∧
      (Gen.FULL_MASK ^^^ t) < 256 ∧ (Gen.FULL_MASK ^^^ t) &&& Gen.FULL_MASK ≠ 0 ∧
      decodeSlot (Gen.FULL_MASK ^^^ t) = some (.full t)) ∧
    (∀ t1 t2, t1 < 128 → t2 < 128 → Gen.FULL_MASK ^^^ t1 = Gen.FULL_MASK ^^^ t2 → t1 = t2) ∧
    decodeSlot Gen.EMPTY = some .empty ∧ decodeSlot Gen.TOMBSTONE = some .tombstone := by
  have d := ConstantsCheck.meta_bytes_distinct
  have s := ConstantsCheck.decode_slot
  refine ⟨d.1, d.2.1, d.2.2.1, ?_, ConstantsCheck.full_entry_injective, s.1, s.2.1⟩
  intro t ht
  have x := d.2.2.2.2 t ht
  exact ⟨x.1, x.2.1, x.2.2.1, x.2.2.2.1, s.2.2 t ht⟩

/-- T19.const (free list): the capacity the free-list decoder accepts is the capacity of the code,
and that many page numbers fit in a page after the 6-byte header -/
theorem T19_const_freelist :
    MAX_PNS_PER_FREELIST_PAGE = Gen.FREELIST_MAX_PNS_PER_PAGE ∧
    4 + 2 + 4 * Gen.FREELIST_MAX_PNS_PER_PAGE ≤ Gen.PAGE_SIZE ∧ 0 < Gen.GROW_STORE_BY_PAGES :=
  ⟨ConstantsCheck.freelist_capacity, ConstantsCheck.freelist_page_layout.2.1, ConstantsCheck.freelist_page_layout.2.2.2⟩

/-- T19.occ the occupancy the API reports (`full_count` of the meta bytes, kept up to date by
`+1` per allocated and `-1` per freed bucket) is the number of distinct stored pages: in every
table without a page id in two full buckets the stored page ids, in bucket order, form a
duplicate-free list of length `occupied` (model: `Store/ProbeModel.lean`; full theorems T5.5 in C05) -/
theorem T19_occupied_is_stored_pages (T : Probe.Table) (hD : Probe.NoDup T) :
    (Probe.storedPages T).Nodup ∧ (Probe.storedPages T).length = Probe.occupied T ∧
    ∀ p, p ∈ Probe.storedPages T ↔ ∃ b, Probe.Stored T p b :=
  Probe.storedPages_spec hD
/-! ## The allocator -/
open Nomt.Store.FreeList

/-- the live set after a sync is `(live \ freed) ∪ handedOut` -/
theorem T19_0_mem_liveAfter (live freed handed : List Nat) (a : Nat) :
    a ∈ liveAfter live freed handed ↔ (a ∈ live ∧ a ∉ freed) ∨ a ∈ handed := by
  simp [liveAfter, List.mem_filter]

/-- T19.1 **`allocate` hands out only pages that were free when the sync started** (C17's allocator clause).
`s` is the state at `start_sync` (free list `s.portions`, frontier `s.bump`), `tracked ∪ live` partitions
`[1, bump)`.  Whatever the allocation index, the page returned is an item of the free list as it was at the
start of the sync, or lies at / beyond the old frontier; in particular it is not a live page, hence none of the
pages this sync frees and pushes onto the list (`freed`, any set of live pages).  `allocate` is a function of
the start state only: nothing `commit` pushes can influence it. -/
theorem T19_1_allocate_only_free (s : State) (live freed : List Nat)
    (hu : ∀ a, (a ∈ pagesOf s.portions ∨ a ∈ live) ↔ (1 ≤ a ∧ a < s.bump))
    (hd : ∀ a, ¬ (a ∈ pagesOf s.portions ∧ a ∈ live))
    (hsub : ∀ a ∈ freed, a ∈ live) (i : Nat) :
    (allocate s i ∈ itemsOf s.portions ∨ s.bump ≤ allocate s i) ∧ allocate s i ∉ live ∧ allocate s i ∉ freed := by
  have hnl : allocate s i ∉ live := by
    intro hl
    rcases allocate_cases s i with ⟨_, hm⟩ | ⟨_, he⟩
    · exact hd _ ⟨mem_items_mem_pages _ _ hm, hl⟩
    · have := (hu (allocate s i)).mp (Or.inr hl)
      omega
  refine ⟨?_, hnl, fun hf => hnl (hsub _ hf)⟩
  rcases allocate_cases s i with ⟨_, hm⟩ | ⟨_, he⟩
  · exact Or.inl hm
  · exact Or.inr (by omega)

/-- T19.2 **conservation**: if before the sync the pages tracked by the free list (free pages and the
free-list pages themselves) and the live pages partition `[1, bump)` (union, disjoint, no duplicates), the
sync performed `n` allocations and freed the duplicate-free set `freed ⊆ live`, then after
`finish` the tracked pages and `live' = (live \ freed) ∪ handedOut` partition `[1, bump')` in the same sense —
no page below the new frontier is leaked, none is both free and live, none is tracked twice — and the result
is again a state at which a sync can start (`released = []`), so the statement iterates over any history. -/
theorem T19_2_conservation (cap : Nat) (s : State) (n : Nat) (freed live : List Nat) (r : Committed)
    (hb : 1 ≤ s.bump) (hrel : s.released = [])
    (hu : ∀ a, (a ∈ pagesOf s.portions ∨ a ∈ live) ↔ (1 ≤ a ∧ a < s.bump))
    (hd : ∀ a, ¬ (a ∈ pagesOf s.portions ∧ a ∈ live))
    (htn : (pagesOf s.portions).Nodup) (hln : live.Nodup)
    (hfn : freed.Nodup) (hsub : ∀ a ∈ freed, a ∈ live)
    (hfin : finish cap s n freed = some r) :
    let live' := liveAfter live freed (handedOut s n)
    (∀ a, (a ∈ pagesOf r.state.portions ∨ a ∈ live') ↔ (1 ≤ a ∧ a < r.state.bump)) ∧
    (∀ a, ¬ (a ∈ pagesOf r.state.portions ∧ a ∈ live')) ∧
    (pagesOf r.state.portions).Nodup ∧ live'.Nodup ∧ r.state.released = [] := by
  obtain ⟨_, hrel', hc⟩ := finish_conserves hb hrel (count_of_partition hu hd htn hln) hfn hsub hfin
  obtain ⟨p1, p2, p3, p4⟩ := partition_of_count hc
  exact ⟨p1, p2, p3, p4, hrel'⟩

/-- T19.2, counting form: every page number of `[1, bump')` occurs exactly once in `tracked' ++ live'`, every
other page number not at all. -/
theorem T19_2_conservation_count (cap : Nat) (s : State) (n : Nat) (freed live : List Nat) (r : Committed)
    (hb : 1 ≤ s.bump) (hrel : s.released = [])
    (hpart : ∀ a, List.count a (pagesOf s.portions) + List.count a live = rng a 1 s.bump)
    (hfn : freed.Nodup) (hsub : ∀ a ∈ freed, a ∈ live)
    (hfin : finish cap s n freed = some r) (a : Nat) :
    List.count a (pagesOf r.state.portions) + List.count a (liveAfter live freed (handedOut s n))
      = rng a 1 r.state.bump :=
  (finish_conserves hb hrel hpart hfn hsub hfin).2.2 a

/-- T19.3 **the frontier never decreases, and does not grow while the free list lasts**: `bump ≤ bump'`; and
if the free list can serve all `n` allocations and `commit` did not consume the old list completely while
drawing the pages for the new free-list pages (`exhausted = false`), then `bump' = bump`. -/
theorem T19_3_bump (cap : Nat) (s : State) (n : Nat) (freed : List Nat) (r : Committed)
    (hfin : finish cap s n freed = some r) :
    s.bump ≤ r.state.bump ∧
    (n ≤ (itemsOf s.portions).length → r.exhausted = false → r.state.bump = s.bump) := by
  unfold finish at hfin
  simp only at hfin
  obtain ⟨c1, _, c3, _⟩ := commit_spec hfin
  simp only at c1 c3
  refine ⟨by omega, ?_⟩
  intro hn hex
  have := (discardP_spec s.portions n s.released).2.1
  rw [c3 hex, this]
  omega

/-! Non-vacuity (capacity 2).  Frontier 6, free list: page 3 holding the free pages 5 and 4 (5 on top); live
pages 1 and 2.  A sync allocates three pages (5, 4 and the fresh page 6) and frees page 1: the old list is used
up, its page 3 and page 1 go into a new free-list page drawn from the frontier (7); afterwards
tracked = {7, 3, 1}, live = {2, 5, 4, 6}, frontier 8. -/
def exStart : State := { portions := [(3, [5, 4])], released := [], pop := false, bump := 6 }

example : handedOut exStart 3 = [5, 4, 6] := by decide

example : finish 2 exStart 3 [1] =
    some { state := { portions := [(7, [3, 1])], released := [], pop := false, bump := 8 },
           written := [7], exhausted := true } := by decide

def exAfter : Committed :=
  { state := { portions := [(7, [3, 1])], released := [], pop := false, bump := 8 }, written := [7], exhausted := true }

example : (∀ a, (a ∈ [7, 3, 1] ∨ a ∈ liveAfter [1, 2] [1] (handedOut exStart 3)) ↔ (1 ≤ a ∧ a < 8)) ∧
    (∀ a, ¬ (a ∈ [7, 3, 1] ∧ a ∈ liveAfter [1, 2] [1] (handedOut exStart 3))) := by
  have h := T19_2_conservation 2 exStart 3 [1] [1, 2] exAfter (by decide) rfl
    (by intro a; simp [exStart, pagesOf]; omega) (by intro a; simp [exStart, pagesOf]; omega)
    (by decide) (by decide) (by decide) (by decide) (by decide)
  exact ⟨h.1, h.2.1⟩

/-- a sync served entirely by the free list (capacity 2; one allocation, one pop for the new head page, out of a
list of four free pages): the frontier stays at 9 -/
example : (finish 2 { portions := [(3, [5, 4]), (6, [8, 7])], released := [], pop := false, bump := 9 } 1 [1]).map
    (fun r => (r.state.bump, r.exhausted, r.state.portions)) = some (9, false, [(4, [3, 1]), (6, [8, 7])]) := by decide

/-- **Repair F18.**  Before the repair `commit` did not only write fresh pages: when its first `pop` emptied the
head and the portion below was full, that untouched full portion was handed to `encode_head` again by
`push_and_encode` (`head_full` is true for it) and written at its OLD page number (here, capacity 2: head page 1
holding {2}, below it the full page 10 holding {12, 11}, page 3 freed: pages written 10 — in place — and 2).
The harness oracle of `alloc-freelist` reproduced it on the real `FreeList` (C17); with `head_untouched` the only
page written is the new head 2, and page 10 stays as the previous state has it. -/
example : (commit 2 { portions := [(1, [2]), (10, [12, 11])], released := [], pop := false, bump := 100 } [3]).map
    (fun r => (r.written, r.state.portions)) = some ([2], [(2, [1, 3]), (10, [12, 11])]) := by decide

/-- bounded evidence for what the conditional theorems assume: on every well-shaped list (capacity 2, 3, 4; see
`Store/FreeListBounded.lean` for the ranges) `finish` answers `some` and the new list is well-shaped. -/
theorem T19_4_no_panic_bounded : checkAll 2 3 8 6 = true ∧ checkAll 3 2 9 6 = true ∧ checkAll 4 1 9 8 = true :=
  ⟨bounded_cap2, bounded_cap3, bounded_cap4⟩

/-! ## Unconditional forms (no `finish … = some r` hypothesis) -/

/-- T19.5 **`commit` / `finish` cannot panic**: for every capacity `cap ≥ 2`, every well-shaped free list (every
portion holds 1 … cap items, every portion below the head is full, except that the second may hold `cap - 1`
items when the head holds exactly one), every number of allocations and every list of freed pages, the model of
`SyncFinisher::finish` answers `some r` — no `unwrap` of an empty portion or of exhausted `new_pages`, no failing
`assert!` in `push` / `push_and_encode`, the `preallocate` loop ends within the model's fuel — and the new free
list is well-shaped.  (Proof: the invariant `i = free slots of the head + cap · |new_pages|` of the `preallocate`
loop, which the code's comment states as "free list len + i is divisible by MAX_PNS_PER_PAGE", and the bound
`i ≤ |to_push| + cap` that makes `push_and_encode` consume `new_pages` exactly, the `fragmentation` clause
covering the boundary case.) -/
theorem T19_5_finish_never_panics (cap : Nat) (hc : 2 ≤ cap) (s : State) (n : Nat) (freed : List Nat)
    (hw : WellShaped cap s.portions) :
    ∃ r, finish cap s n freed = some r ∧ WellShaped cap r.state.portions :=
  finish_total hc s n freed hw

/-- the executable shape check used by the bounded evidence and the `alloc` driver mode decides `WellShaped` -/
theorem T19_5b_wellShaped_decides (cap : Nat) (hc : 2 ≤ cap) (ps : List Portion) :
    wellShaped cap ps = true ↔ WellShaped cap ps := wellShaped_iff hc ps

/-- T19.2u **conservation, unconditionally**: T19.2 with the hypothesis `finish … = some r` replaced by
`WellShaped cap s.portions` and `2 ≤ cap`; the result is well-shaped again. -/
theorem T19_2u_conservation (cap : Nat) (hc : 2 ≤ cap) (s : State) (n : Nat) (freed live : List Nat)
    (hw : WellShaped cap s.portions) (hb : 1 ≤ s.bump) (hrel : s.released = [])
    (hu : ∀ a, (a ∈ pagesOf s.portions ∨ a ∈ live) ↔ (1 ≤ a ∧ a < s.bump))
    (hd : ∀ a, ¬ (a ∈ pagesOf s.portions ∧ a ∈ live))
    (htn : (pagesOf s.portions).Nodup) (hln : live.Nodup)
    (hfn : freed.Nodup) (hsub : ∀ a ∈ freed, a ∈ live) :
    ∃ r, finish cap s n freed = some r ∧ WellShaped cap r.state.portions ∧
      (∀ a, (a ∈ pagesOf r.state.portions ∨ a ∈ liveAfter live freed (handedOut s n)) ↔ (1 ≤ a ∧ a < r.state.bump)) ∧
      (∀ a, ¬ (a ∈ pagesOf r.state.portions ∧ a ∈ liveAfter live freed (handedOut s n))) ∧
      (pagesOf r.state.portions).Nodup ∧ (liveAfter live freed (handedOut s n)).Nodup ∧ r.state.released = [] := by
  obtain ⟨r, hfin, hw'⟩ := finish_total hc s n freed hw
  obtain ⟨p1, p2, p3, p4, p5⟩ := T19_2_conservation cap s n freed live r hb hrel hu hd htn hln hfn hsub hfin
  exact ⟨r, hfin, hw', p1, p2, p3, p4, p5⟩

/-- T19.3u **the frontier, unconditionally**: `finish` answers `some r` with `bump ≤ bump'`, and `bump' = bump`
when the free list can serve all allocations and is not consumed completely by `commit`. -/
theorem T19_3u_bump (cap : Nat) (hc : 2 ≤ cap) (s : State) (n : Nat) (freed : List Nat)
    (hw : WellShaped cap s.portions) :
    ∃ r, finish cap s n freed = some r ∧ s.bump ≤ r.state.bump ∧
      (n ≤ (itemsOf s.portions).length → r.exhausted = false → r.state.bump = s.bump) := by
  obtain ⟨r, hfin, _⟩ := finish_total hc s n freed hw
  exact ⟨r, hfin, T19_3_bump cap s n freed r hfin⟩

/-- T19.6 **over whole histories**: starting from the empty store (no free list, frontier 1, nothing live), after
ANY sequence of syncs — each with any number of allocations and freeing any duplicate-free set of pages live at
that moment — the free list is well-shaped and the tracked pages and the live pages partition `[1, bump)`:
no page below the frontier is leaked, none is both free and live, none is tracked twice; and the next sync
cannot panic either. -/
theorem T19_6_history (cap : Nat) (hc : 2 ≤ cap) (s : State) (live : List Nat) (h : Reachable cap s live) :
    WellShaped cap s.portions ∧
    (∀ a, (a ∈ pagesOf s.portions ∨ a ∈ live) ↔ (1 ≤ a ∧ a < s.bump)) ∧
    (∀ a, ¬ (a ∈ pagesOf s.portions ∧ a ∈ live)) ∧ (pagesOf s.portions).Nodup ∧ live.Nodup ∧
    (∀ n freed, freed.Nodup → (∀ a ∈ freed, a ∈ live) → ∃ r, finish cap s n freed = some r) := by
  have g := reachable_good hc h
  obtain ⟨p1, p2, p3, p4⟩ := partition_of_count g.part
  refine ⟨g.shape, p1, p2, p3, p4, ?_⟩
  intro n freed hn hsub
  obtain ⟨r, hfin, _⟩ := good_step hc g n freed hn hsub
  exact ⟨r, hfin⟩

/-- non-vacuity of T19.6: two syncs from the empty store (capacity 2): allocate pages 1, 2, 3; then free 1 and 2
while allocating one more (page 4) — the free list is born: page 5 holding {2, 1}. -/
example : ∃ s live, Reachable 2 s live ∧ s.portions = [(5, [2, 1])] ∧ s.bump = 6 ∧ live = [3, 4] := by
  have r0 : Reachable 2 { portions := [], released := [], pop := false, bump := 1 } [] := .init
  have r1 := Reachable.sync _ _ 3 [] _ r0 (by decide) (by intro a h; cases h)
    (by decide : finish 2 { portions := [], released := [], pop := false, bump := 1 } 3 [] =
      some { state := { portions := [], released := [], pop := false, bump := 4 }, written := [], exhausted := false })
  have r2 := Reachable.sync _ _ 1 [1, 2] _ r1 (by decide) (by decide)
    (by decide : finish 2 { portions := [], released := [], pop := false, bump := 4 } 1 [1, 2] =
      some { state := { portions := [(5, [2, 1])], released := [], pop := false, bump := 6 }, written := [5],
             exhausted := true })
  exact ⟨_, _, r2, rfl, rfl, by decide⟩

/-- T19.7 **`CleanFreeList::len` / `get_nth_pop` are what `allocate` assumes.**  `lenAndFragmented` and
`getNthPop` mirror `len_and_fragmented` and `get_nth_pop` with their index arithmetic over the Rust-order
representation `toRust s.portions` (head portion last, top of each item vector last).  On a well-shaped list the
length field is the number of free pages, and for every allocation index below it `get_nth_pop` returns the page
the model's `allocate` returns — the `i`-th element of the pop sequence, i.e. exactly the page the `i`-th `pop` /
`discard` removes (`discardP_spec`). -/
theorem T19_7_get_nth_pop (cap : Nat) (hc : 2 ≤ cap) (s : State) (hw : WellShaped cap s.portions) :
    (lenAndFragmented cap (toRust s.portions)).1 = (itemsOf s.portions).length ∧
    ∀ i, i < (itemsOf s.portions).length →
      getNthPop cap (toRust s.portions) (lenAndFragmented cap (toRust s.portions)).2 i = allocate s i := by
  obtain ⟨h1, h2⟩ := getNthPop_spec hc s.portions hw
  refine ⟨h1, fun i hi => ?_⟩
  rw [h2 i hi]
  simp [allocate, hi]

/-- non-vacuity of T19.7 (capacity 4, the shape of the unit test `clean_nth_pop_fragmented`): head {7}, a
fragmented second portion of three items, two full portions -/
example : (List.range 12).map (getNthPop 4 (toRust
      [(6, [7]), (5, [3, 2, 100]), (4, [14, 13, 12, 11]), (1, [24, 23, 22, 21])]) true)
    = [7, 3, 2, 100, 14, 13, 12, 11, 24, 23, 22, 21] ∧
    lenAndFragmented 4 (toRust [(6, [7]), (5, [3, 2, 100]), (4, [14, 13, 12, 11]), (1, [24, 23, 22, 21])]) = (12, true) := by
  decide

end Nomt.C19
