import NomtModel.Store.ImgCheck
import NomtModel.Store.ConstantsAlloc
import NomtModel.Store.ProbeInv
/-!
# C19 — page accounting (the part checked on the on-disk image)

`wfDetail` (`Store/ImgCheck.lean`) claims every page of `ln` / `bbn` for exactly one role (node,
overflow page, free-list page, free page) through `claim`, and counts the pages of `[1, bump)` that
nobody claimed (`lnLeaked` / `bbnLeaked`, printed by the driver; a non-zero count is reported by
tools/check.py as `C19 leaked pages: …`).  The theorems state that the ownership monitor is sound: a
successful `claim` is always the FIRST claim of a page inside `[1, bump)`, so an accepted image has no
page that is both free and in use or used twice.
-/
namespace Nomt.C19
open Nomt Nomt.Store

/-- a successful claim: the page is in range, was unclaimed, and is now marked -/
theorem T19_claim_first (marks m' : Array UInt8) (bump pn : Nat) (tag : UInt8) (what : String)
    (h : claim marks bump pn tag what = .ok m') :
    1 ≤ pn ∧ pn < bump ∧ marks[pn]! = 0 ∧ m' = marks.set! pn tag := by
  unfold claim at h
  split at h
  · cases h
  · rename_i h1
    split at h
    · cases h
    · rename_i h2
      simp only [Bool.or_eq_true, beq_iff_eq, decide_eq_true_eq, not_or, Nat.not_le] at h1
      simp only [bne_iff_ne, ne_eq, Decidable.not_not] at h2
      simp only [pure, Except.pure, Except.ok.injEq] at h
      exact ⟨by omega, h1.2, h2, h.symm⟩

/-- a page that is already claimed (mark ≠ 0) can never be claimed again -/
theorem T19_no_double_claim (marks : Array UInt8) (bump pn : Nat) (tag : UInt8) (what : String)
    (h : marks[pn]! ≠ 0) : ∃ e, claim marks bump pn tag what = .error e := by
  cases hc : claim marks bump pn tag what with
  | error e => exact ⟨e, rfl⟩
  | ok m' => exact absurd (T19_claim_first _ _ _ _ _ _ hc).2.2.1 h

/-- the leak counter of an all-claimed range is zero on a tiny instance (kernel evaluation) -/
example : countUnclaimed #[0, 1, 2, 4] 4 = 0 ∧ countUnclaimed #[0, 1, 0, 4] 4 = 1 := by decide

/-! ## occupancy of the hash table and the constants behind it -/

/-- T19.const (meta bytes): with the values extracted from `bitbox/meta_map.rs`, `EMPTY`,
`TOMBSTONE` and every full entry `FULL_MASK ^ tag` are pairwise distinct bytes, different tags give
different bytes, the test of `full_count` (`byte & FULL_MASK != 0`) holds exactly for full entries,
and the decoder `decodeSlot` of the image monitor reads them back -/
theorem T19_const_meta_bytes :
    Gen.EMPTY ≠ Gen.TOMBSTONE ∧ Gen.EMPTY &&& Gen.FULL_MASK = 0 ∧ Gen.TOMBSTONE &&& Gen.FULL_MASK = 0 ∧
    (∀ t, t < 128 →
      (Gen.FULL_MASK ^^^ t) ≠ Gen.EMPTY ∧ (Gen.FULL_MASK ^^^ t) ≠ Gen.TOMBSTONE ∧
      (Gen.FULL_MASK ^^^ t) < 256 ∧ (Gen.FULL_MASK ^^^ t) &&& Gen.FULL_MASK ≠ 0 ∧
      decodeSlot (Gen.FULL_MASK ^^^ t) = some (.full t)) ∧
    (∀ t1 t2, t1 < 128 → t2 < 128 → Gen.FULL_MASK ^^^ t1 = Gen.FULL_MASK ^^^ t2 → t1 = t2) ∧
    decodeSlot Gen.EMPTY = some .empty ∧ decodeSlot Gen.TOMBSTONE = some .tombstone := by
  have d := ConstantsCheck.meta_bytes_distinct
  have s := ConstantsCheck.decode_slot
  refine ⟨d.1, d.2.1, d.2.2.1, ?_, ConstantsCheck.full_entry_injective, s.1, s.2.1⟩
  intro t ht
  have x := d.2.2.2.2 t ht
  exact ⟨x.1, x.2.1, x.2.2.1, x.2.2.2.1, s.2.2 t ht⟩

/-- T19.const (free list): the capacity the free-list decoder accepts is the capacity of the code,
and that many page numbers fit in a page after the 6-byte header -/
theorem T19_const_freelist :
    MAX_PNS_PER_FREELIST_PAGE = Gen.FREELIST_MAX_PNS_PER_PAGE ∧
    4 + 2 + 4 * Gen.FREELIST_MAX_PNS_PER_PAGE ≤ Gen.PAGE_SIZE ∧ 0 < Gen.GROW_STORE_BY_PAGES :=
  ⟨ConstantsCheck.freelist_capacity, ConstantsCheck.freelist_page_layout.2.1, ConstantsCheck.freelist_page_layout.2.2.2⟩

/-- T19.occ the occupancy the API reports (`full_count` of the meta bytes, kept up to date by
`+1` per allocated and `-1` per freed bucket) is the number of distinct stored pages: in every
table without a page id in two full buckets the stored page ids, in bucket order, form a
duplicate-free list of length `occupied` (model: `Store/ProbeModel.lean`; full theorems T5.5 in C05) -/
theorem T19_occupied_is_stored_pages (T : Probe.Table) (hD : Probe.NoDup T) :
    (Probe.storedPages T).Nodup ∧ (Probe.storedPages T).length = Probe.occupied T ∧
    ∀ p, p ∈ Probe.storedPages T ↔ ∃ b, Probe.Stored T p b :=
  Probe.storedPages_spec hD

end Nomt.C19
