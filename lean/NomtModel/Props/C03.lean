import NomtModel.Store.Crash3
import NomtModel.Store.RecoverReal
/-!
# C03 — A process crash at any instant leaves exactly the old or the new state

Corollary of the power-loss theorem (`Props/C04.lean`): a process crash keeps every issued effect, i.e.
the image is `dur ⊕ vol` (the sub-list is the whole list).
-/
namespace Nomt.C03
open NomtDisk
variable {Content MetaRec WalRec LogRec TreeAbs : Type} (P : Params Content MetaRec WalRec TreeAbs)

/-- the image left by a process crash in execution state `s` -/
def crashImage (s : Exec Content MetaRec WalRec LogRec) : Disk Content MetaRec WalRec LogRec :=
  applyEffs s.dur s.vol

theorem crashImage_isImage (s : Exec Content MetaRec WalRec LogRec) : IsImage s (crashImage s) :=
  ⟨s.vol, List.Sublist.refl _, rfl⟩

/-- T3.1 **crash atomicity of a sync**: at every event boundary (every prefix of an accepted trace) the
directory left by a process crash recovers to exactly the old or exactly the new state — tree and merkle
pages from the same one of the two — and to the new state once the operation has returned. -/
theorem T3_1_crash_atomic
    (d0 : Disk Content MetaRec WalRec LogRec)
    (hinert : ∀ b, htView P d0 b = d0.pages File.fHt b)
    (pre post : List (Ev Content MetaRec WalRec LogRec)) (m1 : MetaRec) (w1 : WalRec)
    (hpre : ∀ ev ∈ pre, EvPre P d0 ev)
    (hflushed : (run ⟨d0, []⟩ pre).vol = [])
    (hwal : (run ⟨d0, []⟩ pre).dur.wal = some w1)
    (hseq : P.walSeqn w1 = P.seqn m1)
    (hpost : PostOK P w1 ⟨applyEff (run ⟨d0, []⟩ pre).dur (.setMeta m1), []⟩ post) :
    (∀ p, p <+: pre ++ ([Ev.eff (.setMeta m1), Ev.fsync File.fMeta] ++ post) →
       absOf P (crashImage (run ⟨d0, []⟩ p)) = absOf P d0 ∨
       absOf P (crashImage (run ⟨d0, []⟩ p)) = absNew P (run ⟨d0, []⟩ pre).dur m1 w1) ∧
    absOf P (crashImage (run ⟨d0, []⟩ (pre ++ ([Ev.eff (.setMeta m1), Ev.fsync File.fMeta] ++ post))))
      = absNew P (run ⟨d0, []⟩ pre).dur m1 w1 := by
  have h := sync_crash_atomic P d0 hinert pre post m1 w1 hpre hflushed hwal hseq hpost
  exact ⟨fun p hp => h.1 p hp _ (crashImage_isImage _), h.2 _ (crashImage_isImage _)⟩

/-- T3.1b **crash atomicity including the rollback log** (process-crash corollary of T4.2): the directory left by a
process crash at any event boundary of an accepted sync trace recovers — tree, hash-table view and live rollback
records together — to exactly the old or exactly the new state; to the new one once the call returned. -/
theorem T3_1b_crash_atomic_with_rollback_log (L : LogParams MetaRec LogRec)
    (d0 : Disk Content MetaRec WalRec LogRec)
    (hinert : ∀ b, htView P d0 b = d0.pages File.fHt b)
    (pre post : List (Ev Content MetaRec WalRec LogRec)) (m1 : MetaRec) (w1 : WalRec)
    (hpre : ∀ ev ∈ pre, EvPreL P L d0 ev)
    (hflushed : (run ⟨d0, []⟩ pre).vol = [])
    (hwal : (run ⟨d0, []⟩ pre).dur.wal = some w1)
    (hseq : P.walSeqn w1 = P.seqn m1)
    (hpost : PostOKL P L (run ⟨d0, []⟩ pre).dur m1 w1 ⟨applyEff (run ⟨d0, []⟩ pre).dur (.setMeta m1), []⟩ post) :
    (∀ p, p <+: pre ++ ([Ev.eff (.setMeta m1), Ev.fsync File.fMeta] ++ post) →
       absOfL P L (crashImage (run ⟨d0, []⟩ p)) = absOfL P L d0 ∨
       absOfL P L (crashImage (run ⟨d0, []⟩ p)) =
         (absNew P (run ⟨d0, []⟩ pre).dur m1 w1, absLog L m1 (run ⟨d0, []⟩ pre).dur.log)) ∧
    absOfL P L (crashImage (run ⟨d0, []⟩ (pre ++ ([Ev.eff (.setMeta m1), Ev.fsync File.fMeta] ++ post))))
      = (absNew P (run ⟨d0, []⟩ pre).dur m1 w1, absLog L m1 (run ⟨d0, []⟩ pre).dur.log) := by
  have h := sync_crash_atomic_log P L d0 hinert pre post m1 w1 hpre hflushed hwal hseq hpost
  exact ⟨fun p hp => h.1 p hp _ (crashImage_isImage _), h.2 _ (crashImage_isImage _)⟩

/-! ## Nested crashes: recovery interrupted at any point (`Store/Recover.lean`)

`recoverTrace d` is recovery of image `d` as a trace: if the WAL's sequence number equals the meta's, the WAL's page
diffs are written into the table, the table is fsynced, then the WAL is truncated and fsynced (a stale WAL is only
truncated); then the rollback segments without live records are removed and the tail beyond `end_live` is cut.
`WalFun` : the WAL names no bucket twice with different contents. -/

/-- T3.2 **recovery is idempotent under interruption**: for every prefix `p` of the recovery of `d` and every image
of `run ⟨d, []⟩ p` (any subset of the un-synced recovery writes lost) the abstraction — tree, table view, live rollback
records — is the one of `d`; the image's WAL is `d`'s or empty, so the statement applies again to its own recovery. -/
theorem T3_2_recovery_idempotent (L : LogParams MetaRec LogRec)
    (d : Disk Content MetaRec WalRec LogRec) (hfun : WalFun P d)
    (p : List (Ev Content MetaRec WalRec LogRec)) (hp : p <+: recoverTrace P L d)
    (img : Disk Content MetaRec WalRec LogRec) (himg : IsImage (run ⟨d, []⟩ p) img) :
    absOfL P L img = absOfL P L d ∧ (img.wal = d.wal ∨ img.wal = none) :=
  recovery_idempotent P L d hfun p hp img himg

/-- T3.2b **arbitrarily nested crashes**: any image reached by any number of interrupted recoveries (each one started
on the image the previous interruption left) abstracts to the state of the first image. -/
theorem T3_2b_nested_recovery_idempotent (L : LogParams MetaRec LogRec)
    (d d' : Disk Content MetaRec WalRec LogRec) (hfun : WalFun P d) (h : NestedCrash P L d d') :
    absOfL P L d' = absOfL P L d :=
  nested_recovery_idempotent P L d d' hfun h

/-- T3.2c the recovery order **as the code has it** (`bitbox::recover` does not fsync the table before it collapses
the WAL durably) is idempotent when only the process dies (all issued effects survive) … -/
theorem T3_2c_real_order_crash_idempotent (L : LogParams MetaRec LogRec)
    (d : Disk Content MetaRec WalRec LogRec) (hfun : WalFun P d)
    (p : List (Ev Content MetaRec WalRec LogRec)) (hp : p <+: recoverTraceReal P L d) :
    absOfL P L (crashImage (run ⟨d, []⟩ p)) = absOfL P L d :=
  recoverTraceReal_crash_idempotent P L d hfun p hp

/-- … but NOT under power loss (this is C04's concern; recorded here next to the order it is about): on the instance
`Toy.dR` the real order has a prefix and an image whose table view differs from the one of `Toy.dR`. -/
theorem T3_2d_real_order_not_powerloss_idempotent :
    ∃ p img, p <+: recoverTraceReal Toy.P Toy.L Toy.dR ∧ IsImage (run ⟨Toy.dR, []⟩ p) img ∧
      absOfL Toy.P Toy.L img ≠ absOfL Toy.P Toy.L Toy.dR :=
  Toy.toy_real_recovery_loses_table

/-- non-vacuity of T3.2: `Toy.dR` (new meta, matching WAL, table not yet written, a tail record beyond the live range)
satisfies the hypothesis and its recovery trace is not empty: redo, table fsync, WAL truncation, seglog clean-up. -/
example : WalFun Toy.P Toy.dR ∧ (recoverTrace Toy.P Toy.L Toy.dR).length = 7 ∧
    (∀ p, p <+: recoverTrace Toy.P Toy.L Toy.dR → ∀ img, IsImage (run ⟨Toy.dR, []⟩ p) img →
      absOfL Toy.P Toy.L img = absOfL Toy.P Toy.L Toy.dR) :=
  ⟨Toy.dR_walFun, by rw [Toy.dR_trace]; rfl,
   fun p hp img himg => (T3_2_recovery_idempotent Toy.P Toy.L Toy.dR Toy.dR_walFun p hp img himg).1⟩

end Nomt.C03
