import NomtModel.Store.Crash3
/-!
# C03 — A process crash at any instant leaves exactly the old or the new state

Corollary of the power-loss theorem (`Props/C04.lean`): a process crash keeps every issued effect, i.e.
the image is `dur ⊕ vol` (the sub-list is the whole list).
-/
namespace Nomt.C03
open NomtDisk
variable {Content MetaRec WalRec LogRec TreeAbs : Type} (P : Params Content MetaRec WalRec TreeAbs)

/-- the image left by a process crash in execution state `s` -/
def crashImage (s : Exec Content MetaRec WalRec LogRec) : Disk Content MetaRec WalRec LogRec :=
  applyEffs s.dur s.vol

theorem crashImage_isImage (s : Exec Content MetaRec WalRec LogRec) : IsImage s (crashImage s) :=
  ⟨s.vol, List.Sublist.refl _, rfl⟩

/-- T3.1 **crash atomicity of a sync**: at every event boundary (every prefix of an accepted trace) the
directory left by a process crash recovers to exactly the old or exactly the new state — tree and merkle
pages from the same one of the two — and to the new state once the operation has returned. -/
theorem T3_1_crash_atomic
    (d0 : Disk Content MetaRec WalRec LogRec)
    (hinert : ∀ b, htView P d0 b = d0.pages File.fHt b)
    (pre post : List (Ev Content MetaRec WalRec LogRec)) (m1 : MetaRec) (w1 : WalRec)
    (hpre : ∀ ev ∈ pre, EvPre P d0 ev)
    (hflushed : (run ⟨d0, []⟩ pre).vol = [])
    (hwal : (run ⟨d0, []⟩ pre).dur.wal = some w1)
    (hseq : P.walSeqn w1 = P.seqn m1)
    (hpost : PostOK P w1 ⟨applyEff (run ⟨d0, []⟩ pre).dur (.setMeta m1), []⟩ post) :
    (∀ p, p <+: pre ++ ([Ev.eff (.setMeta m1), Ev.fsync File.fMeta] ++ post) →
       absOf P (crashImage (run ⟨d0, []⟩ p)) = absOf P d0 ∨
       absOf P (crashImage (run ⟨d0, []⟩ p)) = absNew P (run ⟨d0, []⟩ pre).dur m1 w1) ∧
    absOf P (crashImage (run ⟨d0, []⟩ (pre ++ ([Ev.eff (.setMeta m1), Ev.fsync File.fMeta] ++ post))))
      = absNew P (run ⟨d0, []⟩ pre).dur m1 w1 := by
  have h := sync_crash_atomic P d0 hinert pre post m1 w1 hpre hflushed hwal hseq hpost
  exact ⟨fun p hp => h.1 p hp _ (crashImage_isImage _), h.2 _ (crashImage_isImage _)⟩

end Nomt.C03
