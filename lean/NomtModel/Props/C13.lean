import NomtModel.Api.Shards
import NomtModel.Api.Exec
import NomtModel.Store.ConstantsTree
/-!
# C13 — Results do not depend on parallelism, caching or tuning options

The specification-level model (`Api/Exec.lean`) has **no configuration parameter at all**: roots, values,
proofs and commit results are functions of the operation history alone (T13.4 is therefore a fact about
the types, not a theorem).  What can depend on the options is the implementation; the correspondence run
drives the same history under a matrix of configurations and requires identical observables.
The one piece of option-dependent *logic* that is pure is the partition of the trie among workers/shards.
-/
namespace Nomt.C13
open Nomt.Shards

/-- T13.1 **shard partition**: for every worker / shard count `n ∈ 1…64` the regions of `shard_regions n`
are non-empty, consecutive and cover the 64 root children exactly, and `shard_index_for n a` names the
unique region containing child `a` (checked by kernel evaluation of the complete finite table). -/
theorem T13_1_shards_partition : ∀ n, 1 ≤ n → n ≤ 64 → okFor n = true := by
  have table : (List.range 65).all (fun n => n == 0 || okFor n) = true := by decide +kernel
  intro n h1 h64
  have := List.all_eq_true.mp table n (List.mem_range.mpr (by omega))
  have hn0 : (n == 0) = false := by simp; omega
  simpa [hn0] using this

/-- consequence used by the workers: ownership is a function — two shards never both own a child -/
theorem T13_1b_owner_in_range (n a : Nat) (hn1 : 1 ≤ n) (hn : n ≤ 64) (ha : a < 64) : indexFor n a < n := by
  have h := T13_1_shards_partition n hn1 hn
  simp only [okFor, Bool.and_eq_true, List.all_eq_true, List.mem_range, decide_eq_true_eq] at h
  exact (h.1.1 a ha).1.1

example : region 7 0 = (0, 10) ∧ region 7 1 = (10, 9) ∧ indexFor 7 9 = 0 ∧ indexFor 7 10 = 1 := by decide

/-- T13.const the table of T13.1 is the table of the code: the root page has
`NUM_CHILDREN = 2^DEPTH = 64` children (`Shards.numChildren`), and `MAX_COMMIT_CONCURRENCY = 64`, so
every admissible worker count lies in the range `1 … 64` that T13.1 covers (values extracted from
`core/src/page.rs`, `core/src/page_id.rs`, `nomt/src/lib.rs` on every run) -/
theorem T13_const_children :
    numChildren = Gen.NUM_CHILDREN ∧ Gen.NUM_CHILDREN = 2 ^ Gen.DEPTH ∧ Gen.NUM_CHILDREN = 64 ∧
    Gen.MAX_COMMIT_CONCURRENCY = 64 ∧
    ∀ n, 1 ≤ n → n ≤ Gen.MAX_COMMIT_CONCURRENCY → okFor n = true := by
  have c := Store.ConstantsCheck.num_children
  refine ⟨Store.ConstantsCheck.shards_num_children, c.1, c.2.1, c.2.2.2.1, ?_⟩
  intro n h1 h2
  rw [c.2.2.2.1] at h2
  exact T13_1_shards_partition n h1 h2

end Nomt.C13
