import NomtModel.Api.Locks
/-!
# C15 — Sessions see one committed state; readers and the writer exclude each other

Theorems over the lock-protocol LTS (`Api/Locks.lean`), for EVERY interleaving (every list of actions by
any number of threads).  *Partial* by nature: the theorems are about the protocol; that the real locks
implement it under the real scheduler is sampled by the threaded stress run (version stamps, winner chain,
watchdog).
-/
namespace Nomt.C15
open Nomt.Locks

theorem inv_init : Inv ({} : LState) := ⟨fun h => by simp at h, fun r hr => by simp at hr, rfl⟩

theorem inv_step (s : LState) (a : Act) (h : Inv s) : Inv (step s a).1 := by
  cases a with
  | beginSession t =>
    simp only [step]
    split
    · exact h
    · rename_i hw
      refine ⟨fun hw' => absurd hw' hw, ?_, h.chain⟩
      intro r hr
      simp only [List.mem_cons] at hr
      rcases hr with rfl | hr
      · rfl
      · exact h.snap r hr
  | endSession t =>
    simp only [step]
    refine ⟨fun hw => ?_, ?_, h.chain⟩
    · simp [h.excl hw]
    · intro r hr; exact h.snap r (List.mem_filter.mp hr).1
  | acquireWrite t =>
    simp only [step]
    split
    · exact h
    · rename_i hc
      simp only [Bool.or_eq_true, Bool.not_eq_true', not_or, Bool.not_eq_true] at hc
      refine ⟨fun _ => ?_, h.snap, h.chain⟩
      simpa using hc.2
  | tryWrite t =>
    simp only [step]
    split
    · exact h
    · rename_i hc
      simp only [Bool.or_eq_true, Bool.not_eq_true', not_or, Bool.not_eq_true] at hc
      refine ⟨fun _ => ?_, h.snap, h.chain⟩
      simpa using hc.2
  | commitUnder t base =>
    simp only [step]
    split
    · exact h
    · rename_i hw
      split
      · exact h
      · rename_i hb
        simp only [bne_iff_ne, ne_eq, Decidable.not_not] at hw hb
        have hnone : s.readers = [] := h.excl (by simp [hw])
        refine ⟨fun _ => hnone, ?_, ?_⟩
        · intro r hr; simp [hnone] at hr
        · exact ⟨rfl, by simp [hb], by rw [hb]; exact h.chain⟩
  | releaseWrite t =>
    simp only [step]
    split
    · exact ⟨fun hw => by simp at hw, h.snap, h.chain⟩
    · exact h

theorem inv_run (acts : List Act) (s : LState) (h : Inv s) : Inv (run s acts) := by
  induction acts generalizing s with
  | nil => exact h
  | cons a rest ih => exact ih _ (inv_step s a h)

/-- T15.1 **mutual exclusion**: in every reachable state, while a commit / rollback holds the write guard
no session is alive. -/
theorem T15_1_writer_excludes_sessions (acts : List Act) (h : (run {} acts).writer.isSome) :
    (run {} acts).readers = [] := (inv_run acts {} inv_init).excl h

/-- T15.2 **sessions see one committed state**: in every reachable state every live session's starting
version is still the current committed version — no commit has been published since it began. -/
theorem T15_2_session_snapshot (acts : List Act) (r : Tid × Nat) (h : r ∈ (run {} acts).readers) :
    r.2 = (run {} acts).version := (inv_run acts {} inv_init).snap r h

/-- T15.3 **competing writers serialise; no committed batch is lost**: the successful commits form a
chain — each winner's base is exactly the state left by the previous winner, each advances the state by
one, and the chain ends in the current state. -/
theorem T15_3_winners_form_chain (acts : List Act) : ChainTo (run {} acts).version (run {} acts).wins :=
  (inv_run acts {} inv_init).chain

/-- T15.3b exactly the changesets whose base matches win: under the write guard a commit is accepted iff
its base is the current version. -/
theorem T15_3b_accept_iff_base_matches (s : LState) (t : Tid) (base : Nat) (hw : s.writer = some t) :
    ((step s (.commitUnder t base)).2 = .accepted ↔ base = s.version) ∧
    ((step s (.commitUnder t base)).2 = .rejected ↔ base ≠ s.version) := by
  by_cases hb : base = s.version <;> simp [step, hw, hb]

/-- T15.4a a non-blocking commit never waits: it either gets the guard or reports `busy` with the state
unchanged. -/
theorem T15_4a_try_write_never_blocks (s : LState) (t : Tid) :
    ((step s (.tryWrite t)).2 = .done ∨ ((step s (.tryWrite t)).2 = .busy ∧ (step s (.tryWrite t)).1 = s)) := by
  simp only [step]; split <;> simp

/-- T15.4b (progress, partial): once no session is alive and nobody holds the write guard, a blocking
commit can take it — sessions ending is all a waiting writer needs. -/
theorem T15_4b_writer_progress (s : LState) (t : Tid) (h1 : s.readers = []) (h2 : s.writer = none) :
    (step s (.acquireWrite t)).2 = .done := by
  simp [step, h1, h2]

example : (run {} [.beginSession 1, .acquireWrite 2, .endSession 1, .acquireWrite 2, .commitUnder 2 0, .releaseWrite 2,
    .tryWrite 3, .commitUnder 3 0, .releaseWrite 3]).wins = [(0, 1)] := by decide

end Nomt.C15
