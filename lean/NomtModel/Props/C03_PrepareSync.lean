import NomtModel.Store.PrepareSyncTheorems
import NomtModel.Store.PrepareSyncExample
/-!
# C03 (topic: `bitbox::DB::prepare_sync`) — the WAL blob a sync makes durable before its meta write

`T3_wal_roundtrip` / `T3_recover_is_redo` (`Props/C03_Wal.lean`) are about a blob built from a given entry list.  Here:
the entry list is the one `prepare_sync` produces — the content of the `hwal` clause of the crash theorems.
-/
namespace Nomt.C03
open Nomt Nomt.Wal Nomt.Store Nomt.Store.Probe Nomt.PrepSync

/-- **T3_prepare_sync_wal_blob**: the blob `prepare_sync` leaves in the builder is `encode seqn entries` with ONE entry
per page of the changeset, in order — `Clear(bucket)` for a cleared page, `Update(page id, diff, the slots the diff names,
elided-children bits, bucket)` otherwise, `bucket` the bucket the page got —, a whole number of pages, and
`WalBlobReader` returns exactly the sync's sequence number and these entries and stops at the END tag. -/
theorem T3_prepare_sync_wal_blob {hash : Bytes → Nat} {debug : Bool} {S : St} {T : Wal.Table} {seqn : Nat}
    {ds : List Dirty} {b0 : Builder} {res : Res} (hB : Before hash S T) (hC : ChangesOK hash S T ds)
    (hs : seqn < 2 ^ 32) (h : prepareSync hash debug S seqn ds b0 = .ok res) :
    res.wal.asSlice = encode seqn (entriesOf ds res.cells) ∧ res.wal.asSlice.length % PAGE_SIZE = 0 ∧
    res.cells.length = ds.length ∧
    ∃ r, readAll res.wal.asSlice.toArray = .ok r ∧ r.seqn = seqn ∧ r.entries = entriesOf ds res.cells ∧ r.ending = .ok () :=
  prepareSync_wal_blob hB hC hs h

/-- **T3_prepare_sync_recovery_total**: recovery of the WAL of a sync inside the contract never fails (no error, no panic
site of `recover`), whatever the diffs name. -/
theorem T3_prepare_sync_recovery_total {hash : Bytes → Nat} {debug : Bool} {S : St} {T : Wal.Table} {seqn : Nat}
    {ds : List Dirty} {b0 : Builder} {res : Res} (hB : Before hash S T) (hC : ChangesOK hash S T ds)
    (hs : seqn < 2 ^ 32) (h : prepareSync hash debug S seqn ds b0 = .ok res) :
    ∃ U, recover hash seqn T res.wal.asSlice.toArray = .ok U ∧ U.WF := by
  obtain ⟨U, h1, h2, _⟩ := prepareSync_redo_vs_writeout hB hC hs h res.ht (List.Perm.refl _)
  exact ⟨U, h1, h2⟩

/-- non-vacuity -/
example (debug : Bool) : ∃ res, prepareSync exHash debug exS 7 [exD] exB = .ok res ∧
    res.wal.asSlice = encode 7 (entriesOf [exD] res.cells) := by
  obtain ⟨res, h⟩ := exRuns debug 3 (by omega) plain_3
  exact ⟨res, h, (T3_prepare_sync_wal_blob exBefore exChangesD (by omega) h).1⟩

end Nomt.C03
