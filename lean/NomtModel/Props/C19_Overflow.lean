import NomtModel.Store.OvfMain
/-!
# C19 (topic: the pages of overflow values — `beatree/ops/overflow.rs`)

Page accounting of a value that does not fit its leaf: the pages `chunk` allocates, the pages it writes and the
pages `delete` hands to the free list are the same `total_needed_pages(len)` page numbers — nothing leaks, nothing
is freed twice, nothing else is touched.  (Model: `Store/OvfModel.lean`; tie: the `overflow` differential, whose
harness-side oracle recomputes the three sets from the real file and the real `freed` vector.  That `delete` is
*called* for every replaced / removed overflow cell is the subject of F10 and of the image monitor's leak count.)
-/
namespace Nomt.C19
open Nomt Nomt.Ovf
open Nomt.Wal (Bytes)

/-- T19.ovf-1 **overflow pages are conserved**: for every value of 1 … 2²⁹ bytes and every allocator handing out
pairwise distinct page numbers, `chunk` performs exactly `total_needed_pages(len)` allocations, writes exactly the
allocated pages (each once, in allocation order; the cell names the first `min(total, 15)`), and `delete` of the cell
— on any store that holds the written pages — appends exactly these page numbers to `freed`, each once, without a
panic (its final `assert_eq!(freed.len() - start, total_pages)` holds, its early `break` loses nothing). -/
theorem T19_overflow_pages_conserved (value : Bytes) (hne : value ≠ []) (hmax : value.length ≤ MAX_VALUE_SIZE)
    (hash : Bytes) (hh : hash.length = 32) (alloc : Nat → Nat) (junk : Nat → Bytes)
    (h32 : ∀ i, i < totalNeededPages value.length → alloc i < 2 ^ 32)
    (hfresh : ∀ i j, i < totalNeededPages value.length → j < totalNeededPages value.length →
      alloc i = alloc j → i = j)
    (hj : ∀ i, (junk i).length = PAGE_SIZE) (freed : List Nat) :
    ∃ out cell, chunk value alloc junk = some out ∧ encodeCell value.length hash out.cell = some cell ∧
      out.total = totalNeededPages value.length ∧
      out.writes.map (·.1) = allocated alloc value.length ∧
      (allocated alloc value.length).length = totalNeededPages value.length ∧
      (allocated alloc value.length).Nodup ∧
      out.cell = (allocated alloc value.length).take 15 ∧
      ∀ σ : Store, (∀ w ∈ out.writes, σ w.1 = some w.2) →
        delete cell σ freed = some (freed ++ allocated alloc value.length) := by
  obtain ⟨out, cell, hchunk, henc, hdec, htot, hcell, hwr, _, hchain⟩ :=
    chunk_cell_chain value hne hmax hash hh alloc junk h32 hj
  refine ⟨out, cell, hchunk, henc, htot, hwr, allocated_length _ _, allocated_nodup alloc _ hfresh, hcell,
    fun σ hσ => ?_⟩
  obtain ⟨parts, hc, _, hpn, hlen⟩ := hchain σ hσ
  rw [← hpn]
  exact delete_chain hc cell hash value.length hdec hlen freed

/-- T19.ovf-2 **`chunk` touches only the pages it allocated** and leaves them readable: on the store its writes
produce every other page keeps its content, so the overflow pages of other values (and every node page) survive. -/
theorem T19_overflow_chunk_frame (value : Bytes) (hne : value ≠ []) (alloc : Nat → Nat) (junk : Nat → Bytes)
    (σ₀ : Store) :
    ∃ out, chunk value alloc junk = some out ∧
      ∀ q, q ∉ allocated alloc value.length → applyWrites σ₀ out.writes q = σ₀ q := by
  obtain ⟨out, h, _, _, hwr, _, _⟩ := chunk_ok value hne alloc junk
  exact ⟨out, h, fun q hq => applyWrites_frame _ _ q (by rw [hwr]; exact hq)⟩

/-- T19.ovf-3 `delete` **on any well-formed chain** (not only one `chunk` has just written): it frees the pages of
the chain, in chain order — the statement the B-tree relies on when it deletes a cell written by an earlier sync. -/
theorem T19_overflow_delete_chain (σ : Store) (cellPages : List Nat) (parts : List Part)
    (hc : Chain σ cellPages parts) (cell hash : Bytes) (vs : Nat)
    (hd : decodeCell cell = some (vs, hash, cellPages)) (ht : parts.length = totalNeededPages vs)
    (freed : List Nat) :
    delete cell σ freed = some (freed ++ parts.map (·.pn)) :=
  delete_chain hc cell hash vs hd ht freed

/-- T19.ovf-4 the number of pages is a function of the length alone (reader, writer and `delete` compute it
independently from `value_size`), it is positive, linear in the length, and equals the plain `⌈len / 4092⌉` as long
as the cell can name every page. -/
theorem T19_overflow_page_count (len : Nat) (h : 0 < len) :
    0 < totalNeededPages len ∧ totalNeededPages len ≤ len / 4088 + 2 ∧
    (len ≤ 15 * BODY_SIZE → totalNeededPages len = neededPages len) ∧
    totalNeededPages len = Nomt.Store.totalNeededPages len :=
  ⟨totalNeededPages_pos len h, totalNeededPages_le len, totalNeededPages_small len, totalNeededPages_eq_img len⟩

/-! ## non-vacuity -/

/-- 70 000 bytes on descending, non-contiguous page numbers: 18 distinct pages -/
example : ∃ out cell, chunk (List.replicate 70000 7) (fun i => 5000 - 3 * i) (fun _ => List.replicate 4096 0xAA) = some out ∧
    encodeCell (List.replicate 70000 (7 : UInt8)).length (List.replicate 32 1) out.cell = some cell ∧
    out.total = totalNeededPages (List.replicate 70000 (7 : UInt8)).length := by
  have hl : (List.replicate 70000 (7 : UInt8)).length = 70000 := List.length_replicate
  obtain ⟨out, cell, h1, h2, h3, _⟩ := T19_overflow_pages_conserved (List.replicate 70000 7)
    (fun h => by rw [h] at hl; exact absurd hl (by decide)) (by rw [hl]; decide)
    (List.replicate 32 1) List.length_replicate (fun i => 5000 - 3 * i) (fun _ => List.replicate 4096 0xAA)
    (fun i _ => by show 5000 - 3 * i < 2 ^ 32; omega)
    (fun i j hi hj h => by
      rw [hl] at hi hj
      have : totalNeededPages 70000 = 18 := by decide
      have h' : 5000 - 3 * i = 5000 - 3 * j := h
      omega)
    (fun _ => List.length_replicate) [3, 4]
  exact ⟨out, cell, h1, h2, h3⟩

set_option maxRecDepth 100000 in
/-- evaluated by the kernel: a 5-byte value on page 9 — `delete` appends `[9]` -/
example :
    let junk : Nat → Bytes := fun _ => List.replicate 4096 0xAA
    let hash : Bytes := List.replicate 32 1
    ((chunk [1, 2, 3, 4, 5] (fun i => 9 + i) junk).bind (fun o =>
      (encodeCell 5 hash o.cell).bind (fun cell => delete cell (applyWrites (fun _ => none) o.writes) [3, 4]))) =
      some [3, 4, 9] := by
  decide

end Nomt.C19
