import NomtModel.Api.Locks2Lin
import NomtModel.Api.Locks2Dead
/-!
# C15 — the two-lock protocol: snapshot reads, linearizable writers, deadlock freedom, non-blocking commits

Theorems over the LTS of `Api/Locks2.lean`, for EVERY interleaving: every list of events
`call t api` / `step t` by any number of threads, every call split into its micro-steps at the lock
acquisition sites of `nomt/src/lib.rs` (two locks: `access_lock` = A, a parking_lot `RwLock` with its
two-phase writer acquisition; `shared` = M, a `Mutex`).

* (1) **T15.5** a session's reads return the committed state at its start; the committed state changes
  only under the write guard, when no session is live.
* (2) **T15.6** linearizability: the committed state (content, root, rollback log, marker, poison flag) and
  the verdicts are those of the sequential specification `specStep` run over the write sections in the order
  they took the write guard; `specStep` accepts exactly the changesets whose base is the current root.
* (3) **T15.7** deadlock freedom with two locks: the code takes A before M and never holds M across an
  acquisition (`wf`); then every wait edge lowers a rank in `{0,1,2,3}`, the wait-for graph is acyclic and
  from every blocked thread a thread that can move is reached in ≤ 3 edges.  Needs the caller discipline
  `Disc` (a thread that owns a session does not wait for A).  Kernel-checked counterexamples: M before A at
  one site (`ovCommitHoldM`) deadlocks; a second `begin_session` by a session owner while a writer waits
  deadlocks (parking_lot's `read` queues behind a waiting writer).
* (4) **T15.8** the non-blocking commits never wait for A and return the changeset iff the lock is not free.

*Partial by nature*: the theorems are about the protocol; that the real locks implement the micro-steps
under the real scheduler is sampled: by the `stress` run (end-to-end oracles) and by the lock recorder
(`vharness lockrec`), whose recorded schedules are replayed step by step through the driver mode `locks`
(`Props/C15_Conformance.lean`: an accepted log is a run of this LTS).
-/
namespace Nomt.C15
open Nomt.Locks2
variable {C R W D : Type} [DecidableEq R] (ops : DbOps C R W D)

/-- decidability of `Good` (for the examples) -/
instance goodDec : (s : S C R W D) → (evs : List (Event R W D)) → Decidable (Good ops s evs)
  | _, [] => isTrue trivial
  | s, e :: rest =>
    have := goodDec (next ops s e).1 rest
    by unfold Good; exact inferInstance

/-! ## (1) sessions read one committed state -/

/-- T15.5a **snapshot**: in every reachable state (any interleaving of the code's calls) every live session
started from the committed content and root that are current NOW — no writer step has happened since the
session took its read guard — and the `prev_root` it read under M, once read, is that root. -/
theorem T15_5a_session_snapshot (db0 : Db C R D) (evs : List (Event R W D))
    (hc : ∀ e ∈ evs, e.isCode = true) :
    let s := run ops (init db0) evs
    ∀ x ∈ s.readers, x.content = s.db.content ∧ x.root = s.db.root ∧ (x.prev = none ∨ x.prev = some x.root) :=
  (inv1_run ops evs _ hc (inv1_init db0)).snap

/-- T15.5b **what a session read returns**: `Session::read` (micro-step `sessRead`) of any thread, in any
reachable state, observes the start content of EVERY live session — in particular of its own. -/
theorem T15_5b_read_returns_start_state (db0 : Db C R D) (evs : List (Event R W D))
    (hc : ∀ e ∈ evs, e.isCode = true) (t : Tid) (sid : Nat) (rest : List (Instr R W D)) :
    let s := run ops (init db0) evs
    (s.thr t).prog = .sessRead sid :: rest →
    let s' := (next ops s (.step t)).1
    (s'.thr t).regs.obs = some s.db.content ∧ ∀ x ∈ s.readers, (s'.thr t).regs.obs = some x.content := by
  intro s hp s'
  have hsnap := (inv1_run ops evs _ hc (inv1_init db0)).snap
  have h1 : (s'.thr t).regs.obs = some s.db.content := by
    simp [s', next, hp, exec, eff]
  exact ⟨h1, fun x hx => by rw [h1, (hsnap x hx).1]⟩

/-- the committed state is only changed by the owner of the write guard -/
theorem db_change_under_guard (s : S C R W D) (h : Inv1 s) (e : Event R W D) :
    (next ops s e).1.db = s.db ∨ (s.wown = true ∧ s.readers = []) := by
  cases e with
  | call t c => left; simp only [next]; split <;> rfl
  | step t =>
    simp only [next]
    cases hp : (s.thr t).prog with
    | nil => left; rfl
    | cons i rest =>
      simp only
      by_cases hi : i.isEff = true
      · have ht := h.typed t
        rw [hp] at ht
        by_cases hown : wsOf s t = .own
        · right
          have := (wsOf_own_iff s t).1 hown
          exact ⟨this.2, h.excl this.2⟩
        · left
          obtain ⟨h1, h2⟩ := eff_db_of_not_own ops i rest _ _ hown ht (s.thr t).regs s.db
          rw [exec_isEff ops s t i rest hi]
          cases he : eff ops i (s.thr t).regs s.db with
          | cont rg db => exact h1 _ _ he
          | stop r db =>
            simp only
            split
            · exact h2 _ _ he
            · simp only [abort]; exact h2 _ _ he
      · left
        cases i <;> simp [Instr.isEff] at hi <;> simp only [exec] <;> (try split) <;> simp [abort]
  | spur t u =>
    left; simp only [next]
    split
    · split <;> simp [abort]
    · rfl

/-- T15.5c **no writer step while a session is live**: an event that changes the committed state (content,
root, log, marker or poison flag) happens under the write guard, and then no session is live. -/
theorem T15_5c_writes_exclude_sessions (db0 : Db C R D) (evs : List (Event R W D))
    (hc : ∀ e ∈ evs, e.isCode = true) (e : Event R W D) :
    let s := run ops (init db0) evs
    (next ops s e).1.db ≠ s.db → s.wown = true ∧ s.readers = [] := by
  intro s hne
  rcases db_change_under_guard ops s (inv1_run ops evs _ hc (inv1_init db0)) e with h | h
  · exact absurd h hne
  · exact h

/-- T15.5d **mutual exclusion**: while a thread holds the write guard no session is live, and the guard's
owner is the (unique) owner of WRITER_BIT. -/
theorem T15_5d_writer_excludes_sessions (db0 : Db C R D) (evs : List (Event R W D))
    (hc : ∀ e ∈ evs, e.isCode = true) :
    let s := run ops (init db0) evs
    s.wown = true → s.readers = [] ∧ s.wbit.isSome :=
  fun hw => ⟨(inv1_run ops evs _ hc (inv1_init db0)).excl hw, (inv1_run ops evs _ hc (inv1_init db0)).wown_bit hw⟩

/-! ## (2) the writers are linearizable in write-guard order -/

/-- T15.6 **linearizability.**  `doneOps` / `doneRes` (ghost) list the write-guard sections that have ended —
commits of sessions and overlays, blocking or not, and rollbacks — newest first, with their verdicts;
sections are entered in `doneOps` in the order in which they TOOK the write guard (only one can hold it).
For every interleaving of the code's calls: running the sequential specification over them, oldest first,
from the initial state gives exactly the committed state at the moment the current guard was taken (`base`),
or the current committed state if no guard is held — and exactly the recorded verdicts. -/
theorem T15_6_linearizable (db0 : Db C R D) (evs : List (Event R W D)) (hc : ∀ e ∈ evs, e.isCode = true) :
    let s := run ops (init db0) evs
    specRun ops db0 s.doneOps.reverse = (if s.wown then s.base else s.db, s.doneRes.reverse) :=
  (inv_lin_run ops evs _ hc (inv1_init db0) (lin_init ops db0)).2.hist

/-- T15.6a between write sections the committed state IS the sequential result: nothing is lost, nothing is
applied twice, nothing is applied out of order. -/
theorem T15_6a_quiescent_state (db0 : Db C R D) (evs : List (Event R W D)) (hc : ∀ e ∈ evs, e.isCode = true)
    (hq : (run ops (init db0) evs).wown = false) :
    specRun ops db0 (run ops (init db0) evs).doneOps.reverse =
      ((run ops (init db0) evs).db, (run ops (init db0) evs).doneRes.reverse) := by
  have := T15_6_linearizable ops db0 evs hc
  simpa [hq] using this

/-- T15.6b **the section in progress** will end as the specification says: while `t` holds the write guard,
running the rest of its critical section on its own from the current state yields `specStep` of its
operation on the state at which it took the guard (no other thread can interfere: T15.5c). -/
theorem T15_6b_section_in_progress (db0 : Db C R D) (evs : List (Event R W D))
    (hc : ∀ e ∈ evs, e.isCode = true) (t : Tid) :
    let s := run ops (init db0) evs
    s.wbit = some t → s.wown = true →
    ∃ o, (s.thr t).op = some o ∧ runCS ops (s.thr t).prog (s.thr t).regs s.db = specStep ops s.base o :=
  (inv_lin_run ops evs _ hc (inv1_init db0) (lin_init ops db0)).2.active t

/-- T15.6c **exactly the changesets whose base matches win** (specification side): with working I/O a commit
is accepted iff the store is not poisoned and the changeset's base is the current root; then the content
is the old content with the changeset applied, the root the changeset's root, the delta is logged, the
marker set; a refused commit leaves the state unchanged. -/
theorem T15_6c_commit_accepted_iff (db : Db C R D) (cs : CS R W D) (mk : Option Nat) (pf : Bool) :
    ((specStep ops db (.commit cs mk pf .ok)).2 = .ok ↔ db.poisoned = false ∧ db.root = cs.base) ∧
    ((specStep ops db (.commit cs mk pf .ok)).2 = .ok →
      (specStep ops db (.commit cs mk pf .ok)).1 =
        { db with content := ops.applyW db.content cs.writes, root := cs.newRoot, marker := mk,
                  log := match cs.delta with | some d => ops.pushLog db.log d | none => db.log }) ∧
    ((specStep ops db (.commit cs mk pf .ok)).2 ≠ .ok → (specStep ops db (.commit cs mk pf .ok)).1 = db) := by
  cases hp : db.poisoned <;> by_cases hr : db.root = cs.base <;> cases hd : cs.delta <;>
    simp [specStep, hp, hr, hd]

/-- T15.6d rollback (specification side): with working I/O and a store that is not poisoned, `rollback n`
is accepted iff `n` deltas are logged; then they are popped, the content is their traceback and the root
its root. -/
theorem T15_6d_rollback_accepted_iff (db : Db C R D) (n : Nat) (hp : db.poisoned = false) :
    ((specStep ops db (.rollback n .ok)).2 = .ok ↔ n ≤ db.log.length) ∧
    ((specStep ops db (.rollback n .ok)).2 = .ok →
      (specStep ops db (.rollback n .ok)).1 =
        { db with content := ops.traceback db.content (db.log.take n),
                  root := ops.rootOf (ops.traceback db.content (db.log.take n)),
                  log := db.log.drop n, marker := none }) := by
  by_cases hl : n > db.log.length <;> simp [specStep, hp, hl] <;> omega

/-! T15.6e (`Props/C15_Locks2Api.lean`): `specStep` is the sequential API model `Api/Exec.lean`. -/

/-! ## (3) deadlock freedom with two locks -/

/-- T15.7a **the lock order of the code**: every program of the code obeys `wf` — A (read, write step 1,
write step 2, `try_write`) is never acquired and M never re-acquired while M is held, root / marker are
touched only under M, the committed state only under the write guard; the variant of `Overlay::commit` that
keeps the marker check's M guard across `access_lock.write()` does not. -/
theorem T15_7a_lock_order (c : Call R W D) :
    (c.isCode = true → wf false (if (opOf c).isSome then .pre else .none) (progOf c) = true) ∧
    (∀ cs id parent io, c = .ovCommitHoldM cs id parent io → wf false .pre (progOf c) = false) :=
  ⟨wf_progOf c, fun cs id parent io h => by subst h; exact not_wf_holdM cs id parent io⟩

/-- T15.7b **every wait edge lowers the rank**, in every state reached by a trace of code calls that respects
the caller discipline (`Good`: a session owner starts no call that can wait for the access lock). -/
theorem T15_7b_rank_decreases (db0 : Db C R D) (evs : List (Event R W D))
    (hg : Good ops (init db0) evs) (t u : Tid) :
    let s := run ops (init db0) evs
    blocked s t = true → WaitsFor s t u → rank s u < rank s t := by
  obtain ⟨h1, hd⟩ := good_run ops evs _ hg (inv1_init db0) (disc_init db0)
  exact rank_decreases _ h1 hd t u

/-- T15.7c **no cyclic wait**. -/
theorem T15_7c_no_wait_cycle (db0 : Db C R D) (evs : List (Event R W D))
    (hg : Good ops (init db0) evs) (t : Tid) : ¬ WaitPath (run ops (init db0) evs) t t := by
  obtain ⟨h1, hd⟩ := good_run ops evs _ hg (inv1_init db0) (disc_init db0)
  exact no_wait_cycle _ h1 hd t

/-- T15.7 **deadlock freedom.**  In every state reached by a `Good` trace: if a thread is blocked, then
following wait edges from it (at most three) there is a thread that can move — it is not blocked and is
either inside a call, in which case its next micro-step executes (`unblocked_step`), or an idle session
owner, who can end its session (`endSession` has no blocking micro-step). -/
theorem T15_7_deadlock_free (db0 : Db C R D) (evs : List (Event R W D))
    (hg : Good ops (init db0) evs) (t : Tid) :
    let s := run ops (init db0) evs
    blocked s t = true → ∃ u, WaitPath s t u ∧ CanMove s u := by
  obtain ⟨h1, hd⟩ := good_run ops evs _ hg (inv1_init db0) (disc_init db0)
  intro s hb
  exact progress s h1 hd (rank s t) t (Nat.le_refl _) hb

/-- waiting is passive, moving is real: a blocked `step` leaves the state as it is; a thread inside a call
that is not blocked performs its micro-step. -/
theorem T15_7d_steps (s : S C R W D) (t : Tid) :
    (blocked s t = true → next ops s (.step t) = (s, .blocked)) ∧
    (∀ i rest, (s.thr t).prog = i :: rest → blocked s t = false → (next ops s (.step t)).2 ≠ .blocked) :=
  ⟨blocked_step ops s t, fun i rest hp hb => unblocked_step ops s t i rest hp hb⟩

/-! ## (4) the non-blocking commits -/

/-- T15.8a `FinishedSession::try_commit_nonblocking` and `Overlay::try_commit_nonblocking` contain no
blocking acquisition of the access lock … -/
theorem T15_8a_try_commit_no_A_wait (cs : CS R W D) (id : Nat) (parent : Option Nat) (io : IoPlan) :
    noABlock (progOf (.tryCommit cs io : Call R W D)) = true ∧
    noABlock (progOf (.ovTryCommit cs id parent io : Call R W D)) = true := by
  simp [progOf, noABlock]

/-- T15.8b … so in every reachable state a thread running one (any continuation without such an acquisition)
can only ever wait for M, whose holder is never blocked and not idle: the wait is bounded by the few
micro-steps of an M section. -/
theorem T15_8b_only_waits_for_M (db0 : Db C R D) (evs : List (Event R W D))
    (hc : ∀ e ∈ evs, e.isCode = true) (t : Tid) :
    let s := run ops (init db0) evs
    noABlock (s.thr t).prog = true → blocked s t = true →
    ∃ u, s.m = some u ∧ blocked s u = false ∧ (s.thr u).prog ≠ [] := by
  intro s hn hb
  have h1 := inv1_run ops evs _ hc (inv1_init db0)
  unfold blocked at hb
  cases hp : (s.thr t).prog with
  | nil => rw [hp] at hb; cases hb
  | cons i rest =>
    rw [hp] at hb hn
    cases i <;> simp [noABlock] at hn <;> simp at hb
    obtain ⟨u, hu⟩ := Option.isSome_iff_exists.1 hb
    have htu := h1.typed u
    rw [show (s.m == some u) = true by simp [s, hu]] at htu
    obtain ⟨hne, hhead⟩ := head_of_holdsM _ _ htu
    refine ⟨u, hu, ?_, hne⟩
    have := rank_zero_of_not_waitHead s u hhead
    cases hbu : blocked s u with
    | false => rfl
    | true => have := (blocked_iff_rank s u).1 hbu; omega

/-- T15.8c **`try_write`**: the micro-step never waits; it hands the changeset back (`busy`, the call ends,
the committed state and the lock words are untouched) iff a session is live or a writer owns WRITER_BIT
(holds the write guard or waits for the readers); otherwise it takes the write guard. -/
theorem T15_8c_try_write (s : S C R W D) (t : Tid) (rest : List (Instr R W D)) (hw : s.wbit ≠ some t) :
    (exec ops s t .aTryWrite rest).2 ≠ .blocked ∧
    ((exec ops s t .aTryWrite rest).2 = .finished .busy ↔ (s.readers ≠ [] ∨ s.wbit.isSome = true)) ∧
    ((exec ops s t .aTryWrite rest).2 = .finished .busy →
      let s' := (exec ops s t .aTryWrite rest).1
      s'.db = s.db ∧ s'.readers = s.readers ∧ s'.wbit = s.wbit ∧ s'.wown = s.wown ∧
      (s'.thr t).prog = [] ∧ (s'.thr t).res = some .busy) ∧
    ((exec ops s t .aTryWrite rest).2 ≠ .finished .busy →
      let s' := (exec ops s t .aTryWrite rest).1
      s'.wbit = some t ∧ s'.wown = true ∧ (exec ops s t .aTryWrite rest).2 = .ran) := by
  have hbne : (s.wbit == some t) = false := by simpa using hw
  by_cases hc : (s.wbit.isSome || !s.readers.isEmpty) = true
  · have hc' : s.readers ≠ [] ∨ s.wbit.isSome = true := by
      simp only [Bool.or_eq_true, Bool.not_eq_true', List.isEmpty_eq_false_iff] at hc
      exact hc.symm
    simp only [exec, hc, if_true]
    refine ⟨by simp, by simp [hc'], fun _ => ?_, fun h => absurd rfl h⟩
    simp [abort, hbne]
  · have hc' : ¬ (s.readers ≠ [] ∨ s.wbit.isSome = true) := by
      simp only [Bool.or_eq_true, Bool.not_eq_true', List.isEmpty_eq_false_iff] at hc
      exact fun h => hc h.symm
    simp only [exec, hc, if_false]
    refine ⟨by simp, by simp [hc'], fun h => by simp at h, fun _ => by simp⟩

/-! ## Non-vacuity and counterexamples (instance `natOps`: content = root = a stamp) -/

abbrev E := Event Nat Nat Nat
def steps (t : Tid) (n : Nat) : List E := List.replicate n (.step t)

/-- A full history: thread 1 opens session 7 and reads; thread 2's blocking commit `0 → 5` takes WRITER_BIT
and waits; thread 3's non-blocking commit `0 → 6` is handed back (`busy`); the session ends; thread 2
commits; thread 3 retries and is stale; thread 4 rolls back one commit. -/
def exHistory : List E :=
  [.call 1 (.beginSession 7)] ++ steps 1 5 ++
  [.call 2 (.commit (natCS 0 5) .ok), .step 2, .step 2,          -- WRITER_BIT, then blocked on the reader
   .call 3 (.tryCommit (natCS 0 6) .ok), .step 3,                -- busy
   .call 1 (.sessRead 7), .step 1, .step 1,
   .call 1 (.endSession 7), .step 1, .step 1] ++
  steps 2 10 ++
  [.call 3 (.tryCommit (natCS 0 6) .ok)] ++ steps 3 7 ++         -- takes the guard, root check fails, unwinds
  [.call 4 (.rollback 1 .ok)] ++ steps 4 15

set_option maxRecDepth 8192 in
example : Good natOps (init (natDb 0)) exHistory := by decide
set_option maxRecDepth 8192 in
example : let s := run natOps (init (natDb 0)) exHistory
    s.doneRes.reverse = [.ok, .errStale, .ok] ∧ s.db.content = 0 ∧ s.db.root = 0 ∧ s.db.log = [] ∧
    s.wown = false ∧ s.readers = [] ∧ (s.thr 1).regs.obs = some 0 ∧ (s.thr 3).res = some .errStale := by decide
set_option maxRecDepth 8192 in
/-- T15.6a used: the final state is the sequential run of `commit 0→5`, `try_commit 0→6`, `rollback 1`. -/
example : specRun natOps (natDb 0) (run natOps (init (natDb 0)) exHistory).doneOps.reverse
    = ((run natOps (init (natDb 0)) exHistory).db, [.ok, .errStale, .ok]) :=
  T15_6a_quiescent_state natOps (natDb 0) exHistory (good_isCode natOps exHistory (init (natDb 0)) (by decide)) (by decide)

/-- T15.7 used: in the middle of that history thread 2 (the writer) is blocked, and the theorem's mover is
found by following its wait edge to the idle session owner, thread 1. -/
def exBlocked : List E :=
  [.call 1 (.beginSession 7)] ++ steps 1 5 ++ [.call 2 (.commit (natCS 0 5) .ok), .step 2,
   .call 5 (.beginSession 9), .step 5]
example : let s := run natOps (init (natDb 0)) exBlocked
    blocked s 2 = true ∧ blocked s 5 = true ∧ rank s 5 = 3 ∧ rank s 2 = 2 ∧ rank s 1 = 0 := by decide
example : ∃ u, WaitPath (run natOps (init (natDb 0)) exBlocked) 5 u ∧ CanMove (run natOps (init (natDb 0)) exBlocked) u :=
  T15_7_deadlock_free natOps (natDb 0) exBlocked (by decide) 5 (by decide)

/-- **Counterexample 1 — reversed lock order at one site.**  `Overlay::commit` keeping the M guard of its
marker check across `access_lock.write()` (M before A): thread 1 is inside `begin_session` (holds the read
guard, about to take M for `self.root()`), thread 2 took M, then WRITER_BIT, and now waits for the readers.
Each waits for the other; nobody can move, forever. -/
def cexOrder : List E :=
  [.call 1 (.beginSession 7), .step 1,
   .call 2 (.ovCommitHoldM (natCS 0 5) 1 none .ok), .step 2, .step 2, .step 2]

theorem cexOrder_deadlock :
    let s := run natOps (init (natDb 0)) cexOrder
    WaitPath s 1 1 ∧ (∀ u, ¬ CanMove s u) ∧ (∀ t, next natOps s (.step t) = (s, .blocked) ∨
      next natOps s (.step t) = (s, .idle)) := by
  intro s
  have hb1 : blocked s 1 = true := by decide
  have hb2 : blocked s 2 = true := by decide
  have hw12 : WaitsFor s 1 2 := by show s.m = some 2; decide
  have hw21 : WaitsFor s 2 1 := by
    show ∃ x ∈ s.readers, x.owner = 1
    exact ⟨⟨1, 7, 0, 0, none, none, false⟩, by decide, rfl⟩
  have hidle : ∀ u, u ≠ 1 → u ≠ 2 → (s.thr u).prog = [] ∧ holdsSession s u = false := by
    intro u h1 h2
    have : (s.thr u) = (init (natDb 0) : S Nat Nat Nat Nat).thr u := by
      apply run_thr_other
      intro e he
      simp only [cexOrder, List.mem_cons, List.not_mem_nil, or_false] at he
      rcases he with rfl | rfl | rfl | rfl | rfl | rfl <;> simp only [Event.tid] <;>
        first | exact fun h => h1 h.symm | exact fun h => h2 h.symm
    refine ⟨by rw [this]; rfl, ?_⟩
    have hr : s.readers.map (·.owner) = [1] := by decide
    simp only [holdsSession, List.any_eq_false]
    intro x hx
    have : x.owner ∈ s.readers.map (·.owner) := List.mem_map_of_mem hx
    rw [hr] at this
    simp only [List.mem_singleton] at this
    simp only [this, Bool.not_eq_true, beq_eq_false_iff_ne, ne_eq]
    exact fun h => h1 h.symm
  refine ⟨.cons hb1 hw12 (.one hb2 hw21), ?_, ?_⟩
  · intro u hu
    by_cases h1 : u = 1
    · subst h1; have := hu.1; rw [hb1] at this; cases this
    · by_cases h2 : u = 2
      · subst h2; have := hu.1; rw [hb2] at this; cases this
      · obtain ⟨hp, hs⟩ := hidle u h1 h2
        rcases hu.2 with h | h
        · exact h hp
        · rw [hs] at h; cases h
  · intro t
    by_cases h1 : t = 1
    · subst h1; exact Or.inl (blocked_step natOps s 1 hb1)
    · by_cases h2 : t = 2
      · subst h2; exact Or.inl (blocked_step natOps s 2 hb2)
      · right
        simp [next, (hidle t h1 h2).1]

/-- **Counterexample 2 — the caller discipline is necessary.**  Thread 1 owns session 7; thread 2's blocking
commit has taken WRITER_BIT and waits for that session; thread 1 now calls `begin_session` again (or
`Nomt::read`): parking_lot's `read` does not pass a waiting writer, so thread 1 waits for thread 2, which
waits for thread 1.  (The trace is not `Good`.) -/
def cexNested : List E :=
  [.call 1 (.beginSession 7)] ++ steps 1 5 ++
  [.call 2 (.commit (natCS 0 5) .ok), .step 2, .call 1 (.beginSession 8)]

theorem cexNested_deadlock :
    let s := run natOps (init (natDb 0)) cexNested
    WaitPath s 1 1 ∧ blocked s 1 = true ∧ blocked s 2 = true ∧ ¬ Good natOps (init (natDb 0)) cexNested ∧
    (∀ e ∈ cexNested, e.isCode = true) := by
  intro s
  have hb1 : blocked s 1 = true := by decide
  have hb2 : blocked s 2 = true := by decide
  have hw12 : WaitsFor s 1 2 := by show s.wbit = some 2; decide
  have hw21 : WaitsFor s 2 1 := by
    show ∃ x ∈ s.readers, x.owner = 1
    exact ⟨⟨1, 7, 0, 0, some 0, none, false⟩, by decide, rfl⟩
  exact ⟨.cons hb1 hw12 (.one hb2 hw21), hb1, hb2, by decide, by decide⟩

/-- **Observation — the parent-committed check of `Overlay::commit` is not under the write guard.**  The marker
is compared under M *before* `access_lock.write()`.  Overlay 1 (`0 → 5`) is committed (marker `Some(1)`); its
child, overlay 2 (`5 → 7`, parent 1), passes the marker check; before it gets the write guard another
thread commits `5 → 9` and rolls it back (root `5` again, marker `None`); the child then finds its base
root current and is accepted although the marker at that moment is `None`.  The atomic specification
`Api.commitOv` evaluated at the moment of the write guard would refuse.  Harmless for the state (the root,
hence under `Sound` the content, is the parent's), and covered by T15.6 because the guarded section of an
overlay commit is `specStep (.commit cs (some id) ..)`, which does not look at the marker. -/
def exMarkerToctou : List E :=
  [.call 1 (.ovCommit (natCS 0 5) 1 none .ok)] ++ steps 1 14 ++
  [.call 2 (.ovCommit (natCS 5 7) 2 (some 1) .ok)] ++ steps 2 3 ++          -- marker check passed
  [.call 3 (.commit (natCS 5 9) .ok)] ++ steps 3 11 ++
  [.call 3 (.rollback 1 .ok)] ++ steps 3 15
set_option maxRecDepth 8192 in
example : let s := run natOps (init (natDb 0)) exMarkerToctou
    s.db.marker = none ∧ s.db.root = 5 ∧
    (run natOps s (steps 2 11)).doneRes.reverse = [.ok, .ok, .ok, .ok] ∧
    (run natOps s (steps 2 11)).db.root = 7 ∧ (run natOps s (steps 2 11)).db.marker = some 2 := by decide

/-- **Sensitivity of (2) to the order of the micro-steps** (defect F1 of the unchanged tree): the critical
section of `try_commit_nonblocking` as it was before the repair — rollback delta appended BEFORE the root
check — is not `specStep`: on a stale changeset it leaves its delta in the log.  (`runCS_progOf` fails for
that program; with the repaired order it is a theorem.) -/
example :
    let cs := natCS 3 6
    let sectionF1 : List (Instr Nat Nat Nat) :=
      [.chkPoison, .logPush cs.delta true, .mLock, .chkRoot cs.base, .pubRoot cs.newRoot none, .mUnlock,
       .store cs.writes true, .aWriteUnlock .ok]
    (runCS natOps sectionF1 {} (natDb 0)).2 = .errStale ∧ (runCS natOps sectionF1 {} (natDb 0)).1.log = [3] ∧
    (specStep natOps (natDb 0) (.commit cs none false .ok)).2 = .errStale ∧
    (specStep natOps (natDb 0) (.commit cs none false .ok)).1.log = [] := by decide

/-- I/O failure and the poison flag: `store.commit` fails in thread 1's commit (the root is already published),
the store is poisoned, thread 2's commit is refused under the guard — and the sequential specification says
the same. -/
def exPoison : List E :=
  [.call 1 (.commit (natCS 0 5) .failStore)] ++ steps 1 11 ++ [.call 2 (.commit (natCS 5 6) .ok)] ++ steps 2 5
example : let s := run natOps (init (natDb 0)) exPoison
    s.doneRes.reverse = [.errIo, .errPoisoned] ∧ s.db.poisoned = true ∧ s.db.root = 5 ∧ s.db.content = 0 ∧
    s.wbit = none ∧ s.m = none := by decide

end Nomt.C15
