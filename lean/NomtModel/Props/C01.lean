import NomtModel.Api.KVBasic
/-!
# C01 — Committed key-value state equals the sequential model  (first claim)
-/
namespace Nomt.C01
open Nomt
variable {VH : Type}

/-- T1.1a: a written key reads back the written value -/
theorem T1_1a_get_insert_self (m : KVL VH) (k : Key) (v : VH) : kvGet (kvInsert m k v) k = some v :=
  kvGet_kvInsert_self m k v

/-- T1.1b: writing one key does not change any other key -/
theorem T1_1b_get_insert_other (m : KVL VH) (k k' : Key) (v : VH) (hne : k' ≠ k) :
    kvGet (kvInsert m k v) k' = kvGet m k' :=
  kvGet_kvInsert_other m k k' v hne

example : kvGet (kvInsert (kvInsert ([] : KVL Nat) [true] 1) [false] 2) [true] = some 1 := by decide

end Nomt.C01
