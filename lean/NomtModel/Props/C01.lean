import NomtModel.Api.KVLemmas
/-!
# C01 — Committed key-value state equals the sequential model

The sequential model is the strictly sorted association list of `Api/KV.lean`; the laws below say that it
behaves as a map from keys to values (helper lemmas: `Api/KVBasic.lean`, `Api/KVLemmas.lean`).
-/
namespace Nomt.C01
open Nomt
variable {VH : Type}

/-- T1.1a: a written key reads back the written value -/
theorem T1_1a_get_insert_self (m : KVL VH) (k : Key) (v : VH) : kvGet (kvInsert m k v) k = some v :=
  kvGet_kvInsert_self m k v

/-- T1.1b: writing one key does not change any other key -/
theorem T1_1b_get_insert_other (m : KVL VH) (k k' : Key) (v : VH) (hne : k' ≠ k) :
    kvGet (kvInsert m k v) k' = kvGet m k' :=
  kvGet_kvInsert_other m k k' v hne

/-- T1.1: the write law.  On a sorted map, after writing `w` (a value or a deletion) to `k`, the key `k`
reads `w`, every other key is unchanged, and the map stays sorted. -/
theorem T1_1_write_law (m : KVL VH) (hs : KSorted m) (k : Key) (w : Option VH) :
    (∀ k', kvGet (kvWrite m k w) k' = if k' = k then w else kvGet m k') ∧ KSorted (kvWrite m k w) :=
  ⟨kvGet_kvWrite hs k w, kvWrite_sorted hs k w⟩

/-- T1.1c: the batch law — a key reads the last write to it in the batch (`kvApply` folds left, later
entries win), else its old value; the result is sorted. -/
theorem T1_1c_batch_law (m : KVL VH) (hs : KSorted m) (ws : List (Key × Option VH)) :
    (∀ k, kvGet (kvApply m ws) k = match wsLookupLast ws k with | some w => w | none => kvGet m k) ∧
    KSorted (kvApply m ws) :=
  ⟨kvGet_kvApply hs ws, kvApply_sorted hs ws⟩

/-- T1.1d: for a batch with pairwise distinct keys (what a session produces) first-wins = last-wins -/
theorem T1_1d_batch_law_distinct (m : KVL VH) (hs : KSorted m) (ws : List (Key × Option VH)) (hd : WDistinct ws)
    (k : Key) : kvGet (kvApply m ws) k = match wsLookup ws k with | some w => w | none => kvGet m k :=
  kvGet_kvApply_distinct hs hd k

/-- T1.2: `get` after a whole history of batches (applied oldest first to a sorted map) returns the value
of the last write to `k` in the whole history — the write `(k, w)` after which no write to `k` follows —
or the original value when `k` was never written. -/
theorem T1_2_get_history_last_write (m : KVL VH) (hs : KSorted m) (bs : List (List (Key × Option VH)))
    (k : Key) :
    (∀ pre post w, bs.flatten = pre ++ (k, w) :: post → (∀ kw ∈ post, kw.1 ≠ k) →
        kvGet (kvApplyAll m bs) k = w) ∧
    ((∀ kw ∈ bs.flatten, kw.1 ≠ k) → kvGet (kvApplyAll m bs) k = kvGet m k) := by
  rw [kvApplyAll_eq_flatten, kvGet_kvApply hs]
  constructor
  · intro pre post w e hp
    rw [(wsLookupLast_eq_some_iff _ k w).2 ⟨pre, post, e, hp⟩]
  · intro hn
    rw [(wsLookupLast_eq_none_iff _ k).2 hn]

/-- T1.2 in functional form, with `wsLookupLast` (characterised by `wsLookupLast_eq_some_iff` /
`wsLookupLast_eq_none_iff`) over the concatenated history -/
theorem T1_2b_get_history (m : KVL VH) (hs : KSorted m) (bs : List (List (Key × Option VH))) (k : Key) :
    kvGet (kvApplyAll m bs) k = match wsLookupLast bs.flatten k with | some w => w | none => kvGet m k := by
  rw [kvApplyAll_eq_flatten]; exact kvGet_kvApply hs _ k

/-- T1.3: a deleted key is indistinguishable from one that never existed — the *lists* are equal, so
every observation (reads, root, iteration) is -/
theorem T1_3_delete_indistinguishable (m : KVL VH) (hs : KSorted m) (k : Key) (v : VH) (hn : kvGet m k = none) :
    kvErase (kvInsert m k v) k = m :=
  kvErase_kvInsert hs k v hn

/-- T1.4: sorted maps are determined by their reads -/
theorem T1_4_extensionality (a b : KVL VH) (ha : KSorted a) (hb : KSorted b) (h : ∀ k, kvGet a k = kvGet b k) :
    a = b := kv_ext ha hb h

/-- non-vacuity: a sorted two-element map, a history writing `[true]` twice and deleting `[false]` -/
example : KSorted ([([false], 2), ([true], 1)] : KVL Nat) ∧
    kvGet (kvApplyAll ([([false], 2), ([true], 1)] : KVL Nat)
      [[([true], some 5), ([false], none)], [([true], some 7)]]) [true] = some 7 ∧
    kvErase (kvInsert ([([false], 2)] : KVL Nat) [true] 1) [true] = [([false], 2)] := by
  refine ⟨?_, by decide, by decide⟩
  simp [KSorted, bitsLt]

end Nomt.C01
