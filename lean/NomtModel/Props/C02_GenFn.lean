import NomtModel.Store.GenFnCheck
/-!
# C02 (topic: translated functions — node indices inside a page, `core/src/trie_pos.rs`)
-/
namespace Nomt.C02
open Nomt

/-- T2.fn the free functions `sibling_index`, `parent_node_index`, `bottom_node_index` of the CURRENT source are the mirrors the
position theorems (`Props/C02_TriePos.lean`) are stated with — same values, same panic sites (`node_index - 2`, `as u8 - 62`) -/
theorem T2_fn_node_indices (i : Nat) (hb : i < 2 ^ 63) :
    GenFn.sibling_index i = some (TriePos.siblingIndexOf i) ∧
    GenFn.parent_node_index i = TriePos.parentNodeIndex i ∧
    GenFn.bottom_node_index i = TriePos.bottomNodeIndex i :=
  ⟨GenFnCheck.sibling_index_eq_mirror i hb, GenFnCheck.parent_node_index_eq i, GenFnCheck.bottom_node_index_eq i⟩

example : GenFn.sibling_index 62 = some 63 ∧ GenFn.sibling_index 125 = some 124 ∧ GenFn.parent_node_index 125 = some 61 ∧
    GenFn.parent_node_index 1 = none ∧ GenFn.bottom_node_index 62 = some 0 ∧ GenFn.bottom_node_index 61 = none := by decide

end Nomt.C02
