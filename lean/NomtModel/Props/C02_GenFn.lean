import NomtModel.Store.GenFnCheck2
/-!
# C02 (topic: translated functions — node indices inside a page, `core/src/trie_pos.rs`)
-/
namespace Nomt.C02
open Nomt

/-- T2.fn the free functions `sibling_index`, `parent_node_index`, `bottom_node_index` of the CURRENT source are the mirrors the
position theorems (`Props/C02_TriePos.lean`) are stated with — same values, same panic sites (`node_index - 2`, `as u8 - 62`) -/
theorem T2_fn_node_indices (i : Nat) (hb : i < 2 ^ 63) :
    GenFn.sibling_index i = some (TriePos.siblingIndexOf i) ∧
    GenFn.parent_node_index i = TriePos.parentNodeIndex i ∧
    GenFn.bottom_node_index i = TriePos.bottomNodeIndex i :=
  ⟨GenFnCheck.sibling_index_eq_mirror i hb, GenFnCheck.parent_node_index_eq i, GenFnCheck.bottom_node_index_eq i⟩

example : GenFn.sibling_index 62 = some 63 ∧ GenFn.sibling_index 125 = some 124 ∧ GenFn.parent_node_index 125 = some 61 ∧
    GenFn.parent_node_index 1 = none ∧ GenFn.bottom_node_index 62 = some 0 ∧ GenFn.bottom_node_index 61 = none := by decide

/-- T2.fn-2 the METHODS `TriePosition::{is_root, depth_in_page, child_node_indices, is_first_layer_in_page, sibling_index}` of the CURRENT
source (their `self` fields passed as arguments) are the mirrors of `Core/TriePos.lean` for every position whose depth fits `u16` and
whose node index is below `2^62` — same values, same panic sites (`child_node_indices` outside layers 1…5) -/
theorem T2_fn_position_methods (p : TriePos.Pos) (h : p.depth < 2 ^ 16) (hi : p.nodeIndex < 2 ^ 62) :
    GenFn.tp_is_root p.depth = some p.isRoot ∧ GenFn.tp_depth_in_page p.depth = some p.depthInPage ∧
    GenFn.tp_child_node_indices p.depth p.nodeIndex = p.childNodeIndices ∧
    GenFn.tp_is_first_layer_in_page p.nodeIndex = some p.isFirstLayerInPage ∧
    GenFn.tp_sibling_index p.nodeIndex = some p.siblingIndex :=
  ⟨GenFnCheck.tp_is_root_eq p, GenFnCheck.tp_depth_in_page_eq p h, GenFnCheck.tp_child_node_indices_eq p h hi,
   GenFnCheck.tp_is_first_layer_eq p (Nat.lt_trans hi (by decide)), GenFnCheck.tp_sibling_index_eq p (Nat.lt_trans hi (by decide))⟩

/-- T2.fn-3 `ChildNodeIndices::{left, right, in_next_page}` of the current source -/
theorem T2_fn_child_node_indices (l : Nat) (h : l < 2 ^ 63) :
    GenFn.cni_left l = some (TriePos.cniLeft l) ∧ GenFn.cni_right l = some (TriePos.cniRight l) ∧
    GenFn.cni_in_next_page l = some (TriePos.cniInNextPage l) := GenFnCheck.cni_eq l h

/-- T2.fn-4 `ChildPageIndex::new` never panics and refuses exactly the indices above `MAX_CHILD_INDEX`; `child_page_index()` /
`sibling_child_page_index()` of the current source are the mirrors (panic above the bottom layer of the page) -/
theorem T2_fn_child_page_index (p : TriePos.Pos) (hi : p.nodeIndex < 2 ^ 63) (i : Nat) :
    GenFn.child_page_index_new i = some (TriePos.cpiNew i) ∧ GenFn.tp_child_page_index p.nodeIndex = p.childPageIndex ∧
    GenFn.tp_sibling_child_page_index p.nodeIndex = p.siblingChildPageIndex :=
  ⟨GenFnCheck.child_page_index_new_eq i, GenFnCheck.tp_child_page_index_eq p, GenFnCheck.tp_sibling_child_page_index_eq p hi⟩

example : GenFn.tp_depth_in_page 13 = some 1 ∧ GenFn.tp_depth_in_page 12 = some 6 ∧ GenFn.tp_child_node_indices 13 1 = some 4 ∧
    GenFn.tp_child_node_indices 12 100 = none ∧ GenFn.tp_child_page_index 125 = some 63 ∧ GenFn.tp_child_page_index 61 = none ∧
    GenFn.child_page_index_new 64 = some none ∧ GenFn.tp_is_first_layer_in_page 1 = some true ∧ GenFn.tp_is_first_layer_in_page 2 = some false := by decide

end Nomt.C02
