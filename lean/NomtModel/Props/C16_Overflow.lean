import NomtModel.Store.OvfMain
import NomtModel.Generated.Constants
/-!
# C16 (topic: the byte formats of overflow cells and overflow pages — `beatree/ops/overflow.rs`)

The two formats an overflow value lives in, as the code writes and reads them (model `Store/OvfModel.lean`, lemmas
`Store/OvfCell.lean`; tie: the `overflow` differential compares cells and page prefixes byte for byte).
-/
namespace Nomt.C16
open Nomt Nomt.Ovf
open Nomt.Wal (Bytes leBytes leNat slice)

/-- T16.ovf-1 **the overflow cell** is `value_size: u64 LE ‖ value_hash[32] ‖ page numbers: u32 LE …`, of length
`40 + 4k`; `decode_cell` inverts `encode_cell`, and whatever `decode_cell` accepts re-encodes to the same bytes. -/
theorem T16_overflow_cell_format (vs : Nat) (hash : Bytes) (pages : List Nat) (cell : Bytes)
    (h : encodeCell vs hash pages = some cell) :
    cell = leBytes 8 vs ++ hash ++ pages.flatMap (leBytes 4) ∧ cell.length = 8 + hash.length + 4 * pages.length ∧
    (hash.length = 32 → (∀ x ∈ pages, x < 2 ^ 32) → pages ≠ [] → decodeCell cell = some (vs, hash, pages)) := by
  refine ⟨?_, length_encodeCell vs hash pages cell h, fun hh hp hne => decodeCell_encodeCell vs hash pages cell hh hp hne h⟩
  unfold encodeCell at h
  split at h
  · simp at h
  · simpa using h.symm

/-- T16.ovf-2 `decode_cell` accepts a byte string iff it is at least 44 bytes long, a multiple of 4 and declares a
size ≤ 2²⁹ — and then the three fields re-encode to exactly that string. -/
theorem T16_overflow_cell_decoder (raw : Bytes) :
    ((decodeCell raw).isSome = true ↔ 44 ≤ raw.length ∧ raw.length % 4 = 0 ∧ leNat (slice raw 0 8) ≤ MAX_VALUE_SIZE) ∧
    (∀ vs hash pages, decodeCell raw = some (vs, hash, pages) → encodeCell vs hash pages = some raw) :=
  ⟨decodeCell_isSome_iff raw, fun vs hash pages h => (encodeCell_decodeCell raw vs hash pages h).1⟩

/-- T16.ovf-3 **the overflow page** is `n_pointers: u16 LE ‖ n_bytes: u16 LE ‖ pointers: u32 LE … ‖ bytes ‖ whatever the
pool page held`; `parse_page` returns the pointers and the bytes for every content of the rest of the page, and what
it returns from any page fits a page body. -/
theorem T16_overflow_page_format (junk : Bytes) (pns : List Nat) (bytes : Bytes) (hj : junk.length = PAGE_SIZE)
    (hp : ∀ x ∈ pns, x < 2 ^ 32) (hfit : 4 * pns.length + bytes.length ≤ BODY_SIZE) :
    mkPage junk pns bytes = leBytes 2 pns.length ++ leBytes 2 bytes.length ++ pns.flatMap (leBytes 4) ++ bytes ++
        junk.drop (4 + 4 * pns.length + bytes.length) ∧
    (mkPage junk pns bytes).length = PAGE_SIZE ∧ parsePage (mkPage junk pns bytes) = some (pns, bytes) ∧
    (∀ (page : Bytes) (pns' : List Nat) (bytes' : Bytes), page.length = PAGE_SIZE →
        parsePage page = some (pns', bytes') → 4 * pns'.length + bytes'.length ≤ BODY_SIZE ∧ ∀ x ∈ pns', x < 2 ^ 32) :=
  ⟨rfl, length_mkPage junk pns bytes hj hfit, parsePage_mkPage junk pns bytes hj hp hfit,
   fun page pns' bytes' hl h => parsePage_bounds page hl pns' bytes' h⟩

/-- T16.ovf-const the constants of the overflow model are the ones extracted from the Rust sources on every run
(`tools/gen_constants.py` → `Generated/Constants.lean`): a changed constant breaks this obligation. -/
theorem T16_const_overflow :
    Ovf.PAGE_SIZE = Gen.PAGE_SIZE ∧ Ovf.BODY_SIZE = Gen.OVERFLOW_BODY_SIZE ∧ Ovf.MAX_PNS = Gen.OVERFLOW_MAX_PNS ∧
    Ovf.HEADER_SIZE = Gen.OVERFLOW_HEADER_SIZE ∧ Ovf.MAX_CELL_PNS = Gen.MAX_OVERFLOW_CELL_NODE_POINTERS ∧
    Ovf.MAX_VALUE_SIZE = Gen.MAX_OVERFLOW_VALUE_SIZE ∧ Ovf.LEAF_NODE_BODY_SIZE = Gen.LEAF_NODE_BODY_SIZE ∧
    Ovf.MAX_LEAF_VALUE_SIZE = Gen.MAX_LEAF_VALUE_SIZE ∧ 4 * Ovf.MAX_PNS = Ovf.BODY_SIZE := by decide

example : encodeCell 70000 (List.replicate 32 1) [5000, 4997] =
    some (leBytes 8 70000 ++ List.replicate 32 1 ++ (leBytes 4 5000 ++ leBytes 4 4997)) := by decide
example : decodeCell (leBytes 8 70000 ++ List.replicate 32 1 ++ (leBytes 4 5000 ++ leBytes 4 4997)) =
    some (70000, List.replicate 32 1, [5000, 4997]) := by decide
example : decodeCell (leBytes 8 (2 ^ 29 + 1) ++ List.replicate 32 1 ++ leBytes 4 5000) = none := by decide

end Nomt.C16
